(* P2pProofs.v — lemmas about the point-to-plane estimator model (P2pModel.v), real-number instance. *)
From Coq Require Import Reals List Arith Lia Lra Bool Psatz.
From Romea Require Import Num NumR LinAlgBModel LinAlgBProofs LsModel LsProofs LsHistoryProofs P2pModel.
Import ListNotations.
Local Open Scope R_scope.

Local Notation vg := (vget ROps).

(* ---------------- residual identity ---------------- *)
(* 2D, unknowns x = (tau_x, tau_y, w):  row . x - y = n . ((I + [w]x) s + tau - t) *)
Lemma p2p_residual_identity_2d (s t n : list R) (x : nat -> R) :
  Rsum 3 (fun c => vg (p2p_row ROps 2 s n) c * x c) - p2p_y ROps 2 s t n =
  vg n 0 * ((vg s 0 - x 2%nat * vg s 1) + x 0%nat - vg t 0) + vg n 1 * ((vg s 1 + x 2%nat * vg s 0) + x 1%nat - vg t 1).
Proof. unfold p2p_row, p2p_y. cbn [sumn]. unfold vget. cbn. ring. Qed.

(* 3D, unknowns x = (tau, w):  (I + [w]x) s = s + w x s *)
Lemma p2p_residual_identity_3d (s t n : list R) (x : nat -> R) :
  Rsum 6 (fun c => vg (p2p_row ROps 3 s n) c * x c) - p2p_y ROps 3 s t n =
  vg n 0 * ((vg s 0 + (x 4%nat * vg s 2 - x 5%nat * vg s 1)) + x 0%nat - vg t 0) +
  vg n 1 * ((vg s 1 + (x 5%nat * vg s 0 - x 3%nat * vg s 2)) + x 1%nat - vg t 1) +
  vg n 2 * ((vg s 2 + (x 3%nat * vg s 1 - x 4%nat * vg s 0)) + x 2%nat - vg t 2).
Proof. unfold p2p_row, p2p_y. cbn [sumn]. unfold vget. cbn. ring. Qed.

(* homogeneous types: the extra coordinate contributes (t_w - s_w) n_w = 0 when both points carry the same w *)
Lemma p2p_y_homogeneous d (s t n : list R) : vg s d = vg t d -> p2p_y ROps (S d) s t n = p2p_y ROps d s t n.
Proof. intros H. unfold p2p_y. cbn [sumn]. rsimpl. rewrite H. lra. Qed.

(* ---------------- scaling (isotropic preconditioning of both point sets) ---------------- *)
Definition scaled (c : R) (p : list R) : list R := map (fun x => x * c) p.

Lemma vg_scaled c p i : vg (scaled c p) i = vg p i * c.
Proof.
  unfold scaled, vget. destruct (Nat.lt_ge_cases i (length p)) as [H|H].
  - rewrite (nth_indep _ 0 (0 * c)) by (now rewrite map_length).
    now rewrite (map_nth (fun x => x * c) p 0 i).
  - rewrite !nth_overflow; [cbn; lra|exact H|now rewrite map_length].
Qed.

(* the preconditioned rows are the original rows with the rotation columns multiplied by the scale, Y is multiplied by it *)
Lemma p2p_row_scaled d c s n i : (d = 2 \/ d = 3)%nat ->
  vg (p2p_row ROps d (scaled c s) n) i = vg (p2p_row ROps d s n) i * (if Nat.ltb i d then 1 else c).
Proof.
  intros [->| ->]; unfold p2p_row; rewrite !vg_scaled; rsimpl;
    do 7 (destruct i as [|i]; [unfold vget; cbn; ring|]); unfold vget; cbn; destruct i; ring.
Qed.

Lemma p2p_y_scaled ps c s t n : p2p_y ROps ps (scaled c s) (scaled c t) n = c * p2p_y ROps ps s t n.
Proof.
  unfold p2p_y. rewrite <- Rsum_scal_l. apply Rsum_ext. intros i _. rsimpl. rewrite !vg_scaled. ring.
Qed.

(* abstract invariance: if z' solves the normal equations of (J D, c Y) then z = D z' / c solves those of (J, Y) *)
Lemma grad_scaled n k (J : nat -> nat -> R) (Y : nat -> R) (D : nat -> R) (c : R) (z' : nat -> R) i :
  c <> 0 ->
  grad n k (fun r a => J r a * D a) (fun r => c * Y r) z' i =
  (D i * c) * grad n k J Y (fun a => D a * z' a / c) i.
Proof.
  intros Hc. unfold grad, Jx. rewrite <- Rsum_scal_l. apply Rsum_ext. intros r _.
  assert (E : Rsum k (fun a => J r a * D a * z' a) = c * Rsum k (fun a => J r a * (D a * z' a / c))).
  { rewrite <- Rsum_scal_l. apply Rsum_ext. intros a _. field. exact Hc. }
  rewrite E. ring.
Qed.

(* ---------------- the estimate satisfies the normal equations of the linearised problem ---------------- *)
Section Estimate.
Variable inverse_of : nat -> list (list R) -> list (list R).
Variable svd_of : nat -> list (list R) -> (list (list R) * list R) * list (list R).
Variable fill : R.

Definition tr_rows (d : nat) (triples : list ((list R * list R) * list R)) : list (list R) :=
  map (fun tr : (list R * list R) * list R => p2p_row ROps d (fst (fst tr)) (snd tr)) triples.
Definition tr_ys (ps : nat) (triples : list ((list R * list R) * list R)) : list R :=
  map (fun tr : (list R * list R) * list R => p2p_y ROps ps (fst (fst tr)) (snd (fst tr)) (snd tr)) triples.

(* the design matrix and right-hand side of the property's linearised problem, as functions *)
Definition Jp (d : nat) (triples : list ((list R * list R) * list R)) (r c : nat) : R := vg (nth r (tr_rows d triples) []) c.
Definition Yp (ps : nat) (triples : list ((list R * list R) * list R)) (r : nat) : R := nth r (tr_ys ps triples) 0.

Lemma p2p_row_length d s n : (d = 2 \/ d = 3)%nat -> length (p2p_row ROps d s n) = p2p_k d.
Proof. intros [->| ->]; reflexivity. Qed.

Lemma tr_rows_length d triples i : (d = 2 \/ d = 3)%nat -> (i < length triples)%nat ->
  length (nth i (tr_rows d triples) []) = p2p_k d.
Proof.
  intros Hd Hi. unfold tr_rows.
  set (f := fun tr : (list R * list R) * list R => p2p_row ROps d (fst (fst tr)) (snd tr)).
  set (dtr := ((@nil R, @nil R), @nil R)).
  rewrite (nth_indep _ [] (f dtr)) by (now rewrite map_length).
  rewrite (map_nth f). unfold f.
  now apply p2p_row_length.
Qed.

(* loading the rows from any ready state gives a state whose first n rows are exactly the property's design matrix *)
Lemma p2p_load_spec svd_fixed d ps triples st st1 :
  (d = 2 \/ d = 3)%nat -> ready (p2p_k d) st -> (1 <= length triples)%nat ->
  p2p_load ROps inverse_of svd_of fill svd_fixed d ps triples st = Some st1 ->
  ls_wf st1 /\ ls_n st1 = length triples /\ ls_k st1 = p2p_k d /\ ls_A st1 = ls_A st /\ ls_b st1 = ls_b st /\
  ls_est_ok st1 = true /\
  (forall r c, (r < length triples)%nat -> Jf st1 r c = Jp d triples r c) /\
  (forall r, (r < length triples)%nat -> Yf st1 r = Yp ps triples r).
Proof.
  intros Hd Hr Hn. unfold p2p_load.
  set (ws := ls_W (fst (ls_set_data_size ROps fill (length triples) st))).
  fold (tr_rows d triples). fold (tr_ys ps triples).
  destruct (run_load ROps inverse_of svd_of fill svd_fixed (p2p_k d) (length triples) (tr_rows d triples) (tr_ys ps triples) ws st Hr Hn)
    as (s' & outs & Hrun & Hwf & En & Ek & EA & Eb & Eok & Hrows).
  { intros i Hi. now apply tr_rows_length. }
  rewrite Hrun. intros H; inversion H; subst st1.
  repeat (split; [assumption|]). split.
  - intros r c Hlt. unfold Jf, Jp, mget. destruct (Hrows r Hlt) as (-> & _). reflexivity.
  - intros r Hlt. unfold Yf, Yp, vget. destruct (Hrows r Hlt) as (_ & E & _). exact E.
Qed.

(* cost / gradient only look at the first n rows and k columns *)
Lemma grad_ext n k J1 Y1 J2 Y2 z i :
  (forall r c, (r < n)%nat -> J1 r c = J2 r c) -> (forall r, (r < n)%nat -> Y1 r = Y2 r) ->
  grad n k J1 Y1 z i = grad n k J2 Y2 z i.
Proof.
  intros HJ HY. unfold grad, Jx. apply Rsum_ext. intros r Hr. rewrite HJ, HY by exact Hr.
  f_equal. f_equal. apply Rsum_ext. intros c _. now rewrite HJ.
Qed.

Lemma cost_ext n k J1 Y1 J2 Y2 z :
  (forall r c, (r < n)%nat -> J1 r c = J2 r c) -> (forall r, (r < n)%nat -> Y1 r = Y2 r) ->
  cost n k J1 Y1 z = cost n k J2 Y2 z.
Proof.
  intros HJ HY. unfold cost, Jx. apply Rsum_ext. intros r Hr. rewrite HY by exact Hr.
  assert (E : Rsum k (fun c => J1 r c * z c) = Rsum k (fun c => J2 r c * z c)) by (apply Rsum_ext; intros; now rewrite HJ).
  now rewrite E.
Qed.

Theorem p2p_estimate_correct d ps triples st st2 H :
  (d = 2 \/ d = 3)%nat -> ready (p2p_k d) st -> (1 <= length triples)%nat ->
  p2p_estimate ROps inverse_of svd_of fill true d ps triples st = Some (st2, H) ->
  exists st1 x,
    p2p_load ROps inverse_of svd_of fill true d ps triples st = Some st1 /\
    ls_estimate_svd ROps svd_of st1 = Some (st2, x) /\ H = p2p_scatter ROps d x /\
    (svd_contract (p2p_k d) (ls_JtJ ROps st1) (svd_of (p2p_k d) (ls_JtJ ROps st1)) -> svd_all_above svd_of st1 ->
     let n := length triples in let k := p2p_k d in
     let z := ls_z st1 (svd_pinv ROps k (svd_thr svd_of st1) (svd_of k (ls_JtJ ROps st1))) in
     (forall i, (i < k)%nat -> vg x i = Rsum k (fun l => mget ROps (ls_A st) i l * z l) + vg (ls_b st) i) /\
     (forall i, (i < k)%nat -> grad n k (Jp d triples) (Yp ps triples) z i = 0) /\
     (forall y, cost n k (Jp d triples) (Yp ps triples) z <= cost n k (Jp d triples) (Yp ps triples) y) /\
     (forall y, cost n k (Jp d triples) (Yp ps triples) y = cost n k (Jp d triples) (Yp ps triples) z ->
                forall i, (i < k)%nat -> y i = z i)).
Proof.
  intros Hd Hr Hn He. unfold p2p_estimate in He.
  destruct (p2p_load ROps inverse_of svd_of fill true d ps triples st) as [st1|] eqn:El; [|discriminate].
  destruct (ls_estimate_svd ROps svd_of st1) as [[st2' x]|] eqn:Es; [|discriminate].
  inversion He; subst st2' H. exists st1, x. split; [reflexivity|]. split; [exact Es|]. split; [reflexivity|].
  destruct (p2p_load_spec true d ps triples st st1 Hd Hr Hn El) as (Hwf & En & Ek & EA & Eb & Eok & HJ & HY).
  intros Hc Hab n k z. rewrite <- Ek in Hc.
  destruct (ls_svd_correct svd_of st1 st2 x Hc Hab Es) as (P1 & P2 & P3 & P4).
  rewrite En, Ek in *. unfold Af, bf in P1. rewrite EA, Eb in P1.
  split; [exact P1|]. split; [|split].
  - intros i Hi. rewrite <- (grad_ext _ _ (Jf st1) (Yf st1)) by assumption. now apply P2.
  - intros y. rewrite <- (cost_ext n k (Jf st1) (Yf st1) _ _ z HJ HY), <- (cost_ext n k (Jf st1) (Yf st1) _ _ y HJ HY). apply P3.
  - intros y. rewrite <- (cost_ext n k (Jf st1) (Yf st1) _ _ z HJ HY), <- (cost_ext n k (Jf st1) (Yf st1) _ _ y HJ HY). apply P4.
Qed.

End Estimate.

(* ---------------- pure translation ---------------- *)
(* if J zs = Y exactly (zero residual) then the unique minimiser is zs *)
Lemma zero_residual_recovered n k J Y (z zs : nat -> R) :
  (forall r, (r < n)%nat -> Jx k J zs r = Y r) ->
  (forall y, cost n k J Y z <= cost n k J Y y) ->
  (forall y, cost n k J Y y = cost n k J Y z -> forall i, (i < k)%nat -> y i = z i) ->
  forall i, (i < k)%nat -> z i = zs i.
Proof.
  intros Hres Hmin Huniq i Hi. symmetry. apply Huniq; [|exact Hi].
  assert (E0 : cost n k J Y zs = 0).
  { unfold cost. apply Rsum_zero. intros r Hr. rewrite Hres by exact Hr. ring. }
  assert (0 <= cost n k J Y z) by (unfold cost; apply Rsum_nonneg; intros; apply Rle_0_sqr).
  pose proof (Hmin zs). lra.
Qed.

(* a pure translation tau0 makes (tau0, 0) a zero-residual solution of the linearised problem (2D / 3D, Cartesian) *)
Lemma translation_zero_residual_2d (s t n : list R) (tau : nat -> R) :
  vg t 0 = vg s 0 + tau 0%nat -> vg t 1 = vg s 1 + tau 1%nat ->
  Rsum 3 (fun c => vg (p2p_row ROps 2 s n) c * (if Nat.ltb c 2 then tau c else 0)) = p2p_y ROps 2 s t n.
Proof. intros H0 H1. unfold p2p_row, p2p_y. cbn [sumn]. unfold vget in *. cbn in *. rewrite H0, H1. ring. Qed.

Lemma translation_zero_residual_3d (s t n : list R) (tau : nat -> R) :
  vg t 0 = vg s 0 + tau 0%nat -> vg t 1 = vg s 1 + tau 1%nat -> vg t 2 = vg s 2 + tau 2%nat ->
  Rsum 6 (fun c => vg (p2p_row ROps 3 s n) c * (if Nat.ltb c 3 then tau c else 0)) = p2p_y ROps 3 s t n.
Proof. intros H0 H1 H2. unfold p2p_row, p2p_y. cbn [sumn]. unfold vget in *. cbn in *. rewrite H0, H1, H2. ring. Qed.
