(* GridMapProofs.v — C13 lemmas over the reals. *)
From Coq Require Import Reals ZArith Lra Lia.
From Flocq Require Import Core.Raux.
From Romea Require Import Num NumR GridMapModel.
Local Open Scope R_scope.

Lemma nhalf_R : nhalf ROps = 1 / 2.
Proof. unfold nhalf, ntwo. cbn. lra. Qed.

Section G.
Variables r lo hi : R.
Hypothesis Hr : 0 < r.
Hypothesis Hlh : lo <= hi.

Let org := gm_origin ROps r lo.
Let n := gm_ncells ROps r lo hi.
Let idx p := gm_index ROps r org p.
Let centre k := gm_centre ROps r org k.

Lemma org_eq : org = r * (IZR (Zfloor (lo / r)) - 1 / 2).
Proof. unfold org, gm_origin. rewrite nhalf_R. reflexivity. Qed.

Lemma idx_eq p : idx p = Ztrunc ((p - org) / r).
Proof. reflexivity. Qed.

Lemma centre_eq k : centre k = org + (IZR k + 1 / 2) * r.
Proof. unfold centre, gm_centre. rewrite nhalf_R. reflexivity. Qed.

Lemma n_eq : n = (Zceil (hi / r) - Zfloor (lo / r) + 1)%Z.
Proof.
  unfold n, gm_ncells. cbn [ntruncZ nadd nsub nceil nfloor ndiv n_one ROps].
  rewrite <- minus_IZR. rewrite <- (plus_IZR _ 1). apply Ztrunc_IZR.
Qed.

Lemma q_eq p : (p - org) / r = p / r - IZR (Zfloor (lo / r)) + 1 / 2.
Proof. rewrite org_eq. field. lra. Qed.

Lemma div_le a b : a <= b -> a / r <= b / r.
Proof. intros H. apply Rmult_le_compat_r; [left; apply Rinv_0_lt_compat; lra|exact H]. Qed.

Theorem half_cell_margin p : lo <= p <= hi -> 1 / 2 <= (p - org) / r <= IZR n - 1 / 2.
Proof.
  intros [H1 H2]. rewrite q_eq, n_eq. rewrite plus_IZR, minus_IZR.
  pose proof (div_le lo p H1). pose proof (div_le p hi H2).
  generalize (Zfloor_lb (lo / r)) (Zceil_ub (hi / r)). simpl. lra.
Qed.

Theorem index_in_bounds p : lo <= p <= hi -> (0 <= idx p < n)%Z.
Proof.
  intros H. destruct (half_cell_margin p H) as [A B]. rewrite idx_eq.
  rewrite Ztrunc_floor by lra. split.
  - apply Zfloor_lub. simpl. lra.
  - apply lt_IZR. eapply Rle_lt_trans; [apply Zfloor_lb|lra].
Qed.

Theorem point_within_half p : lo <= p <= hi -> Rabs (p - centre (idx p)) <= r / 2.
Proof.
  intros H. destruct (half_cell_margin p H) as [A B]. rewrite centre_eq, idx_eq.
  rewrite Ztrunc_floor by lra. set (u := (p - org) / r) in *.
  assert (Hp : p = org + u * r) by (unfold u; field; lra).
  generalize (Zfloor_lb u) (Zfloor_ub u). intros L U.
  rewrite Hp at 1. apply Rabs_le. split; nra.
Qed.

Theorem centre_fixed k : (0 <= k)%Z -> idx (centre k) = k.
Proof.
  intros Hk. rewrite idx_eq, centre_eq.
  replace ((org + (IZR k + 1 / 2) * r - org) / r) with (IZR k + 1 / 2) by (field; lra).
  assert (0 <= IZR k) by (apply IZR_le; exact Hk).
  rewrite Ztrunc_floor by lra. apply Zfloor_imp. rewrite plus_IZR. simpl. lra.
Qed.

Theorem centres_spaced k : centre (k + 1) - centre k = r.
Proof. rewrite !centre_eq. rewrite plus_IZR. simpl. ring. Qed.

Theorem bounds_covered : centre 0 - r / 2 <= lo /\ hi <= centre (n - 1) + r / 2.
Proof.
  rewrite !centre_eq, org_eq, n_eq. split.
  - pose proof (Zfloor_lb (lo / r)) as L. simpl.
    assert (IZR (Zfloor (lo / r)) * r <= lo).
    { replace lo with (lo / r * r) at 2 by (field; lra). apply Rmult_le_compat_r; lra. }
    lra.
  - pose proof (Zceil_ub (hi / r)) as U.
    replace (Zceil (hi / r) - Zfloor (lo / r) + 1 - 1)%Z with (Zceil (hi / r) - Zfloor (lo / r))%Z by lia.
    rewrite minus_IZR.
    assert (hi <= IZR (Zceil (hi / r)) * r).
    { replace hi with (hi / r * r) at 1 by (field; lra). apply Rmult_le_compat_r; lra. }
    lra.
Qed.

(* the number of cells is positive, and the symmetric form is the interval form on [-R, R] *)
Theorem ncells_positive : (1 <= n)%Z.
Proof.
  rewrite n_eq. pose proof (div_le lo hi Hlh) as D.
  assert (Zfloor (lo / r) <= Zceil (hi / r))%Z.
  { apply le_IZR. eapply Rle_trans; [apply Zfloor_lb|]. eapply Rle_trans; [exact D|apply Zceil_ub]. }
  lia.
Qed.
End G.
