(* Atan2Deriv.v — the derivative of atan2 (the real instance Ratan2 of the numeric dictionary) along a
   differentiable path, on its whole domain of differentiability: everywhere except the branch cut
   {y = 0, x <= 0} (which contains the origin).  Proved chart by chart:
     x > 0 : atan2 y x = atan (y/x);   y > 0 : atan2 y x = pi/2 - atan (x/y);   y < 0 : atan2 y x = -pi/2 - atan (x/y);
   the three open half-planes cover the complement of the cut, and a path that is differentiable at t stays in
   the half-plane of its value at t for nearby parameters.
   Also: strict range off the cut, the antipodal identity atan2 y x = atan2 (-y) (-x) +- pi, used to
   differentiate angles modulo 2 pi across the cut. *)
From Coq Require Import Reals Lra Psatz.
From Coquelicot Require Import Coquelicot.
From Romea Require Import Num NumR.
Local Open Scope R_scope.

(* (y, x) is not on the branch cut of atan2 (the closed negative x axis, origin included) *)
Definition off_cut (y x : R) : Prop := ~ (y = 0 /\ x <= 0).

Lemma off_cut_cases y x : off_cut y x <-> 0 < x \/ 0 < y \/ y < 0.
Proof.
  unfold off_cut. split.
  - intros H. destruct (Rlt_dec 0 x) as [|Nx]; [left; assumption|right].
    destruct (Rtotal_order y 0) as [L|[E|G]]; [right; assumption| |left; assumption].
    exfalso. apply H. split; lra.
  - intros [H|[H|H]] [E L]; lra.
Qed.

(* ---------------- the three charts ---------------- *)
Lemma Ratan2_xpos y x : 0 < x -> Ratan2 y x = atan (y / x).
Proof. intros H. unfold Ratan2. destruct (Rlt_dec 0 x); [reflexivity|contradiction]. Qed.

Lemma atan_inv_neg u : u < 0 -> atan (/ u) = - PI / 2 - atan u.
Proof.
  intros H. replace (/ u) with (- / (- u)) by (field; lra).
  rewrite atan_opp, atan_inv by lra. rewrite atan_opp. lra.
Qed.

Lemma quot_pos a b : 0 < a -> 0 < b -> 0 < a / b.
Proof. intros. apply Rdiv_lt_0_compat; assumption. Qed.
Lemma quot_neg_l a b : a < 0 -> 0 < b -> a / b < 0.
Proof. intros Ha Hb. unfold Rdiv. assert (0 < / b) by (apply Rinv_0_lt_compat; lra). nra. Qed.
Lemma quot_neg_r a b : 0 < a -> b < 0 -> a / b < 0.
Proof. intros Ha Hb. unfold Rdiv. assert (/ b < 0) by (apply Rinv_lt_0_compat; lra). nra. Qed.
Lemma quot_neg_neg a b : a < 0 -> b < 0 -> 0 < a / b.
Proof. intros Ha Hb. unfold Rdiv. assert (/ b < 0) by (apply Rinv_lt_0_compat; lra). nra. Qed.

Lemma Ratan2_ypos y x : 0 < y -> Ratan2 y x = PI / 2 - atan (x / y).
Proof.
  intros Hy. unfold Ratan2.
  destruct (Rlt_dec 0 x) as [Hx|Hx].
  - replace (y / x) with (/ (x / y)) by (field; lra). apply atan_inv. apply quot_pos; lra.
  - destruct (Rlt_dec x 0) as [Hx2|Hx2].
    + destruct (Rle_dec 0 y) as [_|N]; [|lra].
      replace (y / x) with (/ (x / y)) by (field; lra).
      rewrite atan_inv_neg by (apply quot_neg_l; lra). lra.
    + assert (x = 0) by lra. subst x.
      destruct (Rlt_dec 0 y) as [_|N]; [|lra]. unfold Rdiv. rewrite Rmult_0_l, atan_0. lra.
Qed.

Lemma Ratan2_yneg y x : y < 0 -> Ratan2 y x = - PI / 2 - atan (x / y).
Proof.
  intros Hy. unfold Ratan2.
  destruct (Rlt_dec 0 x) as [Hx|Hx].
  - replace (y / x) with (/ (x / y)) by (field; lra). apply atan_inv_neg. apply quot_neg_r; lra.
  - destruct (Rlt_dec x 0) as [Hx2|Hx2].
    + destruct (Rle_dec 0 y) as [N|_]; [lra|].
      replace (y / x) with (/ (x / y)) by (field; lra).
      rewrite atan_inv by (apply quot_neg_neg; lra). lra.
    + assert (x = 0) by lra. subst x.
      destruct (Rlt_dec 0 y) as [N|_]; [lra|]. destruct (Rlt_dec y 0) as [_|N]; [|lra].
      unfold Rdiv. rewrite Rmult_0_l, atan_0. lra.
Qed.

(* ---------------- strict range off the cut; the value pi is taken exactly on the cut minus the origin ---------------- *)
Lemma Ratan2_range_off_cut y x : off_cut y x -> - PI < Ratan2 y x < PI.
Proof.
  intros H. apply off_cut_cases in H. pose proof PI_RGT_0 as Hpi.
  destruct H as [H|[H|H]].
  - rewrite Ratan2_xpos by assumption. pose proof (atan_bound (y / x)). lra.
  - rewrite Ratan2_ypos by assumption. pose proof (atan_bound (x / y)). lra.
  - rewrite Ratan2_yneg by assumption. pose proof (atan_bound (x / y)). lra.
Qed.

Lemma Ratan2_on_cut x : x < 0 -> Ratan2 0 x = PI.
Proof.
  intros H. unfold Ratan2. destruct (Rlt_dec 0 x) as [N|_]; [lra|]. destruct (Rlt_dec x 0) as [_|N]; [|lra].
  destruct (Rle_dec 0 0) as [_|N]; [|lra]. unfold Rdiv. rewrite Rmult_0_l, atan_0. lra.
Qed.

(* ---------------- antipodal identity: turning the point by pi shifts the angle by +-pi ---------------- *)
Lemma Ratan2_antipode y x : x <> 0 \/ y <> 0 ->
  Ratan2 y x = Ratan2 (- y) (- x) + PI \/ Ratan2 y x = Ratan2 (- y) (- x) - PI.
Proof.
  intros Hne.
  assert (Q : forall a b, b <> 0 -> - a / - b = a / b) by (intros; field; assumption).
  unfold Ratan2.
  destruct (Rlt_dec 0 x) as [Hx|Hx].
  - destruct (Rlt_dec 0 (- x)) as [N|_]; [lra|]. destruct (Rlt_dec (- x) 0) as [_|N]; [|lra].
    rewrite Q by lra. destruct (Rle_dec 0 (- y)); [right|left]; lra.
  - destruct (Rlt_dec x 0) as [Hx2|Hx2].
    + destruct (Rlt_dec 0 (- x)) as [_|N]; [|lra]. rewrite Q by lra.
      destruct (Rle_dec 0 y); [left|right]; lra.
    + assert (x = 0) by lra. subst x. rewrite Ropp_0.
      destruct (Rlt_dec 0 0) as [N|_]; [lra|].
      destruct (Rlt_dec 0 y) as [Hy|Hy].
      * destruct (Rlt_dec 0 (- y)) as [N|_]; [lra|]. destruct (Rlt_dec (- y) 0) as [_|N]; [|lra]. left. lra.
      * destruct (Rlt_dec y 0) as [Hy2|Hy2].
        -- destruct (Rlt_dec 0 (- y)) as [_|N]; [|lra]. right. lra.
        -- exfalso. destruct Hne as [N|N]; [apply N; reflexivity|lra].
Qed.

(* ---------------- a path differentiable at t keeps the sign of a coordinate near t ---------------- *)
Lemma locally_pos (v : R -> R) t dv : is_derive v t dv -> 0 < v t -> locally t (fun s => 0 < v s).
Proof.
  intros Hv Hpos.
  assert (Hc : continuous v t).
  { apply (@ex_derive_continuous R_AbsRing R_NormedModule v t). exists dv. exact Hv. }
  exact (Hc (fun y : R => 0 < y) (open_gt 0 (v t) Hpos)).
Qed.

Lemma locally_neg (v : R -> R) t dv : is_derive v t dv -> v t < 0 -> locally t (fun s => v s < 0).
Proof.
  intros Hv Hneg.
  assert (Hc : continuous v t).
  { apply (@ex_derive_continuous R_AbsRing R_NormedModule v t). exists dv. exact Hv. }
  exact (Hc (fun y : R => y < 0) (open_lt 0 (v t) Hneg)).
Qed.

(* the complement of the cut is open along the path *)
Lemma locally_off_cut (u v : R -> R) t du dv :
  is_derive u t du -> is_derive v t dv -> off_cut (u t) (v t) -> locally t (fun s => off_cut (u s) (v s)).
Proof.
  intros Hu Hv H. apply off_cut_cases in H. destruct H as [H|[H|H]].
  - generalize (locally_pos v t dv Hv H). apply filter_imp. intros s Hs. apply off_cut_cases. left. exact Hs.
  - generalize (locally_pos u t du Hu H). apply filter_imp. intros s Hs. apply off_cut_cases. right. left. exact Hs.
  - generalize (locally_neg u t du Hu H). apply filter_imp. intros s Hs. apply off_cut_cases. right. right. exact Hs.
Qed.

(* ---------------- derivative of atan of a quotient ---------------- *)
Lemma is_derive_atan_quot (u v : R -> R) t du dv :
  is_derive u t du -> is_derive v t dv -> v t <> 0 ->
  is_derive (fun s => atan (u s / v s)) t ((v t * du - u t * dv) / (u t * u t + v t * v t)).
Proof.
  intros Hu Hv Hne.
  evar_last.
  - apply (is_derive_comp atan (fun s => u s / v s)).
    + apply is_derive_atan.
    + apply is_derive_div; [exact Hu|exact Hv|exact Hne].
  - unfold scal, opp; simpl; unfold mult, opp; simpl. unfold Rsqr. field. split; [nra|exact Hne].
Qed.

(* ---------------- the derivative of atan2 along a path, off the cut ---------------- *)
Theorem is_derive_Ratan2 (u v : R -> R) t du dv :
  is_derive u t du -> is_derive v t dv -> off_cut (u t) (v t) ->
  is_derive (fun s => Ratan2 (u s) (v s)) t ((v t * du - u t * dv) / (u t * u t + v t * v t)).
Proof.
  intros Hu Hv Hoff. apply off_cut_cases in Hoff. destruct Hoff as [H|[H|H]].
  - (* right half-plane *)
    apply (is_derive_ext_loc (fun s => atan (u s / v s))).
    + generalize (locally_pos v t dv Hv H). apply filter_imp. intros s Hs. symmetry. apply Ratan2_xpos. exact Hs.
    + apply is_derive_atan_quot; [exact Hu|exact Hv|lra].
  - (* upper half-plane *)
    apply (is_derive_ext_loc (fun s => PI / 2 - atan (v s / u s))).
    + generalize (locally_pos u t du Hu H). apply filter_imp. intros s Hs. symmetry. apply Ratan2_ypos. exact Hs.
    + evar_last.
      * apply (is_derive_minus (fun _ => PI / 2) (fun s => atan (v s / u s))).
        -- apply is_derive_const.
        -- apply is_derive_atan_quot; [exact Hv|exact Hu|lra].
      * unfold minus, plus, opp, zero; simpl. field. nra.
  - (* lower half-plane *)
    apply (is_derive_ext_loc (fun s => - PI / 2 - atan (v s / u s))).
    + generalize (locally_neg u t du Hu H). apply filter_imp. intros s Hs. symmetry. apply Ratan2_yneg. exact Hs.
    + evar_last.
      * apply (is_derive_minus (fun _ => - PI / 2) (fun s => atan (v s / u s))).
        -- apply is_derive_const.
        -- apply is_derive_atan_quot; [exact Hv|exact Hu|lra].
      * unfold minus, plus, opp, zero; simpl. field. nra.
Qed.

(* the same in the notation of the task: x(t), y(t), point (x, y), angle atan2 (y, x) *)
Corollary is_derive_Ratan2_xy (x y : R -> R) t0 x' y' :
  is_derive x t0 x' -> is_derive y t0 y' -> ~ (y t0 = 0 /\ x t0 <= 0) ->
  is_derive (fun t => Ratan2 (y t) (x t)) t0 ((x t0 * y' - y t0 * x') / (x t0 ^ 2 + y t0 ^ 2)).
Proof.
  intros Hx Hy H. evar_last.
  - exact (is_derive_Ratan2 y x t0 y' x' Hy Hx H).
  - assert (y t0 * y t0 + x t0 * x t0 <> 0).
    { intros E. apply H. assert (y t0 = 0) by nra. assert (x t0 = 0) by nra. split; lra. }
    replace (x t0 ^ 2 + y t0 ^ 2) with (y t0 * y t0 + x t0 * x t0) by ring. reflexivity.
Qed.

(* ---------------- on the cut itself atan2 jumps by 2 pi: it is not even continuous there ---------------- *)
Lemma Ratan2_below_cut y x : x < 0 -> y < 0 -> Ratan2 y x < - PI / 2.
Proof.
  intros Hx Hy. rewrite Ratan2_yneg by assumption.
  assert (0 < atan (x / y)) by (rewrite <- atan_0; apply atan_increasing; apply quot_neg_neg; assumption). lra.
Qed.

(* ... but the angle modulo 2 pi is differentiable there too: the antipodal point is off the cut *)
Theorem is_derive_Ratan2_antipode (u v : R -> R) t du dv :
  is_derive u t du -> is_derive v t dv -> off_cut (- u t) (- v t) ->
  is_derive (fun s => PI + Ratan2 (- u s) (- v s)) t ((v t * du - u t * dv) / (u t * u t + v t * v t)).
Proof.
  intros Hu Hv Hoff. evar_last.
  - apply (is_derive_plus (fun _ => PI) (fun s => Ratan2 (- u s) (- v s))).
    + apply is_derive_const.
    + apply (is_derive_Ratan2 (fun s => - u s) (fun s => - v s) t (- du) (- dv)).
      * apply (is_derive_opp u t du Hu).
      * apply (is_derive_opp v t dv Hv).
      * exact Hoff.
  - unfold plus, zero; simpl.
    assert (u t * u t + v t * v t <> 0).
    { intros E. apply Hoff. assert (u t = 0) by nra. assert (v t = 0) by nra. split; lra. }
    field. assumption.
Qed.
