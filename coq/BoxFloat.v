(* BoxFloat.v — C20 (bounding volumes, intervals, point-set extents) at the floating-point level
   (IEEE-754 binary64 and binary32).
   The SAME generic model (BoxModel.v) is instantiated at the dictionary [FlOps prec emin : NumOps R] of GridMapFloat.v:
   +, -, *, / are the real operation followed by ONE rounding to nearest-even in the format with [prec] significand
   bits and smallest exponent [emin] (Flocq: [round radix2 (FLT_exp emin prec) ZnearestE]); comparisons, negation and
   |.| are exact.     binary64 = FlOps 53 (-1074) (B64Ops),   binary32 = FlOps 24 (-149) (B32Ops).
   The format has no largest exponent: overflow is not modelled.  It is excluded by hypotheses on the data where it
   matters (the extents theorems ask every coordinate to be at most the largest finite number, DBL_MAX / FLT_MAX, in
   magnitude; they involve comparisons only, so nothing can overflow), and the statements about containment and the
   interval <-> box round trip are about the unbounded-exponent format: they coincide with IEEE-754 whenever
   hi + lo, hi - lo, p - c stay below the overflow threshold.

   What is proved (once for any format in Section Fmt, then instantiated as *_binary64 / *_binary32):
   (a) EXTENTS ARE EXACT.  The running minimum / maximum (EigenContainers min / max, PointSetPreconditioner) use
       comparisons only: the folds are literally the real-number folds (box_minmax_exact), and for every non-empty
       point list within the finite range the result is, per axis, an element of the data that bounds all the data
       (box_extents_exact_binaryNN, box_precond_extents_exact_binaryNN).
   (b) CONTAINMENT.  AxisAlignedBoundingBox::isInside rounds once (p - c); |.| and <= are exact.
       box_aabb_inside_iff_binaryNN                     : isInside <-> forall i, |rnd (p_i - c_i)| <= h_i
       box_aabb_real_inside_float_inside_binaryNN       : h_i floats, |p_i - c_i| <= h_i  ->  isInside   (no margin)
       box_aabb_float_inside_real_inside_binaryNN       : h_i floats, isInside -> |p_i - c_i| <= h_i + ulp(h_i)/2
       box_aabb_inside_exact_sub_binaryNN               : p_i - c_i representable (e.g. Sterbenz, box_sterbenz_binaryNN) ->
                                                   the float test IS the real test
       box_interval_inside_exact_binaryNN               : Interval::isInside does no arithmetic: same as over the reals
   (c) INTERVAL -> BOX -> INTERVAL.  Per axis c = rnd (rnd (hi + lo) / 2), h = rnd (rnd (hi - lo) / 2),
       lower' = rnd (c - h), upper' = rnd (c + h)  (box_roundtrip_unfold_binaryNN).  For ALL reals lo, hi:
         |lower' - lo|, |upper' - hi| <= 6 u M + 5 eta,   M = max |lo| |hi|,  u = 2^-prec, eta = half the least subnormal
       (box_roundtrip_error_binaryNN), and the round trip is exact when hi + lo, hi - lo, their halves, lo and hi are
       representable (box_roundtrip_exact_binaryNN): this covers dyadic test data.
   Also: the literal laws NumLits (BoxLits.v) of the two rounded dictionaries. *)
From Coq Require Import Reals ZArith List Bool Lra Lia.
From Flocq Require Import Core Relative Sterbenz.
From Romea Require Import Num NumR BoxModel BoxProofs GridMapFloat BoxLits.
Import ListNotations.
Local Open Scope R_scope.

Section Fmt.
Variables prec emin : Z.
Context {prec_gt_0_ : Prec_gt_0 prec}.

Local Notation rnd := (frnd prec emin).
Local Notation fmt := (ffmt prec emin).
Local Notation Ops := (FlOps prec emin).
Local Notation u := (fl_u prec).
Local Notation eta := (fl_eta emin).
Local Notation fexp := (FLT_exp emin prec).

(* ==================================================================== (a) extents *)
Lemma fl_nmin2 : nmin2 Ops = nmin2 ROps.
Proof. reflexivity. Qed.
Lemma fl_nmax2 : nmax2 Ops = nmax2 ROps.
Proof. reflexivity. Qed.

Lemma fl_min_fold_exact (pts : list (list R)) (acc0 : list R) :
  fold_left (fun acc p => map2 (nmin2 Ops) acc p) pts acc0 = fold_left (fun acc p => map2 (nmin2 ROps) acc p) pts acc0.
Proof. reflexivity. Qed.
Lemma fl_max_fold_exact (pts : list (list R)) (acc0 : list R) :
  fold_left (fun acc p => map2 (nmax2 Ops) acc p) pts acc0 = fold_left (fun acc p => map2 (nmax2 ROps) acc p) pts acc0.
Proof. reflexivity. Qed.

Lemma coords_le n pts i (P : R -> Prop) : Forall (fun p => length p = n) pts -> (i < n)%nat ->
  (forall p x, In p pts -> In x p -> P x) -> forall x, In x (coords pts i) -> P x.
Proof.
  intros Hf Hi Hb x Hx. apply coords_in in Hx as (p & Hp & ->).
  apply (Hb p _ Hp). apply nth_In. rewrite Forall_forall in Hf. rewrite (Hf p Hp). exact Hi.
Qed.

(* running minimum / maximum started from any bound of the data *)
Lemma running_min_from n pts i M : pts <> [] -> Forall (fun p => length p = n) pts ->
  (forall p x, In p pts -> In x p -> x <= M) -> (i < n)%nat ->
  is_min (coords pts i) (fold_left (fun a p => map2 (nmin2 ROps) a p) pts (vconst n M)).[i].
Proof.
  intros Hne Hf Hb Hi.
  destruct (fold_map2_nth (nmin2 ROps) n pts (vconst n M)) as [_ E]; [apply repeat_length|assumption|].
  rewrite E by assumption. unfold vconst. rewrite repeat_nth0 by assumption. rewrite fold_nmin2.
  apply fold_Rmin_is_min; [apply coords_nonempty; assumption|].
  apply (coords_le n pts i (fun x => x <= M)); assumption.
Qed.

Lemma running_max_from n pts i M : pts <> [] -> Forall (fun p => length p = n) pts ->
  (forall p x, In p pts -> In x p -> M <= x) -> (i < n)%nat ->
  is_max (coords pts i) (fold_left (fun a p => map2 (nmax2 ROps) a p) pts (vconst n M)).[i].
Proof.
  intros Hne Hf Hb Hi. rewrite running_max_general by assumption.
  apply fold_Rmax_is_max; [apply coords_nonempty; assumption|].
  apply (coords_le n pts i (fun x => M <= x)); assumption.
Qed.

Theorem fl_extents_exact n (pts : list (list R)) : pts <> [] -> Forall (fun p => length p = n) pts ->
  (forall p x, In p pts -> In x p -> Rabs x <= nmaxval Ops) ->
  forall i, (i < n)%nat ->
    is_min (coords pts i) (cont_min Ops n pts).[i] /\ is_max (coords pts i) (cont_max Ops n pts).[i].
Proof.
  intros Hne Hf Hb i Hi. unfold cont_min, cont_max. change (nneg Ops (nmaxval Ops)) with (- nmaxval Ops). split.
  - apply running_min_from; try assumption.
    intros p x Hp Hx. specialize (Hb p x Hp Hx). apply Rabs_le_inv in Hb. lra.
  - apply running_max_from; try assumption.
    intros p x Hp Hx. specialize (Hb p x Hp Hx). apply Rabs_le_inv in Hb. lra.
Qed.

Theorem fl_precond_extents_exact size cdim (pts : list (list R)) :
  pts <> [] -> Forall (fun p => length p = size) pts ->
  (forall p x, In p pts -> In x p -> Rabs x <= nmaxval Ops) ->
  forall i, (i < size)%nat ->
    is_min (coords pts i) (pc_min (precond_compute Ops size cdim pts)).[i] /\
    is_max (coords pts i) (pc_max (precond_compute Ops size cdim pts)).[i].
Proof.
  intros Hne Hf Hb i Hi.
  unfold precond_compute, precond_compute_lowest, precond_with. cbn [pc_min pc_max].
  change (nneg Ops (nmaxval Ops)) with (- nmaxval Ops). split.
  - apply running_min_from; try assumption.
    intros p x Hp Hx. specialize (Hb p x Hp Hx). apply Rabs_le_inv in Hb. lra.
  - apply running_max_from; try assumption.
    intros p x Hp Hx. specialize (Hb p x Hp Hx). apply Rabs_le_inv in Hb. lra.
Qed.

(* the largest finite number is at least 4 in every format with emin + prec <= 0 (so that the range hypothesis of
   the two theorems above is satisfiable by ordinary data) *)
Lemma fl_maxval_ge_4 : (emin + prec <= 0)%Z -> 4 <= nmaxval Ops.
Proof.
  intros H. cbn [nmaxval FlOps].
  assert (A : bpow radix2 (- prec) <= / 2).
  { change (/ 2) with (bpow radix2 (-1)). apply bpow_le. unfold Prec_gt_0 in prec_gt_0_. lia. }
  assert (B : 8 <= bpow radix2 (3 - emin - prec)).
  { replace 8 with (bpow radix2 3) by (simpl; lra). apply bpow_le. lia. }
  pose proof (bpow_gt_0 radix2 (- prec)). nra.
Qed.

(* ==================================================================== (b) containment *)
Lemma fl_aabb_inside_iff (c h p : list R) : length c = length h -> length p = length c ->
  (aabb_inside Ops {| a_center := c; a_half := h |} p = true <->
   forall i, (i < length c)%nat -> Rabs (rnd (p.[i] - c.[i])) <= h.[i]).
Proof.
  intros Hch Hpc. unfold aabb_inside, vabs, vsub. cbn [a_center a_half nleb nabs nsub FlOps].
  rewrite all2_iff by (rewrite map_length, map2_length; lia).
  rewrite map_length, map2_length by lia. rewrite Hpc.
  split; intros H i Hi; specialize (H i Hi).
  - rewrite map_nth0 in H by (rewrite map2_length; lia). rewrite map2_nth in H by lia.
    apply Rleb_true in H. exact H.
  - rewrite map_nth0 by (rewrite map2_length; lia). rewrite map2_nth by lia.
    apply Rleb_true. exact H.
Qed.

(* the real-number test in the same shape *)
Lemma real_aabb_inside_abs_iff (c h p : list R) : length c = length h -> length p = length c ->
  (aabb_inside ROps {| a_center := c; a_half := h |} p = true <->
   forall i, (i < length c)%nat -> Rabs (p.[i] - c.[i]) <= h.[i]).
Proof.
  intros Hch Hpc. rewrite aabb_inside_iff by assumption.
  split; intros H i Hi; specialize (H i Hi).
  - apply Rabs_le. lra.
  - apply Rabs_le_inv in H. lra.
Qed.

Theorem fl_real_inside_float_inside (c h p : list R) : length c = length h -> length p = length c ->
  (forall i, (i < length c)%nat -> fmt h.[i]) ->
  (forall i, (i < length c)%nat -> Rabs (p.[i] - c.[i]) <= h.[i]) ->
  aabb_inside Ops {| a_center := c; a_half := h |} p = true.
Proof.
  intros Hch Hpc Fh H. apply fl_aabb_inside_iff; try assumption.
  intros i Hi. exact (rnd_abs_le prec emin _ _ (Fh i Hi) (H i Hi)).
Qed.

Lemma fl_ulp_pos h : 0 < ulp radix2 fexp h.
Proof.
  destruct (Req_dec h 0) as [->|Hz].
  - rewrite ulp_FLT_0 by assumption. apply bpow_gt_0.
  - rewrite ulp_neq_0 by exact Hz. apply bpow_gt_0.
Qed.

(* |rnd x| <= h with h a float  ->  |x| is at most half a unit in the last place above h *)
Lemma rnd_abs_le_inv x h : fmt h -> Rabs (rnd x) <= h -> Rabs x <= h + / 2 * ulp radix2 fexp h.
Proof.
  intros Fh H.
  assert (Hh : 0 <= h) by (pose proof (Rabs_pos (rnd x)); lra).
  destruct (Rle_or_lt (Rabs x) (h + / 2 * ulp radix2 fexp h)) as [L|L]; [exact L|exfalso].
  assert (Hs : succ radix2 fexp h = h + ulp radix2 fexp h) by (apply succ_eq_pos; exact Hh).
  pose proof (fl_ulp_pos h) as Hu.
  assert (G : succ radix2 fexp h <= rnd (Rabs x)).
  { unfold frnd. apply round_N_ge_midp; auto with typeclass_instances.
    - apply generic_format_succ; auto with typeclass_instances.
    - rewrite pred_succ by (auto with typeclass_instances). rewrite Hs. lra. }
  unfold frnd in G, H. rewrite round_NE_abs in G by (auto with typeclass_instances). lra.
Qed.

Theorem fl_float_inside_real_inside (c h p : list R) : length c = length h -> length p = length c ->
  (forall i, (i < length c)%nat -> fmt h.[i]) ->
  aabb_inside Ops {| a_center := c; a_half := h |} p = true ->
  forall i, (i < length c)%nat -> Rabs (p.[i] - c.[i]) <= h.[i] + / 2 * ulp radix2 fexp h.[i].
Proof.
  intros Hch Hpc Fh H i Hi. rewrite fl_aabb_inside_iff in H by assumption.
  apply rnd_abs_le_inv; [apply Fh; exact Hi|apply H; exact Hi].
Qed.

Theorem fl_aabb_inside_exact_sub (c h p : list R) : length c = length h -> length p = length c ->
  (forall i, (i < length c)%nat -> fmt (p.[i] - c.[i])) ->
  aabb_inside Ops {| a_center := c; a_half := h |} p = aabb_inside ROps {| a_center := c; a_half := h |} p.
Proof.
  intros Hch Hpc Fs. apply eq_true_iff_eq.
  rewrite fl_aabb_inside_iff, real_aabb_inside_abs_iff by assumption.
  split; intros H i Hi; specialize (H i Hi).
  - rewrite rnd_id in H by (apply Fs; exact Hi). exact H.
  - rewrite rnd_id by (apply Fs; exact Hi). exact H.
Qed.

(* Sterbenz: a sufficient condition for the subtraction to be exact *)
Lemma fl_sterbenz x y : fmt x -> fmt y -> y / 2 <= x <= 2 * y -> fmt (x - y).
Proof. unfold ffmt. apply sterbenz; auto with typeclass_instances. Qed.

Theorem fl_interval_inside_exact (i : interval) (v : list R) : interval_inside Ops i v = interval_inside ROps i v.
Proof. reflexivity. Qed.

Theorem fl_interval_inside_iff (lo hi v : list R) : length lo = length v -> length hi = length v ->
  (interval_inside Ops {| i_lower := lo; i_upper := hi |} v = true <->
   forall i, (i < length v)%nat -> lo.[i] <= v.[i] <= hi.[i]).
Proof. intros H1 H2. rewrite fl_interval_inside_exact. apply interval_inside_iff; assumption. Qed.

(* ==================================================================== (c) interval -> box -> interval *)
Hypothesis Hprec : (3 <= prec)%Z.
Hypothesis Hemin : (emin <= 0)%Z.

Definition rt_center (lo hi : R) : R := rnd (rnd (hi + lo) / 2).
Definition rt_half (lo hi : R) : R := rnd (rnd (hi - lo) / 2).
Definition rt_lower (lo hi : R) : R := rnd (rt_center lo hi - rt_half lo hi).
Definition rt_upper (lo hi : R) : R := rnd (rt_center lo hi + rt_half lo hi).

Lemma fl_fmt_1 : fmt 1.
Proof.
  apply (fmt_dyadic prec emin 1 1 0); [simpl; lra| |exact Hemin].
  pose proof (pow_prec_ge prec 2 ltac:(lia)). simpl Z.abs. change (2 ^ 2)%Z with 4%Z in *. lia.
Qed.

Lemma fl_fmt_2 : fmt 2.
Proof.
  apply (fmt_dyadic prec emin 2 1 1); [simpl; lra| |lia].
  pose proof (pow_prec_ge prec 2 ltac:(lia)). simpl Z.abs. change (2 ^ 2)%Z with 4%Z in *. lia.
Qed.

Lemma ntwo_fl : ntwo Ops = 2.
Proof. unfold ntwo. cbn [nadd n_one FlOps]. unfold fl_add. replace (1 + 1) with 2 by lra. apply rnd_id, fl_fmt_2. Qed.

Lemma fl_roundtrip_unfold (lo hi : list R) i : length lo = length hi -> (i < length lo)%nat ->
  (i_lower (aabb_to_interval Ops (aabb_of_interval Ops {| i_lower := lo; i_upper := hi |}))).[i] = rt_lower lo.[i] hi.[i] /\
  (i_upper (aabb_to_interval Ops (aabb_of_interval Ops {| i_lower := lo; i_upper := hi |}))).[i] = rt_upper lo.[i] hi.[i].
Proof.
  intros HL Hi.
  unfold aabb_to_interval, aabb_of_interval, interval_center, interval_width, vhalf, vadd, vsub.
  cbn [i_lower i_upper a_center a_half]. rewrite ntwo_fl. cbn [nadd nsub ndiv FlOps].
  assert (L1 : length (map2 (fl_add prec emin) hi lo) = length lo) by (rewrite map2_length; lia).
  assert (L2 : length (map2 (fl_sub prec emin) hi lo) = length lo) by (rewrite map2_length; lia).
  unfold rt_lower, rt_upper, rt_center, rt_half.
  split.
  - rewrite map2_nth by (rewrite !map_length; lia).
    rewrite !map_nth0 by lia. rewrite !map2_nth by lia. reflexivity.
  - rewrite map2_nth by (rewrite !map_length; lia).
    rewrite !map_nth0 by lia. rewrite !map2_nth by lia. reflexivity.
Qed.

Lemma fl_u_le_8 : u <= / 8.
Proof.
  unfold fl_u. replace (/ 8) with (bpow radix2 (-3)) by (simpl; lra). apply bpow_le. lia.
Qed.

Lemma rnd_err_le x B : Rabs x <= B -> Rabs (rnd x - x) <= u * B + eta.
Proof. intros H. apply Rabs_le. exact (err_bound prec emin x B H). Qed.

(* x |-> rnd (rnd x / 2): two roundings *)
Lemma half_err x B : Rabs x <= B -> Rabs (rnd (rnd x / 2) - x / 2) <= / 16 * (17 * (u * B) + 25 * eta).
Proof.
  intros H. pose proof (Rabs_pos x) as Hx. pose proof (u_pos prec) as U0. pose proof fl_u_le_8 as U8.
  pose proof (eta_pos emin) as E0.
  pose proof (rnd_err_le x B H) as E1.
  assert (H2 : Rabs (rnd x / 2) <= / 2 * (B + u * B + eta)).
  { apply Rabs_le. apply Rabs_le_inv in E1. apply Rabs_le_inv in H. lra. }
  pose proof (rnd_err_le _ _ H2) as E2.
  assert (P1 : 0 <= u * B) by nra.
  assert (P2 : u * (u * B) <= / 8 * (u * B)) by nra.
  assert (P3 : u * eta <= / 8 * eta) by nra.
  apply Rabs_le. apply Rabs_le_inv in E1. apply Rabs_le_inv in E2. lra.
Qed.

Lemma Rmax_abs_bounds lo hi : Rabs lo <= Rmax (Rabs lo) (Rabs hi) /\ Rabs hi <= Rmax (Rabs lo) (Rabs hi).
Proof. split; [apply Rmax_l|apply Rmax_r]. Qed.

Theorem fl_roundtrip_error (lo hi : R) :
  Rabs (rt_lower lo hi - lo) <= 6 * (u * Rmax (Rabs lo) (Rabs hi)) + 5 * eta /\
  Rabs (rt_upper lo hi - hi) <= 6 * (u * Rmax (Rabs lo) (Rabs hi)) + 5 * eta.
Proof.
  destruct (Rmax_abs_bounds lo hi) as [Mlo Mhi]. set (M := Rmax (Rabs lo) (Rabs hi)) in *.
  pose proof (u_pos prec) as U0. pose proof fl_u_le_8 as U8. pose proof (eta_pos emin) as E0.
  assert (M0 : 0 <= M) by (pose proof (Rabs_pos lo); lra).
  assert (Hs : Rabs (hi + lo) <= 2 * M) by (pose proof (Rabs_triang hi lo); lra).
  assert (Hd : Rabs (hi - lo) <= 2 * M).
  { unfold Rminus. pose proof (Rabs_triang hi (- lo)). rewrite Rabs_Ropp in *. lra. }
  pose proof (half_err _ _ Hs) as Ec. pose proof (half_err _ _ Hd) as Eh.
  fold (rt_center lo hi) in Ec. fold (rt_half lo hi) in Eh.
  set (c := rt_center lo hi) in *. set (h := rt_half lo hi) in *.
  apply Rabs_le_inv in Ec. apply Rabs_le_inv in Eh. apply Rabs_le_inv in Mlo. apply Rabs_le_inv in Mhi.
  assert (P1 : 0 <= u * M) by nra.
  assert (P2 : u * (u * M) <= / 8 * (u * M)) by nra.
  assert (P3 : u * eta <= / 8 * eta) by nra.
  split.
  - unfold rt_lower. fold c h.
    assert (Hz : Rabs (c - h) <= M + / 8 * (17 * (u * (2 * M)) + 25 * eta)) by (apply Rabs_le; lra).
    pose proof (rnd_err_le _ _ Hz) as Ez. apply Rabs_le_inv in Ez. apply Rabs_le. lra.
  - unfold rt_upper. fold c h.
    assert (Hz : Rabs (c + h) <= M + / 8 * (17 * (u * (2 * M)) + 25 * eta)) by (apply Rabs_le; lra).
    pose proof (rnd_err_le _ _ Hz) as Ez. apply Rabs_le_inv in Ez. apply Rabs_le. lra.
Qed.

Theorem fl_roundtrip_exact (lo hi : R) :
  fmt (hi + lo) -> fmt (hi - lo) -> fmt ((hi + lo) / 2) -> fmt ((hi - lo) / 2) -> fmt lo -> fmt hi ->
  rt_lower lo hi = lo /\ rt_upper lo hi = hi.
Proof.
  intros F1 F2 F3 F4 F5 F6. unfold rt_lower, rt_upper, rt_center, rt_half.
  rewrite (rnd_id _ _ _ F1), (rnd_id _ _ _ F2), (rnd_id _ _ _ F3), (rnd_id _ _ _ F4).
  replace ((hi + lo) / 2 - (hi - lo) / 2) with lo by field.
  replace ((hi + lo) / 2 + (hi - lo) / 2) with hi by field.
  split; apply rnd_id; assumption.
Qed.

Theorem fl_roundtrip_error_list (lo hi : list R) i : length lo = length hi -> (i < length lo)%nat ->
  Rabs ((i_lower (aabb_to_interval Ops (aabb_of_interval Ops {| i_lower := lo; i_upper := hi |}))).[i] - lo.[i])
    <= 6 * (u * Rmax (Rabs lo.[i]) (Rabs hi.[i])) + 5 * eta /\
  Rabs ((i_upper (aabb_to_interval Ops (aabb_of_interval Ops {| i_lower := lo; i_upper := hi |}))).[i] - hi.[i])
    <= 6 * (u * Rmax (Rabs lo.[i]) (Rabs hi.[i])) + 5 * eta.
Proof.
  intros HL Hi. destruct (fl_roundtrip_unfold lo hi i HL Hi) as [-> ->]. apply fl_roundtrip_error.
Qed.

Theorem fl_roundtrip_exact_list (lo hi : list R) i : length lo = length hi -> (i < length lo)%nat ->
  fmt (hi.[i] + lo.[i]) -> fmt (hi.[i] - lo.[i]) -> fmt ((hi.[i] + lo.[i]) / 2) -> fmt ((hi.[i] - lo.[i]) / 2) ->
  fmt lo.[i] -> fmt hi.[i] ->
  (i_lower (aabb_to_interval Ops (aabb_of_interval Ops {| i_lower := lo; i_upper := hi |}))).[i] = lo.[i] /\
  (i_upper (aabb_to_interval Ops (aabb_of_interval Ops {| i_lower := lo; i_upper := hi |}))).[i] = hi.[i].
Proof.
  intros HL Hi F1 F2 F3 F4 F5 F6. destruct (fl_roundtrip_unfold lo hi i HL Hi) as [-> ->].
  apply fl_roundtrip_exact; assumption.
Qed.

(* ==================================================================== literal laws *)
Lemma fl_NumLits : NumLits Ops.
Proof.
  split.
  - intros a b. cbn [nadd FlOps]. unfold fl_add. f_equal. apply Rplus_comm.
  - intros a b. cbn [nmul FlOps]. unfold fl_mul. f_equal. apply Rmult_comm.
  - cbn [nofZ nzero FlOps]. unfold frnd. apply round_0. auto with typeclass_instances.
  - cbn [nofZ n_one FlOps]. apply rnd_id, fl_fmt_1.
  - unfold ntwo. cbn [nofDec nadd n_one FlOps]. unfold fl_add. f_equal. simpl. lra.
  - intros a b. cbn [nmul nneg FlOps]. unfold fl_mul, frnd. replace (- a * b) with (- (a * b)) by ring.
    apply round_NE_opp.
Qed.

End Fmt.

(* ====================================================================================================
   binary64: prec = 53, emin = -1074, u = 2^-53, eta = 2^-1075
   binary32: prec = 24, emin = -149,  u = 2^-24, eta = 2^-150
   ==================================================================================================== *)
Local Instance prec53_box : Prec_gt_0 53.
Proof. now unfold Prec_gt_0. Qed.
Local Instance prec24_box : Prec_gt_0 24.
Proof. now unfold Prec_gt_0. Qed.

Lemma b64_int k : (Z.abs k < 2 ^ 53)%Z -> b64 (IZR k).
Proof. apply (fmt_int 53 (-1074)). lia. Qed.
Lemma b32_int k : (Z.abs k < 2 ^ 24)%Z -> b32 (IZR k).
Proof. apply (fmt_int 24 (-149)). lia. Qed.

(* ---------------------------------------------------------------- literal laws *)
Lemma NumLits_B64 : NumLits B64Ops.
Proof. exact (fl_NumLits 53 (-1074) ltac:(lia) ltac:(lia)). Qed.
Lemma NumLits_B32 : NumLits B32Ops.
Proof. exact (fl_NumLits 24 (-149) ltac:(lia) ltac:(lia)). Qed.

(* ---------------------------------------------------------------- (a) extents *)
Theorem box_minmax_exact_binary64 (pts : list (list R)) (acc0 : list R) :
  fold_left (fun acc p => map2 (nmin2 B64Ops) acc p) pts acc0 = fold_left (fun acc p => map2 (nmin2 ROps) acc p) pts acc0 /\
  fold_left (fun acc p => map2 (nmax2 B64Ops) acc p) pts acc0 = fold_left (fun acc p => map2 (nmax2 ROps) acc p) pts acc0.
Proof. split; reflexivity. Qed.

Theorem box_minmax_exact_binary32 (pts : list (list R)) (acc0 : list R) :
  fold_left (fun acc p => map2 (nmin2 B32Ops) acc p) pts acc0 = fold_left (fun acc p => map2 (nmin2 ROps) acc p) pts acc0 /\
  fold_left (fun acc p => map2 (nmax2 B32Ops) acc p) pts acc0 = fold_left (fun acc p => map2 (nmax2 ROps) acc p) pts acc0.
Proof. split; reflexivity. Qed.

(* nmaxval B64Ops = (1 - 2^-53) * 2^1024 is DBL_MAX, the same number as nmaxval ROps = (2 - 2^-52) * 2^1023:
   the range hypothesis below is literally [bounded] of BoxProofs.v *)
Lemma pow2_bpow e : powerRZ 2 e = bpow radix2 e.
Proof. rewrite bpow_powerRZ. reflexivity. Qed.

Lemma nmaxval_B64_R : nmaxval B64Ops = nmaxval ROps.
Proof.
  unfold B64Ops. cbn [nmaxval FlOps ROps]. rewrite !pow2_bpow.
  change (3 - -1074 - 53)%Z with (1023 + 1)%Z. change (-52)%Z with (- (53) + 1)%Z.
  rewrite !bpow_plus. change (bpow radix2 1) with 2. ring.
Qed.

Lemma bounded_B64 pts : bounded pts <-> (forall p x, In p pts -> In x p -> Rabs x <= nmaxval B64Ops).
Proof. unfold bounded. rewrite nmaxval_B64_R. tauto. Qed.

(* every coordinate at most DBL_MAX in magnitude; the list of points non-empty; any dimension *)
Theorem box_extents_exact_binary64 n (pts : list (list R)) :
  pts <> [] -> Forall (fun p => length p = n) pts ->
  (forall p x, In p pts -> In x p -> Rabs x <= nmaxval B64Ops) ->
  forall i, (i < n)%nat ->
    is_min (coords pts i) (cont_min B64Ops n pts).[i] /\ is_max (coords pts i) (cont_max B64Ops n pts).[i].
Proof. exact (fl_extents_exact 53 (-1074) n pts). Qed.

Theorem box_precond_extents_exact_binary64 size cdim (pts : list (list R)) :
  pts <> [] -> Forall (fun p => length p = size) pts ->
  (forall p x, In p pts -> In x p -> Rabs x <= nmaxval B64Ops) ->
  forall i, (i < size)%nat ->
    is_min (coords pts i) (pc_min (precond_compute B64Ops size cdim pts)).[i] /\
    is_max (coords pts i) (pc_max (precond_compute B64Ops size cdim pts)).[i].
Proof. exact (fl_precond_extents_exact 53 (-1074) size cdim pts). Qed.

(* the same with the hypothesis written as [bounded] *)
Corollary box_extents_exact_bounded_binary64 n (pts : list (list R)) :
  pts <> [] -> Forall (fun p => length p = n) pts -> bounded pts ->
  forall i, (i < n)%nat ->
    is_min (coords pts i) (cont_min B64Ops n pts).[i] /\ is_max (coords pts i) (cont_max B64Ops n pts).[i] /\
    is_min (coords pts i) (pc_min (precond_compute B64Ops n n pts)).[i] /\
    is_max (coords pts i) (pc_max (precond_compute B64Ops n n pts)).[i].
Proof.
  intros Hne Hf Hb0 i Hi. pose proof (proj1 (bounded_B64 pts) Hb0) as Hb.
  destruct (box_extents_exact_binary64 n pts Hne Hf Hb i Hi) as [A B].
  destruct (box_precond_extents_exact_binary64 n n pts Hne Hf Hb i Hi) as [C D]. auto.
Qed.

(* nmaxval B32Ops = (1 - 2^-24) * 2^128 is FLT_MAX *)
Theorem box_extents_exact_binary32 n (pts : list (list R)) :
  pts <> [] -> Forall (fun p => length p = n) pts ->
  (forall p x, In p pts -> In x p -> Rabs x <= nmaxval B32Ops) ->
  forall i, (i < n)%nat ->
    is_min (coords pts i) (cont_min B32Ops n pts).[i] /\ is_max (coords pts i) (cont_max B32Ops n pts).[i].
Proof. exact (fl_extents_exact 24 (-149) n pts). Qed.

Theorem box_precond_extents_exact_binary32 size cdim (pts : list (list R)) :
  pts <> [] -> Forall (fun p => length p = size) pts ->
  (forall p x, In p pts -> In x p -> Rabs x <= nmaxval B32Ops) ->
  forall i, (i < size)%nat ->
    is_min (coords pts i) (pc_min (precond_compute B32Ops size cdim pts)).[i] /\
    is_max (coords pts i) (pc_max (precond_compute B32Ops size cdim pts)).[i].
Proof. exact (fl_precond_extents_exact 24 (-149) size cdim pts). Qed.

(* the hypotheses are satisfiable (here by a 2-point set with negative coordinates) *)
Lemma box_sample_in_range M : 4 <= M -> forall p x, In p [[1; 2]; [3; -4]] -> In x p -> Rabs x <= M.
Proof.
  intros HM p x [<-|[<-|[]]] Hx; simpl in Hx;
    repeat (destruct Hx as [<-|Hx]; [apply Rabs_le; lra|]); contradiction.
Qed.

Example box_extents_hyps_sat_binary64 :
  [[1; 2]; [3; -4]] <> [] /\ Forall (fun p : list R => length p = 2%nat) [[1; 2]; [3; -4]] /\
  (forall p x, In p [[1; 2]; [3; -4]] -> In x p -> Rabs x <= nmaxval B64Ops).
Proof.
  split; [discriminate|]. split; [repeat constructor|].
  apply box_sample_in_range. apply (fl_maxval_ge_4 53 (-1074)). lia.
Qed.

Example box_extents_hyps_sat_binary32 :
  [[1; 2]; [3; -4]] <> [] /\ Forall (fun p : list R => length p = 2%nat) [[1; 2]; [3; -4]] /\
  (forall p x, In p [[1; 2]; [3; -4]] -> In x p -> Rabs x <= nmaxval B32Ops).
Proof.
  split; [discriminate|]. split; [repeat constructor|].
  apply box_sample_in_range. apply (fl_maxval_ge_4 24 (-149)). lia.
Qed.

(* ---------------------------------------------------------------- (b) containment *)
Theorem box_aabb_inside_iff_binary64 (c h p : list R) : length c = length h -> length p = length c ->
  (aabb_inside B64Ops {| a_center := c; a_half := h |} p = true <->
   forall i, (i < length c)%nat -> Rabs (rnd64 (p.[i] - c.[i])) <= h.[i]).
Proof. exact (fl_aabb_inside_iff 53 (-1074) c h p). Qed.

Theorem box_aabb_inside_iff_binary32 (c h p : list R) : length c = length h -> length p = length c ->
  (aabb_inside B32Ops {| a_center := c; a_half := h |} p = true <->
   forall i, (i < length c)%nat -> Rabs (rnd32 (p.[i] - c.[i])) <= h.[i]).
Proof. exact (fl_aabb_inside_iff 24 (-149) c h p). Qed.

Theorem box_aabb_real_inside_float_inside_binary64 (c h p : list R) : length c = length h -> length p = length c ->
  (forall i, (i < length c)%nat -> b64 h.[i]) ->
  (forall i, (i < length c)%nat -> Rabs (p.[i] - c.[i]) <= h.[i]) ->
  aabb_inside B64Ops {| a_center := c; a_half := h |} p = true.
Proof. exact (fl_real_inside_float_inside 53 (-1074) c h p). Qed.

Theorem box_aabb_real_inside_float_inside_binary32 (c h p : list R) : length c = length h -> length p = length c ->
  (forall i, (i < length c)%nat -> b32 h.[i]) ->
  (forall i, (i < length c)%nat -> Rabs (p.[i] - c.[i]) <= h.[i]) ->
  aabb_inside B32Ops {| a_center := c; a_half := h |} p = true.
Proof. exact (fl_real_inside_float_inside 24 (-149) c h p). Qed.

(* the same, from the real-number model's verdict *)
Corollary box_aabb_real_model_inside_float_inside_binary64 (c h p : list R) :
  length c = length h -> length p = length c -> (forall i, (i < length c)%nat -> b64 h.[i]) ->
  aabb_inside ROps {| a_center := c; a_half := h |} p = true -> aabb_inside B64Ops {| a_center := c; a_half := h |} p = true.
Proof.
  intros Hch Hpc Fh H. apply box_aabb_real_inside_float_inside_binary64; try assumption.
  apply real_aabb_inside_abs_iff; assumption.
Qed.

Theorem box_aabb_float_inside_real_inside_binary64 (c h p : list R) : length c = length h -> length p = length c ->
  (forall i, (i < length c)%nat -> b64 h.[i]) ->
  aabb_inside B64Ops {| a_center := c; a_half := h |} p = true ->
  forall i, (i < length c)%nat -> Rabs (p.[i] - c.[i]) <= h.[i] + / 2 * ulp radix2 (FLT_exp (-1074) 53) h.[i].
Proof. exact (fl_float_inside_real_inside 53 (-1074) c h p). Qed.

Theorem box_aabb_float_inside_real_inside_binary32 (c h p : list R) : length c = length h -> length p = length c ->
  (forall i, (i < length c)%nat -> b32 h.[i]) ->
  aabb_inside B32Ops {| a_center := c; a_half := h |} p = true ->
  forall i, (i < length c)%nat -> Rabs (p.[i] - c.[i]) <= h.[i] + / 2 * ulp radix2 (FLT_exp (-149) 24) h.[i].
Proof. exact (fl_float_inside_real_inside 24 (-149) c h p). Qed.

Theorem box_aabb_inside_exact_sub_binary64 (c h p : list R) : length c = length h -> length p = length c ->
  (forall i, (i < length c)%nat -> b64 (p.[i] - c.[i])) ->
  aabb_inside B64Ops {| a_center := c; a_half := h |} p = aabb_inside ROps {| a_center := c; a_half := h |} p /\
  (aabb_inside B64Ops {| a_center := c; a_half := h |} p = true <->
   forall i, (i < length c)%nat -> Rabs (p.[i] - c.[i]) <= h.[i]).
Proof.
  intros Hch Hpc Fs. pose proof (fl_aabb_inside_exact_sub 53 (-1074) c h p Hch Hpc Fs) as E.
  split; [exact E|]. unfold B64Ops. rewrite E. apply real_aabb_inside_abs_iff; assumption.
Qed.

Theorem box_aabb_inside_exact_sub_binary32 (c h p : list R) : length c = length h -> length p = length c ->
  (forall i, (i < length c)%nat -> b32 (p.[i] - c.[i])) ->
  aabb_inside B32Ops {| a_center := c; a_half := h |} p = aabb_inside ROps {| a_center := c; a_half := h |} p /\
  (aabb_inside B32Ops {| a_center := c; a_half := h |} p = true <->
   forall i, (i < length c)%nat -> Rabs (p.[i] - c.[i]) <= h.[i]).
Proof.
  intros Hch Hpc Fs. pose proof (fl_aabb_inside_exact_sub 24 (-149) c h p Hch Hpc Fs) as E.
  split; [exact E|]. unfold B32Ops. rewrite E. apply real_aabb_inside_abs_iff; assumption.
Qed.

(* Sterbenz: point and centre floats within a factor 2 of each other -> p - c is representable *)
Lemma box_sterbenz_binary64 x y : b64 x -> b64 y -> y / 2 <= x <= 2 * y -> b64 (x - y).
Proof. exact (fl_sterbenz 53 (-1074) x y). Qed.
Lemma box_sterbenz_binary32 x y : b32 x -> b32 y -> y / 2 <= x <= 2 * y -> b32 (x - y).
Proof. exact (fl_sterbenz 24 (-149) x y). Qed.

Theorem box_interval_inside_exact_binary64 (i : interval) (v : list R) :
  interval_inside B64Ops i v = interval_inside ROps i v.
Proof. reflexivity. Qed.

Theorem box_interval_inside_exact_binary32 (i : interval) (v : list R) :
  interval_inside B32Ops i v = interval_inside ROps i v.
Proof. reflexivity. Qed.

Theorem box_interval_inside_iff_binary64 (lo hi v : list R) : length lo = length v -> length hi = length v ->
  (interval_inside B64Ops {| i_lower := lo; i_upper := hi |} v = true <->
   forall i, (i < length v)%nat -> lo.[i] <= v.[i] <= hi.[i]).
Proof. exact (fl_interval_inside_iff 53 (-1074) lo hi v). Qed.

Theorem box_interval_inside_iff_binary32 (lo hi v : list R) : length lo = length v -> length hi = length v ->
  (interval_inside B32Ops {| i_lower := lo; i_upper := hi |} v = true <->
   forall i, (i < length v)%nat -> lo.[i] <= v.[i] <= hi.[i]).
Proof. exact (fl_interval_inside_iff 24 (-149) lo hi v). Qed.

(* the hypotheses of the containment theorems are satisfiable together: centre 0, half extent 1, point 1 (on the face) *)
Example box_aabb_hyps_sat_binary64 :
  length [0] = length [1] /\ length [1] = length [0] /\
  (forall i, (i < length [0])%nat -> b64 [1].[i]) /\
  (forall i, (i < length [0])%nat -> Rabs ([1].[i] - [0].[i]) <= [1].[i]) /\
  (forall i, (i < length [0])%nat -> b64 ([1].[i] - [0].[i])) /\
  aabb_inside B64Ops {| a_center := [0]; a_half := [1] |} [1] = true.
Proof.
  assert (F1 : b64 1) by (apply (b64_int 1); reflexivity).
  assert (A : forall i, (i < length [0])%nat -> b64 [1].[i]).
  { intros [|i] Hi; [exact F1|simpl in Hi; lia]. }
  assert (B : forall i, (i < length [0])%nat -> Rabs ([1].[i] - [0].[i]) <= [1].[i]).
  { intros [|i] Hi; [simpl; apply Rabs_le; lra|simpl in Hi; lia]. }
  repeat split; try assumption.
  - intros [|i] Hi; [simpl; replace (1 - 0) with 1 by lra; exact F1|simpl in Hi; lia].
  - apply box_aabb_real_inside_float_inside_binary64; auto.
Qed.

(* ---------------------------------------------------------------- (c) interval -> box -> interval *)
(* what the round trip computes, per axis *)
Theorem box_roundtrip_unfold_binary64 (lo hi : list R) i : length lo = length hi -> (i < length lo)%nat ->
  (i_lower (aabb_to_interval B64Ops (aabb_of_interval B64Ops {| i_lower := lo; i_upper := hi |}))).[i]
    = rnd64 (rnd64 (rnd64 (hi.[i] + lo.[i]) / 2) - rnd64 (rnd64 (hi.[i] - lo.[i]) / 2)) /\
  (i_upper (aabb_to_interval B64Ops (aabb_of_interval B64Ops {| i_lower := lo; i_upper := hi |}))).[i]
    = rnd64 (rnd64 (rnd64 (hi.[i] + lo.[i]) / 2) + rnd64 (rnd64 (hi.[i] - lo.[i]) / 2)).
Proof. exact (fl_roundtrip_unfold 53 (-1074) ltac:(lia) ltac:(lia) lo hi i). Qed.

Theorem box_roundtrip_unfold_binary32 (lo hi : list R) i : length lo = length hi -> (i < length lo)%nat ->
  (i_lower (aabb_to_interval B32Ops (aabb_of_interval B32Ops {| i_lower := lo; i_upper := hi |}))).[i]
    = rnd32 (rnd32 (rnd32 (hi.[i] + lo.[i]) / 2) - rnd32 (rnd32 (hi.[i] - lo.[i]) / 2)) /\
  (i_upper (aabb_to_interval B32Ops (aabb_of_interval B32Ops {| i_lower := lo; i_upper := hi |}))).[i]
    = rnd32 (rnd32 (rnd32 (hi.[i] + lo.[i]) / 2) + rnd32 (rnd32 (hi.[i] - lo.[i]) / 2)).
Proof. exact (fl_roundtrip_unfold 24 (-149) ltac:(lia) ltac:(lia) lo hi i). Qed.

(* for ALL real bounds (no format assumption): u = 2^-53, eta = 2^-1075 *)
Theorem box_roundtrip_error_binary64 (lo hi : list R) i : length lo = length hi -> (i < length lo)%nat ->
  Rabs ((i_lower (aabb_to_interval B64Ops (aabb_of_interval B64Ops {| i_lower := lo; i_upper := hi |}))).[i] - lo.[i])
    <= 6 * (bpow radix2 (-53) * Rmax (Rabs lo.[i]) (Rabs hi.[i])) + 5 * bpow radix2 (-1075) /\
  Rabs ((i_upper (aabb_to_interval B64Ops (aabb_of_interval B64Ops {| i_lower := lo; i_upper := hi |}))).[i] - hi.[i])
    <= 6 * (bpow radix2 (-53) * Rmax (Rabs lo.[i]) (Rabs hi.[i])) + 5 * bpow radix2 (-1075).
Proof. exact (fl_roundtrip_error_list 53 (-1074) ltac:(lia) ltac:(lia) lo hi i). Qed.

(* u = 2^-24, eta = 2^-150 *)
Theorem box_roundtrip_error_binary32 (lo hi : list R) i : length lo = length hi -> (i < length lo)%nat ->
  Rabs ((i_lower (aabb_to_interval B32Ops (aabb_of_interval B32Ops {| i_lower := lo; i_upper := hi |}))).[i] - lo.[i])
    <= 6 * (bpow radix2 (-24) * Rmax (Rabs lo.[i]) (Rabs hi.[i])) + 5 * bpow radix2 (-150) /\
  Rabs ((i_upper (aabb_to_interval B32Ops (aabb_of_interval B32Ops {| i_lower := lo; i_upper := hi |}))).[i] - hi.[i])
    <= 6 * (bpow radix2 (-24) * Rmax (Rabs lo.[i]) (Rabs hi.[i])) + 5 * bpow radix2 (-150).
Proof. exact (fl_roundtrip_error_list 24 (-149) ltac:(lia) ltac:(lia) lo hi i). Qed.

Theorem box_roundtrip_exact_binary64 (lo hi : list R) i : length lo = length hi -> (i < length lo)%nat ->
  b64 (hi.[i] + lo.[i]) -> b64 (hi.[i] - lo.[i]) -> b64 ((hi.[i] + lo.[i]) / 2) -> b64 ((hi.[i] - lo.[i]) / 2) ->
  b64 lo.[i] -> b64 hi.[i] ->
  (i_lower (aabb_to_interval B64Ops (aabb_of_interval B64Ops {| i_lower := lo; i_upper := hi |}))).[i] = lo.[i] /\
  (i_upper (aabb_to_interval B64Ops (aabb_of_interval B64Ops {| i_lower := lo; i_upper := hi |}))).[i] = hi.[i].
Proof. exact (fl_roundtrip_exact_list 53 (-1074) ltac:(lia) ltac:(lia) lo hi i). Qed.

Theorem box_roundtrip_exact_binary32 (lo hi : list R) i : length lo = length hi -> (i < length lo)%nat ->
  b32 (hi.[i] + lo.[i]) -> b32 (hi.[i] - lo.[i]) -> b32 ((hi.[i] + lo.[i]) / 2) -> b32 ((hi.[i] - lo.[i]) / 2) ->
  b32 lo.[i] -> b32 hi.[i] ->
  (i_lower (aabb_to_interval B32Ops (aabb_of_interval B32Ops {| i_lower := lo; i_upper := hi |}))).[i] = lo.[i] /\
  (i_upper (aabb_to_interval B32Ops (aabb_of_interval B32Ops {| i_lower := lo; i_upper := hi |}))).[i] = hi.[i].
Proof. exact (fl_roundtrip_exact_list 24 (-149) ltac:(lia) ltac:(lia) lo hi i). Qed.

(* the representability hypotheses are satisfiable: [1, 3] -> centre 2, half 1 -> [1, 3] *)
Example box_roundtrip_exact_hyps_sat_binary64 :
  b64 (3 + 1) /\ b64 (3 - 1) /\ b64 ((3 + 1) / 2) /\ b64 ((3 - 1) / 2) /\ b64 1 /\ b64 3.
Proof.
  replace (3 + 1) with (IZR 4) by (simpl; lra). replace (3 - 1) with (IZR 2) by (simpl; lra).
  replace (IZR 4 / 2) with (IZR 2) by (simpl; lra). replace (IZR 2 / 2) with (IZR 1) by (simpl; lra).
  repeat split; apply b64_int; reflexivity.
Qed.

Example box_roundtrip_exact_hyps_sat_binary32 :
  b32 (3 + 1) /\ b32 (3 - 1) /\ b32 ((3 + 1) / 2) /\ b32 ((3 - 1) / 2) /\ b32 1 /\ b32 3.
Proof.
  replace (3 + 1) with (IZR 4) by (simpl; lra). replace (3 - 1) with (IZR 2) by (simpl; lra).
  replace (IZR 4 / 2) with (IZR 2) by (simpl; lra). replace (IZR 2 / 2) with (IZR 1) by (simpl; lra).
  repeat split; apply b32_int; reflexivity.
Qed.

(* ---------------------------------------------------------------- the margins are needed: binary64 witnesses
   (all inputs are floating-point numbers) *)
Local Notation fexp64 := (FLT_exp (-1074) 53).

Lemma bpow2_double e : bpow radix2 (e + 1) = 2 * bpow radix2 e.
Proof. rewrite bpow_plus. change (bpow radix2 1) with 2. ring. Qed.

(* everything strictly between the two midpoints around 1 rounds to 1 *)
Lemma rnd64_to_1 v : 1 - bpow radix2 (-54) < v < 1 + bpow radix2 (-53) -> rnd64 v = 1.
Proof.
  intros [L U].
  assert (F1 : generic_format radix2 fexp64 1) by (apply (b64_int 1); reflexivity).
  assert (S1 : succ radix2 fexp64 1 = 1 + bpow radix2 (-52)).
  { rewrite succ_eq_pos by lra. f_equal. exact (ulp_bpow radix2 fexp64 0). }
  assert (P1 : pred radix2 fexp64 1 = 1 - bpow radix2 (-53)) by exact (pred_bpow radix2 fexp64 0).
  pose proof (bpow2_double (-53)) as E52. change (-53 + 1)%Z with (-52)%Z in E52.
  pose proof (bpow2_double (-54)) as E53. change (-54 + 1)%Z with (-53)%Z in E53.
  apply Rle_antisym.
  - unfold rnd64, frnd. apply round_N_le_midp; auto with typeclass_instances. rewrite S1. lra.
  - unfold rnd64, frnd. apply round_N_ge_midp; auto with typeclass_instances. rewrite P1. lra.
Qed.

(* isInside can accept a point that is outside the box: centre -2^-54, half extent 1, point 1
   (p - c = 1 + 2^-54 rounds to 1).  So box_aabb_float_inside_real_inside needs its half-ulp margin. *)
Theorem box_aabb_float_inside_not_real_inside_binary64 :
  exists c h p : list R, length c = length h /\ length p = length c /\
    (forall i, (i < length c)%nat -> b64 c.[i] /\ b64 h.[i] /\ b64 p.[i]) /\
    aabb_inside B64Ops {| a_center := c; a_half := h |} p = true /\
    aabb_inside ROps {| a_center := c; a_half := h |} p = false.
Proof.
  exists [- bpow radix2 (-54)], [1], [1].
  pose proof (bpow_gt_0 radix2 (-54)) as E0.
  pose proof (bpow2_double (-54)) as E53. change (-54 + 1)%Z with (-53)%Z in E53.
  assert (F1 : b64 1) by (apply (b64_int 1); reflexivity).
  split; [reflexivity|]. split; [reflexivity|]. split; [|split].
  - intros [|i] Hi; [|simpl in Hi; lia]. cbn [nth]. split; [|split; exact F1].
    apply (fmt_dyadic 53 (-1074) _ (-1) (-54)); [ring|reflexivity|lia].
  - apply box_aabb_inside_iff_binary64; [reflexivity|reflexivity|].
    intros [|i] Hi; [|simpl in Hi; lia]. cbn [nth].
    rewrite rnd64_to_1 by lra. rewrite Rabs_R1. lra.
  - unfold aabb_inside, vabs, vsub. cbn [a_center a_half map map2 all2 nleb nabs nsub ROps].
    rewrite andb_true_r. apply Rleb_false. rewrite Rabs_pos_eq by lra. lra.
Qed.

(* the interval -> box -> interval round trip is not the identity on floating-point bounds: [2^-55, 1] comes back
   as [0, 1] (centre and half extent both round to 1/2): the lower bound loses all its relative accuracy, within
   the absolute bound 6 u M of box_roundtrip_error *)
Theorem box_roundtrip_inexact_binary64 :
  exists lo hi : list R, length lo = length hi /\ b64 lo.[0%nat] /\ b64 hi.[0%nat] /\ 0 < lo.[0%nat] < hi.[0%nat] /\
    (i_lower (aabb_to_interval B64Ops (aabb_of_interval B64Ops {| i_lower := lo; i_upper := hi |}))).[0%nat] = 0 /\
    (i_upper (aabb_to_interval B64Ops (aabb_of_interval B64Ops {| i_lower := lo; i_upper := hi |}))).[0%nat] = 1.
Proof.
  exists [bpow radix2 (-55)], [1].
  pose proof (bpow_gt_0 radix2 (-55)) as E0.
  pose proof (bpow2_double (-55)) as E54. change (-55 + 1)%Z with (-54)%Z in E54.
  pose proof (bpow2_double (-54)) as E53. change (-54 + 1)%Z with (-53)%Z in E53.
  assert (F1 : b64 1) by (apply (b64_int 1); reflexivity).
  assert (Fh : b64 (1 / 2)).
  { apply (fmt_dyadic 53 (-1074) _ 1 (-1)); [change (bpow radix2 (-1)) with (/ 2); lra|reflexivity|lia]. }
  assert (L1 : bpow radix2 (-55) < 1).
  { change 1 with (bpow radix2 0). apply bpow_lt. lia. }
  split; [reflexivity|]. split.
  { apply (fmt_dyadic 53 (-1074) _ 1 (-55)); [cbn [nth]; ring|reflexivity|lia]. }
  split; [exact F1|]. split; [cbn [nth]; lra|].
  destruct (box_roundtrip_unfold_binary64 [bpow radix2 (-55)] [1] 0%nat eq_refl ltac:(simpl; lia)) as [-> ->].
  cbn [nth].
  rewrite (rnd64_to_1 (1 + bpow radix2 (-55))) by lra. rewrite (rnd64_to_1 (1 - bpow radix2 (-55))) by lra.
  unfold rnd64. rewrite (rnd_id 53 (-1074) (1 / 2) Fh).
  replace (1 / 2 - 1 / 2) with 0 by lra. replace (1 / 2 + 1 / 2) with 1 by lra.
  split; [|exact (rnd_id 53 (-1074) 1 F1)].
  unfold rnd64, frnd. apply round_0. auto with typeclass_instances.
Qed.
