(* GridMapModel.v — executable model for C13: src/containers/grid/GridIndexMapping.cpp (per axis).
   Definitions only; generic in the numeric dictionary. *)
From Coq Require Import ZArith List.
From Romea Require Import Num.
Import ListNotations.

Section GridMap.
Context {T : Type} (N : NumOps T).

(* flooredMinimalPositionAlongAxes_ = cellResolution * (floor(lower / cellResolution) - 0.5) *)
Definition gm_origin (r lo : T) : T := nmul N r (nsub N (nfloor N (ndiv N lo r)) (nhalf N)).

(* numberOfCellsAlongAxes_ = (ceil(upper / r) - floor(lower / r) + 1).cast<size_t>() *)
Definition gm_ncells (r lo hi : T) : Z :=
  ntruncZ N (nadd N (nsub N (nceil N (ndiv N hi r)) (nfloor N (ndiv N lo r))) (n_one N)).

(* computeCellIndexes: ((point - origin) / r).cast<size_t>()  — truncation toward zero *)
Definition gm_index (r org p : T) : Z := ntruncZ N (ndiv N (nsub N p org) r).

(* cellCentersPositionAlongAxis[n] = origin + (n + 0.5) * r *)
Definition gm_centre (r org : T) (k : Z) : T := nadd N org (nmul N (nadd N (nofZ N k) (nhalf N)) r).

(* the symmetric constructor: extent [-maximalRange, maximalRange] on every axis *)
Definition gm_sym_lo (range : T) : T := nneg N range.

Record axis := { ax_r : T; ax_org : T; ax_n : Z }.
Definition gm_axis (r lo hi : T) : axis := {| ax_r := r; ax_org := gm_origin r lo; ax_n := gm_ncells r lo hi |}.
End GridMap.
