(* SrcTieC14Cast.v — source tie of RayCasting::cast() (the loop), cast(end) and cast(origin, end).
   gen/SrcRayCast.v contains src_cast_2 / src_cast_3: cast() with computeRayNumberOfCells and next inlined (next is taken
   from the explicit specialisation of the instantiation at hand), the `while (++n != rayNumberOfCells)` loop as a local fix
   on a fuel argument, the returned std::vector as (size, function of the index).  Proved here, for every numeric
   dictionary: with fuel >= number of cells the generated term returns
     - the size [ncells c],
     - an array whose first [ncells c] entries are exactly [cast_cells N c], and
     - rayTMax_ = rc_tmax (after_cast N c)
   — [cast_cells] and [after_cast] being the functions of RayCastModel.v that C14_cast_walk etc. are about.
   cast(end) / cast(origin, end) are, definitionally, setEndPoint / setOriginPoint followed by that. *)
From Coq Require Import ZArith List Bool Lia.
From Romea Require Import Num GridMapModel RayCastModel SrcEigen SrcTieC14.
From Romea.gen Require Import SrcRayCast.
Import ListNotations.

Section Tie.
Context {T : Type} (N : NumOps T).

Definition cast_result (c : caster (T:=T)) (out : option ((Z * (Z -> list Z)) * list T)) : Prop :=
  match out with
  | None => False
  | Some ((k, ray), tmax) =>
      k = ncells c /\ tmax = rc_tmax (after_cast N c) /\
      forall j, (j < length (cast_cells N c))%nat -> ray (Z.of_nat j) = nth j (cast_cells N c) []
  end.

Lemma ncells_ge_1_2 e0 e1 o0 o1 : (1 <= eig_sumZ [Z.abs (e0 - o0); Z.abs (e1 - o1)] + 1)%Z.
Proof. unfold eig_sumZ. cbn [fold_left]. lia. Qed.

Lemma ncells_ge_1_3 e0 e1 e2 o0 o1 o2 : (1 <= eig_sumZ [Z.abs (e0 - o0); Z.abs (e1 - o1); Z.abs (e2 - o2)] + 1)%Z.
Proof. unfold eig_sumZ. cbn [fold_left]. lia. Qed.

Lemma tie_cast_2 (c : caster (T:=T)) e0 e1 o0 o1 s0 s1 d0 d1 t0 t1 fuel :
  rc_eidx c = [e0; e1] -> rc_oidx c = [o0; o1] -> rc_step c = [s0; s1] -> rc_tdelta c = [d0; d1] -> rc_tmax c = [t0; t1] ->
  (Z.to_nat (ncells c) <= fuel)%nat ->
  cast_result c (src_cast_2 N IdealInt fuel e0 e1 o0 o1 s0 s1 d0 d1 t0 t1).
Proof.
  intros He Ho Hs Hd Ht Hf.
  pose proof (tie_ncells_2 c e0 e1 o0 o1 He Ho) as HK. unfold src_ncells_2 in HK. cbn [cu64 ci32 IdealInt] in HK.
  pose proof (ncells_ge_1_2 e0 e1 o0 o1) as HK1.
  unfold cast_result, src_cast_2. cbv zeta. cbn [cu64 ci32 IdealInt].
  set (K := (eig_sumZ [Z.abs (e0 - o0); Z.abs (e1 - o1)] + 1)%Z) in *.
  match goal with |- match match ?F fuel 0%Z o0 o1 t0 t1 ?R with _ => _ end with _ => _ end =>
    assert (HL : forall m fu n c0 c1 u0 u1 ray, (n + 1 + Z.of_nat m = K)%Z -> (m < fu)%nat ->
      exists c0' c1' u0' u1' ray',
        F fu n c0 c1 u0 u1 ray = Some (K, c0', c1', u0', u1', ray') /\
        iter_state N m [e0; e1] [s0; s1] [d0; d1] ([c0; c1], [u0; u1]) = ([c0'; c1'], [u0'; u1']) /\
        (forall j, (j < m)%nat -> ray' (n + 1 + Z.of_nat j)%Z = nth j (iter_cast N m [e0; e1] [s0; s1] [d0; d1] ([c0; c1], [u0; u1])) []) /\
        (forall k, (k <= n)%Z -> ray' k = ray k));
    [| destruct (HL (Z.to_nat (K - 1)) fuel 0%Z o0 o1 t0 t1 R) as (c0' & c1' & u0' & u1' & ray' & E & HS & HC & HR);
       [lia | lia | rewrite E] ]
  end.
  - induction m as [|m IH]; intros fu n c0 c1 u0 u1 ray Hn Hfu; (destruct fu as [|f]; [lia|]).
    + cbv beta iota fix zeta.
      replace (Z.eqb (n + 1) K) with true by (symmetry; apply Z.eqb_eq; lia). cbn [negb].
      exists c0, c1, u0, u1, ray. repeat split; [replace (n + 1)%Z with K by lia; reflexivity | intros j Hj; lia].
    + cbv beta iota fix zeta.
      replace (Z.eqb (n + 1) K) with false by (symmetry; apply Z.eqb_neq; lia). cbn [negb].
      pose proof (tie_next_d2 N c0 c1 e0 e1 s0 s1 d0 d1 u0 u1) as Hnx. unfold src_next_d2 in Hnx. cbv zeta in Hnx.
      cbn [cu64 ci32 IdealInt] in Hnx.
      match goal with |- exists _ _ _ _ _, ?G f (n + 1)%Z ?a0 ?a1 ?b0 ?b1 ?r = _ /\ _ =>
        destruct (IH f (n + 1)%Z a0 a1 b0 b1 r) as (c0' & c1' & u0' & u1' & ray' & E & HS & HC & HR); [lia | lia |];
        exists c0', c1', u0', u1', ray'; split; [exact E|]; split; [|split]
      end.
      * cbn [iter_state]. rewrite <- Hnx. exact HS.
      * intros [|j] Hj.
        -- cbn [iter_cast nth]. rewrite <- Hnx. cbn [fst]. rewrite Z.add_0_r. rewrite HR by lia. apply arr_set_same.
        -- cbn [iter_cast nth]. rewrite <- Hnx.
           replace (n + 1 + Z.of_nat (S j))%Z with (n + 1 + 1 + Z.of_nat j)%Z by lia. apply HC. lia.
      * intros k Hk. rewrite HR by lia. apply arr_set_other. lia.
  - (* the whole function *)
    split; [exact HK|]. split.
    + unfold after_cast. cbn [rc_tmax]. rewrite He, Hs, Hd, Ho, Ht, <- HK.
      replace (Z.to_nat (K - 1)) with (Z.to_nat (K - 1)) by reflexivity. rewrite HS. reflexivity.
    + unfold cast_cells. rewrite He, Hs, Hd, Ho, Ht, <- HK. intros [|j] Hj.
      * cbn [nth Z.of_nat]. rewrite HR by lia. apply arr_set_same.
      * cbn [nth]. cbn [length] in Hj.
        assert (Hlen : forall n E S D st, length (iter_cast N n E S D st) = n).
        { induction n as [|n IHn]; intros; cbn [iter_cast length]; [reflexivity | rewrite IHn; reflexivity]. }
        rewrite Hlen in Hj.
        replace (Z.of_nat (S j)) with (0 + 1 + Z.of_nat j)%Z by lia. apply HC. lia.
Qed.

Lemma tie_cast_3 (c : caster (T:=T)) e0 e1 e2 o0 o1 o2 s0 s1 s2 d0 d1 d2 t0 t1 t2 fuel :
  rc_eidx c = [e0; e1; e2] -> rc_oidx c = [o0; o1; o2] -> rc_step c = [s0; s1; s2] -> rc_tdelta c = [d0; d1; d2] ->
  rc_tmax c = [t0; t1; t2] -> (Z.to_nat (ncells c) <= fuel)%nat ->
  cast_result c (src_cast_3 N IdealInt fuel e0 e1 e2 o0 o1 o2 s0 s1 s2 d0 d1 d2 t0 t1 t2).
Proof.
  intros He Ho Hs Hd Ht Hf.
  pose proof (tie_ncells_3 c e0 e1 e2 o0 o1 o2 He Ho) as HK. unfold src_ncells_3 in HK. cbn [cu64 ci32 IdealInt] in HK.
  pose proof (ncells_ge_1_3 e0 e1 e2 o0 o1 o2) as HK1.
  unfold cast_result, src_cast_3. cbv zeta. cbn [cu64 ci32 IdealInt].
  set (K := (eig_sumZ [Z.abs (e0 - o0); Z.abs (e1 - o1); Z.abs (e2 - o2)] + 1)%Z) in *.
  match goal with |- match match ?F fuel 0%Z o0 o1 o2 t0 t1 t2 ?R with _ => _ end with _ => _ end =>
    assert (HL : forall m fu n c0 c1 c2 u0 u1 u2 ray, (n + 1 + Z.of_nat m = K)%Z -> (m < fu)%nat ->
      exists c0' c1' c2' u0' u1' u2' ray',
        F fu n c0 c1 c2 u0 u1 u2 ray = Some (K, c0', c1', c2', u0', u1', u2', ray') /\
        iter_state N m [e0; e1; e2] [s0; s1; s2] [d0; d1; d2] ([c0; c1; c2], [u0; u1; u2]) = ([c0'; c1'; c2'], [u0'; u1'; u2']) /\
        (forall j, (j < m)%nat -> ray' (n + 1 + Z.of_nat j)%Z
             = nth j (iter_cast N m [e0; e1; e2] [s0; s1; s2] [d0; d1; d2] ([c0; c1; c2], [u0; u1; u2])) []) /\
        (forall k, (k <= n)%Z -> ray' k = ray k));
    [| destruct (HL (Z.to_nat (K - 1)) fuel 0%Z o0 o1 o2 t0 t1 t2 R) as (c0' & c1' & c2' & u0' & u1' & u2' & ray' & E & HS & HC & HR);
       [lia | lia | rewrite E] ]
  end.
  - induction m as [|m IH]; intros fu n c0 c1 c2 u0 u1 u2 ray Hn Hfu; (destruct fu as [|f]; [lia|]).
    + cbv beta iota fix zeta.
      replace (Z.eqb (n + 1) K) with true by (symmetry; apply Z.eqb_eq; lia). cbn [negb].
      exists c0, c1, c2, u0, u1, u2, ray. repeat split; [replace (n + 1)%Z with K by lia; reflexivity | intros j Hj; lia].
    + cbv beta iota fix zeta.
      replace (Z.eqb (n + 1) K) with false by (symmetry; apply Z.eqb_neq; lia). cbn [negb].
      pose proof (tie_next_d3 N c0 c1 c2 e0 e1 e2 s0 s1 s2 d0 d1 d2 u0 u1 u2) as Hnx. unfold src_next_d3 in Hnx. cbv zeta in Hnx.
      cbn [cu64 ci32 IdealInt] in Hnx.
      match goal with |- exists _ _ _ _ _ _ _, ?G f (n + 1)%Z ?a0 ?a1 ?a2 ?b0 ?b1 ?b2 ?r = _ /\ _ =>
        destruct (IH f (n + 1)%Z a0 a1 a2 b0 b1 b2 r) as (c0' & c1' & c2' & u0' & u1' & u2' & ray' & E & HS & HC & HR); [lia | lia |];
        exists c0', c1', c2', u0', u1', u2', ray'; split; [exact E|]; split; [|split]
      end.
      * cbn [iter_state]. rewrite <- Hnx. exact HS.
      * intros [|j] Hj.
        -- cbn [iter_cast nth]. rewrite <- Hnx. cbn [fst]. rewrite Z.add_0_r. rewrite HR by lia. apply arr_set_same.
        -- cbn [iter_cast nth]. rewrite <- Hnx.
           replace (n + 1 + Z.of_nat (S j))%Z with (n + 1 + 1 + Z.of_nat j)%Z by lia. apply HC. lia.
      * intros k Hk. rewrite HR by lia. apply arr_set_other. lia.
  - split; [exact HK|]. split.
    + unfold after_cast. cbn [rc_tmax]. rewrite He, Hs, Hd, Ho, Ht, <- HK. rewrite HS. reflexivity.
    + unfold cast_cells. rewrite He, Hs, Hd, Ho, Ht, <- HK. intros [|j] Hj.
      * cbn [nth Z.of_nat]. rewrite HR by lia. apply arr_set_same.
      * cbn [nth]. cbn [length] in Hj.
        assert (Hlen : forall n E S D st, length (iter_cast N n E S D st) = n).
        { induction n as [|n IHn]; intros; cbn [iter_cast length]; [reflexivity | rewrite IHn; reflexivity]. }
        rewrite Hlen in Hj.
        replace (Z.of_nat (S j)) with (0 + 1 + Z.of_nat j)%Z by lia. apply HC. lia.
Qed.


(* ---------------------------------------------------------------- cast(end) = setEndPoint(end); cast()  and
   cast(origin, end) = setOriginPoint(origin); cast(end): the generated terms of the overloads ARE those compositions *)
Section Deleg.
Context (I : IntConv).

Definition castE_via_2 fuel (e0 e1 : T) (tab0 tab1 : Z -> T) (r g0 g1 : T) (oi0 oi1 : Z) (o0 o1 : T) :=
  match src_setEnd_2 N e0 e1 tab0 tab1 r g0 g1 oi0 oi1 o0 o1 with
  | (dir, [ei0; ei1], ep, [s0; s1], [d0; d1], [t0; t1]) =>
      match src_cast_2 N I fuel ei0 ei1 oi0 oi1 s0 s1 d0 d1 t0 t1 with
      | None => None
      | Some (ret, tm) => Some (ret, dir, [ei0; ei1], ep, [s0; s1], [d0; d1], tm)
      end
  | _ => None
  end.

Lemma castE_deleg_2 fuel e0 e1 tab0 tab1 r g0 g1 oi0 oi1 o0 o1 :
  src_castE_2 N I fuel e0 e1 tab0 tab1 r g0 g1 oi0 oi1 o0 o1 = castE_via_2 fuel e0 e1 tab0 tab1 r g0 g1 oi0 oi1 o0 o1.
Proof.
  unfold castE_via_2, src_castE_2, src_setEnd_2, src_cast_2. cbv zeta. cbv beta iota.
  match goal with |- match ?X with _ => _ end = _ => destruct X as [[[[[[? ?] ?] ?] ?] ?]|]; reflexivity end.
Qed.

Definition castE_via_3 fuel (e0 e1 e2 : T) (tab0 tab1 tab2 : Z -> T) (r g0 g1 g2 : T) (oi0 oi1 oi2 : Z) (o0 o1 o2 : T) :=
  match src_setEnd_3 N e0 e1 e2 tab0 tab1 tab2 r g0 g1 g2 oi0 oi1 oi2 o0 o1 o2 with
  | (dir, [ei0; ei1; ei2], ep, [s0; s1; s2], [d0; d1; d2], [t0; t1; t2]) =>
      match src_cast_3 N I fuel ei0 ei1 ei2 oi0 oi1 oi2 s0 s1 s2 d0 d1 d2 t0 t1 t2 with
      | None => None
      | Some (ret, tm) => Some (ret, dir, [ei0; ei1; ei2], ep, [s0; s1; s2], [d0; d1; d2], tm)
      end
  | _ => None
  end.

Lemma castE_deleg_3 fuel e0 e1 e2 tab0 tab1 tab2 r g0 g1 g2 oi0 oi1 oi2 o0 o1 o2 :
  src_castE_3 N I fuel e0 e1 e2 tab0 tab1 tab2 r g0 g1 g2 oi0 oi1 oi2 o0 o1 o2
  = castE_via_3 fuel e0 e1 e2 tab0 tab1 tab2 r g0 g1 g2 oi0 oi1 oi2 o0 o1 o2.
Proof.
  unfold castE_via_3, src_castE_3, src_setEnd_3, src_cast_3. cbv zeta. cbv beta iota.
  match goal with |- match ?X with _ => _ end = _ => destruct X as [[[[[[[[? ?] ?] ?] ?] ?] ?] ?]|]; reflexivity end.
Qed.

Definition castOE_via_2 fuel (p0 p1 e0 e1 : T) (tab0 tab1 : Z -> T) (r g0 g1 : T) :=
  match src_setOrigin_2 N p0 p1 r g0 g1 with
  | ([oi0; oi1], [o0; o1]) =>
      match src_castE_2 N I fuel e0 e1 tab0 tab1 r g0 g1 oi0 oi1 o0 o1 with
      | None => None
      | Some (ret, dir, eidx, ep, step, td, tm) => Some (ret, dir, eidx, ep, [oi0; oi1], [o0; o1], step, td, tm)
      end
  | _ => None
  end.

Lemma castOE_deleg_2 fuel p0 p1 e0 e1 tab0 tab1 r g0 g1 :
  src_castOE_2 N I fuel p0 p1 e0 e1 tab0 tab1 r g0 g1 = castOE_via_2 fuel p0 p1 e0 e1 tab0 tab1 r g0 g1.
Proof.
  unfold castOE_via_2, src_castOE_2, src_setOrigin_2, src_castE_2. cbv zeta. cbv beta iota.
  match goal with |- match ?X with _ => _ end = _ => destruct X as [[[[[[? ?] ?] ?] ?] ?]|]; reflexivity end.
Qed.

Definition castOE_via_3 fuel (p0 p1 p2 e0 e1 e2 : T) (tab0 tab1 tab2 : Z -> T) (r g0 g1 g2 : T) :=
  match src_setOrigin_3 N p0 p1 p2 r g0 g1 g2 with
  | ([oi0; oi1; oi2], [o0; o1; o2]) =>
      match src_castE_3 N I fuel e0 e1 e2 tab0 tab1 tab2 r g0 g1 g2 oi0 oi1 oi2 o0 o1 o2 with
      | None => None
      | Some (ret, dir, eidx, ep, step, td, tm) => Some (ret, dir, eidx, ep, [oi0; oi1; oi2], [o0; o1; o2], step, td, tm)
      end
  | _ => None
  end.

Lemma castOE_deleg_3 fuel p0 p1 p2 e0 e1 e2 tab0 tab1 tab2 r g0 g1 g2 :
  src_castOE_3 N I fuel p0 p1 p2 e0 e1 e2 tab0 tab1 tab2 r g0 g1 g2 = castOE_via_3 fuel p0 p1 p2 e0 e1 e2 tab0 tab1 tab2 r g0 g1 g2.
Proof.
  unfold castOE_via_3, src_castOE_3, src_setOrigin_3, src_castE_3. cbv zeta. cbv beta iota.
  match goal with |- match ?X with _ => _ end = _ => destruct X as [[[[[[[[? ?] ?] ?] ?] ?] ?] ?]|]; reflexivity end.
Qed.
End Deleg.

(* ---------------------------------------------------------------- cast(end): the model's operation OpCastEnd *)
Definition castE_result (c' : caster (T:=T))
  (out : option ((Z * (Z -> list Z)) * list T * list Z * list T * list Z * list T * list T)) : Prop :=
  match out with
  | None => False
  | Some (ret, dir, eidx, ep, step, td, tm) =>
      cast_result c' (Some (ret, tm)) /\ eidx = rc_eidx c' /\ step = rc_step c' /\ td = rc_tdelta c'
  end.

Lemma tie_castE_2 (L : LitOK N) (c : caster (T:=T)) a0 a1 r o0 o1 oi0 oi1 e0 e1 (tab0 tab1 : Z -> T) fuel :
  rc_axes c = [a0; a1] -> rc_origin c = [o0; o1] -> rc_oidx c = [oi0; oi1] -> ax_r a0 = r -> ax_r a1 = r ->
  tab0 oi0 = gm_centre N r (ax_org a0) oi0 -> tab1 oi1 = gm_centre N r (ax_org a1) oi1 ->
  (Z.to_nat (ncells (set_end N c [e0; e1])) <= fuel)%nat ->
  castE_result (set_end N c [e0; e1]) (src_castE_2 N IdealInt fuel e0 e1 tab0 tab1 r (ax_org a0) (ax_org a1) oi0 oi1 o0 o1).
Proof.
  intros Ha Ho Hi R0 R1 T0 T1 Hf.
  pose proof (tie_setEnd_2 N L c a0 a1 r o0 o1 oi0 oi1 e0 e1 tab0 tab1 Ha Ho Hi R0 R1 T0 T1) as HSE.
  set (c' := set_end N c [e0; e1]) in *.
  assert (Sh : exists x0 x1 y0 y1 z0 z1 w0 w1, rc_eidx c' = [x0; x1] /\ rc_step c' = [y0; y1] /\
                 rc_tdelta c' = [z0; z1] /\ rc_tmax c' = [w0; w1]).
  { unfold c', set_end. rewrite Ha, Ho, Hi. cbn [rc_eidx rc_step rc_tdelta rc_tmax indexes combine map].
    do 8 eexists. repeat split; reflexivity. }
  destruct Sh as (x0 & x1 & y0 & y1 & z0 & z1 & w0 & w1 & S1 & S2 & S3 & S4).
  assert (Hoi : rc_oidx c' = [oi0; oi1]) by (unfold c', set_end; cbn [rc_oidx]; exact Hi).
  rewrite castE_deleg_2. unfold castE_via_2, setEnd_outputs in *.
  destruct (src_setEnd_2 N e0 e1 tab0 tab1 r (ax_org a0) (ax_org a1) oi0 oi1 o0 o1) as [[[[[dir eidx] ep] step] td] tm].
  destruct HSE as (E1 & E2 & E3 & E4 & E5). subst eidx ep step td tm. rewrite S1, S2, S3, S4.
  pose proof (tie_cast_2 c' x0 x1 oi0 oi1 y0 y1 z0 z1 w0 w1 fuel S1 Hoi S2 S3 S4 Hf) as HC.
  unfold castE_result. destruct (src_cast_2 N IdealInt fuel x0 x1 oi0 oi1 y0 y1 z0 z1 w0 w1) as [[ret tm]|]; [|exact HC].
  repeat split; try (symmetry; assumption); exact HC || apply HC.
Qed.

Lemma tie_castE_3 (L : LitOK N) (c : caster (T:=T)) a0 a1 a2 r o0 o1 o2 oi0 oi1 oi2 e0 e1 e2 (tab0 tab1 tab2 : Z -> T) fuel :
  rc_axes c = [a0; a1; a2] -> rc_origin c = [o0; o1; o2] -> rc_oidx c = [oi0; oi1; oi2] ->
  ax_r a0 = r -> ax_r a1 = r -> ax_r a2 = r ->
  tab0 oi0 = gm_centre N r (ax_org a0) oi0 -> tab1 oi1 = gm_centre N r (ax_org a1) oi1 ->
  tab2 oi2 = gm_centre N r (ax_org a2) oi2 ->
  (Z.to_nat (ncells (set_end N c [e0; e1; e2])) <= fuel)%nat ->
  castE_result (set_end N c [e0; e1; e2])
    (src_castE_3 N IdealInt fuel e0 e1 e2 tab0 tab1 tab2 r (ax_org a0) (ax_org a1) (ax_org a2) oi0 oi1 oi2 o0 o1 o2).
Proof.
  intros Ha Ho Hi R0 R1 R2 T0 T1 T2 Hf.
  pose proof (tie_setEnd_3 N L c a0 a1 a2 r o0 o1 o2 oi0 oi1 oi2 e0 e1 e2 tab0 tab1 tab2 Ha Ho Hi R0 R1 R2 T0 T1 T2) as HSE.
  set (c' := set_end N c [e0; e1; e2]) in *.
  assert (Sh : exists x0 x1 x2 y0 y1 y2 z0 z1 z2 w0 w1 w2, rc_eidx c' = [x0; x1; x2] /\ rc_step c' = [y0; y1; y2] /\
                 rc_tdelta c' = [z0; z1; z2] /\ rc_tmax c' = [w0; w1; w2]).
  { unfold c', set_end. rewrite Ha, Ho, Hi. cbn [rc_eidx rc_step rc_tdelta rc_tmax indexes combine map].
    do 12 eexists. repeat split; reflexivity. }
  destruct Sh as (x0 & x1 & x2 & y0 & y1 & y2 & z0 & z1 & z2 & w0 & w1 & w2 & S1 & S2 & S3 & S4).
  assert (Hoi : rc_oidx c' = [oi0; oi1; oi2]) by (unfold c', set_end; cbn [rc_oidx]; exact Hi).
  rewrite castE_deleg_3. unfold castE_via_3, setEnd_outputs in *.
  destruct (src_setEnd_3 N e0 e1 e2 tab0 tab1 tab2 r (ax_org a0) (ax_org a1) (ax_org a2) oi0 oi1 oi2 o0 o1 o2)
    as [[[[[dir eidx] ep] step] td] tm].
  destruct HSE as (E1 & E2 & E3 & E4 & E5). subst eidx ep step td tm. rewrite S1, S2, S3, S4.
  pose proof (tie_cast_3 c' x0 x1 x2 oi0 oi1 oi2 y0 y1 y2 z0 z1 z2 w0 w1 w2 fuel S1 Hoi S2 S3 S4 Hf) as HC.
  unfold castE_result. destruct (src_cast_3 N IdealInt fuel x0 x1 x2 oi0 oi1 oi2 y0 y1 y2 z0 z1 z2 w0 w1 w2) as [[ret tm]|]; [|exact HC].
  repeat split; try (symmetry; assumption); exact HC || apply HC.
Qed.


(* ---------------------------------------------------------------- cast(origin, end): the model's operation OpCastOE *)
Definition castOE_result (c' : caster (T:=T))
  (out : option ((Z * (Z -> list Z)) * list T * list Z * list T * list Z * list T * list Z * list T * list T)) : Prop :=
  match out with
  | None => False
  | Some (ret, dir, eidx, ep, oidx, op, step, td, tm) =>
      cast_result c' (Some (ret, tm)) /\ oidx = rc_oidx c' /\ op = rc_origin c' /\ eidx = rc_eidx c' /\
      step = rc_step c' /\ td = rc_tdelta c'
  end.

Lemma tie_castOE_2 (L : LitOK N) (c : caster (T:=T)) a0 a1 r p0 p1 e0 e1 (tab0 tab1 : Z -> T) fuel :
  rc_axes c = [a0; a1] -> ax_r a0 = r -> ax_r a1 = r ->
  (forall k, tab0 k = gm_centre N r (ax_org a0) k) -> (forall k, tab1 k = gm_centre N r (ax_org a1) k) ->
  (Z.to_nat (ncells (set_end N (set_origin N c [p0; p1]) [e0; e1])) <= fuel)%nat ->
  castOE_result (set_end N (set_origin N c [p0; p1]) [e0; e1])
    (src_castOE_2 N IdealInt fuel p0 p1 e0 e1 tab0 tab1 r (ax_org a0) (ax_org a1)).
Proof.
  intros Ha R0 R1 T0 T1 Hf.
  pose proof (tie_setOrigin_2 N c a0 a1 r p0 p1 Ha R0 R1) as HSO.
  set (c1 := set_origin N c [p0; p1]) in *.
  assert (Ha1 : rc_axes c1 = [a0; a1]) by (unfold c1, set_origin; cbn [rc_axes]; exact Ha).
  assert (Ho1 : rc_origin c1 = [p0; p1]) by reflexivity.
  assert (Sh : exists i0 i1, rc_oidx c1 = [i0; i1]).
  { unfold c1, set_origin. rewrite Ha. cbn [rc_oidx indexes combine map]. do 2 eexists. reflexivity. }
  destruct Sh as (i0 & i1 & Hi1).
  rewrite castOE_deleg_2. unfold castOE_via_2. rewrite HSO, Hi1, Ho1.
  pose proof (tie_castE_2 L c1 a0 a1 r p0 p1 i0 i1 e0 e1 tab0 tab1 fuel Ha1 Ho1 Hi1 R0 R1 (T0 i0) (T1 i1) Hf) as HE.
  unfold castE_result in HE. unfold castOE_result.
  destruct (src_castE_2 N IdealInt fuel e0 e1 tab0 tab1 r (ax_org a0) (ax_org a1) i0 i1 p0 p1)
    as [[[[[[[ret dir] eidx] ep] step] td] tm]|]; [|exact HE].
  destruct HE as (H1 & H2 & H3 & H4).
  assert (Hoi : rc_oidx (set_end N c1 [e0; e1]) = [i0; i1]) by (unfold set_end; cbn [rc_oidx]; exact Hi1).
  assert (Hop : rc_origin (set_end N c1 [e0; e1]) = [p0; p1]) by (unfold set_end; cbn [rc_origin]; exact Ho1).
  repeat split; try assumption; try (symmetry; assumption); apply H1.
Qed.

Lemma tie_castOE_3 (L : LitOK N) (c : caster (T:=T)) a0 a1 a2 r p0 p1 p2 e0 e1 e2 (tab0 tab1 tab2 : Z -> T) fuel :
  rc_axes c = [a0; a1; a2] -> ax_r a0 = r -> ax_r a1 = r -> ax_r a2 = r ->
  (forall k, tab0 k = gm_centre N r (ax_org a0) k) -> (forall k, tab1 k = gm_centre N r (ax_org a1) k) ->
  (forall k, tab2 k = gm_centre N r (ax_org a2) k) ->
  (Z.to_nat (ncells (set_end N (set_origin N c [p0; p1; p2]) [e0; e1; e2])) <= fuel)%nat ->
  castOE_result (set_end N (set_origin N c [p0; p1; p2]) [e0; e1; e2])
    (src_castOE_3 N IdealInt fuel p0 p1 p2 e0 e1 e2 tab0 tab1 tab2 r (ax_org a0) (ax_org a1) (ax_org a2)).
Proof.
  intros Ha R0 R1 R2 T0 T1 T2 Hf.
  pose proof (tie_setOrigin_3 N c a0 a1 a2 r p0 p1 p2 Ha R0 R1 R2) as HSO.
  set (c1 := set_origin N c [p0; p1; p2]) in *.
  assert (Ha1 : rc_axes c1 = [a0; a1; a2]) by (unfold c1, set_origin; cbn [rc_axes]; exact Ha).
  assert (Ho1 : rc_origin c1 = [p0; p1; p2]) by reflexivity.
  assert (Sh : exists i0 i1 i2, rc_oidx c1 = [i0; i1; i2]).
  { unfold c1, set_origin. rewrite Ha. cbn [rc_oidx indexes combine map]. do 3 eexists. reflexivity. }
  destruct Sh as (i0 & i1 & i2 & Hi1).
  rewrite castOE_deleg_3. unfold castOE_via_3. rewrite HSO, Hi1, Ho1.
  pose proof (tie_castE_3 L c1 a0 a1 a2 r p0 p1 p2 i0 i1 i2 e0 e1 e2 tab0 tab1 tab2 fuel Ha1 Ho1 Hi1 R0 R1 R2 (T0 i0) (T1 i1) (T2 i2) Hf) as HE.
  unfold castE_result in HE. unfold castOE_result.
  destruct (src_castE_3 N IdealInt fuel e0 e1 e2 tab0 tab1 tab2 r (ax_org a0) (ax_org a1) (ax_org a2) i0 i1 i2 p0 p1 p2)
    as [[[[[[[ret dir] eidx] ep] step] td] tm]|]; [|exact HE].
  destruct HE as (H1 & H2 & H3 & H4).
  assert (Hoi : rc_oidx (set_end N c1 [e0; e1; e2]) = [i0; i1; i2]) by (unfold set_end; cbn [rc_oidx]; exact Hi1).
  assert (Hop : rc_origin (set_end N c1 [e0; e1; e2]) = [p0; p1; p2]) by (unfold set_end; cbn [rc_origin]; exact Ho1).
  repeat split; try assumption; try (symmetry; assumption); apply H1.
Qed.

End Tie.
