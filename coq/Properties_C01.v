(* Properties_C01.v — C01: ECEF <-> geodetic conversion is an accurate bijection near the Earth.
   Statements about the real-number instance of coq/GeodesyModel.v, each closed by [exact <lemma>].
   Hypotheses on the ellipsoid: 0 < a, 0 <= e2 < 1 (every EarthEllipsoid(a,b) with 0 < b <= a meets them:
   C01_ellipsoid_parameters).  Latitudes strictly inside (-PI/2, PI/2), longitudes in (-PI, PI]. *)
From Coq Require Import Reals ZArith List Bool Lra.
From Romea Require Import Num NumR GeodesyModel GeodesyProofs.
From Romea.gen Require Import RepoConstants.
Local Open Scope R_scope.

(* EarthEllipsoid(a,b): b^2 = a^2 (1 - e2), 0 <= e2 < 1, e = sqrt e2 *)
Theorem C01_ellipsoid_parameters : forall a b, 0 < b <= a ->
  let el := make_ellipsoid ROps a b in
  el_a el = a /\ a * a * (1 - el_e2 el) = b * b /\ 0 <= el_e2 el < 1 /\ el_e el = sqrt (el_e2 el).
Proof.
  intros a b H el. destruct (make_ellipsoid_b2 a b) as [A B]; [lra|].
  exact (conj A (conj B (conj (make_ellipsoid_e2_range a b H) (make_ellipsoid_e a b)))).
Qed.
Print Assumptions C01_ellipsoid_parameters.

(* toECEF = foot point + h * unit normal, the foot point is on the ellipsoid, and the normal is the
   direction of the outward gradient of the ellipsoid's quadratic form at the foot point *)
Theorem C01_toECEF_on_normal : forall (el : ellipsoid (T:=R)) lat lon h,
  0 < el_a el -> 0 <= el_e2 el < 1 ->
  let a := el_a el in let e2 := el_e2 el in
  let F := foot el lat lon in let n := normal lat lon in
  toECEF ROps el (mkGeo lat lon h) = mkV3 (vx F + h * vx n) (vy F + h * vy n) (vz F + h * vz n) /\
  (vx F * vx F + vy F * vy F) / (a * a) + vz F * vz F / (a * a * (1 - e2)) = 1 /\
  vx n * vx n + vy n * vy n + vz n * vz n = 1 /\
  n = mkV3 (cos lat * cos lon) (cos lat * sin lon) (sin lat) /\
  exists k, 0 < k /\ 2 * vx F / (a * a) = k * vx n /\ 2 * vy F / (a * a) = k * vy n /\
            2 * vz F / (a * a * (1 - e2)) = k * vz n.
Proof.
  intros el lat lon h Ha He2 a e2 F n.
  split; [exact (toECEF_foot_plus_normal el lat lon h)|].
  split; [exact (foot_on_ellipsoid el Ha He2 lat lon)|].
  split; [exact (normal_unit lat lon)|].
  split; [reflexivity|].
  exists (2 * primeVertical ROps el lat / (a * a)). exact (foot_gradient_parallel el Ha He2 lat lon).
Qed.
Print Assumptions C01_toECEF_on_normal.

(* longitude is recovered exactly on (-PI, PI] (atan2) *)
Theorem C01_longitude_recovered : forall (el : ellipsoid (T:=R)) lat lon h,
  0 < el_a el -> 0 <= el_e2 el < 1 ->
  - PI / 2 < lat < PI / 2 -> - PI < lon <= PI -> - el_a el < h ->
  let p := toECEF ROps el (mkGeo lat lon h) in longitude_of ROps (vx p) (vy p) = lon.
Proof. intros el lat lon h Ha He2. exact (longitude_recovered el Ha He2 lat lon h). Qed.
Print Assumptions C01_longitude_recovered.

(* the true latitude is a fixed point of the loop body of toWGS84 *)
Theorem C01_latitude_fixed_point : forall (el : ellipsoid (T:=R)) lat lon h,
  0 < el_a el -> 0 <= el_e2 el < 1 ->
  - PI / 2 < lat < PI / 2 -> - el_a el * (1 - el_e2 el) < h ->
  let p := toECEF ROps el (mkGeo lat lon h) in
  lat_body ROps el (vz p) (hnorm ROps (vx p) (vy p)) lat = lat.
Proof.
  intros el lat lon h Ha He2 Hl Hh p.
  assert (Hh' : - el_a el < h) by nra.
  unfold p. rewrite (hnorm_toECEF el Ha He2 lat lon h Hl Hh').
  exact (lat_body_fixed_point el Ha He2 lat h Hl Hh).
Qed.
Print Assumptions C01_latitude_fixed_point.

(* geodetic -> ECEF -> geodetic, whenever the loop returns: longitude exact, latitude in range, and the
   height is exact as soon as the latitude is.   _partial: on this wide domain (any 0 <= e2 < 1, any height above
   -a(1-e2)) neither the return of the loop nor the 1e-9 rad / 1 mm accuracy is proved; both ARE proved on the
   near-Earth domain by C01_roundtrip_geodetic_accuracy / C01_latitude_loop_terminates / C01_roundtrip_geodetic below. *)
Theorem C01_roundtrip_geodetic_partial : forall (el : ellipsoid (T:=R)) fuel lat lon h g,
  0 < el_a el -> 0 <= el_e2 el < 1 ->
  - PI / 2 < lat < PI / 2 -> - PI < lon <= PI -> - el_a el * (1 - el_e2 el) < h ->
  toWGS84 ROps fuel el (toECEF ROps el (mkGeo lat lon h)) = Some g ->
  g_lon g = lon /\ - PI / 2 < g_lat g < PI / 2 /\ (g_lat g = lat -> g_alt g = h).
Proof. intros el fuel lat lon h g Ha He2. exact (toWGS84_of_toECEF el Ha He2 fuel lat lon h g). Qed.
Print Assumptions C01_roundtrip_geodetic_partial.

(* the exact solution is reproduced: the loop of toWGS84 started at the true latitude makes one pass and
   returns it, and longitude and height computed from it are the original ones *)
Theorem C01_roundtrip_at_fixed_point : forall (el : ellipsoid (T:=R)) fuel lat lon h,
  0 < el_a el -> 0 <= el_e2 el < 1 ->
  - PI / 2 < lat < PI / 2 -> - PI < lon <= PI -> - el_a el * (1 - el_e2 el) < h ->
  let p := toECEF ROps el (mkGeo lat lon h) in
  let norm := hnorm ROps (vx p) (vy p) in
  lat_loop ROps (S fuel) el (vz p) norm lat (nofDec ROps ecef_initial_delta_m ecef_initial_delta_e) = Some lat /\
  longitude_of ROps (vx p) (vy p) = lon /\
  altitude_of ROps el norm lat = h.
Proof. intros el fuel lat lon h Ha He2. exact (roundtrip_at_fixed_point el Ha He2 fuel lat lon h). Qed.
Print Assumptions C01_roundtrip_at_fixed_point.

(* exit of the loop: the last pass moved the latitude by at most EPSILON <= 1e-11 (constant read from the source) *)
Theorem C01_loop_exit : forall (el : ellipsoid (T:=R)) fuel Z norm lat delta r,
  lat_loop ROps fuel el Z norm lat delta = Some r ->
  (r = lat /\ delta <= ecef_eps ROps) \/
  (exists prev, r = lat_body ROps el Z norm prev /\ Rabs (r - prev) <= ecef_eps ROps).
Proof. exact lat_loop_exit. Qed.
Print Assumptions C01_loop_exit.

Theorem C01_epsilon_from_source : 0 < ecef_eps ROps <= / 100000000000.
Proof. exact ecef_eps_bounds. Qed.
Print Assumptions C01_epsilon_from_source.

(* conditional accuracy of the exit: q-Lipschitz body between the last iterate and the fixed point
   ==> error <= q*eps/(1-q).   _partial: abstract lemma in which q is a premise; the premise is discharged with
   q = 1.04 e2 on the near-Earth domain by C01_latitude_contraction, and the combination is
   C01_roundtrip_latitude_accuracy below. *)
Theorem C01_latitude_exit_error_partial : forall (g : R -> R) q eps x fx,
  0 <= q < 1 -> g fx = fx -> Rabs (g x - g fx) <= q * Rabs (x - fx) -> Rabs (g x - x) <= eps ->
  Rabs (g x - fx) <= q * eps / (1 - q).
Proof. exact contraction_exit_error. Qed.
Print Assumptions C01_latitude_exit_error_partial.

(* every result is in range: latitude in (-PI/2,PI/2), longitude in [-PI,PI]; the asserts of
   makeGeodeticCoordinates hold *)
Theorem C01_result_ranges : forall fuel (el : ellipsoid (T:=R)) p g,
  toWGS84 ROps fuel el p = Some g ->
  - PI / 2 < g_lat g < PI / 2 /\ - PI <= g_lon g <= PI /\ geodetic_in_range ROps g = true.
Proof. exact toWGS84_ranges. Qed.
Print Assumptions C01_result_ranges.

(* ---- the code before the repair (longitude = 2*atan(Y/(X+norm))) ---- *)
(* the formula is undefined (0/0) exactly on the antimeridian ray ... *)
Theorem C01_half_angle_undefined_iff : forall X Y,
  longitude_half_angle ROps X Y = None <-> (Y = 0 /\ X <= 0).
Proof. exact longitude_half_angle_none_iff. Qed.
Print Assumptions C01_half_angle_undefined_iff.

(* ... and agrees with the longitude elsewhere *)
Theorem C01_half_angle_value : forall r lon, 0 < r -> - PI < lon < PI ->
  longitude_half_angle ROps (r * cos lon) (r * sin lon) = Some lon.
Proof. exact longitude_half_angle_value. Qed.
Print Assumptions C01_half_angle_value.

(* "every result is finite" is false of the unrepaired code: witness replayed on the implementation
   (checks/C01.py, first case of the group "cartesian") *)
Theorem C01_half_angle_total_refuted : exists p : vec3 (T:=R),
  forall fuel el, toWGS84_half_angle ROps fuel el p = None.
Proof. exists (mkV3 (-5000000) 0 3000000). intros fuel el. exact (half_angle_refuted fuel el). Qed.
Print Assumptions C01_half_angle_total_refuted.

(* ---- non-vacuity: GRS80 at (45 deg, 3 deg, 365 m) meets every hypothesis ---- *)
Example C01_hypotheses_satisfiable :
  let el := grs80 ROps in
  0 < el_a el /\ 0 <= el_e2 el < 1 /\
  - PI / 2 < PI / 4 < PI / 2 /\ - PI < PI / 60 <= PI /\ - el_a el * (1 - el_e2 el) < 365.
Proof.
  assert (R : 0 < 6356752314 * / 1000 <= 6378137) by lra.
  pose proof (make_ellipsoid_e2_range 6378137 (6356752314 * / 1000) R) as E.
  assert (G : grs80 ROps = make_ellipsoid ROps 6378137 (6356752314 * / 1000)).
  { unfold grs80, grs80_a_m, grs80_a_e, grs80_b_m, grs80_b_e. f_equal; eval_dec; lra. }
  cbv zeta. rewrite G. pose proof PI_RGT_0.
  split; [cbn; lra|]. split; [exact E|]. split; [lra|]. split; [lra|].
  change (el_a (make_ellipsoid ROps 6378137 (6356752314 * / 1000))) with 6378137. nra.
Qed.

(* ================================================================== convergence of the latitude iteration
   Loop body (ECEFConverter.cpp:70-75), Z and norm fixed:  g(lat) = atan((Z/norm)/D(lat)),
   D(lat) = 1 - a e2 cos(lat)/(norm W(lat)),  W(lat) = sqrt(1 - e2 sin^2 lat).
   Near-Earth domain of the theorems below: 0 < a, 0 <= e2 <= 1/100 (GRS80: 0.0067), -PI/2 < lat < PI/2, h >= -a/100
   (a superset of the property's domain: flattening <= 1/290 gives e2 < 0.0069, h >= -11 km > -a/100). *)
From Coquelicot Require Import Coquelicot.
From Romea Require Import GeodesyContraction GeodesyRoundtrip.

(* 1. derivative of the body wherever its denominator does not vanish (at D = 0 the C++ evaluates atan(+-inf) and the
   map jumps between +-PI/2: it is not even continuous there) *)
Theorem C01_latitude_body_derivative : forall (el : ellipsoid (T:=R)) Z norm lat,
  0 <= el_e2 el < 1 -> 0 < norm ->
  let a := el_a el in let e2 := el_e2 el in
  let W := sqrt (1 - e2 * sin lat * sin lat) in
  let D := 1 - a * e2 * cos lat / (norm * W) in
  D <> 0 ->
  is_derive (lat_body ROps el Z norm) lat
    (- (Z * (e2 * a * (1 - e2)) * sin lat) / (W * W * W * ((norm * D) * (norm * D) + Z * Z))).
Proof. intros el Z norm lat He2 Hn. exact (lat_body_is_derive el He2 Z norm Hn lat). Qed.
Print Assumptions C01_latitude_body_derivative.

(* its absolute value is at most e2 a / (sqrt(1-e2) (|p| - e2 a)) at EVERY latitude, for every Cartesian point
   p = (norm, Z) farther than e2 a (43 km) from the centre *)
Theorem C01_latitude_body_derivative_bound : forall (el : ellipsoid (T:=R)) Z norm lat,
  0 < el_a el -> 0 <= el_e2 el < 1 -> 0 < norm -> el_e2 el * el_a el < sqrt (norm * norm + Z * Z) ->
  Rabs (lat_body_deriv el Z norm lat)
  <= el_e2 el * el_a el / (sqrt (1 - el_e2 el) * (sqrt (norm * norm + Z * Z) - el_e2 el * el_a el)).
Proof. intros el Z norm lat. exact (latitude_body_derivative_bound el Z norm lat). Qed.
Print Assumptions C01_latitude_body_derivative_bound.

(* the interval the iterates live in: between the geocentric latitude atan(Z/norm) and the pole on the side of Z *)
Theorem C01_invariant_interval : forall Z norm x,
  lat_J Z norm x <->
  (- PI / 2 < x < PI / 2 /\ (0 <= Z -> atan (Z / norm) <= x) /\ (Z <= 0 -> x <= atan (Z / norm))).
Proof. intros Z norm x. exact (iff_refl _). Qed.
Print Assumptions C01_invariant_interval.

(* 2. contraction with q = 1.04 e2 <= 0.0104: for p = toECEF(lat0, lon0, h) in the domain the interval contains the true
   latitude (a fixed point) and the first guess of toWGS84, is mapped into itself by the body, the denominator D stays
   in (0,1] on it, and the body is q-Lipschitz on it (mean value theorem).  No neighbourhood of the poles is excluded. *)
Theorem C01_latitude_contraction : forall (el : ellipsoid (T:=R)) lat0 lon0 h,
  0 < el_a el -> 0 <= el_e2 el <= / 100 -> - PI / 2 < lat0 < PI / 2 -> - el_a el / 100 <= h ->
  let p := toECEF ROps el (mkGeo lat0 lon0 h) in
  let Z := vz p in let norm := hnorm ROps (vx p) (vy p) in
  let g := lat_body ROps el Z norm in
  let q := 26 / 25 * el_e2 el in
  q <= 13 / 1250 /\
  lat_J Z norm lat0 /\ g lat0 = lat0 /\
  lat_J Z norm (lat_first_guess ROps el (vx p) (vy p) Z) /\
  (forall x, lat_J Z norm x -> lat_J Z norm (g x)) /\
  (forall x, lat_J Z norm x -> 0 < lat_den el norm x <= 1) /\
  (forall x y, lat_J Z norm x -> lat_J Z norm y -> Rabs (g y - g x) <= q * Rabs (y - x)).
Proof. intros el lat0 lon0 h. exact (latitude_contraction el lat0 lon0 h). Qed.
Print Assumptions C01_latitude_contraction.

(* away from the poles (cos lat0 >= 1/97, i.e. |lat0| <= 89.4 deg: the point is farther than a e2 from the axis) the
   denominator is positive at every latitude and the bound holds for ALL pairs of reals.  Closer to the axis this is
   false: D changes sign at some latitude between the equator and atan(Z/norm), where the body jumps. *)
Theorem C01_latitude_contraction_global : forall (el : ellipsoid (T:=R)) lat0 lon0 h,
  0 < el_a el -> 0 <= el_e2 el <= / 100 -> - PI / 2 < lat0 < PI / 2 -> / 97 <= cos lat0 -> - el_a el / 100 <= h ->
  let p := toECEF ROps el (mkGeo lat0 lon0 h) in
  let Z := vz p in let norm := hnorm ROps (vx p) (vy p) in
  let g := lat_body ROps el Z norm in
  el_a el * el_e2 el < norm /\
  (forall x, 0 < lat_den el norm x) /\
  forall x y, Rabs (g y - g x) <= 26 / 25 * el_e2 el * Rabs (y - x).
Proof. intros el lat0 lon0 h. exact (latitude_contraction_global el lat0 lon0 h). Qed.
Print Assumptions C01_latitude_contraction_global.

(* 3a. unconditional exit accuracy of the latitude: whenever toWGS84 returns, q eps/(1-q) <= 1.1e-13 rad *)
Theorem C01_roundtrip_latitude_accuracy : forall (el : ellipsoid (T:=R)) fuel lat lon h g,
  0 < el_a el -> 0 <= el_e2 el <= / 100 -> - PI / 2 < lat < PI / 2 -> - el_a el / 100 <= h ->
  toWGS84 ROps fuel el (toECEF ROps el (mkGeo lat lon h)) = Some g ->
  let q := 26 / 25 * el_e2 el in
  Rabs (g_lat g - lat) <= q * ecef_eps ROps / (1 - q) /\
  q * ecef_eps ROps / (1 - q) <= 11 / 100 * / 1000000000000.
Proof. intros el fuel lat lon h g. exact (roundtrip_latitude_accuracy el fuel lat lon h g). Qed.
Print Assumptions C01_roundtrip_latitude_accuracy.

(* 3b. geodetic -> ECEF -> geodetic within 1e-9 rad and 1 mm, longitude exact.  The height norm/cos(lat) - N(lat) has
   sensitivity (N+h) tan(lat) to the latitude error, hence the bounds a <= 7e6 m, h <= 100 km and cos lat >= 1/600
   (|lat| <= 89.904 deg; the property asks 89.9 deg).  At the poles themselves (norm = 0) the C++ divides by zero. *)
Theorem C01_roundtrip_geodetic_accuracy : forall (el : ellipsoid (T:=R)) fuel lat lon h g,
  0 < el_a el <= 7000000 -> 0 <= el_e2 el <= / 100 ->
  - PI / 2 < lat < PI / 2 -> / 600 <= cos lat -> - PI < lon <= PI -> - el_a el / 100 <= h <= 100000 ->
  toWGS84 ROps fuel el (toECEF ROps el (mkGeo lat lon h)) = Some g ->
  g_lon g = lon /\ Rabs (g_lat g - lat) <= / 1000000000 /\ Rabs (g_alt g - h) <= / 1000.
Proof. intros el fuel lat lon h g. exact (roundtrip_geodetic_accuracy el fuel lat lon h g). Qed.
Print Assumptions C01_roundtrip_geodetic_accuracy.

(* 4. termination: the C++ loop `while (delta > EPSILON)` has no iteration cap; the model's fuel counts passes and
   None means "more than fuel passes".  Over the reals the step shrinks by q at every pass from at most PI, and
   PI * 0.0104^6 <= 1e-11 = EPSILON: at most 7 passes on the whole domain. *)
Theorem C01_latitude_loop_terminates : forall (el : ellipsoid (T:=R)) fuel lat lon h,
  0 < el_a el -> 0 <= el_e2 el <= / 100 -> - PI / 2 < lat < PI / 2 -> - el_a el / 100 <= h ->
  (7 <= fuel)%nat ->
  exists g, toWGS84 ROps fuel el (toECEF ROps el (mkGeo lat lon h)) = Some g.
Proof. intros el fuel lat lon h. exact (roundtrip_terminates el fuel lat lon h). Qed.
Print Assumptions C01_latitude_loop_terminates.

(* 3 + 4: the round trip geodetic -> ECEF -> geodetic of the property statement, over the reals *)
Theorem C01_roundtrip_geodetic : forall (el : ellipsoid (T:=R)) fuel lat lon h,
  0 < el_a el <= 7000000 -> 0 <= el_e2 el <= / 100 ->
  - PI / 2 < lat < PI / 2 -> / 600 <= cos lat -> - PI < lon <= PI -> - el_a el / 100 <= h <= 100000 ->
  (7 <= fuel)%nat ->
  exists g, toWGS84 ROps fuel el (toECEF ROps el (mkGeo lat lon h)) = Some g /\
    g_lon g = lon /\ Rabs (g_lat g - lat) <= / 1000000000 /\ Rabs (g_alt g - h) <= / 1000.
Proof. intros el fuel lat lon h. exact (roundtrip_geodetic_total el fuel lat lon h). Qed.
Print Assumptions C01_roundtrip_geodetic.

(* non-vacuity of the near-Earth domain: GRS80 at latitude 89.9 deg, height -11 km *)
Example C01_near_earth_domain_satisfiable :
  let el := grs80 ROps in
  0 < el_a el <= 7000000 /\ 0 <= el_e2 el <= / 100 /\
  - PI / 2 < 899 / 1800 * PI < PI / 2 /\ / 600 <= cos (899 / 1800 * PI) /\
  - el_a el / 100 <= -11000 <= 100000.
Proof. exact grs80_in_domain. Qed.

(* 5. the reverse composition Cartesian -> geodetic -> Cartesian of the property statement, over the reals, for an
   ARBITRARY point (no geodetic pre-image assumed) with |p| >= 0.98 a inside the cone |Z| <= 600 norm (geocentric
   latitude <= 89.904 deg): toWGS84 returns within 7 passes and toECEF of the result reproduces X and Y exactly
   (the height formula norm/cos(lat) - N makes the horizontal part exact for ANY latitude) and Z within 1 mm
   (Z' - Z = Z (D(lat) - D(prev))/D(prev) with |lat - prev| <= EPSILON at the exit and D >= 0.98 on the interval). *)
From Romea Require Import GeodesyCartesian.

Theorem C01_roundtrip_cartesian : forall (el : ellipsoid (T:=R)) fuel X Y Z,
  0 < el_a el <= 7000000 -> 0 <= el_e2 el <= / 100 ->
  let norm := hnorm ROps X Y in
  0 < norm -> 98 / 100 * el_a el <= sqrt (norm * norm + Z * Z) -> Rabs Z <= 600 * norm ->
  (7 <= fuel)%nat ->
  exists g, toWGS84 ROps fuel el (mkV3 X Y Z) = Some g /\
    let p' := toECEF ROps el g in vx p' = X /\ vy p' = Y /\ Rabs (vz p' - Z) <= / 1000.
Proof. intros el fuel X Y Z. exact (roundtrip_cartesian el fuel X Y Z). Qed.
Print Assumptions C01_roundtrip_cartesian.

(* every Cartesian point produced from the geodetic domain (|lat| <= 89.904 deg, h >= -a/100) meets the hypotheses of
   C01_roundtrip_cartesian *)
Theorem C01_cartesian_domain_covers_geodetic : forall (el : ellipsoid (T:=R)) lat lon h,
  0 < el_a el -> 0 <= el_e2 el <= / 100 -> - PI / 2 < lat < PI / 2 -> / 600 <= cos lat -> - el_a el / 100 <= h ->
  let p := toECEF ROps el (mkGeo lat lon h) in let norm := hnorm ROps (vx p) (vy p) in
  0 < norm /\ 98 / 100 * el_a el <= sqrt (norm * norm + vz p * vz p) /\ Rabs (vz p) <= 600 * norm.
Proof. intros el lat lon h. exact (toECEF_in_cartesian_domain el lat lon h). Qed.
Print Assumptions C01_cartesian_domain_covers_geodetic.

Example C01_cartesian_domain_satisfiable :
  let el := grs80 ROps in let norm := hnorm ROps 6000000 0 in
  0 < norm /\ 98 / 100 * el_a el <= sqrt (norm * norm + 2000000 * 2000000) /\ Rabs 2000000 <= 600 * norm.
Proof. exact cartesian_domain_example. Qed.

(* ---- syntactic tie of the forward map to the current source (gen/SrcFunsC01.v is regenerated from the clang AST of
   src/geodesy/ECEFConverter.cpp on every run) ---- *)
From Romea Require Import SrcTie SrcTieC01.
From Romea.gen Require Import SrcFunsC01.

Theorem C01_source_tie_ellipsoid : forall (T : Type) (N : NumOps T) (A B : T),
  src_makeEllipsoid N A B = (let el := make_ellipsoid N A B in (el_a el, el_b el, el_e2 el, el_e el)).
Proof. exact tie_makeEllipsoid. Qed.
Print Assumptions C01_source_tie_ellipsoid.

Theorem C01_source_tie_toECEF : forall (el : ellipsoid (T:=R)) (g : geodetic (T:=R)),
  src_toECEF ROps (el_a el) (el_e2 el) (g_alt g) (g_lat g) (g_lon g)
  = (vx (toECEF ROps el g), vy (toECEF ROps el g), vz (toECEF ROps el g)).
Proof. exact tie_toECEF. Qed.
Print Assumptions C01_source_tie_toECEF.

(* the INVERSE map, loop included: ECEFConverter::toWGS84 regenerated from the clang AST (the while loop becomes a local
   fix on the fuel argument) is the model's toWGS84 for every fuel; None = the loop is still running after `fuel` passes *)
Theorem C01_source_tie_toWGS84 : forall fuel (el : ellipsoid (T:=R)) (p : vec3 (T:=R)),
  src_ecefToWGS84 ROps fuel (vx p) (vy p) (vz p) (el_a el) (el_e2 el)
  = match toWGS84 ROps fuel el p with None => None | Some g => Some (g_lat g, g_lon g, g_alt g) end.
Proof. exact tie_ecefToWGS84. Qed.
Print Assumptions C01_source_tie_toWGS84.
