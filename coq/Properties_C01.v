From Coq Require Import Reals.
From Romea Require Import Num NumR GeodesyModel.
Theorem C01_stub : True. Proof. exact I. Qed.
