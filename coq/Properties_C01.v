(* Properties_C01.v — C01: ECEF <-> geodetic conversion is an accurate bijection near the Earth.
   Statements about the real-number instance of coq/GeodesyModel.v, each closed by [exact <lemma>].
   Hypotheses on the ellipsoid: 0 < a, 0 <= e2 < 1 (every EarthEllipsoid(a,b) with 0 < b <= a meets them:
   C01_ellipsoid_parameters).  Latitudes strictly inside (-PI/2, PI/2), longitudes in (-PI, PI]. *)
From Coq Require Import Reals ZArith List Bool Lra.
From Romea Require Import Num NumR GeodesyModel GeodesyProofs.
From Romea.gen Require Import RepoConstants.
Local Open Scope R_scope.

(* EarthEllipsoid(a,b): b^2 = a^2 (1 - e2), 0 <= e2 < 1, e = sqrt e2 *)
Theorem C01_ellipsoid_parameters : forall a b, 0 < b <= a ->
  let el := make_ellipsoid ROps a b in
  el_a el = a /\ a * a * (1 - el_e2 el) = b * b /\ 0 <= el_e2 el < 1 /\ el_e el = sqrt (el_e2 el).
Proof.
  intros a b H el. destruct (make_ellipsoid_b2 a b) as [A B]; [lra|].
  exact (conj A (conj B (conj (make_ellipsoid_e2_range a b H) (make_ellipsoid_e a b)))).
Qed.
Print Assumptions C01_ellipsoid_parameters.

(* toECEF = foot point + h * unit normal, the foot point is on the ellipsoid, and the normal is the
   direction of the outward gradient of the ellipsoid's quadratic form at the foot point *)
Theorem C01_toECEF_on_normal : forall (el : ellipsoid (T:=R)) lat lon h,
  0 < el_a el -> 0 <= el_e2 el < 1 ->
  let a := el_a el in let e2 := el_e2 el in
  let F := foot el lat lon in let n := normal lat lon in
  toECEF ROps el (mkGeo lat lon h) = mkV3 (vx F + h * vx n) (vy F + h * vy n) (vz F + h * vz n) /\
  (vx F * vx F + vy F * vy F) / (a * a) + vz F * vz F / (a * a * (1 - e2)) = 1 /\
  vx n * vx n + vy n * vy n + vz n * vz n = 1 /\
  n = mkV3 (cos lat * cos lon) (cos lat * sin lon) (sin lat) /\
  exists k, 0 < k /\ 2 * vx F / (a * a) = k * vx n /\ 2 * vy F / (a * a) = k * vy n /\
            2 * vz F / (a * a * (1 - e2)) = k * vz n.
Proof.
  intros el lat lon h Ha He2 a e2 F n.
  split; [exact (toECEF_foot_plus_normal el lat lon h)|].
  split; [exact (foot_on_ellipsoid el Ha He2 lat lon)|].
  split; [exact (normal_unit lat lon)|].
  split; [reflexivity|].
  exists (2 * primeVertical ROps el lat / (a * a)). exact (foot_gradient_parallel el Ha He2 lat lon).
Qed.
Print Assumptions C01_toECEF_on_normal.

(* longitude is recovered exactly on (-PI, PI] (atan2) *)
Theorem C01_longitude_recovered : forall (el : ellipsoid (T:=R)) lat lon h,
  0 < el_a el -> 0 <= el_e2 el < 1 ->
  - PI / 2 < lat < PI / 2 -> - PI < lon <= PI -> - el_a el < h ->
  let p := toECEF ROps el (mkGeo lat lon h) in longitude_of ROps (vx p) (vy p) = lon.
Proof. intros el lat lon h Ha He2. exact (longitude_recovered el Ha He2 lat lon h). Qed.
Print Assumptions C01_longitude_recovered.

(* the true latitude is a fixed point of the loop body of toWGS84 *)
Theorem C01_latitude_fixed_point : forall (el : ellipsoid (T:=R)) lat lon h,
  0 < el_a el -> 0 <= el_e2 el < 1 ->
  - PI / 2 < lat < PI / 2 -> - el_a el * (1 - el_e2 el) < h ->
  let p := toECEF ROps el (mkGeo lat lon h) in
  lat_body ROps el (vz p) (hnorm ROps (vx p) (vy p)) lat = lat.
Proof.
  intros el lat lon h Ha He2 Hl Hh p.
  assert (Hh' : - el_a el < h) by nra.
  unfold p. rewrite (hnorm_toECEF el Ha He2 lat lon h Hl Hh').
  exact (lat_body_fixed_point el Ha He2 lat h Hl Hh).
Qed.
Print Assumptions C01_latitude_fixed_point.

(* geodetic -> ECEF -> geodetic, whenever the loop returns: longitude exact, latitude in range, and the
   height is exact as soon as the latitude is.   _partial: that the loop returns a latitude within
   1e-9 rad of the true one is not proved over the whole domain (see C01_latitude_exit_error for the
   conditional bound); the oracle measures it on the implementation. *)
Theorem C01_roundtrip_geodetic_partial : forall (el : ellipsoid (T:=R)) fuel lat lon h g,
  0 < el_a el -> 0 <= el_e2 el < 1 ->
  - PI / 2 < lat < PI / 2 -> - PI < lon <= PI -> - el_a el * (1 - el_e2 el) < h ->
  toWGS84 ROps fuel el (toECEF ROps el (mkGeo lat lon h)) = Some g ->
  g_lon g = lon /\ - PI / 2 < g_lat g < PI / 2 /\ (g_lat g = lat -> g_alt g = h).
Proof. intros el fuel lat lon h g Ha He2. exact (toWGS84_of_toECEF el Ha He2 fuel lat lon h g). Qed.
Print Assumptions C01_roundtrip_geodetic_partial.

(* the exact solution is reproduced: the loop of toWGS84 started at the true latitude makes one pass and
   returns it, and longitude and height computed from it are the original ones *)
Theorem C01_roundtrip_at_fixed_point : forall (el : ellipsoid (T:=R)) fuel lat lon h,
  0 < el_a el -> 0 <= el_e2 el < 1 ->
  - PI / 2 < lat < PI / 2 -> - PI < lon <= PI -> - el_a el * (1 - el_e2 el) < h ->
  let p := toECEF ROps el (mkGeo lat lon h) in
  let norm := hnorm ROps (vx p) (vy p) in
  lat_loop ROps (S fuel) el (vz p) norm lat (nofDec ROps ecef_initial_delta_m ecef_initial_delta_e) = Some lat /\
  longitude_of ROps (vx p) (vy p) = lon /\
  altitude_of ROps el norm lat = h.
Proof. intros el fuel lat lon h Ha He2. exact (roundtrip_at_fixed_point el Ha He2 fuel lat lon h). Qed.
Print Assumptions C01_roundtrip_at_fixed_point.

(* exit of the loop: the last pass moved the latitude by at most EPSILON <= 1e-11 (constant read from the source) *)
Theorem C01_loop_exit : forall (el : ellipsoid (T:=R)) fuel Z norm lat delta r,
  lat_loop ROps fuel el Z norm lat delta = Some r ->
  (r = lat /\ delta <= ecef_eps ROps) \/
  (exists prev, r = lat_body ROps el Z norm prev /\ Rabs (r - prev) <= ecef_eps ROps).
Proof. exact lat_loop_exit. Qed.
Print Assumptions C01_loop_exit.

Theorem C01_epsilon_from_source : 0 < ecef_eps ROps <= / 100000000000.
Proof. exact ecef_eps_bounds. Qed.
Print Assumptions C01_epsilon_from_source.

(* conditional accuracy of the exit: q-Lipschitz body between the last iterate and the fixed point
   ==> error <= q*eps/(1-q).   _partial: q (about e2) is a premise, not proved over the domain. *)
Theorem C01_latitude_exit_error_partial : forall (g : R -> R) q eps x fx,
  0 <= q < 1 -> g fx = fx -> Rabs (g x - g fx) <= q * Rabs (x - fx) -> Rabs (g x - x) <= eps ->
  Rabs (g x - fx) <= q * eps / (1 - q).
Proof. exact contraction_exit_error. Qed.
Print Assumptions C01_latitude_exit_error_partial.

(* every result is in range: latitude in (-PI/2,PI/2), longitude in [-PI,PI]; the asserts of
   makeGeodeticCoordinates hold *)
Theorem C01_result_ranges : forall fuel (el : ellipsoid (T:=R)) p g,
  toWGS84 ROps fuel el p = Some g ->
  - PI / 2 < g_lat g < PI / 2 /\ - PI <= g_lon g <= PI /\ geodetic_in_range ROps g = true.
Proof. exact toWGS84_ranges. Qed.
Print Assumptions C01_result_ranges.

(* ---- the code before the repair (longitude = 2*atan(Y/(X+norm))) ---- *)
(* the formula is undefined (0/0) exactly on the antimeridian ray ... *)
Theorem C01_half_angle_undefined_iff : forall X Y,
  longitude_half_angle ROps X Y = None <-> (Y = 0 /\ X <= 0).
Proof. exact longitude_half_angle_none_iff. Qed.
Print Assumptions C01_half_angle_undefined_iff.

(* ... and agrees with the longitude elsewhere *)
Theorem C01_half_angle_value : forall r lon, 0 < r -> - PI < lon < PI ->
  longitude_half_angle ROps (r * cos lon) (r * sin lon) = Some lon.
Proof. exact longitude_half_angle_value. Qed.
Print Assumptions C01_half_angle_value.

(* "every result is finite" is false of the unrepaired code: witness replayed on the implementation
   (checks/C01.py, first case of the group "cartesian") *)
Theorem C01_half_angle_total_refuted : exists p : vec3 (T:=R),
  forall fuel el, toWGS84_half_angle ROps fuel el p = None.
Proof. exists (mkV3 (-5000000) 0 3000000). intros fuel el. exact (half_angle_refuted fuel el). Qed.
Print Assumptions C01_half_angle_total_refuted.

(* ---- non-vacuity: GRS80 at (45 deg, 3 deg, 365 m) meets every hypothesis ---- *)
Example C01_hypotheses_satisfiable :
  let el := grs80 ROps in
  0 < el_a el /\ 0 <= el_e2 el < 1 /\
  - PI / 2 < PI / 4 < PI / 2 /\ - PI < PI / 60 <= PI /\ - el_a el * (1 - el_e2 el) < 365.
Proof.
  assert (R : 0 < 6356752314 * / 1000 <= 6378137) by lra.
  pose proof (make_ellipsoid_e2_range 6378137 (6356752314 * / 1000) R) as E.
  assert (G : grs80 ROps = make_ellipsoid ROps 6378137 (6356752314 * / 1000)).
  { unfold grs80, grs80_a_m, grs80_a_e, grs80_b_m, grs80_b_e. f_equal; eval_dec; lra. }
  cbv zeta. rewrite G. pose proof PI_RGT_0.
  split; [cbn; lra|]. split; [exact E|]. split; [lra|]. split; [lra|].
  change (el_a (make_ellipsoid ROps 6378137 (6356752314 * / 1000))) with 6378137. nra.
Qed.

(* ---- syntactic tie of the forward map to the current source (gen/SrcFuns.v is regenerated from the clang AST of
   src/geodesy/ECEFConverter.cpp on every run) ---- *)
From Romea Require Import SrcTie.
From Romea.gen Require Import SrcFuns.

Theorem C01_source_tie_toECEF : forall (el : ellipsoid (T:=R)) (g : geodetic (T:=R)),
  src_toECEF ROps (el_a el) (el_e2 el) (g_alt g) (g_lat g) (g_lon g)
  = (vx (toECEF ROps el g), vy (toECEF ROps el g), vz (toECEF ROps el g)).
Proof. exact tie_toECEF. Qed.
Print Assumptions C01_source_tie_toECEF.

(* the INVERSE map, loop included: ECEFConverter::toWGS84 regenerated from the clang AST (the while loop becomes a local
   fix on the fuel argument) is the model's toWGS84 for every fuel; None = the loop is still running after `fuel` passes *)
From Romea Require Import SrcTieLoops.
Theorem C01_source_tie_toWGS84 : forall fuel (el : ellipsoid (T:=R)) (p : vec3 (T:=R)),
  src_ecefToWGS84 ROps fuel (vx p) (vy p) (vz p) (el_a el) (el_e2 el)
  = match toWGS84 ROps fuel el p with None => None | Some g => Some (g_lat g, g_lon g, g_alt g) end.
Proof. exact tie_ecefToWGS84. Qed.
Print Assumptions C01_source_tie_toWGS84.
