(* WrapGridModel.v — executable model for C15:
     include/romea_core_common/containers/grid/WrappableGrid.hpp (+ Grid.hpp)
   Definitions only.  Integers only.  A cell index is a triple (x,y,z) of naturals; a 2D grid has nz = 1
   and z = 0 everywhere.  The size_t / int mixing in the offset update is modelled with its 2^64 wrap. *)
From Coq Require Import ZArith List Bool Arith.
Import ListNotations.

Definition idx := (nat * nat * nat)%type.

Record wgrid (V : Type) := {
  g_dim3 : bool;                 (* DIM == 3 ? *)
  g_nx : nat; g_ny : nat; g_nz : nat;          (* numberOfCellsAlongAxes_ (nz = 1 when DIM = 2) *)
  g_ox : nat; g_oy : nat; g_oz : nat;          (* indexOffsetsAlongAxes_ *)
  g_buf : list V                 (* buffer_ *)
}.
Arguments g_dim3 {V}. Arguments g_nx {V}. Arguments g_ny {V}. Arguments g_nz {V}.
Arguments g_ox {V}. Arguments g_oy {V}. Arguments g_oz {V}. Arguments g_buf {V}.

Section Grid.
Context {V : Type}.

Definition g_init (dim3 : bool) (nx ny nz : nat) (dflt : V) : wgrid V :=
  let nz' := if dim3 then nz else 1 in
  {| g_dim3 := dim3; g_nx := nx; g_ny := ny; g_nz := nz'; g_ox := 0; g_oy := 0; g_oz := 0;
     g_buf := repeat dflt (nx * ny * nz') |}.

(* wrapCellIndexes_ followed by the dot product with indexCoefficients_ = (1, nx, nx*ny) *)
Definition lin (g : wgrid V) (i : idx) : nat :=
  let '(x, y, z) := i in
  (x + g_ox g) mod g_nx g + g_nx g * ((y + g_oy g) mod g_ny g) + g_nx g * g_ny g * ((z + g_oz g) mod g_nz g).

Fixpoint set_nth (p : nat) (v : V) (l : list V) : list V :=
  match l, p with
  | [], _ => []
  | _ :: r, O => v :: r
  | a :: r, S p' => a :: set_nth p' v r
  end.

Definition in_window (g : wgrid V) (i : idx) : bool :=
  let '(x, y, z) := i in Nat.ltb x (g_nx g) && Nat.ltb y (g_ny g) && Nat.ltb z (g_nz g).

(* operator()(cellIndexes) — read / write through the wrap (the assert on the indexes is the guard) *)
Definition g_read (g : wgrid V) (i : idx) : option V :=
  if in_window g i then nth_error (g_buf g) (lin g i) else None.

Definition with_buf (g : wgrid V) (b : list V) : wgrid V :=
  {| g_dim3 := g_dim3 g; g_nx := g_nx g; g_ny := g_ny g; g_nz := g_nz g;
     g_ox := g_ox g; g_oy := g_oy g; g_oz := g_oz g; g_buf := b |}.

Definition g_write (g : wgrid V) (i : idx) (v : V) : wgrid V :=
  if in_window g i then with_buf g (set_nth (lin g i) v (g_buf g)) else g.

(* the cells blanked by one loop nest, in loop order; each is written through computeCellLinearIndex_ *)
Definition blank_cells (g : wgrid V) (cells : list idx) (e : V) : wgrid V :=
  with_buf g (fold_left (fun b c => set_nth (lin g c) e b) cells (g_buf g)).

(* logical indexes visited along one axis of n cells for a signed offset k:
     k > 0 : i = 0; repeat k times { visit i; i = (i+1) % n }
     k < 0 : i = 0; repeat |k| times { i = (i + n-1) % n; visit i }   *)
Definition run_up (n k : nat) : list nat := map (fun j => j mod n) (seq 0 k).
Definition run_down (n k : nat) : list nat := map (fun j => (j * (n - 1)) mod n) (seq 1 k).
Definition axis_run (n : nat) (k : Z) : list nat :=
  match k with
  | Z0 => []
  | Zpos _ => run_up n (Z.to_nat k)
  | Zneg _ => run_down n (Z.to_nat (- k))
  end.

Definition two64 : Z := 18446744073709551616%Z.

(* offset update:  (offset + n + k % static_cast<int>(n)) % n   in size_t arithmetic;
   k % n on ints is C++ remainder (sign of the dividend) = Z.rem *)
Definition new_offset (off n : nat) (k : Z) : nat :=
  Z.to_nat ((((Z.of_nat off + Z.of_nat n) mod two64 + (Z.rem k (Z.of_nat n)) mod two64) mod two64) mod Z.of_nat n).

Definition all (n : nat) : list nat := seq 0 n.

(* translation along X *)
Definition cells_x (g : wgrid V) (k : Z) : list idx :=
  flat_map (fun z => flat_map (fun y => map (fun x => (x, y, z)) (axis_run (g_nx g) k)) (all (g_ny g))) (all (g_nz g)).
(* translation along Y:  2D: y outer, x inner;  3D: z outer, then y run, x inner *)
Definition cells_y (g : wgrid V) (k : Z) : list idx :=
  flat_map (fun z => flat_map (fun y => map (fun x => (x, y, z)) (all (g_nx g))) (axis_run (g_ny g) k)) (all (g_nz g)).
(* translation along Z (3D only) *)
Definition cells_z (g : wgrid V) (k : Z) : list idx :=
  flat_map (fun z => flat_map (fun y => map (fun x => (x, y, z)) (all (g_nx g))) (all (g_ny g))) (axis_run (g_nz g) k).

Definition set_ox (g : wgrid V) (o : nat) : wgrid V :=
  {| g_dim3 := g_dim3 g; g_nx := g_nx g; g_ny := g_ny g; g_nz := g_nz g; g_ox := o; g_oy := g_oy g; g_oz := g_oz g; g_buf := g_buf g |}.
Definition set_oy (g : wgrid V) (o : nat) : wgrid V :=
  {| g_dim3 := g_dim3 g; g_nx := g_nx g; g_ny := g_ny g; g_nz := g_nz g; g_ox := g_ox g; g_oy := o; g_oz := g_oz g; g_buf := g_buf g |}.
Definition set_oz (g : wgrid V) (o : nat) : wgrid V :=
  {| g_dim3 := g_dim3 g; g_nx := g_nx g; g_ny := g_ny g; g_nz := g_nz g; g_ox := g_ox g; g_oy := g_oy g; g_oz := o; g_buf := g_buf g |}.

Definition translate_x (g : wgrid V) (k : Z) (e : V) : wgrid V :=
  if Z.eqb k 0 then g else set_ox (blank_cells g (cells_x g k) e) (new_offset (g_ox g) (g_nx g) k).
Definition translate_y (g : wgrid V) (k : Z) (e : V) : wgrid V :=
  if Z.eqb k 0 then g else set_oy (blank_cells g (cells_y g k) e) (new_offset (g_oy g) (g_ny g) k).
Definition translate_z (g : wgrid V) (k : Z) (e : V) : wgrid V :=
  if Z.eqb k 0 then g else set_oz (blank_cells g (cells_z g k) e) (new_offset (g_oz g) (g_nz g) k).

(* translate(indexOffset, emptyValue): X, then Y, then (DIM == 3) Z *)
Definition translate (g : wgrid V) (kx ky kz : Z) (e : V) : wgrid V :=
  let g1 := translate_x g kx e in
  let g2 := translate_y g1 ky e in
  if g_dim3 g then translate_z g2 kz e else g2.

Inductive gop := GTranslate (kx ky kz : Z) (e : V) | GWrite (i : idx) (v : V).

Definition gstep (g : wgrid V) (o : gop) : wgrid V :=
  match o with
  | GTranslate kx ky kz e => translate g kx ky kz e
  | GWrite i v => g_write g i v
  end.

(* dump: offsets and every cell in logical order (z outer, y, x inner) *)
Definition all_cells (g : wgrid V) : list idx :=
  flat_map (fun z => flat_map (fun y => map (fun x => (x, y, z)) (all (g_nx g))) (all (g_ny g))) (all (g_nz g)).
Definition dump (g : wgrid V) : (nat * nat * nat) * list (option V) :=
  ((g_ox g, g_oy g, g_oz g), map (g_read g) (all_cells g)).

(* ---- the simplest spec: a window over logical indexes ---- *)
Definition spec := idx -> V.
Definition inb (n : nat) (x : nat) (k : Z) : bool := (Z.leb 0 (Z.of_nat x + k) && Z.ltb (Z.of_nat x + k) (Z.of_nat n))%bool.
Definition shift (x : nat) (k : Z) : nat := Z.to_nat (Z.of_nat x + k).
Definition spec_translate (nx ny nz : nat) (w : spec) (kx ky kz : Z) (e : V) : spec :=
  fun '(x, y, z) =>
    if (inb nx x kx && inb ny y ky && inb nz z kz)%bool then w (shift x kx, shift y ky, shift z kz) else e.
Definition idx_eqb (a b : idx) : bool :=
  let '(x, y, z) := a in let '(x', y', z') := b in (Nat.eqb x x' && Nat.eqb y y' && Nat.eqb z z')%bool.
Definition spec_write (w : spec) (i : idx) (v : V) : spec := fun j => if idx_eqb j i then v else w j.
End Grid.
