(* DiagFloat.v — C18 at the floating-point level: the check-up thresholds in IEEE-754 binary64 (T = double).
   The SAME generic model (DiagModel.v: eval_equal_to, eval_greater_than, eval_lower_than, eval_reliability) is
   instantiated at the rounded dictionary B64Ops of GridMapFloat.v: the thresholds  cmp - eps  and  cmp + eps  are the
   real operation followed by ONE rounding to nearest-even in FLT(-1074, 53); the comparisons are exact.
   Both instances have carrier R, so the results (new check-up state, returned status) are compared with [=].

   What is proved (t_lo := cmp - eps, t_hi := cmp + eps as real numbers, rnd64 t_lo / rnd64 t_hi their doubles):
     * the double verdict is the real verdict against the ROUNDED threshold (greater/lower/equal_b64_char);
     * for a double v, the double and the real evaluation return the same pair (state incl. report, status) EXCEPT
       exactly when v sits on the rounded threshold and the real threshold lies strictly on the other side:
         greater-than : v = rnd64 t_lo and t_lo < v   (real OK, double ERROR/too low)
         lower-than   : v = rnd64 t_hi and v < t_hi   (real OK, double ERROR/too high)
         equal-to     : v = rnd64 t_lo and v < t_lo   (real ERROR/too low,  double OK)  or
                        v = rnd64 t_hi and t_hi < v   (real ERROR/too high, double OK)   — the rounded band is wider;
     * hence agreement as soon as v is more than half an ulp of the threshold away from it (.._outside_band), and
       for EVERY real v when the thresholds are themselves doubles (.._exact_threshold, .._eps0);
     * the reliability check-up performs no arithmetic: both instances coincide by computation;
     * witnesses of the exceptional points (Examples at the end), all with v = 1 and eps = 2^-55 (1 -+ 2^-55 are not
       doubles and round to 1): cmp = 1 for greater-than and lower-than (real OK, double ERROR), cmp = 1 + 2^-54
       for equal-to (t_lo = 1 + 2^-55 rounds to 1: real ERROR/too low, double OK); and the tie case cmp = 1,
       eps = 2^-54 for greater-than (1 - 2^-54 is halfway between two doubles, ties-to-even gives 1).

   What stays trusted: that the hardware executes each C++ operation as one rounding to nearest-even of the exact
   result (no x87 excess precision, no fused multiply-add contraction), and that the compiler evaluates cmp - eps /
   cmp + eps in double.  The format has no largest exponent: overflow is not modelled; this is harmless on the domain
   |cmp| + |eps| < 2^1023 (every threshold then stays below the binary64 overflow threshold and the unbounded-exponent
   rounding coincides with IEEE-754), which covers every use in the library (rates, reliabilities in [0,1], ...). *)
From Coq Require Import Reals ZArith List Bool Lra Lia.
From Flocq Require Import Core.
From Romea Require Import Num NumR DiagModel GridMapFloat AnglesFloat.
Local Open Scope R_scope.

Local Instance prec53_diag : Prec_gt_0 53.
Proof. now unfold Prec_gt_0. Qed.

Local Notation fexp64 := (FLT_exp (-1074) 53).
Local Notation bp := (bpow radix2).

(* ---------- rounding facts ---------- *)
Lemma rnd64_mono x y : x <= y -> rnd64 x <= rnd64 y.
Proof. apply rnd_le. exact prec53_diag. Qed.

Lemma rnd64_half_ulp x : Rabs (rnd64 x - x) <= / 2 * ulp radix2 fexp64 x.
Proof. unfold rnd64, frnd. apply error_le_half_ulp. apply FLT_exp_valid. exact prec53_diag. Qed.

Lemma outside_band_neq t v : / 2 * ulp radix2 fexp64 t < Rabs (v - t) -> v <> rnd64 t.
Proof. intros H E. subst v. pose proof (rnd64_half_ulp t). lra. Qed.

(* ---------- the three evaluations as functions of the outcome of their comparisons ---------- *)
Definition gt_of (c : @checkup R) (v : R) (b : bool) : checkup * status :=
  if b then (set_diag c OK SIsOK (Some v), OK) else (set_diag c ERROR STooLow (Some v), ERROR).
Definition lt_of (c : @checkup R) (v : R) (b : bool) : checkup * status :=
  if b then (set_diag c OK SIsOK (Some v), OK) else (set_diag c ERROR STooHigh (Some v), ERROR).
Definition eq_of (c : @checkup R) (v : R) (b1 b2 : bool) : checkup * status :=
  if b1 then (set_diag c ERROR STooLow (Some v), ERROR)
  else if b2 then (set_diag c ERROR STooHigh (Some v), ERROR)
  else (set_diag c OK SIsOK (Some v), OK).

Lemma greater_b64_form c v : eval_greater_than B64Ops c v = gt_of c v (Rltb (rnd64 (c_cmp c - c_eps c)) v).
Proof.
  unfold eval_greater_than, gt_of.
  change (nltb B64Ops (nsub B64Ops (c_cmp c) (c_eps c)) v) with (Rltb (rnd64 (c_cmp c - c_eps c)) v).
  destruct (Rltb (rnd64 (c_cmp c - c_eps c)) v); reflexivity.
Qed.

Lemma greater_R_form c v : eval_greater_than ROps c v = gt_of c v (Rltb (c_cmp c - c_eps c) v).
Proof.
  unfold eval_greater_than, gt_of.
  change (nltb ROps (nsub ROps (c_cmp c) (c_eps c)) v) with (Rltb (c_cmp c - c_eps c) v).
  destruct (Rltb (c_cmp c - c_eps c) v); reflexivity.
Qed.

Lemma lower_b64_form c v : eval_lower_than B64Ops c v = lt_of c v (Rltb v (rnd64 (c_cmp c + c_eps c))).
Proof.
  unfold eval_lower_than, lt_of.
  change (nltb B64Ops v (nadd B64Ops (c_cmp c) (c_eps c))) with (Rltb v (rnd64 (c_cmp c + c_eps c))).
  destruct (Rltb v (rnd64 (c_cmp c + c_eps c))); reflexivity.
Qed.

Lemma lower_R_form c v : eval_lower_than ROps c v = lt_of c v (Rltb v (c_cmp c + c_eps c)).
Proof.
  unfold eval_lower_than, lt_of.
  change (nltb ROps v (nadd ROps (c_cmp c) (c_eps c))) with (Rltb v (c_cmp c + c_eps c)).
  destruct (Rltb v (c_cmp c + c_eps c)); reflexivity.
Qed.

Lemma equal_b64_form c v :
  eval_equal_to B64Ops c v =
  eq_of c v (Rltb v (rnd64 (c_cmp c - c_eps c))) (Rltb (rnd64 (c_cmp c + c_eps c)) v).
Proof.
  unfold eval_equal_to, eq_of.
  change (nltb B64Ops v (nsub B64Ops (c_cmp c) (c_eps c))) with (Rltb v (rnd64 (c_cmp c - c_eps c))).
  change (nltb B64Ops (nadd B64Ops (c_cmp c) (c_eps c)) v) with (Rltb (rnd64 (c_cmp c + c_eps c)) v).
  destruct (Rltb v (rnd64 (c_cmp c - c_eps c))); [reflexivity|].
  destruct (Rltb (rnd64 (c_cmp c + c_eps c)) v); reflexivity.
Qed.

Lemma equal_R_form c v :
  eval_equal_to ROps c v = eq_of c v (Rltb v (c_cmp c - c_eps c)) (Rltb (c_cmp c + c_eps c) v).
Proof.
  unfold eval_equal_to, eq_of.
  change (nltb ROps v (nsub ROps (c_cmp c) (c_eps c))) with (Rltb v (c_cmp c - c_eps c)).
  change (nltb ROps (nadd ROps (c_cmp c) (c_eps c)) v) with (Rltb (c_cmp c + c_eps c) v).
  destruct (Rltb v (c_cmp c - c_eps c)); [reflexivity|].
  destruct (Rltb (c_cmp c + c_eps c) v); reflexivity.
Qed.

Lemma gt_of_inj c v b1 b2 : gt_of c v b1 = gt_of c v b2 <-> b1 = b2.
Proof. split; [|intros ->; reflexivity]. destruct b1, b2; unfold gt_of; intros H; congruence. Qed.

Lemma lt_of_inj c v b1 b2 : lt_of c v b1 = lt_of c v b2 <-> b1 = b2.
Proof. split; [|intros ->; reflexivity]. destruct b1, b2; unfold lt_of; intros H; congruence. Qed.

(* Rltb as a proposition *)
Lemma Rltb_eq_iff a b a' b' : Rltb a b = Rltb a' b' <-> (a < b <-> a' < b').
Proof.
  split.
  - intros H. rewrite <- !Rltb_true. rewrite H. reflexivity.
  - intros H. destruct (Rltb a' b') eqn:E.
    + apply Rltb_true. apply H. apply Rltb_true. exact E.
    + apply Rltb_false. apply Rltb_false in E. destruct (Rlt_dec a b) as [L|L]; [apply H in L|]; lra.
Qed.

(* ====================================================================================================
   (1) the double verdict is the verdict against the rounded threshold
   ==================================================================================================== *)
Lemma greater_b64_char : forall c v,
  snd (eval_greater_than B64Ops c v) = OK <-> rnd64 (c_cmp c - c_eps c) < v.
Proof.
  intros c v. rewrite greater_b64_form, <- Rltb_true. unfold gt_of.
  destruct (Rltb (rnd64 (c_cmp c - c_eps c)) v); cbn [snd]; split; intros H; congruence.
Qed.

Lemma lower_b64_char : forall c v,
  snd (eval_lower_than B64Ops c v) = OK <-> v < rnd64 (c_cmp c + c_eps c).
Proof.
  intros c v. rewrite lower_b64_form, <- Rltb_true. unfold lt_of.
  destruct (Rltb v (rnd64 (c_cmp c + c_eps c))); cbn [snd]; split; intros H; congruence.
Qed.

Lemma equal_b64_char : forall c v,
  snd (eval_equal_to B64Ops c v) = OK <-> rnd64 (c_cmp c - c_eps c) <= v <= rnd64 (c_cmp c + c_eps c).
Proof.
  intros c v. rewrite equal_b64_form. unfold eq_of.
  destruct (Rltb v (rnd64 (c_cmp c - c_eps c))) eqn:E1.
  - apply Rltb_true in E1. cbn [snd]. split; [discriminate|lra].
  - apply Rltb_false in E1. destruct (Rltb (rnd64 (c_cmp c + c_eps c)) v) eqn:E2.
    + apply Rltb_true in E2. cbn [snd]. split; [discriminate|lra].
    + apply Rltb_false in E2. cbn [snd]. split; [lra|reflexivity].
Qed.

(* the same three characterisations over the reals, for comparison *)
Lemma greater_R_char : forall c v, snd (eval_greater_than ROps c v) = OK <-> c_cmp c - c_eps c < v.
Proof.
  intros c v. rewrite greater_R_form, <- Rltb_true. unfold gt_of.
  destruct (Rltb (c_cmp c - c_eps c) v); cbn [snd]; split; intros H; congruence.
Qed.

Lemma lower_R_char : forall c v, snd (eval_lower_than ROps c v) = OK <-> v < c_cmp c + c_eps c.
Proof.
  intros c v. rewrite lower_R_form, <- Rltb_true. unfold lt_of.
  destruct (Rltb v (c_cmp c + c_eps c)); cbn [snd]; split; intros H; congruence.
Qed.

Lemma equal_R_char : forall c v,
  snd (eval_equal_to ROps c v) = OK <-> c_cmp c - c_eps c <= v <= c_cmp c + c_eps c.
Proof.
  intros c v. rewrite equal_R_form. unfold eq_of.
  destruct (Rltb v (c_cmp c - c_eps c)) eqn:E1.
  - apply Rltb_true in E1. cbn [snd]. split; [discriminate|lra].
  - apply Rltb_false in E1. destruct (Rltb (c_cmp c + c_eps c) v) eqn:E2.
    + apply Rltb_true in E2. cbn [snd]. split; [discriminate|lra].
    + apply Rltb_false in E2. cbn [snd]. split; [lra|reflexivity].
Qed.

(* ====================================================================================================
   (2) exact disagreement sets (v a double; the thresholds need not be doubles)
   ==================================================================================================== *)
Lemma greater_b64_vs_real : forall c v, b64 v ->
  (eval_greater_than B64Ops c v = eval_greater_than ROps c v <->
   ~ (v = rnd64 (c_cmp c - c_eps c) /\ c_cmp c - c_eps c < v)).
Proof.
  intros c v Fv. rewrite greater_b64_form, greater_R_form, gt_of_inj, Rltb_eq_iff.
  set (t := c_cmp c - c_eps c).
  destruct (Rlt_dec t v) as [L|L].
  - pose proof (rnd64_le t v Fv (Rlt_le _ _ L)) as G. split; intros H.
    + intros [E _]. apply H in L. lra.
    + split; [intros _; exact L|intros _]. destruct (Req_dec v (rnd64 t)) as [E|E]; [tauto|lra].
  - assert (G : v <= rnd64 t) by (apply rnd64_ge; [exact Fv|lra]). split; intros H.
    + intros [_ K]. contradiction.
    + split; intros K; lra.
Qed.

Lemma greater_b64_disagree : forall c v, b64 v ->
  eval_greater_than B64Ops c v <> eval_greater_than ROps c v ->
  eval_greater_than ROps c v = (set_diag c OK SIsOK (Some v), OK) /\
  eval_greater_than B64Ops c v = (set_diag c ERROR STooLow (Some v), ERROR).
Proof.
  intros c v Fv H.
  assert (K : v = rnd64 (c_cmp c - c_eps c) /\ c_cmp c - c_eps c < v).
  { destruct (Req_dec v (rnd64 (c_cmp c - c_eps c))) as [E|E];
      [destruct (Rlt_dec (c_cmp c - c_eps c) v) as [L|L]; [tauto|]|];
      exfalso; apply H; apply greater_b64_vs_real; tauto. }
  destruct K as [E L]. rewrite greater_b64_form, greater_R_form. unfold gt_of.
  apply Rltb_true in L. rewrite L.
  assert (F : Rltb (rnd64 (c_cmp c - c_eps c)) v = false) by (apply Rltb_false; lra).
  rewrite F. split; reflexivity.
Qed.

Lemma lower_b64_vs_real : forall c v, b64 v ->
  (eval_lower_than B64Ops c v = eval_lower_than ROps c v <->
   ~ (v = rnd64 (c_cmp c + c_eps c) /\ v < c_cmp c + c_eps c)).
Proof.
  intros c v Fv. rewrite lower_b64_form, lower_R_form, lt_of_inj, Rltb_eq_iff.
  set (t := c_cmp c + c_eps c).
  destruct (Rlt_dec v t) as [L|L].
  - pose proof (rnd64_ge t v Fv (Rlt_le _ _ L)) as G. split; intros H.
    + intros [E _]. apply H in L. lra.
    + split; [intros _; exact L|intros _]. destruct (Req_dec v (rnd64 t)) as [E|E]; [tauto|lra].
  - assert (G : rnd64 t <= v) by (apply rnd64_le; [exact Fv|lra]). split; intros H.
    + intros [_ K]. contradiction.
    + split; intros K; lra.
Qed.

Lemma lower_b64_disagree : forall c v, b64 v ->
  eval_lower_than B64Ops c v <> eval_lower_than ROps c v ->
  eval_lower_than ROps c v = (set_diag c OK SIsOK (Some v), OK) /\
  eval_lower_than B64Ops c v = (set_diag c ERROR STooHigh (Some v), ERROR).
Proof.
  intros c v Fv H.
  assert (K : v = rnd64 (c_cmp c + c_eps c) /\ v < c_cmp c + c_eps c).
  { destruct (Req_dec v (rnd64 (c_cmp c + c_eps c))) as [E|E];
      [destruct (Rlt_dec v (c_cmp c + c_eps c)) as [L|L]; [tauto|]|];
      exfalso; apply H; apply lower_b64_vs_real; tauto. }
  destruct K as [E L]. rewrite lower_b64_form, lower_R_form. unfold lt_of.
  apply Rltb_true in L. rewrite L.
  assert (F : Rltb v (rnd64 (c_cmp c + c_eps c)) = false) by (apply Rltb_false; lra).
  rewrite F. split; reflexivity.
Qed.

(* equal-to at its two exceptional points: the double verdict is OK, the real one ERROR *)
Lemma equal_b64_low_point : forall c v, c_cmp c - c_eps c <= c_cmp c + c_eps c ->
  v = rnd64 (c_cmp c - c_eps c) -> v < c_cmp c - c_eps c ->
  eval_equal_to B64Ops c v = (set_diag c OK SIsOK (Some v), OK) /\
  eval_equal_to ROps c v = (set_diag c ERROR STooLow (Some v), ERROR).
Proof.
  intros c v He E L. rewrite equal_b64_form, equal_R_form. unfold eq_of.
  pose proof (rnd64_mono _ _ He) as M.
  apply Rltb_true in L. rewrite L.
  assert (F1 : Rltb v (rnd64 (c_cmp c - c_eps c)) = false) by (apply Rltb_false; lra).
  assert (F2 : Rltb (rnd64 (c_cmp c + c_eps c)) v = false) by (apply Rltb_false; lra).
  rewrite F1, F2. split; reflexivity.
Qed.

Lemma equal_b64_high_point : forall c v, c_cmp c - c_eps c <= c_cmp c + c_eps c ->
  v = rnd64 (c_cmp c + c_eps c) -> c_cmp c + c_eps c < v ->
  eval_equal_to B64Ops c v = (set_diag c OK SIsOK (Some v), OK) /\
  eval_equal_to ROps c v = (set_diag c ERROR STooHigh (Some v), ERROR).
Proof.
  intros c v He E L. rewrite equal_b64_form, equal_R_form. unfold eq_of.
  pose proof (rnd64_mono _ _ He) as M.
  assert (F0 : Rltb v (c_cmp c - c_eps c) = false) by (apply Rltb_false; lra).
  apply Rltb_true in L. rewrite F0, L.
  assert (F1 : Rltb v (rnd64 (c_cmp c - c_eps c)) = false) by (apply Rltb_false; lra).
  assert (F2 : Rltb (rnd64 (c_cmp c + c_eps c)) v = false) by (apply Rltb_false; lra).
  rewrite F1, F2. split; reflexivity.
Qed.

Lemma equal_b64_vs_real : forall c v, b64 v -> c_cmp c - c_eps c <= c_cmp c + c_eps c ->
  (eval_equal_to B64Ops c v = eval_equal_to ROps c v <->
   ~ (v = rnd64 (c_cmp c - c_eps c) /\ v < c_cmp c - c_eps c) /\
   ~ (v = rnd64 (c_cmp c + c_eps c) /\ c_cmp c + c_eps c < v)).
Proof.
  intros c v Fv He. split.
  - intros H. split; intros [E L].
    + destruct (equal_b64_low_point c v He E L) as [A B]. rewrite A, B in H. discriminate.
    + destruct (equal_b64_high_point c v He E L) as [A B]. rewrite A, B in H. discriminate.
  - intros [N1 N2]. rewrite equal_b64_form, equal_R_form.
    set (tlo := c_cmp c - c_eps c) in *. set (thi := c_cmp c + c_eps c) in *.
    assert (B1 : Rltb v (rnd64 tlo) = Rltb v tlo).
    { apply Rltb_eq_iff. destruct (Rlt_dec v tlo) as [L|L].
      - pose proof (rnd64_ge tlo v Fv (Rlt_le _ _ L)).
        split; [intros _; exact L|intros _]. destruct (Req_dec v (rnd64 tlo)); [tauto|lra].
      - assert (rnd64 tlo <= v) by (apply rnd64_le; [exact Fv|lra]). split; intros K; lra. }
    assert (B2 : Rltb (rnd64 thi) v = Rltb thi v).
    { apply Rltb_eq_iff. destruct (Rlt_dec thi v) as [L|L].
      - pose proof (rnd64_le thi v Fv (Rlt_le _ _ L)).
        split; [intros _; exact L|intros _]. destruct (Req_dec v (rnd64 thi)); [tauto|lra].
      - assert (v <= rnd64 thi) by (apply rnd64_ge; [exact Fv|lra]). split; intros K; lra. }
    rewrite B1, B2. reflexivity.
Qed.

(* the direction "not on a rounded threshold -> same result" needs no sign condition on eps *)
Lemma equal_b64_off_thresholds : forall c v, b64 v ->
  ~ (v = rnd64 (c_cmp c - c_eps c) /\ v < c_cmp c - c_eps c) ->
  ~ (v = rnd64 (c_cmp c + c_eps c) /\ c_cmp c + c_eps c < v) ->
  eval_equal_to B64Ops c v = eval_equal_to ROps c v.
Proof.
  intros c v Fv N1 N2. rewrite equal_b64_form, equal_R_form.
  set (tlo := c_cmp c - c_eps c) in *. set (thi := c_cmp c + c_eps c) in *.
  assert (B1 : Rltb v (rnd64 tlo) = Rltb v tlo).
  { apply Rltb_eq_iff. destruct (Rlt_dec v tlo) as [L|L].
    - pose proof (rnd64_ge tlo v Fv (Rlt_le _ _ L)).
      split; [intros _; exact L|intros _]. destruct (Req_dec v (rnd64 tlo)); [tauto|lra].
    - assert (rnd64 tlo <= v) by (apply rnd64_le; [exact Fv|lra]). split; intros K; lra. }
  assert (B2 : Rltb (rnd64 thi) v = Rltb thi v).
  { apply Rltb_eq_iff. destruct (Rlt_dec thi v) as [L|L].
    - pose proof (rnd64_le thi v Fv (Rlt_le _ _ L)).
      split; [intros _; exact L|intros _]. destruct (Req_dec v (rnd64 thi)); [tauto|lra].
    - assert (v <= rnd64 thi) by (apply rnd64_ge; [exact Fv|lra]). split; intros K; lra. }
  rewrite B1, B2. reflexivity.
Qed.

(* ====================================================================================================
   (3) half-ulp band: outside it the two evaluations coincide
   ==================================================================================================== *)
Lemma greater_b64_outside_band : forall c v, b64 v ->
  / 2 * ulp radix2 (FLT_exp (-1074) 53) (c_cmp c - c_eps c) < Rabs (v - (c_cmp c - c_eps c)) ->
  eval_greater_than B64Ops c v = eval_greater_than ROps c v.
Proof.
  intros c v Fv H. apply greater_b64_vs_real; [exact Fv|]. intros [E _].
  exact (outside_band_neq _ _ H E).
Qed.

Lemma lower_b64_outside_band : forall c v, b64 v ->
  / 2 * ulp radix2 (FLT_exp (-1074) 53) (c_cmp c + c_eps c) < Rabs (v - (c_cmp c + c_eps c)) ->
  eval_lower_than B64Ops c v = eval_lower_than ROps c v.
Proof.
  intros c v Fv H. apply lower_b64_vs_real; [exact Fv|]. intros [E _].
  exact (outside_band_neq _ _ H E).
Qed.

Lemma equal_b64_outside_band : forall c v, b64 v ->
  / 2 * ulp radix2 (FLT_exp (-1074) 53) (c_cmp c - c_eps c) < Rabs (v - (c_cmp c - c_eps c)) ->
  / 2 * ulp radix2 (FLT_exp (-1074) 53) (c_cmp c + c_eps c) < Rabs (v - (c_cmp c + c_eps c)) ->
  eval_equal_to B64Ops c v = eval_equal_to ROps c v.
Proof.
  intros c v Fv H1 H2. apply equal_b64_off_thresholds; [exact Fv| |]; intros [E _].
  - exact (outside_band_neq _ _ H1 E).
  - exact (outside_band_neq _ _ H2 E).
Qed.

(* ====================================================================================================
   (4) thresholds that are doubles: agreement for EVERY real v
   ==================================================================================================== *)
Lemma greater_b64_exact_threshold : forall c v, b64 (c_cmp c - c_eps c) ->
  eval_greater_than B64Ops c v = eval_greater_than ROps c v.
Proof. intros c v F. rewrite greater_b64_form, greater_R_form, (rnd64_id _ F). reflexivity. Qed.

Lemma lower_b64_exact_threshold : forall c v, b64 (c_cmp c + c_eps c) ->
  eval_lower_than B64Ops c v = eval_lower_than ROps c v.
Proof. intros c v F. rewrite lower_b64_form, lower_R_form, (rnd64_id _ F). reflexivity. Qed.

Lemma equal_b64_exact_threshold : forall c v, b64 (c_cmp c - c_eps c) -> b64 (c_cmp c + c_eps c) ->
  eval_equal_to B64Ops c v = eval_equal_to ROps c v.
Proof. intros c v F1 F2. rewrite equal_b64_form, equal_R_form, (rnd64_id _ F1), (rnd64_id _ F2). reflexivity. Qed.

Lemma greater_b64_eps0 : forall c v, b64 (c_cmp c) -> c_eps c = 0 ->
  eval_greater_than B64Ops c v = eval_greater_than ROps c v.
Proof. intros c v F E. apply greater_b64_exact_threshold. rewrite E, Rminus_0_r. exact F. Qed.

Lemma lower_b64_eps0 : forall c v, b64 (c_cmp c) -> c_eps c = 0 ->
  eval_lower_than B64Ops c v = eval_lower_than ROps c v.
Proof. intros c v F E. apply lower_b64_exact_threshold. rewrite E, Rplus_0_r. exact F. Qed.

Lemma equal_b64_eps0 : forall c v, b64 (c_cmp c) -> c_eps c = 0 ->
  eval_equal_to B64Ops c v = eval_equal_to ROps c v.
Proof.
  intros c v F E. apply equal_b64_exact_threshold; rewrite E; [rewrite Rminus_0_r|rewrite Rplus_0_r]; exact F.
Qed.

(* ====================================================================================================
   (5) reliability: comparisons only
   ==================================================================================================== *)
Lemma reliability_b64_eq : forall c v, eval_reliability B64Ops c v = eval_reliability ROps c v.
Proof. intros c v. reflexivity. Qed.

(* ====================================================================================================
   (6) witnesses: the premises are satisfiable and each exceptional point is inhabited
   ==================================================================================================== *)
Definition chk (cmp eps : R) : @checkup R := checkup_init cmp eps diagnostic_default.

Lemma b64_one : b64 1.
Proof. apply (fmt_dyadic 53 (-1074) 1 1 0); [simpl; lra|simpl; lia|lia]. Qed.

Lemma b64_two : b64 2.
Proof. apply (fmt_dyadic 53 (-1074) 2 2 0); [simpl; lra|simpl; lia|lia]. Qed.

(* 1 -+ 2^-55 are not doubles and both round to 1 (they are a quarter of an ulp / an eighth of an ulp away) *)
Lemma rnd64_below_one : rnd64 (1 - bp (-55)) = 1.
Proof.
  assert (E55 : bp (-55) = / 36028797018963968) by (simpl; lra).
  replace 1 with (IZR 9007199254740992 * bp (-53)) at 2 by (simpl; lra).
  apply rnd64_near; [|lia|].
  - rewrite E55. rewrite Rabs_pos_eq by lra. simpl; lra.
  - rewrite E55. replace (bp (- -53)) with 9007199254740992 by (simpl; lra).
    apply Rabs_def1; lra.
Qed.

Lemma rnd64_above_one : rnd64 (1 + bp (-55)) = 1.
Proof.
  assert (E55 : bp (-55) = / 36028797018963968) by (simpl; lra).
  replace 1 with (IZR 4503599627370496 * bp (-52)) at 2 by (simpl; lra).
  apply rnd64_near; [|lia|].
  - rewrite E55. rewrite Rabs_pos_eq by lra. simpl; lra.
  - rewrite E55. replace (bp (- -52)) with 4503599627370496 by (simpl; lra).
    apply Rabs_def1; lra.
Qed.

(* the tie: 1 - 2^-54 is exactly halfway between the doubles 1 - 2^-53 and 1; ties-to-even gives 1 *)
Lemma rnd64_tie_below_one : rnd64 (1 - bp (-54)) = 1.
Proof.
  assert (E54 : bp (-54) = / 18014398509481984) by (simpl; lra).
  unfold rnd64, frnd, round, F2R, scaled_mantissa. cbn [Fnum Fexp].
  rewrite (cexp64 (1 - bp (-54)) 0).
  2:{ rewrite E54. rewrite Rabs_pos_eq by lra. simpl; lra. }
  2:{ lia. }
  replace ((1 - bp (-54)) * bp (- (0 - 53))) with (IZR 9007199254740991 + / 2).
  2:{ rewrite E54. replace (bp (- (0 - 53))) with 9007199254740992 by (simpl; lra). lra. }
  unfold Znearest.
  rewrite (Zfloor_imp 9007199254740991) by (split; [lra|rewrite plus_IZR; lra]).
  rewrite (Zceil_imp 9007199254740992) by (split; [rewrite minus_IZR; lra|lra]).
  rewrite Rcompare_Eq by lra.
  simpl. lra.
Qed.

(* greater-than, cmp = 1, eps = 2^-54, v = 1 (the tie case: the band is closed on the even side) *)
Example greater_b64_tie_witness :
  let c := chk 1 (bp (-54)) in
  snd (eval_greater_than ROps c 1) = OK /\ snd (eval_greater_than B64Ops c 1) = ERROR.
Proof.
  cbv zeta. assert (P : 0 < bp (-54)) by apply bpow_gt_0. split.
  - apply greater_R_char. cbn [chk checkup_init c_cmp c_eps]. lra.
  - destruct (greater_b64_disagree (chk 1 (bp (-54))) 1 b64_one) as [_ K].
    + intros H. apply greater_b64_vs_real in H; [|exact b64_one]. apply H.
      cbn [chk checkup_init c_cmp c_eps]. rewrite rnd64_tie_below_one. split; [reflexivity|lra].
    + rewrite K. reflexivity.
Qed.

(* greater-than, cmp = 1, eps = 2^-55, v = 1: over the reals 1 > 1 - 2^-55 (OK); in double the threshold is 1 and
   1 > 1 fails (ERROR, too low) *)
Example greater_b64_band_witness :
  let c := chk 1 (bp (-55)) in
  b64 1 /\
  snd (eval_greater_than ROps c 1) = OK /\ snd (eval_greater_than B64Ops c 1) = ERROR /\
  eval_greater_than B64Ops c 1 <> eval_greater_than ROps c 1.
Proof.
  cbv zeta. assert (P : 0 < bp (-55)) by apply bpow_gt_0.
  assert (A : snd (eval_greater_than ROps (chk 1 (bp (-55))) 1) = OK).
  { apply greater_R_char. cbn [chk checkup_init c_cmp c_eps]. lra. }
  assert (B : snd (eval_greater_than B64Ops (chk 1 (bp (-55))) 1) = ERROR).
  { destruct (greater_b64_disagree (chk 1 (bp (-55))) 1 b64_one) as [_ K].
    - intros H. apply greater_b64_vs_real in H; [|exact b64_one]. apply H.
      cbn [chk checkup_init c_cmp c_eps]. rewrite rnd64_below_one. split; [reflexivity|lra].
    - rewrite K. reflexivity. }
  repeat split; [exact b64_one|exact A|exact B|].
  intros H. rewrite H in B. congruence.
Qed.

(* lower-than, cmp = 1, eps = 2^-55, v = 1: over the reals 1 < 1 + 2^-55 (OK); in double 1 < 1 fails (too high) *)
Example lower_b64_band_witness :
  let c := chk 1 (bp (-55)) in
  snd (eval_lower_than ROps c 1) = OK /\ snd (eval_lower_than B64Ops c 1) = ERROR.
Proof.
  cbv zeta. assert (P : 0 < bp (-55)) by apply bpow_gt_0. split.
  - apply lower_R_char. cbn [chk checkup_init c_cmp c_eps]. lra.
  - destruct (lower_b64_disagree (chk 1 (bp (-55))) 1 b64_one) as [_ K].
    + intros H. apply lower_b64_vs_real in H; [|exact b64_one]. apply H.
      cbn [chk checkup_init c_cmp c_eps]. rewrite rnd64_above_one. split; [reflexivity|lra].
    + rewrite K. reflexivity.
Qed.

(* equal-to, cmp = 1 + 2^-54 (not a double), eps = 2^-55, v = 1: t_lo = 1 + 2^-55 > v over the reals (too low);
   in double t_lo rounds to 1 and v = 1 is accepted *)
Example equal_b64_band_witness :
  let c := chk (1 + bp (-54)) (bp (-55)) in
  0 <= c_eps c /\
  snd (eval_equal_to ROps c 1) = ERROR /\ snd (eval_equal_to B64Ops c 1) = OK.
Proof.
  cbv zeta. assert (P : 0 < bp (-55)) by apply bpow_gt_0.
  assert (Q : bp (-54) = 2 * bp (-55)) by (simpl; lra).
  assert (T : 1 + bp (-54) - bp (-55) = 1 + bp (-55)) by lra.
  split; [cbn [chk checkup_init c_eps]; lra|].
  destruct (equal_b64_low_point (chk (1 + bp (-54)) (bp (-55))) 1) as [A B];
    cbn [chk checkup_init c_cmp c_eps]; try rewrite T; try rewrite rnd64_above_one; try lra.
  rewrite A, B. split; reflexivity.
Qed.

(* the agreement lemmas are not vacuous: v = 2 is far outside the band of the threshold 1 *)
Example greater_b64_outside_band_witness :
  let c := chk 1 0 in
  b64 2 /\ / 2 * ulp radix2 (FLT_exp (-1074) 53) (c_cmp c - c_eps c) < Rabs (2 - (c_cmp c - c_eps c)) /\
  b64 (c_cmp c - c_eps c) /\ b64 (c_cmp c + c_eps c) /\ c_eps c = 0.
Proof.
  cbv zeta. cbn [chk checkup_init c_cmp c_eps].
  replace (1 - 0) with 1 by lra. replace (1 + 0) with 1 by lra.
  repeat split; [exact b64_two| |exact b64_one|exact b64_one].
  rewrite (ulp64 1 1) by (simpl; rewrite ?Rabs_pos_eq; lra || lia).
  replace (2 - 1) with 1 by lra. rewrite Rabs_pos_eq by lra. simpl; lra.
Qed.
