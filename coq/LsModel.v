(* LsModel.v — executable model of romea::core::LeastSquares<RealType> (property C07)
   src/regression/leastsquares/LeastSquares.cpp, include/.../LeastSquares.hpp.   Definitions only.

   The solver object is a state machine.  Faithful details:
   * J_/Y_/W_ buffers grow but never shrink: [setDataSize n] only reallocates when Y_.rows() < n; the
     reallocation discards the contents (Eigen resize: uninitialised memory, modelled by the explicit
     [fill] argument) and resets W_ to ones *only then*;
   * setEstimateSize does not touch J_ (so J_.cols() can differ from estimateSize_: the estimate ops
     are then out-of-bounds reads in C++ -> [None] here);
   * weightJAndY_ multiplies the first dataSize rows in place (so it accumulates when called twice);
   * the normal matrices are built from the first dataSize rows only;
   * Eigen's LDLT solve and JacobiSVD are oracles: function arguments [inverse_of], [svd_of];
   * SVD path: singular values above the threshold are inverted, the others are LEFT AS THEY ARE.
     The threshold is [svd_threshold]; [ls_estimate_svd_abs] keeps the original absolute test
     (sigma > epsilon) for the refutation witness, [ls_estimate_svd] is the code of the repaired tree
     (sigma > epsilon * sigma_0). *)
From Coq Require Import List Arith Bool.
From Romea Require Import Num LinAlgBModel.
Import ListNotations.

Section Ls.
Context {T : Type} (N : NumOps T).

Record ls_state : Type := mk_ls {
  ls_n : nat;                    (* dataSize_ *)
  ls_k : nat;                    (* estimateSize_ *)
  ls_A : list (list T);          (* Ac_  k x k *)
  ls_b : list T;                 (* Bc_  k *)
  ls_jcols : nat;                (* J_.cols() *)
  ls_J : list (list T);          (* J_ rows (capacity = length), each of ls_jcols entries *)
  ls_Y : list T;                 (* Y_ *)
  ls_W : list T;                 (* W_ *)
  ls_inv : list (list T)         (* inverseJtJ_  k x k *)
}.

(* LeastSquares() *)
Definition ls_new0 : ls_state := mk_ls 0 0 [] [] 0 [] [] [] [].
(* LeastSquares(estimateSize) *)
Definition ls_new1 (k : nat) : ls_state := mk_ls 0 k (midentity N k) (vzero N k) 0 [] [] [] (mzero N k k).
(* LeastSquares(estimateSize, dataSize) *)
Definition ls_new2 (k n : nat) : ls_state :=
  mk_ls n k (midentity N k) (vzero N k) k (mzero N n k) (vzero N n) (tab n (fun _ => n_one N)) (mzero N k k).

(* setEstimateSize *)
Definition ls_set_estimate_size (k : nat) (s : ls_state) : ls_state :=
  mk_ls (ls_n s) k (midentity N k) (vzero N k) (ls_jcols s) (ls_J s) (ls_Y s) (ls_W s) (mzero N k k).

(* setDataSize; [fill] stands for the uninitialised contents after Eigen's resize.  Returns the flag too. *)
Definition ls_set_data_size (fill : T) (n : nat) (s : ls_state) : ls_state * bool :=
  if Nat.ltb (length (ls_Y s)) n then
    (mk_ls n (ls_k s) (ls_A s) (ls_b s) (ls_k s)
           (mtab n (ls_k s) (fun _ _ => fill)) (tab n (fun _ => fill)) (tab n (fun _ => n_one N)) (ls_inv s), true)
  else
    (mk_ls n (ls_k s) (ls_A s) (ls_b s) (ls_jcols s) (ls_J s) (ls_Y s) (ls_W s) (ls_inv s), false).

(* getJ().row(i) = row; getY()(i) = y; getW()(i) = w   (i must be inside the buffers, row of J_.cols() entries) *)
Definition ls_row_ok (i : nat) (row : list T) (s : ls_state) : bool :=
  andb (Nat.ltb i (length (ls_Y s))) (Nat.eqb (length row) (ls_jcols s)).

Definition ls_set_row (i : nat) (row : list T) (y w : T) (s : ls_state) : option ls_state :=
  if ls_row_ok i row s then
    Some (mk_ls (ls_n s) (ls_k s) (ls_A s) (ls_b s) (ls_jcols s)
                (set_nth i row (ls_J s)) (set_nth i y (ls_Y s)) (set_nth i w (ls_W s)) (ls_inv s))
  else None.

(* setPreconditionner(Ac, Bc) / setPreconditionner(Ac) *)
Definition ls_set_precond (A : list (list T)) (b : list T) (s : ls_state) : ls_state :=
  mk_ls (ls_n s) (ls_k s) A b (ls_jcols s) (ls_J s) (ls_Y s) (ls_W s) (ls_inv s).
Definition ls_set_precond_A (A : list (list T)) (s : ls_state) : ls_state :=
  ls_set_precond A (vzero N (ls_k s)) s.

(* weightJAndY_ *)
Definition ls_weight (s : ls_state) : ls_state :=
  let n := ls_n s in
  mk_ls n (ls_k s) (ls_A s) (ls_b s) (ls_jcols s)
        (map (fun ir : nat * list T => let (i, r) := ir in
                if Nat.ltb i n then map (fun x => nmul N x (vget N (ls_W s) i)) r else r)
             (combine (seq 0 (length (ls_J s))) (ls_J s)))
        (map (fun iy : nat * T => let (i, y) := iy in
                if Nat.ltb i n then nmul N y (vget N (ls_W s) i) else y)
             (combine (seq 0 (length (ls_Y s))) (ls_Y s)))
        (ls_W s) (ls_inv s).

(* computeJTJ_ / computeJTY_ : dot products of the column heads of length dataSize.
   (C++ computes entry (i,j), j >= i, once and mirrors it; the product is commutative so the mirrored entry is
   the same number.) *)
Definition ls_JtJ (s : ls_state) : list (list T) :=
  mtab (ls_k s) (ls_k s) (fun i j => sumn N (ls_n s) (fun r => nmul N (mget N (ls_J s) r i) (mget N (ls_J s) r j))).
Definition ls_JtY (s : ls_state) : list T :=
  tab (ls_k s) (fun i => sumn N (ls_n s) (fun r => nmul N (mget N (ls_J s) r i) (vget N (ls_Y s) r))).

(* the estimate ops read columns 0..k-1 of J_ and rows 0..n-1 of the buffers: defined behaviour needs this *)
Definition ls_est_ok (s : ls_state) : bool :=
  andb (Nat.eqb (ls_jcols s) (ls_k s)) (Nat.leb (ls_n s) (length (ls_Y s))).

(* Ac_ * inverseJtJ_ * JtY_ + Bc_   (Eigen evaluates the matrix-matrix product first) *)
Definition ls_apply (s : ls_state) (inv : list (list T)) : list T :=
  let k := ls_k s in
  vadd N k (mvmul N k k (mmul N k k k (ls_A s) inv) (ls_JtY s)) (ls_b s).

Definition ls_with_inv (s : ls_state) (inv : list (list T)) : ls_state :=
  mk_ls (ls_n s) (ls_k s) (ls_A s) (ls_b s) (ls_jcols s) (ls_J s) (ls_Y s) (ls_W s) inv.

(* ---- oracles ---- *)
Variable inverse_of : nat -> list (list T) -> list (list T).                         (* JtJ_.ldlt().solve(Identity) *)
Variable svd_of : nat -> list (list T) -> (list (list T) * list T) * list (list T).  (* JacobiSVD: (U, sigma, V) *)

(* estimateUsingCholeskyDecomposition *)
Definition ls_estimate_chol (s : ls_state) : option (ls_state * list T) :=
  if ls_est_ok s then
    let inv := inverse_of (ls_k s) (ls_JtJ s) in
    Some (ls_with_inv s inv, ls_apply s inv)
  else None.

(* the diagonal of the "inverted" singular values: inverted when above the threshold, else untouched *)
Definition svd_inv_diag (thr : T) (sigma : list T) (i : nat) : T :=
  let x := vget N sigma i in if nltb N thr x then ndiv N (n_one N) x else x.

Definition svd_pinv (k : nat) (thr : T) (usv : (list (list T) * list T) * list (list T)) : list (list T) :=
  let '(U, sigma, V) := usv in
  mmul N k k k (mmul N k k k V (mtab k k (fdiag N (svd_inv_diag thr sigma)))) (mtrans N k k U).

(* estimateUsingSVD, original code: sigma_n > epsilon *)
Definition ls_estimate_svd_abs (s : ls_state) : option (ls_state * list T) :=
  if ls_est_ok s then
    let inv := svd_pinv (ls_k s) (nepsilon N) (svd_of (ls_k s) (ls_JtJ s)) in
    Some (ls_with_inv s inv, ls_apply s inv)
  else None.

(* estimateUsingSVD, repaired code: sigma_n > epsilon * sigma_0 *)
Definition ls_estimate_svd (s : ls_state) : option (ls_state * list T) :=
  if ls_est_ok s then
    let usv := svd_of (ls_k s) (ls_JtJ s) in
    let thr := nmul N (nepsilon N) (vget N (snd (fst usv)) 0) in
    let inv := svd_pinv (ls_k s) thr usv in
    Some (ls_with_inv s inv, ls_apply s inv)
  else None.

(* weightedEstimate *)
Definition ls_weighted_estimate (s : ls_state) : option (ls_state * list T) :=
  if ls_est_ok s then ls_estimate_chol (ls_weight s) else None.

(* computeEstimateCovariance (repaired, 870e444):  Ac_ * inverseJtJ_ * Ac_^T * dataVariance *)
Definition ls_covariance (s : ls_state) (var : T) : list (list T) :=
  let k := ls_k s in
  let m := mmul N k k k (mmul N k k k (ls_A s) (ls_inv s)) (mtrans N k k (ls_A s)) in
  mtab k k (fun i j => nmul N (mget N m i j) var).

(* ---- the op language of the state machine ---- *)
Inductive ls_op : Type :=
| OpSetEstimateSize (k : nat)
| OpSetDataSize (n : nat)
| OpSetRow (i : nat) (row : list T) (y w : T)
| OpSetPrecond (A : list (list T)) (b : list T)
| OpSetPrecondA (A : list (list T))
| OpEstimateChol
| OpEstimateSVD
| OpWeightedEstimate
| OpCovariance (var : T).

Inductive ls_out : Type :=
| OutNone
| OutFlag (b : bool)
| OutVec (x : list T)
| OutMat (m : list (list T)).

(* [svd_fixed] selects the repaired (true) or the original (false) SVD path *)
Definition ls_step (fill : T) (svd_fixed : bool) (s : ls_state) (o : ls_op) : option (ls_state * ls_out) :=
  match o with
  | OpSetEstimateSize k => Some (ls_set_estimate_size k s, OutNone)
  | OpSetDataSize n => let (s', f) := ls_set_data_size fill n s in Some (s', OutFlag f)
  | OpSetRow i row y w => match ls_set_row i row y w s with Some s' => Some (s', OutNone) | None => None end
  | OpSetPrecond A b => Some (ls_set_precond A b s, OutNone)
  | OpSetPrecondA A => Some (ls_set_precond_A A s, OutNone)
  | OpEstimateChol => match ls_estimate_chol s with Some (s', x) => Some (s', OutVec x) | None => None end
  | OpEstimateSVD =>
    match (if svd_fixed then ls_estimate_svd s else ls_estimate_svd_abs s) with
    | Some (s', x) => Some (s', OutVec x) | None => None end
  | OpWeightedEstimate => match ls_weighted_estimate s with Some (s', x) => Some (s', OutVec x) | None => None end
  | OpCovariance var => Some (s, OutMat (ls_covariance s var))
  end.

(* run: stops with None at the first undefined op; outputs in order *)
Fixpoint ls_run (fill : T) (svd_fixed : bool) (ops : list ls_op) (s : ls_state) : option (ls_state * list ls_out) :=
  match ops with
  | [] => Some (s, [])
  | o :: r =>
    match ls_step fill svd_fixed s o with
    | None => None
    | Some (s', out) =>
      match ls_run fill svd_fixed r s' with
      | None => None
      | Some (s'', outs) => Some (s'', out :: outs)
      end
    end
  end.

(* loading a problem: setDataSize n, then rows 0..n-1 (row, y, w taken from the lists) *)
Definition row_ops (rows : list (list T)) (ys ws : list T) (a m : nat) : list ls_op :=
  map (fun i => OpSetRow i (nth i rows []) (nth i ys (nzero N)) (nth i ws (nzero N))) (seq a m).

Definition load_ops (n : nat) (rows : list (list T)) (ys ws : list T) : list ls_op :=
  OpSetDataSize n :: row_ops rows ys ws 0 n.

End Ls.
