(* OnlineStatsModel.v — executable model for C16:
     src/monitoring/OnlineAverage.cpp, src/monitoring/OnlineVariance.cpp,
     include/romea_core_common/containers/Eigen/RingOfEigenVector.hpp
   Definitions only.  Integers are exact (Z / nat): the property bounds |value|/precision by 1e8 and the
   window by 64 so the 64-bit sums cannot overflow (OnlineStatsProofs.sums_bounded); the size_t arithmetic
   of the ring index IS modelled with its 2^64 wrap because the property is about it. *)
From Coq Require Import ZArith List Bool Arith.
From Romea Require Import Num.
Import ListNotations.

(* ------------------------------------------------------------ a ring of capacity [cap] written at position p *)
Section Ring.
Context {A : Type}.

Fixpoint replace_nth (p : nat) (x : A) (l : list A) : list A :=
  match l, p with
  | [], _ => []
  | _ :: r, O => x :: r
  | a :: r, S p' => a :: replace_nth p' x r
  end.

(* std::vector used as a ring: push_back until it holds cap items, then overwrite slot p *)
Definition ring_write (cap : nat) (data : list A) (p : nat) (x : A) : list A :=
  if Nat.eqb (length data) cap then replace_nth p x data else data ++ [x].

(* logical content, oldest first *)
Definition ring_logical (cap : nat) (data : list A) (p : nat) : list A :=
  if Nat.eqb (length data) cap then skipn p data ++ firstn p data else data.
End Ring.

(* ------------------------------------------------------------ OnlineAverage / OnlineVariance, integer core *)
Record ostate := {
  o_index : nat;          (* index_  *)
  o_W : nat;              (* windowSize_ *)
  o_data : list Z;        (* data_ : truncated samples *)
  o_sum : Z;              (* sumOfData_ *)
  o_sq : list Z;          (* squaredData_ (OnlineVariance) *)
  o_sumsq : Z             (* sumOfSquaredData_ *)
}.

Definition o_init (W : nat) : ostate :=
  {| o_index := 0; o_W := W; o_data := []; o_sum := 0; o_sq := []; o_sumsq := 0 |}.

(* update with the already truncated sample x = static_cast<long long>(value * multiplier_) *)
Definition o_update (s : ostate) (x : Z) : ostate :=
  let full := Nat.eqb (length (o_data s)) (o_W s) in
  let old := if full then nth (o_index s) (o_data s) 0%Z else 0%Z in
  let oldsq := if full then nth (o_index s) (o_sq s) 0%Z else 0%Z in
  {| o_index := (o_index s + 1) mod (o_W s);
     o_W := o_W s;
     o_data := ring_write (o_W s) (o_data s) (o_index s) x;
     o_sum := (o_sum s + x - old)%Z;
     o_sq := ring_write (o_W s) (o_sq s) (o_index s) (x * x)%Z;
     o_sumsq := (o_sumsq s + x * x - oldsq)%Z |}.

(* reset(): clears the data and the sums and restarts the ring position *)
Definition o_reset (s : ostate) : ostate :=
  {| o_index := 0; o_W := o_W s; o_data := []; o_sum := 0; o_sq := []; o_sumsq := 0 |}.

Definition o_available (s : ostate) : bool := Nat.eqb (length (o_data s)) (o_W s).

Inductive oop {T : Type} := OUpdate (v : T) | OReset.
Arguments oop : clear implicits.

Section Float.
Context {T : Type} (N : NumOps T).

(* multiplier_ = static_cast<int>(1 / averagePrecision) *)
Definition o_multiplier (precision : T) : Z := ntruncZ N (ndiv N (n_one N) precision).

(* static_cast<long long>(value * multiplier_) *)
Definition o_trunc (mult : Z) (v : T) : Z := ntruncZ N (nmul N v (nofZ N mult)).

(* average_ : NaN (None) while no sample is held, else sumOfData_ / (double(multiplier_) * data_.size()) *)
Definition o_average (mult : Z) (s : ostate) : option T :=
  match o_data s with
  | [] => None
  | _ => Some (ndiv N (nofZ N (o_sum s)) (nmul N (nofZ N mult) (nofZ N (Z.of_nat (length (o_data s))))))
  end.

(* variance_ : (sumSq / squaredMultiplier - n * average^2) / (windowSize - 1) *)
Definition o_variance (mult : Z) (s : ostate) : option T :=
  match o_average mult s with
  | None => None
  | Some avg =>
      let sqavg := ndiv N (nofZ N (o_sumsq s)) (nofZ N (mult * mult)%Z) in
      let n := nofZ N (Z.of_nat (length (o_data s))) in
      Some (ndiv N (nsub N sqavg (nmul N (nmul N n avg) avg)) (nofZ N (Z.of_nat (o_W s) - 1)%Z))
  end.

Definition o_step (mult : Z) (s : ostate) (o : oop T) : ostate :=
  match o with OUpdate v => o_update s (o_trunc mult v) | OReset => o_reset s end.

(* run a history; after every op report (available, average, variance, truncated window oldest-first) *)
Fixpoint o_run (mult : Z) (s : ostate) (ops : list (oop T)) : list (bool * option T * option T) :=
  match ops with
  | [] => []
  | o :: r => let s' := o_step mult s o in
              (o_available s', o_average mult s', o_variance mult s') :: o_run mult s' r
  end.
End Float.

(* ------------------------------------------------------------ RingOfEigenVector *)
Definition two64 : Z := 18446744073709551616%Z.

Record rstate {A : Type} := { r_cap : nat; r_index : Z (* size_t ringIndex_ *); r_ring : list A }.
Arguments rstate : clear implicits.

Definition r_init {A} (cap : nat) : rstate A :=
  {| r_cap := cap; r_index := (two64 - 1)%Z (* size_t(-1) *); r_ring := [] |}.

(* ringIndex_ = (ringIndex_ + 1) % ringSize_;  overwrite or push_back *)
Definition r_append {A} (s : rstate A) (x : A) : rstate A :=
  let idx := (((r_index s + 1) mod two64) mod Z.of_nat (r_cap s))%Z in
  {| r_cap := r_cap s; r_index := idx;
     r_ring := if Nat.eqb (length (r_ring s)) (r_cap s) then replace_nth (Z.to_nat idx) x (r_ring s)
               else r_ring s ++ [x] |}.

(* clear(): empties the ring and rewinds the index to its initial value *)
Definition r_clear {A} (s : rstate A) : rstate A :=
  {| r_cap := r_cap s; r_index := (two64 - 1)%Z; r_ring := [] |}.

Definition r_size {A} (s : rstate A) : nat := length (r_ring s).

(* operator[](n) : ring_[(ringIndex_ + ring_.size() - n) % ring_.size()]   (size_t arithmetic) *)
Definition r_get {A} (s : rstate A) (n : nat) : option A :=
  match r_ring s with
  | [] => None     (* modulo by zero in C++: outside the contract *)
  | _ => let sz := Z.of_nat (length (r_ring s)) in
         nth_error (r_ring s) (Z.to_nat ((((r_index s + sz) mod two64 - Z.of_nat n) mod two64) mod sz)%Z)
  end.

Inductive rop {A : Type} := RAppend (x : A) | RClear.
Arguments rop : clear implicits.

Definition r_step {A} (s : rstate A) (o : rop A) : rstate A :=
  match o with RAppend x => r_append s x | RClear => r_clear s end.

(* after each op: size and all entries [0..size) *)
Fixpoint r_run {A} (s : rstate A) (ops : list (rop A)) : list (nat * list (option A)) :=
  match ops with
  | [] => []
  | o :: r => let s' := r_step s o in
              (r_size s', map (r_get s') (seq 0 (r_size s'))) :: r_run s' r
  end.

(* ------------------------------------------------------------ the code as it was before the repairs (kept only
   for the refutation theorems that document the defects; not used by the checks' correspondence run) *)
Definition o_reset_legacy (s : ostate) : ostate :=    (* reset() kept index_ *)
  {| o_index := o_index s; o_W := o_W s; o_data := []; o_sum := 0; o_sq := []; o_sumsq := 0 |}.

Definition r_get_legacy {A} (s : rstate A) (n : nat) : option A :=   (* (ringIndex_ - n) % ring_.size() *)
  match r_ring s with
  | [] => None
  | _ => nth_error (r_ring s) (Z.to_nat (((r_index s - Z.of_nat n) mod two64) mod Z.of_nat (length (r_ring s)))%Z)
  end.

Definition r_clear_legacy {A} (s : rstate A) : rstate A :=   (* clear() kept ringIndex_ *)
  {| r_cap := r_cap s; r_index := r_index s; r_ring := [] |}.

(* int squaredMultiplier_ = multiplier_ * multiplier_  wrapped to 32-bit two's complement *)
Definition wrap32 (z : Z) : Z := ((z + 2147483648) mod 4294967296 - 2147483648)%Z.
