(* Properties_C03.v — C03: the Lambert conic projection is conformal, true-scale on its parallels, invertible.
   Statements about the real-number instance of coq/LambertModel.v, each closed by [exact <lemma>].
   e is the ellipsoid's first eccentricity (0 <= e < 1); latitudes strictly inside (-PI/2, PI/2). *)
From Coq Require Import Reals ZArith List Bool Lra.
From Coquelicot Require Import Coquelicot.
From Romea Require Import Num NumR GeodesyModel GeodesyProofs LambertModel LambertProofs LambertContraction.
From Romea.gen Require Import RepoConstants.
Local Open Scope R_scope.

(* derivative of the isometric latitude *)
Theorem C03_isolat_derivative : forall e lat, 0 <= e < 1 -> - PI / 2 < lat < PI / 2 ->
  is_derive (fun x => isometricLatitude ROps x e) lat
            ((1 - e * e) / ((1 - e * e * (sin lat * sin lat)) * cos lat)).
Proof. exact isolat_derivative. Qed.
Print Assumptions C03_isolat_derivative.

(* conformality: at every point, for every projection constants (n, c, lon0, xs, ys) — either hemisphere —
   the partial derivatives of toLambert with respect to latitude and longitude exist, are orthogonal, and the
   scale along the meridian (|dF/dlat| / M) equals the scale along the parallel (|dF/dlon| / (N cos lat));
   M and N cos lat are EarthEllipsoid::meridionalRadius / transversalRadius; orientation is preserved *)
Theorem C03_lambert_conformal : forall (el : ellipsoid (T:=R)) (pr : projection (T:=R)) lat lon,
  0 < el_a el -> 0 <= el_e el < 1 -> el_e el * el_e el = el_e2 el -> - PI / 2 < lat < PI / 2 ->
  let e := el_e el in
  exists xlat ylat xlon ylon,
    is_derive (fun x => v2x (toLambert ROps pr e (mkWgs x lon))) lat xlat /\
    is_derive (fun x => v2y (toLambert ROps pr e (mkWgs x lon))) lat ylat /\
    is_derive (fun l => v2x (toLambert ROps pr e (mkWgs lat l))) lon xlon /\
    is_derive (fun l => v2y (toLambert ROps pr e (mkWgs lat l))) lon ylon /\
    xlat * xlon + ylat * ylon = 0 /\
    (xlat * xlat + ylat * ylat) / (meridionalRadius ROps el lat * meridionalRadius ROps el lat) =
    (xlon * xlon + ylon * ylon) / (transversalRadius ROps el lat * transversalRadius ROps el lat) /\
    (xlon * xlon + ylon * ylon) / (transversalRadius ROps el lat * transversalRadius ROps el lat) =
    Rsqr (parallel_scale pr el lat) /\
    0 <= xlon * ylat - ylon * xlat.
Proof.
  intros el pr lat lon Ha He Hee Hl e.
  destruct (toLambert_dlat pr e lat lon He Hl) as [D1 D2].
  destruct (toLambert_dlon pr e lat lon) as [D3 D4].
  destruct (conformal_algebra el Ha He Hee pr lat lon Hl) as [A1 [A2 [A3 A4]]].
  exact (ex_intro _ _ (ex_intro _ _ (ex_intro _ _ (ex_intro _ _
           (conj D1 (conj D2 (conj D3 (conj D4 (conj A1 (conj A2 (conj A3 A4))))))))))).
Qed.
Print Assumptions C03_lambert_conformal.

(* scale exactly 1 on both standard parallels (secant constructor) *)
Theorem C03_secant_true_scale : forall (el : ellipsoid (T:=R)) sp,
  0 < el_a el -> 0 <= el_e el < 1 ->
  - PI / 2 < sp_lat1 sp < PI / 2 -> - PI / 2 < sp_lat2 sp < PI / 2 ->
  isometricLatitude ROps (sp_lat1 sp) (el_e el) <> isometricLatitude ROps (sp_lat2 sp) (el_e el) ->
  p_n (secant_projection ROps sp el) <> 0 ->
  parallel_scale (secant_projection ROps sp el) el (sp_lat1 sp) = 1 /\
  parallel_scale (secant_projection ROps sp el) el (sp_lat2 sp) = 1.
Proof. intros el sp Ha He. exact (secant_true_scale el Ha He sp). Qed.
Print Assumptions C03_secant_true_scale.

(* scale k0 on the tangent parallel (tangent constructor) *)
Theorem C03_tangent_scale : forall (el : ellipsoid (T:=R)) tp,
  0 < el_a el -> 0 <= el_e el < 1 -> - PI / 2 < tp_lat0 tp < PI / 2 -> sin (tp_lat0 tp) <> 0 ->
  parallel_scale (tangent_projection ROps tp el) el (tp_lat0 tp) = tp_k0 tp.
Proof. intros el tp Ha He. exact (tangent_scale el Ha He tp). Qed.
Print Assumptions C03_tangent_scale.

(* projection origin -> false origin (secant: origin away from the pole, i.e. the branch |lat0 - pi/2| > 1e-9) *)
Theorem C03_origin_to_false_origin : forall (el : ellipsoid (T:=R)),
  (forall sp, pole_eps ROps < Rabs (sp_lat0 sp - PI / 2) ->
     toLambert ROps (secant_projection ROps sp el) (el_e el) (mkWgs (sp_lat0 sp) (sp_lon0 sp))
     = mkV2 (sp_x0 sp) (sp_y0 sp)) /\
  (forall tp,
     toLambert ROps (tangent_projection ROps tp el) (el_e el) (mkWgs (tp_lat0 tp) (tp_lon0 tp))
     = mkV2 (tp_x0 tp) (tp_y0 tp)).
Proof. intros el. exact (conj (secant_origin el) (tangent_origin el)). Qed.
Print Assumptions C03_origin_to_false_origin.

(* the central meridian maps onto the line x = x0 *)
Theorem C03_central_meridian : forall (el : ellipsoid (T:=R)) lat,
  (forall sp, v2x (toLambert ROps (secant_projection ROps sp el) (el_e el) (mkWgs lat (sp_lon0 sp))) = sp_x0 sp) /\
  (forall tp, v2x (toLambert ROps (tangent_projection ROps tp el) (el_e el) (mkWgs lat (tp_lon0 tp))) = tp_x0 tp).
Proof. intros el lat. exact (conj (fun sp => secant_central_meridian el sp lat) (fun tp => tangent_central_meridian el tp lat)). Qed.
Print Assumptions C03_central_meridian.

(* inverse: isometric latitude and longitude are recovered exactly for cone constants of either sign
   (both hemispheres); the result is the latitude iteration run on the exact isometric latitude *)
Theorem C03_inverse_recovers_isolat_and_longitude : forall (pr : projection (T:=R)) e fuel lat lon,
  p_c pr <> 0 -> p_n pr <> 0 -> - PI / 2 < p_n pr * (lon - p_lon0 pr) < PI / 2 ->
  toWGS84 ROps fuel pr e (toLambert ROps pr e (mkWgs lat lon)) =
  match computeLatitude ROps fuel (isometricLatitude ROps lat e) e with
  | Some l => Some (mkWgs l lon) | None => None end.
Proof. intros pr e fuel lat lon. exact (toWGS84_of_toLambert pr e fuel lat lon). Qed.
Print Assumptions C03_inverse_recovers_isolat_and_longitude.

(* the true latitude is a fixed point of the iteration at its own isometric latitude, and the loop started
   there returns it at once *)
Theorem C03_latitude_fixed_point : forall e lat fuel, 0 <= e < 1 -> - PI / 2 < lat < PI / 2 ->
  latitude_step ROps (isometricLatitude ROps lat e) e lat = lat /\
  latitude_iter ROps (S fuel) (isometricLatitude ROps lat e) e lat = Some lat.
Proof.
  intros e lat fuel He Hl. pose proof (latitude_step_fixed_point e lat He Hl) as F.
  exact (conj F (latitude_iter_from_fixed_point fuel _ e lat F)).
Qed.
Print Assumptions C03_latitude_fixed_point.

(* the loop body is a global contraction with factor e^2/(1-e^2) (mean value theorem on its derivative) *)
Theorem C03_latitude_iteration_contracts : forall L e x y, 0 <= e < 1 ->
  Rabs (latitude_step ROps L e y - latitude_step ROps L e x) <= e * e / (1 - e * e) * Rabs (y - x).
Proof. exact latitude_step_lipschitz. Qed.
Print Assumptions C03_latitude_iteration_contracts.

(* exit of the loop: the last pass moved the latitude by less than EPSILON <= 1e-11 (read from the source) *)
Theorem C03_latitude_exit : forall fuel L e lat r,
  latitude_iter ROps fuel L e lat = Some r ->
  exists prev, r = latitude_step ROps L e prev /\ Rabs (r - prev) < lambert_eps ROps.
Proof. exact latitude_iter_exit. Qed.
Print Assumptions C03_latitude_exit.

(* inverse map: for e <= 0.1, cone constants of either sign (both hemispheres), |n (lon - lon0)| < PI/2:
   whenever toWGS84 returns, the longitude is exact and the latitude is within EPSILON/98 <= 1.1e-13 rad.
   (Conditional on the loop returning; C03_inverse_total below removes the condition for fuel >= 8.) *)
Theorem C03_inverse_exact : forall (pr : projection (T:=R)) e fuel lat lon w,
  0 <= e <= / 10 -> - PI / 2 < lat < PI / 2 ->
  p_c pr <> 0 -> p_n pr <> 0 -> - PI / 2 < p_n pr * (lon - p_lon0 pr) < PI / 2 ->
  toWGS84 ROps fuel pr e (toLambert ROps pr e (mkWgs lat lon)) = Some w ->
  Rabs (w_lat w - lat) <= lambert_eps ROps / 98 /\ w_lon w = lon.
Proof.
  intros pr e fuel lat lon w He Hl Hc Hn Hg H.
  rewrite (toWGS84_of_toLambert pr e fuel lat lon Hc Hn Hg) in H.
  destruct (computeLatitude ROps fuel (isolat e lat) e) as [l|] eqn:E; [|discriminate].
  inversion H; subst w; cbn [w_lat w_lon]. split; [|reflexivity].
  exact (computeLatitude_accuracy fuel e lat l He Hl E).
Qed.
Print Assumptions C03_inverse_exact.

(* termination: for e <= 0.1 the loop of computeLatitude exits within 8 passes for every isometric latitude
   (so the fuel 500 used by the executed model is never exhausted on the property's domain) *)
Theorem C03_latitude_loop_terminates : forall L e k, 0 <= e <= / 10 ->
  exists r, computeLatitude ROps (8 + k) L e = Some r.
Proof. exact computeLatitude_terminates. Qed.
Print Assumptions C03_latitude_loop_terminates.

(* inverse map, total form: with fuel >= 8 toWGS84 returns, the longitude is exact and the latitude is within
   EPSILON/98 of the original, on cones of either hemisphere *)
Theorem C03_inverse_total : forall (pr : projection (T:=R)) e k lat lon,
  0 <= e <= / 10 -> - PI / 2 < lat < PI / 2 ->
  p_c pr <> 0 -> p_n pr <> 0 -> - PI / 2 < p_n pr * (lon - p_lon0 pr) < PI / 2 ->
  exists w, toWGS84 ROps (8 + k) pr e (toLambert ROps pr e (mkWgs lat lon)) = Some w /\
            Rabs (w_lat w - lat) <= lambert_eps ROps / 98 /\ w_lon w = lon.
Proof.
  intros pr e k lat lon He Hl Hc Hn Hg.
  destruct (computeLatitude_terminates (isolat e lat) e k He) as [l El].
  exists (mkWgs l lon). split.
  - rewrite (toWGS84_of_toLambert pr e (8 + k) lat lon Hc Hn Hg). rewrite El. reflexivity.
  - cbn [w_lat w_lon]. split; [|reflexivity]. exact (computeLatitude_accuracy (8 + k) e lat l He Hl El).
Qed.
Print Assumptions C03_inverse_total.

Theorem C03_epsilon_from_source : 0 < lambert_eps ROps <= / 100000000000.
Proof. exact lambert_eps_bounds. Qed.
Print Assumptions C03_epsilon_from_source.

(* ---- the code before the repair (log(rho/c)) ---- *)
(* "the inverse returns the original point" is false of the unrepaired code on every southern cone: the
   inverse is undefined (log of a non-positive number; in C++ NaN and an endless loop) at every point.
   Witness replayed on the implementation: checks/C03.py, parameter set with parallels -0.5759 / -0.7854. *)
Theorem C03_inverse_south_refuted : forall (pr : projection (T:=R)) e fuel v,
  p_c pr < 0 -> toWGS84_old ROps fuel pr e v = None.
Proof. intros pr e fuel v. exact (toWGS84_old_south pr e fuel v). Qed.
Print Assumptions C03_inverse_south_refuted.

(* on northern cones the repaired inverse is the old one *)
Theorem C03_inverse_north_unchanged : forall (pr : projection (T:=R)) e fuel v,
  0 < p_c pr -> 0 < rho_of ROps pr v -> toWGS84_old ROps fuel pr e v = toWGS84 ROps fuel pr e v.
Proof. intros pr e fuel v. exact (toWGS84_old_north pr e fuel v). Qed.
Print Assumptions C03_inverse_north_unchanged.

(* ---- non-vacuity ---- *)
Example C03_hypotheses_satisfiable :
  (0 <= / 10 < 1) /\ (- PI / 2 < - PI / 4 < PI / 2) /\
  (exists pr : projection (T:=R), p_c pr < 0 /\ p_n pr <> 0 /\ - PI / 2 < p_n pr * (0 - p_lon0 pr) < PI / 2).
Proof.
  pose proof PI_RGT_0. split; [lra|]. split; [lra|].
  exists (mkProj 0 (-1) (-1) 0 0). cbn. repeat split; lra.
Qed.

(* ---- syntactic tie of the closed-form leaves to the current source (gen/SrcFunsC03.v is regenerated from the clang AST
   of src/geodesy/LambertConverter.cpp and EarthEllipsoid.cpp on every run) ---- *)
From Romea Require Import SrcTie SrcTieC03.
From Romea.gen Require Import SrcFunsC03.

Theorem C03_source_tie_isometric_latitude : forall lat e,
  src_isometricLatitude ROps lat e = isometricLatitude ROps lat e.
Proof. exact tie_isometricLatitude. Qed.

Theorem C03_source_tie_grande_normale : forall lat a e,
  src_grandeNormale ROps lat a e = grandeNormale ROps lat a e.
Proof. exact tie_grandeNormale. Qed.

Theorem C03_source_tie_toLambert : forall (pr : projection (T:=R)) e (w : wgs84 (T:=R)),
  src_toLambert ROps (p_c pr) e (p_lon0 pr) (p_n pr) (w_lat w) (w_lon w) (p_xs pr) (p_ys pr)
  = (v2x (toLambert ROps pr e w), v2y (toLambert ROps pr e w)).
Proof. exact tie_toLambert. Qed.

Theorem C03_source_tie_radii : forall lat (el : ellipsoid (T:=R)),
  src_meridionalRadius ROps lat (el_a el) (el_e el) (el_e2 el) = meridionalRadius ROps el lat /\
  src_transversalRadius ROps lat (el_a el) (el_e el) = transversalRadius ROps el lat.
Proof. intros lat el. split; [apply tie_meridionalRadius|apply tie_transversalRadius]. Qed.
Print Assumptions C03_source_tie_toLambert.

(* the INVERSE map, loop included, and the constructor arithmetic: computeLatitude (for(;;) … break), toWGS84 and both
   computeProjectionParameters overloads regenerated from the clang AST are the model functions, for every fuel *)
Theorem C03_source_tie_inverse : forall fuel (pr : projection (T:=R)) e (v : vec2 (T:=R)) L,
  src_computeLatitude ROps fuel L e = computeLatitude ROps fuel L e /\
  src_lambertToWGS84 ROps fuel (p_c pr) e (p_lon0 pr) (p_n pr) (v2x v) (v2y v) (p_xs pr) (p_ys pr)
  = match toWGS84 ROps fuel pr e v with None => None | Some w => Some (w_lat w, w_lon w) end.
Proof. intros fuel pr e v L. exact (conj (tie_computeLatitude fuel L e) (tie_lambertToWGS84 fuel pr e v)). Qed.
Print Assumptions C03_source_tie_inverse.

Theorem C03_source_tie_projection_parameters : forall (el : ellipsoid (T:=R)),
  (forall p : secant_params (T:=R),
     src_secantProjection ROps (el_a el) (el_e el) (sp_lat0 p) (sp_lat1 p) (sp_lat2 p) (sp_lon0 p) (sp_x0 p) (sp_y0 p)
     = (let q := secant_projection ROps p el in (p_lon0 q, p_n q, p_c q, p_xs q, p_ys q))) /\
  (forall p : tangent_params (T:=R),
     src_tangentProjection ROps (el_a el) (el_e el) (tp_k0 p) (tp_lat0 p) (tp_lon0 p) (tp_x0 p) (tp_y0 p)
     = (let q := tangent_projection ROps p el in (p_lon0 q, p_n q, p_c q, p_xs q, p_ys q))).
Proof. intros el. exact (conj (fun p => tie_secantProjection p el) (fun p => tie_tangentProjection p el)). Qed.
Print Assumptions C03_source_tie_projection_parameters.

(* ==== SOURCE TIE OF THE CONSTRUCTORS (translator translate/tr_C03_ctor.py, library translate/imptrans.py) ====
   The four constructors of LambertConverter are regenerated on every run from the clang AST of the current
   src/geodesy/LambertConverter.cpp (gen/SrcLambertCtor.v) as the tuple of the data members they leave, by name:
   (c_, e_, longitude0_, n_, xs_, ys_); the class must have exactly these six double members and these four constructors.
   A converter built from secant / tangent parameters and an ellipsoid holds the projection constants
   computeProjectionParameters(parameters, ellipsoid) and the ellipsoid's FIRST eccentricity el_e — the pair (pr, e) all
   theorems above are about.  Every numeric dictionary.  (lambert_fields pr e = (p_c pr, e, p_lon0 pr, p_n pr, p_xs pr, p_ys pr):
   SrcTieC03Ctor.v.) *)
From Romea Require Import SrcTieC03Ctor.
From Romea.gen Require Import SrcLambertCtor.

Theorem C03_source_tie_constructors : forall T (N : NumOps T) (sp : secant_params (T:=T)) (tp : tangent_params (T:=T)) (el : ellipsoid (T:=T)),
  src_ctor_secant N (secant_projection N) (tangent_projection N) sp el = lambert_fields (secant_projection N sp el) (el_e el) /\
  src_ctor_tangent N (secant_projection N) (tangent_projection N) tp el = lambert_fields (tangent_projection N tp el) (el_e el).
Proof. intros T N. exact (tie_constructors N). Qed.
Print Assumptions C03_source_tie_constructors.

(* the two plain constructors store their arguments, each in its own member *)
Theorem C03_source_tie_plain_constructors : forall T (N : NumOps T) Fs Ft (pr : projection (T:=T)) lon0 n c xs ys e,
  src_ctor_scalars N Fs Ft lon0 n c xs ys e = lambert_fields (mkProj lon0 n c xs ys) e /\
  src_ctor_projection N Fs Ft pr e = lambert_fields pr e.
Proof.
  intros T N Fs Ft pr lon0 n c xs ys e.
  exact (conj (tie_ctor_scalars N Fs Ft lon0 n c xs ys e) (tie_ctor_projection N Fs Ft pr e)).
Qed.
Print Assumptions C03_source_tie_plain_constructors.

(* end to end over the reals: the source's toLambert on the members the source's constructors store is the model's
   toLambert (projection constants of the model, eccentricity el_e) *)
Theorem C03_source_tie_constructed_converter : forall (el : ellipsoid (T:=R)) (w : wgs84 (T:=R)),
  (forall sp : secant_params (T:=R),
     let '(c, e, lon0, n, xs, ys) := src_ctor_secant ROps (secant_projection ROps) (tangent_projection ROps) sp el in
     src_toLambert ROps c e lon0 n (w_lat w) (w_lon w) xs ys =
     (let v := toLambert ROps (secant_projection ROps sp el) (el_e el) w in (v2x v, v2y v))) /\
  (forall tp : tangent_params (T:=R),
     let '(c, e, lon0, n, xs, ys) := src_ctor_tangent ROps (secant_projection ROps) (tangent_projection ROps) tp el in
     src_toLambert ROps c e lon0 n (w_lat w) (w_lon w) xs ys =
     (let v := toLambert ROps (tangent_projection ROps tp el) (el_e el) w in (v2x v, v2y v))).
Proof. exact tie_constructed_toLambert. Qed.
Print Assumptions C03_source_tie_constructed_converter.

Theorem C03_source_tie_constructed_converter_inverse : forall fuel (el : ellipsoid (T:=R)) (v : vec2 (T:=R)),
  (forall sp : secant_params (T:=R),
     let '(c, e, lon0, n, xs, ys) := src_ctor_secant ROps (secant_projection ROps) (tangent_projection ROps) sp el in
     src_lambertToWGS84 ROps fuel c e lon0 n (v2x v) (v2y v) xs ys =
     match toWGS84 ROps fuel (secant_projection ROps sp el) (el_e el) v with None => None | Some w => Some (w_lat w, w_lon w) end) /\
  (forall tp : tangent_params (T:=R),
     let '(c, e, lon0, n, xs, ys) := src_ctor_tangent ROps (secant_projection ROps) (tangent_projection ROps) tp el in
     src_lambertToWGS84 ROps fuel c e lon0 n (v2x v) (v2y v) xs ys =
     match toWGS84 ROps fuel (tangent_projection ROps tp el) (el_e el) v with None => None | Some w => Some (w_lat w, w_lon w) end).
Proof. exact tie_constructed_toWGS84. Qed.
Print Assumptions C03_source_tie_constructed_converter_inverse.
