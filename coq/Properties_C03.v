From Coq Require Import Reals.
From Romea Require Import Num NumR LambertModel.
Theorem C03_stub : True. Proof. exact I. Qed.
