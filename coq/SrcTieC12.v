(* SrcTieC12.v — the matrix code behind C12, regenerated from the clang AST of the current sources by the symbolic Eigen
   evaluator (translate/eigensym.py, translate/tr_C12_eigensym.py -> gen/SrcEigenC12.v), equals the models the C12 theorems
   are about (real instance):
     src_smart_ctor          SmartRotation3D(x,y,z) = default-constructor initialisers (Identity / Zero) ; init(x,y,z)
                             = the ten matrices of AnglesModel.v (Rx_of .. dRz_of, smart_init: sR, sdX, sdY, sdZ)
     src_smart_dRTdAngles    = smart_dRTdAngles
     src_pose3d_mul          operator*(Affine3d, Pose3D): the 6x6 local J = pose_J entry by entry, the returned position,
                             the matrix handed to rotation3DToEulerAngles = l * S, the returned covariance = pose_cov J C.
   The generated terms are chains of lets that follow the statements of the source; the proofs normalise both sides and close
   every entry with [req] (ring-equality below the function symbols), so a re-association, a renamed or hoisted local, or a
   reordering of independent statements leaves them valid, and a change of meaning breaks them. *)
From Coq Require Import Reals ZArith Lra Lia List String.
From Romea Require Import Num NumR AnglesModel AnglesRoundtrip PoseCovModel SrcTie SrcTieAngles.
From Romea.gen Require Import SrcFunsC10 SrcEigenC12.
Import ListNotations.
Local Open Scope R_scope.

Lemma dec_1_0' : IZR 1 * powerRZ 10 0 = 1.
Proof. simpl. lra. Qed.
Ltac lits12 := rewrite ?dec_0_0, ?dec_1_0'; change (IZR 1) with 1; change (IZR 0) with 0.

(* tuples / matrices / vectors are split into their scalar entries first; a scalar equation is closed by ring, after the
   arguments of sqrt and of the inverse have been made syntactically equal where they are ring-equal *)
Ltac split12 :=
  repeat match goal with
         | |- (_, _) = (_, _) => f_equal
         | |- mkM3 _ _ _ _ _ _ _ _ _ = mkM3 _ _ _ _ _ _ _ _ _ => f_equal
         | |- mkV3 _ _ _ = mkV3 _ _ _ => f_equal
         | |- mkM2 _ _ _ _ = mkM2 _ _ _ _ => f_equal
         end.
Ltac scal12 := first [ reflexivity | ring | (unfold Rdiv; repeat first [unify1 sqrt | unify1 Rinv]; ring) ].
Ltac req12 := split12; scal12.

(* projections and small matrix operations of the models, unfolded together with the generated definitions *)
Ltac norm12 :=
  lazy beta zeta iota delta
    [src_smart_ctor src_smart_ctor_Rx src_smart_ctor_Ry src_smart_ctor_Rz src_smart_ctor_R
     src_smart_ctor_dRxdAngleX src_smart_ctor_dRydAngleY src_smart_ctor_dRzdAngleZ
     src_smart_ctor_dRdAngleX src_smart_ctor_dRdAngleY src_smart_ctor_dRdAngleZ src_smart_dRTdAngles
     src_pose3d_mul src_pose3d_mul_position src_pose3d_mul_orientation src_pose3d_mul_covariance src_pose3d_mul_jacobian
     src_pose3d_mul_euler_arg
     m00 m01 m02 m10 m11 m12 m20 m21 m22 v0 v1 v2 a00 a01 a10 a11 fst snd
     smart_init sR sdX sdY sdZ Rx_of Ry_of Rz_of dRx_of dRy_of dRz_of mmul3 mvmul3 vadd3 mcols3 mcol3 mget3 vget3
     smart_dRTdAngles cross3 vneg3 dSdX_of dSdY_of dSdZ_of pose_J_angular pose_J block6 Nat.ltb Nat.leb Nat.sub].

(* ---------------------------------------------------------------- SmartRotation3D *)
Lemma tie_smart_signature :
  src_smart_ctor_inputs = ["arg0"; "arg1"; "arg2"]%string /\
  src_smart_ctor_outputs = ["Rx_"; "Ry_"; "Rz_"; "R_"; "dRxdAngleX_"; "dRydAngleY_"; "dRzdAngleZ_";
                            "dRdAngleX_"; "dRdAngleY_"; "dRdAngleZ_"]%string.
Proof. split; reflexivity. Qed.

Lemma tie_smart_ctor x y z :
  src_smart_ctor ROps x y z =
  (Rx_of ROps (cos x) (sin x), Ry_of ROps (cos y) (sin y), Rz_of ROps (cos z) (sin z), sR (smart_init ROps x y z),
   dRx_of ROps (cos x) (sin x), dRy_of ROps (cos y) (sin y), dRz_of ROps (cos z) (sin z),
   sdX (smart_init ROps x y z), sdY (smart_init ROps x y z), sdZ (smart_init ROps x y z)).
Proof. norm12. dict. req12. Qed.

Lemma tie_smart_R x y z : src_smart_ctor_R ROps x y z = sR (smart_init ROps x y z).
Proof. unfold src_smart_ctor_R. rewrite tie_smart_ctor. reflexivity. Qed.
Lemma tie_smart_dRdX x y z : src_smart_ctor_dRdAngleX ROps x y z = sdX (smart_init ROps x y z).
Proof. unfold src_smart_ctor_dRdAngleX. rewrite tie_smart_ctor. reflexivity. Qed.
Lemma tie_smart_dRdY x y z : src_smart_ctor_dRdAngleY ROps x y z = sdY (smart_init ROps x y z).
Proof. unfold src_smart_ctor_dRdAngleY. rewrite tie_smart_ctor. reflexivity. Qed.
Lemma tie_smart_dRdZ x y z : src_smart_ctor_dRdAngleZ ROps x y z = sdZ (smart_init ROps x y z).
Proof. unfold src_smart_ctor_dRdAngleZ. rewrite tie_smart_ctor. reflexivity. Qed.

Lemma tie_smart_dRTdAngles (dx dy dz : mat3 R) (t : vec3 R) :
  src_smart_dRTdAngles_inputs = ["this.dRdAngleX_"; "this.dRdAngleY_"; "this.dRdAngleZ_"; "arg0"]%string /\
  src_smart_dRTdAngles ROps dx dy dz t = smart_dRTdAngles ROps (mkSmart (mid3 ROps) dx dy dz) t.
Proof. split; [reflexivity|]. destruct dx, dy, dz, t. norm12. dict. req12. Qed.

(* ---------------------------------------------------------------- Pose3D operator*(Affine3d, Pose3D) *)
Lemma tie_pose_signature :
  src_pose3d_mul_inputs = ["arg0.rotation()"; "arg0.translation()"; "arg1.covariance"; "arg1.orientation"; "arg1.position"]%string /\
  src_pose3d_mul_outputs = ["position"; "orientation"; "covariance"; "jacobian"; "euler_arg"]%string.
Proof. split; reflexivity. Qed.

(* S = smartRotation.R() becomes the model's matrix, then an abstract matrix *)
Ltac open_pose l ori :=
  unfold src_pose3d_mul_position, src_pose3d_mul_orientation, src_pose3d_mul_covariance, src_pose3d_mul_jacobian,
         src_pose3d_mul_euler_arg, src_pose3d_mul;
  rewrite ?tie_smart_R; unfold pose_J, pose_J_angular;
  generalize (sR (smart_init ROps (v0 ori) (v1 ori) (v2 ori))); intros [s00 s01 s02 s10 s11 s12 s20 s21 s22];
  destruct l as [l00 l01 l02 l10 l11 l12 l20 l21 l22]; destruct ori as [ox oy oz].

Lemma tie_pose_euler_arg l t c ori pos :
  src_pose3d_mul_euler_arg ROps l t c ori pos = mmul3 ROps l (sR (smart_init ROps (v0 ori) (v1 ori) (v2 ori))).
Proof. open_pose l ori. norm12. dict. req12. Qed.

Lemma tie_pose_position l t c ori pos :
  src_pose3d_mul_position ROps l t c ori pos = vadd3 ROps (mvmul3 ROps l pos) t.
Proof. open_pose l ori. destruct t, pos. norm12. dict. req12. Qed.

Lemma tie_pose_orientation l t c ori pos :
  src_pose3d_mul_orientation ROps l t c ori pos =
  (let m := src_pose3d_mul_euler_arg ROps l t c ori pos in
   let '(r, p, y) := src_rotation3DToEulerAngles ROps (m00 m) (m10 m) (m20 m) (m21 m) (m22 m) in mkV3 r p y).
Proof.
  unfold src_pose3d_mul_orientation, src_pose3d_mul_euler_arg, src_pose3d_mul.
  lazy beta zeta iota delta [m00 m01 m02 m10 m11 m12 m20 m21 m22 fst snd].
  match goal with |- context [src_rotation3DToEulerAngles ?n ?a ?b ?c ?d ?e] =>
    destruct (src_rotation3DToEulerAngles n a b c d e) as [[r p] y] end.
  reflexivity.
Qed.

Ltac entry12 := norm12; dict; lits12; scal12.

Lemma tie_pose_jacobian l t c ori pos i j : (i < 6)%nat -> (j < 6)%nat ->
  src_pose3d_mul_jacobian ROps l t c ori pos i j = pose_J ROps l ori i j.
Proof.
  intros Hi Hj. open_pose l ori.
  do 6 (destruct i as [|i]; [do 6 (destruct j as [|j]; [entry12|]); exfalso; lia|]). exfalso; lia.
Qed.

Lemma pose_cov_ext (j1 j2 c : nat -> nat -> R) : (forall a b, (a < 6)%nat -> (b < 6)%nat -> j1 a b = j2 a b) ->
  forall a b, (a < 6)%nat -> (b < 6)%nat -> pose_cov ROps j1 c a b = pose_cov ROps j2 c a b.
Proof.
  intros H a b Ha Hb. unfold pose_cov, gmul, gtrans. cbn [nsum]. rewrite !H by lia. reflexivity.
Qed.

(* the returned covariance is J*C*J^T for the generated J.  The 6x6 expression(s) are outlined by the translator as
   src_pose3d_mul_big<k>; the proof abstracts the (large) generated J and the covariance argument, computes whatever chain of
   outlined definitions the source uses (J * C * J^T in one statement, or through a 6x6 local, in either association) and
   closes each of the 36 entries by ring. *)
Lemma tie_pose_covariance_of_jacobian l t c ori pos i j : (i < 6)%nat -> (j < 6)%nat ->
  src_pose3d_mul_covariance ROps l t c ori pos i j = pose_cov ROps (src_pose3d_mul_jacobian ROps l t c ori pos) c i j.
Proof.
  intros Hi Hj. unfold src_pose3d_mul_covariance, src_pose3d_mul_jacobian, src_pose3d_mul.
  lazy beta zeta iota delta [fst snd].
  match goal with |- _ = pose_cov ROps ?J c i j => generalize J end. intros X. clear l t ori pos.
  do 6 (destruct i as [|i]; [do 6 (destruct j as [|j];
    [cbv - [Rplus Rmult Rminus Ropp Rinv Rdiv IZR]; ring|]); exfalso; lia|]). exfalso; lia.
Qed.

Lemma tie_pose_covariance l t c ori pos i j : (i < 6)%nat -> (j < 6)%nat ->
  src_pose3d_mul_covariance ROps l t c ori pos i j = pose_cov ROps (pose_J ROps l ori) c i j.
Proof.
  intros Hi Hj. rewrite tie_pose_covariance_of_jacobian by assumption.
  apply pose_cov_ext; [|assumption|assumption]. intros a b Ha Hb. apply tie_pose_jacobian; assumption.
Qed.

(* the mean of the model (position, Some angles) is the source's, wherever asin is defined *)
Lemma tie_pose_mean l t c ori pos :
  Rabs (m20 (mmul3 ROps l (sR (smart_init ROps (v0 ori) (v1 ori) (v2 ori))))) <= 1 ->
  pose_transform_mean ROps ROps idR idR l t pos ori =
  (src_pose3d_mul_position ROps l t c ori pos, Some (src_pose3d_mul_orientation ROps l t c ori pos)).
Proof.
  intros H. unfold pose_transform_mean. rewrite tie_pose_position, tie_pose_orientation, tie_pose_euler_arg.
  rewrite tie_rotation3DToEulerAngles; [reflexivity|].
  dict. unfold Rleb. destruct (Rle_dec _ _) as [_|n]; [reflexivity|exfalso; apply n; exact H].
Qed.

(* ---------------------------------------------------------------- the statements Properties_C12.v exports *)
Lemma source_tie_smart_rotation x y z :
  (src_smart_ctor_inputs = ["arg0"; "arg1"; "arg2"]%string /\
   src_smart_ctor_outputs = ["Rx_"; "Ry_"; "Rz_"; "R_"; "dRxdAngleX_"; "dRydAngleY_"; "dRzdAngleZ_";
                             "dRdAngleX_"; "dRdAngleY_"; "dRdAngleZ_"]%string) /\
  src_smart_ctor ROps x y z =
  (Rx_of ROps (cos x) (sin x), Ry_of ROps (cos y) (sin y), Rz_of ROps (cos z) (sin z), sR (smart_init ROps x y z),
   dRx_of ROps (cos x) (sin x), dRy_of ROps (cos y) (sin y), dRz_of ROps (cos z) (sin z),
   sdX (smart_init ROps x y z), sdY (smart_init ROps x y z), sdZ (smart_init ROps x y z)) /\
  mkSmart (src_smart_ctor_R ROps x y z) (src_smart_ctor_dRdAngleX ROps x y z)
          (src_smart_ctor_dRdAngleY ROps x y z) (src_smart_ctor_dRdAngleZ ROps x y z) = smart_init ROps x y z.
Proof.
  split; [exact tie_smart_signature|split; [exact (tie_smart_ctor x y z)|]].
  rewrite tie_smart_R, tie_smart_dRdX, tie_smart_dRdY, tie_smart_dRdZ. reflexivity.
Qed.

Lemma source_tie_pose_jacobian l t c ori pos :
  (src_pose3d_mul_inputs = ["arg0.rotation()"; "arg0.translation()"; "arg1.covariance"; "arg1.orientation"; "arg1.position"]%string /\
   src_pose3d_mul_outputs = ["position"; "orientation"; "covariance"; "jacobian"; "euler_arg"]%string) /\
  (forall i j, (i < 6)%nat -> (j < 6)%nat -> src_pose3d_mul_jacobian ROps l t c ori pos i j = pose_J ROps l ori i j) /\
  src_pose3d_mul_position ROps l t c ori pos = vadd3 ROps (mvmul3 ROps l pos) t /\
  src_pose3d_mul_euler_arg ROps l t c ori pos = mmul3 ROps l (sR (smart_init ROps (v0 ori) (v1 ori) (v2 ori))) /\
  src_pose3d_mul_orientation ROps l t c ori pos =
    (let m := src_pose3d_mul_euler_arg ROps l t c ori pos in
     let '(r, p, y) := src_rotation3DToEulerAngles ROps (m00 m) (m10 m) (m20 m) (m21 m) (m22 m) in mkV3 r p y) /\
  (forall i j, (i < 6)%nat -> (j < 6)%nat ->
     src_pose3d_mul_covariance ROps l t c ori pos i j = pose_cov ROps (pose_J ROps l ori) c i j) /\
  (forall i j, (i < 6)%nat -> (j < 6)%nat ->
     src_pose3d_mul_covariance ROps l t c ori pos i j = pose_cov ROps (src_pose3d_mul_jacobian ROps l t c ori pos) c i j).
Proof.
  split; [exact tie_pose_signature|]. split; [intros i j; apply tie_pose_jacobian|].
  split; [apply tie_pose_position|]. split; [apply tie_pose_euler_arg|]. split; [apply tie_pose_orientation|].
  split; [intros i j; apply tie_pose_covariance|].
  intros i j. apply tie_pose_covariance_of_jacobian.
Qed.
