(* SrcTieC13.v — the SYNTACTIC source tie of C13.  gen/SrcGridMap.v is regenerated on every run by
   translate/tr_C13_gridmap.py from the clang AST of the instantiations GridIndexMapping<float|double, 2|3> of
   src/containers/grid/GridIndexMapping.cpp (symbolic execution: Eigen array expressions are read axis by axis, the
   per-axis loop is unrolled, the cell-centre loop becomes the table (size, fun n => centre n)).  Here the generated terms
   are proved equal to the functions of GridMapModel.v — gm_origin, gm_ncells, gm_centre, gm_index, gm_sym_lo — for EVERY
   numeric dictionary N that reads the literals 0, 1, 0.5 as the model's constants ([LitOK N], SrcEigen.v).  LitOK holds
   at ROps (GridMapProofs.v is about [gm_* ROps]) and at the rounded dictionaries B64Ops / B32Ops (GridMapFloat.v is about
   [gm_* B64Ops], [gm_* B32Ops]): the same generated term, instantiated, is the object of both developments.
   Proofs by computation only: same operations, same order. *)
From Coq Require Import Reals ZArith List Lia Lra.
From Flocq Require Import Core.
From Romea Require Import Num NumR GridMapModel GridMapFloat SrcEigen.
From Romea.gen Require Import SrcGridMap.
Import ListNotations.

Section Tie.
Context {T : Type} (N : NumOps T) (L : LitOK N).

(* one axis of the constructed grid: (numberOfCells, table of centres) *)
Definition model_table (r lo hi : T) : Z * (Z -> T) := (gm_ncells N r lo hi, gm_centre N r (gm_origin N r lo)).

(* the interval constructor.  Outputs: (cellCentersPositionAlongAxes_, cellResolution_, flooredMinimalPositionAlongAxes_,
   numberOfCellsAlongAxes_); free variables: cellResolution, lower (per axis), upper (per axis) *)
Lemma tie_ctor_2 r lo0 lo1 hi0 hi1 :
  src_gm_ctor_2 N r lo0 lo1 hi0 hi1
  = ([model_table r lo0 hi0; model_table r lo1 hi1], r,
     [gm_origin N r lo0; gm_origin N r lo1], [gm_ncells N r lo0 hi0; gm_ncells N r lo1 hi1]).
Proof.
  unfold src_gm_ctor_2, model_table, gm_ncells, gm_origin, gm_centre. cbv zeta.
  rewrite (lit_half N L), (lit_one N L). reflexivity.
Qed.

Lemma tie_ctor_3 r lo0 lo1 lo2 hi0 hi1 hi2 :
  src_gm_ctor_3 N r lo0 lo1 lo2 hi0 hi1 hi2
  = ([model_table r lo0 hi0; model_table r lo1 hi1; model_table r lo2 hi2], r,
     [gm_origin N r lo0; gm_origin N r lo1; gm_origin N r lo2],
     [gm_ncells N r lo0 hi0; gm_ncells N r lo1 hi1; gm_ncells N r lo2 hi2]).
Proof.
  unfold src_gm_ctor_3, model_table, gm_ncells, gm_origin, gm_centre. cbv zeta.
  rewrite (lit_half N L), (lit_one N L). reflexivity.
Qed.

(* the (maximalRange, cellResolution) constructor IS the interval constructor on [-maximalRange, maximalRange]^DIM *)
Lemma tie_symctor_2 R r : src_gm_symctor_2 N R r = src_gm_ctor_2 N r (gm_sym_lo N R) (gm_sym_lo N R) R R.
Proof. reflexivity. Qed.

Lemma tie_symctor_3 R r :
  src_gm_symctor_3 N R r = src_gm_ctor_3 N r (gm_sym_lo N R) (gm_sym_lo N R) (gm_sym_lo N R) R R R.
Proof. reflexivity. Qed.

(* computeCellIndexes: free variables point (per axis), cellResolution_, flooredMinimalPositionAlongAxes_ (per axis) *)
Lemma tie_index_2 r org0 org1 p0 p1 : src_gm_index_2 N p0 p1 r org0 org1 = [gm_index N r org0 p0; gm_index N r org1 p1].
Proof. reflexivity. Qed.

Lemma tie_index_3 r org0 org1 org2 p0 p1 p2 :
  src_gm_index_3 N p0 p1 p2 r org0 org1 org2 = [gm_index N r org0 p0; gm_index N r org1 p1; gm_index N r org2 p2].
Proof. reflexivity. Qed.

(* computeCellCenterPosition reads the table; on the table the constructor built it returns gm_centre *)
Lemma tie_centre_2 (tab0 tab1 : Z -> T) k0 k1 : src_gm_centre_2 k0 k1 tab0 tab1 = [tab0 k0; tab1 k1].
Proof. reflexivity. Qed.

Lemma tie_centre_3 (tab0 tab1 tab2 : Z -> T) k0 k1 k2 : src_gm_centre_3 k0 k1 k2 tab0 tab1 tab2 = [tab0 k0; tab1 k1; tab2 k2].
Proof. reflexivity. Qed.

Definition tables_of (out : list (Z * (Z -> T)) * T * list T * list Z) : list (Z * (Z -> T)) := fst (fst (fst out)).

Lemma tie_ctor_centre_2 r lo0 lo1 hi0 hi1 k0 k1 :
  let tabs := tables_of (src_gm_ctor_2 N r lo0 lo1 hi0 hi1) in
  src_gm_centre_2 k0 k1 (snd (nth 0 tabs (0%Z, fun _ => nzero N))) (snd (nth 1 tabs (0%Z, fun _ => nzero N)))
  = [gm_centre N r (gm_origin N r lo0) k0; gm_centre N r (gm_origin N r lo1) k1].
Proof. cbv zeta. rewrite tie_ctor_2. reflexivity. Qed.

Lemma tie_ctor_centre_3 r lo0 lo1 lo2 hi0 hi1 hi2 k0 k1 k2 :
  let tabs := tables_of (src_gm_ctor_3 N r lo0 lo1 lo2 hi0 hi1 hi2) in
  src_gm_centre_3 k0 k1 k2 (snd (nth 0 tabs (0%Z, fun _ => nzero N))) (snd (nth 1 tabs (0%Z, fun _ => nzero N)))
                  (snd (nth 2 tabs (0%Z, fun _ => nzero N)))
  = [gm_centre N r (gm_origin N r lo0) k0; gm_centre N r (gm_origin N r lo1) k1; gm_centre N r (gm_origin N r lo2) k2].
Proof. cbv zeta. rewrite tie_ctor_3. reflexivity. Qed.

End Tie.

(* ---------------------------------------------------------------- the dictionaries the C13 theorems use read the literals
   as the model does *)
Lemma LitOK_Fl prec emin (P : Prec_gt_0 prec) : (2 <= prec)%Z -> (emin <= -1)%Z -> LitOK (FlOps prec emin).
Proof.
  intros Hp He.
  assert (H4 : (4 <= 2 ^ prec)%Z) by (apply (pow_prec_ge prec 2); lia).
  split.
  - cbn [nofZ nzero FlOps]. unfold frnd. apply round_0. auto with typeclass_instances.
  - cbn [nofZ n_one FlOps]. apply (rnd_id prec emin (IZR 1)). apply fmt_int; lia.
  - rewrite (nhalf_fl prec emin Hp He). cbn [nofDec FlOps].
    replace (IZR 5 * powerRZ 10 (-1))%R with (IZR 0 + 1 / 2)%R by (simpl; lra).
    rewrite rnd_id by (apply fmt_int_half; lia). simpl. lra.
Qed.

Lemma LitOK_B64 : LitOK B64Ops.
Proof. unfold B64Ops. apply LitOK_Fl; [now unfold Prec_gt_0 | lia | lia]. Qed.

Lemma LitOK_B32 : LitOK B32Ops.
Proof. unfold B32Ops. apply LitOK_Fl; [now unfold Prec_gt_0 | lia | lia]. Qed.

(* ---------------------------------------------------------------- the in-bounds theorems, restated ON THE GENERATED TERMS:
   build the grid with the generated constructor, map a point of the extent with the generated computeCellIndexes fed with
   the constructor's outputs: every index is in [0, numberOfCells) — in binary64, binary32 (Flocq) and over the reals. *)
Definition in_bounds (idx ns : list Z) : Prop := Forall2 (fun i n => (0 <= i < n)%Z) idx ns.

Lemma src_index_in_bounds_2_b64 r lo0 lo1 hi0 hi1 p0 p1 :
  gmf_domain r lo0 hi0 -> gmf_domain r lo1 hi1 -> (lo0 <= p0 <= hi0)%R -> (lo1 <= p1 <= hi1)%R ->
  let '(tabs, res, orgs, ns) := src_gm_ctor_2 B64Ops r lo0 lo1 hi0 hi1 in
  in_bounds (src_gm_index_2 B64Ops p0 p1 res (nth 0 orgs 0%R) (nth 1 orgs 0%R)) ns.
Proof.
  intros D0 D1 P0 P1. rewrite (tie_ctor_2 B64Ops LitOK_B64). cbn [nth]. rewrite tie_index_2.
  unfold in_bounds. repeat apply Forall2_cons; [exact (index_in_bounds_b64 r lo0 hi0 D0 p0 P0) | exact (index_in_bounds_b64 r lo1 hi1 D1 p1 P1) | apply Forall2_nil].
Qed.

Lemma src_index_in_bounds_3_b64 r lo0 lo1 lo2 hi0 hi1 hi2 p0 p1 p2 :
  gmf_domain r lo0 hi0 -> gmf_domain r lo1 hi1 -> gmf_domain r lo2 hi2 ->
  (lo0 <= p0 <= hi0)%R -> (lo1 <= p1 <= hi1)%R -> (lo2 <= p2 <= hi2)%R ->
  let '(tabs, res, orgs, ns) := src_gm_ctor_3 B64Ops r lo0 lo1 lo2 hi0 hi1 hi2 in
  in_bounds (src_gm_index_3 B64Ops p0 p1 p2 res (nth 0 orgs 0%R) (nth 1 orgs 0%R) (nth 2 orgs 0%R)) ns.
Proof.
  intros D0 D1 D2 P0 P1 P2. rewrite (tie_ctor_3 B64Ops LitOK_B64). cbn [nth]. rewrite tie_index_3.
  unfold in_bounds. repeat apply Forall2_cons; [exact (index_in_bounds_b64 r lo0 hi0 D0 p0 P0) | exact (index_in_bounds_b64 r lo1 hi1 D1 p1 P1)
                      | exact (index_in_bounds_b64 r lo2 hi2 D2 p2 P2) | apply Forall2_nil].
Qed.

Lemma src_index_in_bounds_2_b32 r lo0 lo1 hi0 hi1 p0 p1 :
  gmf_domain32 r lo0 hi0 -> gmf_domain32 r lo1 hi1 -> (lo0 <= p0 <= hi0)%R -> (lo1 <= p1 <= hi1)%R ->
  let '(tabs, res, orgs, ns) := src_gm_ctor_2 B32Ops r lo0 lo1 hi0 hi1 in
  in_bounds (src_gm_index_2 B32Ops p0 p1 res (nth 0 orgs 0%R) (nth 1 orgs 0%R)) ns.
Proof.
  intros D0 D1 P0 P1. rewrite (tie_ctor_2 B32Ops LitOK_B32). cbn [nth]. rewrite tie_index_2.
  unfold in_bounds. repeat apply Forall2_cons; [exact (index_in_bounds_b32 r lo0 hi0 D0 p0 P0) | exact (index_in_bounds_b32 r lo1 hi1 D1 p1 P1) | apply Forall2_nil].
Qed.

Lemma src_index_in_bounds_3_b32 r lo0 lo1 lo2 hi0 hi1 hi2 p0 p1 p2 :
  gmf_domain32 r lo0 hi0 -> gmf_domain32 r lo1 hi1 -> gmf_domain32 r lo2 hi2 ->
  (lo0 <= p0 <= hi0)%R -> (lo1 <= p1 <= hi1)%R -> (lo2 <= p2 <= hi2)%R ->
  let '(tabs, res, orgs, ns) := src_gm_ctor_3 B32Ops r lo0 lo1 lo2 hi0 hi1 hi2 in
  in_bounds (src_gm_index_3 B32Ops p0 p1 p2 res (nth 0 orgs 0%R) (nth 1 orgs 0%R) (nth 2 orgs 0%R)) ns.
Proof.
  intros D0 D1 D2 P0 P1 P2. rewrite (tie_ctor_3 B32Ops LitOK_B32). cbn [nth]. rewrite tie_index_3.
  unfold in_bounds. repeat apply Forall2_cons; [exact (index_in_bounds_b32 r lo0 hi0 D0 p0 P0) | exact (index_in_bounds_b32 r lo1 hi1 D1 p1 P1)
                      | exact (index_in_bounds_b32 r lo2 hi2 D2 p2 P2) | apply Forall2_nil].
Qed.
