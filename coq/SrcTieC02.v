(* SrcTieC02.v — ENUConverter::setAnchor: the 3x3 block written column by column (gen/SrcFunsC02.v) equals the model's
   frame (rows of the generated tuple are rows of the matrix).  The only representational difference is the literal 0.0
   in the east column. *)
From Coq Require Import Reals ZArith Lra.
From Romea Require Import Num NumR EnuModel SrcTie.
From Romea.gen Require Import SrcFunsC02.
Local Open Scope R_scope.

Lemma tie_enuFrame lat lon :
  src_enuFrame ROps lat lon =
  (let m := frame_rotation ROps lat lon in
   (m00 m, m01 m, m02 m, m10 m, m11 m, m12 m, m20 m, m21 m, m22 m)).
Proof.
  unfold src_enuFrame, frame_rotation. cbv zeta. cbn [m00 m01 m02 m10 m11 m12 m20 m21 m22]. dict.
  rewrite dec_0_0. req.
Qed.
