(* DerivProofs.v — C12, rotation part: the true derivatives of Rz*Ry*Rx (Coquelicot), and what the
   faithful model of SmartRotation3D's derivative members is instead. *)
From Coq Require Import Reals ZArith Lra Lia Psatz Nsatz.
From Coquelicot Require Import Coquelicot.
From Romea Require Import Num NumR AnglesModel AnglesProofs.
Local Open Scope R_scope.

(* derivatives of the elementary rotations: no identity entry left behind *)
Definition dRX (x : R) : mat3 R := mkM3 0 0 0  0 (- sin x) (- cos x)  0 (cos x) (- sin x).
Definition dRY (y : R) : mat3 R := mkM3 (- sin y) 0 (cos y)  0 0 0  (- cos y) 0 (- sin y).
Definition dRZ (z : R) : mat3 R := mkM3 (- sin z) (- cos z) 0  (cos z) (- sin z) 0  0 0 0.

Definition dRdX_true (x y z : R) : mat3 R := mmul3 ROps (mmul3 ROps (RZ z) (RY y)) (dRX x).
Definition dRdY_true (x y z : R) : mat3 R := mmul3 ROps (mmul3 ROps (RZ z) (dRY y)) (RX x).
Definition dRdZ_true (x y z : R) : mat3 R := mmul3 ROps (mmul3 ROps (dRZ z) (RY y)) (RX x).

(* single-entry matrices *)
Definition E00 : mat3 R := mkM3 1 0 0  0 0 0  0 0 0.
Definition E11 : mat3 R := mkM3 0 0 0  0 1 0  0 0 0.
Definition E22 : mat3 R := mkM3 0 0 0  0 0 0  0 0 1.
Definition extraX (x y z : R) : mat3 R := mmul3 ROps (mmul3 ROps (RZ z) (RY y)) E00.
Definition extraY (x y z : R) : mat3 R := mmul3 ROps (mmul3 ROps (RZ z) E11) (RX x).
Definition extraZ (x y z : R) : mat3 R := mmul3 ROps (mmul3 ROps E22 (RY y)) (RX x).

Ltac unfold_rot := unfold rot_zyx, dRdX_true, dRdY_true, dRdZ_true, extraX, extraY, extraZ, RX, RY, RZ, dRX, dRY, dRZ,
  E00, E11, E22, mmul3, madd3, mvmul3, Rx_of, Ry_of, Rz_of, dRx_of, dRy_of, dRz_of; rcbn.

Ltac entry_cases i j :=
  destruct i as [|[|i]]; destruct j as [|[|j]]; cbn [mget3 m00 m01 m02 m10 m11 m12 m20 m21 m22].

(* --- dR_true: entry-wise derivatives of the reported rotation matrix in each angle --- *)
Lemma dR_true_x x y z i j :
  is_derive (fun t => mget3 (rot_zyx t y z) i j) x (mget3 (dRdX_true x y z) i j).
Proof. entry_cases i j; unfold_rot; auto_derive; trivial; ring. Qed.
Lemma dR_true_y x y z i j :
  is_derive (fun t => mget3 (rot_zyx x t z) i j) y (mget3 (dRdY_true x y z) i j).
Proof. entry_cases i j; unfold_rot; auto_derive; trivial; ring. Qed.
Lemma dR_true_z x y z i j :
  is_derive (fun t => mget3 (rot_zyx x y t) i j) z (mget3 (dRdZ_true x y z) i j).
Proof. entry_cases i j; unfold_rot; auto_derive; trivial; ring. Qed.

(* --- the derivative of a rotated vector is that matrix times the vector --- *)
Ltac vec_cases i := destruct i as [|[|i]]; cbn [vget3 v0 v1 v2].
Lemma dRT_true_x x y z (t : vec3 R) i :
  is_derive (fun a => vget3 (mvmul3 ROps (rot_zyx a y z) t) i) x (vget3 (mvmul3 ROps (dRdX_true x y z) t) i).
Proof. destruct t as [t0 t1 t2]. vec_cases i; unfold_rot; auto_derive; trivial; ring. Qed.
Lemma dRT_true_y x y z (t : vec3 R) i :
  is_derive (fun a => vget3 (mvmul3 ROps (rot_zyx x a z) t) i) y (vget3 (mvmul3 ROps (dRdY_true x y z) t) i).
Proof. destruct t as [t0 t1 t2]. vec_cases i; unfold_rot; auto_derive; trivial; ring. Qed.
Lemma dRT_true_z x y z (t : vec3 R) i :
  is_derive (fun a => vget3 (mvmul3 ROps (rot_zyx x y a) t) i) z (vget3 (mvmul3 ROps (dRdZ_true x y z) t) i).
Proof. destruct t as [t0 t1 t2]. vec_cases i; unfold_rot; auto_derive; trivial; ring. Qed.

(* --- characterisation of the model of the code: true derivative + the identity entry left behind --- *)
Lemma dRdX_model_char x y z :
  sdX (smart_init ROps x y z) = madd3 ROps (dRdX_true x y z) (extraX x y z) /\
  sdY (smart_init ROps x y z) = madd3 ROps (dRdY_true x y z) (extraY x y z) /\
  sdZ (smart_init ROps x y z) = madd3 ROps (dRdZ_true x y z) (extraZ x y z).
Proof. unfold smart_init. cbn [sdX sdY sdZ]. repeat split; unfold_rot; f_equal; ring. Qed.

(* the extra terms: a column of Rz*Ry, an outer product, a row of Ry*Rx *)
Lemma extra_entries x y z :
  extraX x y z = mkM3 (cos z * cos y) 0 0  (sin z * cos y) 0 0  (- sin y) 0 0 /\
  extraY x y z = mkM3 0 (- sin z * cos x) (sin z * sin x)  0 (cos z * cos x) (- (cos z * sin x))  0 0 0 /\
  extraZ x y z = mkM3 0 0 0  0 0 0  (- sin y) (cos y * sin x) (cos y * cos x).
Proof. repeat split; unfold_rot; f_equal; ring. Qed.

Lemma mat3_eq_entries (a b : mat3 R) : a = b ->
  m00 a = m00 b /\ m01 a = m01 b /\ m02 a = m02 b /\ m10 a = m10 b /\ m11 a = m11 b /\ m12 a = m12 b /\
  m20 a = m20 b /\ m21 a = m21 b /\ m22 a = m22 b.
Proof. intros ->. repeat split. Qed.

(* --- refutation: the extra term is never the zero matrix, so the members are never the derivatives --- *)
Lemma extra_never_zero x y z :
  extraX x y z <> mzero3 ROps /\ extraY x y z <> mzero3 ROps /\ extraZ x y z <> mzero3 ROps.
Proof.
  destruct (extra_entries x y z) as [EX [EY EZ]]. rewrite EX, EY, EZ. unfold mzero3. rcbn.
  pose proof (sc1 x) as Hx. pose proof (sc1 y) as Hy. pose proof (sc1 z) as Hz.
  repeat split; intros H; apply mat3_eq_entries in H; cbn [m00 m01 m02 m10 m11 m12 m20 m21 m22] in H;
    decompose [and] H; clear H.
  - assert (sin y = 0) by lra. assert (cos y * cos y = 1) by nra.
    assert ((cos z * cos y) * (cos z * cos y) + (sin z * cos y) * (sin z * cos y) = 1) by nra. nra.
  - assert ((sin z * cos x) * (sin z * cos x) + (sin z * sin x) * (sin z * sin x)
            + (cos z * cos x) * (cos z * cos x) + (cos z * sin x) * (cos z * sin x) = 1) by nra.
    assert (sin z * cos x = 0) by lra. assert (cos z * sin x = 0) by lra. nra.
  - assert (sin y = 0) by lra. assert (cos y * cos y = 1) by nra.
    assert ((cos y * sin x) * (cos y * sin x) + (cos y * cos x) * (cos y * cos x) = 1) by nra. nra.
Qed.

Lemma madd3_cancel (a e : mat3 R) : madd3 ROps a e = a -> e = mzero3 ROps.
Proof.
  destruct a as [a0 a1 a2 a3 a4 a5 a6 a7 a8], e as [e0 e1 e2 e3 e4 e5 e6 e7 e8]. unfold madd3, mzero3. rcbn. intros H. apply mat3_eq_entries in H.
  cbn [m00 m01 m02 m10 m11 m12 m20 m21 m22] in H. decompose [and] H. f_equal; lra.
Qed.

Lemma dRdX_never_derivative x y z :
  sdX (smart_init ROps x y z) <> dRdX_true x y z /\
  sdY (smart_init ROps x y z) <> dRdY_true x y z /\
  sdZ (smart_init ROps x y z) <> dRdZ_true x y z.
Proof.
  destruct (dRdX_model_char x y z) as [CX [CY CZ]]. destruct (extra_never_zero x y z) as [NX [NY NZ]].
  rewrite CX, CY, CZ. repeat split; intros H; apply madd3_cancel in H; contradiction.
Qed.

(* --- dRTdAngles: columns (true_k + extra_k) * T --- *)
Lemma dRT_model_char x y z (t : vec3 R) :
  smart_dRTdAngles ROps (smart_init ROps x y z) t =
  mcols3 (vadd3 ROps (mvmul3 ROps (dRdX_true x y z) t) (mvmul3 ROps (extraX x y z) t))
         (vadd3 ROps (mvmul3 ROps (dRdY_true x y z) t) (mvmul3 ROps (extraY x y z) t))
         (vadd3 ROps (mvmul3 ROps (dRdZ_true x y z) t) (mvmul3 ROps (extraZ x y z) t)).
Proof.
  destruct t as [t0 t1 t2]. unfold smart_dRTdAngles, smart_init, mcols3, vadd3. cbn [sdX sdY sdZ v0 v1 v2].
  unfold_rot. f_equal; ring.
Qed.
