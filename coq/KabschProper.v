(* KabschProper.v — C04: least-squares optimality among PROPER rotations (d = 2, 3), and uniqueness of the rotation on
   exact data of rank >= d-1.  Lemmas only; the model is KabschModel.v, the trace argument is in KabschProofs.v.

   Orthogonal matrices are given on the function view (nat -> nat -> R) with orthonormal columns ([is_orth d M]).
   The facts about 3x3 / 2x2 orthogonal matrices are proved on plain real variables first (ring identities + lra). *)
From Coq Require Import Reals List Arith Lia Lra Bool Psatz.
From Romea Require Import Num NumR LinAlgBModel LinAlgBProofs LsProofs KabschModel KabschProofs.
Import ListNotations.
Local Open Scope R_scope.

Local Notation mg := (mget ROps).

(* =============================== 3x3: scalar facts =============================== *)
Section Orth3.
Variables m00 m01 m02 m10 m11 m12 m20 m21 m22 D : R.
Hypothesis H00 : m00 * m00 + m10 * m10 + m20 * m20 = 1.
Hypothesis H11 : m01 * m01 + m11 * m11 + m21 * m21 = 1.
Hypothesis H22 : m02 * m02 + m12 * m12 + m22 * m22 = 1.
Hypothesis H01 : m00 * m01 + m10 * m11 + m20 * m21 = 0.
Hypothesis H02 : m00 * m02 + m10 * m12 + m20 * m22 = 0.
Hypothesis H12 : m01 * m02 + m11 * m12 + m21 * m22 = 0.
Hypothesis HD : m00 * (m11 * m22 - m12 * m21) - m01 * (m10 * m22 - m12 * m20) + m02 * (m10 * m21 - m11 * m20) = D.

(* the cofactor matrix of an orthogonal matrix is det * the matrix:
   cof_ik = sum_j (M^T M)_kj cof_ij = sum_l m_lk (sum_j m_lj cof_ij) = m_ik det *)
Lemma cof00 : m11 * m22 - m12 * m21 = D * m00.
Proof.
  assert (E : (m00 * m00 + m10 * m10 + m20 * m20) * (m11 * m22 - m12 * m21)
            + (m00 * m01 + m10 * m11 + m20 * m21) * (m12 * m20 - m10 * m22)
            + (m00 * m02 + m10 * m12 + m20 * m22) * (m10 * m21 - m11 * m20)
            = m00 * (m00 * (m11 * m22 - m12 * m21) - m01 * (m10 * m22 - m12 * m20) + m02 * (m10 * m21 - m11 * m20))) by ring.
  rewrite H00, H01, H02, HD in E. lra.
Qed.
Lemma cof01 : m12 * m20 - m10 * m22 = D * m01.
Proof.
  assert (E : (m00 * m01 + m10 * m11 + m20 * m21) * (m11 * m22 - m12 * m21)
            + (m01 * m01 + m11 * m11 + m21 * m21) * (m12 * m20 - m10 * m22)
            + (m01 * m02 + m11 * m12 + m21 * m22) * (m10 * m21 - m11 * m20)
            = m01 * (m00 * (m11 * m22 - m12 * m21) - m01 * (m10 * m22 - m12 * m20) + m02 * (m10 * m21 - m11 * m20))) by ring.
  rewrite H11, H01, H12, HD in E. lra.
Qed.
Lemma cof02 : m10 * m21 - m11 * m20 = D * m02.
Proof.
  assert (E : (m00 * m02 + m10 * m12 + m20 * m22) * (m11 * m22 - m12 * m21)
            + (m01 * m02 + m11 * m12 + m21 * m22) * (m12 * m20 - m10 * m22)
            + (m02 * m02 + m12 * m12 + m22 * m22) * (m10 * m21 - m11 * m20)
            = m02 * (m00 * (m11 * m22 - m12 * m21) - m01 * (m10 * m22 - m12 * m20) + m02 * (m10 * m21 - m11 * m20))) by ring.
  rewrite H22, H02, H12, HD in E. lra.
Qed.
Lemma cof10 : m02 * m21 - m01 * m22 = D * m10.
Proof.
  assert (E : (m00 * m00 + m10 * m10 + m20 * m20) * (m02 * m21 - m01 * m22)
            + (m00 * m01 + m10 * m11 + m20 * m21) * (m00 * m22 - m02 * m20)
            + (m00 * m02 + m10 * m12 + m20 * m22) * (m01 * m20 - m00 * m21)
            = m10 * (m00 * (m11 * m22 - m12 * m21) - m01 * (m10 * m22 - m12 * m20) + m02 * (m10 * m21 - m11 * m20))) by ring.
  rewrite H00, H01, H02, HD in E. lra.
Qed.
Lemma cof11 : m00 * m22 - m02 * m20 = D * m11.
Proof.
  assert (E : (m00 * m01 + m10 * m11 + m20 * m21) * (m02 * m21 - m01 * m22)
            + (m01 * m01 + m11 * m11 + m21 * m21) * (m00 * m22 - m02 * m20)
            + (m01 * m02 + m11 * m12 + m21 * m22) * (m01 * m20 - m00 * m21)
            = m11 * (m00 * (m11 * m22 - m12 * m21) - m01 * (m10 * m22 - m12 * m20) + m02 * (m10 * m21 - m11 * m20))) by ring.
  rewrite H11, H01, H12, HD in E. lra.
Qed.
Lemma cof12 : m01 * m20 - m00 * m21 = D * m12.
Proof.
  assert (E : (m00 * m02 + m10 * m12 + m20 * m22) * (m02 * m21 - m01 * m22)
            + (m01 * m02 + m11 * m12 + m21 * m22) * (m00 * m22 - m02 * m20)
            + (m02 * m02 + m12 * m12 + m22 * m22) * (m01 * m20 - m00 * m21)
            = m12 * (m00 * (m11 * m22 - m12 * m21) - m01 * (m10 * m22 - m12 * m20) + m02 * (m10 * m21 - m11 * m20))) by ring.
  rewrite H22, H02, H12, HD in E. lra.
Qed.
Lemma cof20 : m01 * m12 - m02 * m11 = D * m20.
Proof.
  assert (E : (m00 * m00 + m10 * m10 + m20 * m20) * (m01 * m12 - m02 * m11)
            + (m00 * m01 + m10 * m11 + m20 * m21) * (m02 * m10 - m00 * m12)
            + (m00 * m02 + m10 * m12 + m20 * m22) * (m00 * m11 - m01 * m10)
            = m20 * (m00 * (m11 * m22 - m12 * m21) - m01 * (m10 * m22 - m12 * m20) + m02 * (m10 * m21 - m11 * m20))) by ring.
  rewrite H00, H01, H02, HD in E. lra.
Qed.
Lemma cof21 : m02 * m10 - m00 * m12 = D * m21.
Proof.
  assert (E : (m00 * m01 + m10 * m11 + m20 * m21) * (m01 * m12 - m02 * m11)
            + (m01 * m01 + m11 * m11 + m21 * m21) * (m02 * m10 - m00 * m12)
            + (m01 * m02 + m11 * m12 + m21 * m22) * (m00 * m11 - m01 * m10)
            = m21 * (m00 * (m11 * m22 - m12 * m21) - m01 * (m10 * m22 - m12 * m20) + m02 * (m10 * m21 - m11 * m20))) by ring.
  rewrite H11, H01, H12, HD in E. lra.
Qed.
Lemma cof22 : m00 * m11 - m01 * m10 = D * m22.
Proof.
  assert (E : (m00 * m02 + m10 * m12 + m20 * m22) * (m01 * m12 - m02 * m11)
            + (m01 * m02 + m11 * m12 + m21 * m22) * (m02 * m10 - m00 * m12)
            + (m02 * m02 + m12 * m12 + m22 * m22) * (m00 * m11 - m01 * m10)
            = m22 * (m00 * (m11 * m22 - m12 * m21) - m01 * (m10 * m22 - m12 * m20) + m02 * (m10 * m21 - m11 * m20))) by ring.
  rewrite H22, H02, H12, HD in E. lra.
Qed.

Lemma diag_le_1 : m00 <= 1 /\ m11 <= 1 /\ m22 <= 1 /\ -1 <= m00 /\ -1 <= m11 /\ -1 <= m22.
Proof. repeat split; nra. Qed.

(* (m21 - m12)^2 + (m02 - m20)^2 + (m10 - m01)^2 = 3 - tr^2 + 2 D tr *)
Lemma axis_identity :
  (m21 - m12) * (m21 - m12) + (m02 - m20) * (m02 - m20) + (m10 - m01) * (m10 - m01)
  = 3 - (m00 + m11 + m22) * (m00 + m11 + m22) + 2 * D * (m00 + m11 + m22).
Proof.
  pose proof cof00 as C0. pose proof cof11 as C1. pose proof cof22 as C2.
  assert (E : (m21 - m12) * (m21 - m12) + (m02 - m20) * (m02 - m20) + (m10 - m01) * (m10 - m01)
            = (m00 * m00 + m10 * m10 + m20 * m20) + (m01 * m01 + m11 * m11 + m21 * m21) + (m02 * m02 + m12 * m12 + m22 * m22)
              - (m00 + m11 + m22) * (m00 + m11 + m22)
              + 2 * ((m11 * m22 - m12 * m21) + (m00 * m22 - m02 * m20) + (m00 * m11 - m01 * m10))) by ring.
  rewrite E, H00, H11, H22, C0, C1, C2. ring.
Qed.

(* an improper orthogonal 3x3 matrix has trace <= 1 (it is minus a rotation, and a rotation has trace >= -1) *)
Lemma improper_trace_le_1 : D = -1 -> m00 + m11 + m22 <= 1.
Proof.
  intros HDm. pose proof axis_identity as A. pose proof diag_le_1 as (a & b & c & a' & b' & c').
  set (t := m00 + m11 + m22) in *.
  assert (P : 0 <= (m21 - m12) * (m21 - m12) + (m02 - m20) * (m02 - m20) + (m10 - m01) * (m10 - m01))
    by (repeat apply Rplus_le_le_0_compat; apply Rle_0_sqr).
  rewrite A, HDm in P.
  destruct (Rle_dec t 1) as [Hle|Hgt]; [exact Hle|exfalso].
  assert (0 < (3 + t) * (t - 1)) by (apply Rmult_lt_0_compat; lra). nra.
Qed.

(* a proper rotation has trace >= -1 *)
Lemma proper_trace_ge_m1 : D = 1 -> -1 <= m00 + m11 + m22.
Proof.
  intros HDp. pose proof axis_identity as A. pose proof diag_le_1 as (a & b & c & a' & b' & c').
  set (t := m00 + m11 + m22) in *.
  assert (P : 0 <= (m21 - m12) * (m21 - m12) + (m02 - m20) * (m02 - m20) + (m10 - m01) * (m10 - m01))
    by (repeat apply Rplus_le_le_0_compat; apply Rle_0_sqr).
  rewrite A, HDp in P.
  destruct (Rle_dec (-1) t) as [Hle|Hgt]; [exact Hle|exfalso].
  assert (0 < (3 - t) * (-1 - t)) by (apply Rmult_lt_0_compat; lra). nra.
Qed.

(* weighted diagonal of an improper orthogonal matrix: sum s_i m_ii <= s0 + s1 - s2 for s0 >= s1 >= s2 >= 0 *)
Lemma improper_weighted_diag s0 s1 s2 : D = -1 -> s2 <= s1 -> s1 <= s0 -> 0 <= s2 ->
  s0 * m00 + s1 * m11 + s2 * m22 <= s0 + s1 - s2.
Proof.
  intros HDm h21 h10 h2. pose proof (improper_trace_le_1 HDm) as Ht. pose proof diag_le_1 as (a & b & _).
  assert (E : s0 * m00 + s1 * m11 + s2 * m22 = s2 * (m00 + m11 + m22) + (s0 - s2) * m00 + (s1 - s2) * m11) by ring.
  rewrite E.
  assert (s2 * (m00 + m11 + m22) <= s2 * 1) by (apply Rmult_le_compat_l; lra).
  assert ((s0 - s2) * m00 <= (s0 - s2) * 1) by (apply Rmult_le_compat_l; lra).
  assert ((s1 - s2) * m11 <= (s1 - s2) * 1) by (apply Rmult_le_compat_l; lra).
  lra.
Qed.

(* a proper rotation maps cross products to cross products: M (u x v) = (M u) x (M v) *)
Lemma proper_cross u0 u1 u2 v0 v1 v2 : D = 1 ->
  let w0 := u1 * v2 - u2 * v1 in let w1 := u2 * v0 - u0 * v2 in let w2 := u0 * v1 - u1 * v0 in
  let a0 := m00 * u0 + m01 * u1 + m02 * u2 in let a1 := m10 * u0 + m11 * u1 + m12 * u2 in let a2 := m20 * u0 + m21 * u1 + m22 * u2 in
  let b0 := m00 * v0 + m01 * v1 + m02 * v2 in let b1 := m10 * v0 + m11 * v1 + m12 * v2 in let b2 := m20 * v0 + m21 * v1 + m22 * v2 in
  m00 * w0 + m01 * w1 + m02 * w2 = a1 * b2 - a2 * b1 /\
  m10 * w0 + m11 * w1 + m12 * w2 = a2 * b0 - a0 * b2 /\
  m20 * w0 + m21 * w1 + m22 * w2 = a0 * b1 - a1 * b0.
Proof.
  intros HDp w0 w1 w2 a0 a1 a2 b0 b1 b2.
  pose proof cof00 as C00. pose proof cof01 as C01. pose proof cof02 as C02.
  pose proof cof10 as C10. pose proof cof11 as C11. pose proof cof12 as C12.
  pose proof cof20 as C20. pose proof cof21 as C21. pose proof cof22 as C22.
  rewrite HDp in *.
  (* (M u) x (M v) = cof(M) (u x v) is a ring identity *)
  assert (E0 : a1 * b2 - a2 * b1 = (m11 * m22 - m12 * m21) * w0 + (m12 * m20 - m10 * m22) * w1 + (m10 * m21 - m11 * m20) * w2)
    by (unfold a1, a2, b1, b2, w0, w1, w2; ring).
  assert (E1 : a2 * b0 - a0 * b2 = (m02 * m21 - m01 * m22) * w0 + (m00 * m22 - m02 * m20) * w1 + (m01 * m20 - m00 * m21) * w2)
    by (unfold a0, a2, b0, b2, w0, w1, w2; ring).
  assert (E2 : a0 * b1 - a1 * b0 = (m01 * m12 - m02 * m11) * w0 + (m02 * m10 - m00 * m12) * w1 + (m00 * m11 - m01 * m10) * w2)
    by (unfold a0, a1, b0, b1, w0, w1, w2; ring).
  rewrite E0, E1, E2, C00, C01, C02, C10, C11, C12, C20, C21, C22. repeat split; ring.
Qed.

End Orth3.

(* =============================== 2x2: scalar facts =============================== *)
Section Orth2.
Variables m00 m01 m10 m11 D : R.
Hypothesis H00 : m00 * m00 + m10 * m10 = 1.
Hypothesis H11 : m01 * m01 + m11 * m11 = 1.
Hypothesis H01 : m00 * m01 + m10 * m11 = 0.
Hypothesis HD : m00 * m11 - m01 * m10 = D.

Lemma cof2_00 : m11 = D * m00.
Proof.
  assert (E : (m00 * m00 + m10 * m10) * m11 + (m00 * m01 + m10 * m11) * (- m10) = m00 * (m00 * m11 - m01 * m10)) by ring.
  rewrite H00, H01, HD in E. lra.
Qed.
Lemma cof2_01 : - m10 = D * m01.
Proof.
  assert (E : (m00 * m01 + m10 * m11) * m11 + (m01 * m01 + m11 * m11) * (- m10) = m01 * (m00 * m11 - m01 * m10)) by ring.
  rewrite H11, H01, HD in E. lra.
Qed.

Lemma diag2_le_1 : m00 <= 1 /\ m11 <= 1.
Proof. split; nra. Qed.

Lemma improper_weighted_diag2 s0 s1 : D = -1 -> s1 <= s0 -> s0 * m00 + s1 * m11 <= s0 - s1.
Proof.
  intros HDm h10. pose proof cof2_00 as C. pose proof diag2_le_1 as (a & _). rewrite HDm in C.
  rewrite C. assert ((s0 - s1) * m00 <= (s0 - s1) * 1) by (apply Rmult_le_compat_l; lra). lra.
Qed.
End Orth2.

(* =============================== function view =============================== *)

Ltac orth_eq H a b :=
  let E := fresh "E" in
  pose proof (H a b ltac:(lia) ltac:(lia)) as E;
  cbn [sumn] in E; rsimpl; unfold delta in E; cbn [Nat.eqb] in E.

Lemma is_orth3_eqs (M : nat -> nat -> R) : is_orth 3 M ->
  M 0%nat 0%nat * M 0%nat 0%nat + M 1%nat 0%nat * M 1%nat 0%nat + M 2%nat 0%nat * M 2%nat 0%nat = 1 /\
  M 0%nat 1%nat * M 0%nat 1%nat + M 1%nat 1%nat * M 1%nat 1%nat + M 2%nat 1%nat * M 2%nat 1%nat = 1 /\
  M 0%nat 2%nat * M 0%nat 2%nat + M 1%nat 2%nat * M 1%nat 2%nat + M 2%nat 2%nat * M 2%nat 2%nat = 1 /\
  M 0%nat 0%nat * M 0%nat 1%nat + M 1%nat 0%nat * M 1%nat 1%nat + M 2%nat 0%nat * M 2%nat 1%nat = 0 /\
  M 0%nat 0%nat * M 0%nat 2%nat + M 1%nat 0%nat * M 1%nat 2%nat + M 2%nat 0%nat * M 2%nat 2%nat = 0 /\
  M 0%nat 1%nat * M 0%nat 2%nat + M 1%nat 1%nat * M 1%nat 2%nat + M 2%nat 1%nat * M 2%nat 2%nat = 0.
Proof.
  intros H. unfold is_orth in H.
  orth_eq H 0%nat 0%nat. orth_eq H 1%nat 1%nat. orth_eq H 2%nat 2%nat. orth_eq H 0%nat 1%nat. orth_eq H 0%nat 2%nat. orth_eq H 1%nat 2%nat.
  repeat split; lra.
Qed.

Lemma is_orth2_eqs (M : nat -> nat -> R) : is_orth 2 M ->
  M 0%nat 0%nat * M 0%nat 0%nat + M 1%nat 0%nat * M 1%nat 0%nat = 1 /\
  M 0%nat 1%nat * M 0%nat 1%nat + M 1%nat 1%nat * M 1%nat 1%nat = 1 /\
  M 0%nat 0%nat * M 0%nat 1%nat + M 1%nat 0%nat * M 1%nat 1%nat = 0.
Proof.
  intros H. unfold is_orth in H.
  orth_eq H 0%nat 0%nat. orth_eq H 1%nat 1%nat. orth_eq H 0%nat 1%nat.
  repeat split; lra.
Qed.

Lemma fdet3_R (M : nat -> nat -> R) :
  fdet ROps 3 M = M 0%nat 0%nat * (M 1%nat 1%nat * M 2%nat 2%nat - M 1%nat 2%nat * M 2%nat 1%nat) - M 0%nat 1%nat * (M 1%nat 0%nat * M 2%nat 2%nat - M 1%nat 2%nat * M 2%nat 0%nat)
                  + M 0%nat 2%nat * (M 1%nat 0%nat * M 2%nat 1%nat - M 1%nat 1%nat * M 2%nat 0%nat).
Proof. reflexivity. Qed.
Lemma fdet2_R (M : nat -> nat -> R) : fdet ROps 2 M = M 0%nat 0%nat * M 1%nat 1%nat - M 0%nat 1%nat * M 1%nat 0%nat.
Proof. reflexivity. Qed.

(* the product of two matrices with orthonormal columns has orthonormal columns *)
Lemma is_orth_mul d (A B : nat -> nat -> R) : is_orth d A -> is_orth d B ->
  is_orth d (fun i j => Rsum d (fun l => A i l * B l j)).
Proof.
  intros HA HB a b Ha Hb. cbv beta.
  rewrite (collapse d A (fun l => B l a) (fun l => B l b) HA). now apply HB.
Qed.

(* the weighted diagonal of an improper orthogonal matrix is at most the weighted sum with the last weight negated *)
Lemma improper_diag_bound d (M : nat -> nat -> R) (sg : nat -> R) : (d = 2 \/ d = 3)%nat ->
  is_orth d M -> fdet ROps d M = -1 ->
  (forall a, (a < d)%nat -> 0 <= sg a) ->
  (forall a b, (a <= b)%nat -> (b < d)%nat -> sg b <= sg a) ->
  Rsum d (fun a => sg a * M a a) <= Rsum d (fun a => sg a * elast d a).
Proof.
  intros [->| ->] HM HD Hnn Hord.
  - destruct (is_orth2_eqs M HM) as (H00 & H11 & H01). rewrite fdet2_R in HD.
    pose proof (improper_weighted_diag2 _ _ _ _ _ H00 H11 H01 HD (sg 0%nat) (sg 1%nat) eq_refl (Hord 0%nat 1%nat ltac:(lia) ltac:(lia))).
    cbn [sumn]. unfold elast. cbn [Nat.eqb]. rsimpl. lra.
  - destruct (is_orth3_eqs M HM) as (H00 & H11 & H22 & H01 & H02 & H12). rewrite fdet3_R in HD.
    pose proof (improper_weighted_diag _ _ _ _ _ _ _ _ _ _ H00 H11 H22 H01 H02 H12 HD (sg 0%nat) (sg 1%nat) (sg 2%nat) eq_refl
                  (Hord 1%nat 2%nat ltac:(lia) ltac:(lia)) (Hord 0%nat 1%nat ltac:(lia) ltac:(lia)) (Hnn 2%nat ltac:(lia))).
    cbn [sumn]. unfold elast. cbn [Nat.eqb]. rsimpl. lra.
Qed.

(* =============================== optimality among proper rotations =============================== *)

(* the sign pattern the repaired code applies: flip the last singular direction iff det(V U^T) < 0 *)
Definition e_star (d : nat) (U V : nat -> nat -> R) : nat -> R :=
  if Rltb (fdet ROps d (Re d U V (fun _ => 1))) 0 then elast d else (fun _ => 1).

Lemma det_Re_ones d (U V : nat -> nat -> R) : (d = 2 \/ d = 3)%nat ->
  fdet ROps d (Re d U V (fun _ => 1)) = fdet ROps d V * fdet ROps d U.
Proof.
  intros Hd. rewrite <- (fdet_tr d U Hd).
  rewrite <- (fdet_mul d V (fun a j => U j a) Hd). apply fdet_ext; [exact Hd|].
  intros i j _ _. unfold Re. apply Rsum_ext. intros; ring.
Qed.

Section ProperOptimal.
Variables (d N : nat) (S T : nat -> nat -> R) (U V : nat -> nat -> R) (sg : nat -> R).
Hypothesis Hd : (d = 2 \/ d = 3)%nat.
Hypothesis HUtU : forall a b, (a < d)%nat -> (b < d)%nat -> Rsum d (fun l => U l a * U l b) = delta a b.
Hypothesis HUUt : forall i j, (i < d)%nat -> (j < d)%nat -> Rsum d (fun a => U i a * U j a) = delta i j.
Hypothesis HVtV : forall a b, (a < d)%nat -> (b < d)%nat -> Rsum d (fun l => V l a * V l b) = delta a b.
Hypothesis HVVt : forall i j, (i < d)%nat -> (j < d)%nat -> Rsum d (fun a => V i a * V j a) = delta i j.
Hypothesis Hsg : forall a, (a < d)%nat -> 0 <= sg a.
Hypothesis Hord : forall a b, (a <= b)%nat -> (b < d)%nat -> sg b <= sg a.
Hypothesis HC : forall j i, (j < d)%nat -> (i < d)%nat -> Ccov N S T j i = Cm d U V sg j i.

(* M = V^T Q U *)
Definition VtQU (Q : nat -> nat -> R) (a b : nat) : R := Rsum d (fun i => V i a * Rsum d (fun j => Q i j * U j b)).

Lemma VtQU_orth Q : is_orth d Q -> is_orth d (VtQU Q).
Proof.
  intros HQ.
  exact (is_orth_mul d (fun a i => V i a) (fun i b => Rsum d (fun j => Q i j * U j b)) HVVt (is_orth_mul d Q U HQ HUtU)).
Qed.

Lemma VtQU_det Q : fdet ROps d (VtQU Q) = fdet ROps d V * fdet ROps d Q * fdet ROps d U.
Proof.
  unfold VtQU.
  pose proof (fdet_mul d (fun a i => V i a) (fun i b => Rsum d (fun j => Q i j * U j b)) Hd) as E1. cbv beta in E1.
  rewrite E1. rewrite (fdet_tr d V Hd). rewrite (fdet_mul d Q U Hd). ring.
Qed.

Lemma dets_pm1 : fdet ROps d V * fdet ROps d U = 1 \/ fdet ROps d V * fdet ROps d U = -1.
Proof.
  pose proof (orthogonal_det_sq d U Hd HUtU) as EU. pose proof (orthogonal_det_sq d V Hd HVtV) as EV.
  set (u := fdet ROps d U) in *. set (v := fdet ROps d V) in *.
  assert (E : (v * u - 1) * (v * u + 1) = 0) by nra.
  apply Rmult_integral in E. destruct E; [left|right]; lra.
Qed.

(* when det V det U = -1, every proper rotation Q has trace(Q C) <= sum_a sg_a elast_a = trace(R_flipped C) *)
Lemma trace_proper_flipped Q : is_orth d Q -> fdet ROps d Q = 1 -> fdet ROps d V * fdet ROps d U = -1 ->
  trQC d U V sg Q <= trQC d U V sg (Re d U V (elast d)).
Proof.
  intros HQ HdQ Hneg. rewrite (trace_Re d U V sg HUtU HVtV). rewrite trQC_diag.
  change (Rsum d (fun a => sg a * VtQU Q a a) <= Rsum d (fun a => sg a * elast d a)).
  apply (improper_diag_bound d (VtQU Q) sg Hd (VtQU_orth Q HQ)); [|exact Hsg|exact Hord].
  rewrite VtQU_det, HdQ. lra.
Qed.

Lemma Re_is_orth e : (forall a, (a < d)%nat -> e a * e a = 1) -> is_orth d (Re d U V e).
Proof. intros He a b Ha Hb. now apply (Re_orthogonal d U V HUUt HVtV). Qed.

Lemma e_star_sq a : e_star d U V a * e_star d U V a = 1.
Proof. unfold e_star. destruct (Rltb _ 0); [apply elast_sq|lra]. Qed.

Lemma e_star_pos : fdet ROps d V * fdet ROps d U = 1 -> e_star d U V = (fun _ => 1).
Proof.
  intros H. unfold e_star. rewrite (det_Re_ones d U V Hd), H.
  assert (E : Rltb 1 0 = false) by (apply Rltb_false; lra). now rewrite E.
Qed.
Lemma e_star_neg : fdet ROps d V * fdet ROps d U = -1 -> e_star d U V = elast d.
Proof.
  intros H. unfold e_star. rewrite (det_Re_ones d U V Hd), H.
  assert (E : Rltb (-1) 0 = true) by (apply Rltb_true; lra). now rewrite E.
Qed.

(* the matrix the repaired code returns is a proper rotation ... *)
Lemma Re_star_proper : fdet ROps d (Re d U V (e_star d U V)) = 1.
Proof.
  destruct dets_pm1 as [H|H].
  - rewrite (e_star_pos H), det_Re_ones by exact Hd. exact H.
  - rewrite (e_star_neg H), det_Re_flip, det_Re_ones by exact Hd. lra.
Qed.

(* ... and it is least-squares optimal among ALL proper rotations (noisy data included) *)
Theorem kabsch_optimal_proper Q : is_orth d Q -> fdet ROps d Q = 1 ->
  rcost d N S T (Re d U V (e_star d U V)) <= rcost d N S T Q.
Proof.
  intros HQ HdQ. destruct dets_pm1 as [H|H].
  - rewrite (e_star_pos H). exact (kabsch_optimal d N S T U V sg HUtU HUUt HVtV Hsg HC Q HQ).
  - rewrite (e_star_neg H).
    rewrite (rcost_trace d N S T U V sg HC Q HQ).
    rewrite (rcost_trace d N S T U V sg HC _ (Re_is_orth (elast d) (fun a _ => elast_sq d a))).
    pose proof (trace_proper_flipped Q HQ HdQ H). lra.
Qed.

(* explicit-determinant forms *)
Corollary kabsch_optimal_proper_pos Q : fdet ROps d V * fdet ROps d U = 1 -> is_orth d Q -> fdet ROps d Q = 1 ->
  rcost d N S T (Re d U V (fun _ => 1)) <= rcost d N S T Q.
Proof. intros H HQ HdQ. rewrite <- (e_star_pos H). now apply kabsch_optimal_proper. Qed.
Corollary kabsch_optimal_proper_neg Q : fdet ROps d V * fdet ROps d U = -1 -> is_orth d Q -> fdet ROps d Q = 1 ->
  rcost d N S T (Re d U V (elast d)) <= rcost d N S T Q.
Proof. intros H HQ HdQ. rewrite <- (e_star_neg H). now apply kabsch_optimal_proper. Qed.

(* exact data T_n = R0 S_n with R0 a PROPER rotation: the returned matrix maps every centred source onto its target,
   whichever branch is taken and whatever the rank of the point set *)
Theorem kabsch_exact_maps_proper R0 : is_orth d R0 -> fdet ROps d R0 = 1 ->
  (forall n i, (n < N)%nat -> (i < d)%nat -> T n i = Rsum d (fun j => R0 i j * S n j)) ->
  forall n i, (n < N)%nat -> (i < d)%nat -> Rsum d (fun j => Re d U V (e_star d U V) i j * S n j) = T n i.
Proof.
  intros H0 Hd0 Hex. apply rcost_zero_maps.
  assert (E : rcost d N S T R0 = 0).
  { unfold rcost. apply Rsum_zero. intros n Hn. apply Rsum_zero. intros i Hi. rewrite (Hex n i Hn Hi). ring. }
  pose proof (kabsch_optimal_proper R0 H0 Hd0). lra.
Qed.

End ProperOptimal.

(* =============================== uniqueness of a proper rotation given its action =============================== *)

(* a vector orthogonal to u, v and u x v is zero when u x v <> 0 (Cramer, with det[u v w] = |w|^2) *)
Lemma row_zero3 d0 d1 d2 u0 u1 u2 v0 v1 v2 :
  let w0 := u1 * v2 - u2 * v1 in let w1 := u2 * v0 - u0 * v2 in let w2 := u0 * v1 - u1 * v0 in
  d0 * u0 + d1 * u1 + d2 * u2 = 0 -> d0 * v0 + d1 * v1 + d2 * v2 = 0 -> d0 * w0 + d1 * w1 + d2 * w2 = 0 ->
  w0 * w0 + w1 * w1 + w2 * w2 <> 0 -> d0 = 0 /\ d1 = 0 /\ d2 = 0.
Proof.
  intros w0 w1 w2 Eu Ev Ew Hw.
  assert (E0 : d0 * (w0 * w0 + w1 * w1 + w2 * w2)
             = (d0 * u0 + d1 * u1 + d2 * u2) * (v1 * w2 - v2 * w1) + (d0 * v0 + d1 * v1 + d2 * v2) * (w1 * u2 - w2 * u1)
               + (d0 * w0 + d1 * w1 + d2 * w2) * w0) by (unfold w0, w1, w2; ring).
  assert (E1 : d1 * (w0 * w0 + w1 * w1 + w2 * w2)
             = (d0 * u0 + d1 * u1 + d2 * u2) * (v2 * w0 - v0 * w2) + (d0 * v0 + d1 * v1 + d2 * v2) * (w2 * u0 - w0 * u2)
               + (d0 * w0 + d1 * w1 + d2 * w2) * w1) by (unfold w0, w1, w2; ring).
  assert (E2 : d2 * (w0 * w0 + w1 * w1 + w2 * w2)
             = (d0 * u0 + d1 * u1 + d2 * u2) * (v0 * w1 - v1 * w0) + (d0 * v0 + d1 * v1 + d2 * v2) * (w0 * u1 - w1 * u0)
               + (d0 * w0 + d1 * w1 + d2 * w2) * w2) by (unfold w0, w1, w2; ring).
  rewrite Eu, Ev, Ew in E0, E1, E2.
  repeat split.
  - assert (Z : d0 * (w0 * w0 + w1 * w1 + w2 * w2) = 0) by lra. apply Rmult_integral in Z. tauto.
  - assert (Z : d1 * (w0 * w0 + w1 * w1 + w2 * w2) = 0) by lra. apply Rmult_integral in Z. tauto.
  - assert (Z : d2 * (w0 * w0 + w1 * w1 + w2 * w2) = 0) by lra. apply Rmult_integral in Z. tauto.
Qed.

(* the same for the difference of two rows *)
Lemma row_eq3 a0 a1 a2 b0 b1 b2 u0 u1 u2 v0 v1 v2 :
  let w0 := u1 * v2 - u2 * v1 in let w1 := u2 * v0 - u0 * v2 in let w2 := u0 * v1 - u1 * v0 in
  a0 * u0 + a1 * u1 + a2 * u2 = b0 * u0 + b1 * u1 + b2 * u2 ->
  a0 * v0 + a1 * v1 + a2 * v2 = b0 * v0 + b1 * v1 + b2 * v2 ->
  a0 * w0 + a1 * w1 + a2 * w2 = b0 * w0 + b1 * w1 + b2 * w2 ->
  w0 * w0 + w1 * w1 + w2 * w2 <> 0 -> a0 = b0 /\ a1 = b1 /\ a2 = b2.
Proof.
  intros w0 w1 w2 Eu Ev Ew Hw.
  destruct (row_zero3 (a0 - b0) (a1 - b1) (a2 - b2) u0 u1 u2 v0 v1 v2) as (z0 & z1 & z2).
  - assert (E : (a0 - b0) * u0 + (a1 - b1) * u1 + (a2 - b2) * u2 = (a0 * u0 + a1 * u1 + a2 * u2) - (b0 * u0 + b1 * u1 + b2 * u2)) by ring.
    rewrite E, Eu. ring.
  - assert (E : (a0 - b0) * v0 + (a1 - b1) * v1 + (a2 - b2) * v2 = (a0 * v0 + a1 * v1 + a2 * v2) - (b0 * v0 + b1 * v1 + b2 * v2)) by ring.
    rewrite E, Ev. ring.
  - fold w0 w1 w2.
    assert (E : (a0 - b0) * w0 + (a1 - b1) * w1 + (a2 - b2) * w2 = (a0 * w0 + a1 * w1 + a2 * w2) - (b0 * w0 + b1 * w1 + b2 * w2)) by ring.
    rewrite E, Ew. ring.
  - exact Hw.
  - repeat split; lra.
Qed.

(* 2D: a rotation (a, b) is determined by the image of one non-zero vector *)
Lemma rot2_eq a b a' b' u0 u1 :
  a * u0 - b * u1 = a' * u0 - b' * u1 -> b * u0 + a * u1 = b' * u0 + a' * u1 ->
  u0 * u0 + u1 * u1 <> 0 -> a = a' /\ b = b'.
Proof.
  intros H1 H2 Hn.
  assert (Ea : (a - a') * (u0 * u0 + u1 * u1)
             = u0 * ((a * u0 - b * u1) - (a' * u0 - b' * u1)) + u1 * ((b * u0 + a * u1) - (b' * u0 + a' * u1))) by ring.
  assert (Eb : (b - b') * (u0 * u0 + u1 * u1)
             = u0 * ((b * u0 + a * u1) - (b' * u0 + a' * u1)) - u1 * ((a * u0 - b * u1) - (a' * u0 - b' * u1))) by ring.
  rewrite H1, H2 in Ea, Eb.
  assert (Za : (a - a') * (u0 * u0 + u1 * u1) = 0) by lra. assert (Zb : (b - b') * (u0 * u0 + u1 * u1) = 0) by lra.
  apply Rmult_integral in Za. apply Rmult_integral in Zb. split; [destruct Za|destruct Zb]; try contradiction; lra.
Qed.

Lemma sumsq3_zero a b c : a * a + b * b + c * c = 0 -> a = 0 /\ b = 0 /\ c = 0.
Proof. intros H. repeat split; nra. Qed.
Lemma sumsq2_zero a b : a * a + b * b = 0 -> a = 0 /\ b = 0.
Proof. intros H. repeat split; nra. Qed.

Lemma Rsum3 f : Rsum 3 f = f 0%nat + f 1%nat + f 2%nat.
Proof. cbn [sumn]. rsimpl. ring. Qed.
Lemma Rsum2 f : Rsum 2 f = f 0%nat + f 1%nat.
Proof. cbn [sumn]. rsimpl. ring. Qed.

Lemma lt3_cases (P : nat -> Prop) : P 0%nat -> P 1%nat -> P 2%nat -> forall i, (i < 3)%nat -> P i.
Proof. intros p0 p1 p2 i Hi. destruct i as [|[|[|i]]]; try assumption; lia. Qed.
Lemma lt2_cases (P : nat -> Prop) : P 0%nat -> P 1%nat -> forall i, (i < 2)%nat -> P i.
Proof. intros p0 p1 i Hi. destruct i as [|[|i]]; try assumption; lia. Qed.

(* d = 3: two proper rotations that agree on two vectors with a non-zero cross product are equal *)
Lemma proper3_unique (A B : nat -> nat -> R) (u v : nat -> R) :
  is_orth 3 A -> fdet ROps 3 A = 1 -> is_orth 3 B -> fdet ROps 3 B = 1 ->
  (forall i, (i < 3)%nat -> Rsum 3 (fun j => A i j * u j) = Rsum 3 (fun j => B i j * u j)) ->
  (forall i, (i < 3)%nat -> Rsum 3 (fun j => A i j * v j) = Rsum 3 (fun j => B i j * v j)) ->
  (exists k, (k < 3)%nat /\ cross3 ROps u v k <> 0) ->
  forall i j, (i < 3)%nat -> (j < 3)%nat -> A i j = B i j.
Proof.
  intros HA HdA HB HdB Hu Hv (k & Hk & Hw).
  destruct (is_orth3_eqs A HA) as (a00 & a11 & a22 & a01 & a02 & a12). rewrite fdet3_R in HdA.
  destruct (is_orth3_eqs B HB) as (b00 & b11 & b22 & b01 & b02 & b12). rewrite fdet3_R in HdB.
  pose proof (proper_cross _ _ _ _ _ _ _ _ _ _ a00 a11 a22 a01 a02 a12 HdA (u 0%nat) (u 1%nat) (u 2%nat) (v 0%nat) (v 1%nat) (v 2%nat) eq_refl) as PA.
  pose proof (proper_cross _ _ _ _ _ _ _ _ _ _ b00 b11 b22 b01 b02 b12 HdB (u 0%nat) (u 1%nat) (u 2%nat) (v 0%nat) (v 1%nat) (v 2%nat) eq_refl) as PB.
  cbv zeta in PA, PB. destruct PA as (PA0 & PA1 & PA2). destruct PB as (PB0 & PB1 & PB2).
  pose proof (Hu 0%nat ltac:(lia)) as U0. pose proof (Hu 1%nat ltac:(lia)) as U1. pose proof (Hu 2%nat ltac:(lia)) as U2.
  pose proof (Hv 0%nat ltac:(lia)) as V0. pose proof (Hv 1%nat ltac:(lia)) as V1. pose proof (Hv 2%nat ltac:(lia)) as V2.
  rewrite !Rsum3 in U0, U1, U2, V0, V1, V2.
  assert (W0 : A 0%nat 0%nat * (u 1%nat * v 2%nat - u 2%nat * v 1%nat) + A 0%nat 1%nat * (u 2%nat * v 0%nat - u 0%nat * v 2%nat)
               + A 0%nat 2%nat * (u 0%nat * v 1%nat - u 1%nat * v 0%nat)
             = B 0%nat 0%nat * (u 1%nat * v 2%nat - u 2%nat * v 1%nat) + B 0%nat 1%nat * (u 2%nat * v 0%nat - u 0%nat * v 2%nat)
               + B 0%nat 2%nat * (u 0%nat * v 1%nat - u 1%nat * v 0%nat))
    by (rewrite PA0, PB0, U1, U2, V1, V2; reflexivity).
  assert (W1 : A 1%nat 0%nat * (u 1%nat * v 2%nat - u 2%nat * v 1%nat) + A 1%nat 1%nat * (u 2%nat * v 0%nat - u 0%nat * v 2%nat)
               + A 1%nat 2%nat * (u 0%nat * v 1%nat - u 1%nat * v 0%nat)
             = B 1%nat 0%nat * (u 1%nat * v 2%nat - u 2%nat * v 1%nat) + B 1%nat 1%nat * (u 2%nat * v 0%nat - u 0%nat * v 2%nat)
               + B 1%nat 2%nat * (u 0%nat * v 1%nat - u 1%nat * v 0%nat))
    by (rewrite PA1, PB1, U0, U2, V0, V2; reflexivity).
  assert (W2 : A 2%nat 0%nat * (u 1%nat * v 2%nat - u 2%nat * v 1%nat) + A 2%nat 1%nat * (u 2%nat * v 0%nat - u 0%nat * v 2%nat)
               + A 2%nat 2%nat * (u 0%nat * v 1%nat - u 1%nat * v 0%nat)
             = B 2%nat 0%nat * (u 1%nat * v 2%nat - u 2%nat * v 1%nat) + B 2%nat 1%nat * (u 2%nat * v 0%nat - u 0%nat * v 2%nat)
               + B 2%nat 2%nat * (u 0%nat * v 1%nat - u 1%nat * v 0%nat))
    by (rewrite PA2, PB2, U0, U1, V0, V1; reflexivity).
  clear PA0 PA1 PA2 PB0 PB1 PB2.
  assert (Hnz : (u 1%nat * v 2%nat - u 2%nat * v 1%nat) * (u 1%nat * v 2%nat - u 2%nat * v 1%nat)
              + (u 2%nat * v 0%nat - u 0%nat * v 2%nat) * (u 2%nat * v 0%nat - u 0%nat * v 2%nat)
              + (u 0%nat * v 1%nat - u 1%nat * v 0%nat) * (u 0%nat * v 1%nat - u 1%nat * v 0%nat) <> 0).
  { revert Hw. unfold cross3. rsimpl. destruct k as [|[|[|k]]]; try lia; intros Hw Hz; apply Hw; apply sumsq3_zero in Hz; tauto. }
  assert (Hrow : forall i, (i < 3)%nat -> A i 0%nat = B i 0%nat /\ A i 1%nat = B i 1%nat /\ A i 2%nat = B i 2%nat).
  { apply lt3_cases.
    - exact (row_eq3 _ _ _ _ _ _ _ _ _ _ _ _ U0 V0 W0 Hnz).
    - exact (row_eq3 _ _ _ _ _ _ _ _ _ _ _ _ U1 V1 W1 Hnz).
    - exact (row_eq3 _ _ _ _ _ _ _ _ _ _ _ _ U2 V2 W2 Hnz). }
  intros i j Hi Hj. destruct (Hrow i Hi) as (r0 & r1 & r2).
  revert j Hj. apply lt3_cases; assumption.
Qed.

(* d = 2: two proper rotations that agree on one non-zero vector are equal *)
Lemma proper2_unique (A B : nat -> nat -> R) (u : nat -> R) :
  is_orth 2 A -> fdet ROps 2 A = 1 -> is_orth 2 B -> fdet ROps 2 B = 1 ->
  (forall i, (i < 2)%nat -> Rsum 2 (fun j => A i j * u j) = Rsum 2 (fun j => B i j * u j)) ->
  (exists k, (k < 2)%nat /\ u k <> 0) ->
  forall i j, (i < 2)%nat -> (j < 2)%nat -> A i j = B i j.
Proof.
  intros HA HdA HB HdB Hu (k & Hk & Hnzk).
  destruct (is_orth2_eqs A HA) as (a00 & a11 & a01). rewrite fdet2_R in HdA.
  destruct (is_orth2_eqs B HB) as (b00 & b11 & b01). rewrite fdet2_R in HdB.
  pose proof (cof2_00 _ _ _ _ _ a00 a01 HdA) as A11. pose proof (cof2_01 _ _ _ _ _ a11 a01 HdA) as A10.
  pose proof (cof2_00 _ _ _ _ _ b00 b01 HdB) as B11. pose proof (cof2_01 _ _ _ _ _ b11 b01 HdB) as B10.
  pose proof (Hu 0%nat ltac:(lia)) as U0. pose proof (Hu 1%nat ltac:(lia)) as U1. rewrite !Rsum2 in U0, U1.
  assert (Hn : u 0%nat * u 0%nat + u 1%nat * u 1%nat <> 0).
  { destruct k as [|[|k]]; try lia; intros Hz; apply Hnzk; apply sumsq2_zero in Hz; tauto. }
  assert (A01 : A 0%nat 1%nat = - A 1%nat 0%nat) by lra. assert (B01 : B 0%nat 1%nat = - B 1%nat 0%nat) by lra.
  assert (A11' : A 1%nat 1%nat = A 0%nat 0%nat) by lra. assert (B11' : B 1%nat 1%nat = B 0%nat 0%nat) by lra.
  rewrite A01, B01 in U0. rewrite A11', B11' in U1.
  destruct (rot2_eq (A 0%nat 0%nat) (A 1%nat 0%nat) (B 0%nat 0%nat) (B 1%nat 0%nat) (u 0%nat) (u 1%nat)) as (Ea & Eb); [lra|lra|exact Hn|].
  intros i j Hi Hj. destruct i as [|[|i]]; destruct j as [|[|j]]; try lia; lra.
Qed.

(* the centred sources span at least d-1 dimensions: not all coincident (2D) / not all collinear (3D) *)
Definition rank_ge_dm1 (d N : nat) (S : nat -> nat -> R) : Prop :=
  match d with
  | 2%nat => exists n k, (n < N)%nat /\ (k < 2)%nat /\ S n k <> 0
  | 3%nat => exists n1 n2 k, (n1 < N)%nat /\ (n2 < N)%nat /\ (k < 3)%nat /\ cross3 ROps (S n1) (S n2) k <> 0
  | _ => False
  end.

(* a proper rotation is determined by its action on a set of rank >= d-1 *)
Lemma proper_unique_on_data d N (S : nat -> nat -> R) (A B : nat -> nat -> R) :
  is_orth d A -> fdet ROps d A = 1 -> is_orth d B -> fdet ROps d B = 1 -> rank_ge_dm1 d N S ->
  (forall n i, (n < N)%nat -> (i < d)%nat -> Rsum d (fun j => A i j * S n j) = Rsum d (fun j => B i j * S n j)) ->
  forall i j, (i < d)%nat -> (j < d)%nat -> A i j = B i j.
Proof.
  intros HA HdA HB HdB Hr Hag.
  destruct d as [|[|[|[|d]]]]; try contradiction.
  - destruct Hr as (n & k & Hn & Hk & Hnz).
    apply (proper2_unique A B (S n) HA HdA HB HdB); [intros; now apply Hag|now exists k].
  - destruct Hr as (n1 & n2 & k & Hn1 & Hn2 & Hk & Hnz).
    apply (proper3_unique A B (S n1) (S n2) HA HdA HB HdB); [intros; now apply Hag|intros; now apply Hag|now exists k].
Qed.

Section Recovery.
Variables (d N : nat) (S T : nat -> nat -> R) (U V : nat -> nat -> R) (sg : nat -> R).
Hypothesis Hd : (d = 2 \/ d = 3)%nat.
Hypothesis HUtU : forall a b, (a < d)%nat -> (b < d)%nat -> Rsum d (fun l => U l a * U l b) = delta a b.
Hypothesis HUUt : forall i j, (i < d)%nat -> (j < d)%nat -> Rsum d (fun a => U i a * U j a) = delta i j.
Hypothesis HVtV : forall a b, (a < d)%nat -> (b < d)%nat -> Rsum d (fun l => V l a * V l b) = delta a b.
Hypothesis HVVt : forall i j, (i < d)%nat -> (j < d)%nat -> Rsum d (fun a => V i a * V j a) = delta i j.
Hypothesis Hsg : forall a, (a < d)%nat -> 0 <= sg a.
Hypothesis Hord : forall a b, (a <= b)%nat -> (b < d)%nat -> sg b <= sg a.
Hypothesis HC : forall j i, (j < d)%nat -> (i < d)%nat -> Ccov N S T j i = Cm d U V sg j i.

(* exact data of rank >= d-1: the returned rotation IS R0 *)
Theorem kabsch_exact_recovery R0 : is_orth d R0 -> fdet ROps d R0 = 1 -> rank_ge_dm1 d N S ->
  (forall n i, (n < N)%nat -> (i < d)%nat -> T n i = Rsum d (fun j => R0 i j * S n j)) ->
  forall i j, (i < d)%nat -> (j < d)%nat -> Re d U V (e_star d U V) i j = R0 i j.
Proof.
  intros H0 Hd0 Hr Hex.
  apply (proper_unique_on_data d N S).
  - apply (Re_is_orth d U V HUUt HVtV). intros a _. apply e_star_sq.
  - exact (Re_star_proper d U V Hd HUtU HVtV).
  - exact H0.
  - exact Hd0.
  - exact Hr.
  - intros n i Hn Hi. rewrite <- (Hex n i Hn Hi).
    exact (kabsch_exact_maps_proper d N S T U V sg Hd HUtU HUUt HVtV HVVt Hsg Hord HC R0 H0 Hd0 Hex n i Hn Hi).
Qed.
End Recovery.

(* =============================== the model's rotation block =============================== *)
Section ModelTie.
Variable svd_of : nat -> list (list R) -> (list (list R) * list R) * list (list R).

(* the repaired code returns exactly V diag(e_star) U^T *)
Lemma rotation_is_Re_star d cov : (d = 2 \/ d = 3)%nat ->
  let '(U, _, V) := svd_of d cov in
  forall i j, (i < d)%nat -> (j < d)%nat ->
    mg (rotation_of ROps svd_of true d cov) i j = Re d (mg U) (mg V) (e_star d (mg U) (mg V)) i j.
Proof.
  intros Hd. unfold rotation_of. destruct (svd_of d cov) as [[U sg] V]. cbn [andb]. rsimpl.
  rewrite (fdet_ext d (mg (mmul ROps d d d V (mtrans ROps d d U))) (Re d (mg U) (mg V) (fun _ => 1)) Hd)
    by (intros; now apply R0_get).
  unfold e_star. destruct (Rltb _ 0); intros i j Hi Hj; [now apply R1_get|now apply R0_get].
Qed.

Lemma rcost_ext d N S T Q Q' : (forall i j, (i < d)%nat -> (j < d)%nat -> Q i j = Q' i j) ->
  rcost d N S T Q = rcost d N S T Q'.
Proof.
  intros H. unfold rcost. apply Rsum_ext. intros n _. apply Rsum_ext. intros i Hi.
  rewrite (Rsum_ext d (fun j => Q i j * S n j) (fun j => Q' i j * S n j)) by (intros j Hj; now rewrite H).
  reflexivity.
Qed.

(* the rotation block computed by the repaired code is least-squares optimal among all proper rotations, for any SVD
   the oracle returns within its contract and any N centred pairs whose cross covariance is the matrix handed to it *)
Theorem rotation_of_optimal_proper d cov N (S T : nat -> nat -> R) : (d = 2 \/ d = 3)%nat ->
  svd_contract d cov (svd_of d cov) ->
  (forall j i, (j < d)%nat -> (i < d)%nat -> Ccov N S T j i = mg cov j i) ->
  forall Q, is_orth d Q -> fdet ROps d Q = 1 ->
  rcost d N S T (mg (rotation_of ROps svd_of true d cov)) <= rcost d N S T Q.
Proof.
  intros Hd Hc HC Q HQ HdQ. pose proof (rotation_is_Re_star d cov Hd) as Hget. unfold svd_contract in Hc.
  destruct (svd_of d cov) as [[U sg] V]. destruct Hc as (HM & HUtU & HUUt & HVtV & HVVt & Hnn & Hord).
  rewrite (rcost_ext d N S T _ _ Hget).
  apply (kabsch_optimal_proper d N S T (mg U) (mg V) (vget ROps sg) Hd HUtU HUUt HVtV HVVt Hnn Hord); [|exact HQ|exact HdQ].
  intros j i Hj Hi. rewrite HC by assumption. now apply HM.
Qed.

(* exact data of rank >= d-1: the rotation block computed by the repaired code is R0 *)
Theorem rotation_of_exact_recovery d cov N (S T : nat -> nat -> R) : (d = 2 \/ d = 3)%nat ->
  svd_contract d cov (svd_of d cov) ->
  (forall j i, (j < d)%nat -> (i < d)%nat -> Ccov N S T j i = mg cov j i) ->
  forall R0, is_orth d R0 -> fdet ROps d R0 = 1 -> rank_ge_dm1 d N S ->
  (forall n i, (n < N)%nat -> (i < d)%nat -> T n i = Rsum d (fun j => R0 i j * S n j)) ->
  forall i j, (i < d)%nat -> (j < d)%nat -> mg (rotation_of ROps svd_of true d cov) i j = R0 i j.
Proof.
  intros Hd Hc HC R0 H0 Hd0 Hr Hex i j Hi Hj. pose proof (rotation_is_Re_star d cov Hd) as Hget. unfold svd_contract in Hc.
  destruct (svd_of d cov) as [[U sg] V]. destruct Hc as (HM & HUtU & HUUt & HVtV & HVVt & Hnn & Hord).
  rewrite Hget by assumption.
  apply (kabsch_exact_recovery d N S T (mg U) (mg V) (vget ROps sg) Hd HUtU HUUt HVtV HVVt Hnn Hord); try assumption.
  intros j' i' Hj' Hi'. rewrite HC by assumption. now apply HM.
Qed.

End ModelTie.
