(* P2pSecondOrder.v — the O(theta^2) part of property C05: a rotation of angle theta is recovered by the point-to-plane
   estimator (P2pModel.v) with an error of second order.
   Part 1: analytic facts  1 - cos t <= t^2/2  and  (1 - cos t)^2 + (t - sin t)^2 <= t^4/4  for every real t.
   Part 2: the linearisation remainder (I + t K - R(t)) s  in 2D and in 3D (Rodrigues, unit axis).
   Part 3: abstract least squares: Pythagoras from the normal equations, hence |J (z - x)|^2 <= cost x for every x.
   Part 4: the model's rows: on exact-motion data the linearised residual of the true parameters is at most
           theta^2/2 |s_i|, hence |J (z - x_true)|^2 <= theta^4/4 sum_i |s_i|^2, for the estimate of p2p_estimate. *)
From Coq Require Import Reals List Arith Lia Lra Bool Psatz.
From Coquelicot Require Import Coquelicot.
From Romea Require Import Num NumR LinAlgBModel LinAlgBProofs LsModel LsProofs LsHistoryProofs P2pModel P2pProofs.
Import ListNotations.
Local Open Scope R_scope.

Local Notation vg := (vget ROps).

(* ------------------------------------------------------------------------------------------------ part 1 *)
(* a function vanishing at 0 whose derivative is non-negative on [0, +oo) is non-negative there *)
Lemma nonneg_of_deriv (f f' : R -> R) :
  f 0 = 0 -> (forall c, 0 <= c -> derivable_pt_lim f c (f' c)) -> (forall c, 0 <= c -> 0 <= f' c) ->
  forall t, 0 <= t -> 0 <= f t.
Proof.
  intros H0 Hd Hp t Ht. destruct (Req_dec t 0) as [->|Hne]; [lra|].
  assert (Hlt : 0 < t) by lra.
  destruct (MVT_cor2 f f' 0 t Hlt) as (c & Hc & Hin).
  - intros c Hc. apply Hd. lra.
  - rewrite H0 in Hc. assert (0 <= f' c) by (apply Hp; lra).
    assert (0 <= f' c * (t - 0)) by (apply Rmult_le_pos; lra). lra.
Qed.

Lemma sin_le_x_nonneg t : 0 <= t -> sin t <= t.
Proof.
  intros Ht. destruct (Req_dec t 0) as [->|Hne]; [rewrite sin_0; lra|].
  apply Rlt_le, sin_lt_x. lra.
Qed.

Lemma one_sub_cos_le_nonneg t : 0 <= t -> 1 - cos t <= t * t / 2.
Proof.
  intros Ht.
  assert (H : 0 <= (fun x => x * x / 2 - 1 + cos x) t).
  { apply (nonneg_of_deriv (fun x => x * x / 2 - 1 + cos x) (fun x => x - sin x)); [cbv beta; rewrite cos_0; lra| | |exact Ht].
    - intros c _. apply is_derive_Reals. auto_derive; [exact I|field].
    - intros c Hc. pose proof (sin_le_x_nonneg c Hc). lra. }
  cbv beta in H. lra.
Qed.

(* 0 <= 1 - cos t <= t^2/2 for every real t *)
Lemma one_sub_cos_bounds t : 0 <= 1 - cos t <= t * t / 2.
Proof.
  split; [pose proof (COS_bound t); lra|].
  destruct (Rle_dec 0 t) as [H|H]; [now apply one_sub_cos_le_nonneg|].
  rewrite <- (cos_neg t). replace (t * t / 2) with ((- t) * (- t) / 2) by field.
  apply one_sub_cos_le_nonneg. lra.
Qed.

(* the squared norm of the linearisation remainder of a rotation, as a function of the angle *)
Definition rot_rem2 (t : R) : R := (1 - cos t) * (1 - cos t) + (t - sin t) * (t - sin t).

Lemma rot_rem2_closed t : rot_rem2 t = 2 - 2 * cos t - 2 * t * sin t + t * t.
Proof.
  unfold rot_rem2. pose proof (sin2_cos2 t) as E. unfold Rsqr in E.
  replace (2 - 2 * cos t - 2 * t * sin t + t * t)
    with (1 + (sin t * sin t + cos t * cos t) - 2 * cos t - 2 * t * sin t + t * t) by (rewrite E; ring).
  ring.
Qed.

Lemma rot_rem2_nonneg t : 0 <= rot_rem2 t.
Proof.
  unfold rot_rem2. pose proof (Rle_0_sqr (1 - cos t)) as A. pose proof (Rle_0_sqr (t - sin t)) as B.
  unfold Rsqr in A, B. lra.
Qed.

Lemma rot_rem2_le_nonneg t : 0 <= t -> rot_rem2 t <= t * t * t * t / 4.
Proof.
  intros Ht. rewrite rot_rem2_closed.
  assert (H : 0 <= (fun x => x * x * x * x / 4 - 2 + 2 * cos x + 2 * x * sin x - x * x) t).
  { apply (nonneg_of_deriv (fun x => x * x * x * x / 4 - 2 + 2 * cos x + 2 * x * sin x - x * x)
             (fun x => x * (x * x - 2 * (1 - cos x)))); [cbv beta; rewrite cos_0, sin_0; lra| | |exact Ht].
    - intros c _. apply is_derive_Reals. auto_derive; [exact I|field].
    - intros c Hc. pose proof (one_sub_cos_bounds c) as [_ Hb].
      apply Rmult_le_pos; [exact Hc|lra]. }
  cbv beta in H. lra.
Qed.

(* (1 - cos t)^2 + (t - sin t)^2 <= t^4/4 for every real t *)
Lemma rot_rem2_le t : rot_rem2 t <= t * t * t * t / 4.
Proof.
  destruct (Rle_dec 0 t) as [H|H]; [now apply rot_rem2_le_nonneg|].
  assert (E : rot_rem2 t = rot_rem2 (- t)).
  { unfold rot_rem2. rewrite cos_neg, sin_neg. ring. }
  rewrite E. replace (t * t * t * t / 4) with ((- t) * (- t) * (- t) * (- t) / 4) by field.
  apply rot_rem2_le_nonneg. lra.
Qed.

(* ------------------------------------------------------------------------------------------------ part 2 *)
(* points as coordinate functions nat -> R (the model's [vget ROps p]) *)
Definition rot2 (t : R) (s : nat -> R) (i : nat) : R :=
  match i with
  | O => cos t * s 0%nat - sin t * s 1%nat
  | _ => sin t * s 0%nat + cos t * s 1%nat
  end.

Definition cross (u v : nat -> R) (i : nat) : R :=
  match i with
  | O => u 1%nat * v 2%nat - u 2%nat * v 1%nat
  | S O => u 2%nat * v 0%nat - u 0%nat * v 2%nat
  | _ => u 0%nat * v 1%nat - u 1%nat * v 0%nat
  end.

(* Rodrigues: R = I + sin t K + (1 - cos t) K^2, K = skew(k) *)
Definition rodrigues (k : nat -> R) (t : R) (s : nat -> R) (i : nat) : R :=
  s i + sin t * cross k s i + (1 - cos t) * cross k (cross k s) i.

Definition sq2 (s : nat -> R) : R := s 0%nat * s 0%nat + s 1%nat * s 1%nat.
Definition sq3 (s : nat -> R) : R := s 0%nat * s 0%nat + s 1%nat * s 1%nat + s 2%nat * s 2%nat.
Definition dot3 (u v : nat -> R) : R := u 0%nat * v 0%nat + u 1%nat * v 1%nat + u 2%nat * v 2%nat.

(* sanity of the definitions: both are isometries, the axis is fixed, and a rotation about e_z is the planar one *)
Lemma rot2_isometry t s : sq2 (rot2 t s) = sq2 s.
Proof.
  unfold sq2, rot2. pose proof (sin2_cos2 t) as E. unfold Rsqr in E.
  replace (s 0%nat * s 0%nat + s 1%nat * s 1%nat)
    with ((sin t * sin t + cos t * cos t) * (s 0%nat * s 0%nat + s 1%nat * s 1%nat)) by (rewrite E; ring).
  ring.
Qed.

Lemma rodrigues_isometry k t s : sq3 k = 1 -> sq3 (rodrigues k t s) = sq3 s.
Proof.
  intros Hk. pose proof (sin2_cos2 t) as E. unfold Rsqr in E.
  assert (G : sq3 (rodrigues k t s) - sq3 s =
              (sq3 k * sq3 s - dot3 k s * dot3 k s) *
              (sin t * sin t + (1 - cos t) * (1 - cos t) * sq3 k - 2 * (1 - cos t))).
  { unfold sq3, dot3, rodrigues, cross. ring. }
  rewrite Hk in G.
  replace (sin t * sin t + (1 - cos t) * (1 - cos t) * 1 - 2 * (1 - cos t))
    with ((sin t * sin t + cos t * cos t) - 1) in G by ring.
  rewrite E in G. lra.
Qed.

Lemma rodrigues_axis k t : rodrigues k t k 0%nat = k 0%nat /\ rodrigues k t k 1%nat = k 1%nat /\ rodrigues k t k 2%nat = k 2%nat.
Proof. unfold rodrigues, cross. repeat split; ring. Qed.

Lemma rodrigues_ez t s :
  let ez := fun i => match i with 2%nat => 1 | _ => 0 end in
  rodrigues ez t s 0%nat = rot2 t s 0%nat /\ rodrigues ez t s 1%nat = rot2 t s 1%nat /\ rodrigues ez t s 2%nat = s 2%nat.
Proof. cbv zeta. unfold rodrigues, cross, rot2. repeat split; ring. Qed.

(* the linearisation remainder, 2D:  |((I + t [[0,-1],[1,0]]) - R(t)) s|^2 = ((1 - cos t)^2 + (t - sin t)^2) |s|^2 <= t^4/4 |s|^2 *)
Lemma rot2_remainder_eq t s :
  sq2 (fun i => match i with O => s 0%nat - t * s 1%nat | _ => s 1%nat + t * s 0%nat end - rot2 t s i) = rot_rem2 t * sq2 s.
Proof. unfold sq2, rot2, rot_rem2. ring. Qed.

Lemma rot2_remainder_le t s :
  sq2 (fun i => match i with O => s 0%nat - t * s 1%nat | _ => s 1%nat + t * s 0%nat end - rot2 t s i) <= t ^ 4 / 4 * sq2 s.
Proof.
  rewrite rot2_remainder_eq. apply Rmult_le_compat_r.
  - unfold sq2. pose proof (Rle_0_sqr (s 0%nat)) as A. pose proof (Rle_0_sqr (s 1%nat)) as B. unfold Rsqr in A, B. lra.
  - replace (t ^ 4) with (t * t * t * t) by ring. apply rot_rem2_le.
Qed.

(* the linearisation remainder, 3D, rotation of angle t about the unit axis k:
   (I + t K - R) s = (t - sin t) k x s - (1 - cos t) k x (k x s), the two vectors are orthogonal and both have squared
   norm |s|^2 - (k.s)^2 *)
Lemma rodrigues_remainder_eq k t s : sq3 k = 1 ->
  sq3 (fun i => s i + t * cross k s i - rodrigues k t s i) = rot_rem2 t * (sq3 s - dot3 k s * dot3 k s).
Proof.
  intros Hk.
  assert (G : sq3 (fun i => s i + t * cross k s i - rodrigues k t s i) =
              (t - sin t) * (t - sin t) * (sq3 k * sq3 s - dot3 k s * dot3 k s) +
              (1 - cos t) * (1 - cos t) * (sq3 k * (sq3 k * sq3 s - dot3 k s * dot3 k s))).
  { unfold sq3, dot3, rodrigues, cross. ring. }
  rewrite G, Hk. unfold rot_rem2. ring.
Qed.

Lemma sq3_nonneg s : 0 <= sq3 s.
Proof.
  unfold sq3. pose proof (Rle_0_sqr (s 0%nat)) as A. pose proof (Rle_0_sqr (s 1%nat)) as B.
  pose proof (Rle_0_sqr (s 2%nat)) as C. unfold Rsqr in A, B, C. lra.
Qed.

Lemma sq2_nonneg s : 0 <= sq2 s.
Proof.
  unfold sq2. pose proof (Rle_0_sqr (s 0%nat)) as A. pose proof (Rle_0_sqr (s 1%nat)) as B. unfold Rsqr in A, B. lra.
Qed.

(* Cauchy-Schwarz through Lagrange's identity *)
Lemma cauchy_schwarz_2 (a0 a1 b0 b1 : R) :
  (a0 * b0 + a1 * b1) * (a0 * b0 + a1 * b1) <= (a0 * a0 + a1 * a1) * (b0 * b0 + b1 * b1).
Proof. pose proof (Rle_0_sqr (a0 * b1 - a1 * b0)) as A. unfold Rsqr in A. lra. Qed.

Lemma cauchy_schwarz_3 (a0 a1 a2 b0 b1 b2 : R) :
  (a0 * b0 + a1 * b1 + a2 * b2) * (a0 * b0 + a1 * b1 + a2 * b2) <=
  (a0 * a0 + a1 * a1 + a2 * a2) * (b0 * b0 + b1 * b1 + b2 * b2).
Proof.
  pose proof (Rle_0_sqr (a0 * b1 - a1 * b0)) as A. pose proof (Rle_0_sqr (a1 * b2 - a2 * b1)) as B.
  pose proof (Rle_0_sqr (a2 * b0 - a0 * b2)) as C. unfold Rsqr in A, B, C. lra.
Qed.

Lemma rodrigues_remainder_le k t s : sq3 k = 1 ->
  sq3 (fun i => s i + t * cross k s i - rodrigues k t s i) <= t ^ 4 / 4 * sq3 s.
Proof.
  intros Hk. rewrite (rodrigues_remainder_eq k t s Hk).
  assert (H1 : 0 <= sq3 s - dot3 k s * dot3 k s).
  { pose proof (cauchy_schwarz_3 (k 0%nat) (k 1%nat) (k 2%nat) (s 0%nat) (s 1%nat) (s 2%nat)) as CS.
    fold (dot3 k s) in CS. fold (sq3 k) in CS. fold (sq3 s) in CS. rewrite Hk in CS. lra. }
  assert (H2 : sq3 s - dot3 k s * dot3 k s <= sq3 s).
  { pose proof (Rle_0_sqr (dot3 k s)) as A. unfold Rsqr in A. lra. }
  pose proof (rot_rem2_le t) as H3. pose proof (rot_rem2_nonneg t) as H4.
  replace (t ^ 4) with (t * t * t * t) by ring.
  apply Rle_trans with (t * t * t * t / 4 * (sq3 s - dot3 k s * dot3 k s)).
  - apply Rmult_le_compat_r; assumption.
  - apply Rmult_le_compat_l; [lra|exact H2].
Qed.

(* ------------------------------------------------------------------------------------------------ part 3 *)
(* abstract least squares: Pythagoras from the normal equations alone (z is ANY solution of J^T (J z - Y) = 0) *)
Section NormalEquations.
Variables (n k : nat) (J : nat -> nat -> R) (Y : nat -> R) (z : nat -> R).
Hypothesis Hz : forall i, (i < k)%nat -> grad n k J Y z i = 0.

Definition Jerr2 (x : nat -> R) : R :=
  Rsum n (fun r => Jx k J (fun c => z c - x c) r * Jx k J (fun c => z c - x c) r).

Lemma pythagoras_normal x : cost n k J Y x = cost n k J Y z + Jerr2 x.
Proof.
  unfold cost, Jerr2.
  assert (Hlin : forall r, Jx k J x r - Y r = (Jx k J z r - Y r) - Jx k J (fun c => z c - x c) r).
  { intros r. unfold Jx. rewrite (Rsum_ext k (fun c => J r c * (z c - x c)) (fun c => J r c * z c - J r c * x c))
      by (intros; lra). rewrite Rsum_minus. lra. }
  rewrite (Rsum_ext n _ (fun r => (Jx k J z r - Y r) * (Jx k J z r - Y r)
                                  + Jx k J (fun c => z c - x c) r * Jx k J (fun c => z c - x c) r
                                  + (- 2) * ((Jx k J z r - Y r) * Jx k J (fun c => z c - x c) r)))
    by (intros r _; rewrite Hlin; ring).
  rewrite !Rsum_plus. rewrite Rsum_scal_l.
  assert (Hcross : Rsum n (fun r => (Jx k J z r - Y r) * Jx k J (fun c => z c - x c) r) = 0).
  { unfold Jx at 2.
    rewrite (Rsum_ext n _ (fun r => Rsum k (fun c => (z c - x c) * (J r c * (Jx k J z r - Y r)))))
      by (intros; rewrite <- Rsum_scal_l; apply Rsum_ext; intros; lra).
    rewrite Rsum_swap. apply Rsum_zero. intros c Hc. rewrite Rsum_scal_l.
    fold (grad n k J Y z c). rewrite Hz by exact Hc. lra. }
  rewrite Hcross. lra.
Qed.

Lemma cost_nonneg x : 0 <= cost n k J Y x.
Proof. unfold cost. apply Rsum_nonneg. intros r _. pose proof (Rle_0_sqr (Jx k J x r - Y r)) as A. exact A. Qed.

(* |J (z - x)|^2 <= cost x for every x *)
Lemma Jerr2_le_cost x : Jerr2 x <= cost n k J Y x.
Proof. rewrite (pythagoras_normal x). pose proof (cost_nonneg z). lra. Qed.

Lemma Jerr2_nonneg x : 0 <= Jerr2 x.
Proof. unfold Jerr2. apply Rsum_nonneg. intros r _. apply Rle_0_sqr. Qed.

(* if every residual of x is bounded, r_i(x)^2 <= B * w_i, then |J (z - x)|^2 <= B * sum w_i *)
Lemma Jerr2_le_of_residuals x (B : R) (w : nat -> R) :
  (forall r, (r < n)%nat -> (Jx k J x r - Y r) * (Jx k J x r - Y r) <= B * w r) ->
  Jerr2 x <= B * Rsum n w.
Proof.
  intros Hres. apply Rle_trans with (cost n k J Y x); [apply Jerr2_le_cost|].
  unfold cost. rewrite <- Rsum_scal_l. apply Rsum_le. exact Hres.
Qed.

(* with a lower bound lam on the eigenvalues of J^T J: lam |v|^2 <= |J v|^2 *)
Lemma param_error_of_Jerr2 x (lam C : R) :
  0 < lam ->
  (forall v : nat -> R, lam * Rsum k (fun a => v a * v a) <= Rsum n (fun r => Jx k J v r * Jx k J v r)) ->
  Jerr2 x <= C ->
  Rsum k (fun a => (z a - x a) * (z a - x a)) <= C / lam.
Proof.
  intros Hl Hev HC. pose proof (Hev (fun c => z c - x c)) as H. fold (Jerr2 x) in H. cbv beta in H.
  apply Rmult_le_reg_l with lam; [exact Hl|].
  replace (lam * (C / lam)) with C by (field; lra). lra.
Qed.

End NormalEquations.

(* ------------------------------------------------------------------------------------------------ part 4 *)
(* the model's rows.  Triples are ((source, target), normal). *)
Definition dtr : (list R * list R) * list R := (([], []), []).
Definition tsrc (triples : list ((list R * list R) * list R)) (r : nat) : list R := fst (fst (nth r triples dtr)).
Definition ttgt (triples : list ((list R * list R) * list R)) (r : nat) : list R := snd (fst (nth r triples dtr)).
Definition tnrm (triples : list ((list R * list R) * list R)) (r : nat) : list R := snd (nth r triples dtr).

Lemma Jp_nth d triples r c : (r < length triples)%nat ->
  Jp d triples r c = vg (p2p_row ROps d (tsrc triples r) (tnrm triples r)) c.
Proof.
  intros Hr. unfold Jp, tr_rows, tsrc, tnrm.
  set (f := fun tr : (list R * list R) * list R => p2p_row ROps d (fst (fst tr)) (snd tr)).
  rewrite (nth_indep _ [] (f dtr)) by (now rewrite map_length).
  rewrite (map_nth f). reflexivity.
Qed.

Lemma Yp_nth ps triples r : (r < length triples)%nat ->
  Yp ps triples r = p2p_y ROps ps (tsrc triples r) (ttgt triples r) (tnrm triples r).
Proof.
  intros Hr. unfold Yp, tr_ys, tsrc, ttgt, tnrm.
  set (f := fun tr : (list R * list R) * list R => p2p_y ROps ps (fst (fst tr)) (snd (fst tr)) (snd tr)).
  rewrite (nth_indep _ 0 (f dtr)) by (now rewrite map_length).
  rewrite (map_nth f). reflexivity.
Qed.

(* the true parameters, in the estimator's parameter order: 2D (tau_x, tau_y, w), 3D (tau, theta * axis) *)
Definition xtrue2 (tau : nat -> R) (theta : R) (c : nat) : R :=
  match c with 0%nat => tau 0%nat | 1%nat => tau 1%nat | _ => theta end.
Definition xtrue3 (tau k : nat -> R) (theta : R) (c : nat) : R :=
  match c with
  | 0%nat => tau 0%nat | 1%nat => tau 1%nat | 2%nat => tau 2%nat
  | 3%nat => theta * k 0%nat | 4%nat => theta * k 1%nat | _ => theta * k 2%nat
  end.

(* stored coordinates: Cartesian (ps = d) or homogeneous with the same last coordinate on both points *)
Definition same_w (d ps : nat) (s t : list R) : Prop := ps = d \/ (ps = S d /\ vg s d = vg t d).

Lemma p2p_y_same_w d ps s t n : same_w d ps s t -> p2p_y ROps ps s t n = p2p_y ROps d s t n.
Proof. intros [->|[-> H]]; [reflexivity|now apply p2p_y_homogeneous]. Qed.

(* one correspondence, 2D: the linearised residual of the true parameters is at most theta^2/2 |s| *)
Lemma p2p_true_residual_2d theta tau ps (s t n : list R) :
  sq2 (vg n) = 1 -> same_w 2 ps s t ->
  (forall c, (c < 2)%nat -> vg t c = rot2 theta (vg s) c + tau c) ->
  (Rsum 3 (fun c => vg (p2p_row ROps 2 s n) c * xtrue2 tau theta c) - p2p_y ROps ps s t n) *
  (Rsum 3 (fun c => vg (p2p_row ROps 2 s n) c * xtrue2 tau theta c) - p2p_y ROps ps s t n)
  <= theta ^ 4 / 4 * sq2 (vg s).
Proof.
  intros Hn Hw Ht. rewrite (p2p_y_same_w 2 ps s t n Hw). rewrite p2p_residual_identity_2d.
  cbn [xtrue2]. rewrite (Ht 0%nat), (Ht 1%nat) by lia.
  set (d0 := vg s 0 - theta * vg s 1 + tau 0%nat - (rot2 theta (vg s) 0 + tau 0%nat)).
  set (d1 := vg s 1 + theta * vg s 0 + tau 1%nat - (rot2 theta (vg s) 1 + tau 1%nat)).
  pose proof (cauchy_schwarz_2 (vg n 0) (vg n 1) d0 d1) as CS.
  unfold sq2 in Hn. rewrite Hn in CS.
  pose proof (rot2_remainder_le theta (vg s)) as Hrem.
  assert (E : d0 * d0 + d1 * d1 =
              sq2 (fun i => match i with O => vg s 0 - theta * vg s 1 | _ => vg s 1 + theta * vg s 0 end - rot2 theta (vg s) i)).
  { unfold sq2, d0, d1. ring. }
  lra.
Qed.

(* one correspondence, 3D *)
Lemma p2p_true_residual_3d theta tau k ps (s t n : list R) :
  sq3 (vg n) = 1 -> sq3 k = 1 -> same_w 3 ps s t ->
  (forall c, (c < 3)%nat -> vg t c = rodrigues k theta (vg s) c + tau c) ->
  (Rsum 6 (fun c => vg (p2p_row ROps 3 s n) c * xtrue3 tau k theta c) - p2p_y ROps ps s t n) *
  (Rsum 6 (fun c => vg (p2p_row ROps 3 s n) c * xtrue3 tau k theta c) - p2p_y ROps ps s t n)
  <= theta ^ 4 / 4 * sq3 (vg s).
Proof.
  intros Hn Hk Hw Ht. rewrite (p2p_y_same_w 3 ps s t n Hw). rewrite p2p_residual_identity_3d.
  cbn [xtrue3]. rewrite (Ht 0%nat), (Ht 1%nat), (Ht 2%nat) by lia.
  set (d0 := vg s 0 + (theta * k 1%nat * vg s 2 - theta * k 2%nat * vg s 1) + tau 0%nat - (rodrigues k theta (vg s) 0 + tau 0%nat)).
  set (d1 := vg s 1 + (theta * k 2%nat * vg s 0 - theta * k 0%nat * vg s 2) + tau 1%nat - (rodrigues k theta (vg s) 1 + tau 1%nat)).
  set (d2 := vg s 2 + (theta * k 0%nat * vg s 1 - theta * k 1%nat * vg s 0) + tau 2%nat - (rodrigues k theta (vg s) 2 + tau 2%nat)).
  pose proof (cauchy_schwarz_3 (vg n 0) (vg n 1) (vg n 2) d0 d1 d2) as CS.
  unfold sq3 in Hn. rewrite Hn in CS.
  pose proof (rodrigues_remainder_le k theta (vg s) Hk) as Hrem.
  assert (E : d0 * d0 + d1 * d1 + d2 * d2 =
              sq3 (fun i => vg s i + theta * cross k (vg s) i - rodrigues k theta (vg s) i)).
  { unfold sq3, d0, d1, d2, cross. ring. }
  lra.
Qed.

(* exact-motion data: unit normals, stored coordinates, targets = R(theta) source + tau *)
Definition exact_motion_2d (theta : R) (tau : nat -> R) (ps : nat) (triples : list ((list R * list R) * list R)) : Prop :=
  forall r, (r < length triples)%nat ->
    sq2 (vg (tnrm triples r)) = 1 /\ same_w 2 ps (tsrc triples r) (ttgt triples r) /\
    (forall c, (c < 2)%nat -> vg (ttgt triples r) c = rot2 theta (vg (tsrc triples r)) c + tau c).

Definition exact_motion_3d (theta : R) (k tau : nat -> R) (ps : nat) (triples : list ((list R * list R) * list R)) : Prop :=
  forall r, (r < length triples)%nat ->
    sq3 (vg (tnrm triples r)) = 1 /\ same_w 3 ps (tsrc triples r) (ttgt triples r) /\
    (forall c, (c < 3)%nat -> vg (ttgt triples r) c = rodrigues k theta (vg (tsrc triples r)) c + tau c).

(* cost of the true parameters *)
Lemma p2p_true_cost_2d theta tau ps triples : exact_motion_2d theta tau ps triples ->
  cost (length triples) 3 (Jp 2 triples) (Yp ps triples) (xtrue2 tau theta)
  <= theta ^ 4 / 4 * Rsum (length triples) (fun r => sq2 (vg (tsrc triples r))).
Proof.
  intros Hm. unfold cost. rewrite <- Rsum_scal_l. apply Rsum_le. intros r Hr.
  destruct (Hm r Hr) as (Hn & Hw & Ht). unfold Jx. rewrite Yp_nth by exact Hr.
  rewrite (Rsum_ext 3 _ (fun c => vg (p2p_row ROps 2 (tsrc triples r) (tnrm triples r)) c * xtrue2 tau theta c))
    by (intros c _; now rewrite Jp_nth).
  now apply p2p_true_residual_2d.
Qed.

Lemma p2p_true_cost_3d theta k tau ps triples : sq3 k = 1 -> exact_motion_3d theta k tau ps triples ->
  cost (length triples) 6 (Jp 3 triples) (Yp ps triples) (xtrue3 tau k theta)
  <= theta ^ 4 / 4 * Rsum (length triples) (fun r => sq3 (vg (tsrc triples r))).
Proof.
  intros Hk Hm. unfold cost. rewrite <- Rsum_scal_l. apply Rsum_le. intros r Hr.
  destruct (Hm r Hr) as (Hn & Hw & Ht). unfold Jx. rewrite Yp_nth by exact Hr.
  rewrite (Rsum_ext 6 _ (fun c => vg (p2p_row ROps 3 (tsrc triples r) (tnrm triples r)) c * xtrue3 tau k theta c))
    by (intros c _; now rewrite Jp_nth).
  now apply p2p_true_residual_3d.
Qed.

Lemma Jerr2_pow n k J z x :
  Rsum n (fun r => (Rsum k (fun a => J r a * (z a - x a))) ^ 2) = Jerr2 n k J z x.
Proof. unfold Jerr2, Jx. apply Rsum_ext. intros r _. ring. Qed.

(* every solution z of the normal equations of the linearised problem built from exact-motion data:
   |J (z - x_true)|^2 <= theta^4/4 sum_i |s_i|^2 *)
Theorem p2p_rotation_second_order_2d theta tau ps triples (z : nat -> R) :
  exact_motion_2d theta tau ps triples ->
  (forall i, (i < 3)%nat -> grad (length triples) 3 (Jp 2 triples) (Yp ps triples) z i = 0) ->
  Rsum (length triples) (fun r => (Rsum 3 (fun a => Jp 2 triples r a * (z a - xtrue2 tau theta a))) ^ 2)
  <= theta ^ 4 / 4 * Rsum (length triples) (fun r => sq2 (vg (tsrc triples r))).
Proof.
  intros Hm Hz. rewrite Jerr2_pow.
  apply Rle_trans with (cost (length triples) 3 (Jp 2 triples) (Yp ps triples) (xtrue2 tau theta)).
  - now apply Jerr2_le_cost.
  - now apply p2p_true_cost_2d.
Qed.

Theorem p2p_rotation_second_order_3d theta k tau ps triples (z : nat -> R) :
  sq3 k = 1 -> exact_motion_3d theta k tau ps triples ->
  (forall i, (i < 6)%nat -> grad (length triples) 6 (Jp 3 triples) (Yp ps triples) z i = 0) ->
  Rsum (length triples) (fun r => (Rsum 6 (fun a => Jp 3 triples r a * (z a - xtrue3 tau k theta a))) ^ 2)
  <= theta ^ 4 / 4 * Rsum (length triples) (fun r => sq3 (vg (tsrc triples r))).
Proof.
  intros Hk Hm Hz. rewrite Jerr2_pow.
  apply Rle_trans with (cost (length triples) 6 (Jp 3 triples) (Yp ps triples) (xtrue3 tau k theta)).
  - now apply Jerr2_le_cost.
  - now apply p2p_true_cost_3d.
Qed.

(* the form measured by the oracle: |J (z - x_true)| <= theta^2/2 sqrt(sum |s_i|^2) *)
Lemma sqrt_form (E S theta : R) : 0 <= E -> 0 <= S -> E <= theta ^ 4 / 4 * S -> sqrt E <= theta ^ 2 / 2 * sqrt S.
Proof.
  intros HE HS H.
  assert (Hq : 0 <= theta ^ 2 / 2) by (pose proof (Rle_0_sqr theta) as A; unfold Rsqr in A; simpl; lra).
  replace (theta ^ 2 / 2) with (sqrt (theta ^ 2 / 2 * (theta ^ 2 / 2))) by (now apply sqrt_square).
  rewrite <- sqrt_mult_alt by (apply Rmult_le_pos; exact Hq).
  apply sqrt_le_1_alt. replace (theta ^ 2 / 2 * (theta ^ 2 / 2) * S) with (theta ^ 4 / 4 * S) by field. exact H.
Qed.

(* parameter error from a lower bound lam on the spectrum of J^T J (lam |v|^2 <= |J v|^2 for every v) *)
Theorem p2p_rotation_param_error_2d theta tau ps triples (z : nat -> R) lam :
  exact_motion_2d theta tau ps triples ->
  (forall i, (i < 3)%nat -> grad (length triples) 3 (Jp 2 triples) (Yp ps triples) z i = 0) ->
  0 < lam ->
  (forall v : nat -> R, lam * Rsum 3 (fun a => v a * v a) <=
                        Rsum (length triples) (fun r => Jx 3 (Jp 2 triples) v r * Jx 3 (Jp 2 triples) v r)) ->
  Rsum 3 (fun a => (z a - xtrue2 tau theta a) * (z a - xtrue2 tau theta a))
  <= theta ^ 4 / 4 * Rsum (length triples) (fun r => sq2 (vg (tsrc triples r))) / lam.
Proof.
  intros Hm Hz Hl Hev. apply (param_error_of_Jerr2 (length triples) 3 (Jp 2 triples) z _ lam _ Hl Hev).
  rewrite <- Jerr2_pow. now apply (p2p_rotation_second_order_2d theta tau ps).
Qed.

Theorem p2p_rotation_param_error_3d theta k tau ps triples (z : nat -> R) lam :
  sq3 k = 1 -> exact_motion_3d theta k tau ps triples ->
  (forall i, (i < 6)%nat -> grad (length triples) 6 (Jp 3 triples) (Yp ps triples) z i = 0) ->
  0 < lam ->
  (forall v : nat -> R, lam * Rsum 6 (fun a => v a * v a) <=
                        Rsum (length triples) (fun r => Jx 6 (Jp 3 triples) v r * Jx 6 (Jp 3 triples) v r)) ->
  Rsum 6 (fun a => (z a - xtrue3 tau k theta a) * (z a - xtrue3 tau k theta a))
  <= theta ^ 4 / 4 * Rsum (length triples) (fun r => sq3 (vg (tsrc triples r))) / lam.
Proof.
  intros Hk Hm Hz Hl Hev. apply (param_error_of_Jerr2 (length triples) 6 (Jp 3 triples) z _ lam _ Hl Hev).
  rewrite <- Jerr2_pow. now apply (p2p_rotation_second_order_3d theta k tau ps).
Qed.

(* ---------------- end to end: the estimate returned by the modelled estimator ---------------- *)
Section EndToEnd.
Variable inverse_of : nat -> list (list R) -> list (list R).
Variable svd_of : nat -> list (list R) -> (list (list R) * list R) * list (list R).
Variable fill : R.

Theorem p2p_estimate_rotation_second_order_2d ps triples (st st2 : ls_state (T:=R)) (H : list (list R)) theta tau :
  ready 3 st -> (1 <= length triples)%nat -> exact_motion_2d theta tau ps triples ->
  p2p_estimate ROps inverse_of svd_of fill true 2 ps triples st = Some (st2, H) ->
  exists st1 x,
    p2p_load ROps inverse_of svd_of fill true 2 ps triples st = Some st1 /\
    ls_estimate_svd ROps svd_of st1 = Some (st2, x) /\ H = p2p_scatter ROps 2 x /\
    (svd_contract 3 (ls_JtJ ROps st1) (svd_of 3 (ls_JtJ ROps st1)) -> svd_all_above svd_of st1 ->
     let n := length triples in
     let z := ls_z st1 (svd_pinv ROps 3 (svd_thr svd_of st1) (svd_of 3 (ls_JtJ ROps st1))) in
     (forall i, (i < 3)%nat -> vg x i = Rsum 3 (fun l => mget ROps (ls_A st) i l * z l) + vg (ls_b st) i) /\
     Rsum n (fun r => (Rsum 3 (fun a => Jp 2 triples r a * (z a - xtrue2 tau theta a))) ^ 2)
     <= theta ^ 4 / 4 * Rsum n (fun r => sq2 (vg (tsrc triples r)))).
Proof.
  intros Hr Hn Hm He.
  destruct (p2p_estimate_correct inverse_of svd_of fill 2 ps triples st st2 H (or_introl eq_refl) Hr Hn He)
    as (st1 & x & El & Es & EH & Hrest).
  exists st1, x. repeat (split; [assumption|]). intros Hc Hab.
  destruct (Hrest Hc Hab) as (P1 & P2 & _). cbv zeta in P1, P2. cbn [p2p_k] in P1, P2.
  split; [exact P1|]. now apply (p2p_rotation_second_order_2d theta tau ps).
Qed.

Theorem p2p_estimate_rotation_second_order_3d ps triples (st st2 : ls_state (T:=R)) (H : list (list R)) theta k tau :
  ready 6 st -> (1 <= length triples)%nat -> sq3 k = 1 -> exact_motion_3d theta k tau ps triples ->
  p2p_estimate ROps inverse_of svd_of fill true 3 ps triples st = Some (st2, H) ->
  exists st1 x,
    p2p_load ROps inverse_of svd_of fill true 3 ps triples st = Some st1 /\
    ls_estimate_svd ROps svd_of st1 = Some (st2, x) /\ H = p2p_scatter ROps 3 x /\
    (svd_contract 6 (ls_JtJ ROps st1) (svd_of 6 (ls_JtJ ROps st1)) -> svd_all_above svd_of st1 ->
     let n := length triples in
     let z := ls_z st1 (svd_pinv ROps 6 (svd_thr svd_of st1) (svd_of 6 (ls_JtJ ROps st1))) in
     (forall i, (i < 6)%nat -> vg x i = Rsum 6 (fun l => mget ROps (ls_A st) i l * z l) + vg (ls_b st) i) /\
     Rsum n (fun r => (Rsum 6 (fun a => Jp 3 triples r a * (z a - xtrue3 tau k theta a))) ^ 2)
     <= theta ^ 4 / 4 * Rsum n (fun r => sq3 (vg (tsrc triples r)))).
Proof.
  intros Hr Hn Hk Hm He.
  destruct (p2p_estimate_correct inverse_of svd_of fill 3 ps triples st st2 H (or_intror eq_refl) Hr Hn He)
    as (st1 & x & El & Es & EH & Hrest).
  exists st1, x. repeat (split; [assumption|]). intros Hc Hab.
  destruct (Hrest Hc Hab) as (P1 & P2 & _). cbv zeta in P1, P2. cbn [p2p_k] in P1, P2.
  split; [exact P1|]. now apply (p2p_rotation_second_order_3d theta k tau ps).
Qed.

(* a freshly constructed estimator (no preconditioner: Ac = I, Bc = 0): the returned parameters x themselves *)
Lemma fresh_affine_2d (z : nat -> R) i : (i < 3)%nat ->
  Rsum 3 (fun l => mget ROps (ls_A (p2p_new ROps 2)) i l * z l) + vg (ls_b (p2p_new ROps 2)) i = z i.
Proof. intros Hi. destruct i as [|[|[|i]]]; [| | |lia]; cbn; ring. Qed.

Lemma fresh_affine_3d (z : nat -> R) i : (i < 6)%nat ->
  Rsum 6 (fun l => mget ROps (ls_A (p2p_new ROps 3)) i l * z l) + vg (ls_b (p2p_new ROps 3)) i = z i.
Proof. intros Hi. destruct i as [|[|[|[|[|[|i]]]]]]; [| | | | | |lia]; cbn; ring. Qed.

Theorem p2p_fresh_rotation_second_order_2d ps triples (st2 : ls_state (T:=R)) (H : list (list R)) theta tau :
  (1 <= length triples)%nat -> exact_motion_2d theta tau ps triples ->
  p2p_estimate ROps inverse_of svd_of fill true 2 ps triples (p2p_new ROps 2) = Some (st2, H) ->
  exists st1 x,
    p2p_load ROps inverse_of svd_of fill true 2 ps triples (p2p_new ROps 2) = Some st1 /\ H = p2p_scatter ROps 2 x /\
    (svd_contract 3 (ls_JtJ ROps st1) (svd_of 3 (ls_JtJ ROps st1)) -> svd_all_above svd_of st1 ->
     let n := length triples in
     Rsum n (fun r => (Rsum 3 (fun a => Jp 2 triples r a * (vg x a - xtrue2 tau theta a))) ^ 2)
     <= theta ^ 4 / 4 * Rsum n (fun r => sq2 (vg (tsrc triples r)))).
Proof.
  intros Hn Hm He.
  assert (Hr : ready 3 (p2p_new ROps 2)) by (split; [repeat split; cbn; auto|]; cbn; auto).
  destruct (p2p_estimate_rotation_second_order_2d ps triples _ st2 H theta tau Hr Hn Hm He)
    as (st1 & x & El & Es & EH & Hrest).
  exists st1, x. split; [exact El|]. split; [exact EH|]. intros Hc Hab.
  destruct (Hrest Hc Hab) as (P1 & P2). cbv zeta in P1, P2. cbv zeta.
  erewrite Rsum_ext; [exact P2|].
  intros r _. cbv beta. f_equal. apply Rsum_ext. intros a Ha. rewrite (P1 a Ha), fresh_affine_2d by exact Ha. reflexivity.
Qed.

Theorem p2p_fresh_rotation_second_order_3d ps triples (st2 : ls_state (T:=R)) (H : list (list R)) theta k tau :
  (1 <= length triples)%nat -> sq3 k = 1 -> exact_motion_3d theta k tau ps triples ->
  p2p_estimate ROps inverse_of svd_of fill true 3 ps triples (p2p_new ROps 3) = Some (st2, H) ->
  exists st1 x,
    p2p_load ROps inverse_of svd_of fill true 3 ps triples (p2p_new ROps 3) = Some st1 /\ H = p2p_scatter ROps 3 x /\
    (svd_contract 6 (ls_JtJ ROps st1) (svd_of 6 (ls_JtJ ROps st1)) -> svd_all_above svd_of st1 ->
     let n := length triples in
     Rsum n (fun r => (Rsum 6 (fun a => Jp 3 triples r a * (vg x a - xtrue3 tau k theta a))) ^ 2)
     <= theta ^ 4 / 4 * Rsum n (fun r => sq3 (vg (tsrc triples r)))).
Proof.
  intros Hn Hk Hm He.
  assert (Hr : ready 6 (p2p_new ROps 3)) by (split; [repeat split; cbn; auto|]; cbn; auto).
  destruct (p2p_estimate_rotation_second_order_3d ps triples _ st2 H theta k tau Hr Hn Hk Hm He)
    as (st1 & x & El & Es & EH & Hrest).
  exists st1, x. split; [exact El|]. split; [exact EH|]. intros Hc Hab.
  destruct (Hrest Hc Hab) as (P1 & P2). cbv zeta in P1, P2. cbv zeta.
  erewrite Rsum_ext; [exact P2|].
  intros r _. cbv beta. f_equal. apply Rsum_ext. intros a Ha. rewrite (P1 a Ha), fresh_affine_3d by exact Ha. reflexivity.
Qed.

End EndToEnd.

(* the oracle's form *)
Theorem p2p_rotation_second_order_sqrt_2d theta tau ps triples (z : nat -> R) :
  exact_motion_2d theta tau ps triples ->
  (forall i, (i < 3)%nat -> grad (length triples) 3 (Jp 2 triples) (Yp ps triples) z i = 0) ->
  sqrt (Rsum (length triples) (fun r => (Rsum 3 (fun a => Jp 2 triples r a * (z a - xtrue2 tau theta a))) ^ 2))
  <= theta ^ 2 / 2 * sqrt (Rsum (length triples) (fun r => sq2 (vg (tsrc triples r)))).
Proof.
  intros Hm Hz. apply sqrt_form.
  - rewrite Jerr2_pow. apply Jerr2_nonneg.
  - apply Rsum_nonneg. intros; apply sq2_nonneg.
  - now apply (p2p_rotation_second_order_2d theta tau ps).
Qed.

Theorem p2p_rotation_second_order_sqrt_3d theta k tau ps triples (z : nat -> R) :
  sq3 k = 1 -> exact_motion_3d theta k tau ps triples ->
  (forall i, (i < 6)%nat -> grad (length triples) 6 (Jp 3 triples) (Yp ps triples) z i = 0) ->
  sqrt (Rsum (length triples) (fun r => (Rsum 6 (fun a => Jp 3 triples r a * (z a - xtrue3 tau k theta a))) ^ 2))
  <= theta ^ 2 / 2 * sqrt (Rsum (length triples) (fun r => sq3 (vg (tsrc triples r)))).
Proof.
  intros Hk Hm Hz. apply sqrt_form.
  - rewrite Jerr2_pow. apply Jerr2_nonneg.
  - apply Rsum_nonneg. intros; apply sq3_nonneg.
  - now apply (p2p_rotation_second_order_3d theta k tau ps).
Qed.

(* non-vacuity of the exact-motion hypotheses (any angle) *)
Lemma exact_motion_2d_example theta :
  exact_motion_2d theta (fun c => match c with O => 3 | _ => -2 end) 2
    [(([1; 0], [cos theta + 3; sin theta - 2]), [0; 1]); (([0; 2], [- (2 * sin theta) + 3; 2 * cos theta - 2]), [1; 0])].
Proof.
  intros r Hr. cbn [length] in Hr.
  destruct r as [|[|r]]; [| |lia]; (split; [unfold sq2, tnrm, vget; cbn; ring|]);
    (split; [left; reflexivity|]); intros c Hc; destruct c as [|[|c]]; try lia;
    unfold rot2, ttgt, tsrc, vget; cbn; ring.
Qed.

Lemma exact_motion_3d_example theta :
  let ez := fun i => match i with 2%nat => 1 | _ => 0 end in
  sq3 ez = 1 /\
  exact_motion_3d theta ez (fun _ => 0) 3 [(([1; 0; 5], [cos theta; sin theta; 5]), [0; 1; 0])].
Proof.
  cbv zeta. split; [unfold sq3; ring|].
  intros r Hr. cbn [length] in Hr.
  destruct r as [|r]; [|lia]. (split; [unfold sq3, tnrm, vget; cbn; ring|]).
  (split; [left; reflexivity|]). intros c Hc. destruct c as [|[|[|c]]]; try lia;
    unfold rodrigues, cross, ttgt, tsrc, vget; cbn; ring.
Qed.

(* ... and jointly with the normal equations: for the two correspondences above, z = (3 - 2 sin theta, sin theta - 2, 0)
   has zero residual, hence solves the normal equations *)
Lemma exact_motion_2d_example_normal theta :
  let triples := [(([1; 0], [cos theta + 3; sin theta - 2]), [0; 1]);
                  (([0; 2], [- (2 * sin theta) + 3; 2 * cos theta - 2]), [1; 0])] in
  let z := fun c => match c with O => 3 - 2 * sin theta | S O => sin theta - 2 | _ => 0 end in
  forall i, (i < 3)%nat -> grad (length triples) 3 (Jp 2 triples) (Yp 2 triples) z i = 0.
Proof.
  cbv zeta. intros i Hi. unfold grad, Jx, Jp, Yp, tr_rows, tr_ys, p2p_row, p2p_y, vget.
  destruct i as [|[|[|i]]]; [| | |lia]; cbn; ring.
Qed.

(* the analytic facts in explicit form *)
Lemma rotation_remainder_analytic t :
  0 <= 1 - cos t <= t ^ 2 / 2 /\
  (1 - cos t) ^ 2 + (t - sin t) ^ 2 = 2 - 2 * cos t - 2 * t * sin t + t ^ 2 /\
  (1 - cos t) ^ 2 + (t - sin t) ^ 2 <= t ^ 4 / 4.
Proof.
  pose proof (one_sub_cos_bounds t) as [A B]. pose proof (rot_rem2_closed t) as C. pose proof (rot_rem2_le t) as D.
  unfold rot_rem2 in C, D.
  replace (t ^ 2) with (t * t) by ring. replace (t ^ 4) with (t * t * t * t) by ring.
  replace ((1 - cos t) ^ 2 + (t - sin t) ^ 2) with ((1 - cos t) * (1 - cos t) + (t - sin t) * (t - sin t)) by ring.
  repeat split; assumption.
Qed.

Lemma rot2_remainder t s :
  sq2 (fun i => match i with O => s 0%nat - t * s 1%nat | _ => s 1%nat + t * s 0%nat end - rot2 t s i)
    = ((1 - cos t) ^ 2 + (t - sin t) ^ 2) * sq2 s /\
  sq2 (fun i => match i with O => s 0%nat - t * s 1%nat | _ => s 1%nat + t * s 0%nat end - rot2 t s i)
    <= t ^ 4 / 4 * sq2 s.
Proof.
  split; [|apply rot2_remainder_le]. rewrite rot2_remainder_eq. unfold rot_rem2. ring.
Qed.

Lemma rodrigues_remainder k t s : sq3 k = 1 ->
  sq3 (fun i => s i + t * cross k s i - rodrigues k t s i)
    = ((1 - cos t) ^ 2 + (t - sin t) ^ 2) * (sq3 s - dot3 k s ^ 2) /\
  sq3 (fun i => s i + t * cross k s i - rodrigues k t s i) <= t ^ 4 / 4 * sq3 s.
Proof.
  intros Hk. split; [|now apply rodrigues_remainder_le]. rewrite (rodrigues_remainder_eq k t s Hk). unfold rot_rem2. ring.
Qed.

Lemma rotations_are_rotations :
  (forall t s, sq2 (rot2 t s) = sq2 s) /\
  (forall k t s, sq3 k = 1 -> sq3 (rodrigues k t s) = sq3 s) /\
  (forall k t, rodrigues k t k 0%nat = k 0%nat /\ rodrigues k t k 1%nat = k 1%nat /\ rodrigues k t k 2%nat = k 2%nat) /\
  (forall t s, let ez := fun i => match i with 2%nat => 1 | _ => 0 end in
     rodrigues ez t s 0%nat = rot2 t s 0%nat /\ rodrigues ez t s 1%nat = rot2 t s 1%nat /\ rodrigues ez t s 2%nat = s 2%nat).
Proof.
  split; [exact rot2_isometry|]. split; [exact rodrigues_isometry|]. split; [exact rodrigues_axis|exact rodrigues_ez].
Qed.
