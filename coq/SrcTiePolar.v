(* SrcTiePolar.v — the polar and spherical coordinate maps of PolarCoordinates.hpp / SphericalCoordinates.hpp (static member
   templates of PolarTransform / SphericalTransform, regenerated from the clang AST of their instantiations at double,
   gen/SrcFunsC10.v) are the model functions of AnglesModel.v that the C10 round-trip theorems are about.  The scalar,
   Cartesian-point and homogeneous-point overloads are translated separately (Eigen's norm() of a 2/3-vector, or of
   segment<k>(0) of a homogeneous point, is read as the square root of the sum of the squared leading components): the
   three must agree — the homogeneous overload must NOT include the w component.  The equalities hold for EVERY numeric
   dictionary (the terms are convertible), hence also for the executed binary64 / binary32 instances. *)
From Coq Require Import Reals ZArith.
From Romea Require Import Num NumR AnglesModel.
From Romea.gen Require Import SrcFunsC10.

Section Polar.
Context {T : Type} (N : NumOps T).

Lemma tie_toPolar x y :
  toPolar N x y = (src_polarRange N x y, src_polarAzimut N x y) /\
  toPolar N x y = (src_polarRangeCartesian N x y, src_polarAzimutCartesian N x y) /\
  toPolar N x y = (src_polarRangeHomogeneous N x y, src_polarAzimutHomogeneous N x y).
Proof. repeat split. Qed.

Lemma tie_polarToCartesian r az : polarToCartesian N r az = (src_polarX N r az, src_polarY N r az).
Proof. reflexivity. Qed.

Lemma tie_sphericalToCartesian r az el :
  sphericalToCartesian N r az el = mkV3 (src_sphX N r az el) (src_sphY N r az el) (src_sphZ N r el).
Proof. reflexivity. Qed.

(* the model returns None where the C++ would produce NaN (range 0, or |z/range| > 1 after rounding); whenever it returns
   a value, that value is what the source's range / azimut / elevation overloads compute *)
Lemma tie_toSpherical x y z r az el :
  toSpherical N x y z = Some (r, az, el) ->
  r = src_sphRange N x y z /\ az = src_sphAzimut N x y /\ el = src_sphElevation N z (src_sphRange N x y z) /\
  r = src_sphRangeCartesian N x y z /\ el = src_sphElevationCartesian N x y z /\
  r = src_sphRangeHomogeneous N x y z /\ el = src_sphElevationHomogeneous N x y z.
Proof.
  unfold toSpherical. cbv zeta.
  destruct (nltb N _ _); [|discriminate]. destruct (nleb N _ _); [|discriminate].
  intros H. injection H as <- <- <-. repeat split.
Qed.
End Polar.
