(* LsEndToEnd.v — C07 stated on the caller's data, through the state machine.
   After ANY history on one solver object (estimate size k kept), loading a problem
       setDataSize n; rows 0..n-1 of J / Y / W taken from the lists rows / ys / ws; setPreconditionner(A, b)
   and calling one of the three estimate functions returns A z + b where z is the unique minimiser of the cost of
   THAT problem, written on rows / ys / ws themselves (not on the buffers of the object): leftovers of earlier, larger
   problems, earlier in-place weightings and earlier estimates do not enter.  Real-number instance; Eigen's LDLT /
   JacobiSVD are the contract-bound oracles of LsProofs.v. *)
From Coq Require Import Reals List Arith Lia Lra Bool Psatz.
From Romea Require Import Num NumR LinAlgBModel LinAlgBProofs LsModel LsProofs LsHistoryProofs LsWeighted.
Import ListNotations.
Local Open Scope R_scope.

(* ---------------- the costs only read the first n rows ---------------- *)
Section Ext.
Variables (n k : nat) (J J' : nat -> nat -> R) (Y Y' w w' : nat -> R).
Hypothesis HJ : forall r a, (r < n)%nat -> J r a = J' r a.
Hypothesis HY : forall r, (r < n)%nat -> Y r = Y' r.
Hypothesis Hw : forall r, (r < n)%nat -> w r = w' r.

Lemma Jx_ext x r : (r < n)%nat -> Jx k J x r = Jx k J' x r.
Proof. intros Hr. unfold Jx. apply Rsum_ext. intros c _. now rewrite HJ. Qed.
Lemma cost_ext x : cost n k J Y x = cost n k J' Y' x.
Proof. unfold cost. apply Rsum_ext. intros r Hr. now rewrite Jx_ext, HY. Qed.
Lemma grad_ext x a : grad n k J Y x a = grad n k J' Y' x a.
Proof. unfold grad. apply Rsum_ext. intros r Hr. now rewrite Jx_ext, HY, HJ. Qed.
Lemma nM_ext i j : nM n J i j = nM n J' i j.
Proof. unfold nM. apply Rsum_ext. intros r Hr. now rewrite !HJ. Qed.
Lemma wcost_ext x : wcost n k J Y w x = wcost n k J' Y' w' x.
Proof. unfold wcost. apply Rsum_ext. intros r Hr. now rewrite Jx_ext, HY, Hw. Qed.
Lemma wgrad_ext x a : wgrad n k J Y w x a = wgrad n k J' Y' w' x a.
Proof. unfold wgrad. apply Rsum_ext. intros r Hr. now rewrite Jx_ext, HY, HJ, Hw. Qed.
Lemma wnM_ext i j : wnM n J w i j = wnM n J' w' i j.
Proof. unfold wnM. apply Rsum_ext. intros r Hr. now rewrite !HJ, Hw. Qed.
End Ext.

Section EndToEnd.
Variable inverse_of : nat -> list (list R) -> list (list R).
Variable svd_of : nat -> list (list R) -> (list (list R) * list R) * list (list R).
Variable fill : R.
Variable svd_fixed : bool.
Local Notation run := (ls_run ROps inverse_of svd_of fill svd_fixed).

(* the state reached by loading a problem after any history: sizes, preconditioner and the first n rows are the
   caller's; the estimate ops are defined *)
Lemma load_after_history k hist s outs n rows ys ws A b :
  forallb keeps_estimate_size hist = true ->
  run hist (ls_new1 ROps k) = Some (s, outs) ->
  (1 <= n)%nat -> (forall i, (i < n)%nat -> length (nth i rows []) = k) ->
  exists t o, run (load_ops ROps n rows ys ws ++ [OpSetPrecond A b]) s = Some (t, o) /\
    ls_wf t /\ ls_n t = n /\ ls_k t = k /\ ls_A t = A /\ ls_b t = b /\ ls_est_ok t = true /\
    (forall r a, (r < n)%nat -> Jf t r a = mget ROps rows r a) /\
    (forall r, (r < n)%nat -> Yf t r = vget ROps ys r) /\
    (forall r, (r < n)%nat -> Wf t r = vget ROps ws r).
Proof.
  intros Hkeep Hrun Hn Hrows.
  pose proof (run_ready ROps inverse_of svd_of fill svd_fixed k hist _ s outs (ready_new1 ROps k) Hkeep Hrun) as Rd.
  destruct (run_load ROps inverse_of svd_of fill svd_fixed k n rows ys ws s Rd Hn Hrows)
    as (u & p & Hru & Wu & Nu & Ku & _ & _ & Oku & D).
  exists (ls_set_precond A b u), (p ++ [OutNone]). split.
  { rewrite run_app, Hru. reflexivity. }
  split; [exact Wu|].
  unfold ls_set_precond. cbn [ls_n ls_k ls_A ls_b].
  split; [exact Nu|]. split; [exact Ku|]. split; [reflexivity|]. split; [reflexivity|]. split; [exact Oku|].
  split; [|split].
  - intros r a Hr. unfold Jf, mget. cbn [ls_J]. destruct (D r Hr) as (E & _ & _). now rewrite E.
  - intros r Hr. unfold Yf, vget. cbn [ls_Y]. destruct (D r Hr) as (_ & E & _). exact E.
  - intros r Hr. unfold Wf, vget. cbn [ls_W]. destruct (D r Hr) as (_ & _ & E). exact E.
Qed.

(* headline *)
Theorem ls_problem_after_any_history k hist s outs n rows ys ws A b :
  forallb keeps_estimate_size hist = true ->
  run hist (ls_new1 ROps k) = Some (s, outs) ->
  (1 <= n)%nat -> (forall i, (i < n)%nat -> length (nth i rows []) = k) ->
  let J := mget ROps rows in let Y := vget ROps ys in let W := vget ROps ws in
  exists t o, run (load_ops ROps n rows ys ws ++ [OpSetPrecond A b]) s = Some (t, o) /\
    (* what the oracles are called on: J^T J resp. J^T W^2 J of the caller's rows *)
    (forall i j, (i < k)%nat -> (j < k)%nat -> mget ROps (ls_JtJ ROps t) i j = nM n J i j) /\
    (forall i j, (i < k)%nat -> (j < k)%nat -> mget ROps (ls_JtJ ROps (ls_weight ROps t)) i j = wnM n J W i j) /\
    (* estimateUsingCholeskyDecomposition *)
    (inv_contract k (ls_JtJ ROps t) (inverse_of k (ls_JtJ ROps t)) ->
     exists st x z, ls_estimate_chol ROps inverse_of t = Some (st, x) /\
       (forall i, (i < k)%nat -> vget ROps x i = Rsum k (fun l => mget ROps A i l * z l) + vget ROps b i) /\
       (forall a, (a < k)%nat -> grad n k J Y z a = 0) /\
       (forall y, cost n k J Y z <= cost n k J Y y) /\
       (forall y, cost n k J Y y = cost n k J Y z -> forall i, (i < k)%nat -> y i = z i)) /\
    (* estimateUsingSVD (repaired threshold) *)
    (svd_contract k (ls_JtJ ROps t) (svd_of k (ls_JtJ ROps t)) -> svd_all_above svd_of t ->
     exists st x z, ls_estimate_svd ROps svd_of t = Some (st, x) /\
       (forall i, (i < k)%nat -> vget ROps x i = Rsum k (fun l => mget ROps A i l * z l) + vget ROps b i) /\
       (forall a, (a < k)%nat -> grad n k J Y z a = 0) /\
       (forall y, cost n k J Y z <= cost n k J Y y) /\
       (forall y, cost n k J Y y = cost n k J Y z -> forall i, (i < k)%nat -> y i = z i)) /\
    (* weightedEstimate *)
    (inv_contract k (ls_JtJ ROps (ls_weight ROps t)) (inverse_of k (ls_JtJ ROps (ls_weight ROps t))) ->
     exists st x z, ls_weighted_estimate ROps inverse_of t = Some (st, x) /\
       (forall i, (i < k)%nat -> vget ROps x i = Rsum k (fun l => mget ROps A i l * z l) + vget ROps b i) /\
       (forall a, (a < k)%nat -> wgrad n k J Y W z a = 0) /\
       (forall y, wcost n k J Y W z <= wcost n k J Y W y) /\
       (forall y, wcost n k J Y W y = wcost n k J Y W z -> forall i, (i < k)%nat -> y i = z i)).
Proof.
  intros Hkeep Hrun Hn Hrows J Y W.
  destruct (load_after_history k hist s outs n rows ys ws A b Hkeep Hrun Hn Hrows)
    as (t & o & Hr & Wt & En & Ek & EA & Eb & Ok & HJ & HY & HW).
  exists t, o. split; [exact Hr|].
  assert (AfE : Af t = mget ROps A) by (unfold Af; now rewrite EA).
  assert (bfE : bf t = vget ROps b) by (unfold bf; now rewrite Eb).
  split; [|split; [|split; [|split]]].
  - intros i j Hi Hj. rewrite ls_JtJ_get by (rewrite Ek; assumption). rewrite En.
    apply nM_ext. exact HJ.
  - intros i j Hi Hj. rewrite weighted_JtJ_get by (rewrite Ek; assumption). rewrite En.
    apply wnM_ext; assumption.
  - intros Hc. rewrite <- Ek in Hc.
    assert (He : exists st x, ls_estimate_chol ROps inverse_of t = Some (st, x)).
    { unfold ls_estimate_chol. rewrite Ok. eauto. }
    destruct He as (st & x & He).
    destruct (ls_chol_correct inverse_of t st x Hc He) as (H1 & H2 & _ & H4 & H5).
    rewrite ?En, ?Ek, ?AfE, ?bfE in H1; rewrite ?En, ?Ek in H2; rewrite ?En, ?Ek in H4; rewrite ?En, ?Ek in H5.
    exists st, x. eexists. split; [exact He|].
    split; [exact H1|]. split; [|split].
    + intros a Ha. rewrite <- (grad_ext n k (Jf t) J (Yf t) Y HJ HY). now apply H2.
    + intros y. rewrite <- !(cost_ext n k (Jf t) J (Yf t) Y HJ HY). apply H4.
    + intros y. rewrite <- !(cost_ext n k (Jf t) J (Yf t) Y HJ HY). apply H5.
  - intros Hc Hab. rewrite <- Ek in Hc.
    assert (He : exists st x, ls_estimate_svd ROps svd_of t = Some (st, x)).
    { unfold ls_estimate_svd. rewrite Ok. eauto. }
    destruct He as (st & x & He).
    destruct (ls_svd_correct svd_of t st x Hc Hab He) as (H1 & H2 & H4 & H5).
    rewrite ?En, ?Ek, ?AfE, ?bfE in H1; rewrite ?En, ?Ek in H2; rewrite ?En, ?Ek in H4; rewrite ?En, ?Ek in H5.
    exists st, x. eexists. split; [exact He|].
    split; [exact H1|]. split; [|split].
    + intros a Ha. rewrite <- (grad_ext n k (Jf t) J (Yf t) Y HJ HY). now apply H2.
    + intros y. rewrite <- !(cost_ext n k (Jf t) J (Yf t) Y HJ HY). apply H4.
    + intros y. rewrite <- !(cost_ext n k (Jf t) J (Yf t) Y HJ HY). apply H5.
  - intros Hc. rewrite <- Ek in Hc.
    assert (He : exists st x, ls_weighted_estimate ROps inverse_of t = Some (st, x)).
    { unfold ls_weighted_estimate, ls_estimate_chol. rewrite Ok.
      rewrite (est_ok_weight ROps t Wt). rewrite Ok. eauto. }
    destruct He as (st & x & He).
    destruct (ls_weighted_correct inverse_of t st x Hc He) as (H1 & H2 & H4 & H5 & _).
    rewrite ?En, ?Ek, ?AfE, ?bfE in H1; rewrite ?En, ?Ek in H2; rewrite ?En, ?Ek in H4; rewrite ?En, ?Ek in H5.
    exists st, x. eexists. split; [exact He|].
    split; [exact H1|]. split; [|split].
    + intros a Ha. rewrite <- (wgrad_ext n k (Jf t) J (Yf t) Y (Wf t) W HJ HY HW). now apply H2.
    + intros y. rewrite <- !(wcost_ext n k (Jf t) J (Yf t) Y (Wf t) W HJ HY HW). apply H4.
    + intros y. rewrite <- !(wcost_ext n k (Jf t) J (Yf t) Y (Wf t) W HJ HY HW). apply H5.
Qed.

End EndToEnd.
