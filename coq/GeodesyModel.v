(* GeodesyModel.v — executable model of
     src/geodesy/EarthEllipsoid.cpp      (constructor, meridionalRadius, transversalRadius, GRS80)
     src/geodesy/ECEFConverter.cpp       (toECEF, toWGS84)
     src/geodesy/GeodeticCoordinates.cpp (range asserts of makeGeodeticCoordinates)
   Definitions only; proofs are in GeodesyProofs.v.  Expressions are transcribed with the C++
   association order (left to right) so that the binary64 instance follows the compiled code. *)
From Coq Require Import ZArith List Bool.
From Romea Require Import Num.
From Romea.gen Require Import RepoConstants.

Section Geodesy.
Context {T : Type} (N : NumOps T).

Local Notation "x +! y" := (nadd N x y) (at level 50, left associativity).
Local Notation "x -! y" := (nsub N x y) (at level 50, left associativity).
Local Notation "x *! y" := (nmul N x y) (at level 40, left associativity).
Local Notation "x /! y" := (ndiv N x y) (at level 40, left associativity).
Local Notation "'I1'" := (n_one N).

Record vec3 := mkV3 { vx : T; vy : T; vz : T }.
Record geodetic := mkGeo { g_lat : T; g_lon : T; g_alt : T }.

(* EarthEllipsoid(A,B): a(A), b(B), e2((a*a-b*b)/(a*a)), e(sqrt(e2)) *)
Record ellipsoid := mkEll { el_a : T; el_b : T; el_e2 : T; el_e : T }.

Definition make_ellipsoid (a b : T) : ellipsoid :=
  let e2 := (a *! a -! b *! b) /! (a *! a) in
  mkEll a b e2 (nsqrt N e2).

(* EarthEllipsoid EarthEllipsoid::GRS80(6378137.0, 6356752.314); literals regenerated from the source *)
Definition grs80 : ellipsoid :=
  make_ellipsoid (nofDec N grs80_a_m grs80_a_e) (nofDec N grs80_b_m grs80_b_e).

(* std::pow(x, 2) is modelled as x*x (exact in the reals for every sign of x; Rpower is only
   meaningful for positive bases) *)
Definition pow2 (x : T) : T := x *! x.

(* a * (1 - e2) / pow(1 - pow(e*sin(lat),2), 1.5) *)
Definition meridionalRadius (el : ellipsoid) (lat : T) : T :=
  el_a el *! (I1 -! el_e2 el) /!
  npow N (I1 -! pow2 (el_e el *! nsin N lat)) (nofDec N meridional_radius_exponent_m meridional_radius_exponent_e).

(* a * cos(lat) / sqrt(1 - pow(e*sin(lat),2)) *)
Definition transversalRadius (el : ellipsoid) (lat : T) : T :=
  el_a el *! ncos N lat /! nsqrt N (I1 -! pow2 (el_e el *! nsin N lat)).

(* const double N = a / sqrt(1.0 - e2*sin(lat)*sin(lat)) *)
Definition primeVertical (el : ellipsoid) (lat : T) : T :=
  el_a el /! nsqrt N (I1 -! el_e2 el *! nsin N lat *! nsin N lat).

(* ECEFConverter::toECEF *)
Definition toECEF (el : ellipsoid) (g : geodetic) : vec3 :=
  let lon := g_lon g in let lat := g_lat g in let alt := g_alt g in
  let Nn := primeVertical el lat in
  mkV3 ((Nn +! alt) *! ncos N lat *! ncos N lon)
       ((Nn +! alt) *! ncos N lat *! nsin N lon)
       ((Nn *! (I1 -! el_e2 el) +! alt) *! nsin N lat).

(* ---- ECEFConverter::toWGS84 ---- *)
Definition ecef_eps : T := nofDec N ecef_epsilon_m ecef_epsilon_e.

Definition hnorm (X Y : T) : T := nsqrt N (X *! X +! Y *! Y).

(* repaired code: longitude = atan2(Y, X) *)
Definition longitude_of (X Y : T) : T := natan2 N Y X.

(* the code before the repair: 2.0*atan(Y/(X+norm)).  The division is 0/0 exactly when
   X + norm = 0 and Y = 0 (C++: NaN); the model refuses those inputs instead of totalising. *)
Definition longitude_half_angle (X Y : T) : option T :=
  let d := X +! hnorm X Y in
  if neqb N d (nzero N) && neqb N Y (nzero N) then None
  else Some (ntwo N *! natan N (Y /! d)).

(* first guess: atan(Z/(norm*(1.0 - (a*e2/sqrt(X*X+Y*Y+Z*Z))))) *)
Definition lat_first_guess (el : ellipsoid) (X Y Z : T) : T :=
  natan N (Z /! (hnorm X Y *! (I1 -! (el_a el *! el_e2 el /! nsqrt N (X *! X +! Y *! Y +! Z *! Z))))).

(* loop body: atan((Z/norm)/(1.0 - (a*e2*cos(lat)/(norm*sqrt(1.0 - e2*s2))))) *)
Definition lat_body (el : ellipsoid) (Z norm lat : T) : T :=
  let s2 := nsin N lat *! nsin N lat in
  natan N ((Z /! norm) /!
           (I1 -! (el_a el *! el_e2 el *! ncos N lat /! (norm *! nsqrt N (I1 -! el_e2 el *! s2))))).

(* double delta = 1.0; while (delta > EPSILON) { e = body(lat); delta = fabs(e - lat); lat = e; } *)
Fixpoint lat_loop (fuel : nat) (el : ellipsoid) (Z norm lat delta : T) {struct fuel} : option T :=
  if nltb N ecef_eps delta then
    match fuel with
    | O => None
    | S f => let e := lat_body el Z norm lat in lat_loop f el Z norm e (nabs N (e -! lat))
    end
  else Some lat.

Definition altitude_of (el : ellipsoid) (norm lat : T) : T :=
  let s2 := nsin N lat *! nsin N lat in
  norm /! ncos N lat -! el_a el /! nsqrt N (I1 -! el_e2 el *! s2).

Definition toWGS84 (fuel : nat) (el : ellipsoid) (p : vec3) : option geodetic :=
  let X := vx p in let Y := vy p in let Z := vz p in
  let norm := hnorm X Y in
  let lon := longitude_of X Y in
  match lat_loop fuel el Z norm (lat_first_guess el X Y Z)
                 (nofDec N ecef_initial_delta_m ecef_initial_delta_e) with
  | None => None
  | Some lat => Some (mkGeo lat lon (altitude_of el norm lat))
  end.

(* the same function with the longitude formula the code had before the repair *)
Definition toWGS84_half_angle (fuel : nat) (el : ellipsoid) (p : vec3) : option geodetic :=
  match longitude_half_angle (vx p) (vy p), toWGS84 fuel el p with
  | Some lon, Some g => Some (mkGeo (g_lat g) lon (g_alt g))
  | _, _ => None
  end.

(* asserts of makeGeodeticCoordinates(latitude, longitude, altitude) *)
Definition geodetic_in_range (g : geodetic) : bool :=
  let hp := npi N /! ntwo N in
  nleb N (nneg N hp) (g_lat g) && nleb N (g_lat g) hp &&
  nleb N (nneg N (npi N)) (g_lon g) && nleb N (g_lon g) (npi N).

End Geodesy.

Arguments mkV3 {T} _ _ _. Arguments vx {T} _. Arguments vy {T} _. Arguments vz {T} _.
Arguments mkGeo {T} _ _ _. Arguments g_lat {T} _. Arguments g_lon {T} _. Arguments g_alt {T} _.
Arguments mkEll {T} _ _ _ _. Arguments el_a {T} _. Arguments el_b {T} _. Arguments el_e2 {T} _. Arguments el_e {T} _.
