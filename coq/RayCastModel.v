(* RayCastModel.v — executable model for C14: src/containers/grid/RayTracing.cpp on top of GridMapModel.
   Definitions only; generic in the numeric dictionary.  Vectors are lists of length DIM (2 or 3). *)
From Coq Require Import ZArith List Bool.
From Romea Require Import Num GridMapModel.
Import ListNotations.

Section RayCast.
Context {T : Type} (N : NumOps T).

Record caster := {
  rc_axes : list (axis (T:=T));   (* the grid mapping, one entry per axis *)
  rc_origin : list T;             (* rayOriginPoint_ *)
  rc_oidx : list Z;               (* rayOriginIndexes_ *)
  rc_eidx : list Z;               (* rayEndIndexes_ *)
  rc_tmax : list T;               (* rayTMax_ *)
  rc_tdelta : list T;             (* rayTDelta_ *)
  rc_step : list Z                (* rayStep_ *)
}.

Definition zeros (n : nat) : list T := repeat (nzero N) n.
Definition zerosZ (n : nat) : list Z := repeat 0%Z n.

Definition rc_init (axes : list axis) : caster :=
  let d := length axes in
  {| rc_axes := axes; rc_origin := zeros d; rc_oidx := zerosZ d; rc_eidx := zerosZ d;
     rc_tmax := zeros d; rc_tdelta := zeros d; rc_step := zerosZ d |}.

Definition indexes (axes : list axis) (p : list T) : list Z :=
  map (fun '(a, x) => gm_index N (ax_r a) (ax_org a) x) (combine axes p).

Definition set_origin (c : caster) (p : list T) : caster :=
  {| rc_axes := rc_axes c; rc_origin := p; rc_oidx := indexes (rc_axes c) p; rc_eidx := rc_eidx c;
     rc_tmax := rc_tmax c; rc_tdelta := rc_tdelta c; rc_step := rc_step c |}.

(* direction.norm(): sqrt of the sum of squares, summed left to right *)
Definition norm (v : list T) : T := nsqrt N (fold_left (fun s x => nadd N s (nmul N x x)) v (nzero N)).

(* per axis: (step, tMax, tDelta) *)
Definition axis_setup (a : axis) (o : T) (oi : Z) (dir : T) : Z * T * T :=
  let step := if nltb N (nzero N) dir then 1%Z else if nltb N dir (nzero N) then (-1)%Z else 0%Z in
  if Z.eqb step 0 then (0%Z, nmaxval N, nmaxval N)
  else
    let centre := gm_centre N (ax_r a) (ax_org a) oi in
    let border := nadd N centre (nmul N (nmul N (nofZ N step) (ax_r a)) (nhalf N)) in
    (step, ndiv N (nsub N border o) dir, ndiv N (ax_r a) (nabs N dir)).

Definition set_end (c : caster) (e : list T) : caster :=
  let direction := map (fun '(x, o) => nsub N x o) (combine e (rc_origin c)) in
  let range := norm direction in
  let dir := map (fun d => ndiv N d range) direction in
  let setup := map (fun '(((a, o), oi), d) => axis_setup a o oi d)
                   (combine (combine (combine (rc_axes c) (rc_origin c)) (rc_oidx c)) dir) in
  {| rc_axes := rc_axes c; rc_origin := rc_origin c; rc_oidx := rc_oidx c;
     rc_eidx := indexes (rc_axes c) e;
     rc_tmax := map (fun s => snd (fst s)) setup;
     rc_tdelta := map (fun s => snd s) setup;
     rc_step := map (fun s => fst (fst s)) setup |}.

(* computeRayNumberOfCells: sum |end - origin| + 1 *)
Definition ncells (c : caster) : Z :=
  (fold_left (fun s '(e, o) => s + Z.abs (e - o)) (combine (rc_eidx c) (rc_oidx c)) 0 + 1)%Z.

(* next(): choice of the axis to advance — the 2D and the 3D decision trees of the four specialisations *)
Definition pick (tmax : list T) : nat :=
  match tmax with
  | [t0; t1] => if nltb N t0 t1 then 0 else 1
  | [t0; t1; t2] =>
      if nltb N t0 t1 then (if nltb N t0 t2 then 0 else 2) else (if nltb N t1 t2 then 1 else 2)
  | _ => 0
  end%nat.

Fixpoint upd {A} (l : list A) (i : nat) (f : A -> A) : list A :=
  match l, i with
  | [], _ => []
  | x :: r, O => f x :: r
  | x :: r, S i' => x :: upd r i' f
  end.

(* an axis whose index has reached the end cell is no longer a candidate: its parameter counts as max() *)
Definition eff_tmax (cell eidx : list Z) (tmax : list T) : list T :=
  map (fun '((c, e), t) => if Z.eqb c e then nmaxval N else t) (combine (combine cell eidx) tmax).

(* one next(): (cell indexes, tmax) -> advanced *)
Definition next (eidx : list Z) (step : list Z) (tdelta : list T) (st : list Z * list T) : list Z * list T :=
  let '(cell, tmax) := st in
  let i := pick (eff_tmax cell eidx tmax) in
  (upd cell i (fun v => (v + nth i step 0)%Z), upd tmax i (fun t => nadd N t (nth i tdelta (nzero N)))).

Fixpoint iter_cast (fuel : nat) (eidx step : list Z) (tdelta : list T) (st : list Z * list T) : list (list Z) :=
  match fuel with
  | O => []
  | S f => let st' := next eidx step tdelta st in fst st' :: iter_cast f eidx step tdelta st'
  end.

(* cast(): the visited cells, and the caster whose rayTMax_ has been advanced *)
Definition cast_cells (c : caster) : list (list Z) :=
  rc_oidx c :: iter_cast (Z.to_nat (ncells c - 1)) (rc_eidx c) (rc_step c) (rc_tdelta c) (rc_oidx c, rc_tmax c).

Fixpoint iter_state (fuel : nat) (eidx step : list Z) (tdelta : list T) (st : list Z * list T) : list Z * list T :=
  match fuel with O => st | S f => iter_state f eidx step tdelta (next eidx step tdelta st) end.

Definition after_cast (c : caster) : caster :=
  let st := iter_state (Z.to_nat (ncells c - 1)) (rc_eidx c) (rc_step c) (rc_tdelta c) (rc_oidx c, rc_tmax c) in
  {| rc_axes := rc_axes c; rc_origin := rc_origin c; rc_oidx := rc_oidx c; rc_eidx := rc_eidx c;
     rc_tmax := snd st; rc_tdelta := rc_tdelta c; rc_step := rc_step c |}.

(* operations of the class, as a state machine *)
Inductive rcop := OpSetOrigin (p : list T) | OpCastEnd (e : list T) | OpCastOE (o e : list T) | OpCast.

Definition rc_step_op (c : caster) (o : rcop) : caster * list (list Z) :=
  match o with
  | OpSetOrigin p => (set_origin c p, [])
  | OpCastEnd e => let c' := set_end c e in (after_cast c', cast_cells c')
  | OpCastOE p e => let c' := set_end (set_origin c p) e in (after_cast c', cast_cells c')
  | OpCast => (after_cast c, cast_cells c)
  end.

Fixpoint rc_run (c : caster) (ops : list rcop) : list (list (list Z)) :=
  match ops with
  | [] => []
  | o :: r => let '(c', out) := rc_step_op c o in out :: rc_run c' r
  end.

End RayCast.
