(* EstimateProofs.v — lemmas about Ransac::estimateModel (coq/RansacModel.v, Section Estimate). *)
From Coq Require Import ZArith List Bool Lia.
From Romea Require Import Num RansacModel RansacProofs.
Import ListNotations.
Local Open Scope Z_scope.

Definition counts_of (ev : list rcall) : list Z :=
  flat_map (fun e => match e with EvCount c => [c] | _ => [] end) ev.
Definition draws_of (ev : list rcall) : Z :=
  Z.of_nat (length (filter (fun e => match e with EvDraw => true | _ => false end) ev)).
(* the largest value countInliers returned, as seen through the float variable of Ransac.cpp *)
Definition max_rounded (b0 : Z) (cs : list Z) : Z := fold_left (fun b c => Z.max b (f32round c)) cs b0.

Lemma max_rounded_ge cs : forall b0, b0 <= max_rounded b0 cs.
Proof.
  unfold max_rounded. induction cs as [|c r IH]; intros b0; cbn [fold_left]; [lia|].
  specialize (IH (Z.max b0 (f32round c))). lia.
Qed.

Lemma max_rounded_in cs : forall b0, max_rounded b0 cs = b0 \/ exists c, In c cs /\ max_rounded b0 cs = f32round c.
Proof.
  unfold max_rounded. induction cs as [|c r IH]; intros b0; cbn [fold_left]; [left; reflexivity|].
  destruct (IH (Z.max b0 (f32round c))) as [E|(c' & Hin & E)].
  - rewrite E. destruct (Z.max_spec b0 (f32round c)) as [[_ ->]|[_ ->]].
    + right. exists c. split; [left; reflexivity | reflexivity].
    + left. reflexivity.
  - right. exists c'. split; [right; assumption | assumption].
Qed.

Lemma max_rounded_all cs : forall b0 c, In c cs -> f32round c <= max_rounded b0 cs.
Proof.
  unfold max_rounded. induction cs as [|c0 r IH]; intros b0 c Hin; cbn [fold_left]; [destruct Hin|].
  destruct Hin as [->|Hin].
  - pose proof (max_rounded_ge r (Z.max b0 (f32round c))) as H. unfold max_rounded in H. lia.
  - apply IH. assumption.
Qed.

Section Est.
  Context {T : Type} (N : NumOps T) {S : Type}.
  Variable draw : S -> S * bool.
  Variable count : S -> S * Z.
  Variable refine : S -> S.
  Variable sdraw : Z.

  Notation loop := (est_loop N draw count sdraw).

  Lemma est_loop_unfold fuel iter best chosen its s :
    loop fuel iter best chosen its s =
    if iter <? it_n its then
      match fuel with
      | O => None
      | Datatypes.S f =>
        let (s1, ok) := draw s in
        if ok then
          let (s2, c) := count s1 in
          let cf := f32round c in
          if f32round best <? cf then
            match loop f (iter + 1) cf (Some iter) (iters_update N its cf sdraw) s2 with
            | Some r => Some (mkLoop (lr_iters r) (lr_best r) (lr_chosen r) (EvDraw :: EvCount c :: lr_events r) (lr_state r))
            | None => None
            end
          else
            match loop f (iter + 1) best chosen its s2 with
            | Some r => Some (mkLoop (lr_iters r) (lr_best r) (lr_chosen r) (EvDraw :: EvCount c :: lr_events r) (lr_state r))
            | None => None
            end
        else
          match loop f (iter + 1) best chosen its s1 with
          | Some r => Some (mkLoop (lr_iters r) (lr_best r) (lr_chosen r) (EvDraw :: lr_events r) (lr_state r))
          | None => None
          end
      end
    else Some (mkLoop iter best chosen [] s).
  Proof. destruct fuel; reflexivity. Qed.

  (* enough fuel: the loop ends *)
  Lemma est_loop_some fuel : forall iter best chosen its s,
    it_n its <= iter + Z.of_nat fuel -> exists r, loop fuel iter best chosen its s = Some r.
  Proof.
    induction fuel as [|f IH]; intros iter best chosen its s Hf; rewrite est_loop_unfold.
    - destruct (Z.ltb_spec iter (it_n its)); [lia | eexists; reflexivity].
    - destruct (Z.ltb_spec iter (it_n its)); [|eexists; reflexivity].
      destruct (draw s) as [s1 ok]. destruct ok.
      + destruct (count s1) as [s2 c]. cbv zeta.
        destruct (f32round best <? f32round c).
        * destruct (IH (iter + 1) (f32round c) (Some iter) (iters_update N its (f32round c) sdraw) s2) as [r Hr].
          { pose proof (iters_update_le N its (f32round c) sdraw). lia. }
          rewrite Hr. eexists; reflexivity.
        * destruct (IH (iter + 1) best chosen its s2) as [r Hr]; [lia|]. rewrite Hr. eexists; reflexivity.
      + destruct (IH (iter + 1) best chosen its s1) as [r Hr]; [lia|]. rewrite Hr. eexists; reflexivity.
  Qed.

  Hypothesis count_nonneg : forall s, 0 <= snd (count s).

  (* what the loop computes *)
  Lemma est_loop_spec fuel : forall iter best chosen its s r,
    loop fuel iter best chosen its s = Some r ->
    f32round best = best -> iter <= it_n its \/ True ->
    lr_best r = max_rounded best (counts_of (lr_events r)) /\
    f32round (lr_best r) = lr_best r /\
    ~ In EvRefine (lr_events r) /\
    lr_iters r = iter + draws_of (lr_events r) /\
    lr_iters r <= Z.max iter (it_n its).
  Proof.
    induction fuel as [|f IH]; intros iter best chosen its s r H Hb _; rewrite est_loop_unfold in H.
    - destruct (Z.ltb_spec iter (it_n its)); [discriminate|]. inversion H; subst; clear H. cbn.
      repeat split; try assumption; try lia; try (intros []).
    - destruct (Z.ltb_spec iter (it_n its)) as [Hlt|Hge].
      2:{ inversion H; subst; clear H. cbn. repeat split; try assumption; try lia; try (intros []). }
      destruct (draw s) as [s1 ok]. destruct ok.
      + pose proof (count_nonneg s1) as Hc0. destruct (count s1) as [s2 c]. cbn [snd] in Hc0. cbv zeta in H.
        destruct (Z.ltb_spec (f32round best) (f32round c)) as [Hlt2|Hge2].
        * destruct (loop f (iter + 1) (f32round c) (Some iter) (iters_update N its (f32round c) sdraw) s2) as [r'|] eqn:E;
            [|discriminate].
          inversion H; subst; clear H. cbn [lr_best lr_events lr_iters lr_state].
          destruct (IH _ _ _ _ _ _ E (f32round_idem c Hc0) (or_intror I)) as (A & B & C & D & F).
          pose proof (iters_update_le N its (f32round c) sdraw).
          repeat split.
          -- rewrite A. cbn [counts_of flat_map app]. unfold max_rounded. cbn [fold_left].
             rewrite Hb in Hlt2. replace (Z.max best (f32round c)) with (f32round c) by lia. reflexivity.
          -- exact B.
          -- intros [X|[X|X]]; try discriminate. exact (C X).
          -- rewrite D. unfold draws_of. cbn [filter length]. lia.
          -- lia.
        * destruct (loop f (iter + 1) best chosen its s2) as [r'|] eqn:E; [|discriminate].
          inversion H; subst; clear H. cbn [lr_best lr_events lr_iters lr_state].
          destruct (IH _ _ _ _ _ _ E Hb (or_intror I)) as (A & B & C & D & F).
          repeat split.
          -- rewrite A. cbn [counts_of flat_map app]. unfold max_rounded. cbn [fold_left].
             rewrite Hb in Hge2. replace (Z.max best (f32round c)) with best by lia. reflexivity.
          -- exact B.
          -- intros [X|[X|X]]; try discriminate. exact (C X).
          -- rewrite D. unfold draws_of. cbn [filter length]. lia.
          -- lia.
      + destruct (loop f (iter + 1) best chosen its s1) as [r'|] eqn:E; [|discriminate].
        inversion H; subst; clear H. cbn [lr_best lr_events lr_iters lr_state].
        destruct (IH _ _ _ _ _ _ E Hb (or_intror I)) as (A & B & C & D & F).
        repeat split.
        -- rewrite A. reflexivity.
        -- exact B.
        -- intros [X|X]; try discriminate. exact (C X).
        -- rewrite D. unfold draws_of. cbn [filter length]. lia.
        -- lia.
  Qed.

  (* ---- bool Ransac::estimateModel() ---- *)
  Lemma estimate_too_few npoints mininl p maxit s :
    npoints < mininl -> estimate N draw count refine sdraw npoints mininl p maxit s = Some (mkEst false 0 0 None [] s).
  Proof. intros H. unfold estimate. destruct (Z.ltb_spec npoints mininl); [reflexivity | lia]. Qed.

  Lemma estimate_logic_lemma npoints mininl p maxit s :
    mininl <= npoints -> 0 <= maxit ->
    exists r loopev sl,
      estimate N draw count refine sdraw npoints mininl p maxit s = Some r /\
      ~ In EvRefine loopev /\
      er_best r = max_rounded 0 (counts_of loopev) /\
      (er_ok r = true <-> sdraw < er_best r) /\
      er_events r = loopev ++ (if er_ok r then [EvRefine] else []) /\
      er_state r = (if er_ok r then refine sl else sl) /\
      er_iters r = draws_of loopev /\ er_iters r <= maxit.
  Proof.
    intros Hn Hm. unfold estimate. destruct (Z.ltb_spec npoints mininl); [lia|].
    destruct (est_loop_some (Z.to_nat maxit) 0 0 None (iters_init N npoints p maxit) s) as [lr Hlr].
    { cbn [iters_init it_n]. rewrite Z2Nat.id; lia. }
    rewrite Hlr.
    destruct (est_loop_spec _ _ _ _ _ _ _ Hlr (f32round_small 0 ltac:(reflexivity)) (or_intror I)) as (A & B & C & D & F).
    cbn [iters_init it_n] in F.
    destruct (Z.leb_spec (lr_best lr) sdraw) as [Hle|Hgt].
    - eexists. exists (lr_events lr), (lr_state lr). split; [reflexivity|]. cbn.
      repeat split; try assumption; try lia; try (intros; discriminate).
      all: try (rewrite app_nil_r; reflexivity).
    - eexists. exists (lr_events lr), (lr_state lr). split; [reflexivity|]. cbn.
      repeat split; try assumption; try lia.
  Qed.

  (* ---- invariants carried through any run ---- *)
  Lemma est_loop_inv (I : S -> Prop)
    (Hdraw : forall s, I s -> I (fst (draw s))) (Hcount : forall s, I s -> I (fst (count s))) fuel :
    forall iter best chosen its s r, loop fuel iter best chosen its s = Some r -> I s -> I (lr_state r).
  Proof.
    induction fuel as [|f IH]; intros iter best chosen its s r H Hs; rewrite est_loop_unfold in H.
    - destruct (iter <? it_n its); [discriminate|]. inversion H; subst. exact Hs.
    - destruct (iter <? it_n its); [|inversion H; subst; exact Hs].
      pose proof (Hdraw s Hs) as H1. destruct (draw s) as [s1 ok]. cbn [fst] in H1. destruct ok.
      + pose proof (Hcount s1 H1) as H2. destruct (count s1) as [s2 c]. cbn [fst] in H2. cbv zeta in H.
        destruct (f32round best <? f32round c).
        * destruct (loop f _ _ _ _ s2) as [r'|] eqn:E; [|discriminate]. inversion H; subst. cbn. eapply IH; eassumption.
        * destruct (loop f _ _ _ _ s2) as [r'|] eqn:E; [|discriminate]. inversion H; subst. cbn. eapply IH; eassumption.
      + destruct (loop f _ _ _ _ s1) as [r'|] eqn:E; [|discriminate]. inversion H; subst. cbn. eapply IH; eassumption.
  Qed.

  Lemma estimate_inv (I : S -> Prop)
    (Hdraw : forall s, I s -> I (fst (draw s))) (Hcount : forall s, I s -> I (fst (count s)))
    (Hrefine : forall s, I s -> I (refine s)) npoints mininl p maxit s r :
    estimate N draw count refine sdraw npoints mininl p maxit s = Some r -> I s -> I (er_state r).
  Proof.
    unfold estimate. intros H Hs. destruct (npoints <? mininl); [inversion H; subst; exact Hs|].
    destruct (loop _ _ _ _ _ s) as [lr|] eqn:E; [|discriminate].
    pose proof (est_loop_inv I Hdraw Hcount _ _ _ _ _ _ _ E Hs) as Hl.
    destruct (lr_best lr <=? sdraw); inversion H; subst; cbn; auto.
  Qed.

  (* a non-decreasing measure that bounds what countInliers returns: positive whenever the best count is *)
  Lemma est_loop_measure (mu : S -> Z)
    (Hdraw : forall s, mu s <= mu (fst (draw s))) (Hcount : forall s, mu s <= mu (fst (count s)))
    (Hret : forall s, snd (count s) <= mu (fst (count s))) fuel :
    forall iter best chosen its s r, loop fuel iter best chosen its s = Some r ->
      (0 < best -> 0 < mu s) -> (0 < lr_best r -> 0 < mu (lr_state r)).
  Proof.
    induction fuel as [|f IH]; intros iter best chosen its s r H Hs; rewrite est_loop_unfold in H.
    - destruct (iter <? it_n its); [discriminate|]. inversion H; subst. exact Hs.
    - destruct (iter <? it_n its); [|inversion H; subst; exact Hs].
      pose proof (Hdraw s) as H1. destruct (draw s) as [s1 ok]. cbn [fst] in H1. destruct ok.
      + pose proof (Hcount s1) as H2. pose proof (Hret s1) as H3.
        destruct (count s1) as [s2 c]. cbn [fst snd] in H2, H3. cbv zeta in H.
        destruct (f32round best <? f32round c).
        * destruct (loop f _ _ _ _ s2) as [r'|] eqn:E; [|discriminate]. inversion H; subst. cbn.
          eapply IH; [eassumption|]. intros Hp. apply f32round_pos_inv in Hp. lia.
        * destruct (loop f _ _ _ _ s2) as [r'|] eqn:E; [|discriminate]. inversion H; subst. cbn.
          eapply IH; [eassumption|]. intros Hp. specialize (Hs Hp). lia.
      + destruct (loop f _ _ _ _ s1) as [r'|] eqn:E; [|discriminate]. inversion H; subst. cbn.
        eapply IH; [eassumption|]. intros Hp. specialize (Hs Hp). lia.
  Qed.

  Lemma estimate_measure (mu : S -> Z)
    (Hdraw : forall s, mu s <= mu (fst (draw s))) (Hcount : forall s, mu s <= mu (fst (count s)))
    (Hret : forall s, snd (count s) <= mu (fst (count s))) (Hrefine : forall s, mu s <= mu (refine s))
    npoints mininl p maxit s r :
    estimate N draw count refine sdraw npoints mininl p maxit s = Some r -> 0 <= sdraw ->
    er_ok r = true -> 0 < mu (er_state r).
  Proof.
    unfold estimate. intros H Hsd Hok. destruct (npoints <? mininl); [inversion H; subst; discriminate|].
    destruct (loop _ _ _ _ _ s) as [lr|] eqn:E; [|discriminate].
    pose proof (est_loop_measure mu Hdraw Hcount Hret _ _ _ _ _ _ _ E) as Hl.
    destruct (Z.leb_spec (lr_best lr) sdraw); inversion H; subst; cbn in *; [discriminate|].
    specialize (Hrefine (lr_state lr)). assert (0 < mu (lr_state lr)) by (apply Hl; lia). lia.
  Qed.
End Est.
