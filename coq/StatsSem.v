(* StatsSem.v — the (small) semantic vocabulary the generated file gen/SrcStats.v is written in (C16).
   translate/tr_C16_stats.py turns the clang AST of OnlineAverage / OnlineVariance / RingOfEigenVector member functions
   into Gallina state transformers; the C++ notions they use are given their meaning here, once:

   * integer types: a C++ integer is a Z; every arithmetic result and every integral conversion is reduced to the range
     of its C++ type — size_t / unsigned long: [wrapU64] (mod 2^64, the language rule); long long: [wrapS64]; int:
     [wrapS32] (two's-complement wrap: what the hardware does where the language says "undefined"; the tie lemmas need
     the wrap to be the identity, i.e. they prove the absence of signed overflow under the property's bounds);
   * std::vector<X>: a list; push_back = append at the end, operator[] read = [vec_getZ] (default 0 outside the vector,
     the convention of OnlineStatsModel.o_update; the invariant o_inv shows the index is always inside) or [vec_get]
     (option, for element types without a default), operator[] write = [vec_set], size() = [vec_size], clear() = [];
     reserve() changes the capacity only (no effect);
   * `x % y` on unsigned operands: Z.modulo (y = 0 is undefined behaviour in C++; Z.modulo x 0 = x in Coq — the tie
     lemmas carry 0 < windowSize_ / ring non-empty where it matters);
   * a double member that can hold quiet_NaN() is an [option T] (None = NaN), as in the models.
   Definitions only. *)
From Coq Require Import ZArith List.
From Romea Require Import OnlineStatsModel.
Import ListNotations.
Local Open Scope Z_scope.

Definition wrapU64 (z : Z) : Z := z mod 18446744073709551616.
Definition wrapS64 (z : Z) : Z := (z + 9223372036854775808) mod 18446744073709551616 - 9223372036854775808.
Definition wrapS32 (z : Z) : Z := (z + 2147483648) mod 4294967296 - 2147483648.

Definition in_u64 (z : Z) : Prop := 0 <= z < 18446744073709551616.
Definition in_s64 (z : Z) : Prop := - 9223372036854775808 <= z < 9223372036854775808.
Definition in_s32 (z : Z) : Prop := - 2147483648 <= z < 2147483648.

Definition vec_size {A : Type} (l : list A) : Z := Z.of_nat (length l).
Definition vec_push {A : Type} (l : list A) (x : A) : list A := l ++ [x].
Definition vec_set {A : Type} (l : list A) (i : Z) (x : A) : list A := replace_nth (Z.to_nat i) x l.
Definition vec_getZ (l : list Z) (i : Z) : Z := nth (Z.to_nat i) l 0.
Definition vec_get {A : Type} (l : list A) (i : Z) : option A := nth_error l (Z.to_nat i).
