(* RayCastBounds.v — C14: the "no-overflow bound B" premise of C14_cast_walk / C14_cells_meet_segment / the end-to-end
   theorems is removed.

   The older theorems carry, for every axis whose index changes, the premise
       tmax_i + |end index - origin index|_i * tdelta_i <= B < numeric_limits::max()
   i.e. a bound on the crossing parameter stored AFTER the last step of that axis.  That value is the parameter at which
   the ray leaves the END cell; it is never compared by next() (an axis that reached the end index counts as max()), and
   it is NOT bounded by the geometry: for an axis that crosses one border with |e_i - o_i| = delta it is about
   rho * r / delta, arbitrarily large.  What next() really compares are the crossing parameters of the axes that have not
   reached the end index yet, and those are <= rho (the length of the segment): the ghost-parameter invariant [ginv] of
   RayCastSegment.v already implies it ([crossing_legit]).  So the walk and the geometry are proved here TOGETHER, with
   the invariant  ginv /\ shape /\ sign relation  and the single numeric premise  rho < max().

   1. [geo_step], [geo_walk], [cast_walk_geo]: generic caster (any fields meeting the per-axis premises).
   2. [cast2_free], [cast3_free]: the caster that cast(origin, end) builds on a 2D / 3D grid; premise |e - o| < max().
   3. [rho2_le], [rho3_le], [cast2_box], [cast3_box]: |e - o| <= sqrt(DIM) * D for an extent of side <= D, so for the
      property's envelope (at most 2000 cells of resolution <= 1 per axis: D = 2000) there is no numeric premise left.
   4. [cast_indexes_fit_int]: the integer side.  For a grid of at most n cells per axis with DIM * n <= 2^31 - 1, every
      visited index lies in [0, n) and the number of cells computed by computeRayNumberOfCells (an int sum) is
      <= DIM * (n - 1) + 1 <= 2^31 - 1: the model's Z arithmetic agrees with the C++ int / size_t arithmetic. *)
From Coq Require Import Reals ZArith List Bool Arith Lia Lra Psatz.
From Flocq Require Import Core.Raux.
From Romea Require Import Num NumR GridMapModel GridMapProofs RayCastModel RayCastProofs RayCastSegment RayCastAssembly.
Import ListNotations.
Local Open Scope R_scope.

(* ------------------------------------------------------------------ 1. generic walk, geometry and counting together *)
Section Geo.
Variable d : nat.
Hypothesis Hd : (d = 2 \/ d = 3)%nat.
Variables (r rho : R) (org o dirv : list R) (eidx step : list Z) (tdelta : list R).
Hypothesis Hr : 0 < r.
Hypothesis HrhoM : rho < M.
Hypothesis Le : length eidx = d.
Hypothesis Ls : length step = d.
Hypothesis Ld : length tdelta = d.
Hypothesis Hdelta : forall i, (i < d)%nat -> 0 <= nth i tdelta 0.

Local Notation lo := (RayCastSegment.lo r org).
Local Notation hi := (RayCastSegment.hi r org).
Local Notation pos := (RayCastSegment.pos o dirv).
Local Notation ginv := (RayCastSegment.ginv d r rho org o dirv eidx step).
Local Notation meets := (RayCastSegment.meets d r rho org o dirv).
Local Notation remaining := (RayCastProofs.remaining eidx).
Local Notation potential := (RayCastProofs.potential d eidx).

Hypothesis Hend : forall i, (i < d)%nat -> lo i (nth i eidx 0%Z) <= pos i rho <= hi i (nth i eidx 0%Z).
Hypothesis Hstep : forall i, (i < d)%nat ->
  (nth i step 0%Z = 1%Z /\ 0 < nth i dirv 0 /\ nth i tdelta 0 * nth i dirv 0 = r) \/
  (nth i step 0%Z = (-1)%Z /\ nth i dirv 0 < 0 /\ nth i tdelta 0 * nth i dirv 0 = - r) \/
  (nth i step 0%Z = 0%Z /\ nth i dirv 0 = 0).

(* shape and sign relation only: no bound on the stored parameters *)
Definition winv0 (st : list Z * list R) : Prop :=
  let '(cell, tmax) := st in
  length cell = d /\ length tmax = d /\
  (forall i, (i < d)%nat -> (nth i eidx 0 - nth i cell 0 = nth i step 0 * remaining cell i)%Z).

(* the next crossing of an axis that has not reached the end index happens inside the segment *)
Lemma crossing_legit0 T cell tmax i : ginv T (cell, tmax) -> winv0 (cell, tmax) -> (i < d)%nat ->
  nth i cell 0%Z <> nth i eidx 0%Z -> nth i tmax 0 <= rho.
Proof.
  intros (HT & Hin & Hcr) (Lc & Lt & Hsign) Hi Hne.
  destruct (Hcr i Hi Hne) as (H1 & Hup & Hdn). specialize (Hsign i Hi). specialize (Hend i Hi).
  unfold RayCastProofs.remaining in Hsign. unfold RayCastSegment.lo, RayCastSegment.hi, RayCastSegment.pos in *.
  destruct (Hstep i Hi) as [(S & D & _)|[(S & D & _)|(S & D)]].
  - specialize (Hup S). rewrite S in Hsign.
    assert (Hlt : (nth i cell 0 < nth i eidx 0)%Z) by lia.
    assert (IZR (nth i cell 0%Z) + 1 <= IZR (nth i eidx 0%Z)) by (rewrite <- (plus_IZR _ 1); apply IZR_le; lia).
    assert (nth i tmax 0 * nth i dirv 0 <= rho * nth i dirv 0) by nra. nra.
  - specialize (Hdn S). rewrite S in Hsign.
    assert (Hlt : (nth i eidx 0 < nth i cell 0)%Z) by lia.
    assert (IZR (nth i eidx 0%Z) + 1 <= IZR (nth i cell 0%Z)) by (rewrite <- (plus_IZR _ 1); apply IZR_le; lia).
    assert (rho * nth i dirv 0 <= nth i tmax 0 * nth i dirv 0) by nra. nra.
  - exfalso. rewrite S in Hsign. lia.
Qed.

(* one next(): both invariants are kept, one coordinate moves by its step (+-1), the potential drops by 1 *)
Lemma geo_step T st : ginv T st -> winv0 st -> (0 < potential (fst st))%Z ->
  let j := pick ROps (eff_tmax ROps (fst st) eidx (snd st)) in
  let st' := next ROps eidx step tdelta st in
  ginv (nth j (snd st) 0) st' /\ winv0 st' /\ potential (fst st') = (potential (fst st) - 1)%Z /\
  (j < d)%nat /\ (nth j step 0 = 1 \/ nth j step 0 = -1)%Z /\
  nth j (fst st') 0%Z = (nth j (fst st) 0 + nth j step 0)%Z /\
  (forall k, k <> j -> nth k (fst st') 0%Z = nth k (fst st) 0%Z) /\
  (remaining (fst st') j = remaining (fst st) j - 1)%Z.
Proof.
  destruct st as [cell tmax]. intros G W Hpot. cbn [fst snd] in *.
  pose proof G as (HT & Hin & Hcr). pose proof W as (Lc & Lt & Hsign).
  assert (Hex : exists j, (j < d)%nat /\ nth j cell 0%Z <> nth j eidx 0%Z).
  { destruct (sumf_pos_ex d (remaining cell)) as [j [Hj Hr']]; [intros; unfold RayCastProofs.remaining; lia|exact Hpot|].
    exists j. split; [exact Hj|]. unfold RayCastProofs.remaining in Hr'. lia. }
  assert (HfinM : forall i, (i < d)%nat -> nth i cell 0%Z <> nth i eidx 0%Z -> nth i tmax 0 < M).
  { intros i Hi Hne. pose proof (crossing_legit0 T cell tmax i G W Hi Hne). lra. }
  destruct (pick_not_exhausted d cell eidx tmax Hd Lc Le Lt HfinM Hex) as [Hj Hjne].
  pose proof (pick_weak_min d cell eidx tmax Hd Lc Le Lt HfinM Hex) as Hmin.
  cbv zeta in *. set (j := pick ROps (eff_tmax ROps cell eidx tmax)) in *.
  set (T' := nth j tmax 0).
  destruct (Hcr j Hj Hjne) as (HTj & Hupj & Hdnj).
  assert (HT'rho : T' <= rho) by (apply (crossing_legit0 T cell tmax j G W Hj Hjne)).
  assert (HTT' : T <= T') by exact HTj.
  unfold next. fold j. cbn [fst snd].
  assert (Hnew : nth j (upd cell j (fun v => (v + nth j step 0)%Z)) 0%Z = (nth j cell 0 + nth j step 0)%Z)
    by (rewrite nth_upd_same by lia; reflexivity).
  assert (Hoth : forall k, k <> j -> nth k (upd cell j (fun v => (v + nth j step 0)%Z)) 0%Z = nth k cell 0%Z)
    by (intros k Hk; rewrite nth_upd_other by lia; reflexivity).
  assert (Htnew : nth j (upd tmax j (fun t => nadd ROps t (nth j tdelta (nzero ROps)))) 0 = T' + nth j tdelta 0)
    by (rewrite nth_upd_same by lia; reflexivity).
  assert (Htoth : forall k, k <> j -> nth k (upd tmax j (fun t => nadd ROps t (nth j tdelta (nzero ROps)))) 0 = nth k tmax 0)
    by (intros k Hk; rewrite nth_upd_other by lia; reflexivity).
  pose proof (Hsign j Hj) as Hsj. unfold RayCastProofs.remaining in Hsj.
  assert (Hrj : (0 < remaining cell j)%Z) by (unfold RayCastProofs.remaining; lia).
  assert (Hstepj : (nth j step 0 = 1 \/ nth j step 0 = -1)%Z).
  { unfold RayCastProofs.remaining in Hrj. nia. }
  assert (Hrem : (remaining (upd cell j (fun v => (v + nth j step 0)%Z)) j = remaining cell j - 1)%Z).
  { unfold RayCastProofs.remaining. rewrite Hnew. unfold RayCastProofs.remaining in Hrj. nia. }
  assert (Hremo : forall k, k <> j -> remaining (upd cell j (fun v => (v + nth j step 0)%Z)) k = remaining cell k).
  { intros k Hk. unfold RayCastProofs.remaining. rewrite Hoth by exact Hk. reflexivity. }
  split; [|split; [|split; [|split; [exact Hj|split; [exact Hstepj|split; [exact Hnew|split; [exact Hoth|exact Hrem]]]]]]].
  - (* ginv at T' *)
    unfold RayCastSegment.ginv. split; [lra|]. split.
    + intros k Hk. destruct (Nat.eq_dec k j) as [->|Hkj].
      * rewrite Hnew. unfold RayCastSegment.lo, RayCastSegment.hi, RayCastSegment.pos in *. fold T'.
        destruct (Hstep j Hj) as [(S & D & Dl)|[(S & D & Dl)|(S & D)]].
        -- specialize (Hupj S). rewrite S. rewrite plus_IZR. fold T' in Hupj. simpl (IZR 1). nra.
        -- specialize (Hdnj S). rewrite S. rewrite plus_IZR. fold T' in Hdnj. simpl (IZR (-1)). nra.
        -- exfalso. rewrite S in Hsj. lia.
      * rewrite Hoth by exact Hkj. specialize (Hin k Hk).
        destruct (Z.eq_dec (nth k cell 0%Z) (nth k eidx 0%Z)) as [Ek|Ek].
        -- specialize (Hend k Hk). rewrite <- Ek in Hend.
           unfold RayCastSegment.lo, RayCastSegment.hi, RayCastSegment.pos in *.
           destruct (Rle_dec 0 (nth k dirv 0)) as [P|P]; nra.
        -- destruct (Hcr k Hk Ek) as (HTk & Hupk & Hdnk). specialize (Hmin k Hk Ek). fold T' in Hmin.
           unfold RayCastSegment.lo, RayCastSegment.hi, RayCastSegment.pos in *.
           destruct (Hstep k Hk) as [(S & D & Dl)|[(S & D & Dl)|(S & D)]].
           ++ specialize (Hupk S). nra.
           ++ specialize (Hdnk S). nra.
           ++ rewrite D in *. lra.
    + intros k Hk Hne. destruct (Nat.eq_dec k j) as [->|Hkj].
      * rewrite Hnew in *. rewrite Htnew. specialize (Hdelta j Hj). split; [lra|].
        unfold RayCastSegment.lo, RayCastSegment.hi, RayCastSegment.pos in *. fold T' in Hupj, Hdnj.
        destruct (Hstep j Hj) as [(S & D & Dl)|[(S & D & Dl)|(S & D)]].
        -- specialize (Hupj S). rewrite S. rewrite plus_IZR. simpl (IZR 1). split; intros; [nra|lia].
        -- specialize (Hdnj S). rewrite S. rewrite plus_IZR. simpl (IZR (-1)). split; intros; [lia|nra].
        -- exfalso. rewrite S in Hsj. lia.
      * rewrite Hoth in * by exact Hkj. rewrite Htoth by exact Hkj.
        destruct (Hcr k Hk Hne) as (HTk & Hupk & Hdnk). specialize (Hmin k Hk Hne). fold T' in Hmin.
        split; [lra|]. split; assumption.
  - (* winv0 *)
    unfold winv0. rewrite !upd_length. split; [exact Lc|]. split; [exact Lt|].
    intros k Hk. destruct (Nat.eq_dec k j) as [->|Hkj].
    + rewrite Hrem, Hnew. unfold RayCastProofs.remaining in *. nia.
    + rewrite Hremo, Hoth by exact Hkj. apply Hsign. exact Hk.
  - unfold RayCastProofs.potential.
    rewrite (sumf_change d (remaining cell) _ j Hj) by (intros k _ Hk; symmetry; apply Hremo; exact Hk).
    rewrite Hrem. lia.
Qed.

(* iterating *)
Lemma geo_walk : forall n T st, ginv T st -> winv0 st -> potential (fst st) = Z.of_nat n ->
  length (iter_cast ROps n eidx step tdelta st) = n /\
  chain d (fst st) (iter_cast ROps n eidx step tdelta st) /\
  Forall (fun c => forall i, (i < d)%nat -> (remaining c i <= remaining (fst st) i)%Z /\
                                     (nth i eidx 0 - nth i c 0 = nth i step 0 * remaining c i)%Z)
         (iter_cast ROps n eidx step tdelta st) /\
  Forall meets (iter_cast ROps n eidx step tdelta st) /\
  fst (iter_state ROps n eidx step tdelta st) = eidx.
Proof.
  induction n as [|n IH]; intros T st G W Hpot; cbn [iter_cast iter_state].
  - split; [reflexivity|]. split; [exact I|]. split; [constructor|]. split; [constructor|].
    destruct st as [cell tmax]. destruct W as (Lc & _ & _). cbn [fst] in *.
    apply nth_ext with (d := 0%Z) (d' := 0%Z); [lia|]. intros i Hi. rewrite Lc in Hi.
    pose proof (sumf_zero_all d (remaining cell) ltac:(intros; unfold RayCastProofs.remaining; lia) Hpot i Hi) as Z0.
    unfold RayCastProofs.remaining in Z0. lia.
  - destruct (geo_step T st G W ltac:(lia)) as (G' & W' & Hpot' & Hj & Hs & Hnew & Hoth & Hrem).
    set (j := pick ROps (eff_tmax ROps (fst st) eidx (snd st))) in *.
    set (st' := next ROps eidx step tdelta st) in *.
    destruct (IH _ st' G' W' ltac:(lia)) as (L & C & F & Mt & E).
    split; [cbn [length]; lia|]. split; [|split; [|split; [|exact E]]].
    + cbn [chain]. split; [|exact C]. exists j. split; [exact Hj|]. split; [rewrite Hnew; lia|exact Hoth].
    + assert (Hle : forall k, (k < d)%nat -> (remaining (fst st') k <= remaining (fst st) k)%Z).
      { intros k Hk. destruct (Nat.eq_dec k j) as [->|Hkj]; [lia|].
        unfold RayCastProofs.remaining. rewrite Hoth by exact Hkj. lia. }
      constructor.
      * intros k Hk. split; [apply Hle; exact Hk|].
        destruct st' as [cell' tmax'] eqn:En. destruct W' as (_ & _ & Hsg). apply Hsg. exact Hk.
      * eapply Forall_impl; [|exact F]. cbn. intros c Hc k Hk. destruct (Hc k Hk) as [H1 H2].
        specialize (Hle k Hk). split; [lia|exact H2].
    + constructor; [|exact Mt]. eapply ginv_meets. exact G'.
Qed.

(* the whole cast, generic caster: counting, end cell, adjacency, index box AND every cell met by the segment,
   with no premise on the magnitude of the stored parameters other than rho < max() *)
Theorem cast_walk_geo (c : caster (T:=R)) :
  length (rc_oidx c) = d -> length (rc_tmax c) = d -> rc_eidx c = eidx -> rc_step c = step -> rc_tdelta c = tdelta ->
  (forall i, (i < d)%nat -> (nth i eidx 0 - nth i (rc_oidx c) 0 = nth i step 0 * Z.abs (nth i eidx 0 - nth i (rc_oidx c) 0))%Z) ->
  RayCastSegment.ginv d r rho org o dirv eidx step 0 (rc_oidx c, rc_tmax c) ->
  (Z.of_nat (length (cast_cells ROps c)) =
     RayCastProofs.sumf d (fun i => Z.abs (nth i (rc_eidx c) 0 - nth i (rc_oidx c) 0)%Z) + 1)%Z /\
  hd [] (cast_cells ROps c) = rc_oidx c /\
  last (cast_cells ROps c) [] = rc_eidx c /\
  chain d (rc_oidx c) (tl (cast_cells ROps c)) /\
  Forall (fun cl => forall i, (i < d)%nat ->
            (Z.min (nth i (rc_oidx c) 0) (nth i (rc_eidx c) 0) <= nth i cl 0 <= Z.max (nth i (rc_oidx c) 0) (nth i (rc_eidx c) 0))%Z)
         (cast_cells ROps c) /\
  Forall (RayCastSegment.meets d r rho org o dirv) (cast_cells ROps c).
Proof.
  intros Lo Lt Ee Es Ed Hsign G.
  set (l1 := RayCastProofs.sumf d (fun i => Z.abs (nth i (rc_eidx c) 0 - nth i (rc_oidx c) 0)%Z)).
  assert (Hl1 : (0 <= l1)%Z) by (apply sumf_nonneg; intros; lia).
  assert (Hn : ncells c = (l1 + 1)%Z).
  { unfold ncells. rewrite (fold_abs_sumf d) by (try assumption; rewrite Ee; exact Le). unfold l1. lia. }
  assert (W : winv0 (rc_oidx c, rc_tmax c)).
  { unfold winv0. split; [exact Lo|]. split; [exact Lt|]. exact Hsign. }
  assert (Hpot : potential (fst (rc_oidx c, rc_tmax c)) = Z.of_nat (Z.to_nat (ncells c - 1))).
  { cbn [fst]. unfold RayCastProofs.potential, RayCastProofs.remaining. rewrite Hn. rewrite <- Ee. fold l1. lia. }
  destruct (geo_walk _ 0 (rc_oidx c, rc_tmax c) G W Hpot) as (L & C & F & Mt & E).
  unfold cast_cells. rewrite Ee, Es, Ed in *. cbn [hd tl length fst] in *.
  split; [rewrite L; rewrite Hn; lia|]. split; [reflexivity|]. split; [|split; [exact C|split]].
  - rewrite last_cons_default. etransitivity; [|exact E].
    exact (iter_cast_last ROps _ eidx step tdelta (rc_oidx c, rc_tmax c)).
  - constructor.
    + intros i Hi. lia.
    + eapply Forall_impl; [|exact F]. cbn. intros cl Hc i Hi. destruct (Hc i Hi) as [H1 H2]. specialize (Hsign i Hi).
      unfold RayCastProofs.remaining in *. nia.
  - constructor; [exact (ginv_meets d r rho org o dirv eidx step 0 _ G)|exact Mt].
Qed.
End Geo.

(* ------------------------------------------------------------------ 2. the caster that cast(origin, end) builds *)
Section Free2.
Variables (r lo0 hi0 lo1 hi1 o0 o1 e0 e1 : R).
Hypothesis Hr : 0 < r.
Hypothesis Ho0 : lo0 <= o0 <= hi0. Hypothesis Ho1 : lo1 <= o1 <= hi1.
Hypothesis He0 : lo0 <= e0 <= hi0. Hypothesis He1 : lo1 <= e1 <= hi1.
Hypothesis Hne : o0 <> e0 \/ o1 <> e1.
Local Notation caster2 := (RayCastAssembly.caster2 r lo0 hi0 lo1 hi1 o0 o1 e0 e1).
Local Notation rho2 := (RayCastAssembly.rho2 o0 o1 e0 e1).
Local Notation dirv2 := (RayCastAssembly.dirv2 o0 o1 e0 e1).
Local Notation org2 := (RayCastAssembly.org2 r lo0 lo1).
(* the only numeric premise: the length of the segment is below numeric_limits::max() *)
Hypothesis HrhoM : rho2 < M.

Theorem cast2_free :
  let cells := cast_cells ROps caster2 in
  let l1 := RayCastProofs.sumf 2 (fun i => Z.abs (nth i (rc_eidx caster2) 0 - nth i (rc_oidx caster2) 0)%Z) in
  (Z.of_nat (length cells) = l1 + 1)%Z /\
  hd [] cells = rc_oidx caster2 /\
  last cells [] = rc_eidx caster2 /\
  chain 2 (rc_oidx caster2) (tl cells) /\
  Forall (fun cl => forall i, (i < 2)%nat ->
            (Z.min (nth i (rc_oidx caster2) 0) (nth i (rc_eidx caster2) 0) <= nth i cl 0 <= Z.max (nth i (rc_oidx caster2) 0) (nth i (rc_eidx caster2) 0))%Z) cells /\
  Forall (meets 2 r rho2 org2 [o0; o1] dirv2) cells.
Proof.
  pose proof (rho2_pos o0 o1 e0 e1 Hne) as Hrho.
  pose proof M_big as HM.
  (* per-axis facts *)
  pose proof (axis_step_consistent (gm_axis ROps r lo0 hi0) o0 e0 rho2 (gm_index ROps r (gm_origin ROps r lo0) o0) Hr Hrho) as S0.
  pose proof (axis_step_consistent (gm_axis ROps r lo1 hi1) o1 e1 rho2 (gm_index ROps r (gm_origin ROps r lo1) o1) Hr Hrho) as S1.
  pose proof (axis_tdelta_nonneg (gm_axis ROps r lo0 hi0) o0 (gm_index ROps r (gm_origin ROps r lo0) o0) ((e0 - o0) / rho2) Hr ltac:(lra)) as D0.
  pose proof (axis_tdelta_nonneg (gm_axis ROps r lo1 hi1) o1 (gm_index ROps r (gm_origin ROps r lo1) o1) ((e1 - o1) / rho2) Hr ltac:(lra)) as D1.
  pose proof (point_in_its_cell r lo0 hi0 o0 Hr Ho0) as Co0. pose proof (point_in_its_cell r lo1 hi1 o1 Hr Ho1) as Co1.
  pose proof (point_in_its_cell r lo0 hi0 e0 Hr He0) as Ce0. pose proof (point_in_its_cell r lo1 hi1 e1 Hr He1) as Ce1.
  pose proof (axis_setup_crossing (gm_axis ROps r lo0 hi0) o0 ((e0 - o0) / rho2) (gm_index ROps r (gm_origin ROps r lo0) o0) Hr Co0) as X0.
  pose proof (axis_setup_crossing (gm_axis ROps r lo1 hi1) o1 ((e1 - o1) / rho2) (gm_index ROps r (gm_origin ROps r lo1) o1) Hr Co1) as X1.
  cbv zeta in *.
  (* the caster's fields, computed *)
  assert (Eo : rc_oidx caster2 = [gm_index ROps r (gm_origin ROps r lo0) o0; gm_index ROps r (gm_origin ROps r lo1) o1]) by reflexivity.
  assert (Ee : rc_eidx caster2 = [gm_index ROps r (gm_origin ROps r lo0) e0; gm_index ROps r (gm_origin ROps r lo1) e1]) by reflexivity.
  set (su0 := axis_setup ROps (gm_axis ROps r lo0 hi0) o0 (gm_index ROps r (gm_origin ROps r lo0) o0) ((e0 - o0) / rho2)) in *.
  set (su1 := axis_setup ROps (gm_axis ROps r lo1 hi1) o1 (gm_index ROps r (gm_origin ROps r lo1) o1) ((e1 - o1) / rho2)) in *.
  assert (Es : rc_step caster2 = [fst (fst su0); fst (fst su1)]) by reflexivity.
  assert (Et : rc_tmax caster2 = [snd (fst su0); snd (fst su1)]) by reflexivity.
  assert (Ed : rc_tdelta caster2 = [snd su0; snd su1]) by reflexivity.
  assert (Hsign : forall i, (i < 2)%nat ->
     (nth i (rc_eidx caster2) 0 - nth i (rc_oidx caster2) 0 = nth i (rc_step caster2) 0 * Z.abs (nth i (rc_eidx caster2) 0 - nth i (rc_oidx caster2) 0))%Z).
  { intros [|[|i]] Hi; try lia; rewrite Eo, Ee, Es; cbn [nth]; [exact S0|exact S1]. }
  assert (Hdel : forall i, (i < 2)%nat -> 0 <= nth i (rc_tdelta caster2) 0).
  { intros [|[|i]] Hi; try lia; rewrite Ed; cbn [nth]; [exact D0|exact D1]. }
  (* geometry *)
  destruct su0 as [[st0 tm0] td0] eqn:Esu0. destruct su1 as [[st1 tm1] td1] eqn:Esu1. cbn [fst snd] in *.
  destruct X0 as (X0p & X0n & X0z). destruct X1 as (X1p & X1n & X1z).
  assert (Hst0 : st0 = 1%Z \/ st0 = (-1)%Z \/ st0 = 0%Z).
  { unfold su0 in Esu0. unfold axis_setup in Esu0. cbn [nltb nzero ROps] in Esu0.
    destruct (Rltb 0 ((e0 - o0) / rho2)); [inversion Esu0; auto|]. destruct (Rltb ((e0 - o0) / rho2) 0); inversion Esu0; auto. }
  assert (Hst1 : st1 = 1%Z \/ st1 = (-1)%Z \/ st1 = 0%Z).
  { unfold su1 in Esu1. unfold axis_setup in Esu1. cbn [nltb nzero ROps] in Esu1.
    destruct (Rltb 0 ((e1 - o1) / rho2)); [inversion Esu1; auto|]. destruct (Rltb ((e1 - o1) / rho2) 0); inversion Esu1; auto. }
  apply (cast_walk_geo 2 (or_introl eq_refl) r rho2 org2 [o0; o1] dirv2 (rc_eidx caster2) (rc_step caster2) (rc_tdelta caster2) Hr HrhoM);
    try reflexivity; try assumption.
  - (* the end point lies in the end cell *)
    intros [|[|i]] Hi; try lia; unfold lo, hi, pos, org2, dirv2; rewrite Ee; cbn [nth].
    + replace (o0 + rho2 * ((e0 - o0) / rho2)) with e0 by (field; lra). exact Ce0.
    + replace (o1 + rho2 * ((e1 - o1) / rho2)) with e1 by (field; lra). exact Ce1.
  - (* step = sign of the direction, increment = one cell *)
    intros [|[|i]] Hi; try lia; unfold dirv2; rewrite Es, Ed; cbn [nth].
    + destruct Hst0 as [E|[E|E]]; [left; destruct (X0p E) as (a & _ & _ & b); auto
                                  |right; left; destruct (X0n E) as (a & _ & _ & b); auto|right; right; auto].
    + destruct Hst1 as [E|[E|E]]; [left; destruct (X1p E) as (a & _ & _ & b); auto
                                  |right; left; destruct (X1n E) as (a & _ & _ & b); auto|right; right; auto].
  - (* the invariant at T = 0 *)
    unfold ginv. split; [lra|]. split.
    + intros [|[|i]] Hi; try lia; unfold lo, hi, pos, org2, dirv2; rewrite Eo; cbn [nth]; rewrite Rmult_0_l, Rplus_0_r; assumption.
    + intros [|[|i]] Hi Hne'; try lia; unfold lo, hi, pos, org2, dirv2; rewrite Eo, Es, Et; cbn [nth].
      * split; [|split]; intros; [destruct Hst0 as [E|[E|E]];
          [destruct (X0p E) as (_ & a & _); exact a|destruct (X0n E) as (_ & a & _); exact a|]
          |destruct (X0p H) as (_ & _ & a & _); exact a|destruct (X0n H) as (_ & _ & a & _); exact a].
        (* step 0 on an axis whose index still differs: impossible by the sign relation *)
        exfalso. specialize (Hsign 0%nat ltac:(lia)). rewrite Eo, Ee, Es in Hsign. cbn [nth] in Hsign. rewrite E in Hsign.
        rewrite Eo, Ee in Hne'. cbn [nth] in Hne'. lia.
      * split; [|split]; intros; [destruct Hst1 as [E|[E|E]];
          [destruct (X1p E) as (_ & a & _); exact a|destruct (X1n E) as (_ & a & _); exact a|]
          |destruct (X1p H) as (_ & _ & a & _); exact a|destruct (X1n H) as (_ & _ & a & _); exact a].
        exfalso. specialize (Hsign 1%nat ltac:(lia)). rewrite Eo, Ee, Es in Hsign. cbn [nth] in Hsign. rewrite E in Hsign.
        rewrite Eo, Ee in Hne'. cbn [nth] in Hne'. lia.
Qed.
End Free2.

Section Free3.
Variables (r lo0 hi0 lo1 hi1 lo2 hi2 o0 o1 o2 e0 e1 e2 : R).
Hypothesis Hr : 0 < r.
Hypothesis Ho0 : lo0 <= o0 <= hi0. Hypothesis Ho1 : lo1 <= o1 <= hi1. Hypothesis Ho2 : lo2 <= o2 <= hi2.
Hypothesis He0 : lo0 <= e0 <= hi0. Hypothesis He1 : lo1 <= e1 <= hi1. Hypothesis He2 : lo2 <= e2 <= hi2.
Hypothesis Hne : o0 <> e0 \/ o1 <> e1 \/ o2 <> e2.
Local Notation caster3 := (RayCastAssembly.caster3 r lo0 hi0 lo1 hi1 lo2 hi2 o0 o1 o2 e0 e1 e2).
Local Notation rho3 := (RayCastAssembly.rho3 o0 o1 o2 e0 e1 e2).
Local Notation dirv3 := (RayCastAssembly.dirv3 o0 o1 o2 e0 e1 e2).
Local Notation org3 := (RayCastAssembly.org3 r lo0 lo1 lo2).
Hypothesis HrhoM : rho3 < M.

Theorem cast3_free :
  let cells := cast_cells ROps caster3 in
  let l1 := RayCastProofs.sumf 3 (fun i => Z.abs (nth i (rc_eidx caster3) 0 - nth i (rc_oidx caster3) 0)%Z) in
  (Z.of_nat (length cells) = l1 + 1)%Z /\
  hd [] cells = rc_oidx caster3 /\
  last cells [] = rc_eidx caster3 /\
  chain 3 (rc_oidx caster3) (tl cells) /\
  Forall (fun cl => forall i, (i < 3)%nat ->
            (Z.min (nth i (rc_oidx caster3) 0) (nth i (rc_eidx caster3) 0) <= nth i cl 0 <= Z.max (nth i (rc_oidx caster3) 0) (nth i (rc_eidx caster3) 0))%Z) cells /\
  Forall (meets 3 r rho3 org3 [o0; o1; o2] dirv3) cells.
Proof.
  pose proof (rho3_pos o0 o1 o2 e0 e1 e2 Hne) as Hrho.
  pose proof M_big as HM.
  (* per-axis facts *)
  pose proof (axis_step_consistent (gm_axis ROps r lo0 hi0) o0 e0 rho3 (gm_index ROps r (gm_origin ROps r lo0) o0) Hr Hrho) as S0.
  pose proof (axis_step_consistent (gm_axis ROps r lo1 hi1) o1 e1 rho3 (gm_index ROps r (gm_origin ROps r lo1) o1) Hr Hrho) as S1.
  pose proof (axis_step_consistent (gm_axis ROps r lo2 hi2) o2 e2 rho3 (gm_index ROps r (gm_origin ROps r lo2) o2) Hr Hrho) as S2.
  pose proof (axis_tdelta_nonneg (gm_axis ROps r lo0 hi0) o0 (gm_index ROps r (gm_origin ROps r lo0) o0) ((e0 - o0) / rho3) Hr ltac:(lra)) as D0.
  pose proof (axis_tdelta_nonneg (gm_axis ROps r lo1 hi1) o1 (gm_index ROps r (gm_origin ROps r lo1) o1) ((e1 - o1) / rho3) Hr ltac:(lra)) as D1.
  pose proof (axis_tdelta_nonneg (gm_axis ROps r lo2 hi2) o2 (gm_index ROps r (gm_origin ROps r lo2) o2) ((e2 - o2) / rho3) Hr ltac:(lra)) as D2.
  pose proof (point_in_its_cell r lo0 hi0 o0 Hr Ho0) as Co0. pose proof (point_in_its_cell r lo1 hi1 o1 Hr Ho1) as Co1.
  pose proof (point_in_its_cell r lo2 hi2 o2 Hr Ho2) as Co2.
  pose proof (point_in_its_cell r lo0 hi0 e0 Hr He0) as Ce0. pose proof (point_in_its_cell r lo1 hi1 e1 Hr He1) as Ce1.
  pose proof (point_in_its_cell r lo2 hi2 e2 Hr He2) as Ce2.
  pose proof (axis_setup_crossing (gm_axis ROps r lo0 hi0) o0 ((e0 - o0) / rho3) (gm_index ROps r (gm_origin ROps r lo0) o0) Hr Co0) as X0.
  pose proof (axis_setup_crossing (gm_axis ROps r lo1 hi1) o1 ((e1 - o1) / rho3) (gm_index ROps r (gm_origin ROps r lo1) o1) Hr Co1) as X1.
  pose proof (axis_setup_crossing (gm_axis ROps r lo2 hi2) o2 ((e2 - o2) / rho3) (gm_index ROps r (gm_origin ROps r lo2) o2) Hr Co2) as X2.
  cbv zeta in *.
  (* the caster's fields, computed *)
  assert (Eo : rc_oidx caster3 = [gm_index ROps r (gm_origin ROps r lo0) o0; gm_index ROps r (gm_origin ROps r lo1) o1; gm_index ROps r (gm_origin ROps r lo2) o2]) by reflexivity.
  assert (Ee : rc_eidx caster3 = [gm_index ROps r (gm_origin ROps r lo0) e0; gm_index ROps r (gm_origin ROps r lo1) e1; gm_index ROps r (gm_origin ROps r lo2) e2]) by reflexivity.
  set (su0 := axis_setup ROps (gm_axis ROps r lo0 hi0) o0 (gm_index ROps r (gm_origin ROps r lo0) o0) ((e0 - o0) / rho3)) in *.
  set (su1 := axis_setup ROps (gm_axis ROps r lo1 hi1) o1 (gm_index ROps r (gm_origin ROps r lo1) o1) ((e1 - o1) / rho3)) in *.
  set (su2 := axis_setup ROps (gm_axis ROps r lo2 hi2) o2 (gm_index ROps r (gm_origin ROps r lo2) o2) ((e2 - o2) / rho3)) in *.
  assert (Es : rc_step caster3 = [fst (fst su0); fst (fst su1); fst (fst su2)]) by reflexivity.
  assert (Et : rc_tmax caster3 = [snd (fst su0); snd (fst su1); snd (fst su2)]) by reflexivity.
  assert (Ed : rc_tdelta caster3 = [snd su0; snd su1; snd su2]) by reflexivity.
  assert (Hsign : forall i, (i < 3)%nat ->
     (nth i (rc_eidx caster3) 0 - nth i (rc_oidx caster3) 0 = nth i (rc_step caster3) 0 * Z.abs (nth i (rc_eidx caster3) 0 - nth i (rc_oidx caster3) 0))%Z).
  { intros [|[|[|i]]] Hi; try lia; rewrite Eo, Ee, Es; cbn [nth]; [exact S0|exact S1|exact S2]. }
  assert (Hdel : forall i, (i < 3)%nat -> 0 <= nth i (rc_tdelta caster3) 0).
  { intros [|[|[|i]]] Hi; try lia; rewrite Ed; cbn [nth]; [exact D0|exact D1|exact D2]. }
  (* geometry *)
  destruct su0 as [[st0 tm0] td0] eqn:Esu0. destruct su1 as [[st1 tm1] td1] eqn:Esu1. destruct su2 as [[st2 tm2] td2] eqn:Esu2. cbn [fst snd] in *.
  destruct X0 as (X0p & X0n & X0z). destruct X1 as (X1p & X1n & X1z). destruct X2 as (X2p & X2n & X2z).
  assert (Hst0 : st0 = 1%Z \/ st0 = (-1)%Z \/ st0 = 0%Z).
  { unfold su0 in Esu0. unfold axis_setup in Esu0. cbn [nltb nzero ROps] in Esu0.
    destruct (Rltb 0 ((e0 - o0) / rho3)); [inversion Esu0; auto|]. destruct (Rltb ((e0 - o0) / rho3) 0); inversion Esu0; auto. }
  assert (Hst1 : st1 = 1%Z \/ st1 = (-1)%Z \/ st1 = 0%Z).
  { unfold su1 in Esu1. unfold axis_setup in Esu1. cbn [nltb nzero ROps] in Esu1.
    destruct (Rltb 0 ((e1 - o1) / rho3)); [inversion Esu1; auto|]. destruct (Rltb ((e1 - o1) / rho3) 0); inversion Esu1; auto. }
  assert (Hst2 : st2 = 1%Z \/ st2 = (-1)%Z \/ st2 = 0%Z).
  { unfold su2 in Esu2. unfold axis_setup in Esu2. cbn [nltb nzero ROps] in Esu2.
    destruct (Rltb 0 ((e2 - o2) / rho3)); [inversion Esu2; auto|]. destruct (Rltb ((e2 - o2) / rho3) 0); inversion Esu2; auto. }
  apply (cast_walk_geo 3 (or_intror eq_refl) r rho3 org3 [o0; o1; o2] dirv3 (rc_eidx caster3) (rc_step caster3) (rc_tdelta caster3) Hr HrhoM);
    try reflexivity; try assumption.
  - (* the end point lies in the end cell *)
    intros [|[|[|i]]] Hi; try lia; unfold lo, hi, pos, org3, dirv3; rewrite Ee; cbn [nth].
    + replace (o0 + rho3 * ((e0 - o0) / rho3)) with e0 by (field; lra). exact Ce0.
    + replace (o1 + rho3 * ((e1 - o1) / rho3)) with e1 by (field; lra). exact Ce1.
    + replace (o2 + rho3 * ((e2 - o2) / rho3)) with e2 by (field; lra). exact Ce2.
  - (* step = sign of the direction, increment = one cell *)
    intros [|[|[|i]]] Hi; try lia; unfold dirv3; rewrite Es, Ed; cbn [nth].
    + destruct Hst0 as [E|[E|E]]; [left; destruct (X0p E) as (a & _ & _ & b); auto
                                  |right; left; destruct (X0n E) as (a & _ & _ & b); auto|right; right; auto].
    + destruct Hst1 as [E|[E|E]]; [left; destruct (X1p E) as (a & _ & _ & b); auto
                                  |right; left; destruct (X1n E) as (a & _ & _ & b); auto|right; right; auto].
    + destruct Hst2 as [E|[E|E]]; [left; destruct (X2p E) as (a & _ & _ & b); auto
                                  |right; left; destruct (X2n E) as (a & _ & _ & b); auto|right; right; auto].
  - (* the invariant at T = 0 *)
    unfold ginv. split; [lra|]. split.
    + intros [|[|[|i]]] Hi; try lia; unfold lo, hi, pos, org3, dirv3; rewrite Eo; cbn [nth]; rewrite Rmult_0_l, Rplus_0_r; assumption.
    + intros [|[|[|i]]] Hi Hne'; try lia; unfold lo, hi, pos, org3, dirv3; rewrite Eo, Es, Et; cbn [nth].
      * split; [|split]; intros; [destruct Hst0 as [E|[E|E]];
          [destruct (X0p E) as (_ & a & _); exact a|destruct (X0n E) as (_ & a & _); exact a|]
          |destruct (X0p H) as (_ & _ & a & _); exact a|destruct (X0n H) as (_ & _ & a & _); exact a].
        (* step 0 on an axis whose index still differs: impossible by the sign relation *)
        exfalso. specialize (Hsign 0%nat ltac:(lia)). rewrite Eo, Ee, Es in Hsign. cbn [nth] in Hsign. rewrite E in Hsign.
        rewrite Eo, Ee in Hne'. cbn [nth] in Hne'. lia.
      * split; [|split]; intros; [destruct Hst1 as [E|[E|E]];
          [destruct (X1p E) as (_ & a & _); exact a|destruct (X1n E) as (_ & a & _); exact a|]
          |destruct (X1p H) as (_ & _ & a & _); exact a|destruct (X1n H) as (_ & _ & a & _); exact a].
        exfalso. specialize (Hsign 1%nat ltac:(lia)). rewrite Eo, Ee, Es in Hsign. cbn [nth] in Hsign. rewrite E in Hsign.
        rewrite Eo, Ee in Hne'. cbn [nth] in Hne'. lia.
      * split; [|split]; intros; [destruct Hst2 as [E|[E|E]];
          [destruct (X2p E) as (_ & a & _); exact a|destruct (X2n E) as (_ & a & _); exact a|]
          |destruct (X2p H) as (_ & _ & a & _); exact a|destruct (X2n H) as (_ & _ & a & _); exact a].
        exfalso. specialize (Hsign 2%nat ltac:(lia)). rewrite Eo, Ee, Es in Hsign. cbn [nth] in Hsign. rewrite E in Hsign.
        rewrite Eo, Ee in Hne'. cbn [nth] in Hne'. lia.
Qed.
End Free3.

(* ------------------------------------------------------------------ 3. the numeric premise from the size of the extent *)
Lemma M_huge : 10000 < M.
Proof.
  unfold M. cbn [nmaxval ROps].
  assert (A : 16384 <= powerRZ 2 1023).
  { change (powerRZ 2 1023) with (2 ^ Pos.to_nat 1023). replace 16384 with (2 ^ 14) by (cbn; lra).
    apply Rle_pow; [lra|]. apply Nat.leb_le. vm_compute. reflexivity. }
  assert (Bd : 0 < powerRZ 2 (-52) <= 1).
  { change (powerRZ 2 (-52)) with (/ 2 ^ Pos.to_nat 52).
    assert (1 <= 2 ^ Pos.to_nat 52) by (replace 1 with (2 ^ 0) by reflexivity; apply Rle_pow; [lra|lia]).
    split; [apply Rinv_0_lt_compat; lra|]. rewrite <- Rinv_1. apply Rinv_le_contravar; lra. }
  nra.
Qed.

Lemma sqrt_le_of_sq x y : 0 <= y -> x <= y * y -> sqrt x <= y.
Proof.
  intros Hy Hx. destruct (Rle_dec 0 x) as [P|P].
  - rewrite <- (sqrt_square y Hy). apply sqrt_le_1_alt. exact Hx.
  - rewrite sqrt_neg_0 by lra. exact Hy.
Qed.

(* |e - o| <= 2 D (2D) resp. 3 D (3D) when both points lie in an extent of side <= D  (crude: sqrt(DIM) <= DIM) *)
Lemma rho2_le (lo0 hi0 lo1 hi1 o0 o1 e0 e1 D : R) :
  lo0 <= o0 <= hi0 -> lo1 <= o1 <= hi1 -> lo0 <= e0 <= hi0 -> lo1 <= e1 <= hi1 ->
  hi0 - lo0 <= D -> hi1 - lo1 <= D -> rho2 o0 o1 e0 e1 <= 2 * D.
Proof.
  intros Ho0 Ho1 He0 He1 H0 H1. unfold rho2, norm. cbn [fold_left nsqrt nadd nmul nzero ROps].
  assert (0 <= D) by lra.
  assert ((e0 - o0) * (e0 - o0) <= D * D) by (assert (- D <= e0 - o0 <= D) by lra; nra).
  assert ((e1 - o1) * (e1 - o1) <= D * D) by (assert (- D <= e1 - o1 <= D) by lra; nra).
  apply sqrt_le_of_sq; nra.
Qed.

Lemma rho3_le (lo0 hi0 lo1 hi1 lo2 hi2 o0 o1 o2 e0 e1 e2 D : R) :
  lo0 <= o0 <= hi0 -> lo1 <= o1 <= hi1 -> lo2 <= o2 <= hi2 ->
  lo0 <= e0 <= hi0 -> lo1 <= e1 <= hi1 -> lo2 <= e2 <= hi2 ->
  hi0 - lo0 <= D -> hi1 - lo1 <= D -> hi2 - lo2 <= D -> rho3 o0 o1 o2 e0 e1 e2 <= 3 * D.
Proof.
  intros Ho0 Ho1 Ho2 He0 He1 He2 H0 H1 H2. unfold rho3, norm. cbn [fold_left nsqrt nadd nmul nzero ROps].
  assert (0 <= D) by lra.
  assert ((e0 - o0) * (e0 - o0) <= D * D) by (assert (- D <= e0 - o0 <= D) by lra; nra).
  assert ((e1 - o1) * (e1 - o1) <= D * D) by (assert (- D <= e1 - o1 <= D) by lra; nra).
  assert ((e2 - o2) * (e2 - o2) <= D * D) by (assert (- D <= e2 - o2 <= D) by lra; nra).
  apply sqrt_le_of_sq; nra.
Qed.

(* extent of side at most 2000 (the property's envelope: <= 2000 cells of resolution <= 1): no numeric premise left *)
Theorem cast2_box (r lo0 hi0 lo1 hi1 o0 o1 e0 e1 : R) :
  0 < r -> lo0 <= o0 <= hi0 -> lo1 <= o1 <= hi1 -> lo0 <= e0 <= hi0 -> lo1 <= e1 <= hi1 ->
  o0 <> e0 \/ o1 <> e1 -> hi0 - lo0 <= 2000 -> hi1 - lo1 <= 2000 ->
  let c := caster2 r lo0 hi0 lo1 hi1 o0 o1 e0 e1 in
  let cells := cast_cells ROps c in
  let l1 := RayCastProofs.sumf 2 (fun i => Z.abs (nth i (rc_eidx c) 0 - nth i (rc_oidx c) 0)%Z) in
  (Z.of_nat (length cells) = l1 + 1)%Z /\
  hd [] cells = rc_oidx c /\ last cells [] = rc_eidx c /\ chain 2 (rc_oidx c) (tl cells) /\
  Forall (fun cl => forall i, (i < 2)%nat ->
            (Z.min (nth i (rc_oidx c) 0) (nth i (rc_eidx c) 0) <= nth i cl 0 <= Z.max (nth i (rc_oidx c) 0) (nth i (rc_eidx c) 0))%Z) cells /\
  Forall (meets 2 r (rho2 o0 o1 e0 e1) (org2 r lo0 lo1) [o0; o1] (dirv2 o0 o1 e0 e1)) cells.
Proof.
  intros Hr Ho0 Ho1 He0 He1 Hne D0 D1.
  apply cast2_free; try assumption.
  pose proof (rho2_le lo0 hi0 lo1 hi1 o0 o1 e0 e1 2000 Ho0 Ho1 He0 He1 D0 D1). pose proof M_huge. lra.
Qed.

Theorem cast3_box (r lo0 hi0 lo1 hi1 lo2 hi2 o0 o1 o2 e0 e1 e2 : R) :
  0 < r -> lo0 <= o0 <= hi0 -> lo1 <= o1 <= hi1 -> lo2 <= o2 <= hi2 ->
  lo0 <= e0 <= hi0 -> lo1 <= e1 <= hi1 -> lo2 <= e2 <= hi2 ->
  o0 <> e0 \/ o1 <> e1 \/ o2 <> e2 -> hi0 - lo0 <= 2000 -> hi1 - lo1 <= 2000 -> hi2 - lo2 <= 2000 ->
  let c := caster3 r lo0 hi0 lo1 hi1 lo2 hi2 o0 o1 o2 e0 e1 e2 in
  let cells := cast_cells ROps c in
  let l1 := RayCastProofs.sumf 3 (fun i => Z.abs (nth i (rc_eidx c) 0 - nth i (rc_oidx c) 0)%Z) in
  (Z.of_nat (length cells) = l1 + 1)%Z /\
  hd [] cells = rc_oidx c /\ last cells [] = rc_eidx c /\ chain 3 (rc_oidx c) (tl cells) /\
  Forall (fun cl => forall i, (i < 3)%nat ->
            (Z.min (nth i (rc_oidx c) 0) (nth i (rc_eidx c) 0) <= nth i cl 0 <= Z.max (nth i (rc_oidx c) 0) (nth i (rc_eidx c) 0))%Z) cells /\
  Forall (meets 3 r (rho3 o0 o1 o2 e0 e1 e2) (org3 r lo0 lo1 lo2) [o0; o1; o2] (dirv3 o0 o1 o2 e0 e1 e2)) cells.
Proof.
  intros Hr Ho0 Ho1 Ho2 He0 He1 He2 Hne D0 D1 D2.
  apply cast3_free; try assumption.
  pose proof (rho3_le lo0 hi0 lo1 hi1 lo2 hi2 o0 o1 o2 e0 e1 e2 2000 Ho0 Ho1 Ho2 He0 He1 He2 D0 D1 D2). pose proof M_huge. lra.
Qed.

(* ------------------------------------------------------------------ 4. the integer side: indexes and the cell count fit *)
(* C++: CellIndexes are size_t; computeRayNumberOfCells casts both index vectors to int and sums |difference| in int;
   next() adds an int step (+-1) to a size_t index (modular arithmetic, exact whenever the mathematical result is >= 0).
   Generic statement on the conclusions of the walk theorem: if origin and end indexes lie in [0, n_i) and
   sum n_i <= 2^31 - 1, every visited index lies in [0, n_i) (so the size_t arithmetic is exact and the casts to int are
   lossless) and the cell count is in [1, 2^31 - 1] with every partial sum below it (the int sum cannot overflow). *)
Lemma sumf_le n f g : (forall i, (i < n)%nat -> (f i <= g i)%Z) -> (RayCastProofs.sumf n f <= RayCastProofs.sumf n g)%Z.
Proof.
  induction n as [|n IH]; intros H; cbn; [lia|]. specialize (H n ltac:(lia)) as Hn.
  assert (RayCastProofs.sumf n f <= RayCastProofs.sumf n g)%Z by (apply IH; intros; apply H; lia). lia.
Qed.

Lemma sumf_prefix_le n m f : (forall i, (i < n)%nat -> (0 <= f i)%Z) -> (m <= n)%nat ->
  (RayCastProofs.sumf m f <= RayCastProofs.sumf n f)%Z.
Proof.
  induction n as [|n IH]; intros H Hm; [replace m with 0%nat by lia; lia|].
  destruct (Nat.eq_dec m (S n)) as [->|Hne]; [lia|]. cbn.
  assert (0 <= f n)%Z by (apply H; lia).
  assert (RayCastProofs.sumf m f <= RayCastProofs.sumf n f)%Z by (apply IH; [intros; apply H; lia|lia]). lia.
Qed.

Lemma sumf_term_le n f i : (forall j, (j < n)%nat -> (0 <= f j)%Z) -> (i < n)%nat -> (f i <= RayCastProofs.sumf n f)%Z.
Proof.
  intros H Hi. pose proof (sumf_prefix_le n (S i) f H ltac:(lia)) as P. cbn in P.
  assert (0 <= RayCastProofs.sumf i f)%Z by (apply sumf_nonneg; intros; apply H; lia). lia.
Qed.

Theorem cast_indexes_fit_int (d : nat) (oidx eidx : list Z) (nc : nat -> Z) (cells : list (list Z)) :
  (forall i, (i < d)%nat -> (0 <= nth i oidx 0 < nc i)%Z) ->
  (forall i, (i < d)%nat -> (0 <= nth i eidx 0 < nc i)%Z) ->
  (RayCastProofs.sumf d nc <= 2147483647)%Z ->
  Forall (fun cl => forall i, (i < d)%nat ->
            (Z.min (nth i oidx 0) (nth i eidx 0) <= nth i cl 0 <= Z.max (nth i oidx 0) (nth i eidx 0))%Z) cells ->
  Forall (fun cl => forall i, (i < d)%nat -> (0 <= nth i cl 0 < nc i)%Z /\ (nth i cl 0 <= 2147483647)%Z) cells /\
  (forall m, (m <= d)%nat ->
     (0 <= RayCastProofs.sumf m (fun i => Z.abs (nth i eidx 0 - nth i oidx 0)) <= 2147483647 - 1)%Z) /\
  (1 <= RayCastProofs.sumf d (fun i => Z.abs (nth i eidx 0 - nth i oidx 0)) + 1 <= 2147483647)%Z.
Proof.
  intros Ho He Hn Hbox.
  assert (Hncpos : forall i, (i < d)%nat -> (0 <= nc i)%Z) by (intros i Hi; specialize (Ho i Hi); lia).
  assert (Hpart : forall m, (m <= d)%nat -> (1 <= m)%nat ->
     (0 <= RayCastProofs.sumf m (fun i => Z.abs (nth i eidx 0 - nth i oidx 0)) <= RayCastProofs.sumf m nc - 1)%Z).
  { intros m Hm Hm1. split; [apply sumf_nonneg; intros; lia|].
    assert (G : (RayCastProofs.sumf m (fun i => Z.abs (nth i eidx 0 - nth i oidx 0)) <= RayCastProofs.sumf m nc - Z.of_nat m)%Z).
    { clear Hm1. induction m as [|m IH]; [cbn; lia|]. cbn. specialize (IH ltac:(lia)).
      specialize (Ho m ltac:(lia)). specialize (He m ltac:(lia)). lia. }
    lia. }
  split; [|split].
  - eapply Forall_impl; [|exact Hbox]. cbn. intros cl H i Hi. specialize (H i Hi).
    pose proof (sumf_term_le d nc i Hncpos Hi). specialize (Ho i Hi). specialize (He i Hi). lia.
  - intros m Hm. destruct m as [|m]; [cbn; lia|].
    specialize (Hpart (S m) Hm ltac:(lia)). pose proof (sumf_prefix_le d (S m) nc Hncpos Hm). lia.
  - destruct d as [|d']; [cbn in *; lia|]. specialize (Hpart (S d') (Nat.le_refl _) ltac:(lia)). lia.
Qed.

(* the same for the casters that cast(origin, end) builds: n_i = numberOfCellsAlongAxes_[i] of the grid *)
Definition nc2 (r lo0 hi0 lo1 hi1 : R) (i : nat) : Z :=
  match i with O => gm_ncells ROps r lo0 hi0 | _ => gm_ncells ROps r lo1 hi1 end.
Definition nc3 (r lo0 hi0 lo1 hi1 lo2 hi2 : R) (i : nat) : Z :=
  match i with O => gm_ncells ROps r lo0 hi0 | 1%nat => gm_ncells ROps r lo1 hi1 | _ => gm_ncells ROps r lo2 hi2 end.

Theorem cast2_int (r lo0 hi0 lo1 hi1 o0 o1 e0 e1 : R) :
  0 < r -> lo0 <= o0 <= hi0 -> lo1 <= o1 <= hi1 -> lo0 <= e0 <= hi0 -> lo1 <= e1 <= hi1 ->
  o0 <> e0 \/ o1 <> e1 -> rho2 o0 o1 e0 e1 < M ->
  (gm_ncells ROps r lo0 hi0 + gm_ncells ROps r lo1 hi1 <= 2147483647)%Z ->
  let c := caster2 r lo0 hi0 lo1 hi1 o0 o1 e0 e1 in
  Forall (fun cl => forall i, (i < 2)%nat -> (0 <= nth i cl 0 < nc2 r lo0 hi0 lo1 hi1 i)%Z /\ (nth i cl 0 <= 2147483647)%Z)
         (cast_cells ROps c) /\
  (forall m, (m <= 2)%nat ->
     (0 <= RayCastProofs.sumf m (fun i => Z.abs (nth i (rc_eidx c) 0 - nth i (rc_oidx c) 0)) <= 2147483647 - 1)%Z) /\
  ncells c = Z.of_nat (length (cast_cells ROps c)) /\ (1 <= ncells c <= 2147483647)%Z.
Proof.
  intros Hr Ho0 Ho1 He0 He1 Hne HM Hn c.
  destruct (cast2_free r lo0 hi0 lo1 hi1 o0 o1 e0 e1 Hr Ho0 Ho1 He0 He1 Hne HM) as (L & _ & _ & _ & Hbox & _).
  fold c in L, Hbox.
  assert (Io : forall i, (i < 2)%nat -> (0 <= nth i (rc_oidx c) 0 < nc2 r lo0 hi0 lo1 hi1 i)%Z).
  { intros [|[|i]] Hi; try lia; cbn [nc2];
      [exact (index_in_bounds r lo0 hi0 Hr o0 Ho0)|exact (index_in_bounds r lo1 hi1 Hr o1 Ho1)]. }
  assert (Ie : forall i, (i < 2)%nat -> (0 <= nth i (rc_eidx c) 0 < nc2 r lo0 hi0 lo1 hi1 i)%Z).
  { intros [|[|i]] Hi; try lia; cbn [nc2];
      [exact (index_in_bounds r lo0 hi0 Hr e0 He0)|exact (index_in_bounds r lo1 hi1 Hr e1 He1)]. }
  destruct (cast_indexes_fit_int 2 (rc_oidx c) (rc_eidx c) (nc2 r lo0 hi0 lo1 hi1) (cast_cells ROps c) Io Ie
              ltac:(cbn [RayCastProofs.sumf nc2]; lia) Hbox) as (F & P & N).
  split; [exact F|]. split; [exact P|].
  assert (E : ncells c = (RayCastProofs.sumf 2 (fun i => Z.abs (nth i (rc_eidx c) 0 - nth i (rc_oidx c) 0)) + 1)%Z).
  { unfold ncells. rewrite (fold_abs_sumf 2) by (auto; reflexivity). reflexivity. }
  rewrite E. split; [lia|exact N].
Qed.

Theorem cast3_int (r lo0 hi0 lo1 hi1 lo2 hi2 o0 o1 o2 e0 e1 e2 : R) :
  0 < r -> lo0 <= o0 <= hi0 -> lo1 <= o1 <= hi1 -> lo2 <= o2 <= hi2 ->
  lo0 <= e0 <= hi0 -> lo1 <= e1 <= hi1 -> lo2 <= e2 <= hi2 ->
  o0 <> e0 \/ o1 <> e1 \/ o2 <> e2 -> rho3 o0 o1 o2 e0 e1 e2 < M ->
  (gm_ncells ROps r lo0 hi0 + gm_ncells ROps r lo1 hi1 + gm_ncells ROps r lo2 hi2 <= 2147483647)%Z ->
  let c := caster3 r lo0 hi0 lo1 hi1 lo2 hi2 o0 o1 o2 e0 e1 e2 in
  Forall (fun cl => forall i, (i < 3)%nat -> (0 <= nth i cl 0 < nc3 r lo0 hi0 lo1 hi1 lo2 hi2 i)%Z /\ (nth i cl 0 <= 2147483647)%Z)
         (cast_cells ROps c) /\
  (forall m, (m <= 3)%nat ->
     (0 <= RayCastProofs.sumf m (fun i => Z.abs (nth i (rc_eidx c) 0 - nth i (rc_oidx c) 0)) <= 2147483647 - 1)%Z) /\
  ncells c = Z.of_nat (length (cast_cells ROps c)) /\ (1 <= ncells c <= 2147483647)%Z.
Proof.
  intros Hr Ho0 Ho1 Ho2 He0 He1 He2 Hne HM Hn c.
  destruct (cast3_free r lo0 hi0 lo1 hi1 lo2 hi2 o0 o1 o2 e0 e1 e2 Hr Ho0 Ho1 Ho2 He0 He1 He2 Hne HM) as (L & _ & _ & _ & Hbox & _).
  fold c in L, Hbox.
  assert (Io : forall i, (i < 3)%nat -> (0 <= nth i (rc_oidx c) 0 < nc3 r lo0 hi0 lo1 hi1 lo2 hi2 i)%Z).
  { intros [|[|[|i]]] Hi; try lia; cbn [nc3];
      [exact (index_in_bounds r lo0 hi0 Hr o0 Ho0)|exact (index_in_bounds r lo1 hi1 Hr o1 Ho1)|exact (index_in_bounds r lo2 hi2 Hr o2 Ho2)]. }
  assert (Ie : forall i, (i < 3)%nat -> (0 <= nth i (rc_eidx c) 0 < nc3 r lo0 hi0 lo1 hi1 lo2 hi2 i)%Z).
  { intros [|[|[|i]]] Hi; try lia; cbn [nc3];
      [exact (index_in_bounds r lo0 hi0 Hr e0 He0)|exact (index_in_bounds r lo1 hi1 Hr e1 He1)|exact (index_in_bounds r lo2 hi2 Hr e2 He2)]. }
  destruct (cast_indexes_fit_int 3 (rc_oidx c) (rc_eidx c) (nc3 r lo0 hi0 lo1 hi1 lo2 hi2) (cast_cells ROps c) Io Ie
              ltac:(cbn [RayCastProofs.sumf nc3]; lia) Hbox) as (F & P & N).
  split; [exact F|]. split; [exact P|].
  assert (E : ncells c = (RayCastProofs.sumf 3 (fun i => Z.abs (nth i (rc_eidx c) 0 - nth i (rc_oidx c) 0)) + 1)%Z).
  { unfold ncells. rewrite (fold_abs_sumf 3) by (auto; reflexivity). reflexivity. }
  rewrite E. split; [lia|exact N].
Qed.
