(* SrcTieC14.v — the SYNTACTIC source tie of C14.  gen/SrcRayCast.v is regenerated on every run by
   translate/tr_C14_raycast.py from the clang AST of src/containers/grid/RayTracing.cpp (and, for the calls into the grid,
   src/containers/grid/GridIndexMapping.cpp): the four explicit specialisations RayCasting<float|double, 2|3>::next, and the
   template members computeRayNumberOfCells, setOriginPoint, setEndPoint at DIM = 2, 3.  Here the generated terms are proved
   equal to the functions of RayCastModel.v the C14 theorems are about (next, ncells, set_origin, set_end), for EVERY numeric
   dictionary N (so for the real instance of the theorems and for the float dictionaries of the correspondence run), with the
   integer conversions read at IdealInt (unbounded Z, as the model does); the *_machine lemmas say that the wrap-around
   reading MachInt gives the same result whenever the new index fits size_t.
   The proofs are by computation and case analysis only (no algebra): the generated term and the model perform the same
   floating-point operations in the same order. *)
From Coq Require Import ZArith List Bool Lia.
From Romea Require Import Num GridMapModel RayCastModel SrcEigen.
From Romea.gen Require Import SrcRayCast.
Import ListNotations.

Ltac split_ifs :=
  repeat match goal with |- context [Z.eqb ?a ?b] => destruct (Z.eqb a b) end; cbn [negb];
  repeat match goal with |- context [nltb ?N ?a ?b] => destruct (nltb N a b) end.

Section Tie.
Context {T : Type} (N : NumOps T).

(* ---------------------------------------------------------------- next: the four specialisations *)
Ltac next_tie f := unfold f, next, eff_tmax, pick; cbv zeta; cbn [cu64 ci32 IdealInt combine map]; split_ifs; reflexivity.

Lemma tie_next_f2 c0 c1 e0 e1 s0 s1 d0 d1 t0 t1 :
  src_next_f2 N IdealInt c0 c1 e0 e1 s0 s1 d0 d1 t0 t1 = next N [e0; e1] [s0; s1] [d0; d1] ([c0; c1], [t0; t1]).
Proof. next_tie @src_next_f2. Qed.

Lemma tie_next_d2 c0 c1 e0 e1 s0 s1 d0 d1 t0 t1 :
  src_next_d2 N IdealInt c0 c1 e0 e1 s0 s1 d0 d1 t0 t1 = next N [e0; e1] [s0; s1] [d0; d1] ([c0; c1], [t0; t1]).
Proof. next_tie @src_next_d2. Qed.

Lemma tie_next_f3 c0 c1 c2 e0 e1 e2 s0 s1 s2 d0 d1 d2 t0 t1 t2 :
  src_next_f3 N IdealInt c0 c1 c2 e0 e1 e2 s0 s1 s2 d0 d1 d2 t0 t1 t2
  = next N [e0; e1; e2] [s0; s1; s2] [d0; d1; d2] ([c0; c1; c2], [t0; t1; t2]).
Proof. next_tie @src_next_f3. Qed.

Lemma tie_next_d3 c0 c1 c2 e0 e1 e2 s0 s1 s2 d0 d1 d2 t0 t1 t2 :
  src_next_d3 N IdealInt c0 c1 c2 e0 e1 e2 s0 s1 s2 d0 d1 d2 t0 t1 t2
  = next N [e0; e1; e2] [s0; s1; s2] [d0; d1; d2] ([c0; c1; c2], [t0; t1; t2]).
Proof. next_tie @src_next_d3. Qed.

(* machine integers: cellIndexes[k] += rayStep_[k] is (c + (s mod 2^64)) mod 2^64; whenever every c_i + s_i is a size_t
   value (C14_indexes_and_count_fit_int proves it for the indexes of a walk) this is c + s *)
Ltac mach_tie f := intros; unfold f; cbv zeta; rewrite ?cu64_add_step by assumption; reflexivity.

Lemma next_f2_machine c0 c1 e0 e1 s0 s1 d0 d1 t0 t1 :
  (0 <= c0 + s0 < 2 ^ 64)%Z -> (0 <= c1 + s1 < 2 ^ 64)%Z ->
  src_next_f2 N MachInt c0 c1 e0 e1 s0 s1 d0 d1 t0 t1 = src_next_f2 N IdealInt c0 c1 e0 e1 s0 s1 d0 d1 t0 t1.
Proof. mach_tie @src_next_f2. Qed.
Lemma next_d2_machine c0 c1 e0 e1 s0 s1 d0 d1 t0 t1 :
  (0 <= c0 + s0 < 2 ^ 64)%Z -> (0 <= c1 + s1 < 2 ^ 64)%Z ->
  src_next_d2 N MachInt c0 c1 e0 e1 s0 s1 d0 d1 t0 t1 = src_next_d2 N IdealInt c0 c1 e0 e1 s0 s1 d0 d1 t0 t1.
Proof. mach_tie @src_next_d2. Qed.
Lemma next_f3_machine c0 c1 c2 e0 e1 e2 s0 s1 s2 d0 d1 d2 t0 t1 t2 :
  (0 <= c0 + s0 < 2 ^ 64)%Z -> (0 <= c1 + s1 < 2 ^ 64)%Z -> (0 <= c2 + s2 < 2 ^ 64)%Z ->
  src_next_f3 N MachInt c0 c1 c2 e0 e1 e2 s0 s1 s2 d0 d1 d2 t0 t1 t2 = src_next_f3 N IdealInt c0 c1 c2 e0 e1 e2 s0 s1 s2 d0 d1 d2 t0 t1 t2.
Proof. mach_tie @src_next_f3. Qed.
Lemma next_d3_machine c0 c1 c2 e0 e1 e2 s0 s1 s2 d0 d1 d2 t0 t1 t2 :
  (0 <= c0 + s0 < 2 ^ 64)%Z -> (0 <= c1 + s1 < 2 ^ 64)%Z -> (0 <= c2 + s2 < 2 ^ 64)%Z ->
  src_next_d3 N MachInt c0 c1 c2 e0 e1 e2 s0 s1 s2 d0 d1 d2 t0 t1 t2 = src_next_d3 N IdealInt c0 c1 c2 e0 e1 e2 s0 s1 s2 d0 d1 d2 t0 t1 t2.
Proof. mach_tie @src_next_d3. Qed.

(* ---------------------------------------------------------------- computeRayNumberOfCells *)
Lemma tie_ncells_2 (c : caster (T:=T)) e0 e1 o0 o1 : rc_eidx c = [e0; e1] -> rc_oidx c = [o0; o1] ->
  src_ncells_2 IdealInt e0 e1 o0 o1 = ncells c.
Proof. intros He Ho. unfold src_ncells_2, ncells, eig_sumZ. rewrite He, Ho. cbn [cu64 ci32 IdealInt fold_left combine]. lia. Qed.

Lemma tie_ncells_3 (c : caster (T:=T)) e0 e1 e2 o0 o1 o2 : rc_eidx c = [e0; e1; e2] -> rc_oidx c = [o0; o1; o2] ->
  src_ncells_3 IdealInt e0 e1 e2 o0 o1 o2 = ncells c.
Proof. intros He Ho. unfold src_ncells_3, ncells, eig_sumZ. rewrite He, Ho. cbn [cu64 ci32 IdealInt fold_left combine]. lia. Qed.

(* machine integers: the indexes are converted to int, subtracted, |.|, summed, + 1 in int, converted to size_t.  When the
   indexes fit int (C14_indexes_and_count_fit_int: they do, and so do the sum and its partial sums) nothing wraps. *)
Lemma ncells_2_machine e0 e1 o0 o1 :
  (0 <= e0 < 2 ^ 31)%Z -> (0 <= e1 < 2 ^ 31)%Z -> (0 <= o0 < 2 ^ 31)%Z -> (0 <= o1 < 2 ^ 31)%Z ->
  src_ncells_2 MachInt e0 e1 o0 o1 = src_ncells_2 IdealInt e0 e1 o0 o1.
Proof.
  intros. unfold src_ncells_2. rewrite !ci32_small by lia. cbn [ci32 IdealInt].
  rewrite cu64_small; [reflexivity|]. unfold eig_sumZ. cbn [fold_left]. lia.
Qed.

Lemma ncells_3_machine e0 e1 e2 o0 o1 o2 :
  (0 <= e0 < 2 ^ 31)%Z -> (0 <= e1 < 2 ^ 31)%Z -> (0 <= e2 < 2 ^ 31)%Z ->
  (0 <= o0 < 2 ^ 31)%Z -> (0 <= o1 < 2 ^ 31)%Z -> (0 <= o2 < 2 ^ 31)%Z ->
  src_ncells_3 MachInt e0 e1 e2 o0 o1 o2 = src_ncells_3 IdealInt e0 e1 e2 o0 o1 o2.
Proof.
  intros. unfold src_ncells_3. rewrite !ci32_small by lia. cbn [ci32 IdealInt].
  rewrite cu64_small; [reflexivity|]. unfold eig_sumZ. cbn [fold_left]. lia.
Qed.

(* ---------------------------------------------------------------- setOriginPoint
   The C++ grid has ONE resolution for all axes (cellResolution_); the model's axes carry one each: the tie is for casters
   whose axes share it.  Outputs of the generated term: (rayOriginIndexes_, rayOriginPoint_). *)
Lemma tie_setOrigin_2 (c : caster (T:=T)) a0 a1 r p0 p1 :
  rc_axes c = [a0; a1] -> ax_r a0 = r -> ax_r a1 = r ->
  src_setOrigin_2 N p0 p1 r (ax_org a0) (ax_org a1)
  = (rc_oidx (set_origin N c [p0; p1]), rc_origin (set_origin N c [p0; p1])).
Proof.
  intros Ha R0 R1. unfold src_setOrigin_2, set_origin, indexes, gm_index. cbv zeta. cbn [rc_oidx rc_origin].
  rewrite Ha. cbn [combine map]. rewrite R0, R1. reflexivity.
Qed.

Lemma tie_setOrigin_3 (c : caster (T:=T)) a0 a1 a2 r p0 p1 p2 :
  rc_axes c = [a0; a1; a2] -> ax_r a0 = r -> ax_r a1 = r -> ax_r a2 = r ->
  src_setOrigin_3 N p0 p1 p2 r (ax_org a0) (ax_org a1) (ax_org a2)
  = (rc_oidx (set_origin N c [p0; p1; p2]), rc_origin (set_origin N c [p0; p1; p2])).
Proof.
  intros Ha R0 R1 R2. unfold src_setOrigin_3, set_origin, indexes, gm_index. cbv zeta. cbn [rc_oidx rc_origin].
  rewrite Ha. cbn [combine map]. rewrite R0, R1, R2. reflexivity.
Qed.

(* ---------------------------------------------------------------- setEndPoint
   Outputs of the generated term: (rayDirection_, rayEndIndexes_, rayEndPoint_, rayStep_, rayTDelta_, rayTMax_).
   The cell-centre table of the grid is read at the origin index: [tab_i] is its contents as a function of the index; the
   hypothesis says what the constructor stored there (proved for the generated constructor in SrcTieC13.v:
   tie_ctor_table). *)
Definition setEnd_outputs (c' : caster (T:=T)) (e : list T) (out : list T * list Z * list T * list Z * list T * list T) : Prop :=
  let '(dir, eidx, ep, step, tdelta, tmax) := out in
  eidx = rc_eidx c' /\ ep = e /\ step = rc_step c' /\ tdelta = rc_tdelta c' /\ tmax = rc_tmax c'.

Lemma tie_setEnd_2 (L : LitOK N) (c : caster (T:=T)) a0 a1 r o0 o1 oi0 oi1 e0 e1 (tab0 tab1 : Z -> T) :
  rc_axes c = [a0; a1] -> rc_origin c = [o0; o1] -> rc_oidx c = [oi0; oi1] -> ax_r a0 = r -> ax_r a1 = r ->
  tab0 oi0 = gm_centre N r (ax_org a0) oi0 -> tab1 oi1 = gm_centre N r (ax_org a1) oi1 ->
  setEnd_outputs (set_end N c [e0; e1]) [e0; e1]
    (src_setEnd_2 N e0 e1 tab0 tab1 r (ax_org a0) (ax_org a1) oi0 oi1 o0 o1).
Proof.
  intros Ha Ho Hi R0 R1 T0 T1.
  unfold setEnd_outputs, src_setEnd_2, set_end, axis_setup, indexes, gm_index, eig_norm, norm. cbv zeta.
  rewrite Ha, Ho, Hi. cbn [combine map fold_left rc_axes rc_origin rc_oidx rc_eidx rc_step rc_tdelta rc_tmax].
  rewrite R0, R1, T0, T1, (lit_zero N L), (lit_half N L).
  repeat match goal with |- context [nltb ?N ?a ?b] => destruct (nltb N a b) end;
    cbn [Z.eqb negb fst snd]; repeat split; reflexivity.
Qed.

Lemma tie_setEnd_3 (L : LitOK N) (c : caster (T:=T)) a0 a1 a2 r o0 o1 o2 oi0 oi1 oi2 e0 e1 e2 (tab0 tab1 tab2 : Z -> T) :
  rc_axes c = [a0; a1; a2] -> rc_origin c = [o0; o1; o2] -> rc_oidx c = [oi0; oi1; oi2] ->
  ax_r a0 = r -> ax_r a1 = r -> ax_r a2 = r ->
  tab0 oi0 = gm_centre N r (ax_org a0) oi0 -> tab1 oi1 = gm_centre N r (ax_org a1) oi1 ->
  tab2 oi2 = gm_centre N r (ax_org a2) oi2 ->
  setEnd_outputs (set_end N c [e0; e1; e2]) [e0; e1; e2]
    (src_setEnd_3 N e0 e1 e2 tab0 tab1 tab2 r (ax_org a0) (ax_org a1) (ax_org a2) oi0 oi1 oi2 o0 o1 o2).
Proof.
  intros Ha Ho Hi R0 R1 R2 T0 T1 T2.
  unfold setEnd_outputs, src_setEnd_3, set_end, axis_setup, indexes, gm_index, eig_norm, norm. cbv zeta.
  rewrite Ha, Ho, Hi. cbn [combine map fold_left rc_axes rc_origin rc_oidx rc_eidx rc_step rc_tdelta rc_tmax].
  rewrite R0, R1, R2, T0, T1, T2, (lit_zero N L), (lit_half N L).
  repeat match goal with |- context [nltb ?N ?a ?b] => destruct (nltb N a b) end;
    cbn [Z.eqb negb fst snd]; repeat split; reflexivity.
Qed.

End Tie.

(* ---------------------------------------------------------------- the statements quoted by Properties_C14.v *)
Lemma tie_next_all : forall (T : Type) (N : NumOps T) (c0 c1 c2 e0 e1 e2 s0 s1 s2 : Z) (d0 d1 d2 t0 t1 t2 : T),
  src_next_f2 N IdealInt c0 c1 e0 e1 s0 s1 d0 d1 t0 t1 = next N [e0; e1] [s0; s1] [d0; d1] ([c0; c1], [t0; t1]) /\
  src_next_d2 N IdealInt c0 c1 e0 e1 s0 s1 d0 d1 t0 t1 = next N [e0; e1] [s0; s1] [d0; d1] ([c0; c1], [t0; t1]) /\
  src_next_f3 N IdealInt c0 c1 c2 e0 e1 e2 s0 s1 s2 d0 d1 d2 t0 t1 t2
    = next N [e0; e1; e2] [s0; s1; s2] [d0; d1; d2] ([c0; c1; c2], [t0; t1; t2]) /\
  src_next_d3 N IdealInt c0 c1 c2 e0 e1 e2 s0 s1 s2 d0 d1 d2 t0 t1 t2
    = next N [e0; e1; e2] [s0; s1; s2] [d0; d1; d2] ([c0; c1; c2], [t0; t1; t2]).
Proof.
  intros. repeat split; [apply tie_next_f2 | apply tie_next_d2 | apply tie_next_f3 | apply tie_next_d3].
Qed.

Lemma next_machine_all : forall (T : Type) (N : NumOps T) (c0 c1 c2 e0 e1 e2 s0 s1 s2 : Z) (d0 d1 d2 t0 t1 t2 : T),
  (0 <= c0 + s0 < 2 ^ 64)%Z -> (0 <= c1 + s1 < 2 ^ 64)%Z -> (0 <= c2 + s2 < 2 ^ 64)%Z ->
  src_next_f2 N MachInt c0 c1 e0 e1 s0 s1 d0 d1 t0 t1 = next N [e0; e1] [s0; s1] [d0; d1] ([c0; c1], [t0; t1]) /\
  src_next_d2 N MachInt c0 c1 e0 e1 s0 s1 d0 d1 t0 t1 = next N [e0; e1] [s0; s1] [d0; d1] ([c0; c1], [t0; t1]) /\
  src_next_f3 N MachInt c0 c1 c2 e0 e1 e2 s0 s1 s2 d0 d1 d2 t0 t1 t2
    = next N [e0; e1; e2] [s0; s1; s2] [d0; d1; d2] ([c0; c1; c2], [t0; t1; t2]) /\
  src_next_d3 N MachInt c0 c1 c2 e0 e1 e2 s0 s1 s2 d0 d1 d2 t0 t1 t2
    = next N [e0; e1; e2] [s0; s1; s2] [d0; d1; d2] ([c0; c1; c2], [t0; t1; t2]).
Proof.
  intros T N c0 c1 c2 e0 e1 e2 s0 s1 s2 d0 d1 d2 t0 t1 t2 H0 H1 H2. repeat split.
  - rewrite next_f2_machine by assumption. apply tie_next_f2.
  - rewrite next_d2_machine by assumption. apply tie_next_d2.
  - rewrite next_f3_machine by assumption. apply tie_next_f3.
  - rewrite next_d3_machine by assumption. apply tie_next_d3.
Qed.

Lemma tie_ncells_all : forall (T : Type) (c : caster (T:=T)),
  (forall e0 e1 o0 o1, rc_eidx c = [e0; e1] -> rc_oidx c = [o0; o1] -> src_ncells_2 IdealInt e0 e1 o0 o1 = ncells c) /\
  (forall e0 e1 e2 o0 o1 o2, rc_eidx c = [e0; e1; e2] -> rc_oidx c = [o0; o1; o2] ->
     src_ncells_3 IdealInt e0 e1 e2 o0 o1 o2 = ncells c).
Proof. intros T c. split; intros; [apply tie_ncells_2 | apply tie_ncells_3]; assumption. Qed.
