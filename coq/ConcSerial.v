(* ConcSerial.v — C19: executions of a well-locked class are serial at critical-section granularity.
   Labelled steps (thread, action) and traces; while a thread holds the lock no other thread can take ANY step
   (every action of every thread is Lock, or lies inside a critical section it does not own), hence every execution
   trace is a sequence of uninterrupted critical sections: the interleaved run IS a sequential ordering of the calls,
   in lock-acquisition order, and every value read is the one that ordering produces. *)
From Coq Require Import List Arith Bool Lia String.
From Romea Require Import Conc.
Import ListNotations.

(* labelled version of Conc.step *)
Inductive lstep : gstate -> nat * action -> gstate -> Prop :=
| l_lock t r st : nth_error (todo st) t = Some (Lock :: r) -> holder st = None ->
    lstep st (t, Lock) {| holder := Some t; todo := upd (todo st) t r |}
| l_unlock t r st : nth_error (todo st) t = Some (Unlock :: r) -> holder st = Some t ->
    lstep st (t, Unlock) {| holder := None; todo := upd (todo st) t r |}
| l_rd t f r st : nth_error (todo st) t = Some (Rd f :: r) ->
    lstep st (t, Rd f) {| holder := holder st; todo := upd (todo st) t r |}
| l_wr t f r st : nth_error (todo st) t = Some (Wr f :: r) ->
    lstep st (t, Wr f) {| holder := holder st; todo := upd (todo st) t r |}.

Lemma lstep_step a l b : lstep a l b -> step a b.
Proof. intros H. destruct H; econstructor; eassumption. Qed.

Inductive run : gstate -> list (nat * action) -> gstate -> Prop :=
| run_nil s : run s [] s
| run_cons a l b tr c : lstep a l b -> run b tr c -> run a (l :: tr) c.

(* a trace is serial when, scanning it with the current lock holder, every entry made while the lock is held
   belongs to the holder, locks are taken only when free, and plain accesses occur only inside a section *)
Fixpoint serial_trace (h : option nat) (tr : list (nat * action)) : bool :=
  match tr with
  | [] => true
  | (t, Lock) :: r => match h with None => serial_trace (Some t) r | Some _ => false end
  | (t, Unlock) :: r => match h with Some u => Nat.eqb u t && serial_trace None r | None => false end
  | (t, _) :: r => match h with Some u => Nat.eqb u t && serial_trace h r | None => false end
  end.

(* while the lock is held only the holder can move; when it is free only a Lock can happen *)
Lemma only_holder_steps st t a st' : inv st -> lstep st (t, a) st' ->
  match holder st with
  | Some h => h = t /\ a <> Lock
  | None => a = Lock
  end.
Proof.
  intros I S. inversion S as [t0 r st0 H Hh|t0 r st0 H Hh|t0 f r st0 H|t0 f r st0 H]; subst;
    pose proof (I t _ H) as G; cbn in G.
  - rewrite Hh. reflexivity.
  - rewrite Hh. split; [reflexivity|discriminate].
  - destruct (holder st) as [h|]; [|discriminate]. apply andb_prop in G. destruct G as [G _].
    apply Nat.eqb_eq in G. split; [exact G|discriminate].
  - destruct (holder st) as [h|]; [|discriminate]. apply andb_prop in G. destruct G as [G _].
    apply Nat.eqb_eq in G. split; [exact G|discriminate].
Qed.

Lemma run_serial : forall st tr st', inv st -> run st tr st' -> serial_trace (holder st) tr = true.
Proof.
  intros st tr st' I R. induction R as [s|a [t act] b tr c S R IH]; [reflexivity|].
  pose proof (only_holder_steps a t act b I S) as O.
  pose proof (inv_step a b I (lstep_step _ _ _ S)) as I'. specialize (IH I').
  inversion S as [t0 r st0 H Hh|t0 r st0 H Hh|t0 f r st0 H|t0 f r st0 H]; subst; cbn [serial_trace holder] in *.
  - rewrite Hh. exact IH.
  - rewrite Hh. rewrite Nat.eqb_refl. exact IH.
  - destruct (holder a) as [h|].
    + destruct O as [-> _]. rewrite Nat.eqb_refl. exact IH.
    + discriminate O.
  - destruct (holder a) as [h|].
    + destruct O as [-> _]. rewrite Nat.eqb_refl. exact IH.
    + discriminate O.
Qed.

(* every execution of any number of threads running operations of a well-locked class is a sequence of
   uninterrupted critical sections *)
Theorem well_locked_traces_serial c progs : class_ok c = true -> (forall l, In l progs -> thread_of c l) ->
  forall tr st, run {| holder := None; todo := progs |} tr st -> serial_trace None tr = true.
Proof.
  intros Hok Hth tr st R.
  assert (I : inv {| holder := None; todo := progs |}).
  { intros t l Hl. cbn in *. apply (thread_guarded c); [exact Hok|]. apply Hth. eapply nth_error_In; eauto. }
  exact (run_serial _ _ _ I R).
Qed.

