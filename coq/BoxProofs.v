(* BoxProofs.v — lemmas about BoxModel.v at the real-number instance (C20). *)
From Coq Require Import Reals ZArith List Bool Lra Lia.
From Flocq Require Import Core.Raux.
From Romea Require Import Num NumR BoxModel.
Import ListNotations.
Local Open Scope R_scope.

Notation "v .[ i ]" := (nth i v 0) (at level 2, i at level 200, left associativity, format "v .[ i ]").

(* ------------------------------------------------------------------ generic list facts *)
Lemma map2_length (f : R -> R -> R) a b : length a = length b -> length (map2 f a b) = length a.
Proof.
  revert b; induction a as [|x a IH]; intros [|y b] H; simpl in *; try discriminate; auto.
Qed.

Lemma map2_nth (f : R -> R -> R) a b i : length a = length b -> (i < length a)%nat ->
  (map2 f a b).[i] = f a.[i] b.[i].
Proof.
  revert b i; induction a as [|x a IH]; intros [|y b] i H Hi; simpl in *; try discriminate; try lia.
  destruct i; auto. apply IH; lia.
Qed.

Lemma all2_iff (f : R -> R -> bool) a b : length a = length b ->
  (all2 f a b = true <-> forall i, (i < length a)%nat -> f a.[i] b.[i] = true).
Proof.
  revert b; induction a as [|x a IH]; intros [|y b] H; simpl in *; try discriminate.
  - split; auto. intros _ i Hi; lia.
  - rewrite andb_true_iff, IH by lia. split.
    + intros [H0 HS] [|i] Hi; auto. apply HS; lia.
    + intros HA; split; [apply (HA 0%nat); lia|]. intros i Hi. apply (HA (S i)); lia.
Qed.

Lemma map_nth0 (f : R -> R) l i : (i < length l)%nat -> (map f l).[i] = f l.[i].
Proof. revert i; induction l; intros [|i] H; simpl in *; try lia; auto. apply IHl; lia. Qed.

Lemma repeat_nth0 (x : R) n i : (i < n)%nat -> (repeat x n).[i] = x.
Proof. revert i; induction n; intros [|i] H; simpl; try lia; auto. apply IHn; lia. Qed.

Lemma Rltb_min a b : nmin2 ROps a b = Rmin a b.
Proof.
  unfold nmin2; cbn. unfold Rltb, Rmin. destruct (Rlt_dec b a), (Rle_dec a b); lra.
Qed.
Lemma Rltb_max a b : nmax2 ROps a b = Rmax a b.
Proof.
  unfold nmax2; cbn. unfold Rltb, Rmax. destruct (Rlt_dec a b), (Rle_dec a b); lra.
Qed.

(* ------------------------------------------------------------------ interval <-> box *)
Lemma aabb_interval_roundtrip lo hi : length lo = length hi ->
  aabb_to_interval ROps (aabb_of_interval ROps {| i_lower := lo; i_upper := hi |}) = {| i_lower := lo; i_upper := hi |}.
Proof.
  intros H. unfold aabb_to_interval, aabb_of_interval, interval_center, interval_width, vhalf, vadd, vsub; cbn.
  revert hi H; induction lo as [|l lo IH]; intros [|h hi] H; simpl in *; try discriminate; auto.
  injection H as H. specialize (IH hi H). injection IH as IH1 IH2.
  f_equal; f_equal; auto; field.
Qed.

Lemma aabb_to_interval_nth (c h : list R) i : length c = length h -> (i < length c)%nat ->
  (i_lower (aabb_to_interval ROps {| a_center := c; a_half := h |})).[i] = c.[i] - h.[i] /\
  (i_upper (aabb_to_interval ROps {| a_center := c; a_half := h |})).[i] = c.[i] + h.[i].
Proof. intros H Hi. cbn. unfold vsub, vadd. rewrite !map2_nth by auto. auto. Qed.

Lemma aabb_inside_iff (c h p : list R) : length c = length h -> length p = length c ->
  (aabb_inside ROps {| a_center := c; a_half := h |} p = true <->
   forall i, (i < length c)%nat -> c.[i] - h.[i] <= p.[i] <= c.[i] + h.[i]).
Proof.
  intros Hch Hpc. unfold aabb_inside, vabs, vsub; cbn.
  rewrite all2_iff by (rewrite map_length, map2_length; lia).
  rewrite map_length, map2_length by lia. rewrite Hpc.
  split; intros H i Hi; specialize (H i Hi).
  - rewrite map_nth0 in H by (rewrite map2_length; lia). rewrite map2_nth in H by lia.
    apply Rleb_true in H. apply Rabs_le_inv in H. lra.
  - rewrite map_nth0 by (rewrite map2_length; lia). rewrite map2_nth by lia.
    apply Rleb_true. apply Rabs_le. lra.
Qed.

(* ------------------------------------------------------------------ interval union and membership *)
Lemma include_is_hull (lo1 hi1 lo2 hi2 : list R) i :
  length lo1 = length lo2 -> length hi1 = length hi2 -> (i < length lo1)%nat -> (i < length hi1)%nat ->
  let u := interval_include ROps {| i_lower := lo1; i_upper := hi1 |} {| i_lower := lo2; i_upper := hi2 |} in
  (i_lower u).[i] = Rmin lo1.[i] lo2.[i] /\ (i_upper u).[i] = Rmax hi1.[i] hi2.[i].
Proof.
  intros H1 H2 Hi1 Hi2; cbn. rewrite !map2_nth by auto. rewrite Rltb_min, Rltb_max. auto.
Qed.

Lemma interval_inside_iff (lo hi v : list R) : length lo = length v -> length hi = length v ->
  (interval_inside ROps {| i_lower := lo; i_upper := hi |} v = true <->
   forall i, (i < length v)%nat -> lo.[i] <= v.[i] <= hi.[i]).
Proof.
  intros H1 H2. unfold interval_inside; cbn. rewrite andb_true_iff, !all2_iff by lia.
  split.
  - intros [A B] i Hi. specialize (A i Hi); specialize (B i Hi). unfold ngeb in A; cbn in A, B.
    apply Rleb_true in A, B. lra.
  - intros H; split; intros i Hi; specialize (H i Hi); unfold ngeb; cbn; apply Rleb_true; lra.
Qed.

(* the union contains a value as soon as one of the two intervals does, and every interval that contains both
   (componentwise) contains the union: it is the smallest enclosing interval *)
Lemma include_encloses_minimal (lo1 hi1 lo2 hi2 : list R) :
  length lo1 = length lo2 -> length hi1 = length hi2 -> length lo1 = length hi1 ->
  let u := interval_include ROps {| i_lower := lo1; i_upper := hi1 |} {| i_lower := lo2; i_upper := hi2 |} in
  (forall v, length v = length lo1 ->
     interval_inside ROps {| i_lower := lo1; i_upper := hi1 |} v = true \/
     interval_inside ROps {| i_lower := lo2; i_upper := hi2 |} v = true -> interval_inside ROps u v = true) /\
  (forall lo hi, length lo = length lo1 -> length hi = length lo1 ->
     (forall i, (i < length lo1)%nat -> lo.[i] <= lo1.[i] /\ lo.[i] <= lo2.[i] /\ hi1.[i] <= hi.[i] /\ hi2.[i] <= hi.[i]) ->
     forall i, (i < length lo1)%nat -> lo.[i] <= (i_lower u).[i] /\ (i_upper u).[i] <= hi.[i]).
Proof.
  intros H1 H2 H3 u. split.
  - intros v Hv Hor. unfold u. unfold interval_include; cbn.
    apply interval_inside_iff; rewrite ?map2_length; try lia.
    intros i Hi. rewrite !map2_nth by lia. rewrite Rltb_min, Rltb_max.
    destruct Hor as [Hin|Hin]; rewrite interval_inside_iff in Hin by lia; specialize (Hin i Hi);
      pose proof (Rmin_l lo1.[i] lo2.[i]); pose proof (Rmin_r lo1.[i] lo2.[i]);
      pose proof (Rmax_l hi1.[i] hi2.[i]); pose proof (Rmax_r hi1.[i] hi2.[i]); lra.
  - intros lo hi Hlo Hhi Hall i Hi. specialize (Hall i Hi). unfold u; cbn.
    rewrite !map2_nth by lia. rewrite Rltb_min, Rltb_max.
    split; [apply Rmin_glb|apply Rmax_lub]; lra.
Qed.

(* ------------------------------------------------------------------ extents of a point list *)
Definition coords (pts : list (list R)) (i : nat) : list R := map (fun p => p.[i]) pts.
Definition is_min (l : list R) (m : R) : Prop := In m l /\ forall x, In x l -> m <= x.
Definition is_max (l : list R) (m : R) : Prop := In m l /\ forall x, In x l -> x <= m.
Definition Rsum (l : list R) : R := fold_right Rplus 0 l.
Definition bounded (pts : list (list R)) : Prop :=
  forall p x, In p pts -> In x p -> Rabs x <= nmaxval ROps.

Lemma fold_map2_nth (f : R -> R -> R) n pts : forall acc, length acc = n -> Forall (fun p => length p = n) pts ->
  length (fold_left (fun a p => map2 f a p) pts acc) = n /\
  forall i, (i < n)%nat -> (fold_left (fun a p => map2 f a p) pts acc).[i] = fold_left f (coords pts i) acc.[i].
Proof.
  induction pts as [|p pts IH]; intros acc Ha Hf; simpl.
  - split; auto.
  - inversion Hf as [|? ? Hp Hr]; subst.
    destruct (IH (map2 f acc p)) as [L E]; [rewrite map2_length; lia|assumption|].
    split; [exact L|]. intros i Hi. rewrite E by assumption. rewrite map2_nth by lia. reflexivity.
Qed.

Lemma fold_Rmin_spec l : forall a, fold_left Rmin l a <= a /\ (forall x, In x l -> fold_left Rmin l a <= x) /\
  (fold_left Rmin l a = a \/ In (fold_left Rmin l a) l).
Proof.
  induction l as [|y l IH]; intros a; simpl.
  - repeat split; auto; try lra. intros x [].
  - destruct (IH (Rmin a y)) as (A & B & C).
    pose proof (Rmin_l a y); pose proof (Rmin_r a y).
    repeat split; try lra.
    + intros x [->|Hx]; [lra|auto].
    + destruct C as [C|C]; [|auto]. rewrite C. unfold Rmin. destruct (Rle_dec a y); auto.
Qed.

Lemma fold_Rmax_spec l : forall a, a <= fold_left Rmax l a /\ (forall x, In x l -> x <= fold_left Rmax l a) /\
  (fold_left Rmax l a = a \/ In (fold_left Rmax l a) l).
Proof.
  induction l as [|y l IH]; intros a; simpl.
  - repeat split; auto; try lra. intros x [].
  - destruct (IH (Rmax a y)) as (A & B & C).
    pose proof (Rmax_l a y); pose proof (Rmax_r a y).
    repeat split; try lra.
    + intros x [->|Hx]; [lra|auto].
    + destruct C as [C|C]; [|auto]. rewrite C. unfold Rmax. destruct (Rle_dec a y); auto.
Qed.

Lemma fold_nmin2 l a : fold_left (nmin2 ROps) l a = fold_left Rmin l a.
Proof. revert a; induction l; intros; simpl; auto. rewrite Rltb_min. auto. Qed.
Lemma fold_nmax2 l a : fold_left (nmax2 ROps) l a = fold_left Rmax l a.
Proof. revert a; induction l; intros; simpl; auto. rewrite Rltb_max. auto. Qed.

(* running minimum started from an upper bound of the data = the true minimum *)
Lemma fold_Rmin_is_min l a : l <> [] -> (forall x, In x l -> x <= a) -> is_min l (fold_left Rmin l a).
Proof.
  intros Hne Hb. destruct (fold_Rmin_spec l a) as (A & B & C). split; [|exact B].
  destruct C as [C|C]; [|exact C].
  destruct l as [|y l]; [congruence|].
  assert (y = fold_left Rmin (y :: l) a) as <-; [|left; reflexivity].
  specialize (B y (or_introl eq_refl)). specialize (Hb y (or_introl eq_refl)). lra.
Qed.

Lemma fold_Rmax_is_max l a : l <> [] -> (forall x, In x l -> a <= x) -> is_max l (fold_left Rmax l a).
Proof.
  intros Hne Hb. destruct (fold_Rmax_spec l a) as (A & B & C). split; [|exact B].
  destruct C as [C|C]; [|exact C].
  destruct l as [|y l]; [congruence|].
  assert (y = fold_left Rmax (y :: l) a) as <-; [|left; reflexivity].
  specialize (B y (or_introl eq_refl)). specialize (Hb y (or_introl eq_refl)). lra.
Qed.

Lemma fold_Rplus l a : fold_left Rplus l a = a + Rsum l.
Proof. revert a; induction l as [|y l IH]; intros a; simpl; [lra|]. rewrite IH. lra. Qed.

Lemma coords_in pts i x : In x (coords pts i) -> exists p, In p pts /\ x = p.[i].
Proof. unfold coords. rewrite in_map_iff. intros (p & E & H). eauto. Qed.

Lemma coords_bounded pts n i : bounded pts -> Forall (fun p => length p = n) pts -> (i < n)%nat ->
  forall x, In x (coords pts i) -> - nmaxval ROps <= x <= nmaxval ROps.
Proof.
  intros Hb Hf Hi x Hx. apply coords_in in Hx as (p & Hp & ->).
  rewrite Forall_forall in Hf. specialize (Hf p Hp).
  assert (In p.[i] p) by (apply nth_In; lia).
  specialize (Hb p _ Hp H). apply Rabs_le_inv in Hb. lra.
Qed.

Lemma coords_nonempty pts i : pts <> [] -> coords pts i <> [].
Proof. destruct pts; simpl; congruence. Qed.

Lemma running_min_correct n pts i : pts <> [] -> Forall (fun p => length p = n) pts -> bounded pts -> (i < n)%nat ->
  is_min (coords pts i) (fold_left (fun a p => map2 (nmin2 ROps) a p) pts (vconst n (nmaxval ROps))).[i].
Proof.
  intros Hne Hf Hb Hi.
  destruct (fold_map2_nth (nmin2 ROps) n pts (vconst n (nmaxval ROps))) as [_ E];
    [apply repeat_length|assumption|].
  rewrite E by assumption. unfold vconst. rewrite repeat_nth0 by assumption. rewrite fold_nmin2.
  apply fold_Rmin_is_min; [apply coords_nonempty; assumption|].
  intros x Hx. apply (coords_bounded pts n i) in Hx; auto. lra.
Qed.

Lemma running_max_general n pts i m0 : Forall (fun p => length p = n) pts -> (i < n)%nat ->
  (fold_left (fun a p => map2 (nmax2 ROps) a p) pts (vconst n m0)).[i] = fold_left Rmax (coords pts i) m0.
Proof.
  intros Hf Hi.
  destruct (fold_map2_nth (nmax2 ROps) n pts (vconst n m0)) as [_ E]; [apply repeat_length|assumption|].
  rewrite E by assumption. unfold vconst. rewrite repeat_nth0 by assumption. apply fold_nmax2.
Qed.

Lemma running_max_correct n pts i : pts <> [] -> Forall (fun p => length p = n) pts -> bounded pts -> (i < n)%nat ->
  is_max (coords pts i) (fold_left (fun a p => map2 (nmax2 ROps) a p) pts (vconst n (- nmaxval ROps))).[i].
Proof.
  intros Hne Hf Hb Hi. rewrite running_max_general by assumption.
  apply fold_Rmax_is_max; [apply coords_nonempty; assumption|].
  intros x Hx. apply (coords_bounded pts n i) in Hx; auto. lra.
Qed.

Lemma vsum_nth n pts i : Forall (fun p => length p = n) pts -> (i < n)%nat ->
  (vsum ROps n pts).[i] = Rsum (coords pts i) /\ length (vsum ROps n pts) = n.
Proof.
  intros Hf Hi. unfold vsum, vadd.
  destruct (fold_map2_nth Rplus n pts (vconst n 0)) as [L E]; [apply repeat_length|assumption|].
  split; [|exact L]. cbn. rewrite E by assumption. unfold vconst. rewrite repeat_nth0 by assumption.
  rewrite fold_Rplus. lra.
Qed.

Lemma mean_correct n pts i : Forall (fun p => length p = n) pts -> (i < n)%nat ->
  (map (fun x => x / IZR (Z.of_nat (length pts))) (vsum ROps n pts)).[i] = Rsum (coords pts i) / INR (length pts).
Proof.
  intros Hf Hi. destruct (vsum_nth n pts i Hf Hi) as [E L].
  rewrite map_nth0 by lia. rewrite E. rewrite <- INR_IZR_INZ. reflexivity.
Qed.

Lemma container_extents_correct n pts : pts <> [] -> Forall (fun p => length p = n) pts -> bounded pts ->
  forall i, (i < n)%nat ->
    is_min (coords pts i) (cont_min ROps n pts).[i] /\
    is_max (coords pts i) (cont_max ROps n pts).[i] /\
    (cont_mean ROps n pts).[i] = Rsum (coords pts i) / INR (length pts).
Proof.
  intros Hne Hf Hb i Hi. split; [|split].
  - apply running_min_correct; assumption.
  - apply running_max_correct; assumption.
  - apply mean_correct; assumption.
Qed.

(* ------------------------------------------------------------------ PointSetPreconditioner::compute *)
Lemma max_coeff_is_max v : v <> [] -> is_max v (max_coeff ROps v).
Proof.
  destruct v as [|x r]; [congruence|intros _]. unfold max_coeff. rewrite fold_nmax2.
  destruct (fold_Rmax_spec r x) as (A & B & C). split.
  - destruct C as [C|C]; [left; auto|right; exact C].
  - intros y [<-|Hy]; auto.
Qed.

Lemma precond_fields m0 size cdim pts :
  let pc := precond_with ROps m0 size cdim pts in
  pc_min pc = fold_left (fun a p => map2 (nmin2 ROps) a p) pts (vconst size (nmaxval ROps)) /\
  pc_max pc = fold_left (fun a p => map2 (nmax2 ROps) a p) pts (vconst size m0) /\
  pc_mean pc = map (fun x => x / IZR (Z.of_nat (length pts))) (vsum ROps size pts) /\
  pc_scale pc = 1 / max_coeff ROps (vsub ROps (pc_max pc) (pc_min pc)) /\
  pc_translation pc = map (fun m => - m * pc_scale pc) (firstn cdim (pc_mean pc)).
Proof. cbn. repeat split. Qed.

(* what the running maximum is for an arbitrary start value: max(start, true maximum) *)
Lemma precond_max_characterised m0 size cdim pts i : Forall (fun p => length p = size) pts -> (i < size)%nat ->
  (pc_max (precond_with ROps m0 size cdim pts)).[i] = fold_left Rmax (coords pts i) m0.
Proof. intros Hf Hi. cbn. apply running_max_general; assumption. Qed.

Lemma firstn_nth0 (l : list R) k j : (j < k)%nat -> (firstn k l).[j] = l.[j].
Proof.
  revert l j; induction k; intros l j H; [lia|]. destruct l; simpl; [destruct j; reflexivity|].
  destruct j; auto. apply IHk; lia.
Qed.

Lemma map_seq_nth0 (f : nat -> R) n i : (i < n)%nat -> (map f (seq 0 n)).[i] = f i.
Proof.
  intros H. rewrite (nth_indep (map f (seq 0 n)) 0 (f 0%nat)) by (rewrite map_length, seq_length; lia).
  rewrite map_nth, seq_nth by lia. reflexivity.
Qed.

Lemma precond_lowest_correct size cdim pts :
  pts <> [] -> (0 < size)%nat -> (cdim <= size)%nat -> Forall (fun p => length p = size) pts -> bounded pts ->
  let pc := precond_compute_lowest ROps size cdim pts in
  (forall i, (i < size)%nat ->
     is_min (coords pts i) (pc_min pc).[i] /\ is_max (coords pts i) (pc_max pc).[i] /\
     (pc_mean pc).[i] = Rsum (coords pts i) / INR (length pts)) /\
  (exists L, is_max (map (fun i => (pc_max pc).[i] - (pc_min pc).[i]) (seq 0 size)) L /\
             (0 < L -> pc_scale pc = / L)) /\
  (forall j, (j < cdim)%nat -> (pc_translation pc).[j] = - (pc_mean pc).[j] * pc_scale pc).
Proof.
  intros Hne Hs Hc Hf Hb pc.
  assert (Epc : pc = precond_with ROps (- nmaxval ROps) size cdim pts) by reflexivity.
  destruct (precond_fields (- nmaxval ROps) size cdim pts) as (Emin & Emax & Emean & Escale & Etr).
  rewrite <- Epc in Emin, Emax, Emean, Escale, Etr. clearbody pc.
  assert (Lmin : length (pc_min pc) = size).
  { rewrite Emin. apply (fold_map2_nth (nmin2 ROps) size pts); [apply repeat_length|assumption]. }
  assert (Lmax : length (pc_max pc) = size).
  { rewrite Emax. apply (fold_map2_nth (nmax2 ROps) size pts); [apply repeat_length|assumption]. }
  split; [|split].
  - intros i Hi. rewrite Emin, Emax, Emean. split; [|split].
    + apply running_min_correct; assumption.
    + apply running_max_correct; assumption.
    + apply mean_correct; assumption.
  - exists (max_coeff ROps (vsub ROps (pc_max pc) (pc_min pc))).
    assert (Ev : vsub ROps (pc_max pc) (pc_min pc) = map (fun i => (pc_max pc).[i] - (pc_min pc).[i]) (seq 0 size)).
    { apply (nth_ext _ _ 0 0).
      - unfold vsub. rewrite map2_length by lia. rewrite map_length, seq_length; lia.
      - intros i Hi. unfold vsub in *. rewrite map2_length in Hi by lia.
        rewrite map2_nth by lia.
        rewrite map_seq_nth0 by lia. reflexivity. }
    split.
    + rewrite <- Ev. apply max_coeff_is_max. rewrite Ev. destruct size; [lia|simpl; congruence].
    + intros HL. rewrite Escale. unfold Rdiv. lra.
  - intros j Hj. rewrite Etr.
    assert (Lmean : length (pc_mean pc) = size).
    { rewrite Emean, map_length. destruct size; [lia|]. apply (vsum_nth (S size) pts 0%nat); [assumption|lia]. }
    rewrite map_nth0 by (rewrite firstn_length; lia). rewrite firstn_nth0 by assumption. reflexivity.
Qed.

(* the snapshot code (running maximum started from the smallest positive normal number) is wrong on all-negative data *)
Lemma minpos_pos : 0 < powerRZ 2 (-1022).
Proof. apply powerRZ_lt. lra. Qed.

Lemma pow2_le e1 e2 : (e1 <= e2)%Z -> powerRZ 2 e1 <= powerRZ 2 e2.
Proof.
  intros H. change 2 with (IZR (Zaux.radix_val Zaux.radix2)). rewrite <- !bpow_powerRZ. apply bpow_le; assumption.
Qed.

Lemma maxval_ge_4 : 4 <= nmaxval ROps.
Proof.
  change (nmaxval ROps) with ((2 - powerRZ 2 (-52)) * powerRZ 2 1023).
  pose proof (pow2_le (-52) 0 ltac:(lia)) as A. pose proof (pow2_le 2 1023 ltac:(lia)) as B.
  change (powerRZ 2 0) with 1 in A. change (powerRZ 2 2) with (2 * (2 * 1)) in B.
  pose proof (powerRZ_lt 2 (-52) ltac:(lra)) as C. nra.
Qed.

Lemma precond_minpos_refuted :
  exists pts : list (list R), pts <> [] /\ Forall (fun p => length p = 2%nat) pts /\ bounded pts /\
    let pc := precond_compute_minpos ROps 2 2 pts in
    ~ is_max (coords pts 0) (pc_max pc).[0%nat] /\
    (exists L, is_max [ -1 - -3; -2 - -4 ] L /\ 0 < L /\ pc_scale pc <> / L).
Proof.
  exists [[-3; -4]; [-1; -2]].
  split; [discriminate|]. split; [repeat constructor|]. split.
  { pose proof maxval_ge_4 as M4.
    intros p x [<-|[<-|[]]] Hx; simpl in Hx;
      repeat (destruct Hx as [<-|Hx]; [rewrite Rabs_left by lra; lra|]); contradiction. }
  pose proof minpos_pos as Hm.
  assert (Emax : pc_max (precond_compute_minpos ROps 2 2 [[-3; -4]; [-1; -2]]) = [powerRZ 2 (-1022); powerRZ 2 (-1022)]).
  { unfold precond_compute_minpos, precond_with; cbn -[nmax2 nmin2 powerRZ]. rewrite !Rltb_max.
    rewrite (Rmax_left _ (-3)) by lra. rewrite (Rmax_left _ (-4)) by lra.
    rewrite (Rmax_left _ (-1)) by lra. rewrite (Rmax_left _ (-2)) by lra. reflexivity. }
  assert (Emin : pc_min (precond_compute_minpos ROps 2 2 [[-3; -4]; [-1; -2]]) = [-3; -4]).
  { unfold precond_compute_minpos, precond_with; cbn -[nmax2 nmin2 powerRZ]. rewrite !Rltb_min.
    pose proof maxval_ge_4 as M4. change (nmaxval ROps) with ((2 - powerRZ 2 (-52)) * powerRZ 2 1023) in M4.
    rewrite (Rmin_right _ (-3)) by lra. rewrite (Rmin_right _ (-4)) by lra.
    rewrite (Rmin_left (-3)) by lra. rewrite (Rmin_left (-4)) by lra. reflexivity. }
  cbv zeta. split.
  - rewrite Emax. cbn -[powerRZ]. intros [Hin _]. destruct Hin as [E|[E|[]]]; lra.
  - exists 2. split; [|split; [lra|]].
    + split; [left; lra|]. intros x [<-|[<-|[]]]; lra.
    + destruct (precond_fields (powerRZ 2 (-1022)) 2 2 [[-3; -4]; [-1; -2]]) as (_ & _ & _ & Escale & _).
      change (precond_with ROps (powerRZ 2 (-1022)) 2 2) with (precond_compute_minpos ROps 2 2) in Escale.
      rewrite Escale, Emax, Emin. cbn -[nmax2 powerRZ]. rewrite Rltb_max.
      rewrite Rmax_right by lra. intros E.
      unfold Rdiv in E. rewrite Rmult_1_l in E. apply (f_equal Rinv) in E.
      rewrite !Rinv_inv in E. lra.
Qed.

(* ------------------------------------------------------------------ oriented boxes, 2D *)
Lemma abs_term_le r q h : Rabs q <= h -> Rabs (r * q) <= Rabs (r * h).
Proof.
  intros H. assert (0 <= h) by (pose proof (Rabs_pos q); lra).
  rewrite !Rabs_mult, (Rabs_right h) by lra. pose proof (Rabs_pos r). nra.
Qed.

(* a signed half-extent that makes r * (s * h) = |r * h| *)
Lemma sign_attains r h : 0 <= h -> exists s, (s = 1 \/ s = -1) /\ r * (s * h) = Rabs (r * h).
Proof.
  intros Hh. destruct (Rle_dec 0 r) as [Hr|Hr].
  - exists 1. split; [auto|]. rewrite Rabs_right by nra. ring.
  - exists (-1). split; [auto|]. rewrite Rabs_left1 by nra. ring.
Qed.

Definition orthogonal2 (r00 r01 r10 r11 : R) : Prop :=
  (r00 * r00 + r01 * r01 = 1 /\ r10 * r10 + r11 * r11 = 1 /\ r00 * r10 + r01 * r11 = 0) /\      (* R R^T = I *)
  (r00 * r00 + r10 * r10 = 1 /\ r01 * r01 + r11 * r11 = 1 /\ r00 * r01 + r10 * r11 = 0).        (* R^T R = I *)

Lemma rotation2_orthogonal a : orthogonal2 (cos a) (- sin a) (sin a) (cos a).
Proof. pose proof (sin2_cos2 a) as H. unfold Rsqr in H. unfold orthogonal2. repeat split; nra. Qed.

Section OBB2.
Context (c0 c1 h0 h1 r00 r01 r10 r11 : R).
Let o := {| o_center := [c0; c1]; o_half := [h0; h1]; o_rot := [[r00; r01]; [r10; r11]] |}.

(* the set of points of the oriented box: centre + R * (local coordinates within +- half extents) *)
Definition in_obb2 (p0 p1 : R) : Prop :=
  exists q0 q1, Rabs q0 <= h0 /\ Rabs q1 <= h1 /\ p0 = c0 + (r00 * q0 + r01 * q1) /\ p1 = c1 + (r10 * q0 + r11 * q1).

Lemma obb2_inside_frame p0 p1 :
  obb_inside ROps o [p0; p1] = true <->
  Rabs (r00 * (p0 - c0) + r10 * (p1 - c1)) <= h0 /\ Rabs (r01 * (p0 - c0) + r11 * (p1 - c1)) <= h1.
Proof.
  unfold obb_inside, tr_mul_vec, dot, column, vabs, vsub; cbn.
  rewrite !andb_true_iff, !Rleb_true, !Rplus_0_l. tauto.
Qed.

Lemma obb2_inside_geometric p0 p1 : orthogonal2 r00 r01 r10 r11 ->
  (obb_inside ROps o [p0; p1] = true <-> in_obb2 p0 p1).
Proof.
  intros [(Ha & Hb & Hc) (Hd & He & Hf)]. rewrite obb2_inside_frame. split.
  - intros [H0 H1]. exists (r00 * (p0 - c0) + r10 * (p1 - c1)), (r01 * (p0 - c0) + r11 * (p1 - c1)).
    split; [exact H0|]. split; [exact H1|]. split.
    + transitivity (c0 + ((r00 * r00 + r01 * r01) * (p0 - c0) + (r00 * r10 + r01 * r11) * (p1 - c1))); [rewrite Ha, Hc|]; ring.
    + transitivity (c1 + ((r00 * r10 + r01 * r11) * (p0 - c0) + (r10 * r10 + r11 * r11) * (p1 - c1))); [rewrite Hb, Hc|]; ring.
  - intros (q0 & q1 & H0 & H1 & -> & ->).
    replace (r00 * (c0 + (r00 * q0 + r01 * q1) - c0) + r10 * (c1 + (r10 * q0 + r11 * q1) - c1))
      with ((r00 * r00 + r10 * r10) * q0 + (r00 * r01 + r10 * r11) * q1) by ring.
    replace (r01 * (c0 + (r00 * q0 + r01 * q1) - c0) + r11 * (c1 + (r10 * q0 + r11 * q1) - c1))
      with ((r00 * r01 + r10 * r11) * q0 + (r01 * r01 + r11 * r11) * q1) by ring.
    rewrite Hd, He, Hf. split; [replace (1 * q0 + 0 * q1) with q0 by ring|replace (0 * q0 + 1 * q1) with q1 by ring]; assumption.
Qed.

Lemma obb2_to_aabb_eq :
  obb_to_aabb ROps o = {| a_center := [c0; c1];
                          a_half := [Rabs (r00 * h0) + Rabs (r01 * h1); Rabs (r10 * h0) + Rabs (r11 * h1)] |}.
Proof. unfold obb_to_aabb, abs_row_extent; cbn. rewrite !Rplus_0_l. reflexivity. Qed.

Lemma aabb2_inside c0' c1' e0 e1 p0 p1 :
  aabb_inside ROps {| a_center := [c0'; c1']; a_half := [e0; e1] |} [p0; p1] = true <->
  Rabs (p0 - c0') <= e0 /\ Rabs (p1 - c1') <= e1.
Proof. unfold aabb_inside, vabs, vsub; cbn. rewrite !andb_true_iff, !Rleb_true. tauto. Qed.

(* the derived axis-aligned box contains every point of the oriented box *)
Lemma obb2_to_aabb_encloses p0 p1 : orthogonal2 r00 r01 r10 r11 ->
  obb_inside ROps o [p0; p1] = true -> aabb_inside ROps (obb_to_aabb ROps o) [p0; p1] = true.
Proof.
  intros Ho Hin. apply (obb2_inside_geometric p0 p1 Ho) in Hin as (q0 & q1 & H0 & H1 & -> & ->).
  rewrite obb2_to_aabb_eq. apply aabb2_inside.
  pose proof (abs_term_le r00 q0 h0 H0). pose proof (abs_term_le r01 q1 h1 H1).
  pose proof (abs_term_le r10 q0 h0 H0). pose proof (abs_term_le r11 q1 h1 H1).
  split.
  - replace (c0 + (r00 * q0 + r01 * q1) - c0) with (r00 * q0 + r01 * q1) by ring.
    pose proof (Rabs_triang (r00 * q0) (r01 * q1)). lra.
  - replace (c1 + (r10 * q0 + r11 * q1) - c1) with (r10 * q0 + r11 * q1) by ring.
    pose proof (Rabs_triang (r10 * q0) (r11 * q1)). lra.
Qed.

(* a corner of the oriented box: local coordinates (+-h0, +-h1) *)
Definition corner2 (p0 p1 : R) : Prop :=
  exists s0 s1, (s0 = 1 \/ s0 = -1) /\ (s1 = 1 \/ s1 = -1) /\
    p0 = c0 + (r00 * (s0 * h0) + r01 * (s1 * h1)) /\ p1 = c1 + (r10 * (s0 * h0) + r11 * (s1 * h1)).

Lemma corner2_in_obb p0 p1 : 0 <= h0 -> 0 <= h1 -> corner2 p0 p1 -> in_obb2 p0 p1.
Proof.
  intros Hh0 Hh1 (s0 & s1 & Hs0 & Hs1 & E0 & E1). exists (s0 * h0), (s1 * h1).
  repeat split; auto.
  - destruct Hs0 as [-> | ->]; [rewrite Rmult_1_l, Rabs_right by lra; lra|].
    replace (-1 * h0) with (- h0) by ring. rewrite Rabs_Ropp, Rabs_right by lra. lra.
  - destruct Hs1 as [-> | ->]; [rewrite Rmult_1_l, Rabs_right by lra; lra|].
    replace (-1 * h1) with (- h1) by ring. rewrite Rabs_Ropp, Rabs_right by lra. lra.
Qed.

(* tight: every face of the derived box is touched by a corner of the oriented box *)
Lemma obb2_to_aabb_tight : 0 <= h0 -> 0 <= h1 ->
  let e0 := (a_half (obb_to_aabb ROps o)).[0%nat] in let e1 := (a_half (obb_to_aabb ROps o)).[1%nat] in
  (exists p0 p1, corner2 p0 p1 /\ p0 = c0 + e0) /\ (exists p0 p1, corner2 p0 p1 /\ p0 = c0 - e0) /\
  (exists p0 p1, corner2 p0 p1 /\ p1 = c1 + e1) /\ (exists p0 p1, corner2 p0 p1 /\ p1 = c1 - e1).
Proof.
  intros Hh0 Hh1. rewrite obb2_to_aabb_eq. cbn [a_half nth].
  destruct (sign_attains r00 h0 Hh0) as (s00 & S00 & E00). destruct (sign_attains r01 h1 Hh1) as (s01 & S01 & E01).
  destruct (sign_attains r10 h0 Hh0) as (s10 & S10 & E10). destruct (sign_attains r11 h1 Hh1) as (s11 & S11 & E11).
  assert (neg : forall s, s = 1 \/ s = -1 -> - s = 1 \/ - s = -1) by (intros s [-> | ->]; [right|left]; lra).
  repeat split.
  - eexists _, _. split; [exists s00, s01; repeat split; auto|]. rewrite E00, E01. reflexivity.
  - eexists _, _. split; [exists (- s00), (- s01); repeat split; auto|].
    rewrite <- E00, <- E01. ring.
  - eexists _, _. split; [exists s10, s11; repeat split; auto|]. rewrite E10, E11. reflexivity.
  - eexists _, _. split; [exists (- s10), (- s11); repeat split; auto|].
    rewrite <- E10, <- E11. ring.
Qed.

End OBB2.

(* ------------------------------------------------------------------ oriented boxes, 3D *)
Definition orthogonal3 (r00 r01 r02 r10 r11 r12 r20 r21 r22 : R) : Prop :=
  (* R R^T = I : rows orthonormal *)
  (r00 * r00 + r01 * r01 + r02 * r02 = 1 /\ r10 * r10 + r11 * r11 + r12 * r12 = 1 /\ r20 * r20 + r21 * r21 + r22 * r22 = 1 /\
   r00 * r10 + r01 * r11 + r02 * r12 = 0 /\ r00 * r20 + r01 * r21 + r02 * r22 = 0 /\ r10 * r20 + r11 * r21 + r12 * r22 = 0) /\
  (* R^T R = I : columns orthonormal *)
  (r00 * r00 + r10 * r10 + r20 * r20 = 1 /\ r01 * r01 + r11 * r11 + r21 * r21 = 1 /\ r02 * r02 + r12 * r12 + r22 * r22 = 1 /\
   r00 * r01 + r10 * r11 + r20 * r21 = 0 /\ r00 * r02 + r10 * r12 + r20 * r22 = 0 /\ r01 * r02 + r11 * r12 + r21 * r22 = 0).

(* rotation about the z axis, and a cyclic axis permutation: two families of proper rotations meeting the hypothesis *)
Lemma rotation3_z_orthogonal a : orthogonal3 (cos a) (- sin a) 0 (sin a) (cos a) 0 0 0 1.
Proof. pose proof (sin2_cos2 a) as H. unfold Rsqr in H. unfold orthogonal3. repeat split; nra. Qed.
Lemma rotation3_perm_orthogonal : orthogonal3 0 0 1 1 0 0 0 1 0.
Proof. unfold orthogonal3. repeat split; lra. Qed.

Section OBB3.
Context (c0 c1 c2 h0 h1 h2 r00 r01 r02 r10 r11 r12 r20 r21 r22 : R).
Let o := {| o_center := [c0; c1; c2]; o_half := [h0; h1; h2];
            o_rot := [[r00; r01; r02]; [r10; r11; r12]; [r20; r21; r22]] |}.

Definition in_obb3 (p0 p1 p2 : R) : Prop :=
  exists q0 q1 q2, Rabs q0 <= h0 /\ Rabs q1 <= h1 /\ Rabs q2 <= h2 /\
    p0 = c0 + (r00 * q0 + r01 * q1 + r02 * q2) /\ p1 = c1 + (r10 * q0 + r11 * q1 + r12 * q2) /\
    p2 = c2 + (r20 * q0 + r21 * q1 + r22 * q2).

Lemma obb3_inside_frame p0 p1 p2 :
  obb_inside ROps o [p0; p1; p2] = true <->
  Rabs (r00 * (p0 - c0) + r10 * (p1 - c1) + r20 * (p2 - c2)) <= h0 /\
  Rabs (r01 * (p0 - c0) + r11 * (p1 - c1) + r21 * (p2 - c2)) <= h1 /\
  Rabs (r02 * (p0 - c0) + r12 * (p1 - c1) + r22 * (p2 - c2)) <= h2.
Proof.
  unfold obb_inside, tr_mul_vec, dot, column, vabs, vsub; cbn.
  rewrite !andb_true_iff, !Rleb_true, !Rplus_0_l. tauto.
Qed.

Lemma obb3_inside_geometric p0 p1 p2 : orthogonal3 r00 r01 r02 r10 r11 r12 r20 r21 r22 ->
  (obb_inside ROps o [p0; p1; p2] = true <-> in_obb3 p0 p1 p2).
Proof.
  intros [(Ra & Rb & Rc & Rab & Rac & Rbc) (Ca & Cb & Cc & Cab & Cac & Cbc)]. rewrite obb3_inside_frame. split.
  - intros (H0 & H1 & H2).
    set (d0 := p0 - c0) in *. set (d1 := p1 - c1) in *. set (d2 := p2 - c2) in *.
    exists (r00 * d0 + r10 * d1 + r20 * d2), (r01 * d0 + r11 * d1 + r21 * d2), (r02 * d0 + r12 * d1 + r22 * d2).
    split; [exact H0|]. split; [exact H1|]. split; [exact H2|]. split; [|split].
    + transitivity (c0 + ((r00 * r00 + r01 * r01 + r02 * r02) * d0 + (r00 * r10 + r01 * r11 + r02 * r12) * d1
                          + (r00 * r20 + r01 * r21 + r02 * r22) * d2)); [rewrite Ra, Rab, Rac; unfold d0|]; ring.
    + transitivity (c1 + ((r00 * r10 + r01 * r11 + r02 * r12) * d0 + (r10 * r10 + r11 * r11 + r12 * r12) * d1
                          + (r10 * r20 + r11 * r21 + r12 * r22) * d2)); [rewrite Rb, Rab, Rbc; unfold d1|]; ring.
    + transitivity (c2 + ((r00 * r20 + r01 * r21 + r02 * r22) * d0 + (r10 * r20 + r11 * r21 + r12 * r22) * d1
                          + (r20 * r20 + r21 * r21 + r22 * r22) * d2)); [rewrite Rc, Rac, Rbc; unfold d2|]; ring.
  - intros (q0 & q1 & q2 & H0 & H1 & H2 & -> & -> & ->).
    replace (r00 * (c0 + (r00 * q0 + r01 * q1 + r02 * q2) - c0) + r10 * (c1 + (r10 * q0 + r11 * q1 + r12 * q2) - c1)
             + r20 * (c2 + (r20 * q0 + r21 * q1 + r22 * q2) - c2))
      with ((r00 * r00 + r10 * r10 + r20 * r20) * q0 + (r00 * r01 + r10 * r11 + r20 * r21) * q1
            + (r00 * r02 + r10 * r12 + r20 * r22) * q2) by ring.
    replace (r01 * (c0 + (r00 * q0 + r01 * q1 + r02 * q2) - c0) + r11 * (c1 + (r10 * q0 + r11 * q1 + r12 * q2) - c1)
             + r21 * (c2 + (r20 * q0 + r21 * q1 + r22 * q2) - c2))
      with ((r00 * r01 + r10 * r11 + r20 * r21) * q0 + (r01 * r01 + r11 * r11 + r21 * r21) * q1
            + (r01 * r02 + r11 * r12 + r21 * r22) * q2) by ring.
    replace (r02 * (c0 + (r00 * q0 + r01 * q1 + r02 * q2) - c0) + r12 * (c1 + (r10 * q0 + r11 * q1 + r12 * q2) - c1)
             + r22 * (c2 + (r20 * q0 + r21 * q1 + r22 * q2) - c2))
      with ((r00 * r02 + r10 * r12 + r20 * r22) * q0 + (r01 * r02 + r11 * r12 + r21 * r22) * q1
            + (r02 * r02 + r12 * r12 + r22 * r22) * q2) by ring.
    rewrite Ca, Cb, Cc, Cab, Cac, Cbc.
    replace (1 * q0 + 0 * q1 + 0 * q2) with q0 by ring. replace (0 * q0 + 1 * q1 + 0 * q2) with q1 by ring.
    replace (0 * q0 + 0 * q1 + 1 * q2) with q2 by ring. auto.
Qed.

Lemma obb3_to_aabb_eq :
  obb_to_aabb ROps o =
  {| a_center := [c0; c1; c2];
     a_half := [Rabs (r00 * h0) + Rabs (r01 * h1) + Rabs (r02 * h2);
                Rabs (r10 * h0) + Rabs (r11 * h1) + Rabs (r12 * h2);
                Rabs (r20 * h0) + Rabs (r21 * h1) + Rabs (r22 * h2)] |}.
Proof. unfold obb_to_aabb, abs_row_extent; cbn. rewrite !Rplus_0_l. reflexivity. Qed.

Lemma aabb3_inside c0' c1' c2' e0 e1 e2 p0 p1 p2 :
  aabb_inside ROps {| a_center := [c0'; c1'; c2']; a_half := [e0; e1; e2] |} [p0; p1; p2] = true <->
  Rabs (p0 - c0') <= e0 /\ Rabs (p1 - c1') <= e1 /\ Rabs (p2 - c2') <= e2.
Proof. unfold aabb_inside, vabs, vsub; cbn. rewrite !andb_true_iff, !Rleb_true. tauto. Qed.

Lemma abs3_le a b c x y z : Rabs a <= x -> Rabs b <= y -> Rabs c <= z -> Rabs (a + b + c) <= x + y + z.
Proof.
  intros. pose proof (Rabs_triang (a + b) c). pose proof (Rabs_triang a b). lra.
Qed.

Lemma obb3_to_aabb_encloses p0 p1 p2 : orthogonal3 r00 r01 r02 r10 r11 r12 r20 r21 r22 ->
  obb_inside ROps o [p0; p1; p2] = true -> aabb_inside ROps (obb_to_aabb ROps o) [p0; p1; p2] = true.
Proof.
  intros Ho Hin. apply (obb3_inside_geometric p0 p1 p2 Ho) in Hin as (q0 & q1 & q2 & H0 & H1 & H2 & -> & -> & ->).
  rewrite obb3_to_aabb_eq. apply aabb3_inside.
  split; [|split].
  - replace (c0 + (r00 * q0 + r01 * q1 + r02 * q2) - c0) with (r00 * q0 + r01 * q1 + r02 * q2) by ring.
    apply abs3_le; apply abs_term_le; assumption.
  - replace (c1 + (r10 * q0 + r11 * q1 + r12 * q2) - c1) with (r10 * q0 + r11 * q1 + r12 * q2) by ring.
    apply abs3_le; apply abs_term_le; assumption.
  - replace (c2 + (r20 * q0 + r21 * q1 + r22 * q2) - c2) with (r20 * q0 + r21 * q1 + r22 * q2) by ring.
    apply abs3_le; apply abs_term_le; assumption.
Qed.

Definition corner3 (p0 p1 p2 : R) : Prop :=
  exists s0 s1 s2, (s0 = 1 \/ s0 = -1) /\ (s1 = 1 \/ s1 = -1) /\ (s2 = 1 \/ s2 = -1) /\
    p0 = c0 + (r00 * (s0 * h0) + r01 * (s1 * h1) + r02 * (s2 * h2)) /\
    p1 = c1 + (r10 * (s0 * h0) + r11 * (s1 * h1) + r12 * (s2 * h2)) /\
    p2 = c2 + (r20 * (s0 * h0) + r21 * (s1 * h1) + r22 * (s2 * h2)).

Lemma signed_half_abs s h : 0 <= h -> s = 1 \/ s = -1 -> Rabs (s * h) <= h.
Proof.
  intros Hh [-> | ->]; [rewrite Rmult_1_l, Rabs_right by lra; lra|].
  replace (-1 * h) with (- h) by ring. rewrite Rabs_Ropp, Rabs_right by lra. lra.
Qed.

Lemma corner3_in_obb p0 p1 p2 : 0 <= h0 -> 0 <= h1 -> 0 <= h2 -> corner3 p0 p1 p2 -> in_obb3 p0 p1 p2.
Proof.
  intros Hh0 Hh1 Hh2 (s0 & s1 & s2 & Hs0 & Hs1 & Hs2 & E0 & E1 & E2). exists (s0 * h0), (s1 * h1), (s2 * h2).
  repeat split; auto using signed_half_abs.
Qed.

Lemma obb3_to_aabb_tight : 0 <= h0 -> 0 <= h1 -> 0 <= h2 ->
  let e0 := (a_half (obb_to_aabb ROps o)).[0%nat] in let e1 := (a_half (obb_to_aabb ROps o)).[1%nat] in
  let e2 := (a_half (obb_to_aabb ROps o)).[2%nat] in
  (exists p0 p1 p2, corner3 p0 p1 p2 /\ p0 = c0 + e0) /\ (exists p0 p1 p2, corner3 p0 p1 p2 /\ p0 = c0 - e0) /\
  (exists p0 p1 p2, corner3 p0 p1 p2 /\ p1 = c1 + e1) /\ (exists p0 p1 p2, corner3 p0 p1 p2 /\ p1 = c1 - e1) /\
  (exists p0 p1 p2, corner3 p0 p1 p2 /\ p2 = c2 + e2) /\ (exists p0 p1 p2, corner3 p0 p1 p2 /\ p2 = c2 - e2).
Proof.
  intros Hh0 Hh1 Hh2. rewrite obb3_to_aabb_eq. cbn [a_half nth].
  assert (neg : forall s, s = 1 \/ s = -1 -> - s = 1 \/ - s = -1) by (intros s [-> | ->]; [right|left]; lra).
  assert (face : forall ra rb rc, exists s0 s1 s2, (s0 = 1 \/ s0 = -1) /\ (s1 = 1 \/ s1 = -1) /\ (s2 = 1 \/ s2 = -1) /\
            ra * (s0 * h0) + rb * (s1 * h1) + rc * (s2 * h2) = Rabs (ra * h0) + Rabs (rb * h1) + Rabs (rc * h2)).
  { intros ra rb rc. destruct (sign_attains ra h0 Hh0) as (s0 & S0 & E0). destruct (sign_attains rb h1 Hh1) as (s1 & S1 & E1).
    destruct (sign_attains rc h2 Hh2) as (s2 & S2 & E2). exists s0, s1, s2. rewrite E0, E1, E2. auto. }
  destruct (face r00 r01 r02) as (a0 & a1 & a2 & A0 & A1 & A2 & EA).
  destruct (face r10 r11 r12) as (b0 & b1 & b2 & B0 & B1 & B2 & EB).
  destruct (face r20 r21 r22) as (g0 & g1 & g2 & G0 & G1 & G2 & EG).
  split; [|split; [|split; [|split; [|split]]]].
  - eexists _, _, _. split; [exists a0, a1, a2; repeat split; auto|]. rewrite EA. reflexivity.
  - eexists _, _, _. split; [exists (- a0), (- a1), (- a2); repeat split; auto|]. rewrite <- EA. ring.
  - eexists _, _, _. split; [exists b0, b1, b2; repeat split; auto|]. rewrite EB. reflexivity.
  - eexists _, _, _. split; [exists (- b0), (- b1), (- b2); repeat split; auto|]. rewrite <- EB. ring.
  - eexists _, _, _. split; [exists g0, g1, g2; repeat split; auto|]. rewrite EG. reflexivity.
  - eexists _, _, _. split; [exists (- g0), (- g1), (- g2); repeat split; auto|]. rewrite <- EG. ring.
Qed.

End OBB3.

Lemma corner2_inside c0 c1 h0 h1 r00 r01 r10 r11 p0 p1 : 0 <= h0 -> 0 <= h1 -> orthogonal2 r00 r01 r10 r11 ->
  corner2 c0 c1 h0 h1 r00 r01 r10 r11 p0 p1 ->
  obb_inside ROps {| o_center := [c0; c1]; o_half := [h0; h1]; o_rot := [[r00; r01]; [r10; r11]] |} [p0; p1] = true.
Proof. intros H0 H1 Ho Hc. apply obb2_inside_geometric; [exact Ho|]. apply corner2_in_obb; assumption. Qed.

Lemma corner3_inside c0 c1 c2 h0 h1 h2 r00 r01 r02 r10 r11 r12 r20 r21 r22 p0 p1 p2 :
  0 <= h0 -> 0 <= h1 -> 0 <= h2 -> orthogonal3 r00 r01 r02 r10 r11 r12 r20 r21 r22 ->
  corner3 c0 c1 c2 h0 h1 h2 r00 r01 r02 r10 r11 r12 r20 r21 r22 p0 p1 p2 ->
  obb_inside ROps {| o_center := [c0; c1; c2]; o_half := [h0; h1; h2];
                     o_rot := [[r00; r01; r02]; [r10; r11; r12]; [r20; r21; r22]] |} [p0; p1; p2] = true.
Proof. intros H0 H1 H2 Ho Hc. apply obb3_inside_geometric; [exact Ho|]. apply corner3_in_obb; assumption. Qed.

(* ------------------------------------------------------------------ oriented box -> axis-aligned box, any dimension.
   The oriented box is taken as the point set { c + R q : |q_j| <= h_j } (for 2D/3D rotations this is exactly what
   isInside accepts: obb2_inside_geometric, obb3_inside_geometric).  No orthogonality is needed here. *)
Lemma fold_add_map {A} (g : A -> R) l : forall a, fold_left (fun acc x => acc + g x) l a = a + Rsum (map g l).
Proof. induction l as [|x l IH]; intros a; simpl; [lra|]. rewrite IH. lra. Qed.

Lemma dot_cons a r q0 q : dot ROps (a :: r) (q0 :: q) = a * q0 + dot ROps r q.
Proof. unfold dot. cbn [combine fold_left fst snd nadd nmul nzero ROps]. rewrite !fold_add_map. lra. Qed.

Lemma extent_cons a r h0 h : abs_row_extent ROps (a :: r) (h0 :: h) = Rabs (a * h0) + abs_row_extent ROps r h.
Proof. unfold abs_row_extent. cbn [combine fold_left fst snd nadd nmul nabs nzero ROps]. rewrite !fold_add_map. lra. Qed.

Lemma dot_nil_l q : dot ROps [] q = 0.  Proof. reflexivity. Qed.
Lemma dot_nil_r r : dot ROps r [] = 0.  Proof. destruct r; reflexivity. Qed.
Lemma extent_nil_l h : abs_row_extent ROps [] h = 0.  Proof. reflexivity. Qed.
Lemma extent_nil_r r : abs_row_extent ROps r [] = 0.  Proof. destruct r; reflexivity. Qed.

Lemma row_bound r : forall q h, Forall2 (fun q h => Rabs q <= h) q h -> Rabs (dot ROps r q) <= abs_row_extent ROps r h.
Proof.
  induction r as [|a r IH]; intros q h H.
  - rewrite dot_nil_l, extent_nil_l, Rabs_R0. lra.
  - destruct H as [|q0 h0 q h H0 H].
    + rewrite dot_nil_r, extent_nil_r, Rabs_R0. lra.
    + rewrite dot_cons, extent_cons. specialize (IH q h H).
      pose proof (abs_term_le a q0 h0 H0). pose proof (Rabs_triang (a * q0) (dot ROps r q)). lra.
Qed.

Lemma row_attained r : forall h, Forall (fun x => 0 <= x) h ->
  exists q, Forall2 (fun q h => q = h \/ q = - h) q h /\ dot ROps r q = abs_row_extent ROps r h.
Proof.
  induction r as [|a r IH]; intros h Hh.
  - exists h. split; [|reflexivity]. induction h; constructor; auto. inversion Hh; auto.
  - destruct h as [|h0 h].
    + exists []. split; [constructor|]. rewrite dot_nil_r, extent_nil_r. reflexivity.
    + inversion Hh as [|? ? H0 Hr]; subst. destruct (IH h Hr) as (q & Hq & E).
      destruct (sign_attains a h0 H0) as (s & Hs & Es).
      exists (s * h0 :: q). split.
      * constructor; [|exact Hq]. destruct Hs as [-> | ->]; [left|right]; ring.
      * rewrite dot_cons, extent_cons, E, Es. reflexivity.
Qed.

Lemma dot_opp r : forall q, dot ROps r (map Ropp q) = - dot ROps r q.
Proof.
  induction r as [|a r IH]; intros q; [rewrite !dot_nil_l; lra|].
  destruct q as [|q0 q]; [cbn [map]; rewrite !dot_nil_r; lra|].
  cbn [map]. rewrite !dot_cons, IH. ring.
Qed.

Lemma map_nth_in {A} (f : A -> R) l i d : (i < length l)%nat -> (map f l).[i] = f (nth i l d).
Proof. revert i; induction l; intros [|i] H; simpl in *; try lia; auto. apply IHl; lia. Qed.

Lemma Forall2_length_eq {A B} (P : A -> B -> Prop) l1 l2 : Forall2 P l1 l2 -> length l1 = length l2.
Proof. induction 1; simpl; auto. Qed.

Lemma obb_image_in_aabb (c h : list R) (Rm : list (list R)) q :
  length Rm = length c -> Forall2 (fun q h => Rabs q <= h) q h ->
  aabb_inside ROps (obb_to_aabb ROps {| o_center := c; o_half := h; o_rot := Rm |}) (vadd ROps c (mul_vec ROps Rm q)) = true.
Proof.
  intros HL Hq. unfold aabb_inside, obb_to_aabb, vabs, vsub, vadd, mul_vec. cbn [a_center a_half o_center o_half o_rot].
  assert (L1 : length (map2 (nadd ROps) c (map (fun row => dot ROps row q) Rm)) = length c)
    by (apply map2_length; rewrite map_length; lia).
  apply all2_iff.
  - rewrite !map_length, map2_length; lia.
  - rewrite map_length, map2_length by lia. rewrite L1. intros i Hi.
    rewrite map_nth0 by (rewrite map2_length; lia). rewrite map2_nth by lia. rewrite map2_nth by (rewrite ?map_length; lia).
    rewrite (map_nth_in (fun row => dot ROps row q) Rm i []) by lia.
    rewrite (map_nth_in (fun row => abs_row_extent ROps row h) Rm i []) by lia.
    cbn [nadd nsub nabs nleb ROps]. apply Rleb_true.
    replace (c.[i] + dot ROps (nth i Rm []) q - c.[i]) with (dot ROps (nth i Rm []) q) by ring.
    apply row_bound. exact Hq.
Qed.

Lemma obb_aabb_face_touched (c h : list R) (Rm : list (list R)) i :
  length Rm = length c -> (i < length c)%nat -> Forall (fun x => 0 <= x) h ->
  let e := (a_half (obb_to_aabb ROps {| o_center := c; o_half := h; o_rot := Rm |})).[i] in
  exists q, Forall2 (fun q h => q = h \/ q = - h) q h /\
    (vadd ROps c (mul_vec ROps Rm q)).[i] = c.[i] + e /\
    (vadd ROps c (mul_vec ROps Rm (map Ropp q))).[i] = c.[i] - e.
Proof.
  intros HL Hi Hh. cbn [obb_to_aabb a_half o_rot o_half].
  destruct (row_attained (nth i Rm []) h Hh) as (q & Hq & E). exists q. split; [exact Hq|].
  unfold vadd, mul_vec.
  rewrite !map2_nth by (rewrite ?map_length; lia).
  rewrite !(map_nth_in (fun row => dot ROps row _) Rm i []) by lia.
  rewrite (map_nth_in (fun row => abs_row_extent ROps row h) Rm i []) by lia.
  rewrite dot_opp, E. cbn [nadd ROps]. split; ring.
Qed.
