(* GeodesyCartesian.v — the reverse composition Cartesian -> geodetic -> Cartesian (C01), for an arbitrary point
   near the Earth (no geodetic pre-image is assumed). *)
From Coq Require Import Reals ZArith List Bool Lra Lia Psatz.
From Coquelicot Require Import Coquelicot.
From Interval Require Import Tactic.
From Romea Require Import Num NumR GeodesyModel GeodesyProofs GeodesyContraction GeodesyRoundtrip.
From Romea.gen Require Import RepoConstants.
Local Open Scope R_scope.

(* ------------------------------------------------------------------ atan2 gives the polar angle *)
Lemma sqrt_1_plus_quot x y : x <> 0 ->
  sqrt (1 + (y / x) * (y / x)) = sqrt (x * x + y * y) / Rabs x.
Proof.
  intros Hx. assert (Ax : 0 < Rabs x) by (apply Rabs_pos_lt; exact Hx).
  replace (1 + y / x * (y / x)) with ((x * x + y * y) / (x * x)) by (field; exact Hx).
  rewrite sqrt_div_alt by nra. f_equal.
  replace (x * x) with (Rsqr x) by reflexivity. apply sqrt_Rsqr_abs.
Qed.

Lemma Ratan2_polar X Y : let rho := sqrt (X * X + Y * Y) in 0 < rho ->
  rho * cos (Ratan2 Y X) = X /\ rho * sin (Ratan2 Y X) = Y.
Proof.
  intros rho Hr. unfold Ratan2.
  assert (Hsq : rho * rho = X * X + Y * Y) by (unfold rho; apply sqrt_sqrt; nra).
  assert (Aux : forall x, x <> 0 -> X = x ->
            rho * cos (atan (Y / x)) = Rabs x /\ rho * sin (atan (Y / x)) = Y / x * Rabs x).
  { intros x Hx E. subst x. rewrite cos_atan, sin_atan. unfold Rsqr. rewrite (sqrt_1_plus_quot X Y Hx).
    fold rho. assert (0 < Rabs X) by (apply Rabs_pos_lt; exact Hx). split; field; split; lra. }
  destruct (Rlt_dec 0 X) as [Hp|Hp].
  - destruct (Aux X (Rgt_not_eq _ _ Hp) eq_refl) as [C S]. rewrite (Rabs_pos_eq X) in C, S by lra.
    split; [exact C|]. rewrite S. field. lra.
  - destruct (Rlt_dec X 0) as [Hn|Hn].
    + destruct (Aux X (Rlt_not_eq _ _ Hn) eq_refl) as [C S]. rewrite (Rabs_left X Hn) in C, S.
      destruct (Rle_dec 0 Y).
      * rewrite neg_cos, neg_sin. split; [lra|]. rewrite Ropp_mult_distr_r_reverse, S. field. lra.
      * rewrite cos_minus, sin_minus, cos_PI, sin_PI. split; [lra|].
        replace (rho * (sin (atan (Y / X)) * -1 - cos (atan (Y / X)) * 0)) with (- (rho * sin (atan (Y / X)))) by ring.
        rewrite S. field. lra.
    + assert (X = 0) by lra. subst X.
      assert (Hy : rho = Rabs Y). { unfold rho. replace (0 * 0 + Y * Y) with (Rsqr Y) by (unfold Rsqr; ring). apply sqrt_Rsqr_abs. }
      destruct (Rlt_dec 0 Y) as [Yp|Yp].
      * rewrite cos_PI2, sin_PI2, Hy, Rabs_pos_eq by lra. lra.
      * destruct (Rlt_dec Y 0) as [Yn|Yn].
        -- replace (- PI / 2) with (- (PI / 2)) by field. rewrite cos_neg, sin_neg, cos_PI2, sin_PI2, Hy, (Rabs_left Y Yn). lra.
        -- assert (Y = 0) by lra. subst Y. rewrite Rabs_R0 in Hy. lra.
Qed.

(* ------------------------------------------------------------------ W and cos/W are Lipschitz *)
Section Lip.
Variable el : ellipsoid (T:=R).
Hypothesis E0 : 0 <= el_e2 el.
Hypothesis E1 : el_e2 el <= / 100.
Local Notation e2 := (el_e2 el).

Lemma Wf_range x : 994 / 1000 <= Wf el x <= 1.
Proof.
  assert (He2 : 0 <= e2 < 1) by lra.
  pose proof (Wf_ge el He2 x). pose proof (sqrt_1me2_lower el He2 E1). pose proof (w_le_1 e2 x He2) as L.
  fold (Wf el x) in L. lra.
Qed.

Lemma Wf_lip x y : Rabs (Wf el x - Wf el y) <= 2 / 100 * Rabs (x - y).
Proof.
  assert (He2 : 0 <= e2 < 1) by lra.
  pose proof (Wf_range x) as Rx. pose proof (Wf_range y) as Ry.
  pose proof (w_sq e2 x He2) as Sx. pose proof (w_sq e2 y He2) as Sy. fold (Wf el x) in Sx. fold (Wf el y) in Sy.
  pose proof (sin_lip x y) as Ls. pose proof (SIN_bound x) as Bx. pose proof (SIN_bound y) as By.
  set (w := Wf el x) in *. set (w0 := Wf el y) in *. set (s := sin x) in *. set (s0 := sin y) in *.
  set (d := Rabs (x - y)) in *. clearbody w w0 s s0 d.
  assert (E : (w - w0) * (w + w0) = e2 * ((s0 - s) * (s + s0))) by nra.
  assert (B : Rabs ((w - w0) * (w + w0)) <= / 100 * (d * 2)).
  { rewrite E, Rabs_mult, Rabs_mult, (Rabs_pos_eq e2) by lra.
    apply Rmult_le_compat; [lra| |lra|].
    - apply Rmult_le_pos; apply Rabs_pos.
    - apply Rmult_le_compat; try apply Rabs_pos; [rewrite Rabs_minus_sym; exact Ls|apply Rabs_le; lra]. }
  rewrite Rabs_mult, (Rabs_pos_eq (w + w0)) in B by lra.
  pose proof (Rabs_pos (w - w0)). nra.
Qed.

Lemma cos_over_W_lip x y :
  Rabs (cos x / Wf el x - cos y / Wf el y) <= 105 / 100 * Rabs (x - y).
Proof.
  pose proof (Wf_range x) as Rx. pose proof (Wf_range y) as Ry.
  pose proof (Wf_lip x y) as Lw. pose proof (cos_lip x y) as Lc.
  pose proof (COS_bound y) as By.
  set (w := Wf el x) in *. set (w0 := Wf el y) in *. set (c := cos x) in *. set (c0 := cos y) in *.
  pose proof (Rabs_pos (x - y)) as D0. set (d := Rabs (x - y)) in *. clearbody w w0 c c0 d.
  replace (c / w - c0 / w0) with (((c - c0) * w0 + c0 * (w0 - w)) * / (w * w0)) by (field; split; lra).
  assert (Pw : 98 / 100 <= w * w0) by nra.
  assert (Iw : / (w * w0) <= 100 / 98). { rewrite <- (Rinv_inv (100 / 98)). apply Rinv_le_contravar; lra. }
  assert (Ip : 0 < / (w * w0)) by (apply Rinv_0_lt_compat; lra).
  rewrite Rabs_mult, (Rabs_pos_eq (/ (w * w0))) by lra.
  assert (N1 : Rabs ((c - c0) * w0 + c0 * (w0 - w)) <= d + 2 / 100 * d).
  { eapply Rle_trans; [apply Rabs_triang|]. rewrite !Rabs_mult, (Rabs_pos_eq w0) by lra.
    assert (Rabs c0 <= 1) by (apply Rabs_le; lra).
    pose proof (Rabs_pos (c - c0)). pose proof (Rabs_pos (w0 - w)). pose proof (Rabs_pos c0).
    rewrite (Rabs_minus_sym w0 w). nra. }
  pose proof (Rabs_pos ((c - c0) * w0 + c0 * (w0 - w))).
  apply Rle_trans with ((d + 2 / 100 * d) * (100 / 98)); [|lra].
  apply Rmult_le_compat; lra.
Qed.
End Lip.

(* ------------------------------------------------------------------ Cartesian -> geodetic -> Cartesian *)
Section Cartesian.
Variable el : ellipsoid (T:=R).
Hypothesis Ha : 0 < el_a el.
Hypothesis Ha7 : el_a el <= 7000000.
Hypothesis E0 : 0 <= el_e2 el.
Hypothesis E1 : el_e2 el <= / 100.
Variables X Y Z : R.
Local Notation a := (el_a el).
Local Notation e2 := (el_e2 el).
Local Notation rho := (hnorm ROps X Y).
Hypothesis Hrho : 0 < rho.
Hypothesis Hr : 98 / 100 * a <= rnorm Z rho.
Hypothesis Hcone : Rabs Z <= 600 * rho.

Let He2 : 0 <= e2 < 1. Proof. lra. Qed.

Lemma cart_far : e2 * a < rnorm Z rho.
Proof. nra. Qed.

Lemma cart_HJ : (e2 * a) * (e2 * a) < rho * rho + (1 - e2) * (Z * Z).
Proof.
  pose proof (rnorm_sq Z rho) as S. set (r := rnorm Z rho) in *. clearbody r.
  assert (Z0 : 0 <= Z * Z) by nra. assert (W0 : 0 <= rho * rho) by nra.
  set (zz := Z * Z) in *. set (ww := rho * rho) in *. clearbody zz ww.
  assert (G : (e2 * a) * (e2 * a) < (1 - e2) * (r * r)).
  2:{ rewrite S in G. assert (0 <= e2 * ww) by (apply Rmult_le_pos; lra). lra. }
  assert (E1' : e2 * a <= a / 100) by nra.
  assert (E0' : 0 <= e2 * a) by nra.
  assert (S1 : (e2 * a) * (e2 * a) <= (a / 100) * (a / 100)) by nra.
  assert (S2 : (98 / 100 * a) * (98 / 100 * a) <= r * r) by nra.
  assert (S3 : 99 / 100 * (r * r) <= (1 - e2) * (r * r)) by nra.
  nra.
Qed.

Lemma cart_q_bound : lat_q el Z rho <= 26 / 25 * e2.
Proof.
  pose proof (sqrt_1me2_lower el He2 E1) as K.
  unfold lat_q. set (r := rnorm Z rho) in *. set (k := sqrt (1 - e2)) in *. clearbody r k.
  assert (D1 : 97 / 100 * a <= r - e2 * a) by nra.
  assert (D2 : 25 / 26 * a <= k * (r - e2 * a)) by nra.
  assert (Dp : 0 < k * (r - e2 * a)) by nra.
  apply (Rmult_le_reg_r (k * (r - e2 * a))); [exact Dp|].
  unfold Rdiv. rewrite Rmult_assoc, Rinv_l by lra. nra.
Qed.

Lemma cart_terminates fuel : (7 <= fuel)%nat ->
  exists gg, toWGS84 ROps fuel el (mkV3 X Y Z) = Some gg.
Proof.
  intros Hf. pose proof (toWGS84_terminates el Ha He2 6 fuel (mkV3 X Y Z)) as T.
  cbv zeta in T. cbn [vx vy vz] in T.
  apply (T Hrho cart_far cart_HJ); [|exact Hf].
  pose proof cart_q_bound as Q. pose proof (lat_q_nonneg el Ha He2 Z rho cart_far) as Q0.
  pose proof ecef_eps_lower as E.
  set (q := lat_q el Z rho) in *. clearbody q.
  assert (Q1 : q <= 104 / 10000) by lra.
  apply Rle_trans with (PI * (104 / 10000) ^ 6); [|apply Rle_trans with (/ 100000000000); [exact pi_q6_bound|exact E]].
  apply Rmult_le_compat_l; [pose proof PI_RGT_0; lra|]. apply pow_incr. lra.
Qed.

(* on the invariant interval the denominator of the body is at least 0.98 *)
Lemma cart_den_lower x : lat_J Z rho x -> 98 / 100 <= lat_den el rho x <= 1.
Proof.
  intros HJx. destruct (lat_J_cos Z rho Hrho x HJx) as [Cp Cl]. pose proof (cos_psi_sq Z rho Hrho) as Cq.
  pose proof (lat_J_den el Ha He2 Z rho Hrho cart_HJ x HJx) as [_ D1]. split; [|exact D1].
  pose proof (Wf_range el E0 E1 x) as Rw. pose proof (rnorm_sq Z rho) as S.
  unfold lat_den. set (w := Wf el x) in *. set (c := cos x) in *. set (cp := cos (lat_psi Z rho)) in *.
  set (r := rnorm Z rho) in *. clearbody w c cp r.
  assert (Rp : 0 < r) by nra.
  assert (Cr : c * r <= rho).
  { assert (C2 : (cp * r) * (cp * r) = rho * rho) by (rewrite <- Cq, <- S; ring).
    assert (Pr : 0 <= cp * r) by nra.
    assert (cp * r = rho). { destruct (Rle_dec (cp * r) rho); nra. }
    nra. }
  assert (S1 : a * c <= rho * (100 / 98)) by nra.
  assert (S2 : a * e2 * c <= rho * (100 / 98) * / 100).
  { replace (a * e2 * c) with ((a * c) * e2) by ring. apply Rmult_le_compat; nra. }
  assert (Pw : 0 < rho * w) by nra.
  assert (Q : a * e2 * c / (rho * w) <= 2 / 100); [|lra].
  apply (Rmult_le_reg_r (rho * w)); [exact Pw|].
  unfold Rdiv. rewrite Rmult_assoc, Rinv_l by lra. nra.
Qed.

(* the composition: X and Y are reproduced exactly, Z within 1 mm *)
Local Arguments hnorm : simpl never.

Lemma cart_roundtrip fuel gg :
  toWGS84 ROps fuel el (mkV3 X Y Z) = Some gg ->
  let p' := toECEF ROps el gg in
  vx p' = X /\ vy p' = Y /\ Rabs (vz p' - Z) <= / 1000.
Proof.
  unfold toWGS84. cbn [vx vy vz].
  destruct (lat_loop _ _ _ _ _ _ _) as [r|] eqn:E; [|discriminate].
  intros H; inversion H; subst gg; clear H. cbv zeta.
  assert (Hfg : lat_J Z rho (lat_first_guess ROps el X Y Z)).
  { apply (first_guess_in_J el Ha He2 X Y Z Hrho). pose proof cart_far. lra. }
  destruct (lat_loop_exit_inv el Z rho (lat_J Z rho) (lat_J_body el Ha He2 Z rho Hrho cart_HJ) _ _ _ _ Hfg E)
    as [[_ Hc]|[prev [Hp [Er Hs]]]].
  { pose proof ecef_initial_delta_gt_eps. lra. }
  assert (HJr : lat_J Z rho r) by (rewrite Er; apply (lat_J_body el Ha He2 Z rho Hrho cart_HJ); exact Hp).
  destruct (lat_J_cos Z rho Hrho r HJr) as [Cp _].
  pose proof (Wf_range el E0 E1 r) as Rw.
  destruct (Ratan2_polar X Y) as [PX PY]. { exact Hrho. }
  change (sqrt (X * X + Y * Y)) with (hnorm ROps X Y) in PX, PY.
  unfold toECEF, altitude_of, primeVertical, longitude_of.
  cbn [g_lat g_lon g_alt vx vy vz nadd nsub nmul ndiv ncos nsin nsqrt n_one natan2 ROps].
  replace (1 - e2 * (sin r * sin r)) with (1 - e2 * sin r * sin r) by ring. fold (Wf el r).
  set (w := Wf el r) in *. set (c := cos r) in *.
  split; [|split].
  - transitivity (rho * cos (Ratan2 Y X)); [field; split; lra|exact PX].
  - transitivity (rho * sin (Ratan2 Y X)); [field; split; lra|exact PY].
  - (* Z' = rho tan(r) D(r) and tan(r) = (Z/rho)/D(prev) *)
    pose proof (cart_den_lower prev Hp) as [Dl Du].
    assert (Et : sin r / c = Z / rho / lat_den el rho prev).
    { unfold c. change (sin r / cos r) with (tan r). rewrite Er, lat_body_eq. apply tan_atan. }
    assert (EZ : (a / w * (1 - e2) + (rho / c - a / w)) * sin r = Z * (lat_den el rho r / lat_den el rho prev)).
    { transitivity (rho * (sin r / c) * lat_den el rho r).
      - unfold lat_den. fold w c. field. repeat split; lra.
      - rewrite Et. field. split; lra. }
    rewrite EZ.
    assert (ED : lat_den el rho r - lat_den el rho prev
                 = a * e2 / rho * (cos prev / Wf el prev - cos r / Wf el r)).
    { unfold lat_den. pose proof (Wf_range el E0 E1 prev). fold w. field. repeat split; lra. }
    set (FF := cos prev / Wf el prev - cos r / Wf el r) in *.
    set (Dp := lat_den el rho prev) in *. set (Dr := lat_den el rho r) in *.
    replace (Z * (Dr / Dp) - Z) with ((Z / rho) * (a * e2) * FF * / Dp).
    2:{ transitivity (Z * (Dr - Dp) / Dp); [rewrite ED; field; split; lra|field; lra]. }
    pose proof (cos_over_W_lip el E0 E1 prev r) as LF. rewrite (Rabs_minus_sym prev r) in LF. fold FF in LF.
    pose proof ecef_eps_bounds as [P0 P1].
    assert (LF' : Rabs FF <= 105 / 100 * / 100000000000) by lra.
    assert (Zr : Rabs (Z / rho) <= 600).
    { unfold Rdiv. rewrite Rabs_mult, Rabs_inv, (Rabs_pos_eq rho) by lra.
      apply (Rmult_le_reg_r rho); [exact Hrho|]. rewrite Rmult_assoc, Rinv_l by lra. lra. }
    assert (Id : / Dp <= 100 / 98). { rewrite <- (Rinv_inv (100 / 98)). apply Rinv_le_contravar; lra. }
    assert (Ip : 0 < / Dp) by (apply Rinv_0_lt_compat; lra).
    assert (Ae : 0 <= a * e2 <= 70000) by (split; nra).
    rewrite (Rabs_mult (Z / rho * (a * e2) * FF)), (Rabs_mult (Z / rho * (a * e2))), (Rabs_mult (Z / rho)).
    rewrite (Rabs_pos_eq (a * e2)), (Rabs_pos_eq (/ Dp)) by lra.
    pose proof (Rabs_pos (Z / rho)) as A0.
    pose proof (Rabs_pos FF) as A1.
    apply Rle_trans with (600 * 70000 * (105 / 100 * / 100000000000) * (100 / 98)); [|lra].
    apply Rmult_le_compat; [|lra| |lra].
    + apply Rmult_le_pos; [apply Rmult_le_pos; lra|lra].
    + apply Rmult_le_compat; [apply Rmult_le_pos; lra|lra| |lra].
      apply Rmult_le_compat; lra.
Qed.

Lemma cart_roundtrip_total fuel : (7 <= fuel)%nat ->
  exists gg, toWGS84 ROps fuel el (mkV3 X Y Z) = Some gg /\
    let p' := toECEF ROps el gg in vx p' = X /\ vy p' = Y /\ Rabs (vz p' - Z) <= / 1000.
Proof.
  intros Hf. destruct (cart_terminates fuel Hf) as [gg Hg]. exists gg. split; [exact Hg|].
  exact (cart_roundtrip fuel gg Hg).
Qed.

End Cartesian.

(* statement in the form used by Properties_C01.v *)
Lemma roundtrip_cartesian (el : ellipsoid (T:=R)) fuel X Y Z :
  0 < el_a el <= 7000000 -> 0 <= el_e2 el <= / 100 ->
  let norm := hnorm ROps X Y in
  0 < norm -> 98 / 100 * el_a el <= sqrt (norm * norm + Z * Z) -> Rabs Z <= 600 * norm ->
  (7 <= fuel)%nat ->
  exists g, toWGS84 ROps fuel el (mkV3 X Y Z) = Some g /\
    let p' := toECEF ROps el g in vx p' = X /\ vy p' = Y /\ Rabs (vz p' - Z) <= / 1000.
Proof.
  intros [Ha Ha7] [E0 E1] norm Hn Hr Hc Hf.
  exact (cart_roundtrip_total el Ha Ha7 E0 E1 X Y Z Hn Hr Hc fuel Hf).
Qed.

(* non-vacuity: the point (6000 km, 0, 2000 km) and GRS80 *)
Lemma cartesian_domain_example :
  let el := grs80 ROps in let norm := hnorm ROps 6000000 0 in
  0 < norm /\ 98 / 100 * el_a el <= sqrt (norm * norm + 2000000 * 2000000) /\ Rabs 2000000 <= 600 * norm.
Proof.
  cbv zeta. destruct grs80_in_domain as [[_ A7] _].
  assert (A : el_a (grs80 ROps) = 6378137).
  { unfold grs80, grs80_a_m, grs80_a_e, make_ellipsoid. cbn [el_a]. eval_dec. lra. }
  assert (N : hnorm ROps 6000000 0 = 6000000).
  { unfold hnorm. cbn [nsqrt nadd nmul ROps]. replace (6000000 * 6000000 + 0 * 0) with (6000000 * 6000000) by ring.
    apply sqrt_square. lra. }
  rewrite N, A. split; [lra|]. split.
  - rewrite <- (sqrt_square (98 / 100 * 6378137)) by lra. apply sqrt_le_1_alt. lra.
  - rewrite Rabs_pos_eq by lra. lra.
Qed.

(* the image of the geodetic domain of the property lies in the Cartesian domain of roundtrip_cartesian *)
Lemma toECEF_in_cartesian_domain (el : ellipsoid (T:=R)) lat lon h :
  0 < el_a el -> 0 <= el_e2 el <= / 100 -> - PI / 2 < lat < PI / 2 -> / 600 <= cos lat -> - el_a el / 100 <= h ->
  let p := toECEF ROps el (mkGeo lat lon h) in let norm := hnorm ROps (vx p) (vy p) in
  0 < norm /\ 98 / 100 * el_a el <= sqrt (norm * norm + vz p * vz p) /\ Rabs (vz p) <= 600 * norm.
Proof.
  intros Ha [E0 E1] Hl Hc Hh p norm. assert (He2 : 0 <= el_e2 el < 1) by lra.
  destruct (ne_point el Ha He2 lat lon h Hl Hh) as [Ez Er]. fold p in Ez, Er. unfold norm. rewrite Er, Ez.
  pose proof (ne_rho_pos el Ha He2 lat h E1 Hl Hh) as R0.
  pose proof (ne_rnorm_lower el Ha He2 lat h E1 Hh) as R1. unfold rnorm in R1.
  pose proof (ne_m_lower el Ha He2 lat h E1 Hh) as M. pose proof (ne_P_ge_m el Ha He2 lat h) as PM.
  split; [exact R0|]. split; [lra|].
  set (mm := primeVertical ROps el lat * (1 - el_e2 el) + h) in *.
  set (Pp := primeVertical ROps el lat + h) in *. clearbody mm Pp.
  rewrite Rabs_mult, (Rabs_pos_eq mm) by lra.
  assert (S1 : Rabs (sin lat) <= 1) by (apply Rabs_le; pose proof (SIN_bound lat); lra).
  pose proof (Rabs_pos (sin lat)). nra.
Qed.
