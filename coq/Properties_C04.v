(* Properties_C04.v — C04: rigid registration from correspondences (closed form, SVD) returns the proper rigid motion.
   Only statements, each closed by [exact <lemma>] and followed by Print Assumptions.
   Model: KabschModel.v ([rotation_of fixed d cov]: R = V U^T from the SVD oracle of the cross covariance, with the
   determinant correction iff [fixed] = true — the repaired code).  The SVD contract [svd_contract] (LsProofs.v) is an
   explicit premise.  [Re d U V e] = V diag(e) U^T;  [rcost d N S T Q] = sum_{n<N} |Q S_n - T_n|^2 for centred pairs. *)
From Coq Require Import Reals List Arith Lia Lra Bool Permutation.
From Romea Require Import Num NumR LinAlgBModel LinAlgBProofs LsProofs KabschModel KabschProofs.
Import ListNotations.
Local Open Scope R_scope.

(* R^T R = I for the original and the repaired code, 2D and 3D *)
Theorem C04_kabsch_orthogonal :
  forall svd_of d cov fixed, (d = 2 \/ d = 3)%nat -> svd_contract d cov (svd_of d cov) ->
  is_orthogonal d (rotation_of ROps svd_of fixed d cov).
Proof. exact (fun svd d cov fixed Hd Hc => rotation_orthogonal svd d cov Hc fixed). Qed.
Print Assumptions C04_kabsch_orthogonal.

(* det R = +1 for the repaired code, whatever SVD the oracle returns within its contract (coplanar sets included) *)
Theorem C04_kabsch_proper :
  forall svd_of d cov, (d = 2 \/ d = 3)%nat -> svd_contract d cov (svd_of d cov) ->
  fdet ROps d (mget ROps (rotation_of ROps svd_of true d cov)) = 1.
Proof. exact rotation_proper. Qed.
Print Assumptions C04_kabsch_proper.

(* the ORIGINAL code (determinant correction commented out) is refuted on a coplanar set: cross covariance diag(1,1,0)
   (e.g. the unit square in the plane z = 0 under the identity motion), an SVD within the contract, det R = -1.
   The same oracle with the repaired code gives det R = +1. *)
Theorem C04_kabsch_coplanar_refuted :
  svd_contract 3 cop_cov (cop_svd 3 cop_cov) /\
  fdet ROps 3 (mget ROps (rotation_of ROps cop_svd false 3 cop_cov)) = -1 /\
  fdet ROps 3 (mget ROps (rotation_of ROps cop_svd true 3 cop_cov)) = 1.
Proof. exact (conj cop_contract (conj cop_refuted cop_fixed)). Qed.
Print Assumptions C04_kabsch_coplanar_refuted.

(* least-squares optimality: for N centred pairs whose cross covariance is U diag(sg) V^T, R = V U^T has the smallest
   sum of squared residuals among ALL orthogonal matrices *)
Theorem C04_kabsch_least_squares_optimal_orthogonal :
  forall d N (S T U V : nat -> nat -> R) (sg : nat -> R),
  (forall a b, (a < d)%nat -> (b < d)%nat -> Rsum d (fun l => U l a * U l b) = delta a b) ->
  (forall i j, (i < d)%nat -> (j < d)%nat -> Rsum d (fun a => U i a * U j a) = delta i j) ->
  (forall a b, (a < d)%nat -> (b < d)%nat -> Rsum d (fun l => V l a * V l b) = delta a b) ->
  (forall a, (a < d)%nat -> 0 <= sg a) ->
  (forall j i, (j < d)%nat -> (i < d)%nat -> Ccov N S T j i = Cm d U V sg j i) ->
  forall Q, is_orth d Q -> rcost d N S T (Re d U V (fun _ => 1)) <= rcost d N S T Q.
Proof. exact kabsch_optimal. Qed.
Print Assumptions C04_kabsch_least_squares_optimal_orthogonal.

(* Optimality among PROPER rotations when the unconstrained optimum is a reflection with sigma_last > 0 (Umeyama's case for
   noisy data) is not proved: it rests on the oracle's comparison with an independent Kabsch/Umeyama solution. *)
Theorem C04_kabsch_least_squares_optimal_partial :
  forall d (U V : nat -> nat -> R) (sg : nat -> R),
  (forall a b, (a < d)%nat -> (b < d)%nat -> Rsum d (fun l => U l a * U l b) = delta a b) ->
  (forall a b, (a < d)%nat -> (b < d)%nat -> Rsum d (fun l => V l a * V l b) = delta a b) ->
  forall e, trQC d U V sg (Re d U V e) = Rsum d (fun a => sg a * e a).
Proof. exact (fun d U V sg HU HV e => trace_Re d U V sg HU HV e). Qed.
Print Assumptions C04_kabsch_least_squares_optimal_partial.

(* exact data: if T_n = R0 S_n for an orthogonal R0, the estimate maps every centred source onto its target — no rank
   condition: coplanar and even collinear sets included *)
Theorem C04_kabsch_exact_maps_every_point :
  forall d N (S T U V : nat -> nat -> R) (sg : nat -> R),
  (forall a b, (a < d)%nat -> (b < d)%nat -> Rsum d (fun l => U l a * U l b) = delta a b) ->
  (forall i j, (i < d)%nat -> (j < d)%nat -> Rsum d (fun a => U i a * U j a) = delta i j) ->
  (forall a b, (a < d)%nat -> (b < d)%nat -> Rsum d (fun l => V l a * V l b) = delta a b) ->
  (forall a, (a < d)%nat -> 0 <= sg a) ->
  (forall j i, (j < d)%nat -> (i < d)%nat -> Ccov N S T j i = Cm d U V sg j i) ->
  forall R0, is_orth d R0 ->
  (forall n i, (n < N)%nat -> (i < d)%nat -> T n i = Rsum d (fun j => R0 i j * S n j)) ->
  forall n i, (n < N)%nat -> (i < d)%nat -> Rsum d (fun j => Re d U V (fun _ => 1) i j * S n j) = T n i.
Proof. exact kabsch_exact_maps. Qed.
Print Assumptions C04_kabsch_exact_maps_every_point.

(* the same for the matrix with the last direction flipped (what the repaired code returns when det(V U^T) < 0), when the
   smallest singular value is 0, i.e. the points are coplanar (3D) / collinear (2D): exact recovery on rank-deficient sets *)
Theorem C04_kabsch_exact_recovery_rank_deficient :
  forall d N (S T U V : nat -> nat -> R) (sg : nat -> R),
  (forall a b, (a < d)%nat -> (b < d)%nat -> Rsum d (fun l => U l a * U l b) = delta a b) ->
  (forall i j, (i < d)%nat -> (j < d)%nat -> Rsum d (fun a => U i a * U j a) = delta i j) ->
  (forall a b, (a < d)%nat -> (b < d)%nat -> Rsum d (fun l => V l a * V l b) = delta a b) ->
  (forall a, (a < d)%nat -> 0 <= sg a) ->
  (forall j i, (j < d)%nat -> (i < d)%nat -> Ccov N S T j i = Cm d U V sg j i) ->
  forall R0, is_orth d R0 -> (1 <= d)%nat -> sg (d - 1)%nat = 0 ->
  (forall n i, (n < N)%nat -> (i < d)%nat -> T n i = Rsum d (fun j => R0 i j * S n j)) ->
  forall n i, (n < N)%nat -> (i < d)%nat -> Rsum d (fun j => Re d U V (elast d) i j * S n j) = T n i.
Proof. exact kabsch_exact_maps_flipped. Qed.
Print Assumptions C04_kabsch_exact_recovery_rank_deficient.

(* The three theorems above are stated on the function view of the centred pairs (S n i, T n i); the identification of the
   model's list sums ([cross_cov], [mean_of]) with these finite sums, and the uniqueness of the rotation given its action
   on a rank >= d-1 set (so that R = R0 itself, not only R s = R0 s on the data), are not proved: [_partial].  The model's
   own rotation block is tied to [Re] here: *)
Theorem C04_kabsch_model_rotation_is_V_diag_e_Ut_partial :
  forall svd_of d cov fixed, svd_contract d cov (svd_of d cov) ->
  exists e, (e = (fun _ => 1) \/ e = elast d) /\
    let '(U, _, V) := svd_of d cov in
    forall i j, (i < d)%nat -> (j < d)%nat ->
      mget ROps (rotation_of ROps svd_of fixed d cov) i j = Re d (mget ROps U) (mget ROps V) e i j.
Proof. exact (fun svd d cov fixed Hc => rotation_cases svd d cov Hc fixed). Qed.
Print Assumptions C04_kabsch_model_rotation_is_V_diag_e_Ut_partial.

(* translation column: R s + (tm - R sm) = R (s - sm) + tm *)
Theorem C04_kabsch_translation : forall d (Rm : nat -> nat -> R) (s sm tm : nat -> R) i,
  Rsum d (fun j => Rm i j * s j) + (tm i - Rsum d (fun j => Rm i j * sm j)) = Rsum d (fun j => Rm i j * (s j - sm j)) + tm i.
Proof. exact translation_maps. Qed.
Print Assumptions C04_kabsch_translation.

(* the result does not depend on the order of the correspondences (both estimate_ overloads reduce to [estimate_pairs]) *)
Theorem C04_kabsch_perm_invariant :
  forall svd_of fixed d ps (l l' : list (list R * list R)),
  Permutation l l' -> estimate_pairs ROps svd_of fixed d ps l = estimate_pairs ROps svd_of fixed d ps l'.
Proof. exact estimate_pairs_perm. Qed.
Print Assumptions C04_kabsch_perm_invariant.

(* ---- non-vacuity: the SVD contract is satisfiable (the coplanar witness) and its rotation is orthogonal ---- *)
Example C04_contract_satisfiable : svd_contract 3 cop_cov (cop_svd 3 cop_cov) /\ is_orthogonal 3 (rotation_of ROps cop_svd true 3 cop_cov).
Proof. split; [exact cop_contract|]. apply rotation_orthogonal. exact cop_contract. Qed.
