(* Properties_C04.v — placeholder, replaced below *)
From Coq Require Import Reals.
From Romea Require Import Num NumR LinAlgBModel KabschModel.
Theorem C04_placeholder : True.
Proof. exact I. Qed.
