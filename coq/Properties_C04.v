(* Properties_C04.v — C04: rigid registration from correspondences (closed form, SVD) returns the proper rigid motion.
   Only statements, each closed by [exact <lemma>] and followed by Print Assumptions.
   Model: KabschModel.v ([rotation_of fixed d cov]: R = V U^T from the SVD oracle of the cross covariance, with the
   determinant correction iff [fixed] = true — the repaired code).  The SVD contract [svd_contract] (LsProofs.v) is an
   explicit premise.  [Re d U V e] = V diag(e) U^T;  [rcost d N S T Q] = sum_{n<N} |Q S_n - T_n|^2 for centred pairs.
   [e_star d U V] = the sign pattern of the repaired code: [elast d] (last direction flipped) iff det(V U^T) < 0, else all ones.
   [is_orth d Q]: the columns of the d x d block of Q are orthonormal.  For a list of pairs (KabschLists.v):
   [p_src pairs n i] / [p_tgt pairs n i] = coordinate i of the n-th source / target, [Sc ps pairs] / [Tc ps pairs] = the same
   minus the model's means, [fcost d pairs R t] = sum_n sum_{i<d} (sum_j R i j s_n j + t i - t_n i)^2 (cost of the rigid
   motion (R, t) on the listed pairs themselves), [scale_pairs c pairs] = every coordinate of every point times c
   (PreconditionedPointSet(points, c) on both sets), [rank_ge_dm1 d N S] = some S_n <> 0 (d = 2) / some S_n x S_m <> 0 (d = 3).
   SOURCE TIE (end of the file): [src_estimate_corr_<p>], [src_estimate_aligned_<p>], [src_find_*_<p>] (gen/SrcKabsch.v) are
   the terms regenerated on every run by translate/tr_C04_kabsch.py from the clang AST of the instantiated members of
   FindRigidTransformationBySVD<P> for P = Vector2d (v2), Vector3d (v3), HomogeneousCoordinates2d (h2),
   HomogeneousCoordinates3d (h3); their first argument is the SVD oracle (Eigen::JacobiSVD).  [KabschLits N] (SrcMat.v): the
   dictionary N reads the source's literal `0` as nzero and `x * (-1)` as -x.  [mcomp N M i j] = entry (i,j) of the rows M. *)
From Coq Require Import Reals List Arith Lia Lra Bool Permutation.
From Romea Require Import Num NumR LinAlgBModel LinAlgBProofs LsProofs KabschModel KabschProofs KabschProper KabschLists KabschPrecond KabschExamples.
From Romea Require Import SrcMat SrcTieC04 SrcTieC04R.
From Romea.gen Require Import SrcKabsch.
Import ListNotations.
Local Open Scope R_scope.

(* R^T R = I for the original and the repaired code, 2D and 3D *)
Theorem C04_kabsch_orthogonal :
  forall svd_of d cov fixed, (d = 2 \/ d = 3)%nat -> svd_contract d cov (svd_of d cov) ->
  is_orthogonal d (rotation_of ROps svd_of fixed d cov).
Proof. exact (fun svd d cov fixed Hd Hc => rotation_orthogonal svd d cov Hc fixed). Qed.
Print Assumptions C04_kabsch_orthogonal.

(* det R = +1 for the repaired code, whatever SVD the oracle returns within its contract (coplanar sets included) *)
Theorem C04_kabsch_proper :
  forall svd_of d cov, (d = 2 \/ d = 3)%nat -> svd_contract d cov (svd_of d cov) ->
  fdet ROps d (mget ROps (rotation_of ROps svd_of true d cov)) = 1.
Proof. exact rotation_proper. Qed.
Print Assumptions C04_kabsch_proper.

(* the ORIGINAL code (determinant correction commented out) is refuted on a coplanar set: cross covariance diag(1,1,0)
   (e.g. the unit square in the plane z = 0 under the identity motion), an SVD within the contract, det R = -1.
   The same oracle with the repaired code gives det R = +1. *)
Theorem C04_kabsch_coplanar_refuted :
  svd_contract 3 cop_cov (cop_svd 3 cop_cov) /\
  fdet ROps 3 (mget ROps (rotation_of ROps cop_svd false 3 cop_cov)) = -1 /\
  fdet ROps 3 (mget ROps (rotation_of ROps cop_svd true 3 cop_cov)) = 1.
Proof. exact (conj cop_contract (conj cop_refuted cop_fixed)). Qed.
Print Assumptions C04_kabsch_coplanar_refuted.

(* least-squares optimality: for N centred pairs whose cross covariance is U diag(sg) V^T, R = V U^T has the smallest
   sum of squared residuals among ALL orthogonal matrices *)
Theorem C04_kabsch_least_squares_optimal_orthogonal :
  forall d N (S T U V : nat -> nat -> R) (sg : nat -> R),
  (forall a b, (a < d)%nat -> (b < d)%nat -> Rsum d (fun l => U l a * U l b) = delta a b) ->
  (forall i j, (i < d)%nat -> (j < d)%nat -> Rsum d (fun a => U i a * U j a) = delta i j) ->
  (forall a b, (a < d)%nat -> (b < d)%nat -> Rsum d (fun l => V l a * V l b) = delta a b) ->
  (forall a, (a < d)%nat -> 0 <= sg a) ->
  (forall j i, (j < d)%nat -> (i < d)%nat -> Ccov N S T j i = Cm d U V sg j i) ->
  forall Q, is_orth d Q -> rcost d N S T (Re d U V (fun _ => 1)) <= rcost d N S T Q.
Proof. exact kabsch_optimal. Qed.
Print Assumptions C04_kabsch_least_squares_optimal_orthogonal.

(* the trace of Q C for Q = V diag(e) U^T *)
Theorem C04_kabsch_trace_of_V_diag_e_Ut :
  forall d (U V : nat -> nat -> R) (sg : nat -> R),
  (forall a b, (a < d)%nat -> (b < d)%nat -> Rsum d (fun l => U l a * U l b) = delta a b) ->
  (forall a b, (a < d)%nat -> (b < d)%nat -> Rsum d (fun l => V l a * V l b) = delta a b) ->
  forall e, trQC d U V sg (Re d U V e) = Rsum d (fun a => sg a * e a).
Proof. exact (fun d U V sg HU HV e => trace_Re d U V sg HU HV e). Qed.
Print Assumptions C04_kabsch_trace_of_V_diag_e_Ut.

(* (a) least-squares optimality among PROPER rotations, noisy data included (Umeyama's case: the unconstrained optimum is a
   reflection and sigma_last > 0): for U, V orthogonal, sigma non-negative and non-increasing (the order the SVD contract
   gives), the matrix V diag(e_star) U^T of the repaired code is a proper rotation and no proper rotation has a smaller sum
   of squared residuals.  d = 2 and d = 3. *)
Theorem C04_kabsch_least_squares_optimal_proper :
  forall d N (S T U V : nat -> nat -> R) (sg : nat -> R), (d = 2 \/ d = 3)%nat ->
  (forall a b, (a < d)%nat -> (b < d)%nat -> Rsum d (fun l => U l a * U l b) = delta a b) ->
  (forall i j, (i < d)%nat -> (j < d)%nat -> Rsum d (fun a => U i a * U j a) = delta i j) ->
  (forall a b, (a < d)%nat -> (b < d)%nat -> Rsum d (fun l => V l a * V l b) = delta a b) ->
  (forall i j, (i < d)%nat -> (j < d)%nat -> Rsum d (fun a => V i a * V j a) = delta i j) ->
  (forall a, (a < d)%nat -> 0 <= sg a) ->
  (forall a b, (a <= b)%nat -> (b < d)%nat -> sg b <= sg a) ->
  (forall j i, (j < d)%nat -> (i < d)%nat -> Ccov N S T j i = Cm d U V sg j i) ->
  fdet ROps d (Re d U V (e_star d U V)) = 1 /\
  forall Q, is_orth d Q -> fdet ROps d Q = 1 -> rcost d N S T (Re d U V (e_star d U V)) <= rcost d N S T Q.
Proof.
  exact (fun d N S T U V sg Hd HUtU HUUt HVtV HVVt Hsg Hord HC =>
           conj (Re_star_proper d U V Hd HUtU HVtV)
                (kabsch_optimal_proper d N S T U V sg Hd HUtU HUUt HVtV HVVt Hsg Hord HC)).
Qed.
Print Assumptions C04_kabsch_least_squares_optimal_proper.

(* the same with the determinants explicit: all ones when det V det U = +1, last direction flipped when it is -1 *)
Theorem C04_kabsch_least_squares_optimal_proper_by_determinant :
  forall d N (S T U V : nat -> nat -> R) (sg : nat -> R), (d = 2 \/ d = 3)%nat ->
  (forall a b, (a < d)%nat -> (b < d)%nat -> Rsum d (fun l => U l a * U l b) = delta a b) ->
  (forall i j, (i < d)%nat -> (j < d)%nat -> Rsum d (fun a => U i a * U j a) = delta i j) ->
  (forall a b, (a < d)%nat -> (b < d)%nat -> Rsum d (fun l => V l a * V l b) = delta a b) ->
  (forall i j, (i < d)%nat -> (j < d)%nat -> Rsum d (fun a => V i a * V j a) = delta i j) ->
  (forall a, (a < d)%nat -> 0 <= sg a) ->
  (forall a b, (a <= b)%nat -> (b < d)%nat -> sg b <= sg a) ->
  (forall j i, (j < d)%nat -> (i < d)%nat -> Ccov N S T j i = Cm d U V sg j i) ->
  forall Q, is_orth d Q -> fdet ROps d Q = 1 ->
  (fdet ROps d V * fdet ROps d U = 1 -> rcost d N S T (Re d U V (fun _ => 1)) <= rcost d N S T Q) /\
  (fdet ROps d V * fdet ROps d U = -1 -> rcost d N S T (Re d U V (elast d)) <= rcost d N S T Q).
Proof.
  exact (fun d N S T U V sg Hd HUtU HUUt HVtV HVVt Hsg Hord HC Q HQ HdQ =>
           conj (fun Hp => kabsch_optimal_proper_pos d N S T U V sg Hd HUtU HUUt HVtV HVVt Hsg Hord HC Q Hp HQ HdQ)
                (fun Hn => kabsch_optimal_proper_neg d N S T U V sg Hd HUtU HUUt HVtV HVVt Hsg Hord HC Q Hn HQ HdQ)).
Qed.
Print Assumptions C04_kabsch_least_squares_optimal_proper_by_determinant.

(* the algebraic core: for an improper orthogonal M (det = -1) and weights s_0 >= ... >= s_{d-1} >= 0,
   sum_a s_a M_aa <= s_0 + ... + s_{d-2} - s_{d-1}   (3x3: trace M <= 1, from the cofactor identities of O(3)) *)
Theorem C04_kabsch_improper_weighted_trace :
  forall d (M : nat -> nat -> R) (sg : nat -> R), (d = 2 \/ d = 3)%nat ->
  is_orth d M -> fdet ROps d M = -1 ->
  (forall a, (a < d)%nat -> 0 <= sg a) -> (forall a b, (a <= b)%nat -> (b < d)%nat -> sg b <= sg a) ->
  Rsum d (fun a => sg a * M a a) <= Rsum d (fun a => sg a * elast d a).
Proof. exact improper_diag_bound. Qed.
Print Assumptions C04_kabsch_improper_weighted_trace.

(* the model's rotation block (repaired code) is exactly V diag(e_star) U^T ... *)
Theorem C04_kabsch_model_rotation_is_V_diag_estar_Ut :
  forall svd_of d cov, (d = 2 \/ d = 3)%nat ->
    let '(U, _, V) := svd_of d cov in
    forall i j, (i < d)%nat -> (j < d)%nat ->
      mget ROps (rotation_of ROps svd_of true d cov) i j
      = Re d (mget ROps U) (mget ROps V) (e_star d (mget ROps U) (mget ROps V)) i j.
Proof. exact rotation_is_Re_star. Qed.
Print Assumptions C04_kabsch_model_rotation_is_V_diag_estar_Ut.

(* ... hence least-squares optimal among all proper rotations, for any SVD the oracle returns within its contract and any
   N centred pairs whose cross covariance is the matrix handed to the oracle *)
Theorem C04_kabsch_rotation_optimal_among_proper_rotations :
  forall svd_of d cov N (S T : nat -> nat -> R), (d = 2 \/ d = 3)%nat ->
  svd_contract d cov (svd_of d cov) ->
  (forall j i, (j < d)%nat -> (i < d)%nat -> Ccov N S T j i = mget ROps cov j i) ->
  forall Q, is_orth d Q -> fdet ROps d Q = 1 ->
  rcost d N S T (mget ROps (rotation_of ROps svd_of true d cov)) <= rcost d N S T Q.
Proof. exact rotation_of_optimal_proper. Qed.
Print Assumptions C04_kabsch_rotation_optimal_among_proper_rotations.

(* (c) the list sums of the model are the finite sums of the function view: the matrix handed to the SVD by
   [estimate_pairs] is the cross covariance of the pairs centred on the model's means, and these means centre the pairs *)
Theorem C04_kabsch_cross_cov_is_finite_sum :
  forall d ps (pairs : list (list R * list R)),
  let sm := mean_of ROps ps (map fst pairs) in let tm := mean_of ROps ps (map snd pairs) in
  (forall i j, (i < d)%nat -> (j < d)%nat ->
     mget ROps (cross_cov ROps d pairs sm tm) i j = Ccov (length pairs) (Sc ps pairs) (Tc ps pairs) i j) /\
  (forall n i, Sc ps pairs n i = p_src pairs n i - vget ROps sm i) /\
  (forall n i, Tc ps pairs n i = p_tgt pairs n i - vget ROps tm i) /\
  (pairs <> [] -> forall i, (i < ps)%nat ->
     Rsum (length pairs) (fun n => Sc ps pairs n i) = 0 /\ Rsum (length pairs) (fun n => Tc ps pairs n i) = 0).
Proof.
  exact (fun d ps pairs => conj (cross_cov_get d ps pairs)
           (conj (fun n i => eq_refl) (conj (fun n i => eq_refl)
              (fun Hne i Hi => conj (Sc_centred ps pairs i Hi Hne) (Tc_centred ps pairs i Hi Hne))))).
Qed.
Print Assumptions C04_kabsch_cross_cov_is_finite_sum.

(* the output of [estimate_pairs] itself (both estimate_ overloads reduce to it): its linear part is a proper rotation and
   the rigid motion x -> R x + t it returns has the smallest sum of squared residuals on the listed pairs among ALL proper
   rigid motions x -> Q x + tau (rotation and translation), for any SVD within the contract — noisy data included *)
Theorem C04_kabsch_estimate_is_optimal_proper_rotation :
  forall svd_of d ps (pairs : list (list R * list R)),
  (d = 2 \/ d = 3)%nat -> (d <= ps)%nat -> pairs <> [] ->
  let sm := mean_of ROps ps (map fst pairs) in let tm := mean_of ROps ps (map snd pairs) in
  let cov := cross_cov ROps d pairs sm tm in
  svd_contract d cov (svd_of d cov) ->
  let H := estimate_pairs ROps svd_of true d ps pairs in
  (is_orth d (mget ROps H) /\ fdet ROps d (mget ROps H) = 1) /\
  forall Q tau, is_orth d Q -> fdet ROps d Q = 1 ->
    fcost d pairs (mget ROps H) (fun i => mget ROps H i d) <= fcost d pairs Q tau.
Proof.
  exact (fun svd d ps pairs Hd Hps Hne Hc =>
           conj (estimate_is_proper_rotation svd d ps pairs Hd Hc) (estimate_optimal svd d ps pairs Hd Hps Hne Hc)).
Qed.
Print Assumptions C04_kabsch_estimate_is_optimal_proper_rotation.

(* exact data: if T_n = R0 S_n for an orthogonal R0, the estimate maps every centred source onto its target — no rank
   condition: coplanar and even collinear sets included *)
Theorem C04_kabsch_exact_maps_every_point :
  forall d N (S T U V : nat -> nat -> R) (sg : nat -> R),
  (forall a b, (a < d)%nat -> (b < d)%nat -> Rsum d (fun l => U l a * U l b) = delta a b) ->
  (forall i j, (i < d)%nat -> (j < d)%nat -> Rsum d (fun a => U i a * U j a) = delta i j) ->
  (forall a b, (a < d)%nat -> (b < d)%nat -> Rsum d (fun l => V l a * V l b) = delta a b) ->
  (forall a, (a < d)%nat -> 0 <= sg a) ->
  (forall j i, (j < d)%nat -> (i < d)%nat -> Ccov N S T j i = Cm d U V sg j i) ->
  forall R0, is_orth d R0 ->
  (forall n i, (n < N)%nat -> (i < d)%nat -> T n i = Rsum d (fun j => R0 i j * S n j)) ->
  forall n i, (n < N)%nat -> (i < d)%nat -> Rsum d (fun j => Re d U V (fun _ => 1) i j * S n j) = T n i.
Proof. exact kabsch_exact_maps. Qed.
Print Assumptions C04_kabsch_exact_maps_every_point.

(* the same for the matrix with the last direction flipped (what the repaired code returns when det(V U^T) < 0), when the
   smallest singular value is 0, i.e. the points are coplanar (3D) / collinear (2D): exact recovery on rank-deficient sets *)
Theorem C04_kabsch_exact_recovery_rank_deficient :
  forall d N (S T U V : nat -> nat -> R) (sg : nat -> R),
  (forall a b, (a < d)%nat -> (b < d)%nat -> Rsum d (fun l => U l a * U l b) = delta a b) ->
  (forall i j, (i < d)%nat -> (j < d)%nat -> Rsum d (fun a => U i a * U j a) = delta i j) ->
  (forall a b, (a < d)%nat -> (b < d)%nat -> Rsum d (fun l => V l a * V l b) = delta a b) ->
  (forall a, (a < d)%nat -> 0 <= sg a) ->
  (forall j i, (j < d)%nat -> (i < d)%nat -> Ccov N S T j i = Cm d U V sg j i) ->
  forall R0, is_orth d R0 -> (1 <= d)%nat -> sg (d - 1)%nat = 0 ->
  (forall n i, (n < N)%nat -> (i < d)%nat -> T n i = Rsum d (fun j => R0 i j * S n j)) ->
  forall n i, (n < N)%nat -> (i < d)%nat -> Rsum d (fun j => Re d U V (elast d) i j * S n j) = T n i.
Proof. exact kabsch_exact_maps_flipped. Qed.
Print Assumptions C04_kabsch_exact_recovery_rank_deficient.

(* (b) uniqueness: a proper rotation is determined by its action on a set of rank >= d-1
   (d = 3: two vectors with a non-zero cross product; d = 2: one non-zero vector) *)
Theorem C04_kabsch_proper_rotation_unique :
  forall d N (S A B : nat -> nat -> R),
  is_orth d A -> fdet ROps d A = 1 -> is_orth d B -> fdet ROps d B = 1 -> rank_ge_dm1 d N S ->
  (forall n i, (n < N)%nat -> (i < d)%nat -> Rsum d (fun j => A i j * S n j) = Rsum d (fun j => B i j * S n j)) ->
  forall i j, (i < d)%nat -> (j < d)%nat -> A i j = B i j.
Proof. exact proper_unique_on_data. Qed.
Print Assumptions C04_kabsch_proper_rotation_unique.

(* exact data T_n = R0 S_n, R0 a proper rotation: the repaired code's matrix maps every centred source onto its target in
   BOTH branches (no rank condition, no condition on sigma_last), and IS R0 when the sources have rank >= d-1 *)
Theorem C04_kabsch_exact_recovery :
  forall d N (S T U V : nat -> nat -> R) (sg : nat -> R), (d = 2 \/ d = 3)%nat ->
  (forall a b, (a < d)%nat -> (b < d)%nat -> Rsum d (fun l => U l a * U l b) = delta a b) ->
  (forall i j, (i < d)%nat -> (j < d)%nat -> Rsum d (fun a => U i a * U j a) = delta i j) ->
  (forall a b, (a < d)%nat -> (b < d)%nat -> Rsum d (fun l => V l a * V l b) = delta a b) ->
  (forall i j, (i < d)%nat -> (j < d)%nat -> Rsum d (fun a => V i a * V j a) = delta i j) ->
  (forall a, (a < d)%nat -> 0 <= sg a) ->
  (forall a b, (a <= b)%nat -> (b < d)%nat -> sg b <= sg a) ->
  (forall j i, (j < d)%nat -> (i < d)%nat -> Ccov N S T j i = Cm d U V sg j i) ->
  forall R0, is_orth d R0 -> fdet ROps d R0 = 1 ->
  (forall n i, (n < N)%nat -> (i < d)%nat -> T n i = Rsum d (fun j => R0 i j * S n j)) ->
  (forall n i, (n < N)%nat -> (i < d)%nat -> Rsum d (fun j => Re d U V (e_star d U V) i j * S n j) = T n i) /\
  (rank_ge_dm1 d N S -> forall i j, (i < d)%nat -> (j < d)%nat -> Re d U V (e_star d U V) i j = R0 i j).
Proof.
  exact (fun d N S T U V sg Hd HUtU HUUt HVtV HVVt Hsg Hord HC R0 H0 Hd0 Hex =>
           conj (kabsch_exact_maps_proper d N S T U V sg Hd HUtU HUUt HVtV HVVt Hsg Hord HC R0 H0 Hd0 Hex)
                (fun Hr => kabsch_exact_recovery d N S T U V sg Hd HUtU HUUt HVtV HVVt Hsg Hord HC R0 H0 Hd0 Hr Hex)).
Qed.
Print Assumptions C04_kabsch_exact_recovery.

(* the same for the output of [estimate_pairs]: if every listed target is R0 s + tau0 with R0 a proper rotation and the
   sources are not all collinear (3D; coplanar sets included) / not all coincident (2D), the returned matrix has linear part
   R0 and translation tau0, hence maps every source onto its target *)
Theorem C04_kabsch_estimate_exact_recovery :
  forall svd_of d ps (pairs : list (list R * list R)),
  (d = 2 \/ d = 3)%nat -> (d <= ps)%nat -> pairs <> [] ->
  let sm := mean_of ROps ps (map fst pairs) in let tm := mean_of ROps ps (map snd pairs) in
  let cov := cross_cov ROps d pairs sm tm in
  svd_contract d cov (svd_of d cov) ->
  let H := estimate_pairs ROps svd_of true d ps pairs in
  forall R0 tau0, is_orth d R0 -> fdet ROps d R0 = 1 ->
  rank_ge_dm1 d (length pairs) (Sc ps pairs) ->
  (forall n i, (n < length pairs)%nat -> (i < d)%nat ->
     p_tgt pairs n i = Rsum d (fun j => R0 i j * p_src pairs n j) + tau0 i) ->
  (forall i j, (i < d)%nat -> (j < d)%nat -> mget ROps H i j = R0 i j) /\
  (forall i, (i < d)%nat -> mget ROps H i d = tau0 i) /\
  (forall n i, (n < length pairs)%nat -> (i < d)%nat ->
     Rsum d (fun j => mget ROps H i j * p_src pairs n j) + mget ROps H i d = p_tgt pairs n i).
Proof.
  exact (fun svd d ps pairs Hd Hps Hne Hc R0 tau0 H0 Hd0 Hr Hex =>
           conj (proj1 (estimate_exact_recovery svd d ps pairs Hd Hps Hne Hc R0 tau0 H0 Hd0 Hr Hex))
          (conj (proj2 (estimate_exact_recovery svd d ps pairs Hd Hps Hne Hc R0 tau0 H0 Hd0 Hr Hex))
                (estimate_exact_maps svd d ps pairs Hd Hps Hne Hc R0 tau0 H0 Hd0 Hr Hex))).
Qed.
Print Assumptions C04_kabsch_estimate_exact_recovery.

(* the model's rotation block, original and repaired code, is V diag(e) U^T with e all ones or the last one flipped *)
Theorem C04_kabsch_model_rotation_is_V_diag_e_Ut :
  forall svd_of d cov fixed, svd_contract d cov (svd_of d cov) ->
  exists e, (e = (fun _ => 1) \/ e = elast d) /\
    let '(U, _, V) := svd_of d cov in
    forall i j, (i < d)%nat -> (j < d)%nat ->
      mget ROps (rotation_of ROps svd_of fixed d cov) i j = Re d (mget ROps U) (mget ROps V) e i j.
Proof. exact (fun svd d cov fixed Hc => rotation_cases svd d cov Hc fixed). Qed.
Print Assumptions C04_kabsch_model_rotation_is_V_diag_e_Ut.

(* the four [find] overloads: without preconditioning they are [estimate_pairs] on the aligned / listed pairs; with the same
   scale c on both sets they are [estimate_pairs] on the scaled pairs followed by the division of the translation by c *)
Theorem C04_kabsch_find_overloads_reduce_to_estimate_pairs :
  forall svd_of fixed d ps c (src tgt : list (list R)),
  (length src = length tgt ->
     find_aligned ROps svd_of fixed d ps src tgt = Some (estimate_pairs ROps svd_of fixed d ps (combine src tgt)) /\
     find_aligned_pre ROps svd_of fixed d ps c c src tgt
     = Some (unscale_translation ROps d (estimate_pairs ROps svd_of fixed d ps (scale_pairs c (combine src tgt))) (precond_matrix00 ROps c))) /\
  (forall corr prs, pairs_of_corr src tgt corr = Some prs ->
     find_corr ROps svd_of fixed d ps src tgt corr = Some (estimate_pairs ROps svd_of fixed d ps prs) /\
     find_corr_pre ROps svd_of fixed d ps c c src tgt corr
     = Some (unscale_translation ROps d (estimate_pairs ROps svd_of fixed d ps (scale_pairs c prs)) (precond_matrix00 ROps c))).
Proof.
  exact (fun svd fixed d ps c src tgt =>
    conj (fun Hl => conj (find_aligned_eq svd fixed d ps src tgt Hl) (find_aligned_pre_eq svd fixed d ps c src tgt Hl))
         (fun corr prs Hp => conj (find_corr_eq svd fixed d ps src tgt corr prs Hp) (find_corr_pre_eq svd fixed d ps c src tgt corr prs Hp))).
Qed.
Print Assumptions C04_kabsch_find_overloads_reduce_to_estimate_pairs.

(* isotropic preconditioning (scale c <> 0 on both sets): the matrix the preconditioned overloads return is a proper rigid
   motion, least-squares optimal on the ORIGINAL pairs among all proper rigid motions, and on exact data of rank >= d-1 it is
   (R0, tau0) — by [C04_kabsch_estimate_exact_recovery] the same matrix as without preconditioning.  The SVD contract is
   assumed for the matrix actually handed to the oracle (the cross covariance of the scaled pairs). *)
Theorem C04_kabsch_preconditioned_estimate_optimal_and_exact :
  forall svd_of d ps (pairs : list (list R * list R)) c,
  (d = 2 \/ d = 3)%nat -> (d <= ps)%nat -> pairs <> [] -> c <> 0 ->
  let sp := scale_pairs c pairs in
  let cov := cross_cov ROps d sp (mean_of ROps ps (map fst sp)) (mean_of ROps ps (map snd sp)) in
  svd_contract d cov (svd_of d cov) ->
  let H := unscale_translation ROps d (estimate_pairs ROps svd_of true d ps sp) (precond_matrix00 ROps c) in
  (is_orth d (mget ROps H) /\ fdet ROps d (mget ROps H) = 1) /\
  (forall Q tau, is_orth d Q -> fdet ROps d Q = 1 ->
     fcost d pairs (mget ROps H) (fun i => mget ROps H i d) <= fcost d pairs Q tau) /\
  (forall R0 tau0, is_orth d R0 -> fdet ROps d R0 = 1 -> rank_ge_dm1 d (length pairs) (Sc ps pairs) ->
     (forall n i, (n < length pairs)%nat -> (i < d)%nat ->
        p_tgt pairs n i = Rsum d (fun j => R0 i j * p_src pairs n j) + tau0 i) ->
     (forall i j, (i < d)%nat -> (j < d)%nat -> mget ROps H i j = R0 i j) /\ (forall i, (i < d)%nat -> mget ROps H i d = tau0 i)).
Proof.
  exact (fun svd d ps pairs c Hd Hps Hne Hc0 Hc =>
    conj (precond_estimate_is_proper_rotation svd d ps pairs c Hd Hc)
   (conj (precond_estimate_optimal svd d ps pairs c Hd Hps Hne Hc0 Hc)
         (precond_estimate_exact_recovery svd d ps pairs c Hd Hps Hne Hc0 Hc))).
Qed.
Print Assumptions C04_kabsch_preconditioned_estimate_optimal_and_exact.

(* translation column: R s + (tm - R sm) = R (s - sm) + tm *)
Theorem C04_kabsch_translation : forall d (Rm : nat -> nat -> R) (s sm tm : nat -> R) i,
  Rsum d (fun j => Rm i j * s j) + (tm i - Rsum d (fun j => Rm i j * sm j)) = Rsum d (fun j => Rm i j * (s j - sm j)) + tm i.
Proof. exact translation_maps. Qed.
Print Assumptions C04_kabsch_translation.

(* the result does not depend on the order of the correspondences (both estimate_ overloads reduce to [estimate_pairs]) *)
Theorem C04_kabsch_perm_invariant :
  forall svd_of fixed d ps (l l' : list (list R * list R)),
  Permutation l l' -> estimate_pairs ROps svd_of fixed d ps l = estimate_pairs ROps svd_of fixed d ps l'.
Proof. exact estimate_pairs_perm. Qed.
Print Assumptions C04_kabsch_perm_invariant.

(* ---- non-vacuity: the SVD contract is satisfiable (the coplanar witness) and its rotation is orthogonal ---- *)
Example C04_contract_satisfiable : svd_contract 3 cop_cov (cop_svd 3 cop_cov) /\ is_orthogonal 3 (rotation_of ROps cop_svd true 3 cop_cov).
Proof. split; [exact cop_contract|]. apply rotation_orthogonal. exact cop_contract. Qed.

(* the noisy 3D instance of KabschExamples.v: six pairs whose cross covariance is diag(3,2,-1); an SVD within the contract
   with det V det U = -1 and sigma_last = 1 > 0 (the best orthogonal fit is a reflection): all premises of
   [C04_kabsch_estimate_is_optimal_proper_rotation] hold *)
Example C04_noisy_reflection_case_satisfiable :
  svd_contract 3 ex_cov (ex_svd 3 ex_cov) /\
  (fdet ROps 3 (mget ROps [[1;0;0];[0;1;0];[0;0;-1]]) * fdet ROps 3 (mget ROps [[1;0;0];[0;1;0];[0;0;1]]) = -1 /\ 0 < vget ROps [3;2;1] 2) /\
  forall Q tau, is_orth 3 Q -> fdet ROps 3 Q = 1 ->
    fcost 3 ex_pairs (mget ROps (estimate_pairs ROps ex_svd true 3 3 ex_pairs))
                     (fun i => mget ROps (estimate_pairs ROps ex_svd true 3 3 ex_pairs) i 3%nat) <= fcost 3 ex_pairs Q tau.
Proof. exact (conj ex_contract (conj ex_is_reflection_case ex_estimate_optimal)). Qed.

(* exact coplanar data (unit square in z = 0, quarter turn about z, translation (5,1,7)), an SVD within the contract whose
   V U^T is a reflection: all premises of [C04_kabsch_estimate_exact_recovery] hold and the motion is recovered *)
Example C04_exact_coplanar_recovery_satisfiable :
  svd_contract 3 sq_cov (sq_svd 3 sq_cov) /\ (is_orth 3 sq_R0 /\ fdet ROps 3 sq_R0 = 1) /\
  rank_ge_dm1 3 (length sq_pairs) (Sc 3 sq_pairs) /\
  (forall n i, (n < length sq_pairs)%nat -> (i < 3)%nat ->
     p_tgt sq_pairs n i = Rsum 3 (fun j => sq_R0 i j * p_src sq_pairs n j) + sq_tau0 i) /\
  ((forall i j, (i < 3)%nat -> (j < 3)%nat -> mget ROps (estimate_pairs ROps sq_svd true 3 3 sq_pairs) i j = sq_R0 i j) /\
   (forall i, (i < 3)%nat -> mget ROps (estimate_pairs ROps sq_svd true 3 3 sq_pairs) i 3%nat = sq_tau0 i)).
Proof. exact (conj sq_contract (conj sq_R0_proper (conj sq_rank (conj sq_exact sq_estimate_recovers)))). Qed.

(* 2D: the rank and exactness premises on three points under a quarter turn *)
Example C04_exact_2d_satisfiable :
  (is_orth 2 ex2_R0 /\ fdet ROps 2 ex2_R0 = 1) /\ rank_ge_dm1 2 (length ex2_pairs) (Sc 2 ex2_pairs) /\
  (forall n i, (n < length ex2_pairs)%nat -> (i < 2)%nat ->
     p_tgt ex2_pairs n i = Rsum 2 (fun j => ex2_R0 i j * p_src ex2_pairs n j) + 0).
Proof. exact (conj ex2_R0_proper (conj ex2_rank ex2_exact)). Qed.

(* preconditioning: the square scaled by 2 on both sets, an SVD of ITS cross covariance within the contract; the sets are
   aligned lists, so [find_aligned_pre] is covered *)
Example C04_preconditioned_satisfiable :
  svd_contract 3 sq2_cov (sq2_svd 3 sq2_cov) /\ 2 <> 0 /\
  (length (map fst sq_pairs) = length (map snd sq_pairs) /\ combine (map fst sq_pairs) (map snd sq_pairs) = sq_pairs).
Proof. exact (conj sq2_contract (conj (not_eq_sym (Rlt_not_eq 0 2 Rlt_0_2)) sq_is_aligned)). Qed.

(* ================================================================================================================
   SYNTACTIC SOURCE TIE.  The generated terms equal the model functions the theorems above are about, for EVERY numeric
   dictionary with the two literal laws (the reals satisfy them: next theorem) and every SVD oracle.
   Point types: v2 = (d, ps) = (2, 2), v3 = (3, 3), h2 = (2, 3), h3 = (3, 4). *)
Theorem C04_source_tie_literal_laws_hold_over_the_reals : KabschLits ROps.
Proof. exact KabschLits_R. Qed.

(* both private estimate_ overloads: whenever the model is defined (indices in range / sets of equal size) the source's
   term returns the model's matrix *)
Theorem C04_source_tie_estimate :
  forall (T : Type) (N : NumOps T), KabschLits N -> forall svd_of,
  (forall src tgt corr H, estimate_corr N svd_of true 2 2 src tgt corr = Some H -> src_estimate_corr_v2 N (svd_of 2%nat) src tgt corr = H) /\
  (forall src tgt corr H, estimate_corr N svd_of true 3 3 src tgt corr = Some H -> src_estimate_corr_v3 N (svd_of 3%nat) src tgt corr = H) /\
  (forall src tgt corr H, estimate_corr N svd_of true 2 3 src tgt corr = Some H -> src_estimate_corr_h2 N (svd_of 2%nat) src tgt corr = H) /\
  (forall src tgt corr H, estimate_corr N svd_of true 3 4 src tgt corr = Some H -> src_estimate_corr_h3 N (svd_of 3%nat) src tgt corr = H) /\
  (forall src tgt H, estimate_aligned N svd_of true 2 2 src tgt = Some H -> src_estimate_aligned_v2 N (svd_of 2%nat) src tgt = H) /\
  (forall src tgt H, estimate_aligned N svd_of true 3 3 src tgt = Some H -> src_estimate_aligned_v3 N (svd_of 3%nat) src tgt = H) /\
  (forall src tgt H, estimate_aligned N svd_of true 2 3 src tgt = Some H -> src_estimate_aligned_h2 N (svd_of 2%nat) src tgt = H) /\
  (forall src tgt H, estimate_aligned N svd_of true 3 4 src tgt = Some H -> src_estimate_aligned_h3 N (svd_of 3%nat) src tgt = H).
Proof. exact (fun T N L svd => source_tie_estimate_all N L svd). Qed.

(* find(PointSet, PointSet, correspondences) and find(PointSet, PointSet) *)
Theorem C04_source_tie_find_plain :
  forall (T : Type) (N : NumOps T), KabschLits N -> forall svd_of,
  (forall src tgt corr H, find_corr N svd_of true 2 2 src tgt corr = Some H -> src_find_corr_v2 N (svd_of 2%nat) src tgt corr = H) /\
  (forall src tgt corr H, find_corr N svd_of true 3 3 src tgt corr = Some H -> src_find_corr_v3 N (svd_of 3%nat) src tgt corr = H) /\
  (forall src tgt corr H, find_corr N svd_of true 2 3 src tgt corr = Some H -> src_find_corr_h2 N (svd_of 2%nat) src tgt corr = H) /\
  (forall src tgt corr H, find_corr N svd_of true 3 4 src tgt corr = Some H -> src_find_corr_h3 N (svd_of 3%nat) src tgt corr = H) /\
  (forall src tgt H, find_aligned N svd_of true 2 2 src tgt = Some H -> src_find_aligned_v2 N (svd_of 2%nat) src tgt = H) /\
  (forall src tgt H, find_aligned N svd_of true 3 3 src tgt = Some H -> src_find_aligned_v3 N (svd_of 3%nat) src tgt = H) /\
  (forall src tgt H, find_aligned N svd_of true 2 3 src tgt = Some H -> src_find_aligned_h2 N (svd_of 2%nat) src tgt = H) /\
  (forall src tgt H, find_aligned N svd_of true 3 4 src tgt = Some H -> src_find_aligned_h3 N (svd_of 3%nat) src tgt = H).
Proof. exact (fun T N L svd => source_tie_find_plain_all N L svd). Qed.

(* find(PreconditionedPointSet, PreconditionedPointSet[, correspondences]).  The generated functions take the data members of
   the two sets (get() and getPreconditioningMatrix() are translated from their bodies): the stored points — the model's
   [precondition s pts] — and the preconditioning matrices Ms, Mt, of which the source reads entry (0,0) of the TARGET's
   (the model's [precond_matrix00 stgt]) to un-scale the first d entries of the translation column *)
Theorem C04_source_tie_find_preconditioned :
  forall (T : Type) (N : NumOps T), KabschLits N -> forall svd_of,
  (forall ssrc stgt src tgt corr H Ms Mt, find_corr_pre N svd_of true 2 2 ssrc stgt src tgt corr = Some H -> mcomp N Mt 0 0 = precond_matrix00 N stgt ->
     src_find_pre_corr_v2 N (svd_of 2%nat) (precondition N ssrc src) Ms (precondition N stgt tgt) Mt corr = H) /\
  (forall ssrc stgt src tgt corr H Ms Mt, find_corr_pre N svd_of true 3 3 ssrc stgt src tgt corr = Some H -> mcomp N Mt 0 0 = precond_matrix00 N stgt ->
     src_find_pre_corr_v3 N (svd_of 3%nat) (precondition N ssrc src) Ms (precondition N stgt tgt) Mt corr = H) /\
  (forall ssrc stgt src tgt corr H Ms Mt, find_corr_pre N svd_of true 2 3 ssrc stgt src tgt corr = Some H -> mcomp N Mt 0 0 = precond_matrix00 N stgt ->
     src_find_pre_corr_h2 N (svd_of 2%nat) (precondition N ssrc src) Ms (precondition N stgt tgt) Mt corr = H) /\
  (forall ssrc stgt src tgt corr H Ms Mt, find_corr_pre N svd_of true 3 4 ssrc stgt src tgt corr = Some H -> mcomp N Mt 0 0 = precond_matrix00 N stgt ->
     src_find_pre_corr_h3 N (svd_of 3%nat) (precondition N ssrc src) Ms (precondition N stgt tgt) Mt corr = H) /\
  (forall ssrc stgt src tgt H Ms Mt, find_aligned_pre N svd_of true 2 2 ssrc stgt src tgt = Some H -> mcomp N Mt 0 0 = precond_matrix00 N stgt ->
     src_find_pre_aligned_v2 N (svd_of 2%nat) (precondition N ssrc src) Ms (precondition N stgt tgt) Mt = H) /\
  (forall ssrc stgt src tgt H Ms Mt, find_aligned_pre N svd_of true 3 3 ssrc stgt src tgt = Some H -> mcomp N Mt 0 0 = precond_matrix00 N stgt ->
     src_find_pre_aligned_v3 N (svd_of 3%nat) (precondition N ssrc src) Ms (precondition N stgt tgt) Mt = H) /\
  (forall ssrc stgt src tgt H Ms Mt, find_aligned_pre N svd_of true 2 3 ssrc stgt src tgt = Some H -> mcomp N Mt 0 0 = precond_matrix00 N stgt ->
     src_find_pre_aligned_h2 N (svd_of 2%nat) (precondition N ssrc src) Ms (precondition N stgt tgt) Mt = H) /\
  (forall ssrc stgt src tgt H Ms Mt, find_aligned_pre N svd_of true 3 4 ssrc stgt src tgt = Some H -> mcomp N Mt 0 0 = precond_matrix00 N stgt ->
     src_find_pre_aligned_h3 N (svd_of 3%nat) (precondition N ssrc src) Ms (precondition N stgt tgt) Mt = H).
Proof. exact (fun T N L svd => source_tie_find_preconditioned_all N L svd). Qed.

(* END TO END, over the reals.  [optimal_proper_motion d pairs H] is the conclusion of
   C04_kabsch_estimate_is_optimal_proper_rotation about the matrix H: *)
Theorem C04_source_optimal_proper_motion_means :
  forall d pairs H, optimal_proper_motion d pairs H <->
  ((is_orth d (mget ROps H) /\ fdet ROps d (mget ROps H) = 1) /\
   forall Q tau, is_orth d Q -> fdet ROps d Q = 1 ->
     fcost d pairs (mget ROps H) (fun i => mget ROps H i d) <= fcost d pairs Q tau).
Proof. exact (fun d pairs H => iff_refl _). Qed.

(* the optimality theorem stated directly about the term generated from estimate_(sourcePoints, targetPoints,
   correspondences): for correspondences with indices in range (prs = the listed pairs, not empty) and any SVD within its
   contract for the cross covariance of prs, the matrix the SOURCE's term returns is a proper rigid motion and least-squares
   optimal on prs among all proper rigid motions — all four point types *)
Theorem C04_source_estimate_corr_is_optimal_proper_rotation :
  forall svd_of (src tgt : list (list R)) corr prs, pairs_of_corr src tgt corr = Some prs -> prs <> [] ->
  ((let cov := cross_cov ROps 2 prs (mean_of ROps 2 (map fst prs)) (mean_of ROps 2 (map snd prs)) in svd_contract 2 cov (svd_of 2%nat cov)) ->
     optimal_proper_motion 2 prs (src_estimate_corr_v2 ROps (svd_of 2%nat) src tgt corr)) /\
  ((let cov := cross_cov ROps 3 prs (mean_of ROps 3 (map fst prs)) (mean_of ROps 3 (map snd prs)) in svd_contract 3 cov (svd_of 3%nat cov)) ->
     optimal_proper_motion 3 prs (src_estimate_corr_v3 ROps (svd_of 3%nat) src tgt corr)) /\
  ((let cov := cross_cov ROps 2 prs (mean_of ROps 3 (map fst prs)) (mean_of ROps 3 (map snd prs)) in svd_contract 2 cov (svd_of 2%nat cov)) ->
     optimal_proper_motion 2 prs (src_estimate_corr_h2 ROps (svd_of 2%nat) src tgt corr)) /\
  ((let cov := cross_cov ROps 3 prs (mean_of ROps 4 (map fst prs)) (mean_of ROps 4 (map snd prs)) in svd_contract 3 cov (svd_of 3%nat cov)) ->
     optimal_proper_motion 3 prs (src_estimate_corr_h3 ROps (svd_of 3%nat) src tgt corr)).
Proof.
  exact (fun svd src tgt corr prs E Hne =>
    conj (src_corr_optimal svd 2 2 _ (or_introl eq_refl) (le_n 2) (tie_estimate_corr_v2 ROps KabschLits_R svd) src tgt corr prs E Hne)
   (conj (src_corr_optimal svd 3 3 _ (or_intror eq_refl) (le_n 3) (tie_estimate_corr_v3 ROps KabschLits_R svd) src tgt corr prs E Hne)
   (conj (src_corr_optimal svd 2 3 _ (or_introl eq_refl) (le_S 2 2 (le_n 2)) (tie_estimate_corr_h2 ROps KabschLits_R svd) src tgt corr prs E Hne)
         (src_corr_optimal svd 3 4 _ (or_intror eq_refl) (le_S 3 3 (le_n 3)) (tie_estimate_corr_h3 ROps KabschLits_R svd) src tgt corr prs E Hne)))).
Qed.

(* the same for the term generated from estimate_(sourcePoints, targetPoints) on two sets of equal size *)
Theorem C04_source_estimate_aligned_is_optimal_proper_rotation :
  forall svd_of (src tgt : list (list R)), length src = length tgt -> src <> [] ->
  let prs := combine src tgt in
  ((let cov := cross_cov ROps 2 prs (mean_of ROps 2 (map fst prs)) (mean_of ROps 2 (map snd prs)) in svd_contract 2 cov (svd_of 2%nat cov)) ->
     optimal_proper_motion 2 prs (src_estimate_aligned_v2 ROps (svd_of 2%nat) src tgt)) /\
  ((let cov := cross_cov ROps 3 prs (mean_of ROps 3 (map fst prs)) (mean_of ROps 3 (map snd prs)) in svd_contract 3 cov (svd_of 3%nat cov)) ->
     optimal_proper_motion 3 prs (src_estimate_aligned_v3 ROps (svd_of 3%nat) src tgt)) /\
  ((let cov := cross_cov ROps 2 prs (mean_of ROps 3 (map fst prs)) (mean_of ROps 3 (map snd prs)) in svd_contract 2 cov (svd_of 2%nat cov)) ->
     optimal_proper_motion 2 prs (src_estimate_aligned_h2 ROps (svd_of 2%nat) src tgt)) /\
  ((let cov := cross_cov ROps 3 prs (mean_of ROps 4 (map fst prs)) (mean_of ROps 4 (map snd prs)) in svd_contract 3 cov (svd_of 3%nat cov)) ->
     optimal_proper_motion 3 prs (src_estimate_aligned_h3 ROps (svd_of 3%nat) src tgt)).
Proof.
  exact (fun svd src tgt Hl Hne =>
    conj (src_aligned_optimal svd 2 2 _ (or_introl eq_refl) (le_n 2) (tie_estimate_aligned_v2 ROps KabschLits_R svd) src tgt Hl Hne)
   (conj (src_aligned_optimal svd 3 3 _ (or_intror eq_refl) (le_n 3) (tie_estimate_aligned_v3 ROps KabschLits_R svd) src tgt Hl Hne)
   (conj (src_aligned_optimal svd 2 3 _ (or_introl eq_refl) (le_S 2 2 (le_n 2)) (tie_estimate_aligned_h2 ROps KabschLits_R svd) src tgt Hl Hne)
         (src_aligned_optimal svd 3 4 _ (or_intror eq_refl) (le_S 3 3 (le_n 3)) (tie_estimate_aligned_h3 ROps KabschLits_R svd) src tgt Hl Hne)))).
Qed.

(* and for the term generated from find(PreconditionedPointSet, PreconditionedPointSet, correspondences), both sets
   preconditioned with the same scale c <> 0 (stored points = [precondition c pts], entry (0,0) of the target's matrix =
   [precond_matrix00 c]): the returned matrix is a proper rigid motion, least-squares optimal on the ORIGINAL pairs *)
Theorem C04_source_find_preconditioned_is_optimal_for_the_original_pairs :
  forall svd_of c (src tgt : list (list R)) corr prs Ms Mt, pairs_of_corr src tgt corr = Some prs -> prs <> [] -> c <> 0 ->
  mcomp ROps Mt 0 0 = precond_matrix00 ROps c ->
  let sp := scale_pairs c prs in
  ((let cov := cross_cov ROps 2 sp (mean_of ROps 2 (map fst sp)) (mean_of ROps 2 (map snd sp)) in svd_contract 2 cov (svd_of 2%nat cov)) ->
     optimal_proper_motion 2 prs (src_find_pre_corr_v2 ROps (svd_of 2%nat) (precondition ROps c src) Ms (precondition ROps c tgt) Mt corr)) /\
  ((let cov := cross_cov ROps 3 sp (mean_of ROps 3 (map fst sp)) (mean_of ROps 3 (map snd sp)) in svd_contract 3 cov (svd_of 3%nat cov)) ->
     optimal_proper_motion 3 prs (src_find_pre_corr_v3 ROps (svd_of 3%nat) (precondition ROps c src) Ms (precondition ROps c tgt) Mt corr)) /\
  ((let cov := cross_cov ROps 2 sp (mean_of ROps 3 (map fst sp)) (mean_of ROps 3 (map snd sp)) in svd_contract 2 cov (svd_of 2%nat cov)) ->
     optimal_proper_motion 2 prs (src_find_pre_corr_h2 ROps (svd_of 2%nat) (precondition ROps c src) Ms (precondition ROps c tgt) Mt corr)) /\
  ((let cov := cross_cov ROps 3 sp (mean_of ROps 4 (map fst sp)) (mean_of ROps 4 (map snd sp)) in svd_contract 3 cov (svd_of 3%nat cov)) ->
     optimal_proper_motion 3 prs (src_find_pre_corr_h3 ROps (svd_of 3%nat) (precondition ROps c src) Ms (precondition ROps c tgt) Mt corr)).
Proof.
  exact (fun svd c src tgt corr prs Ms Mt E Hne Hc0 Hm =>
    conj (src_pre_corr_optimal svd 2 2 _ (or_introl eq_refl) (le_n 2) (tie_find_pre_corr_v2 ROps KabschLits_R svd) c src tgt corr prs Ms Mt E Hne Hc0 Hm)
   (conj (src_pre_corr_optimal svd 3 3 _ (or_intror eq_refl) (le_n 3) (tie_find_pre_corr_v3 ROps KabschLits_R svd) c src tgt corr prs Ms Mt E Hne Hc0 Hm)
   (conj (src_pre_corr_optimal svd 2 3 _ (or_introl eq_refl) (le_S 2 2 (le_n 2)) (tie_find_pre_corr_h2 ROps KabschLits_R svd) c src tgt corr prs Ms Mt E Hne Hc0 Hm)
         (src_pre_corr_optimal svd 3 4 _ (or_intror eq_refl) (le_S 3 3 (le_n 3)) (tie_find_pre_corr_h3 ROps KabschLits_R svd) c src tgt corr prs Ms Mt E Hne Hc0 Hm)))).
Qed.

(* one Print Assumptions for the source-tie theorems together (the three dictionary-generic ties are closed under the global
   context; the end-to-end corollaries use the axioms of the real numbers, like the theorems they restate) *)
Definition C04_source_tie_statements :=
  (C04_source_tie_literal_laws_hold_over_the_reals, C04_source_tie_estimate, C04_source_tie_find_plain,
   C04_source_tie_find_preconditioned, C04_source_optimal_proper_motion_means, C04_source_estimate_corr_is_optimal_proper_rotation,
   C04_source_estimate_aligned_is_optimal_proper_rotation, C04_source_find_preconditioned_is_optimal_for_the_original_pairs).
Print Assumptions C04_source_tie_statements.
Definition C04_source_tie_generic_statements := (C04_source_tie_estimate, C04_source_tie_find_plain, C04_source_tie_find_preconditioned).
Print Assumptions C04_source_tie_generic_statements.

(* ---- non-vacuity of the source-tie theorems: the unit square, listed by the correspondences (0,0) .. (3,3): indices in range,
   the listed pairs are sq_pairs, the model is defined, and the SVD contract holds for the cross covariance (sq_contract);
   with the scale 2 on both sets the contract holds for the scaled pairs (sq2_contract) ---- *)
Example C04_source_tie_hypotheses_satisfiable :
  pairs_of_corr (map fst sq_pairs) (map snd sq_pairs) [(0, 0); (1, 1); (2, 2); (3, 3)]%nat = Some sq_pairs /\ sq_pairs <> [] /\
  (exists H, estimate_corr ROps sq_svd true 3 3 (map fst sq_pairs) (map snd sq_pairs) [(0, 0); (1, 1); (2, 2); (3, 3)]%nat = Some H) /\
  (exists H, estimate_aligned ROps sq_svd true 3 3 (map fst sq_pairs) (map snd sq_pairs) = Some H) /\
  (let cov := cross_cov ROps 3 sq_pairs (mean_of ROps 3 (map fst sq_pairs)) (mean_of ROps 3 (map snd sq_pairs)) in
   svd_contract 3 cov (sq_svd 3%nat cov)) /\
  (let sp := scale_pairs 2 sq_pairs in
   let cov := cross_cov ROps 3 sp (mean_of ROps 3 (map fst sp)) (mean_of ROps 3 (map snd sp)) in svd_contract 3 cov (sq2_svd 3%nat cov)) /\
  mcomp ROps [[precond_matrix00 ROps 2; 0; 0; 0]; [0; precond_matrix00 ROps 2; 0; 0]; [0; 0; precond_matrix00 ROps 2; 0]; [0; 0; 0; 1]] 0 0
    = precond_matrix00 ROps 2.
Proof.
  split; [reflexivity|]. split; [discriminate|]. split; [eexists; reflexivity|]. split; [eexists; reflexivity|].
  split; [exact sq_contract|]. split; [exact sq2_contract|reflexivity].
Qed.
