(* SrcTieC12Ls.v — C12 side of the syntactic source tie of LeastSquares<RealType>::computeEstimateCovariance: the member function
   regenerated from the clang AST of src/regression/leastsquares/LeastSquares.cpp (gen/SrcLs.v, translate/tr_C07_ls.py) computes, entry
   by entry, the function PoseCovModel.ls_covariance that the theorems C12_ls_covariance* are about (Ac_ * inverseJtJ_ * Ac_^T *
   dataVariance, the repaired order of the transposes), for every numeric dictionary.  Depends on SrcTieLs.v only (not on the ties of
   the other member functions). *)
From Coq Require Import List Arith Bool Lia.
From Romea Require Import Num LinAlgBModel LinAlgBProofs LsModel PoseCovModel SrcEigenDyn SrcEigenDynFacts SrcTieLs.
From Romea.gen Require Import SrcLs.
Import ListNotations.

Section TieCov.
Context {T : Type} (N : NumOps T).

Lemma nsum_sumn n (f : nat -> T) : nsum N n f = sumn N n f.
Proof. induction n as [|n IH]; [reflexivity|]. cbn. rewrite IH. reflexivity. Qed.

Lemma tie_covariance_entries (var : T) (s : src_ls (T:=T)) : src_dims s ->
  fst (src_computeEstimateCovariance N var s) = s /\
  dm_shape (estimateSize_ s) (estimateSize_ s) (snd (src_computeEstimateCovariance N var s)) /\
  forall i j, (i < estimateSize_ s)%nat -> (j < estimateSize_ s)%nat ->
    dm_get N (snd (src_computeEstimateCovariance N var s)) i j =
    PoseCovModel.ls_covariance N (estimateSize_ s) (mget N (dm_rows (Ac_ s))) (mget N (dm_rows (inverseJtJ_ s))) var i j.
Proof.
  intros Hd. rewrite (tie_covariance N var s Hd). cbn [fst snd]. split; [reflexivity|]. split.
  - unfold LsModel.ls_covariance. apply dm_shape_mtab.
  - intros i j Hi Hj. unfold dm_get, LsModel.ls_covariance, PoseCovModel.ls_covariance, gscale, gmul, gtrans. cbn [dm_rows SrcTieLs.abs ls_k ls_A ls_inv].
    rewrite mget_mtab by assumption. f_equal. unfold mmul at 1. rewrite mget_mtab by assumption. unfold fmmul at 1.
    match goal with |- _ = nsum N ?n ?f => rewrite (nsum_sumn n f) end.
    apply sumn_ext. intros l Hl. unfold mmul, mtrans. rewrite !mget_mtab by assumption.
    unfold fmmul, ftr. match goal with |- context [nsum N ?n ?f] => rewrite (nsum_sumn n f) end. reflexivity.
Qed.

End TieCov.
