(* Properties_C15.v — C15: scrolling grid keeps surviving cells and blanks entering cells after any scrolls. *)
From Coq Require Import ZArith List Bool Arith Lia.
From Romea Require Import WrapGridModel WrapGridProofs WrapGridImp WrapGridImpFacts SrcTieC15.
From Romea.gen Require Import SrcWrapGrid.
Import ListNotations.

(* Refinement, for every grid size (2D and 3D), every valid starting state and EVERY sequence of translations
   and writes: the concrete grid (wrapped offsets + flat buffer + blanking loops) reads, at every in-window cell,
   exactly what the sliding-window spec reads:
     spec_translate w k e = fun i => if i + k is inside the window then w (i + k) else e
     spec_write w i v     = w with i := v
   i.e. a cell that stays inside the window keeps its value, a cell entering the window reads the empty value
   supplied to that translation. *)
Theorem C15_wrap_refines_window : forall (V : Type) (ops : list (gop (V:=V))) g w, valid g -> refines g w ->
  let g' := fold_left gstep ops g in
  valid g' /\ same_shape g g' /\ refines g' (fold_left (sstep g) ops w).
Proof. exact @wrap_refines_window. Qed.
Print Assumptions C15_wrap_refines_window.

(* the reported index offset = accumulated offset modulo the grid size (size_t/int wrap-around included) *)
Theorem C15_offset_is_sum_mod : forall (V : Type) (ops : list (gop (V:=V))) g,
  valid g -> g_ox g = 0 -> g_oy g = 0 -> g_oz g = 0 ->
  let g' := fold_left gstep ops g in
  let '(sx, sy, sz) := fold_left acc_k ops (0, 0, 0)%Z in
  Z.of_nat (g_ox g') = (sx mod Z.of_nat (g_nx g))%Z /\
  Z.of_nat (g_oy g') = (sy mod Z.of_nat (g_ny g))%Z /\
  (g_dim3 g = true -> Z.of_nat (g_oz g') = (sz mod Z.of_nat (g_nz g))%Z).
Proof. exact @offset_is_sum_mod. Qed.
Print Assumptions C15_offset_is_sum_mod.

(* one translation, spelled out per axis (what the refinement is built from) *)
Theorem C15_translate_x_read : forall (V : Type) (g : wgrid V) k e x y z, valid g -> in_window g (x, y, z) = true ->
  g_read (translate_x g k e) (x, y, z) = if inb (g_nx g) x k then g_read g (shift x k, y, z) else Some e.
Proof. exact @translate_x_read. Qed.
Theorem C15_translate_y_read : forall (V : Type) (g : wgrid V) k e x y z, valid g -> in_window g (x, y, z) = true ->
  g_read (translate_y g k e) (x, y, z) = if inb (g_ny g) y k then g_read g (x, shift y k, z) else Some e.
Proof. exact @translate_y_read. Qed.
Theorem C15_translate_z_read : forall (V : Type) (g : wgrid V) k e x y z, valid g -> in_window g (x, y, z) = true ->
  g_read (translate_z g k e) (x, y, z) = if inb (g_nz g) z k then g_read g (x, y, shift z k) else Some e.
Proof. exact @translate_z_read. Qed.
Print Assumptions C15_translate_z_read.

(* the size_t expression (offset + n + k % (int)n) % n computes (offset + k) mod n, also for k < -n *)
Theorem C15_new_offset_spec : forall off n k, 0 < n -> off < n -> (Z.of_nat n < 2 ^ 31)%Z ->
  Z.of_nat (new_offset off n k) = ((Z.of_nat off + k) mod Z.of_nat n)%Z.
Proof. exact new_offset_spec. Qed.

(* a freshly constructed grid meets the hypotheses (non-vacuity of valid/refines) *)
Theorem C15_init_valid : forall (V : Type) dim3 nx ny nz (d : V), 0 < nx -> 0 < ny -> 0 < nz ->
  (Z.of_nat nx < 2 ^ 31)%Z -> (Z.of_nat ny < 2 ^ 31)%Z -> (Z.of_nat nz < 2 ^ 31)%Z ->
  valid (g_init dim3 nx ny nz d) /\ refines (g_init dim3 nx ny nz d) (fun _ => d).
Proof. exact @init_valid. Qed.
Print Assumptions C15_init_valid.

(* ================================================================== SYNTACTIC SOURCE TIE
   gen/SrcWrapGrid.v holds the bodies of WrappableGrid<int, 2|3>::translate, computeCellLinearIndex_ (with wrapCellIndexes_
   inlined), operator() and the constructor / Grid::init, regenerated on every run from the clang AST as programs of the
   small imperative language of WrapGridImp.v (size_t arithmetic reduced mod 2^64, int arithmetic with overflow = None,
   C++ `%`, counted for-loops whose condition is re-checked on every pass).  The theorems below say that RUNNING those
   programs computes exactly the model's translate step / linear index — for every grid size allowed by `valid` whose
   buffer is addressable (`fits`: nx*ny*nz < 2^64), every int offset and every state: so the refinement theorems above
   apply to the code as written.  `represents s g`: the object state s (members numberOfCellsAlongAxes_, ...MinusOne_,
   indexCoefficients_, indexOffsetsAlongAxes_, buffer_) is the model grid g. *)
Theorem C15_source_tie_translate_2d : forall (V : Type) (g : wgrid V) (e : V) (kx ky kz : Z) (s : state V),
  valid g -> g_dim3 g = false -> fits g ->
  (- two31 <= kx < two31)%Z -> (- two31 <= ky < two31)%Z ->
  represents s g -> get s (VPar 0) = kx -> get s (VPar 1) = ky ->
  exists s', exec e src_translate_2d s = Some s' /\ represents s' (translate g kx ky kz e).
Proof. exact @translate_2d_tie. Qed.
Print Assumptions C15_source_tie_translate_2d.

Theorem C15_source_tie_translate_3d : forall (V : Type) (g : wgrid V) (e : V) (kx ky kz : Z) (s : state V),
  valid g -> g_dim3 g = true -> fits g ->
  (- two31 <= kx < two31)%Z -> (- two31 <= ky < two31)%Z -> (- two31 <= kz < two31)%Z ->
  represents s g -> get s (VPar 0) = kx -> get s (VPar 1) = ky -> get s (VPar 2) = kz ->
  exists s', exec e src_translate_3d s = Some s' /\ represents s' (translate g kx ky kz e).
Proof. exact @translate_3d_tie. Qed.
Print Assumptions C15_source_tie_translate_3d.

(* computeCellLinearIndex_(cellIndexes) = wrapCellIndexes_(cellIndexes).dot(indexCoefficients_) in size_t arithmetic is the
   model's lin (no size_t operation wraps); 2D and 3D *)
Theorem C15_source_tie_linear_index : forall (V : Type) (g : wgrid V) (s : state V) (x y z : nat),
  valid g -> fits g -> frame g s -> in_window g (x, y, z) = true ->
  get s (VArg 0) = Z.of_nat x -> get s (VArg 1) = Z.of_nat y ->
  (g_dim3 g = false -> eval src_linear_index_2d s = Some (Z.of_nat (lin g (x, y, z)))) /\
  (g_dim3 g = true -> get s (VArg 2) = Z.of_nat z -> eval src_linear_index_3d s = Some (Z.of_nat (lin g (x, y, z)))).
Proof.
  intros V g s x y z Hv Hf F Hw A0 A1. apply in_window_spec in Hw. destruct Hw as (Lx & Ly & Lz). split.
  - intros Hd. unfold frame in F. rewrite Hd in F.
    assert (z = 0)%nat by (destruct Hv as (_ & _ & _ & _ & _ & _ & _ & H2 & _); rewrite (H2 Hd) in Lz; lia). subst z.
    apply linear_index_2d; assumption.
  - intros Hd A2. unfold frame in F. rewrite Hd in F. apply linear_index_3d; assumption.
Qed.
Print Assumptions C15_source_tie_linear_index.

(* operator()(cellIndexes) (const and non-const) indexes buffer_ at lin; reading / writing there is g_read / g_write *)
Theorem C15_source_tie_cell_index_2d : forall (V : Type) (g : wgrid V) (s : state V) (x y : nat),
  valid g -> g_dim3 g = false -> fits g -> frame g s -> (x < g_nx g)%nat -> (y < g_ny g)%nat ->
  get s (VArg 0) = Z.of_nat x -> get s (VArg 1) = Z.of_nat y ->
  eval src_cell_index_2d s = Some (Z.of_nat (lin g (x, y, 0%nat))) /\
  eval src_cell_index_const_2d s = Some (Z.of_nat (lin g (x, y, 0%nat))).
Proof. exact @cell_index_2d. Qed.
Theorem C15_source_tie_cell_index_3d : forall (V : Type) (g : wgrid V) (s : state V) (x y z : nat),
  valid g -> g_dim3 g = true -> fits g -> frame g s -> (x < g_nx g)%nat -> (y < g_ny g)%nat -> (z < g_nz g)%nat ->
  get s (VArg 0) = Z.of_nat x -> get s (VArg 1) = Z.of_nat y -> get s (VArg 2) = Z.of_nat z ->
  eval src_cell_index_3d s = Some (Z.of_nat (lin g (x, y, z))) /\
  eval src_cell_index_const_3d s = Some (Z.of_nat (lin g (x, y, z))).
Proof. exact @cell_index_3d. Qed.
Theorem C15_source_tie_cell_access : forall (V : Type) (g : wgrid V) (s : state V) (i : idx),
  represents s g -> in_window g i = true ->
  nth_error (s_buf s) (lin g i) = g_read g i /\
  forall v, represents (set_buf s (set_nth (lin g i) v (s_buf s))) (g_write g i v).
Proof. exact @cell_access. Qed.

(* the constructor (Grid::init, then the member initialisers) establishes the members of a fresh model grid *)
Theorem C15_source_tie_constructor_2d : forall (V : Type) (e : V) (s : state V) nx ny nz (d : V),
  (0 < nx)%nat -> (0 < ny)%nat -> (Z.of_nat nx < 2 ^ 31)%Z -> (Z.of_nat ny < 2 ^ 31)%Z ->
  get s (VArg 0) = Z.of_nat nx -> get s (VArg 1) = Z.of_nat ny ->
  exists s', exec e (SSeq src_init_2d src_ctor_2d) s = Some s' /\ frame (g_init false nx ny nz d) s'.
Proof. exact @ctor_2d. Qed.
Theorem C15_source_tie_constructor_3d : forall (V : Type) (e : V) (s : state V) nx ny nz (d : V),
  (0 < nx)%nat -> (0 < ny)%nat -> (0 < nz)%nat -> (Z.of_nat nx < 2 ^ 31)%Z -> (Z.of_nat ny < 2 ^ 31)%Z -> (Z.of_nat nz < 2 ^ 31)%Z ->
  get s (VArg 0) = Z.of_nat nx -> get s (VArg 1) = Z.of_nat ny -> get s (VArg 2) = Z.of_nat nz ->
  exists s', exec e (SSeq src_init_3d src_ctor_3d) s = Some s' /\ frame (g_init true nx ny nz d) s'.
Proof. exact @ctor_3d. Qed.
Print Assumptions C15_source_tie_constructor_3d.

(* non-vacuity: a concrete object state representing a fresh 3 x 2 grid / a 2 x 2 x 2 grid; and the generated programs run
   on them (a computation, only as a smoke test of the interpreter — the theorems above are the tie) *)
Definition ex_state2 : state Z :=
  {| s_var := fun v => match v with VN 0 => 3 | VN 1 => 2 | VNm1 0 => 2 | VNm1 1 => 1 | VCoef 0 => 1 | VCoef 1 => 3
                                  | VPar 0 => 4 | VPar 1 => (-1) | _ => 0 end%Z;
     s_buf := [10; 11; 12; 13; 14; 15]%Z |}.
Definition ex_grid2 : wgrid Z := with_buf (g_init false 3 2 1 0%Z) [10; 11; 12; 13; 14; 15]%Z.
Example C15_ex_represents_2d : valid ex_grid2 /\ fits ex_grid2 /\ represents ex_state2 ex_grid2.
Proof. split; [|split]; [ repeat split; cbn; try lia; try reflexivity | reflexivity | repeat split; reflexivity ]. Qed.
Example C15_ex_run_2d :
  option_map (fun s => (s_buf s, get s (VOff 0), get s (VOff 1))) (exec (-7)%Z src_translate_2d ex_state2)
  = Some (g_buf (translate ex_grid2 4 (-1) 0 (-7)%Z), 1%Z, 1%Z).
Proof. vm_compute. reflexivity. Qed.

Definition ex_state3 : state Z :=
  {| s_var := fun v => match v with VN _ => 2 | VNm1 _ => 1 | VCoef 0 => 1 | VCoef 1 => 2 | VCoef 2 => 4
                                  | VPar 0 => 1 | VPar 1 => (-3) | VPar 2 => (-1) | _ => 0 end%Z;
     s_buf := [1; 2; 3; 4; 5; 6; 7; 8]%Z |}.
Definition ex_grid3 : wgrid Z := with_buf (g_init true 2 2 2 0%Z) [1; 2; 3; 4; 5; 6; 7; 8]%Z.
Example C15_ex_represents_3d : valid ex_grid3 /\ fits ex_grid3 /\ represents ex_state3 ex_grid3.
Proof. split; [|split]; [ repeat split; cbn; try lia; try reflexivity; try discriminate | reflexivity | repeat split; reflexivity ]. Qed.
Example C15_ex_run_3d :
  option_map (fun s => s_buf s) (exec 0%Z src_translate_3d ex_state3) = Some (g_buf (translate ex_grid3 1 (-3) (-1) 0%Z)).
Proof. vm_compute. reflexivity. Qed.

(* ---- the code before the repairs (documented defects; witnesses replayed on the old implementation) ---- *)
(* stored offset overwritten instead of accumulated: two translations by +1 on 3 cells reported 1, not 2 *)
Definition legacy_offset (n : nat) (k : Z) : Z := ((Z.of_nat n + k) mod two64 mod Z.of_nat n)%Z.
Theorem C15_offset_not_accumulated_refuted : exists n k1 k2, legacy_offset n k2 <> ((k1 + k2) mod Z.of_nat n)%Z.
Proof. exists 3, 1%Z, 1%Z. vm_compute. discriminate. Qed.
(* (n + k) % n in size_t for k < -n *)
Theorem C15_negative_beyond_size_refuted : exists n k, legacy_offset n k <> (k mod Z.of_nat n)%Z.
Proof. exists 3, (-4)%Z. vm_compute. discriminate. Qed.

Example C15_ex_translate :
  let g := fold_left gstep [GWrite (0,0,0) 5%Z; GWrite (1,0,0) 6%Z; GWrite (2,0,0) 7%Z; GTranslate 1 0 0 (-1)%Z;
                            GTranslate 1 0 0 (-2)%Z] (g_init false 3 1 1 0%Z) in
  dump g = ((2,0,0), [Some 7%Z; Some (-1)%Z; Some (-2)%Z]).
Proof. vm_compute. reflexivity. Qed.
