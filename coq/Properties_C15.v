(* Properties_C15.v — C15: scrolling grid keeps surviving cells and blanks entering cells after any scrolls. *)
From Coq Require Import ZArith List Bool Arith Lia.
From Romea Require Import WrapGridModel WrapGridProofs.
Import ListNotations.

(* Refinement, for every grid size (2D and 3D), every valid starting state and EVERY sequence of translations
   and writes: the concrete grid (wrapped offsets + flat buffer + blanking loops) reads, at every in-window cell,
   exactly what the sliding-window spec reads:
     spec_translate w k e = fun i => if i + k is inside the window then w (i + k) else e
     spec_write w i v     = w with i := v
   i.e. a cell that stays inside the window keeps its value, a cell entering the window reads the empty value
   supplied to that translation. *)
Theorem C15_wrap_refines_window : forall (V : Type) (ops : list (gop (V:=V))) g w, valid g -> refines g w ->
  let g' := fold_left gstep ops g in
  valid g' /\ same_shape g g' /\ refines g' (fold_left (sstep g) ops w).
Proof. exact @wrap_refines_window. Qed.
Print Assumptions C15_wrap_refines_window.

(* the reported index offset = accumulated offset modulo the grid size (size_t/int wrap-around included) *)
Theorem C15_offset_is_sum_mod : forall (V : Type) (ops : list (gop (V:=V))) g,
  valid g -> g_ox g = 0 -> g_oy g = 0 -> g_oz g = 0 ->
  let g' := fold_left gstep ops g in
  let '(sx, sy, sz) := fold_left acc_k ops (0, 0, 0)%Z in
  Z.of_nat (g_ox g') = (sx mod Z.of_nat (g_nx g))%Z /\
  Z.of_nat (g_oy g') = (sy mod Z.of_nat (g_ny g))%Z /\
  (g_dim3 g = true -> Z.of_nat (g_oz g') = (sz mod Z.of_nat (g_nz g))%Z).
Proof. exact @offset_is_sum_mod. Qed.
Print Assumptions C15_offset_is_sum_mod.

(* one translation, spelled out per axis (what the refinement is built from) *)
Theorem C15_translate_x_read : forall (V : Type) (g : wgrid V) k e x y z, valid g -> in_window g (x, y, z) = true ->
  g_read (translate_x g k e) (x, y, z) = if inb (g_nx g) x k then g_read g (shift x k, y, z) else Some e.
Proof. exact @translate_x_read. Qed.
Theorem C15_translate_y_read : forall (V : Type) (g : wgrid V) k e x y z, valid g -> in_window g (x, y, z) = true ->
  g_read (translate_y g k e) (x, y, z) = if inb (g_ny g) y k then g_read g (x, shift y k, z) else Some e.
Proof. exact @translate_y_read. Qed.
Theorem C15_translate_z_read : forall (V : Type) (g : wgrid V) k e x y z, valid g -> in_window g (x, y, z) = true ->
  g_read (translate_z g k e) (x, y, z) = if inb (g_nz g) z k then g_read g (x, y, shift z k) else Some e.
Proof. exact @translate_z_read. Qed.
Print Assumptions C15_translate_z_read.

(* the size_t expression (offset + n + k % (int)n) % n computes (offset + k) mod n, also for k < -n *)
Theorem C15_new_offset_spec : forall off n k, 0 < n -> off < n -> (Z.of_nat n < 2 ^ 31)%Z ->
  Z.of_nat (new_offset off n k) = ((Z.of_nat off + k) mod Z.of_nat n)%Z.
Proof. exact new_offset_spec. Qed.

(* a freshly constructed grid meets the hypotheses (non-vacuity of valid/refines) *)
Theorem C15_init_valid : forall (V : Type) dim3 nx ny nz (d : V), 0 < nx -> 0 < ny -> 0 < nz ->
  (Z.of_nat nx < 2 ^ 31)%Z -> (Z.of_nat ny < 2 ^ 31)%Z -> (Z.of_nat nz < 2 ^ 31)%Z ->
  valid (g_init dim3 nx ny nz d) /\ refines (g_init dim3 nx ny nz d) (fun _ => d).
Proof. exact @init_valid. Qed.
Print Assumptions C15_init_valid.

(* ---- the code before the repairs (documented defects; witnesses replayed on the old implementation) ---- *)
(* stored offset overwritten instead of accumulated: two translations by +1 on 3 cells reported 1, not 2 *)
Definition legacy_offset (n : nat) (k : Z) : Z := ((Z.of_nat n + k) mod two64 mod Z.of_nat n)%Z.
Theorem C15_offset_not_accumulated_refuted : exists n k1 k2, legacy_offset n k2 <> ((k1 + k2) mod Z.of_nat n)%Z.
Proof. exists 3, 1%Z, 1%Z. vm_compute. discriminate. Qed.
(* (n + k) % n in size_t for k < -n *)
Theorem C15_negative_beyond_size_refuted : exists n k, legacy_offset n k <> (k mod Z.of_nat n)%Z.
Proof. exists 3, (-4)%Z. vm_compute. discriminate. Qed.

Example C15_ex_translate :
  let g := fold_left gstep [GWrite (0,0,0) 5%Z; GWrite (1,0,0) 6%Z; GWrite (2,0,0) 7%Z; GTranslate 1 0 0 (-1)%Z;
                            GTranslate 1 0 0 (-2)%Z] (g_init false 3 1 1 0%Z) in
  dump g = ((2,0,0), [Some 7%Z; Some (-1)%Z; Some (-2)%Z]).
Proof. vm_compute. reflexivity. Qed.
