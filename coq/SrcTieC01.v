(* SrcTieC01.v — ECEFConverter::toECEF and ECEFConverter::toWGS84 (the `while (delta > EPSILON)` latitude loop as a
   fuelled fix) regenerated from the clang AST of the current source (gen/SrcFunsC01.v) equal GeodesyModel.toECEF and
   GeodesyModel.toWGS84, for every fuel. *)
From Coq Require Import Reals ZArith Lra.
From Romea Require Import Num NumR GeodesyModel SrcTie.
From Romea.gen Require Import RepoConstants SrcFunsC01.
Local Open Scope R_scope.

(* EarthEllipsoid(A, B): the member initialisers (a, b, e2, e — in initialisation order) are the model's make_ellipsoid,
   for EVERY numeric dictionary (the two terms are convertible): the executed binary64 instance included. *)
Lemma tie_makeEllipsoid (T : Type) (N : NumOps T) (A B : T) :
  src_makeEllipsoid N A B = (let el := make_ellipsoid N A B in (el_a el, el_b el, el_e2 el, el_e el)).
Proof. reflexivity. Qed.

Lemma tie_toECEF (el : ellipsoid (T:=R)) (g : geodetic (T:=R)) :
  src_toECEF ROps (el_a el) (el_e2 el) (g_alt g) (g_lat g) (g_lon g)
  = (vx (toECEF ROps el g), vy (toECEF ROps el g), vz (toECEF ROps el g)).
Proof.
  unfold src_toECEF, toECEF, primeVertical. cbv zeta. cbn [vx vy vz]. dict. lits. req.
Qed.

(* ---- ECEFConverter::toWGS84 ---- *)
(* the generated loop also carries `delta`; the model's lat_loop returns the latitude only: compare first components *)
Lemma tie_ecefToWGS84 fuel (el : ellipsoid (T:=R)) (p : vec3 (T:=R)) :
  src_ecefToWGS84 ROps fuel (vx p) (vy p) (vz p) (el_a el) (el_e2 el)
  = match GeodesyModel.toWGS84 ROps fuel el p with None => None | Some g => Some (g_lat g, g_lon g, g_alt g) end.
Proof.
  unfold src_ecefToWGS84, GeodesyModel.toWGS84. cbv zeta.
  match goal with |- match ?F fuel ?x0 ?d0 with _ => _ end = _ =>
    assert (H : forall fu x d, option_map fst (F fu x d) =
                lat_loop ROps fu el (vz p) (hnorm ROps (vx p) (vy p)) x d) end.
  { induction fu as [|f IH]; intros x d.
    - cbv beta iota fix zeta. cbn [lat_loop]. unfold ecef_eps. dict.
      destruct (Rltb _ d); reflexivity.
    - cbv beta iota fix zeta. cbn [lat_loop]. cbv zeta. unfold ecef_eps. dict.
      destruct (Rltb _ d); [|reflexivity].
      rewrite IH. unfold lat_body, hnorm. dict. lits. req. }
  match goal with |- match ?F fuel ?x0 ?d0 with _ => _ end = _ =>
    specialize (H fuel x0 d0); destruct (F fuel x0 d0) as [[l d]|] end;
    cbn [option_map fst] in H; revert H;
    unfold lat_first_guess, longitude_of, altitude_of, hnorm, ecef_initial_delta_m, ecef_initial_delta_e; dict; lits;
    intros H;
    match goal with H : _ = lat_loop _ _ _ _ _ ?a ?b |- context [lat_loop _ _ _ _ _ ?a' ?b'] =>
      replace a' with a by req; replace b' with b by req end;
    rewrite <- H; cbn [g_lat g_lon g_alt]; req.
Qed.
