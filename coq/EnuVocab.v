(* EnuVocab.v — the VOCABULARY of translate/tr_C02_enu.py: which Eigen / struct operation of
   src/geodesy/ENUConverter.cpp is read as which operation on the data of coq/EnuModel.v.  This reading is part of the
   trusted base of C02 (like the Eigen inverse of EnuModel.v it is modelled, not verified; it is exercised by the
   correspondence run).  Definitions only; everything is polymorphic in the numeric dictionary.

     C++                                                   here
     ----------------------------------------------------  ---------------------------------------------------------
     Eigen::Affine3d  (Transform<double,3,Affine>)         affine = (linear part : mat3, translation : vec3)
     Eigen::Affine3d::Identity()                           aff_identity = (mat3_id, (0,0,0))
     a.translation()       (read)                          aff_translation a
     a.translation() = v                                   aff_set_translation a v
     a.linear()            (read)                          aff_linear a
     a.linear() = m                                        aff_set_linear a m
     a.linear().col(k) << x, y, z     (k literal 0,1,2)    aff_set_col0/1/2 a (mkV3 x y z)   (the other columns stay)
     a * p                 (p a Vector3d)                  aff_apply a p   = linear*p + translation (EnuModel.enu_to_ecef)
     a.inverse()           (default traits = Affine)       aff_inverse a   = (inverse(linear), -(inverse(linear)*translation))
                                                                            with EnuModel.mat3_inverse (Eigen's cofactor inverse)
     (Eigen::Vector3d() << x, y, z).finished()             mkV3 x y z      (in this order)
     Eigen::Vector3d(x, y, z)                              mkV3 x y z
     GeodeticCoordinates()  / member init  g_()            geo_zero = mkGeo 0 0 0   (value-initialisation of the aggregate)
     g.latitude / g.longitude / g.altitude                 g_lat g / g_lon g / g_alt g
     struct WGS84Coordinates {latitude, longitude}         wgs84 = mkWgs w_lat w_lon
     makeGeodeticCoordinates(w, h)                         mkGeo (w_lat w) (w_lon w) h      (GeodeticCoordinates.cpp: packs its arguments)
     makeGeodeticCoordinates(lat, lon, h)                  mkGeo lat lon h
     ecefConverter_.toECEF(g) / .toWGS84(p)                function arguments F_toECEF / F_toWGS84 of the generated terms
                                                           (const methods of a member that no method assigns; instantiated in
                                                           SrcTieC02State.v with GeodesyModel.toECEF / toWGS84 on GRS80, themselves
                                                           tied to ECEFConverter.cpp in SrcTieC01.v)                              *)
From Coq Require Import ZArith.
From Romea Require Import Num GeodesyModel EnuModel.

Section Vocab.
Context {T : Type} (N : NumOps T).

Record wgs84 := mkWgs { w_lat : T; w_lon : T }.

Definition affine : Type := (mat3 (T:=T) * vec3 (T:=T))%type.

Definition geo_zero : geodetic (T:=T) := mkGeo (nzero N) (nzero N) (nzero N).
Definition vec_zero : vec3 (T:=T) := mkV3 (nzero N) (nzero N) (nzero N).

Definition aff_identity : affine := (mat3_id N, vec_zero).
Definition aff_linear (a : affine) : mat3 := fst a.
Definition aff_translation (a : affine) : vec3 := snd a.
Definition aff_set_translation (a : affine) (v : vec3 (T:=T)) : affine := (fst a, v).
Definition aff_set_linear (a : affine) (m : mat3 (T:=T)) : affine := (m, snd a).

Definition mat3_set_col0 (m : mat3 (T:=T)) (v : vec3 (T:=T)) : mat3 :=
  mkM3 (vx v) (m01 m) (m02 m) (vy v) (m11 m) (m12 m) (vz v) (m21 m) (m22 m).
Definition mat3_set_col1 (m : mat3 (T:=T)) (v : vec3 (T:=T)) : mat3 :=
  mkM3 (m00 m) (vx v) (m02 m) (m10 m) (vy v) (m12 m) (m20 m) (vz v) (m22 m).
Definition mat3_set_col2 (m : mat3 (T:=T)) (v : vec3 (T:=T)) : mat3 :=
  mkM3 (m00 m) (m01 m) (vx v) (m10 m) (m11 m) (vy v) (m20 m) (m21 m) (vz v).
Definition aff_set_col0 (a : affine) (v : vec3 (T:=T)) : affine := (mat3_set_col0 (fst a) v, snd a).
Definition aff_set_col1 (a : affine) (v : vec3 (T:=T)) : affine := (mat3_set_col1 (fst a) v, snd a).
Definition aff_set_col2 (a : affine) (v : vec3 (T:=T)) : affine := (mat3_set_col2 (fst a) v, snd a).

Definition aff_apply (a : affine) (p : vec3 (T:=T)) : vec3 := vec3_add N (mat3_mulv N (fst a) p) (snd a).
Definition aff_inverse (a : affine) : affine :=
  let li := mat3_inverse N (fst a) in (li, vec3_neg N (mat3_mulv N li (snd a))).

(* the data members of ENUConverter other than ecefConverter_, in the order the generated terms use (by name):
   enu2ecef_, isAnchored_, wgs84Anchor_ *)
Definition enu_fields : Type := (affine * bool * geodetic (T:=T))%type.

End Vocab.

Arguments mkWgs {T} _ _.
Arguments w_lat {T} _. Arguments w_lon {T} _.
