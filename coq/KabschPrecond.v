(* KabschPrecond.v — C04: isotropic preconditioning (the same scale c <> 0 on both sets, PreconditionedPointSet(points, c))
   followed by the division of the translation column by the scale: the matrix returned by the preconditioned [find]
   overloads is again a least-squares optimal proper rigid motion FOR THE ORIGINAL pairs, and on exact data of rank >= d-1 it
   is (R0, tau0) — the same matrix as without preconditioning. *)
From Coq Require Import Reals List Arith ZArith Lia Lra Bool Psatz.
From Romea Require Import Num NumR LinAlgBModel LinAlgBProofs LsProofs KabschModel KabschProofs KabschProper KabschLists.
Import ListNotations.
Local Open Scope R_scope.

Local Notation mg := (mget ROps).
Local Notation vg := (vget ROps).

Definition scale_pt (c : R) (p : list R) : list R := map (fun x => x * c) p.
Definition scale_pairs (c : R) (pairs : list (list R * list R)) : list (list R * list R) :=
  map (fun st => (scale_pt c (fst st), scale_pt c (snd st))) pairs.

Lemma vg_scale_pt c p i : vg (scale_pt c p) i = vg p i * c.
Proof.
  unfold vget, scale_pt. rsimpl. revert i. induction p as [|x p IH]; intros [|i]; cbn [map nth]; try ring. apply IH.
Qed.

Lemma nth_scale_pairs c pairs n :
  nth n (scale_pairs c pairs) ([], []) = (scale_pt c (fst (nth n pairs ([], []))), scale_pt c (snd (nth n pairs ([], [])))).
Proof.
  unfold scale_pairs.
  change (@nil R, @nil R) with ((fun st : list R * list R => (scale_pt c (fst st), scale_pt c (snd st))) ([], [])) at 1.
  now rewrite map_nth.
Qed.

Lemma p_N_scale c pairs : p_N (scale_pairs c pairs) = p_N pairs.
Proof. unfold p_N, scale_pairs. apply map_length. Qed.
Lemma p_src_scale c pairs n i : p_src (scale_pairs c pairs) n i = p_src pairs n i * c.
Proof. unfold p_src. rewrite nth_scale_pairs. cbn [fst]. apply vg_scale_pt. Qed.
Lemma p_tgt_scale c pairs n i : p_tgt (scale_pairs c pairs) n i = p_tgt pairs n i * c.
Proof. unfold p_tgt. rewrite nth_scale_pairs. cbn [snd]. apply vg_scale_pt. Qed.

Lemma p_sm_scale c ps pairs i : (i < ps)%nat -> vg (p_sm ps (scale_pairs c pairs)) i = vg (p_sm ps pairs) i * c.
Proof.
  intros Hi. rewrite !p_sm_get by exact Hi. rewrite p_N_scale.
  rewrite (Rsum_ext (p_N pairs) _ (fun n => p_src pairs n i * c)) by (intros; apply p_src_scale).
  rewrite Rsum_scal_r. unfold Rdiv. ring.
Qed.

Lemma Sc_scale c ps pairs n i : (i < ps)%nat -> Sc ps (scale_pairs c pairs) n i = Sc ps pairs n i * c.
Proof. intros Hi. unfold Sc. rewrite p_src_scale, p_sm_scale by exact Hi. ring. Qed.

(* the cost of (Q, t) on the scaled pairs is c^2 times the cost of (Q, t / c) on the original pairs *)
Lemma fcost_scale d c pairs Q t : c <> 0 ->
  fcost d (scale_pairs c pairs) Q t = c * c * fcost d pairs Q (fun i => t i / c).
Proof.
  intros Hc. unfold fcost. rewrite p_N_scale. rewrite <- Rsum_scal_l. apply Rsum_ext. intros n _.
  rewrite <- Rsum_scal_l. apply Rsum_ext. intros i _.
  rewrite (Rsum_ext d (fun j => Q i j * p_src (scale_pairs c pairs) n j) (fun j => Q i j * p_src pairs n j * c))
    by (intros; rewrite p_src_scale; ring).
  rewrite Rsum_scal_r, p_tgt_scale. field. exact Hc.
Qed.

Lemma rank_scale d c ps pairs : (d <= ps)%nat -> c <> 0 ->
  rank_ge_dm1 d (p_N pairs) (Sc ps pairs) -> rank_ge_dm1 d (p_N (scale_pairs c pairs)) (Sc ps (scale_pairs c pairs)).
Proof.
  intros Hps Hc. rewrite p_N_scale. destruct d as [|[|[|[|d]]]]; try (intros Hf; cbn in Hf; contradiction).
  - cbn [rank_ge_dm1]. intros (n & k & Hn & Hk & Hnz). exists n, k. repeat split; try assumption.
    rewrite Sc_scale by lia. intros Hz. apply Rmult_integral in Hz. tauto.
  - cbn [rank_ge_dm1]. intros (n1 & n2 & k & Hn1 & Hn2 & Hk & Hnz). exists n1, n2, k. repeat split; try assumption.
    assert (E : cross3 ROps (Sc ps (scale_pairs c pairs) n1) (Sc ps (scale_pairs c pairs) n2) k
              = c * c * cross3 ROps (Sc ps pairs n1) (Sc ps pairs n2) k).
    { unfold cross3. rsimpl. rewrite !Sc_scale by lia. destruct k as [|[|k]]; ring. }
    rewrite E. intros Hz. apply Rmult_integral in Hz. destruct Hz as [Hz|Hz]; [|tauto].
    apply Rmult_integral in Hz. tauto.
Qed.

(* ---- H.block(0,d,d,1) /= m00 ---- *)
Lemma unscale_block d Hm m i j : (i < d)%nat -> (j < d)%nat -> mg (unscale_translation ROps d Hm m) i j = mg Hm i j.
Proof.
  intros Hi Hj. unfold unscale_translation. rewrite mget_mtab by lia.
  replace (Nat.eqb j d) with false by (symmetry; apply Nat.eqb_neq; lia). reflexivity.
Qed.
Lemma unscale_col d Hm m i : (i < d)%nat -> mg (unscale_translation ROps d Hm m) i d = mg Hm i d / m.
Proof.
  intros Hi. unfold unscale_translation. rewrite mget_mtab by lia.
  rewrite Nat.eqb_refl. replace (Nat.ltb i d) with true by (symmetry; apply Nat.ltb_lt; lia). reflexivity.
Qed.

Section Precond.
Variable svd_of : nat -> list (list R) -> (list (list R) * list R) * list (list R).
Variables (d ps : nat) (pairs : list (list R * list R)) (c : R).
Hypothesis Hd : (d = 2 \/ d = 3)%nat.
Hypothesis Hps : (d <= ps)%nat.
Hypothesis Hne : pairs <> [].
Hypothesis Hc0 : c <> 0.

Let spairs := scale_pairs c pairs.
Let cov' := cross_cov ROps d spairs (p_sm ps spairs) (p_tm ps spairs).
Let H' := estimate_pairs ROps svd_of true d ps spairs.
Let H := unscale_translation ROps d H' (precond_matrix00 ROps c).
Hypothesis Hc : svd_contract d cov' (svd_of d cov').

Lemma spairs_ne : spairs <> [].
Proof. unfold spairs, scale_pairs. destruct pairs; [congruence|discriminate]. Qed.

Theorem precond_estimate_is_proper_rotation : is_orth d (mg H) /\ fdet ROps d (mg H) = 1.
Proof.
  destruct (estimate_is_proper_rotation svd_of d ps spairs Hd Hc) as (Ho & Hdet). split.
  - intros a b Ha Hb. rewrite (Rsum_ext d _ (fun l => mg H' l a * mg H' l b)) by (intros l Hl; unfold H; now rewrite !unscale_block).
    now apply Ho.
  - rewrite (fdet_ext d (mg H) (mg H') Hd) by (intros; now apply unscale_block). exact Hdet.
Qed.

(* the matrix returned after preconditioning is least-squares optimal on the ORIGINAL pairs *)
Theorem precond_estimate_optimal Q tau : is_orth d Q -> fdet ROps d Q = 1 ->
  fcost d pairs (mg H) (fun i => mg H i d) <= fcost d pairs Q tau.
Proof.
  intros HQ HdQ.
  rewrite (fcost_ext d pairs (mg H) (mg H') (fun i => mg H i d) (fun i => mg H' i d / c)).
  2:{ intros; now apply unscale_block. }
  2:{ intros i Hi. unfold H. rewrite unscale_col by exact Hi. unfold precond_matrix00. rsimpl. f_equal. ring. }
  pose proof (estimate_optimal svd_of d ps spairs Hd Hps spairs_ne Hc Q (fun i => tau i * c) HQ HdQ) as Hopt.
  fold H' in Hopt. unfold spairs in Hopt. rewrite !fcost_scale in Hopt by exact Hc0.
  rewrite (fcost_ext d pairs Q Q (fun i => tau i * c / c) tau (fun _ _ _ _ => eq_refl)) in Hopt by (intros; field; exact Hc0).
  assert (0 < c * c) by nra. nra.
Qed.

(* exact data of rank >= d-1: (R0, tau0) is recovered, with or without preconditioning *)
Theorem precond_estimate_exact_recovery R0 tau0 : is_orth d R0 -> fdet ROps d R0 = 1 ->
  rank_ge_dm1 d (p_N pairs) (Sc ps pairs) ->
  (forall n i, (n < p_N pairs)%nat -> (i < d)%nat ->
     p_tgt pairs n i = Rsum d (fun j => R0 i j * p_src pairs n j) + tau0 i) ->
  (forall i j, (i < d)%nat -> (j < d)%nat -> mg H i j = R0 i j) /\ (forall i, (i < d)%nat -> mg H i d = tau0 i).
Proof.
  intros H0 Hd0 Hr Hex.
  destruct (estimate_exact_recovery svd_of d ps spairs Hd Hps spairs_ne Hc R0 (fun i => tau0 i * c) H0 Hd0) as (HB & HT).
  - now apply rank_scale.
  - intros n i Hn Hi. unfold spairs in *. rewrite p_N_scale in Hn. rewrite p_tgt_scale, (Hex n i Hn Hi).
    rewrite (Rsum_ext d (fun j => R0 i j * p_src (scale_pairs c pairs) n j) (fun j => R0 i j * p_src pairs n j * c))
      by (intros; rewrite p_src_scale; ring).
    rewrite Rsum_scal_r. ring.
  - split.
    + intros i j Hi Hj. unfold H. rewrite unscale_block by assumption. unfold H'. now apply HB.
    + intros i Hi. unfold H. rewrite unscale_col by exact Hi. unfold H'. rewrite (HT i Hi).
      unfold precond_matrix00. rsimpl. field. exact Hc0.
Qed.

End Precond.

(* ---- the preconditioned [find] overloads with the same scale on both sets reduce to the above ---- *)
Lemma precondition_is_scale c pts : precondition ROps c pts = map (scale_pt c) pts.
Proof. reflexivity. Qed.

Lemma combine_scale c (src tgt : list (list R)) :
  combine (map (scale_pt c) src) (map (scale_pt c) tgt) = scale_pairs c (combine src tgt).
Proof.
  revert tgt. induction src as [|s src IH]; intros [|t tgt]; cbn [map combine scale_pairs]; try reflexivity.
  f_equal. apply IH.
Qed.

Theorem find_aligned_pre_eq svd_of fixed d ps c src tgt : length src = length tgt ->
  find_aligned_pre ROps svd_of fixed d ps c c src tgt
  = Some (unscale_translation ROps d (estimate_pairs ROps svd_of fixed d ps (scale_pairs c (combine src tgt))) (precond_matrix00 ROps c)).
Proof.
  intros Hl. unfold find_aligned_pre, estimate_aligned. rewrite !precondition_is_scale, !map_length, Hl, Nat.eqb_refl.
  now rewrite combine_scale.
Qed.

Theorem find_aligned_eq svd_of fixed d ps src tgt : length src = length tgt ->
  find_aligned ROps svd_of fixed d ps src tgt = Some (estimate_pairs ROps svd_of fixed d ps (combine src tgt)).
Proof. intros Hl. unfold find_aligned, estimate_aligned. now rewrite Hl, Nat.eqb_refl. Qed.

Lemma nth_scale_pts c pts k : nth k (map (scale_pt c) pts) [] = scale_pt c (nth k pts []).
Proof. change (@nil R) with (scale_pt c []) at 1. apply map_nth. Qed.

Theorem find_corr_pre_eq svd_of fixed d ps c src tgt corr prs : pairs_of_corr src tgt corr = Some prs ->
  find_corr_pre ROps svd_of fixed d ps c c src tgt corr
  = Some (unscale_translation ROps d (estimate_pairs ROps svd_of fixed d ps (scale_pairs c prs)) (precond_matrix00 ROps c)).
Proof.
  unfold find_corr_pre, estimate_corr, pairs_of_corr. rewrite !precondition_is_scale, !map_length.
  destruct (forallb _ corr); [|discriminate]. intros E. injection E as <-.
  do 3 f_equal. unfold scale_pairs. rewrite map_map. apply map_ext. intros k. cbn [fst snd].
  now rewrite !nth_scale_pts.
Qed.

Theorem find_corr_eq svd_of fixed d ps src tgt corr prs : pairs_of_corr src tgt corr = Some prs ->
  find_corr ROps svd_of fixed d ps src tgt corr = Some (estimate_pairs ROps svd_of fixed d ps prs).
Proof. unfold find_corr, estimate_corr. now intros ->. Qed.
