(* RateFloat.v — C17 at the floating-point level: the published rate, the window size and the time-out test of the
   rate monitor in IEEE-754 binary64 (double).
   The SAME generic model (RateModel.v: rate_of_sum, window_size, duration_to_second, rm_timeout) is instantiated at the
   rounded dictionary B64Ops of GridMapFloat.v: every / and * and every integer -> double conversion and decimal literal
   is the real value followed by ONE rounding to nearest-even in FLT(-1074, 53); comparisons and truncation are exact.
   The stamps, the periods and the running sum are integers in the code (long long nanoseconds) and in the model (Z).

   What is proved, for a window sum 0 < sum < 2^53 ns (104 days) and a window 4 <= w <= 64
   (ideal := w * 1e9 / sum, the real-number rate):
     * rate_b64_unfold      : the literal 1e9, the sum and the window convert exactly; two roundings remain:
                              rate = rnd64 (1e9 / rnd64 (sum / w));
     * rate_b64_rel_error   : rate = ideal * (1 + d) with |d| <= 3 * 2^-53  (and the absolute form rate_b64_abs_error);
     * rate_b64_pow2_window : for w in {4, 8, 16, 32, 64} the inner quotient is exact, so the published rate is the
                              correctly rounded ideal rate (ONE rounding, |d| <= 2^-53: rate_b64_pow2_rel_error);
     * rate_b64_exact       : if moreover the ideal rate is a double, it is published exactly (4 s / window 4 -> 1 Hz,
                              0.4 s / window 4 -> 10 Hz);
     * window_b64_eq_real   : the window size computed in double from a double expected rate is the real-number one
                              (2 * r is exact);
     * timeout_b64_eq_real  : the time-out test "silence > 0.5 s" computed in double equals the real-number one (and
                              is "silence > 500000000 ns") for |silence| < 2^53 ns: 0.5 is a double and the rounded
                              quotient d / 1e9 cannot cross it.

   What stays trusted: that the hardware executes each C++ operation as one rounding to nearest-even of the exact
   result (no x87 excess precision, no fused multiply-add contraction).  The format has no largest exponent: overflow is
   not modelled; this is harmless here since every quantity involved (sum < 2^53, 1e9, w <= 64, the rate <= 64e9,
   2 * r for an expected rate r < 2^1023) is far below the binary64 overflow threshold 2^1024 (all but 2 * r are
   below 2^64), where the unbounded-exponent rounding coincides with IEEE-754.  Integer overflow of the 64-bit stamps
   is outside this file (see RateModel.v). *)
From Coq Require Import Reals ZArith List Bool Lra Lia.
From Flocq Require Import Core Relative.
From Romea Require Import Num NumR DiagModel RateModel GridMapFloat AnglesFloat.
From Romea.gen Require Import RepoConstants.
Local Open Scope R_scope.

Local Instance prec53_rate : Prec_gt_0 53.
Proof. now unfold Prec_gt_0. Qed.

Local Notation bp := (bpow radix2).

(* ---------- representable numbers ---------- *)
Lemma b64_IZR k : (Z.abs k < 2 ^ 53)%Z -> b64 (IZR k).
Proof.
  intros H. apply (fmt_dyadic 53 (-1074) (IZR k) k 0); [simpl bpow; ring|exact H|lia].
Qed.

Lemma b64_1e9 : b64 1000000000.
Proof. apply (b64_IZR 1000000000). simpl; lia. Qed.

Lemma b64_double r : b64 r -> b64 (2 * r).
Proof.
  unfold b64, ffmt. intros F. apply FLT_format_generic in F; [|exact prec53_rate].
  destruct F as [f Hx Hm He]. apply generic_format_FLT.
  exists (Float radix2 (Fnum f) (Fexp f + 1)).
  - rewrite Hx. unfold F2R. cbn [Fnum Fexp]. rewrite bpow_plus.
    replace (bpow radix2 1) with 2 by (simpl; lra). ring.
  - exact Hm.
  - cbn [Fexp]. lia.
Qed.

Lemma u53_val : / 2 * bp (- (53) + 1) = bp (-53).
Proof. change (/ 2) with (bp (-1)). rewrite <- bpow_plus. reflexivity. Qed.

Lemma bp_m53 : bp (-53) = / 9007199254740992.
Proof. simpl; lra. Qed.

(* one rounding of a number above the subnormal range: relative error at most 2^-53 *)
Lemma rnd64_rel x : bp (-1022) <= Rabs x -> exists e, Rabs e <= bp (-53) /\ rnd64 x = x * (1 + e).
Proof.
  intros H.
  destruct (relative_error_N_FLT_ex radix2 (-1074) 53 prec53_rate (fun z => negb (Z.even z)) x H) as (e & He & Hx).
  exists e. rewrite u53_val in He. split; [exact He|exact Hx].
Qed.

Lemma bp_m1022_le_64th : bp (-1022) <= / 64.
Proof. replace (/ 64) with (bp (-6)) by (simpl; lra). apply bpow_le. lia. Qed.

Lemma bp_m1022_le_u : bp (-1022) <= / 9007199254740992.
Proof. rewrite <- bp_m53. apply bpow_le. lia. Qed.

(* ====================================================================================================
   (1) the published rate: two roundings
   ==================================================================================================== *)
Lemma rate_b64_raw sum w :
  rate_of_sum B64Ops sum w = rnd64 (rnd64 (1 * powerRZ 10 9) / rnd64 (rnd64 (IZR sum) / rnd64 (IZR w))).
Proof. reflexivity. Qed.

Lemma lit_1e9 : 1 * powerRZ 10 9 = 1000000000.
Proof. simpl; lra. Qed.

Lemma rate_b64_unfold : forall sum w, (0 < sum < 2 ^ 53)%Z -> (4 <= w <= 64)%Z ->
  rate_of_sum B64Ops sum w = rnd64 (1000000000 / rnd64 (IZR sum / IZR w)).
Proof.
  intros sum w Hs Hw. rewrite rate_b64_raw, lit_1e9.
  rewrite (rnd64_id 1000000000 b64_1e9).
  rewrite (rnd64_id (IZR sum)) by (apply b64_IZR; lia).
  rewrite (rnd64_id (IZR w)) by (apply b64_IZR; change (2 ^ 53)%Z with 9007199254740992%Z; lia).
  reflexivity.
Qed.

(* real-number bounds used below *)
Lemma sum_w_bounds sum w : (0 < sum < 2 ^ 53)%Z -> (4 <= w <= 64)%Z ->
  1 <= IZR sum <= 9007199254740992 /\ 4 <= IZR w <= 64.
Proof.
  intros [S1 S2] [W1 W2]. change (2 ^ 53)%Z with 9007199254740992%Z in S2.
  assert (S1' : (1 <= sum)%Z) by lia. apply IZR_le in S1', W1, W2. apply IZR_lt in S2. lra.
Qed.

(* ====================================================================================================
   (2) relative error of the published rate: at most 3 * 2^-53
   ==================================================================================================== *)
Lemma quot_err e1 e2 u : 0 < u <= / 1024 -> Rabs e1 <= u -> Rabs e2 <= u ->
  Rabs ((1 + e2) / (1 + e1) - 1) <= 3 * u.
Proof.
  intros [U0 U1] H1 H2. apply Rabs_le_inv in H1, H2.
  assert (P : 0 < 1 + e1) by lra.
  replace ((1 + e2) / (1 + e1) - 1) with ((e2 - e1) / (1 + e1)) by (field; lra).
  apply Rabs_le. split.
  - apply div_ge_l; [exact P|]. nra.
  - apply div_le_l; [exact P|]. nra.
Qed.

Lemma rate_b64_rel_error : forall sum w, (0 < sum < 2 ^ 53)%Z -> (4 <= w <= 64)%Z ->
  exists d, Rabs d <= 3 * bpow radix2 (-53) /\
            rate_of_sum B64Ops sum w = (IZR w * 1000000000 / IZR sum) * (1 + d).
Proof.
  intros sum w Hs Hw. rewrite (rate_b64_unfold sum w Hs Hw).
  destruct (sum_w_bounds sum w Hs Hw) as [[S1 S2] [W1 W2]].
  set (S := IZR sum) in *. set (W := IZR w) in *. set (q := S / W).
  assert (Q1 : / 64 <= q) by (apply div_ge_l; lra).
  assert (Q2 : q <= 9007199254740992) by (apply div_le_l; nra).
  (* first rounding *)
  destruct (rnd64_rel q) as (e1 & He1 & Hr1).
  { rewrite Rabs_pos_eq by lra. pose proof bp_m1022_le_64th. lra. }
  assert (R1 : / 64 <= rnd64 q).
  { apply rnd64_ge; [|exact Q1]. apply (fmt_dyadic 53 (-1074) (/ 64) 1 (-6)); [simpl; lra|simpl; lia|lia]. }
  assert (R2 : rnd64 q <= 9007199254740992).
  { apply rnd64_le; [|exact Q2]. apply (fmt_dyadic 53 (-1074) _ 1 53); [simpl; lra|simpl; lia|lia]. }
  set (p := 1000000000 / rnd64 q).
  assert (P1 : / 9007199254740992 <= p) by (apply div_ge_l; lra).
  (* second rounding *)
  destruct (rnd64_rel p) as (e2 & He2 & Hr2).
  { rewrite Rabs_pos_eq by lra. pose proof bp_m1022_le_u. lra. }
  assert (U : 0 < bp (-53) <= / 1024) by (rewrite bp_m53; lra).
  assert (E1 : 0 < 1 + e1) by (apply Rabs_le_inv in He1; lra).
  exists ((1 + e2) / (1 + e1) - 1). split; [apply quot_err with (1 := U); assumption|].
  rewrite Hr2. unfold p. rewrite Hr1. unfold q. field. repeat split; lra.
Qed.

Lemma rate_b64_abs_error : forall sum w, (0 < sum < 2 ^ 53)%Z -> (4 <= w <= 64)%Z ->
  Rabs (rate_of_sum B64Ops sum w - IZR w * 1000000000 / IZR sum)
  <= 3 * bpow radix2 (-53) * (IZR w * 1000000000 / IZR sum).
Proof.
  intros sum w Hs Hw. destruct (rate_b64_rel_error sum w Hs Hw) as (d & Hd & E). rewrite E.
  destruct (sum_w_bounds sum w Hs Hw) as [[S1 S2] [W1 W2]].
  assert (I : 0 < IZR w * 1000000000 / IZR sum).
  { apply Rdiv_lt_0_compat; nra. }
  set (ideal := IZR w * 1000000000 / IZR sum) in *.
  replace (ideal * (1 + d) - ideal) with (ideal * d) by ring.
  rewrite Rabs_mult, (Rabs_pos_eq ideal) by lra. nra.
Qed.

(* ====================================================================================================
   (3) power-of-two windows: ONE rounding, the published rate is the correctly rounded ideal rate
   ==================================================================================================== *)
Lemma pow2_window_range k w : (2 <= k <= 6)%Z -> w = (2 ^ k)%Z -> (4 <= w <= 64)%Z.
Proof.
  intros Hk ->. assert (C : (k = 2 \/ k = 3 \/ k = 4 \/ k = 5 \/ k = 6)%Z) by lia.
  destruct C as [-> | [-> | [-> | [-> | ->]]]]; simpl; lia.
Qed.

Lemma pow2_quot_b64 sum k : (0 < sum < 2 ^ 53)%Z -> (2 <= k <= 6)%Z -> b64 (IZR sum / IZR (2 ^ k)).
Proof.
  intros Hs Hk. apply (fmt_dyadic 53 (-1074) _ sum (- k)); [|lia|lia].
  change (2 ^ k)%Z with (radix2 ^ k)%Z. rewrite IZR_Zpower by lia. rewrite bpow_opp. reflexivity.
Qed.

Lemma rate_b64_pow2_window : forall sum w, (0 < sum < 2 ^ 53)%Z ->
  (exists k, (2 <= k <= 6)%Z /\ w = (2 ^ k)%Z) ->
  rate_of_sum B64Ops sum w = rnd64 (IZR w * 1000000000 / IZR sum).
Proof.
  intros sum w Hs (k & Hk & Ew). pose proof (pow2_window_range k w Hk Ew) as Hw.
  rewrite (rate_b64_unfold sum w Hs Hw).
  destruct (sum_w_bounds sum w Hs Hw) as [[S1 S2] [W1 W2]].
  rewrite (rnd64_id (IZR sum / IZR w)) by (rewrite Ew; apply pow2_quot_b64; assumption).
  f_equal. field. split; lra.
Qed.

Lemma rate_b64_pow2_rel_error : forall sum w, (0 < sum < 2 ^ 53)%Z ->
  (exists k, (2 <= k <= 6)%Z /\ w = (2 ^ k)%Z) ->
  exists d, Rabs d <= bpow radix2 (-53) /\
            rate_of_sum B64Ops sum w = (IZR w * 1000000000 / IZR sum) * (1 + d).
Proof.
  intros sum w Hs Hp. rewrite (rate_b64_pow2_window sum w Hs Hp).
  destruct Hp as (k & Hk & Ew). pose proof (pow2_window_range k w Hk Ew) as Hw.
  destruct (sum_w_bounds sum w Hs Hw) as [[S1 S2] [W1 W2]].
  apply rnd64_rel.
  assert (I : / 9007199254740992 <= IZR w * 1000000000 / IZR sum) by (apply div_ge_l; nra).
  rewrite Rabs_pos_eq by lra. pose proof bp_m1022_le_u. lra.
Qed.

(* ====================================================================================================
   (4) representable ideal rate: published exactly
   ==================================================================================================== *)
Lemma rate_b64_exact : forall sum w, (0 < sum < 2 ^ 53)%Z ->
  (exists k, (2 <= k <= 6)%Z /\ w = (2 ^ k)%Z) ->
  b64 (IZR w * 1000000000 / IZR sum) ->
  rate_of_sum B64Ops sum w = IZR w * 1000000000 / IZR sum.
Proof. intros sum w Hs Hp F. rewrite (rate_b64_pow2_window sum w Hs Hp). apply rnd64_id. exact F. Qed.

Example rate_b64_4s_window4 : rate_of_sum B64Ops 4000000000 4 = 1.
Proof.
  replace 1 with (IZR 4 * 1000000000 / IZR 4000000000) by lra.
  apply rate_b64_exact.
  - simpl; lia.
  - exists 2%Z. split; [lia|reflexivity].
  - replace (IZR 4 * 1000000000 / IZR 4000000000) with (IZR 1) by lra. apply b64_IZR. simpl; lia.
Qed.

Example rate_b64_400ms_window4 : rate_of_sum B64Ops 400000000 4 = 10.
Proof.
  replace 10 with (IZR 4 * 1000000000 / IZR 400000000) by lra.
  apply rate_b64_exact.
  - simpl; lia.
  - exists 2%Z. split; [lia|reflexivity].
  - replace (IZR 4 * 1000000000 / IZR 400000000) with (IZR 10) by lra. apply b64_IZR. simpl; lia.
Qed.

(* the general statements are not vacuous: a window that is not a power of two, a sum that does not divide *)
Example rate_b64_hyps_witness : (0 < 333333333 < 2 ^ 53)%Z /\ (4 <= 20 <= 64)%Z /\
  (0 < 4000000000 < 2 ^ 53)%Z /\ (exists k, (2 <= k <= 6)%Z /\ 4%Z = (2 ^ k)%Z).
Proof. repeat split; try (simpl; lia). exists 2%Z. split; [lia|reflexivity]. Qed.

(* ====================================================================================================
   (5) the window size: 2 * r is exact
   ==================================================================================================== *)
Lemma window_b64_eq_real : forall r, b64 r -> window_size B64Ops r = window_size ROps r.
Proof.
  intros r Fr. unfold window_size.
  replace (nmul B64Ops (nofDec B64Ops rate_window_factor_m rate_window_factor_e) r)
    with (nmul ROps (nofDec ROps rate_window_factor_m rate_window_factor_e) r); [reflexivity|].
  change (2 * powerRZ 10 0 * r = rnd64 (rnd64 (2 * powerRZ 10 0) * r)).
  replace (2 * powerRZ 10 0) with 2 by (simpl; lra).
  rewrite (rnd64_id 2) by (apply (b64_IZR 2); simpl; lia).
  symmetry. apply rnd64_id. apply b64_double. exact Fr.
Qed.

Example window_b64_witness : b64 10 /\ window_size B64Ops 10 = 20%Z.
Proof.
  assert (F : b64 10) by (apply (b64_IZR 10); simpl; lia).
  split; [exact F|]. rewrite (window_b64_eq_real 10 F). unfold window_size.
  change (Z.min (Z.max (Ztrunc (2 * powerRZ 10 0 * 10)) 4) 64 = 20%Z).
  replace (2 * powerRZ 10 0 * 10) with (IZR 20) by (simpl; lra). rewrite Ztrunc_IZR. reflexivity.
Qed.

(* ====================================================================================================
   (6) the time-out test "durationToSecond(silence) > 0.5" on an integer number of nanoseconds
   ==================================================================================================== *)
Definition late_test (N : NumOps R) (d : Z) : bool :=
  nltb N (nofDec N rate_timeout_s_m rate_timeout_s_e) (duration_to_second N d).

Lemma b64_half : b64 (/ 2).
Proof. apply (fmt_dyadic 53 (-1074) (/ 2) 1 (-1)); [simpl; lra|simpl; lia|lia]. Qed.

Lemma late_test_R d : late_test ROps d = (500000000 <? d)%Z.
Proof.
  unfold late_test.
  change (Rltb (5 * powerRZ 10 (-1)) (IZR d / (1 * powerRZ 10 9)) = (500000000 <? d)%Z).
  rewrite lit_1e9. replace (5 * powerRZ 10 (-1)) with (/ 2) by (simpl; lra).
  destruct (Z.ltb_spec 500000000 d) as [H|H].
  - apply Rltb_true. apply IZR_lt in H. lra.
  - apply Rltb_false. apply IZR_le in H. lra.
Qed.

Lemma late_test_b64 d : (Z.abs d < 2 ^ 53)%Z -> late_test B64Ops d = (500000000 <? d)%Z.
Proof.
  intros Hd. unfold late_test.
  change (Rltb (rnd64 (5 * powerRZ 10 (-1))) (rnd64 (rnd64 (IZR d) / rnd64 (1 * powerRZ 10 9)))
          = (500000000 <? d)%Z).
  rewrite lit_1e9. replace (5 * powerRZ 10 (-1)) with (/ 2) by (simpl; lra).
  rewrite (rnd64_id (/ 2) b64_half), (rnd64_id 1000000000 b64_1e9), (rnd64_id (IZR d) (b64_IZR d Hd)).
  destruct (Z.ltb_spec 500000000 d) as [H|H].
  - apply Rltb_true. assert (H' : (500000001 <= d)%Z) by lia. apply IZR_le in H'.
    set (y := IZR 549755813889 * bp (-40)).
    assert (Fy : b64 y) by (apply (fmt_dyadic 53 (-1074) y 549755813889 (-40)); [reflexivity|simpl; lia|lia]).
    assert (Ey : y = / 2 + / 1099511627776) by (unfold y; simpl; lra).
    assert (L : y <= rnd64 (IZR d / 1000000000)).
    { apply rnd64_ge; [exact Fy|]. apply div_ge_l; lra. }
    lra.
  - apply Rltb_false. apply IZR_le in H. apply rnd64_le; [exact b64_half|]. apply div_le_l; lra.
Qed.

Lemma late_test_b64_eq_real d : (Z.abs d < 2 ^ 53)%Z -> late_test B64Ops d = late_test ROps d.
Proof. intros H. rewrite late_test_b64, late_test_R by exact H. reflexivity. Qed.

Lemma timeout_b64_eq_real : forall (s : @rmon R) t, (Z.abs (t - rm_last s) < 2 ^ 53)%Z ->
  rm_timeout B64Ops s t = rm_timeout ROps s t.
Proof.
  intros s t H. unfold rm_timeout.
  change (nltb B64Ops (nofDec B64Ops rate_timeout_s_m rate_timeout_s_e) (duration_to_second B64Ops (t - rm_last s)))
    with (late_test B64Ops (t - rm_last s)).
  change (nltb ROps (nofDec ROps rate_timeout_s_m rate_timeout_s_e) (duration_to_second ROps (t - rm_last s)))
    with (late_test ROps (t - rm_last s)).
  rewrite (late_test_b64_eq_real _ H). reflexivity.
Qed.

(* the time-out rule in double, in integer terms *)
Lemma timeout_b64_rule : forall (s : @rmon R) t, (Z.abs (t - rm_last s) < 2 ^ 53)%Z ->
  snd (rm_timeout B64Ops s t) = negb (is_nil (rm_periods s)) && (500000000 <? t - rm_last s)%Z.
Proof.
  intros s t H. unfold rm_timeout.
  change (nltb B64Ops (nofDec B64Ops rate_timeout_s_m rate_timeout_s_e) (duration_to_second B64Ops (t - rm_last s)))
    with (late_test B64Ops (t - rm_last s)).
  rewrite (late_test_b64 _ H).
  destruct (negb (is_nil (rm_periods s)) && (500000000 <? t - rm_last s)%Z); reflexivity.
Qed.

Example timeout_b64_witness :
  let s := {| rm_window := 4; rm_last := 1000000000; rm_periods := (1000000000 :: nil)%Z; rm_sum := 1000000000;
              rm_rate := 0 |} in
  snd (rm_timeout B64Ops s 1500000001) = true /\ snd (rm_timeout B64Ops s 1500000000) = false.
Proof.
  cbv zeta. split; rewrite timeout_b64_rule by (cbn [rm_last]; simpl; lia); reflexivity.
Qed.
