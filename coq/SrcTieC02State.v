(* SrcTieC02State.v — the STATE MACHINE of ENUConverter regenerated from the clang AST of the current
   src/geodesy/ENUConverter.cpp (gen/SrcEnu.v, written on every run by translate/tr_C02_enu.py; vocabulary: EnuVocab.v)
   IS the state machine of EnuModel.v that the operation-sequence theorems of Properties_C02.v are about.

   Generated: one transformer st_<m> per method of the class (both constructors, setAnchor, reset, isAnchored, getAnchor,
   getEnuToEcefTransform, toECEF / toWGS84 in their vector and three-scalar forms, the three toENU overloads) on the fields
   (enu2ecef_, isAnchored_, wgs84Anchor_); the methods of the member ecefConverter_ are the function arguments F_toECEF /
   F_toWGS84, instantiated here with GeodesyModel.toECEF / toWGS84 on GRS80 (tied to ECEFConverter.cpp in SrcTieC01.v).

   Two layers:
   * for EVERY numeric dictionary N (so also the executed binary64 one): every transformer equals the model's step in which
     set_anchor is replaced by the source's own setAnchor ([src_set_anchor]) — no arithmetic is compared, the terms are the
     same up to computation; and the source's setAnchor has the model's shape whatever its 3x3 block is: the result does not
     depend on the earlier state (re-anchoring replaces the frame), the translation is toECEF of the new anchor, the flag is
     set, the anchor stored;
   * for the real-number dictionary: the source's setAnchor writes the model's frame_rotation (compared up to the ring laws
     under equal function symbols, tactic [req] of SrcTie.v: a re-association or a hoisted sub-expression in the C++ does
     not break it), hence [src_step ROps = step ROps] outright.

   The `assert(isAnchored_)` of toECEF / toENU(ecef) is compiled out (-DNDEBUG, as the library is built): [src_step] carries
   the model's convention (the harness's too) that these operations are not called on an un-anchored converter. *)
From Coq Require Import Reals ZArith List Bool Lra.
From Romea Require Import Num NumR GeodesyModel EnuModel EnuProofs EnuVocab SrcTie.
From Romea.gen Require Import SrcEnu.
Import ListNotations.

Section Tie.
Context {T : Type} (N : NumOps T).

Definition fields_of (s : enu_state (T:=T)) : enu_fields (T:=T) := ((s_rot s, s_trans s), s_anchored s, s_anchor s).
Definition state_of_fields (f : enu_fields (T:=T)) : enu_state (T:=T) :=
  mkEnu (snd f) (fst (fst (fst f))) (snd (fst (fst f))) (snd (fst f)).

Lemma state_of_fields_of s : state_of_fields (fields_of s) = s.
Proof. destruct s; reflexivity. Qed.
Lemma fields_of_state_of f : fields_of (state_of_fields f) = f.
Proof. destruct f as [[[m t] b] g]; reflexivity. Qed.

(* the two methods of the member ecefConverter_ (default-constructed: GRS80) *)
Definition ecefF : geodetic (T:=T) -> vec3 (T:=T) := toECEF N (grs80 N).
Definition wgsF (fuel : nat) : vec3 (T:=T) -> option (geodetic (T:=T)) := toWGS84 N fuel (grs80 N).

(* ---- the source's setAnchor as a function on model states ---- *)
Definition src_set_anchor (fuel : nat) (s : enu_state (T:=T)) (g : geodetic (T:=T)) : enu_state (T:=T) :=
  state_of_fields (st_setAnchor N ecefF (wgsF fuel) g (fields_of s)).

(* shape of the source's setAnchor, for every dictionary and whatever the 3x3 block is: independent of the state before
   (nothing of the old frame survives), translation = toECEF of the new anchor, anchored, anchor stored *)
Lemma tie_setAnchor_shape F1 F2 g st st0 :
  st_setAnchor N F1 F2 g st = ((aff_linear (fst (fst (st_setAnchor N F1 F2 g st0))), F1 g), true, g).
Proof. destruct st as [[[m t] b] w], st0 as [[[m0 t0] b0] w0]. reflexivity. Qed.

(* ---- the model's step with set_anchor as a parameter (EnuModel.step_gen is this at sa := set_anchor N) ---- *)
Definition to_enu_geo_sa (sa : enu_state (T:=T) -> geodetic (T:=T) -> enu_state (T:=T)) (s : enu_state) (g : geodetic) : enu_state * out :=
  let s' := if s_anchored s then s else sa s g in
  (s', OutVec (ecef_to_enu N s' (toECEF N (grs80 N) g))).

Definition step_sa (sa : enu_state (T:=T) -> geodetic (T:=T) -> enu_state (T:=T)) (fuel : nat) (s : enu_state) (o : op) : enu_state * out :=
  match o with
  | OpSetAnchor g => (sa s g, OutNone)
  | OpToEnuGeo g => to_enu_geo_sa sa s g
  | OpToEnuWgs lat lon => to_enu_geo_sa sa s (mkGeo lat lon (g_alt (s_anchor s)))
  | _ => step N fuel s o
  end.

Lemma step_sa_model fuel s o : step_sa (set_anchor N) fuel s o = step N fuel s o.
Proof. destruct o; reflexivity. Qed.

(* ---- the generated transformers assembled into a step function (which method serves which operation) ---- *)
Definition lift {A : Type} (r : enu_fields (T:=T) * A) (f : A -> out (T:=T)) : enu_state * out := (state_of_fields (fst r), f (snd r)).

Definition src_step (fuel : nat) (s : enu_state (T:=T)) (o : op (T:=T)) : enu_state * out :=
  let st := fields_of s in
  let F1 := ecefF in
  let F2 := wgsF fuel in
  match o with
  | OpSetAnchor g => (state_of_fields (st_setAnchor N F1 F2 g st), OutNone)
  | OpReset => (state_of_fields (st_reset N F1 F2 st), OutNone)
  | OpToEnuGeo g => lift (st_toENU_geo N F1 F2 g st) OutVec
  | OpToEnuWgs lat lon => lift (st_toENU_wgs N F1 F2 (mkWgs lat lon) st) OutVec
  | OpToEnuEcef p => if s_anchored s then lift (st_toENU_ecef N F1 F2 p st) OutVec else (s, OutAssert)
  | OpToEcef e => if s_anchored s then lift (st_toECEF_vec N F1 F2 e st) OutVec else (s, OutAssert)
  | OpToWgs e => if s_anchored s then
                   match st_toWGS84_vec N F1 F2 e st with
                   | Some r => lift r OutGeo
                   | None => (s, OutHang)
                   end
                 else (s, OutAssert)
  | OpIsAnchored => lift (st_isAnchored N F1 F2 st) OutBool
  | OpGetTransform => lift (st_getEnuToEcefTransform N F1 F2 st) (fun a => OutTransform (aff_linear a) (aff_translation a))
  | OpGetAnchor => lift (st_getAnchor N F1 F2 st) OutGeo
  end.

Fixpoint src_run (fuel : nat) (s : enu_state (T:=T)) (ops : list (op (T:=T))) : enu_state * list out :=
  match ops with
  | [] => (s, [])
  | o :: r => let (s1, x) := src_step fuel s o in
              let (s2, xs) := src_run fuel s1 r in (s2, x :: xs)
  end.

(* a freshly constructed converter *)
Definition src_init (fuel : nat) : enu_state (T:=T) :=
  state_of_fields (st_ctor_default N ecefF (wgsF fuel) (fields_of (enu_init N))).
Definition src_init_at (fuel : nat) (g : geodetic (T:=T)) : enu_state (T:=T) :=
  state_of_fields (st_ctor_anchor N ecefF (wgsF fuel) g (fields_of (enu_init N))).

(* ---- method by method, every dictionary ---- *)
Lemma tie_ctor_default F1 F2 st : st_ctor_default N F1 F2 st = fields_of (enu_init N).
Proof. destruct st as [[[m t] b] w]. reflexivity. Qed.

Lemma tie_ctor_anchor F1 F2 g st : st_ctor_anchor N F1 F2 g st = st_setAnchor N F1 F2 g (fields_of (enu_init N)).
Proof. destruct st as [[[m t] b] w]. reflexivity. Qed.

Lemma tie_reset F1 F2 s : st_reset N F1 F2 (fields_of s) = fields_of (reset N s).
Proof. destruct s. reflexivity. Qed.

(* reset() and the default constructor leave the same fields, whatever the state before *)
Lemma tie_reset_is_ctor_default F1 F2 st st' : st_reset N F1 F2 st = st_ctor_default N F1 F2 st'.
Proof. destruct st as [[[m t] b] w], st' as [[[m' t'] b'] w']. reflexivity. Qed.

Lemma tie_isAnchored F1 F2 s : st_isAnchored N F1 F2 (fields_of s) = (fields_of s, s_anchored s).
Proof. destruct s. reflexivity. Qed.

Lemma tie_getAnchor F1 F2 s : st_getAnchor N F1 F2 (fields_of s) = (fields_of s, s_anchor s).
Proof. destruct s. reflexivity. Qed.

Lemma tie_getEnuToEcefTransform F1 F2 s :
  st_getEnuToEcefTransform N F1 F2 (fields_of s) = (fields_of s, (s_rot s, s_trans s)).
Proof. destruct s. reflexivity. Qed.

Lemma tie_toECEF_vec F1 F2 s e : st_toECEF_vec N F1 F2 e (fields_of s) = (fields_of s, enu_to_ecef N s e).
Proof. destruct s. reflexivity. Qed.

Lemma tie_toENU_ecef F1 F2 s p : st_toENU_ecef N F1 F2 p (fields_of s) = (fields_of s, ecef_to_enu N s p).
Proof. destruct s. reflexivity. Qed.

Lemma tie_toWGS84_vec F1 F2 s e :
  st_toWGS84_vec N F1 F2 e (fields_of s) =
  match F2 (enu_to_ecef N s e) with Some g => Some (fields_of s, g) | None => None end.
Proof.
  destruct s as [w m t b]. unfold st_toWGS84_vec, src_toWGS84_vec, src_toECEF_vec, fields_of, enu_to_ecef, aff_apply.
  cbn [s_rot s_trans s_anchored s_anchor fst snd]. destruct (F2 _); reflexivity.
Qed.

(* the three-scalar overloads pass their arguments in order to the vector forms *)
Lemma tie_toECEF_xyz F1 F2 x y z st : st_toECEF_xyz N F1 F2 x y z st = st_toECEF_vec N F1 F2 (mkV3 x y z) st.
Proof. destruct st as [[[m t] b] w]. reflexivity. Qed.

Lemma tie_toWGS84_xyz F1 F2 x y z st : st_toWGS84_xyz N F1 F2 x y z st = st_toWGS84_vec N F1 F2 (mkV3 x y z) st.
Proof.
  destruct st as [[[m t] b] w]. unfold st_toWGS84_xyz, src_toWGS84_xyz, st_toWGS84_vec.
  match goal with |- context [src_toWGS84_vec ?a ?b ?c ?d ?e] => destruct (src_toWGS84_vec a b c d e) end; reflexivity.
Qed.

(* toENU(const GeodeticCoordinates &): anchors first when (and only when) not anchored, then converts in the CURRENT frame *)
Lemma tie_toENU_geo fuel s g :
  lift (st_toENU_geo N ecefF (wgsF fuel) g (fields_of s)) OutVec = to_enu_geo_sa (src_set_anchor fuel) s g.
Proof. destruct s as [w m t b]. destruct b; reflexivity. Qed.

(* toENU(const WGS84Coordinates &): the point at the altitude of the CURRENT anchor *)
Lemma tie_toENU_wgs fuel s lat lon :
  lift (st_toENU_wgs N ecefF (wgsF fuel) (mkWgs lat lon) (fields_of s)) OutVec =
  to_enu_geo_sa (src_set_anchor fuel) s (mkGeo lat lon (g_alt (s_anchor s))).
Proof. destruct s as [w m t b]. destruct b; reflexivity. Qed.

(* ---- all operations ---- *)
Lemma tie_step_sa fuel s o : src_step fuel s o = step_sa (src_set_anchor fuel) fuel s o.
Proof.
  destruct o as [g| |g|lat lon|p|e|e| | | ]; unfold src_step, step_sa; cbv zeta.
  - reflexivity.
  - rewrite tie_reset, state_of_fields_of. reflexivity.
  - apply tie_toENU_geo.
  - apply tie_toENU_wgs.
  - rewrite tie_toENU_ecef. unfold lift, step, step_gen. cbn [fst snd]. rewrite state_of_fields_of.
    destruct (s_anchored s); reflexivity.
  - rewrite tie_toECEF_vec. unfold lift, step, step_gen. cbn [fst snd]. rewrite state_of_fields_of.
    destruct (s_anchored s); reflexivity.
  - rewrite tie_toWGS84_vec. unfold wgsF, step, step_gen, lift.
    destruct (s_anchored s); [|reflexivity].
    destruct (toWGS84 N fuel (grs80 N) (enu_to_ecef N s e)); cbn [fst snd]; rewrite ?state_of_fields_of; reflexivity.
  - rewrite tie_isAnchored. unfold lift. cbn [fst snd]. rewrite state_of_fields_of. reflexivity.
  - rewrite tie_getEnuToEcefTransform. unfold lift. cbn [fst snd]. rewrite state_of_fields_of. reflexivity.
  - rewrite tie_getAnchor. unfold lift. cbn [fst snd]. rewrite state_of_fields_of. reflexivity.
Qed.

(* every dictionary: if the source's setAnchor is the model's set_anchor, the source's step is the model's step *)
Definition setAnchor_tied (fuel : nat) : Prop := forall s g, src_set_anchor fuel s g = set_anchor N s g.

Lemma tie_step fuel (H : setAnchor_tied fuel) s o : src_step fuel s o = step N fuel s o.
Proof.
  rewrite tie_step_sa, <- step_sa_model.
  destruct o; unfold step_sa, to_enu_geo_sa; rewrite ?H; reflexivity.
Qed.

Lemma tie_run fuel (H : setAnchor_tied fuel) ops : forall s, src_run fuel s ops = run N fuel s ops.
Proof.
  induction ops as [|o r IH]; intros s; [reflexivity|].
  cbn [src_run]. unfold run in *. cbn [run_gen]. fold (step N fuel s o). rewrite (tie_step fuel H).
  destruct (step N fuel s o) as [s1 x]. rewrite IH. reflexivity.
Qed.

Lemma tie_init fuel : src_init fuel = enu_init N.
Proof. unfold src_init. rewrite tie_ctor_default. apply state_of_fields_of. Qed.

Lemma tie_init_at fuel (H : setAnchor_tied fuel) g : src_init_at fuel g = set_anchor N (enu_init N) g.
Proof. unfold src_init_at. rewrite tie_ctor_anchor. apply (H (enu_init N) g). Qed.

(* ---- the operation-sequence theorems of EnuProofs.v, about the source's own step function ---- *)
Lemma src_run_state fuel (H : setAnchor_tied fuel) ops a :
  fst (src_run fuel (state_of N a) ops) = state_of N (abs_run N a ops).
Proof. rewrite (tie_run fuel H). apply run_state. Qed.

Lemma src_anchored_iff fuel (H : setAnchor_tied fuel) ops :
  s_anchored (fst (src_run fuel (src_init fuel) ops)) = true <-> abs_run N None ops <> None.
Proof. rewrite tie_init, (tie_run fuel H). apply anchored_iff. Qed.

Lemma src_reset_after_any_history fuel (H : setAnchor_tied fuel) ops rest :
  src_run fuel (fst (src_run fuel (src_init fuel) (ops ++ [OpReset]))) rest = src_run fuel (src_init fuel) rest.
Proof. rewrite tie_init, !(tie_run fuel H). apply reset_after_any_history. Qed.

Lemma src_set_anchor_after_any_history fuel (H : setAnchor_tied fuel) ops g :
  fst (src_run fuel (src_init fuel) (ops ++ [OpSetAnchor g])) = src_init_at fuel g.
Proof. rewrite tie_init, (tie_run fuel H), (tie_init_at fuel H). apply set_anchor_after_any_history. Qed.

Lemma src_first_conversion_anchors fuel (H : setAnchor_tied fuel) ops g : abs_run N None ops = None ->
  fst (src_run fuel (src_init fuel) (ops ++ [OpToEnuGeo g])) = src_init_at fuel g.
Proof. intros Ha. rewrite tie_init, (tie_run fuel H), (tie_init_at fuel H). apply first_conversion_anchors, Ha. Qed.

End Tie.

(* ---- the real-number dictionary: the 3x3 block written by the source's setAnchor is the model's frame ---- *)
Local Open Scope R_scope.

Lemma tie_setAnchor_R fuel : setAnchor_tied ROps fuel.
Proof.
  intros s g. destruct s as [w m t b].
  unfold src_set_anchor, st_setAnchor, src_setAnchor, set_anchor, fields_of, state_of_fields, frame_rotation, ecefF,
    aff_set_translation, aff_set_col0, aff_set_col1, aff_set_col2, mat3_set_col0, mat3_set_col1, mat3_set_col2.
  cbv zeta. cbn [fst snd s_rot s_trans s_anchored s_anchor m00 m01 m02 m10 m11 m12 m20 m21 m22 vx vy vz]. dict. req.
Qed.

Lemma tie_step_R fuel s o : src_step ROps fuel s o = step ROps fuel s o.
Proof. exact (tie_step ROps fuel (tie_setAnchor_R fuel) s o). Qed.

Lemma tie_run_R fuel s ops : src_run ROps fuel s ops = run ROps fuel s ops.
Proof. exact (tie_run ROps fuel (tie_setAnchor_R fuel) ops s). Qed.

Lemma tie_init_at_R fuel g : src_init_at ROps fuel g = set_anchor ROps (enu_init ROps) g.
Proof. exact (tie_init_at ROps fuel (tie_setAnchor_R fuel) g). Qed.

Lemma src_run_state_R fuel ops a :
  fst (src_run ROps fuel (state_of ROps a) ops) = state_of ROps (abs_run ROps a ops).
Proof. exact (src_run_state ROps fuel (tie_setAnchor_R fuel) ops a). Qed.

Lemma src_reset_after_any_history_R fuel ops rest :
  src_run ROps fuel (fst (src_run ROps fuel (src_init ROps fuel) (ops ++ [OpReset]))) rest =
  src_run ROps fuel (src_init ROps fuel) rest.
Proof. exact (src_reset_after_any_history ROps fuel (tie_setAnchor_R fuel) ops rest). Qed.

Lemma src_set_anchor_after_any_history_R fuel ops g :
  fst (src_run ROps fuel (src_init ROps fuel) (ops ++ [OpSetAnchor g])) = src_init_at ROps fuel g.
Proof. exact (src_set_anchor_after_any_history ROps fuel (tie_setAnchor_R fuel) ops g). Qed.

Lemma src_first_conversion_R fuel ops g : abs_run ROps None ops = None ->
  fst (src_run ROps fuel (src_init ROps fuel) (ops ++ [OpToEnuGeo g])) = src_init_at ROps fuel g /\
  snd (src_run ROps fuel (src_init ROps fuel) (ops ++ [OpToEnuGeo g])) =
  snd (src_run ROps fuel (src_init ROps fuel) ops) ++ [OutVec (mkV3 0 0 0)].
Proof.
  intros Ha. split.
  - exact (src_first_conversion_anchors ROps fuel (tie_setAnchor_R fuel) ops g Ha).
  - rewrite tie_init, !tie_run_R. exact (first_conversion_returns_origin fuel ops g Ha).
Qed.
