(* BoxModel.v — executable model of the bounding volumes, intervals and point-set extents (C20):
     src/containers/boundingbox/{AxisAlignedBoundingBox,OrientedBoundingBox}.cpp
     include/romea_core_common/math/Interval.hpp
     include/romea_core_common/containers/Eigen/EigenContainers.hpp   (min / max / mean)
     src/pointset/algorithms/PointSetPreconditioner.cpp               (compute)
   Definitions only (proofs are in BoxProofs.v).  Vectors are lists of scalars (length = DIM, or
   DIM+1 for homogeneous points), matrices are lists of rows; everything is polymorphic in the
   numeric dictionary so that the same terms run in binary64/binary32 and are reasoned about in R. *)
From Coq Require Import ZArith List Bool.
From Romea Require Import Num.
Import ListNotations.

Section Boxes.
Context {T : Type} (N : NumOps T).

(* ---------- coefficient-wise helpers (Eigen array expressions) ---------- *)
Fixpoint map2 (f : T -> T -> T) (a b : list T) : list T :=
  match a, b with
  | x :: a', y :: b' => f x y :: map2 f a' b'
  | _, _ => []
  end.

(* (a.array() <rel> b.array()).all() *)
Fixpoint all2 (f : T -> T -> bool) (a b : list T) : bool :=
  match a, b with
  | x :: a', y :: b' => f x y && all2 f a' b'
  | _, _ => true
  end.

Definition vadd := map2 (nadd N).
Definition vsub := map2 (nsub N).
Definition vabs := map (nabs N).
Definition vhalf (v : list T) := map (fun x => ndiv N x (ntwo N)) v.      (* v / 2. *)
Definition vconst (n : nat) (x : T) : list T := repeat x n.                 (* PointType::Constant(x) *)

(* ---------- Interval<Scalar,DIM>  (the DIM = 1 specialisation is the length-1 case:
   std::min / std::max read exactly as Eigen's coefficient-wise min / max) ---------- *)
Record interval := { i_lower : list T; i_upper : list T }.

Definition interval_width (i : interval) : list T := vsub (i_upper i) (i_lower i).
Definition interval_center (i : interval) : list T := vhalf (vadd (i_upper i) (i_lower i)).

(* lower_ = lower_.min(other.lower()); upper_ = upper_.max(other.upper()) *)
Definition interval_include (i j : interval) : interval :=
  {| i_lower := map2 (nmin2 N) (i_lower i) (i_lower j);
     i_upper := map2 (nmax2 N) (i_upper i) (i_upper j) |}.

(* (val >= lower_).all() && (val <= upper_).all() *)
Definition interval_inside (i : interval) (v : list T) : bool :=
  all2 (ngeb N) v (i_lower i) && all2 (nleb N) v (i_upper i).

(* ---------- AxisAlignedBoundingBox ---------- *)
Record aabb := { a_center : list T; a_half : list T }.

(* AxisAlignedBoundingBox(const IntervalType &): centre = (upper+lower)/2, half = width/2 *)
Definition aabb_of_interval (i : interval) : aabb :=
  {| a_center := interval_center i; a_half := vhalf (interval_width i) |}.

(* toInterval(): {centre - half, centre + half} *)
Definition aabb_to_interval (b : aabb) : interval :=
  {| i_lower := vsub (a_center b) (a_half b); i_upper := vadd (a_center b) (a_half b) |}.

(* isInside: ((point - centre).abs() <= half).all() *)
Definition aabb_inside (b : aabb) (p : list T) : bool :=
  all2 (nleb N) (vabs (vsub p (a_center b))) (a_half b).

(* ---------- OrientedBoundingBox: centre, half extents (box frame), rotation (rows) ---------- *)
Record obb := { o_center : list T; o_half : list T; o_rot : list (list T) }.

Definition dot (a b : list T) : T :=
  fold_left (fun acc xy => nadd N acc (nmul N (fst xy) (snd xy))) (combine a b) (nzero N).

Definition column (R : list (list T)) (j : nat) : list T := map (fun row => nth j row (nzero N)) R.

(* rotation_.transpose() * v : component j = sum_i R(i,j) * v(i) *)
Definition tr_mul_vec (R : list (list T)) (v : list T) : list T :=
  map (fun j => dot (column R j) v) (seq 0 (length v)).

(* R * v : component i = sum_j R(i,j) * v(j)   (used for the corners in the theorems and the oracle) *)
Definition mul_vec (R : list (list T)) (v : list T) : list T := map (fun row => dot row v) R.

(* isInside: ((R^T (p - c)).abs() <= half).prod() *)
Definition obb_inside (o : obb) (p : list T) : bool :=
  all2 (nleb N) (vabs (tr_mul_vec (o_rot o) (vsub p (o_center o)))) (o_half o).

(* toAxisAlignedBoundingBox: half(i) = sum_n | R(i,n) * h(n) |, same centre *)
Definition abs_row_extent (row h : list T) : T :=
  fold_left (fun acc rh => nadd N acc (nabs N (nmul N (fst rh) (snd rh)))) (combine row h) (nzero N).

Definition obb_to_aabb (o : obb) : aabb :=
  {| a_center := o_center o; a_half := map (fun row => abs_row_extent row (o_half o)) (o_rot o) |}.

(* ---------- EigenContainers.hpp: min / max / mean of a container of points of size [dim] ---------- *)
Definition cont_min (dim : nat) (pts : list (list T)) : list T :=
  fold_left (fun acc p => map2 (nmin2 N) acc p) pts (vconst dim (nmaxval N)).

Definition cont_max (dim : nat) (pts : list (list T)) : list T :=
  fold_left (fun acc p => map2 (nmax2 N) acc p) pts (vconst dim (nneg N (nmaxval N))).

Definition vsum (dim : nat) (pts : list (list T)) : list T :=
  fold_left vadd pts (vconst dim (nzero N)).

(* meanCoordinates /= points.size() *)
Definition cont_mean (dim : nat) (pts : list (list T)) : list T :=
  map (fun x => ndiv N x (nofZ N (Z.of_nat (length pts)))) (vsum dim pts).

(* ---------- PointSetPreconditioner<PointType>::compute ----------
   [size] = number of stored coordinates (DIM, or DIM+1 for homogeneous points), [cdim] = DIM.
   [maxinit] is the value the running maximum starts from. *)
Record precond := { pc_min : list T; pc_max : list T; pc_mean : list T; pc_scale : T; pc_translation : list T }.

(* Eigen maxCoeff(): res = v(0); for the others: if (v(i) > res) res = v(i) *)
Definition max_coeff (v : list T) : T :=
  match v with [] => nzero N | x :: r => fold_left (nmax2 N) r x end.

Definition precond_with (maxinit : T) (size cdim : nat) (pts : list (list T)) : precond :=
  let mn := fold_left (fun acc p => map2 (nmin2 N) acc p) pts (vconst size (nmaxval N)) in
  let mx := fold_left (fun acc p => map2 (nmax2 N) acc p) pts (vconst size maxinit) in
  let mean := map (fun x => ndiv N x (nofZ N (Z.of_nat (length pts)))) (vsum size pts) in
  let scale := ndiv N (n_one N) (max_coeff (vsub mx mn)) in
  {| pc_min := mn; pc_max := mx; pc_mean := mean; pc_scale := scale;
     pc_translation := map (fun m => nmul N (nneg N m) scale) (firstn cdim mean) |}.

(* the code as it was up to and including the snapshot commit:
   pointSetMax_.setConstant(std::numeric_limits<Scalar>::min())   -- the smallest positive normal *)
Definition precond_compute_minpos := precond_with (nminpos N).

(* the code after "fix: PointSetPreconditioner ... lowest()":
   pointSetMax_.setConstant(std::numeric_limits<Scalar>::lowest())  == -max() *)
Definition precond_compute_lowest := precond_with (nneg N (nmaxval N)).

(* the code of the current tree (this is what the driver runs against the implementation).  The choice is tied
   to the source by the correspondence run: on every all-negative or planar set (generated in every run, and the
   witness of the _refuted theorem is always replayed) the two variants give different maxima and scales. *)
Definition precond_compute := precond_compute_lowest.

End Boxes.
