(* LambertProofs.v — lemmas about LambertModel.v at the real-number instance (C03). *)
From Coq Require Import Reals ZArith List Bool Lra Lia.
From Coquelicot Require Import Coquelicot.
From Romea Require Import Num NumR GeodesyModel GeodesyProofs LambertModel.
From Romea.gen Require Import RepoConstants.
Local Open Scope R_scope.

(* ------------------------------------------------------------------ elementary facts *)
Lemma es_bounds e x : 0 <= e < 1 -> 0 < 1 - e * sin x /\ 0 < 1 + e * sin x.
Proof. intros He. pose proof (SIN_bound x) as [A B]. split; nra. Qed.

Lemma one_minus_e2s2_pos e x : 0 <= e < 1 -> 0 < 1 - e * e * (sin x * sin x).
Proof. intros He. pose proof (sin_sq_le_1 x). assert (0 <= sin x * sin x) by nra. assert (e * e < 1) by nra. nra. Qed.

Lemma quarter_plus_half lat : - PI / 2 < lat < PI / 2 -> 0 < PI / 4 + lat / 2 < PI / 2.
Proof. intros H. lra. Qed.

Lemma tan_quarter_pos lat : - PI / 2 < lat < PI / 2 ->
  0 < sin (PI / 4 + lat / 2) /\ 0 < cos (PI / 4 + lat / 2).
Proof.
  intros H. pose proof (quarter_plus_half lat H) as [A B]. split.
  - apply sin_gt_0; lra.
  - apply cos_gt_0; lra.
Qed.

(* 2 sin u cos u = cos lat for u = PI/4 + lat/2 *)
Lemma double_quarter lat : 2 * sin (PI / 4 + lat / 2) * cos (PI / 4 + lat / 2) = cos lat.
Proof.
  rewrite <- sin_2a. replace (2 * (PI / 4 + lat / 2)) with (PI / 2 + lat) by field.
  rewrite sin_plus, sin_PI2, cos_PI2. ring.
Qed.

Lemma Rpower_inv_pair x k : 0 < x -> Rpower x k * Rpower (/ x) k = 1.
Proof.
  intros Hx. unfold Rpower. rewrite <- exp_plus, ln_Rinv by exact Hx.
  replace (k * ln x + k * - ln x) with 0 by ring. apply exp_0.
Qed.

(* ------------------------------------------------------------------ isometric latitude *)
Definition isolat (e lat : R) : R := isometricLatitude ROps lat e.

Lemma isolat_unfold e lat :
  isolat e lat = ln (sin (PI / 4 + lat / (1 + 1)) / cos (PI / 4 + lat / (1 + 1)) *
                     Rpower ((1 - e * sin lat) / (1 + e * sin lat)) (e / (1 + 1))).
Proof. reflexivity. Qed.

Lemma isolat_arg_pos e lat : 0 <= e < 1 -> - PI / 2 < lat < PI / 2 ->
  0 < sin (PI / 4 + lat / (1 + 1)) / cos (PI / 4 + lat / (1 + 1)) *
      Rpower ((1 - e * sin lat) / (1 + e * sin lat)) (e / (1 + 1)).
Proof.
  intros He Hl. replace (1 + 1) with 2 by ring. destruct (tan_quarter_pos lat Hl) as [S C].
  apply Rmult_lt_0_compat.
  - apply Rdiv_lt_0_compat; assumption.
  - unfold Rpower. apply exp_pos.
Qed.

(* exp of the isometric latitude *)
Lemma exp_isolat e lat : 0 <= e < 1 -> - PI / 2 < lat < PI / 2 ->
  exp (isolat e lat) = sin (PI / 4 + lat / 2) / cos (PI / 4 + lat / 2) *
                       Rpower ((1 - e * sin lat) / (1 + e * sin lat)) (e / 2).
Proof.
  intros He Hl. rewrite isolat_unfold, exp_ln by (apply isolat_arg_pos; assumption).
  replace (1 + 1) with 2 by ring. reflexivity.
Qed.

(* dL/dlat = (1 - e^2) / ((1 - e^2 sin^2 lat) cos lat) *)
Lemma isolat_derivative e lat : 0 <= e < 1 -> - PI / 2 < lat < PI / 2 ->
  is_derive (isolat e) lat ((1 - e * e) / ((1 - e * e * (sin lat * sin lat)) * cos lat)).
Proof.
  intros He Hl.
  destruct (es_bounds e lat He) as [Em Ep]. pose proof (one_minus_e2s2_pos e lat He) as E2.
  pose proof (cos_pos_lat lat Hl) as Cp.
  destruct (tan_quarter_pos lat Hl) as [Su Cu]. pose proof (double_quarter lat) as Dq.
  pose proof (isolat_arg_pos e lat He Hl) as Apos.
  unfold isolat, isometricLatitude. cbn. unfold Rpower.
  replace (lat / 2) with (lat * / (1 + 1)) in * by field.
  auto_derive.
  - split; [lra|]. split; [lra|]. split.
    + replace (1 + - (e * sin lat)) with (1 - e * sin lat) by ring.
      apply Rmult_lt_0_compat; [lra|]. apply Rinv_0_lt_compat. lra.
    + split; [|exact I]. unfold Rpower, Rdiv, Rminus in Apos. exact Apos.
  - set (su := sin (PI / 4 + lat * / (1 + 1))) in *. set (cu := cos (PI / 4 + lat * / (1 + 1))) in *.
    set (s := sin lat) in *. set (c := cos lat) in *.
    set (P := exp (e / (1 + 1) * ln ((1 + - (e * s)) * / (1 + e * s)))).
    assert (Pp : 0 < P) by apply exp_pos.
    assert (Tr : su * su + cu * cu = 1).
    { unfold su, cu. pose proof (sin2_cos2 (PI / 4 + lat * / (1 + 1))) as H. unfold Rsqr in H. exact H. }
    assert (Cs : c * c = 1 - s * s) by apply cos_sq_eq.
    transitivity ((cu * cu + su * su) / (2 * su * cu) - e * e * c / (1 - e * e * (s * s))).
    + field. repeat split; lra.
    + replace (cu * cu + su * su) with 1 by lra. rewrite Dq.
      field_simplify_eq; [|split; lra].
      assert (E1 : c ^ 2 = 1 - s * s) by (rewrite <- Cs; ring).
      rewrite E1. ring.
Qed.

(* ------------------------------------------------------------------ the latitude iteration *)
(* the true latitude is a fixed point of the loop body at its isometric latitude *)
Lemma latitude_step_fixed_point e lat : 0 <= e < 1 -> - PI / 2 < lat < PI / 2 ->
  latitude_step ROps (isolat e lat) e lat = lat.
Proof.
  intros He Hl. unfold latitude_step, half_pi, ntwo.
  cbn [nmul nsub natan nexp npow ndiv nadd nsin n_one npi ROps]. rewrite exp_isolat by assumption.
  destruct (es_bounds e lat He) as [Em Ep]. destruct (tan_quarter_pos lat Hl) as [Su Cu].
  replace (1 + 1) with 2 by ring.
  set (q := (1 + e * sin lat) / (1 - e * sin lat)).
  assert (Hq : 0 < q) by (apply Rdiv_lt_0_compat; lra).
  replace ((1 - e * sin lat) / (1 + e * sin lat)) with (/ q) by (unfold q; field; lra).
  replace (Rpower q (e / 2) * (sin (PI / 4 + lat / 2) / cos (PI / 4 + lat / 2) * Rpower (/ q) (e / 2)))
    with (sin (PI / 4 + lat / 2) / cos (PI / 4 + lat / 2) * (Rpower q (e / 2) * Rpower (/ q) (e / 2))) by ring.
  rewrite Rpower_inv_pair, Rmult_1_r by exact Hq.
  rewrite atan_tan_quot by (pose proof (quarter_plus_half lat Hl); lra). field.
Qed.

Lemma lambert_eps_bounds : 0 < lambert_eps ROps <= / 100000000000.
Proof. unfold lambert_eps, lambert_epsilon_m, lambert_epsilon_e. eval_dec. lra. Qed.

(* started at the fixed point the loop returns it after one pass *)
Lemma latitude_iter_from_fixed_point fuel L e lat :
  latitude_step ROps L e lat = lat -> latitude_iter ROps (S fuel) L e lat = Some lat.
Proof.
  intros H. cbn [latitude_iter]. rewrite H. cbn [nsub nabs nltb ROps]. unfold Rminus.
  rewrite Rplus_opp_r, Rabs_R0. rewrite (proj2 (Rltb_true _ _)); [reflexivity|apply lambert_eps_bounds].
Qed.

(* on exit the last pass moved the latitude by less than EPSILON *)
Lemma latitude_iter_exit fuel L e lat r :
  latitude_iter ROps fuel L e lat = Some r ->
  exists prev, r = latitude_step ROps L e prev /\ Rabs (r - prev) < lambert_eps ROps.
Proof.
  revert lat. induction fuel as [|f IH]; intros lat; cbn [latitude_iter]; [discriminate|].
  cbn [nltb nabs nsub ROps].
  destruct (Rltb (Rabs (latitude_step ROps L e lat - lat)) (lambert_eps ROps)) eqn:E.
  - intros H; inversion H; subst. exists lat. split; [reflexivity|apply Rltb_true; exact E].
  - apply IH.
Qed.

(* ------------------------------------------------------------------ forward map *)
Section Projection.
Variable pr : projection (T:=R).
Variable e : R.
Local Notation n := (p_n pr).
Local Notation c := (p_c pr).
Local Notation lon0 := (p_lon0 pr).

Definition rho (lat : R) : R := c * exp (- n * isolat e lat).

Lemma toLambert_polar lat lon :
  toLambert ROps pr e (mkWgs lat lon) =
  mkV2 (p_xs pr + rho lat * sin (n * (lon - lon0))) (p_ys pr - rho lat * cos (n * (lon - lon0))).
Proof. reflexivity. Qed.

Lemma polar_radius_rho lat : polar_radius ROps pr e lat = rho lat.
Proof. reflexivity. Qed.

(* central meridian -> x = xs *)
Lemma central_meridian_x lat : v2x (toLambert ROps pr e (mkWgs lat lon0)) = p_xs pr.
Proof. rewrite toLambert_polar. cbn [v2x]. unfold Rminus. rewrite Rplus_opp_r, Rmult_0_r, sin_0. ring. Qed.

(* partial derivatives *)
Lemma rho_derivative lat : 0 <= e < 1 -> - PI / 2 < lat < PI / 2 ->
  is_derive rho lat (- n * ((1 - e * e) / ((1 - e * e * (sin lat * sin lat)) * cos lat)) * rho lat).
Proof.
  intros He Hl. pose proof (isolat_derivative e lat He Hl) as D.
  unfold rho. auto_derive.
  - exists ((1 - e * e) / ((1 - e * e * (sin lat * sin lat)) * cos lat)). exact D.
  - rewrite (is_derive_unique (fun x : R => isolat e x) lat _ D). ring.
Qed.

Lemma toLambert_dlat lat lon : 0 <= e < 1 -> - PI / 2 < lat < PI / 2 ->
  let dr := - n * ((1 - e * e) / ((1 - e * e * (sin lat * sin lat)) * cos lat)) * rho lat in
  is_derive (fun x => v2x (toLambert ROps pr e (mkWgs x lon))) lat (dr * sin (n * (lon - lon0))) /\
  is_derive (fun x => v2y (toLambert ROps pr e (mkWgs x lon))) lat (- dr * cos (n * (lon - lon0))).
Proof.
  intros He Hl dr. pose proof (rho_derivative lat He Hl) as D. fold dr in D.
  split.
  - apply (is_derive_ext (fun x => p_xs pr + rho x * sin (n * (lon - lon0)))); [intros t; reflexivity|].
    auto_derive; [exists dr; exact D|]. rewrite (is_derive_unique (fun x : R => rho x) lat _ D). ring.
  - apply (is_derive_ext (fun x => p_ys pr - rho x * cos (n * (lon - lon0)))); [intros t; reflexivity|].
    auto_derive; [exists dr; exact D|]. rewrite (is_derive_unique (fun x : R => rho x) lat _ D). ring.
Qed.

Lemma toLambert_dlon lat lon :
  is_derive (fun l => v2x (toLambert ROps pr e (mkWgs lat l))) lon (n * rho lat * cos (n * (lon - lon0))) /\
  is_derive (fun l => v2y (toLambert ROps pr e (mkWgs lat l))) lon (n * rho lat * sin (n * (lon - lon0))).
Proof.
  split.
  - apply (is_derive_ext (fun l => p_xs pr + rho lat * sin (n * (l - lon0)))); [intros t; reflexivity|].
    auto_derive; [exact I|unfold Rminus; ring].
  - apply (is_derive_ext (fun l => p_ys pr - rho lat * cos (n * (l - lon0)))); [intros t; reflexivity|].
    auto_derive; [exact I|unfold Rminus; ring].
Qed.

(* ---- inverse ---- *)
Lemma rho_of_toLambert lat lon : rho_of ROps pr (toLambert ROps pr e (mkWgs lat lon)) = Rabs (rho lat).
Proof.
  rewrite toLambert_polar. unfold rho_of, pow2. cbn.
  set (g := n * (lon - lon0)).
  replace ((p_xs pr + rho lat * sin g - p_xs pr) * (p_xs pr + rho lat * sin g - p_xs pr) +
           (p_ys pr - rho lat * cos g - p_ys pr) * (p_ys pr - rho lat * cos g - p_ys pr))
    with (Rsqr (rho lat)).
  - apply sqrt_Rsqr_abs.
  - unfold Rsqr. pose proof (cos_sq_eq g). nra.
Qed.

Lemma theta_of_toLambert lat lon : c <> 0 -> - PI / 2 < n * (lon - lon0) < PI / 2 ->
  theta_of ROps pr (toLambert ROps pr e (mkWgs lat lon)) = n * (lon - lon0).
Proof.
  intros Hc Hg. rewrite toLambert_polar. unfold theta_of. cbn.
  set (g := n * (lon - lon0)) in *.
  assert (Hr : rho lat <> 0).
  { unfold rho. apply Rmult_integral_contrapositive_currified; [exact Hc|]. pose proof (exp_pos (- n * isolat e lat)). lra. }
  pose proof (cos_pos_lat g Hg) as Cg.
  match goal with |- atan ?x = _ => replace x with (sin g / cos g) end.
  - apply atan_tan_quot. exact Hg.
  - field. split; [|lra].
    replace (p_ys pr - (p_ys pr - rho lat * cos g)) with (rho lat * cos g) by ring.
    apply Rmult_integral_contrapositive_currified; lra.
Qed.

Lemma isolat_recovered lat lon : c <> 0 -> n <> 0 ->
  - ln (rho_of ROps pr (toLambert ROps pr e (mkWgs lat lon)) / Rabs c) / n = isolat e lat.
Proof.
  intros Hc Hn. rewrite rho_of_toLambert. unfold rho. rewrite Rabs_mult.
  rewrite (Rabs_pos_eq (exp _)) by (left; apply exp_pos).
  replace (Rabs c * exp (- n * isolat e lat) / Rabs c) with (exp (- n * isolat e lat)).
  - rewrite ln_exp. field. exact Hn.
  - field. apply Rabs_no_R0. exact Hc.
Qed.

(* toWGS84 after toLambert: isometric latitude and longitude are recovered exactly, on cones of either
   hemisphere (c, n of any sign); what remains is the latitude iteration on the exact isometric latitude *)
Lemma toWGS84_of_toLambert fuel lat lon : c <> 0 -> n <> 0 -> - PI / 2 < n * (lon - lon0) < PI / 2 ->
  toWGS84 ROps fuel pr e (toLambert ROps pr e (mkWgs lat lon)) =
  match computeLatitude ROps fuel (isolat e lat) e with
  | Some l => Some (mkWgs l lon) | None => None end.
Proof.
  intros Hc Hn Hg. unfold toWGS84.
  change (nneg ROps (nln ROps (ndiv ROps (rho_of ROps pr (toLambert ROps pr e (mkWgs lat lon))) (nabs ROps c))))
    with (- ln (rho_of ROps pr (toLambert ROps pr e (mkWgs lat lon)) / Rabs c)).
  change (ndiv ROps (- ln (rho_of ROps pr (toLambert ROps pr e (mkWgs lat lon)) / Rabs c)) n)
    with (- ln (rho_of ROps pr (toLambert ROps pr e (mkWgs lat lon)) / Rabs c) / n).
  rewrite (isolat_recovered lat lon Hc Hn).
  destruct (computeLatitude ROps fuel (isolat e lat) e) as [l|]; [|reflexivity].
  f_equal. f_equal. cbn [nadd ndiv ROps]. rewrite (theta_of_toLambert lat lon Hc Hg). field. exact Hn.
Qed.

(* the unrepaired inverse is undefined at every point when c < 0 (southern cones) *)
Lemma toWGS84_old_south fuel v : c < 0 -> toWGS84_old ROps fuel pr e v = None.
Proof.
  intros Hc. unfold toWGS84_old. cbn [nltb nzero ndiv ROps].
  rewrite (proj2 (Rltb_false _ _)); [reflexivity|].
  assert (0 <= rho_of ROps pr v) by (unfold rho_of; cbn; apply sqrt_pos).
  unfold Rdiv. assert (/ c < 0) by (apply Rinv_lt_0_compat; exact Hc). nra.
Qed.

(* and coincides with the repaired one when c > 0 and the point is not the pole of the map *)
Lemma toWGS84_old_north fuel v : 0 < c -> 0 < rho_of ROps pr v ->
  toWGS84_old ROps fuel pr e v = toWGS84 ROps fuel pr e v.
Proof.
  intros Hc Hr. unfold toWGS84_old, toWGS84. cbn [nltb nzero ndiv nabs ROps].
  rewrite (proj2 (Rltb_true _ _)) by (apply Rdiv_lt_0_compat; assumption).
  rewrite (Rabs_pos_eq c) by lra. reflexivity.
Qed.

End Projection.

(* ------------------------------------------------------------------ radii of curvature of EarthEllipsoid *)
Lemma Rpower_three_halves x : 0 < x -> Rpower x (15 * / 10) = x * sqrt x.
Proof.
  intros Hx. replace (15 * / 10) with (1 + / 2) by field.
  rewrite Rpower_plus, Rpower_1, Rpower_sqrt by exact Hx. reflexivity.
Qed.

Section Radii.
Variable el : ellipsoid (T:=R).
Hypothesis Ha : 0 < el_a el.
Hypothesis He : 0 <= el_e el < 1.
Hypothesis Hee : el_e el * el_e el = el_e2 el.
Local Notation a := (el_a el).
Local Notation e := (el_e el).

Definition w2 (lat : R) : R := 1 - e * e * (sin lat * sin lat).

Lemma w2_positive lat : 0 < w2 lat.
Proof. apply one_minus_e2s2_pos. exact He. Qed.

Lemma meridionalRadius_eq lat : meridionalRadius ROps el lat = a * (1 - e * e) / (w2 lat * sqrt (w2 lat)).
Proof.
  unfold meridionalRadius, pow2, meridional_radius_exponent_m, meridional_radius_exponent_e.
  cbn [nmul nsub ndiv npow nsin n_one nofDec ROps]. rewrite <- Hee.
  replace (1 - e * sin lat * (e * sin lat)) with (w2 lat) by (unfold w2; ring).
  replace (IZR 15 * powerRZ 10 (-1)) with (15 * / 10) by (eval_dec; lra).
  rewrite Rpower_three_halves by apply w2_positive. reflexivity.
Qed.

Lemma transversalRadius_eq lat : transversalRadius ROps el lat = a * cos lat / sqrt (w2 lat).
Proof.
  unfold transversalRadius, pow2. cbn [nmul nsub ndiv nsqrt nsin ncos n_one ROps].
  replace (1 - e * sin lat * (e * sin lat)) with (w2 lat) by (unfold w2; ring). reflexivity.
Qed.

Lemma grandeNormale_eq lat : grandeNormale ROps lat a e = a / sqrt (w2 lat).
Proof.
  unfold grandeNormale, pow2. cbn [nmul nsub ndiv nsqrt nsin n_one ROps].
  replace (1 - e * sin lat * (e * sin lat)) with (w2 lat) by (unfold w2; ring). reflexivity.
Qed.

(* ---- conformality: the images of meridian and parallel are orthogonal and equally scaled ---- *)
Lemma conformal_algebra (pr : projection (T:=R)) lat lon : - PI / 2 < lat < PI / 2 ->
  let g := p_n pr * (lon - p_lon0 pr) in
  let dr := - p_n pr * ((1 - e * e) / ((1 - e * e * (sin lat * sin lat)) * cos lat)) * rho pr e lat in
  let xlat := dr * sin g in let ylat := - dr * cos g in
  let xlon := p_n pr * rho pr e lat * cos g in let ylon := p_n pr * rho pr e lat * sin g in
  let M := meridionalRadius ROps el lat in let Nc := transversalRadius ROps el lat in
  xlat * xlon + ylat * ylon = 0 /\
  (xlat * xlat + ylat * ylat) / (M * M) = (xlon * xlon + ylon * ylon) / (Nc * Nc) /\
  (xlon * xlon + ylon * ylon) / (Nc * Nc) = Rsqr (p_n pr * rho pr e lat / Nc) /\
  0 <= xlon * ylat - ylon * xlat.
Proof.
  intros Hl g dr xlat ylat xlon ylon M Nc.
  pose proof (w2_positive lat) as W2. pose proof (cos_pos_lat lat Hl) as Cp.
  pose proof (cos_sq_eq g) as Cg.
  assert (Sw : sqrt (w2 lat) * sqrt (w2 lat) = w2 lat) by (apply sqrt_sqrt; lra).
  assert (Swp : 0 < sqrt (w2 lat)) by (apply sqrt_lt_R0; exact W2).
  assert (E1 : 0 < 1 - e * e) by nra.
  unfold M, Nc. rewrite meridionalRadius_eq, transversalRadius_eq.
  fold (w2 lat) in dr. set (w := sqrt (w2 lat)) in *. set (r := rho pr e lat) in *.
  set (nn := p_n pr) in *.
  assert (W2e : w2 lat = w * w) by lra. clearbody w.
  split; [|split; [|split]].
  - unfold xlat, ylat, xlon, ylon. ring.
  - unfold xlat, ylat, xlon, ylon, dr. rewrite W2e.
    replace (sin g * sin g) with (1 - cos g * cos g) by lra.
    field. repeat split; lra.
  - unfold xlon, ylon, Rsqr.
    replace (nn * r * cos g * (nn * r * cos g) + nn * r * sin g * (nn * r * sin g))
      with (nn * r * (nn * r) * (cos g * cos g + sin g * sin g)) by ring.
    replace (cos g * cos g + sin g * sin g) with 1 by lra.
    field. repeat split; lra.
  - unfold xlat, ylat, xlon, ylon, dr. rewrite W2e.
    set (k := (1 - e * e) / (w * w * cos lat)).
    assert (Hk : 0 < k).
    { apply Rdiv_lt_0_compat; [lra|]. apply Rmult_lt_0_compat; [nra|lra]. }
    replace (nn * r * cos g * (- (- nn * k * r) * cos g) - nn * r * sin g * (- nn * k * r * sin g))
      with ((nn * r) * (nn * r) * k * (cos g * cos g + sin g * sin g)) by ring.
    replace (cos g * cos g + sin g * sin g) with 1 by lra.
    assert (0 <= nn * r * (nn * r)) by nra. nra.
Qed.

End Radii.

(* ------------------------------------------------------------------ scale on the defining parallels, origin *)
(* signed parallel scale: n * rho(lat) / (N(lat) cos(lat)); its square is the squared local scale (conformal_algebra) *)
Definition parallel_scale (pr : projection (T:=R)) (el : ellipsoid (T:=R)) (lat : R) : R :=
  p_n pr * rho pr (el_e el) lat / transversalRadius ROps el lat.

Section Constructors.
Variable el : ellipsoid (T:=R).
Hypothesis Ha : 0 < el_a el.
Hypothesis He : 0 <= el_e el < 1.
Local Notation a := (el_a el).
Local Notation e := (el_e el).

Lemma normale_cos_pos lat : - PI / 2 < lat < PI / 2 -> 0 < grandeNormale ROps lat a e * cos lat.
Proof.
  intros Hl. rewrite (grandeNormale_eq el). pose proof (w2_positive el He lat) as W.
  apply Rmult_lt_0_compat; [|apply cos_pos_lat; exact Hl].
  apply Rdiv_lt_0_compat; [exact Ha|apply sqrt_lt_R0; exact W].
Qed.

Lemma normale_cos_is_transversal lat :
  transversalRadius ROps el lat = grandeNormale ROps lat a e * cos lat.
Proof.
  rewrite (transversalRadius_eq el), (grandeNormale_eq el). pose proof (w2_positive el He lat) as W.
  assert (0 < sqrt (w2 el lat)) by (apply sqrt_lt_R0; exact W). field. lra.
Qed.

Lemma secant_unfold sp :
  let A1 := grandeNormale ROps (sp_lat1 sp) a e * cos (sp_lat1 sp) in
  let A2 := grandeNormale ROps (sp_lat2 sp) a e * cos (sp_lat2 sp) in
  let L1 := isolat e (sp_lat1 sp) in let L2 := isolat e (sp_lat2 sp) in
  let n := ln (A2 / A1) / (L1 - L2) in
  p_n (secant_projection ROps sp el) = n /\
  p_c (secant_projection ROps sp el) = A1 / n * exp (n * L1) /\
  p_xs (secant_projection ROps sp el) = sp_x0 sp /\
  p_lon0 (secant_projection ROps sp el) = sp_lon0 sp.
Proof. cbv zeta. repeat split; reflexivity. Qed.

(* scale 1 on both standard parallels *)
Lemma secant_true_scale sp :
  - PI / 2 < sp_lat1 sp < PI / 2 -> - PI / 2 < sp_lat2 sp < PI / 2 ->
  isolat e (sp_lat1 sp) <> isolat e (sp_lat2 sp) ->
  p_n (secant_projection ROps sp el) <> 0 ->
  parallel_scale (secant_projection ROps sp el) el (sp_lat1 sp) = 1 /\
  parallel_scale (secant_projection ROps sp el) el (sp_lat2 sp) = 1.
Proof.
  intros H1 H2 HL Hn. destruct (secant_unfold sp) as [En [Ec _]]. cbv zeta in En, Ec.
  pose proof (normale_cos_pos _ H1) as P1. pose proof (normale_cos_pos _ H2) as P2.
  unfold parallel_scale, rho. rewrite !normale_cos_is_transversal. rewrite Ec.
  set (A1 := grandeNormale ROps (sp_lat1 sp) a e * cos (sp_lat1 sp)) in *.
  set (A2 := grandeNormale ROps (sp_lat2 sp) a e * cos (sp_lat2 sp)) in *.
  set (L1 := isolat e (sp_lat1 sp)) in *. set (L2 := isolat e (sp_lat2 sp)) in *.
  rewrite En in *. set (n := ln (A2 / A1) / (L1 - L2)) in *.
  split.
  - replace (n * (A1 / n * exp (n * L1) * exp (- n * L1)) / A1) with (exp (n * L1) * exp (- n * L1)) by (field; split; lra).
    rewrite <- exp_plus. replace (n * L1 + - n * L1) with 0 by ring. apply exp_0.
  - replace (n * (A1 / n * exp (n * L1) * exp (- n * L2)) / A2) with (A1 / A2 * (exp (n * L1) * exp (- n * L2))) by (field; split; lra).
    rewrite <- exp_plus. replace (n * L1 + - n * L2) with (ln (A2 / A1)) by (unfold n; field; lra).
    rewrite exp_ln by (apply Rdiv_lt_0_compat; lra). field. split; lra.
Qed.

(* scale k0 on the tangent parallel *)
Lemma tangent_scale tp : - PI / 2 < tp_lat0 tp < PI / 2 -> sin (tp_lat0 tp) <> 0 ->
  parallel_scale (tangent_projection ROps tp el) el (tp_lat0 tp) = tp_k0 tp.
Proof.
  intros H0 Hs. pose proof (normale_cos_pos _ H0) as P0. pose proof (cos_pos_lat _ H0) as C0.
  unfold parallel_scale, rho. rewrite normale_cos_is_transversal.
  cbn [tangent_projection p_n p_c nsin ncos nmul ndiv nexp ROps].
  fold (isolat e (tp_lat0 tp)).
  set (N0 := grandeNormale ROps (tp_lat0 tp) a e) in *. set (L0 := isolat e (tp_lat0 tp)).
  set (s := sin (tp_lat0 tp)) in *. set (c0 := cos (tp_lat0 tp)) in *.
  assert (N0 <> 0) by (intro Z; rewrite Z in P0; lra).
  replace (s * (tp_k0 tp * N0 * (c0 / s) * exp (s * L0) * exp (- s * L0)) / (N0 * c0))
    with (tp_k0 tp * (exp (s * L0) * exp (- s * L0))) by (field; repeat split; lra).
  rewrite <- exp_plus. replace (s * L0 + - s * L0) with 0 by ring. rewrite exp_0. ring.
Qed.

(* the projection origin maps to the false origin *)
Lemma secant_ys sp : pole_eps ROps < Rabs (sp_lat0 sp - PI / 2) ->
  let pr := secant_projection ROps sp el in
  p_ys pr = sp_y0 sp + p_c pr * exp (- p_n pr * isolat e (sp_lat0 sp)) /\ p_xs pr = sp_x0 sp /\ p_lon0 pr = sp_lon0 sp.
Proof.
  intros Hb pr.
  assert (B : nltb ROps (pole_eps ROps) (nabs ROps (nsub ROps (sp_lat0 sp) (half_pi ROps))) = true).
  { cbn [nltb nabs nsub ROps]. apply Rltb_true. unfold half_pi, ntwo. cbn [ndiv npi nadd n_one ROps].
    replace (1 + 1) with 2 by ring. exact Hb. }
  unfold pr, secant_projection. cbn [p_ys p_xs p_lon0 p_c p_n]. rewrite B. repeat split; reflexivity.
Qed.

Lemma secant_origin sp : pole_eps ROps < Rabs (sp_lat0 sp - PI / 2) ->
  toLambert ROps (secant_projection ROps sp el) e (mkWgs (sp_lat0 sp) (sp_lon0 sp)) = mkV2 (sp_x0 sp) (sp_y0 sp).
Proof.
  intros Hb. destruct (secant_ys sp Hb) as [Ey [Ex El]]. cbv zeta in Ey, Ex, El.
  rewrite toLambert_polar. unfold rho. rewrite Ey, Ex, El.
  set (pr := secant_projection ROps sp el).
  replace (p_n pr * (sp_lon0 sp - sp_lon0 sp)) with 0 by ring. rewrite sin_0, cos_0. f_equal; ring.
Qed.

Lemma tangent_origin tp :
  toLambert ROps (tangent_projection ROps tp el) e (mkWgs (tp_lat0 tp) (tp_lon0 tp)) = mkV2 (tp_x0 tp) (tp_y0 tp).
Proof.
  rewrite toLambert_polar. unfold rho.
  set (pr := tangent_projection ROps tp el).
  assert (En : p_n pr = sin (tp_lat0 tp)) by reflexivity.
  set (K := tp_k0 tp * grandeNormale ROps (tp_lat0 tp) a e * (cos (tp_lat0 tp) / sin (tp_lat0 tp))).
  assert (Ec : p_c pr = K * exp (p_n pr * isolat e (tp_lat0 tp))) by reflexivity.
  assert (Ey : p_ys pr = tp_y0 tp + K) by reflexivity.
  assert (Ex : p_xs pr = tp_x0 tp) by reflexivity.
  assert (El : p_lon0 pr = tp_lon0 tp) by reflexivity.
  rewrite Ey, Ex, El, Ec.
  replace (p_n pr * (tp_lon0 tp - tp_lon0 tp)) with 0 by ring. rewrite sin_0, cos_0.
  set (n := p_n pr). set (L0 := isolat e (tp_lat0 tp)).
  assert (EE : exp (n * L0) * exp (- n * L0) = 1).
  { rewrite <- exp_plus. replace (n * L0 + - n * L0) with 0 by ring. apply exp_0. }
  f_equal; [ring|].
  replace (tp_y0 tp + K - K * exp (n * L0) * exp (- n * L0) * 1) with (tp_y0 tp + K - K * (exp (n * L0) * exp (- n * L0))) by ring.
  rewrite EE. ring.
Qed.

(* the central meridian maps onto x = x0 *)
Lemma secant_central_meridian sp lat :
  v2x (toLambert ROps (secant_projection ROps sp el) e (mkWgs lat (sp_lon0 sp))) = sp_x0 sp.
Proof. exact (central_meridian_x (secant_projection ROps sp el) e lat). Qed.

Lemma tangent_central_meridian tp lat :
  v2x (toLambert ROps (tangent_projection ROps tp el) e (mkWgs lat (tp_lon0 tp))) = tp_x0 tp.
Proof. exact (central_meridian_x (tangent_projection ROps tp el) e lat). Qed.

End Constructors.
