(* Conc.v — C19: lock discipline implies data-race freedom, for every interleaving.
   Threads run action lists (the method bodies regenerated from the clang AST into gen/ConcFacts.v) over one object
   with one mutex; small-step interleaving semantics at action granularity.  Atomic / self-synchronised members are
   left out by the translator, so every Rd/Wr here is a plain (non-atomic) access. *)
From Coq Require Import String.
From Coq Require Import List Arith Bool Lia.
Import ListNotations.
(* actions of a method body on one object with one mutex; fields are plain (non-atomic) *)
Inductive action := Lock | Unlock | Rd (f:nat) | Wr (f:nat).
(* syntactic lock discipline, scanning with a held flag *)
Fixpoint guarded (held:bool) (l:list action) : bool :=
  match l with
  | [] => negb held
  | Lock :: r => negb held && guarded true r
  | Unlock :: r => held && guarded false r
  | Rd _ :: r | Wr _ :: r => held && guarded held r
  end.
(* global state: who holds the lock, and what each thread still has to run *)
Record gstate := { holder : option nat; todo : list (list action) }.
Definition upd {A} (l:list A) (t:nat) (v:A) := firstn t l ++ v :: skipn (S t) l.
Inductive step : gstate -> gstate -> Prop :=
| s_lock t r st : nth_error (todo st) t = Some (Lock :: r) -> holder st = None ->
    step st {| holder := Some t; todo := upd (todo st) t r |}
| s_unlock t r st : nth_error (todo st) t = Some (Unlock :: r) -> holder st = Some t ->
    step st {| holder := None; todo := upd (todo st) t r |}
| s_rd t f r st : nth_error (todo st) t = Some (Rd f :: r) ->
    step st {| holder := holder st; todo := upd (todo st) t r |}
| s_wr t f r st : nth_error (todo st) t = Some (Wr f :: r) ->
    step st {| holder := holder st; todo := upd (todo st) t r |}.
Inductive reach (s0:gstate) : gstate -> Prop :=
| r0 : reach s0 s0 | rS a b : reach s0 a -> step a b -> reach s0 b.
Definition access (a:action) : option (nat*bool) := match a with Rd f => Some (f,false) | Wr f => Some (f,true) | _ => None end.
Definition race (st:gstate) := exists t1 t2 a1 r1 a2 r2 f w1 w2, t1 <> t2 /\
  nth_error (todo st) t1 = Some (a1::r1) /\ nth_error (todo st) t2 = Some (a2::r2) /\
  access a1 = Some (f,w1) /\ access a2 = Some (f,w2) /\ (w1 || w2 = true).
Definition inv (st:gstate) := forall t l, nth_error (todo st) t = Some l ->
  guarded (match holder st with Some h => Nat.eqb h t | None => false end) l = true.
Lemma nth_firstn {A} (l:list A) t u : u < t -> nth_error (firstn t l) u = nth_error l u.
Proof. revert t u. induction l as [|x l IH]; intros [|t] [|u] H; simpl; try lia; try reflexivity. apply IH; lia. Qed.
Lemma nth_skipn {A} (l:list A) n k : nth_error (skipn n l) k = nth_error l (n + k).
Proof. revert l. induction n as [|n IH]; intros [|x l]; simpl; try reflexivity; [destruct k; reflexivity|apply IH]. Qed.
Lemma nth_upd_same {A} (l:list A) t v x : nth_error l t = Some x -> nth_error (upd l t v) t = Some v.
Proof. intros H. unfold upd. assert (t < length l) by (apply nth_error_Some; congruence).
  rewrite nth_error_app2; rewrite firstn_length_le by lia; [|lia]. now rewrite Nat.sub_diag. Qed.
Lemma nth_upd_other {A} (l:list A) t u v : u <> t -> t < length l -> nth_error (upd l t v) u = nth_error l u.
Proof. intros Hne Hlt. unfold upd. destruct (Nat.lt_ge_cases u t) as [H|H].
  - rewrite nth_error_app1 by (rewrite firstn_length_le; lia). apply nth_firstn; lia. 
  - rewrite nth_error_app2 by (rewrite firstn_length_le; lia). rewrite firstn_length_le by lia.
    destruct (u - t) as [|k] eqn:E; [lia|]. cbn [nth_error]. rewrite nth_skipn. f_equal. lia. Qed.
Lemma inv_step a b : inv a -> step a b -> inv b.
Proof.
  intros I S. destruct S as [t r st H Hh|t r st H Hh|t f r st H|t f r st H]; intros u l Hu; simpl in *;
  assert (Hlt: t < length (todo st)) by (apply nth_error_Some; congruence);
  pose proof (I t _ H) as Gt; rewrite ?Hh in Gt; simpl in Gt;
  (destruct (Nat.eq_dec u t) as [->|Hne];
   [ rewrite (nth_upd_same _ _ _ _ H) in Hu; injection Hu as <-
   | rewrite nth_upd_other in Hu by assumption; pose proof (I u l Hu) as Gu; rewrite ?Hh in Gu ]).
  - (* lock, same thread *) rewrite Nat.eqb_refl. exact Gt.
  - (* lock, other thread: it was not the holder and still is not *)
    destruct (Nat.eqb_spec t u); [congruence|]. exact Gu.
  - (* unlock, same *) rewrite Nat.eqb_refl in Gt. exact Gt.
  - (* unlock, other *) destruct (Nat.eqb_spec t u); [congruence|]. exact Gu.
  - (* read, same *) destruct (holder st) as [h|]; [|discriminate].
    apply andb_prop in Gt. destruct Gt as [G1 G2]. rewrite G1 in *. exact G2.
  - exact Gu.
  - (* write, same *) destruct (holder st) as [h|]; [|discriminate].
    apply andb_prop in Gt. destruct Gt as [G1 G2]. rewrite G1 in *. exact G2.
  - exact Gu.
Qed.
Theorem well_locked_no_race progs : (forall l, In l progs -> guarded false l = true) ->
  forall st, reach {| holder := None; todo := progs |} st -> ~ race st.
Proof.
  intros WL st R. assert (I: inv st).
  { induction R as [|a b Ra IH S]; [|eapply inv_step; eauto]. intros t l Hl; simpl in *. apply WL. eapply nth_error_In; eauto. }
  intros (t1&t2&a1&r1&a2&r2&f&w1&w2&Hne&H1&H2&A1&A2&_).
  pose proof (I _ _ H1) as G1. pose proof (I _ _ H2) as G2.
  destruct (holder st) as [h|].
  - assert (E1: Nat.eqb h t1 = true) by (destruct a1; try discriminate; simpl in G1; apply andb_prop in G1; tauto).
    assert (E2: Nat.eqb h t2 = true) by (destruct a2; try discriminate; simpl in G2; apply andb_prop in G2; tauto).
    apply Nat.eqb_eq in E1, E2. congruence.
  - destruct a1; try discriminate; simpl in G1; discriminate.
Qed.

(* ------------------------------------------------------------------ classes as produced by the translator *)
Record cls := { cname : string; cmethods : list (string * list action) }.

Definition class_ok (c : cls) : bool := forallb (fun m => guarded false (snd m)) (cmethods c).

Lemma guarded_app l1 : forall l2, guarded false l1 = true -> guarded false l2 = true -> guarded false (l1 ++ l2) = true.
Proof.
  assert (G : forall h l2, guarded h l1 = true -> guarded false l2 = true -> guarded h (l1 ++ l2) = true).
  { induction l1 as [|a l1 IH]; intros h l2 H1 H2; cbn [app guarded] in *.
    - destruct h; [discriminate|exact H2].
    - destruct a; destruct h; cbn [negb andb] in *; try discriminate; apply IH; assumption. }
  intros l2. apply G.
Qed.

(* a thread performs any sequence of operations of the class *)
Inductive thread_of (c : cls) : list action -> Prop :=
| t_nil : thread_of c []
| t_call m body rest : In (m, body) (cmethods c) -> thread_of c rest -> thread_of c (body ++ rest).

Lemma thread_guarded c l : class_ok c = true -> thread_of c l -> guarded false l = true.
Proof.
  intros Hok T. induction T as [|m body rest Hin T IH]; [reflexivity|].
  apply guarded_app; [|exact IH]. unfold class_ok in Hok. rewrite forallb_forall in Hok. exact (Hok (m, body) Hin).
Qed.

(* any number of threads, each calling any operations of a well-locked class any number of times, in any
   interleaving: no reachable state has two threads about to perform conflicting accesses to the same field *)
Theorem class_no_race c progs : class_ok c = true -> (forall l, In l progs -> thread_of c l) ->
  forall st, reach {| holder := None; todo := progs |} st -> ~ race st.
Proof.
  intros Hok Hth. apply well_locked_no_race. intros l Hl. apply (thread_guarded c); [exact Hok|apply Hth; exact Hl].
Qed.

(* conversely, an operation that touches a shared field outside the critical section gives a reachable race as soon
   as another thread runs an operation writing that field: the witness used when the obligation breaks *)
Definition first_unguarded (l : list action) : option nat :=
  (fix go (held : bool) (l : list action) : option nat :=
     match l with
     | [] => None
     | Lock :: r => go true r
     | Unlock :: r => go false r
     | Rd f :: r | Wr f :: r => if held then go held r else Some f
     end) false l.
