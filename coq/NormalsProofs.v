(* NormalsProofs.v — lemmas about NormalsModel.v (C09), real-number instance.
   The eigen-solver is an oracle; its contract [eig_contract] is always a hypothesis. *)
From Coq Require Import Reals ZArith List Bool Arith Lra Lia Psatz.
From Romea Require Import Num NumR NormalsModel.
Import ListNotations.
Local Open Scope R_scope.

(* ------------------------------------------------------------------ definitions *)
Fixpoint sumn (f : nat -> R) (n : nat) : R :=
  match n with O => 0 | S k => sumn f k + f k end.

(* x^T C x over the dim x dim block *)
Definition quad (dim : nat) (C : list (list R)) (x : list R) : R :=
  sumn (fun i => sumn (fun j => vcoord ROps x i * mget ROps C i j * vcoord ROps x j) dim) dim.

(* entry i of eigenvector (column) c *)
Definition vc (cols : list (list R)) (c i : nat) : R := vcoord ROps (nth c cols []) i.

(* contract of the eigen-solver oracle for the result r = (lam, cols) on the matrix C *)
Definition eig_contract (dim : nat) (C : list (list R)) (r : list R * list (list R)) : Prop :=
  let lam := fst r in
  let cols := snd r in
  length lam = dim /\
  length cols = dim /\
  (forall c, (c < dim)%nat -> length (nth c cols []) = dim) /\
  (forall a b, (a < dim)%nat -> (b < dim)%nat ->
     vdot ROps (nth a cols []) (nth b cols []) = if (a =? b)%nat then 1 else 0) /\
  (forall i j, (i < dim)%nat -> (j < dim)%nat ->
     sumn (fun c => vc cols c i * vc cols c j) dim = if (i =? j)%nat then 1 else 0) /\
  (forall c, (S c < dim)%nat -> vcoord ROps lam c <= vcoord ROps lam (S c)) /\
  (forall i j, (i < dim)%nat -> (j < dim)%nat ->
     mget ROps C i j = sumn (fun c => vc cols c i * vcoord ROps lam c * vc cols c j) dim).

(* sum of g over a list *)
Definition lsum {A : Type} (g : A -> R) (l : list A) : R := fold_right Rplus 0 (map g l).

(* ------------------------------------------------------------------ vectors *)
Lemma vdot_acc_shift : forall a b acc, vdot_acc ROps acc a b = acc + vdot ROps a b.
Proof.
  unfold vdot. induction a as [|x a IH]; intros [|y b] acc; cbn; try lra.
  rewrite IH, (IH b (0 + x * y)). lra.
Qed.

Lemma vdot_nil_l b : vdot ROps [] b = 0.
Proof. reflexivity. Qed.
Lemma vdot_nil_r a : vdot ROps a [] = 0.
Proof. destruct a; reflexivity. Qed.
Lemma vdot_cons x a y b : vdot ROps (x :: a) (y :: b) = x * y + vdot ROps a b.
Proof. unfold vdot at 1. cbn. rewrite vdot_acc_shift. lra. Qed.

Lemma vdot_comm : forall a b, vdot ROps a b = vdot ROps b a.
Proof.
  induction a as [|x a IH]; intros [|y b]; try reflexivity.
  rewrite !vdot_cons, IH. ring.
Qed.

Lemma vdot_nonneg : forall a, 0 <= vdot ROps a a.
Proof. induction a as [|x a IH]; [rewrite vdot_nil_l; lra|rewrite vdot_cons; nra]. Qed.

Lemma vdot_self_zero : forall b, vdot ROps b b = 0 -> forall a, vdot ROps a b = 0.
Proof.
  induction b as [|y b IH]; intros H a; [apply vdot_nil_r|].
  rewrite vdot_cons in H. pose proof (vdot_nonneg b) as P.
  assert (y = 0) by nra. assert (vdot ROps b b = 0) by nra.
  destruct a as [|x a]; [reflexivity|]. rewrite vdot_cons, IH by assumption. subst y. ring.
Qed.

Lemma vdot_vdivs : forall a b s, vdot ROps a (vdivs ROps b s) = vdot ROps a b / s.
Proof.
  induction a as [|x a IH]; intros [|y b] s; unfold vdivs; cbn [map];
    rewrite ?vdot_nil_l, ?vdot_nil_r; try (unfold Rdiv; ring).
  rewrite !vdot_cons. fold (vdivs ROps b s). rewrite IH. cbn. unfold Rdiv. ring.
Qed.

Lemma vdot_vneg_l : forall a b, vdot ROps (vneg ROps a) b = - vdot ROps a b.
Proof.
  induction a as [|x a IH]; intros [|y b]; unfold vneg; cbn [map];
    rewrite ?vdot_nil_l, ?vdot_nil_r; try ring.
  rewrite !vdot_cons. fold (vneg ROps a). rewrite IH. cbn. ring.
Qed.

Lemma vdot_vneg_r a b : vdot ROps a (vneg ROps b) = - vdot ROps a b.
Proof. rewrite vdot_comm, vdot_vneg_l, vdot_comm. reflexivity. Qed.

Lemma vneg_length a : length (vneg ROps a) = length a.
Proof. apply map_length. Qed.

Lemma firstn_app_len {A} (a b : list A) n : length a = n -> firstn n (a ++ b) = a.
Proof. intros <-. rewrite firstn_app, Nat.sub_diag, firstn_all. cbn. apply app_nil_r. Qed.

(* ------------------------------------------------------------------ the flip *)
Lemma flip_cart_firstn dim p col0 nin : length col0 = dim ->
  let n := firstn dim (flip_cart ROps dim p (write_normal dim col0 nin)) in
  let pc := firstn dim p in
  (n = col0 /\ vdot ROps col0 (vdivs ROps pc (vnorm ROps pc)) <= 0) \/
  (n = vneg ROps col0 /\ 0 < vdot ROps col0 (vdivs ROps pc (vnorm ROps pc))).
Proof.
  intros L. unfold flip_cart, write_normal. cbv zeta.
  rewrite (firstn_all2 col0) by lia. rewrite (firstn_app_len col0 _ dim L).
  change (ngtb ROps ?a ?b) with (Rltb b a). cbn [nzero ROps].
  destruct (Rltb 0 _) eqn:E.
  - right. apply Rltb_true in E. split; [|exact E].
    apply firstn_app_len. rewrite vneg_length. exact L.
  - left. apply Rltb_false in E. split; [|exact E]. apply firstn_app_len. exact L.
Qed.

Lemma faces_sensor_core col0 pc :
  let t := vdot ROps col0 (vdivs ROps pc (vnorm ROps pc)) in
  (t <= 0 -> vdot ROps col0 pc <= 0) /\ (0 < t -> 0 <= vdot ROps col0 pc).
Proof.
  cbv zeta. rewrite vdot_vdivs. unfold vnorm. cbn [nsqrt ROps].
  pose proof (vdot_nonneg pc) as P. pose proof (sqrt_pos (vdot ROps pc pc)) as Q.
  destruct (Req_dec (vdot ROps pc pc) 0) as [Z|NZ].
  - rewrite (vdot_self_zero pc Z col0). split; intros; lra.
  - assert (0 < sqrt (vdot ROps pc pc)) as S by (apply sqrt_lt_R0; lra).
    pose proof (Rinv_0_lt_compat _ S) as I. unfold Rdiv. split; intros H; nra.
Qed.

Lemma contract_col0 dim C lam cols : (0 < dim)%nat -> eig_contract dim C (lam, cols) ->
  length (nth 0 cols []) = dim /\ vdot ROps (nth 0 cols []) (nth 0 cols []) = 1.
Proof.
  intros D (_ & _ & HL & HO & _). split; [apply HL; exact D|]. apply (HO 0%nat 0%nat D D).
Qed.

Lemma normal_cases eig dim size p nb normal_in :
  dim = 2%nat \/ dim = 3%nat ->
  eig_contract dim (covariance ROps dim size nb) (eig (covariance ROps dim size nb)) ->
  let e := estimate_point ROps eig false dim size p nb normal_in in
  let n := firstn dim (e_normal e) in
  let col0 := nth 0 (snd (eig (covariance ROps dim size nb))) [] in
  let pc := firstn dim p in
  e_lambda e = fst (eig (covariance ROps dim size nb)) /\
  e_curvature e = curvature ROps (fst (eig (covariance ROps dim size nb))) /\
  length col0 = dim /\ vdot ROps col0 col0 = 1 /\
  ((n = col0 /\ vdot ROps col0 (vdivs ROps pc (vnorm ROps pc)) <= 0) \/
   (n = vneg ROps col0 /\ 0 < vdot ROps col0 (vdivs ROps pc (vnorm ROps pc)))).
Proof.
  intros D H. cbv zeta. unfold estimate_point.
  destruct (eig (covariance ROps dim size nb)) as [lam cols] eqn:E.
  cbn [e_normal e_lambda e_curvature fst snd].
  assert (0 < dim)%nat as D0 by lia.
  destruct (contract_col0 dim _ lam cols D0 H) as [L U].
  repeat split; try assumption; try reflexivity.
  apply flip_cart_firstn. exact L.
Qed.

Lemma normal_unit : forall eig dim size p nb normal_in,
  dim = 2%nat \/ dim = 3%nat ->
  eig_contract dim (covariance ROps dim size nb) (eig (covariance ROps dim size nb)) ->
  let n := firstn dim (e_normal (estimate_point ROps eig false dim size p nb normal_in)) in
  vdot ROps n n = 1.
Proof.
  intros eig dim size p nb normal_in D H. cbv zeta.
  destruct (normal_cases eig dim size p nb normal_in D H) as (_ & _ & L & U & [[-> _]|[-> _]]).
  - exact U.
  - rewrite vdot_vneg_l, vdot_vneg_r. lra.
Qed.

Lemma normal_faces_sensor : forall eig dim size p nb normal_in,
  dim = 2%nat \/ dim = 3%nat ->
  eig_contract dim (covariance ROps dim size nb) (eig (covariance ROps dim size nb)) ->
  let n := firstn dim (e_normal (estimate_point ROps eig false dim size p nb normal_in)) in
  vdot ROps n (firstn dim p) <= 0.
Proof.
  intros eig dim size p nb normal_in D H. cbv zeta.
  destruct (normal_cases eig dim size p nb normal_in D H) as (_ & _ & L & U & [[-> T]|[-> T]]).
  - apply (faces_sensor_core _ (firstn dim p)). exact T.
  - rewrite vdot_vneg_l. pose proof (proj2 (faces_sensor_core _ (firstn dim p)) T). lra.
Qed.


(* ------------------------------------------------------------------ explicit algebra, dim 2 and 3 *)
Definition d2 (a0 a1 x0 x1 : R) : R := a0 * x0 + a1 * x1.
Definition d3 (a0 a1 a2 x0 x1 x2 : R) : R := a0 * x0 + a1 * x1 + a2 * x2.

Lemma sq_zero x : x * x = 0 -> x = 0.
Proof. intros H. destruct (Rmult_integral _ _ H); assumption. Qed.

Lemma sq_one x : x * x = 1 -> x = 1 \/ x = -1.
Proof.
  intros H. assert ((x - 1) * (x + 1) = 0) as E by lra.
  destruct (Rmult_integral _ _ E); [left|right]; lra.
Qed.

Lemma nonneg_sum_zero p q r B Cc : 0 < p -> 0 < q -> 0 <= r -> r + p * (B * B) + q * (Cc * Cc) = 0 ->
  r = 0 /\ B = 0 /\ Cc = 0.
Proof.
  intros Hp Hq Hr H. pose proof (Rle_0_sqr B) as SB. pose proof (Rle_0_sqr Cc) as SC. unfold Rsqr in *.
  assert (0 <= p * (B * B)) by nra. assert (0 <= q * (Cc * Cc)) by nra.
  assert (p * (B * B) = 0) by lra. assert (q * (Cc * Cc) = 0) by lra.
  repeat split; [lra| |]; apply sq_zero; nra.
Qed.

Section Alg3.
Variables l0 l1 l2 a0 a1 a2 b0 b1 b2 c0 c1 c2 : R.
Hypothesis R00 : a0 * a0 + b0 * b0 + c0 * c0 = 1.
Hypothesis R11 : a1 * a1 + b1 * b1 + c1 * c1 = 1.
Hypothesis R22 : a2 * a2 + b2 * b2 + c2 * c2 = 1.
Hypothesis R01 : a0 * a1 + b0 * b1 + c0 * c1 = 0.
Hypothesis R02 : a0 * a2 + b0 * b2 + c0 * c2 = 0.
Hypothesis R12 : a1 * a2 + b1 * b2 + c1 * c2 = 0.

Lemma parseval3 x0 x1 x2 :
  d3 a0 a1 a2 x0 x1 x2 * d3 a0 a1 a2 x0 x1 x2 + d3 b0 b1 b2 x0 x1 x2 * d3 b0 b1 b2 x0 x1 x2
  + d3 c0 c1 c2 x0 x1 x2 * d3 c0 c1 c2 x0 x1 x2 = x0 * x0 + x1 * x1 + x2 * x2.
Proof.
  transitivity (x0 * x0 * (a0 * a0 + b0 * b0 + c0 * c0) + x1 * x1 * (a1 * a1 + b1 * b1 + c1 * c1)
                + x2 * x2 * (a2 * a2 + b2 * b2 + c2 * c2) + 2 * x0 * x1 * (a0 * a1 + b0 * b1 + c0 * c1)
                + 2 * x0 * x2 * (a0 * a2 + b0 * b2 + c0 * c2) + 2 * x1 * x2 * (a1 * a2 + b1 * b2 + c1 * c2)).
  - unfold d3. ring.
  - rewrite R00, R11, R22, R01, R02, R12. ring.
Qed.

Lemma resolve3 x0 x1 x2 :
  let A := d3 a0 a1 a2 x0 x1 x2 in let B := d3 b0 b1 b2 x0 x1 x2 in let Cc := d3 c0 c1 c2 x0 x1 x2 in
  x0 = A * a0 + B * b0 + Cc * c0 /\ x1 = A * a1 + B * b1 + Cc * c1 /\ x2 = A * a2 + B * b2 + Cc * c2.
Proof.
  cbv zeta. repeat split.
  - transitivity (x0 * (a0 * a0 + b0 * b0 + c0 * c0) + x1 * (a0 * a1 + b0 * b1 + c0 * c1)
                  + x2 * (a0 * a2 + b0 * b2 + c0 * c2)); [rewrite R00, R01, R02; ring|unfold d3; ring].
  - transitivity (x0 * (a0 * a1 + b0 * b1 + c0 * c1) + x1 * (a1 * a1 + b1 * b1 + c1 * c1)
                  + x2 * (a1 * a2 + b1 * b2 + c1 * c2)); [rewrite R01, R11, R12; ring|unfold d3; ring].
  - transitivity (x0 * (a0 * a2 + b0 * b2 + c0 * c2) + x1 * (a1 * a2 + b1 * b2 + c1 * c2)
                  + x2 * (a2 * a2 + b2 * b2 + c2 * c2)); [rewrite R02, R12, R22; ring|unfold d3; ring].
Qed.

Lemma rayleigh3 x0 x1 x2 : l0 <= l1 -> l1 <= l2 -> x0 * x0 + x1 * x1 + x2 * x2 = 1 ->
  l0 <= l0 * (d3 a0 a1 a2 x0 x1 x2 * d3 a0 a1 a2 x0 x1 x2) + l1 * (d3 b0 b1 b2 x0 x1 x2 * d3 b0 b1 b2 x0 x1 x2)
        + l2 * (d3 c0 c1 c2 x0 x1 x2 * d3 c0 c1 c2 x0 x1 x2).
Proof.
  intros L01 L12 U. pose proof (parseval3 x0 x1 x2) as P. rewrite U in P.
  set (A := d3 a0 a1 a2 x0 x1 x2) in *. set (B := d3 b0 b1 b2 x0 x1 x2) in *.
  set (Cc := d3 c0 c1 c2 x0 x1 x2) in *.
  pose proof (Rle_0_sqr B) as SB. pose proof (Rle_0_sqr Cc) as SC. unfold Rsqr in *.
  assert (0 <= (l1 - l0) * (B * B)) by nra. assert (0 <= (l2 - l0) * (Cc * Cc)) by nra.
  replace (A * A) with (1 - B * B - Cc * Cc) by lra. lra.
Qed.

(* a unit vector orthogonal to the 2nd and 3rd eigenvector is +- the first one *)
Lemma align3 x0 x1 x2 : x0 * x0 + x1 * x1 + x2 * x2 = 1 ->
  d3 b0 b1 b2 x0 x1 x2 = 0 -> d3 c0 c1 c2 x0 x1 x2 = 0 ->
  (d3 a0 a1 a2 x0 x1 x2 = 1 /\ x0 = a0 /\ x1 = a1 /\ x2 = a2) \/
  (d3 a0 a1 a2 x0 x1 x2 = -1 /\ x0 = - a0 /\ x1 = - a1 /\ x2 = - a2).
Proof.
  intros U B0 C0. pose proof (parseval3 x0 x1 x2) as P. rewrite U, B0, C0 in P.
  destruct (resolve3 x0 x1 x2) as (E0 & E1 & E2). rewrite B0, C0 in E0, E1, E2.
  assert (d3 a0 a1 a2 x0 x1 x2 * d3 a0 a1 a2 x0 x1 x2 = 1) as S by lra.
  destruct (sq_one _ S) as [A1|A1]; rewrite A1 in E0, E1, E2; [left|right]; repeat split; lra.
Qed.
End Alg3.

Section Alg2.
Variables l0 l1 a0 a1 b0 b1 : R.
Hypothesis R00 : a0 * a0 + b0 * b0 = 1.
Hypothesis R11 : a1 * a1 + b1 * b1 = 1.
Hypothesis R01 : a0 * a1 + b0 * b1 = 0.

Lemma parseval2 x0 x1 :
  d2 a0 a1 x0 x1 * d2 a0 a1 x0 x1 + d2 b0 b1 x0 x1 * d2 b0 b1 x0 x1 = x0 * x0 + x1 * x1.
Proof.
  transitivity (x0 * x0 * (a0 * a0 + b0 * b0) + x1 * x1 * (a1 * a1 + b1 * b1)
                + 2 * x0 * x1 * (a0 * a1 + b0 * b1)).
  - unfold d2. ring.
  - rewrite R00, R11, R01. ring.
Qed.

Lemma resolve2 x0 x1 :
  let A := d2 a0 a1 x0 x1 in let B := d2 b0 b1 x0 x1 in
  x0 = A * a0 + B * b0 /\ x1 = A * a1 + B * b1.
Proof.
  cbv zeta. split.
  - transitivity (x0 * (a0 * a0 + b0 * b0) + x1 * (a0 * a1 + b0 * b1)); [rewrite R00, R01; ring|unfold d2; ring].
  - transitivity (x0 * (a0 * a1 + b0 * b1) + x1 * (a1 * a1 + b1 * b1)); [rewrite R01, R11; ring|unfold d2; ring].
Qed.

Lemma rayleigh2 x0 x1 : l0 <= l1 -> x0 * x0 + x1 * x1 = 1 ->
  l0 <= l0 * (d2 a0 a1 x0 x1 * d2 a0 a1 x0 x1) + l1 * (d2 b0 b1 x0 x1 * d2 b0 b1 x0 x1).
Proof.
  intros L01 U. pose proof (parseval2 x0 x1) as P. rewrite U in P.
  set (A := d2 a0 a1 x0 x1) in *. set (B := d2 b0 b1 x0 x1) in *.
  pose proof (Rle_0_sqr B) as SB. unfold Rsqr in *.
  assert (0 <= (l1 - l0) * (B * B)) by nra.
  replace (A * A) with (1 - B * B) by lra. lra.
Qed.

Lemma align2 x0 x1 : x0 * x0 + x1 * x1 = 1 -> d2 b0 b1 x0 x1 = 0 ->
  (d2 a0 a1 x0 x1 = 1 /\ x0 = a0 /\ x1 = a1) \/ (d2 a0 a1 x0 x1 = -1 /\ x0 = - a0 /\ x1 = - a1).
Proof.
  intros U B0. pose proof (parseval2 x0 x1) as P. rewrite U, B0 in P.
  destruct (resolve2 x0 x1) as (E0 & E1). rewrite B0 in E0, E1.
  assert (d2 a0 a1 x0 x1 * d2 a0 a1 x0 x1 = 1) as S by lra.
  destruct (sq_one _ S) as [A1|A1]; rewrite A1 in E0, E1; [left|right]; repeat split; lra.
Qed.
End Alg2.

(* ------------------------------------------------------------------ the contract, made explicit *)
Lemma contract_dim3 C lam cols : eig_contract 3 C (lam, cols) ->
  exists l0 l1 l2 a0 a1 a2 b0 b1 b2 c0 c1 c2,
    lam = [l0; l1; l2] /\ cols = [[a0; a1; a2]; [b0; b1; b2]; [c0; c1; c2]] /\
    l0 <= l1 /\ l1 <= l2 /\
    (a0 * a0 + b0 * b0 + c0 * c0 = 1 /\ a1 * a1 + b1 * b1 + c1 * c1 = 1 /\ a2 * a2 + b2 * b2 + c2 * c2 = 1 /\
     a0 * a1 + b0 * b1 + c0 * c1 = 0 /\ a0 * a2 + b0 * b2 + c0 * c2 = 0 /\ a1 * a2 + b1 * b2 + c1 * c2 = 0) /\
    (a0 * a0 + a1 * a1 + a2 * a2 = 1 /\ b0 * b0 + b1 * b1 + b2 * b2 = 1 /\ c0 * c0 + c1 * c1 + c2 * c2 = 1 /\
     a0 * b0 + a1 * b1 + a2 * b2 = 0 /\ a0 * c0 + a1 * c1 + a2 * c2 = 0 /\ b0 * c0 + b1 * c1 + b2 * c2 = 0).
Proof.
  intros (Ll & Lc & HL & HO & HR & HA & _). cbn [fst snd] in *.
  destruct lam as [|l0 [|l1 [|l2 [|? ?]]]]; try discriminate Ll.
  destruct cols as [|ca [|cb [|cc [|? ?]]]]; try discriminate Lc.
  pose proof (HL 0%nat ltac:(lia)) as L0. pose proof (HL 1%nat ltac:(lia)) as L1.
  pose proof (HL 2%nat ltac:(lia)) as L2. cbn [nth] in L0, L1, L2.
  destruct ca as [|a0 [|a1 [|a2 [|? ?]]]]; try discriminate L0.
  destruct cb as [|b0 [|b1 [|b2 [|? ?]]]]; try discriminate L1.
  destruct cc as [|c0 [|c1 [|c2 [|? ?]]]]; try discriminate L2.
  exists l0, l1, l2, a0, a1, a2, b0, b1, b2, c0, c1, c2.
  split; [reflexivity|]. split; [reflexivity|].
  pose proof (HA 0%nat ltac:(lia)) as A0. pose proof (HA 1%nat ltac:(lia)) as A1. cbn in A0, A1.
  pose proof (HR 0%nat 0%nat ltac:(lia) ltac:(lia)) as R00. pose proof (HR 1%nat 1%nat ltac:(lia) ltac:(lia)) as R11.
  pose proof (HR 2%nat 2%nat ltac:(lia) ltac:(lia)) as R22. pose proof (HR 0%nat 1%nat ltac:(lia) ltac:(lia)) as R01.
  pose proof (HR 0%nat 2%nat ltac:(lia) ltac:(lia)) as R02. pose proof (HR 1%nat 2%nat ltac:(lia) ltac:(lia)) as R12.
  pose proof (HO 0%nat 0%nat ltac:(lia) ltac:(lia)) as K00. pose proof (HO 1%nat 1%nat ltac:(lia) ltac:(lia)) as K11.
  pose proof (HO 2%nat 2%nat ltac:(lia) ltac:(lia)) as K22. pose proof (HO 0%nat 1%nat ltac:(lia) ltac:(lia)) as K01.
  pose proof (HO 0%nat 2%nat ltac:(lia) ltac:(lia)) as K02. pose proof (HO 1%nat 2%nat ltac:(lia) ltac:(lia)) as K12.
  unfold vc in *. cbn in R00, R11, R22, R01, R02, R12, K00, K11, K22, K01, K02, K12.
  repeat split; lra.
Qed.

Lemma contract_dim2 C lam cols : eig_contract 2 C (lam, cols) ->
  exists l0 l1 a0 a1 b0 b1,
    lam = [l0; l1] /\ cols = [[a0; a1]; [b0; b1]] /\ l0 <= l1 /\
    (a0 * a0 + b0 * b0 = 1 /\ a1 * a1 + b1 * b1 = 1 /\ a0 * a1 + b0 * b1 = 0) /\
    (a0 * a0 + a1 * a1 = 1 /\ b0 * b0 + b1 * b1 = 1 /\ a0 * b0 + a1 * b1 = 0).
Proof.
  intros (Ll & Lc & HL & HO & HR & HA & _). cbn [fst snd] in *.
  destruct lam as [|l0 [|l1 [|? ?]]]; try discriminate Ll.
  destruct cols as [|ca [|cb [|? ?]]]; try discriminate Lc.
  pose proof (HL 0%nat ltac:(lia)) as L0. pose proof (HL 1%nat ltac:(lia)) as L1. cbn [nth] in L0, L1.
  destruct ca as [|a0 [|a1 [|? ?]]]; try discriminate L0.
  destruct cb as [|b0 [|b1 [|? ?]]]; try discriminate L1.
  exists l0, l1, a0, a1, b0, b1.
  split; [reflexivity|]. split; [reflexivity|].
  pose proof (HA 0%nat ltac:(lia)) as A0. cbn in A0.
  pose proof (HR 0%nat 0%nat ltac:(lia) ltac:(lia)) as R00. pose proof (HR 1%nat 1%nat ltac:(lia) ltac:(lia)) as R11.
  pose proof (HR 0%nat 1%nat ltac:(lia) ltac:(lia)) as R01.
  pose proof (HO 0%nat 0%nat ltac:(lia) ltac:(lia)) as K00. pose proof (HO 1%nat 1%nat ltac:(lia) ltac:(lia)) as K11.
  pose proof (HO 0%nat 1%nat ltac:(lia) ltac:(lia)) as K01.
  unfold vc in *. cbn in R00, R11, R01, K00, K11, K01.
  repeat split; lra.
Qed.

Lemma quad3_expand C l0 l1 l2 a0 a1 a2 b0 b1 b2 c0 c1 c2 x0 x1 x2 :
  (forall i j, (i < 3)%nat -> (j < 3)%nat ->
     mget ROps C i j = sumn (fun c => vc [[a0; a1; a2]; [b0; b1; b2]; [c0; c1; c2]] c i * vcoord ROps [l0; l1; l2] c
                                      * vc [[a0; a1; a2]; [b0; b1; b2]; [c0; c1; c2]] c j) 3) ->
  quad 3 C [x0; x1; x2] =
  l0 * (d3 a0 a1 a2 x0 x1 x2 * d3 a0 a1 a2 x0 x1 x2) + l1 * (d3 b0 b1 b2 x0 x1 x2 * d3 b0 b1 b2 x0 x1 x2)
  + l2 * (d3 c0 c1 c2 x0 x1 x2 * d3 c0 c1 c2 x0 x1 x2).
Proof.
  intros H. unfold quad. cbn [sumn]. rewrite !H by lia. unfold vc, d3. cbn. ring.
Qed.

Lemma quad2_expand C l0 l1 a0 a1 b0 b1 x0 x1 :
  (forall i j, (i < 2)%nat -> (j < 2)%nat ->
     mget ROps C i j = sumn (fun c => vc [[a0; a1]; [b0; b1]] c i * vcoord ROps [l0; l1] c
                                      * vc [[a0; a1]; [b0; b1]] c j) 2) ->
  quad 2 C [x0; x1] =
  l0 * (d2 a0 a1 x0 x1 * d2 a0 a1 x0 x1) + l1 * (d2 b0 b1 x0 x1 * d2 b0 b1 x0 x1).
Proof.
  intros H. unfold quad. cbn [sumn]. rewrite !H by lia. unfold vc, d2. cbn. ring.
Qed.

(* Rayleigh: the first eigenvector (and its negative) attains lam_0, every unit vector is above it *)
Lemma rayleigh dim C lam cols : dim = 2%nat \/ dim = 3%nat -> eig_contract dim C (lam, cols) ->
  quad dim C (nth 0 cols []) = vcoord ROps lam 0 /\
  quad dim C (vneg ROps (nth 0 cols [])) = vcoord ROps lam 0 /\
  forall x, length x = dim -> vdot ROps x x = 1 -> vcoord ROps lam 0 <= quad dim C x.
Proof.
  intros [->| ->] H.
  - destruct (contract_dim2 C lam cols H) as (l0 & l1 & a0 & a1 & b0 & b1 & -> & -> & L01 & (R00 & R11 & R01) & (K00 & K11 & K01)).
    destruct H as (_ & _ & _ & _ & _ & _ & HC). cbn [fst snd] in HC.
    cbn [nth vneg map vcoord]. cbn [nneg ROps].
    split; [|split].
    + rewrite (quad2_expand C l0 l1 a0 a1 b0 b1 _ _ HC). unfold d2.
      replace (a0 * a0 + a1 * a1) with 1 by lra. replace (b0 * a0 + b1 * a1) with 0 by lra. ring.
    + rewrite (quad2_expand C l0 l1 a0 a1 b0 b1 _ _ HC). unfold d2.
      replace (a0 * - a0 + a1 * - a1) with (-1) by lra. replace (b0 * - a0 + b1 * - a1) with 0 by lra. ring.
    + intros x Lx Ux. destruct x as [|x0 [|x1 [|? ?]]]; try discriminate Lx.
      rewrite (quad2_expand C l0 l1 a0 a1 b0 b1 _ _ HC).
      apply rayleigh2; try assumption. cbn in Ux. lra.
  - destruct (contract_dim3 C lam cols H) as (l0 & l1 & l2 & a0 & a1 & a2 & b0 & b1 & b2 & c0 & c1 & c2 & -> & -> & L01 & L12
        & (R00 & R11 & R22 & R01 & R02 & R12) & (K00 & K11 & K22 & K01 & K02 & K12)).
    destruct H as (_ & _ & _ & _ & _ & _ & HC). cbn [fst snd] in HC.
    cbn [nth vneg map vcoord]. cbn [nneg ROps].
    split; [|split].
    + rewrite (quad3_expand C l0 l1 l2 a0 a1 a2 b0 b1 b2 c0 c1 c2 _ _ _ HC). unfold d3.
      replace (a0 * a0 + a1 * a1 + a2 * a2) with 1 by lra. replace (b0 * a0 + b1 * a1 + b2 * a2) with 0 by lra.
      replace (c0 * a0 + c1 * a1 + c2 * a2) with 0 by lra. ring.
    + rewrite (quad3_expand C l0 l1 l2 a0 a1 a2 b0 b1 b2 c0 c1 c2 _ _ _ HC). unfold d3.
      replace (a0 * - a0 + a1 * - a1 + a2 * - a2) with (-1) by lra.
      replace (b0 * - a0 + b1 * - a1 + b2 * - a2) with 0 by lra.
      replace (c0 * - a0 + c1 * - a1 + c2 * - a2) with 0 by lra. ring.
    + intros x Lx Ux. destruct x as [|x0 [|x1 [|x2 [|? ?]]]]; try discriminate Lx.
      rewrite (quad3_expand C l0 l1 l2 a0 a1 a2 b0 b1 b2 c0 c1 c2 _ _ _ HC).
      apply rayleigh3; try assumption. cbn in Ux. lra.
Qed.

Lemma normal_least_variance : forall eig dim size p nb normal_in,
  dim = 2%nat \/ dim = 3%nat ->
  eig_contract dim (covariance ROps dim size nb) (eig (covariance ROps dim size nb)) ->
  let C := covariance ROps dim size nb in
  let e := estimate_point ROps eig false dim size p nb normal_in in
  let n := firstn dim (e_normal e) in
  quad dim C n = vcoord ROps (e_lambda e) 0 /\
  forall x, length x = dim -> vdot ROps x x = 1 -> vcoord ROps (e_lambda e) 0 <= quad dim C x.
Proof.
  intros eig dim size p nb normal_in D H. cbv zeta.
  destruct (normal_cases eig dim size p nb normal_in D H) as (-> & _ & _ & _ & Hn).
  destruct (eig (covariance ROps dim size nb)) as [lam cols].
  destruct (rayleigh dim _ lam cols D H) as (Q1 & Q2 & Q3). cbn [fst snd] in *.
  split; [|exact Q3]. destruct Hn as [[-> _]|[-> _]]; assumption.
Qed.

(* ------------------------------------------------------------------ witness against the original flip rule *)

Definition wit_p : list R := [0; 0; -1/2; 1].
Definition wit_nb : list (list R) :=
  [[1; 0; -1/2; 1]; [-1; 0; -1/2; 1]; [0; 1; -1/2; 1]; [0; -1; -1/2; 1]].
Definition wit_eig : list (list R) -> list R * list (list R) :=
  fun _ => ([0; 1/2; 1/2], [[0; 0; 1]; [1; 0; 0]; [0; 1; 0]]).

Lemma wit_contract : eig_contract 3 (covariance ROps 3 4 wit_nb) (wit_eig (covariance ROps 3 4 wit_nb)).
Proof.
  unfold eig_contract, wit_eig. cbn [fst snd].
  split; [reflexivity|]. split; [reflexivity|].
  split. { intros c Hc. destruct c as [|[|[|c]]]; try lia; reflexivity. }
  split. { intros a b Ha Hb. destruct a as [|[|[|a]]]; try lia; destruct b as [|[|[|b]]]; try lia;
           cbn; lra. }
  split. { intros a b Ha Hb. destruct a as [|[|[|a]]]; try lia; destruct b as [|[|[|b]]]; try lia;
           cbn; lra. }
  split. { intros c Hc. destruct c as [|[|c]]; try lia; cbn; lra. }
  intros a b Ha Hb. destruct a as [|[|[|a]]]; try lia; destruct b as [|[|[|b]]]; try lia.
  all: cbn; lra.
Qed.

Lemma wit_old_rule :
  vdot ROps (firstn 3 (e_normal (estimate_point ROps wit_eig true 3 4 wit_p wit_nb [0;0;0;1]))) (firstn 3 wit_p) > 0.
Proof.
  unfold estimate_point, wit_eig. cbn [e_normal nth]. unfold write_normal. cbn [firstn skipn app].
  unfold flip_full. change (ngtb ROps ?a ?b) with (Rltb b a). cbn [nzero ROps].
  rewrite vdot_vdivs.
  assert (T : Rltb 0 (vdot ROps [0; 0; 1; 1] wit_p / vnorm ROps wit_p) = true).
  { apply Rltb_true. unfold vnorm, wit_p. cbn.
    assert (0 < sqrt (0 + 0 * 0 + 0 * 0 + -1 / 2 * (-1 / 2) + 1 * 1)) as S by (apply sqrt_lt_R0; lra).
    apply Rdiv_lt_0_compat; [lra|exact S]. }
  rewrite T. unfold wit_p. cbn. lra.
Qed.

Lemma normal_flip_homog_refuted :
  exists (eig : list (list R) -> list R * list (list R)) dim size p nb normal_in,
    eig_contract dim (covariance ROps dim size nb) (eig (covariance ROps dim size nb)) /\
    (size = S dim /\ length p = size /\ vcoord ROps p dim = 1 /\
     Forall (fun q => length q = size /\ vcoord ROps q dim = 1) nb) /\
    normal_in = [0; 0; 0; 1] /\
    vdot ROps (firstn dim (e_normal (estimate_point ROps eig true dim size p nb normal_in))) (firstn dim p) > 0.
Proof.
  exists wit_eig, 3%nat, 4%nat, wit_p, wit_nb, [0; 0; 0; 1].
  split; [exact wit_contract|]. split.
  { repeat split; try reflexivity. unfold wit_nb. repeat constructor. }
  split; [reflexivity|exact wit_old_rule].
Qed.

(* the repaired rule on the same witness, as a sanity check of the witness itself *)
Lemma wit_new_rule :
  vdot ROps (firstn 3 (e_normal (estimate_point ROps wit_eig false 3 4 wit_p wit_nb [0;0;0;1]))) (firstn 3 wit_p) <= 0.
Proof. apply normal_faces_sensor; [right; reflexivity|exact wit_contract]. Qed.

(* ------------------------------------------------------------------ the covariance is a variance *)
Lemma nth_map_seq {A} (f : nat -> A) n i d : (i < n)%nat -> nth i (map f (seq 0 n)) d = f i.
Proof.
  intros H. rewrite (nth_indep _ d (f 0%nat)) by (rewrite map_length, seq_length; lia).
  rewrite map_nth, seq_nth by lia. reflexivity.
Qed.

Lemma mget_covariance dim size nb i j : (i < dim)%nat -> (j < dim)%nat ->
  mget ROps (covariance ROps dim size nb) i j =
  cov_entry ROps (map (fun q => vsub ROps q (mean ROps size nb)) nb) (scalar_of_nat ROps (length nb)) i j.
Proof.
  intros Hi Hj. unfold mget, covariance, vcoord. cbv zeta.
  rewrite (nth_map_seq _ dim i) by lia. rewrite nth_map_seq by lia. reflexivity.
Qed.

Lemma fold_left_lsum {A} (g : A -> R) l : forall a, fold_left (fun acc c => acc + g c) l a = a + lsum g l.
Proof.
  induction l as [|c l IH]; intros a; unfold lsum in *; cbn; [lra|]. rewrite IH. lra.
Qed.

Lemma lsum_map {A B} (f : A -> B) (g : B -> R) l : lsum g (map f l) = lsum (fun q => g (f q)) l.
Proof. unfold lsum. rewrite map_map. reflexivity. Qed.

Lemma lsum_nonneg {A} (g : A -> R) l : (forall q, 0 <= g q) -> 0 <= lsum g l.
Proof.
  intros H. induction l as [|c l IH]; unfold lsum in *; cbn; [lra|]. pose proof (H c). lra.
Qed.

Lemma lsum_zero {A} (g : A -> R) l : (forall q, In q l -> g q = 0) -> lsum g l = 0.
Proof.
  induction l as [|c l IH]; intros H; unfold lsum in *; cbn; [reflexivity|].
  rewrite (H c) by (left; reflexivity). rewrite IH; [lra|]. intros q Hq. apply H. right. exact Hq.
Qed.

Lemma cov_entry_lsum centred k i j :
  cov_entry ROps centred k i j = lsum (fun c => vcoord ROps c i * vcoord ROps c j) centred / k.
Proof.
  unfold cov_entry. cbn [nadd nmul ndiv nzero ROps].
  rewrite (fold_left_lsum (fun c => vcoord ROps c i * vcoord ROps c j)). rewrite Rplus_0_l. reflexivity.
Qed.

Lemma scalar_INR k : scalar_of_nat ROps k = INR k.
Proof. unfold scalar_of_nat. cbn [nofZ ROps]. symmetry. apply INR_IZR_INZ. Qed.

Lemma dotfirst2 c x0 x1 : vdot ROps (firstn 2 c) [x0; x1] = vcoord ROps c 0 * x0 + vcoord ROps c 1 * x1.
Proof. destruct c as [|c0 [|c1 r]]; cbn; ring. Qed.

Lemma dotfirst3 c x0 x1 x2 :
  vdot ROps (firstn 3 c) [x0; x1; x2] = vcoord ROps c 0 * x0 + vcoord ROps c 1 * x1 + vcoord ROps c 2 * x2.
Proof. destruct c as [|c0 [|c1 [|c2 r]]]; cbn; ring. Qed.

Lemma var2 (cs : list (list R)) x0 x1 :
  let S i j := lsum (fun c => vcoord ROps c i * vcoord ROps c j) cs in
  x0 * S 0%nat 0%nat * x0 + x0 * S 0%nat 1%nat * x1 + x1 * S 1%nat 0%nat * x0 + x1 * S 1%nat 1%nat * x1
  = lsum (fun c => (vdot ROps (firstn 2 c) [x0; x1]) ^ 2) cs.
Proof.
  cbv zeta. induction cs as [|c cs IH]; unfold lsum in *; cbn [map fold_right]; [ring|].
  rewrite dotfirst2, <- IH. ring.
Qed.

Lemma var3 (cs : list (list R)) x0 x1 x2 :
  let S i j := lsum (fun c => vcoord ROps c i * vcoord ROps c j) cs in
  x0 * S 0%nat 0%nat * x0 + x0 * S 0%nat 1%nat * x1 + x0 * S 0%nat 2%nat * x2
  + x1 * S 1%nat 0%nat * x0 + x1 * S 1%nat 1%nat * x1 + x1 * S 1%nat 2%nat * x2
  + x2 * S 2%nat 0%nat * x0 + x2 * S 2%nat 1%nat * x1 + x2 * S 2%nat 2%nat * x2
  = lsum (fun c => (vdot ROps (firstn 3 c) [x0; x1; x2]) ^ 2) cs.
Proof.
  cbv zeta. induction cs as [|c cs IH]; unfold lsum in *; cbn [map fold_right]; [ring|].
  rewrite dotfirst3, <- IH. ring.
Qed.

(* x^T C x = (1/k) sum over the neighbours q of ((q - mean)_cart . x)^2 *)
Lemma quad_cov_is_variance : forall dim size nb x,
  dim = 2%nat \/ dim = 3%nat -> length x = dim ->
  quad dim (covariance ROps dim size nb) x =
  lsum (fun q => (vdot ROps (firstn dim (vsub ROps q (mean ROps size nb))) x) ^ 2) nb / INR (length nb).
Proof.
  intros dim size nb x [->| ->] Lx.
  - destruct x as [|x0 [|x1 [|? ?]]]; try discriminate Lx.
    unfold quad. cbn [sumn]. rewrite !mget_covariance by lia. rewrite !cov_entry_lsum, scalar_INR.
    change (vcoord ROps [x0; x1] 0) with x0. change (vcoord ROps [x0; x1] 1) with x1.
    set (m := mean ROps size nb).
    rewrite <- (lsum_map (fun q => vsub ROps q m) (fun c => (vdot ROps (firstn 2 c) [x0; x1]) ^ 2)).
    rewrite <- var2. unfold Rdiv. ring.
  - destruct x as [|x0 [|x1 [|x2 [|? ?]]]]; try discriminate Lx.
    unfold quad. cbn [sumn]. rewrite !mget_covariance by lia. rewrite !cov_entry_lsum, scalar_INR.
    change (vcoord ROps [x0; x1; x2] 0) with x0. change (vcoord ROps [x0; x1; x2] 1) with x1.
    change (vcoord ROps [x0; x1; x2] 2) with x2.
    set (m := mean ROps size nb).
    rewrite <- (lsum_map (fun q => vsub ROps q m) (fun c => (vdot ROps (firstn 3 c) [x0; x1; x2]) ^ 2)).
    rewrite <- var3. unfold Rdiv. ring.
Qed.

Lemma quad_cov_nonneg : forall dim size nb x,
  dim = 2%nat \/ dim = 3%nat -> length x = dim -> 0 <= quad dim (covariance ROps dim size nb) x.
Proof.
  intros dim size nb x D Lx. rewrite (quad_cov_is_variance dim size nb x D Lx).
  assert (0 <= lsum (fun q => (vdot ROps (firstn dim (vsub ROps q (mean ROps size nb))) x) ^ 2) nb) as P.
  { apply lsum_nonneg. intros q. apply pow2_ge_0. }
  destruct (length nb) as [|k].
  - cbn [INR]. unfold Rdiv. rewrite Rinv_0. lra.
  - apply Rle_mult_inv_pos; [exact P|]. apply lt_0_INR. lia.
Qed.

(* ------------------------------------------------------------------ curvature *)
Lemma lam0_nonneg dim size nb lam cols :
  dim = 2%nat \/ dim = 3%nat -> eig_contract dim (covariance ROps dim size nb) (lam, cols) ->
  0 <= vcoord ROps lam 0.
Proof.
  intros D H. destruct (rayleigh dim _ lam cols D H) as (Q1 & _ & _). rewrite <- Q1.
  apply quad_cov_nonneg; [exact D|].
  assert (0 < dim)%nat as D0 by lia. destruct (contract_col0 dim _ lam cols D0 H) as [L _]. exact L.
Qed.

Lemma curvature_range : forall eig dim size p nb normal_in,
  dim = 2%nat \/ dim = 3%nat ->
  eig_contract dim (covariance ROps dim size nb) (eig (covariance ROps dim size nb)) ->
  let e := estimate_point ROps eig false dim size p nb normal_in in
  0 < vsum ROps (e_lambda e) -> 0 <= e_curvature e <= 1 / INR dim.
Proof.
  intros eig dim size p nb normal_in D H. cbv zeta.
  destruct (normal_cases eig dim size p nb normal_in D H) as (-> & -> & _).
  destruct (eig (covariance ROps dim size nb)) as [lam cols]. cbn [fst snd].
  pose proof (lam0_nonneg dim size nb lam cols D H) as P0. unfold curvature. cbn [ndiv ROps].
  destruct D as [->| ->].
  - destruct (contract_dim2 _ lam cols H) as (l0 & l1 & a0 & a1 & b0 & b1 & -> & -> & L01 & _).
    unfold vsum. cbn in *. intros S. split.
    + apply Rle_mult_inv_pos; lra.
    + apply Rmult_le_reg_r with (0 + l0 + l1); [exact S|]. unfold Rdiv. rewrite Rmult_assoc, Rinv_l by lra. lra.
  - destruct (contract_dim3 _ lam cols H) as (l0 & l1 & l2 & a0 & a1 & a2 & b0 & b1 & b2 & c0 & c1 & c2 & -> & -> & L01 & L12 & _).
    unfold vsum. cbn in *. intros S. split.
    + apply Rle_mult_inv_pos; lra.
    + apply Rmult_le_reg_r with (0 + l0 + l1 + l2); [exact S|]. unfold Rdiv. rewrite Rmult_assoc, Rinv_l by lra. lra.
Qed.

(* ------------------------------------------------------------------ the mean, coordinate-wise *)
Lemma vadd_length : forall a b, length a = length b -> length (vadd ROps a b) = length a.
Proof. induction a as [|x a IH]; intros [|y b] H; cbn in *; try lia. rewrite IH; lia. Qed.

Lemma vcoord_vadd : forall a b i, length a = length b ->
  vcoord ROps (vadd ROps a b) i = vcoord ROps a i + vcoord ROps b i.
Proof.
  unfold vcoord. induction a as [|x a IH]; intros [|y b] i H; cbn in *; try lia.
  - destruct i; lra.
  - destruct i as [|i]; [reflexivity|]. apply IH. lia.
Qed.

Lemma vcoord_vsub : forall a b i, length a = length b ->
  vcoord ROps (vsub ROps a b) i = vcoord ROps a i - vcoord ROps b i.
Proof.
  unfold vcoord. induction a as [|x a IH]; intros [|y b] i H; cbn in *; try lia.
  - destruct i; lra.
  - destruct i as [|i]; [reflexivity|]. apply IH. lia.
Qed.

Lemma vcoord_vdivs : forall a s i, vcoord ROps (vdivs ROps a s) i = vcoord ROps a i / s.
Proof.
  unfold vcoord, vdivs. induction a as [|x a IH]; intros s i; cbn.
  - destruct i; unfold Rdiv; ring.
  - destruct i as [|i]; [reflexivity|]. apply IH.
Qed.

Lemma vcoord_repeat0 size i : vcoord ROps (repeat 0 size) i = 0.
Proof.
  unfold vcoord. revert i. induction size as [|s IH]; intros i; cbn; [destruct i; reflexivity|].
  destruct i; [reflexivity|apply IH].
Qed.

Lemma fold_vadd size nb : (forall q, In q nb -> length q = size) -> forall acc, length acc = size ->
  length (fold_left (vadd ROps) nb acc) = size /\
  forall i, vcoord ROps (fold_left (vadd ROps) nb acc) i = vcoord ROps acc i + lsum (fun q => vcoord ROps q i) nb.
Proof.
  induction nb as [|q nb IH]; intros Hl acc La; cbn [fold_left].
  - split; [exact La|]. intros i. unfold lsum. cbn. lra.
  - assert (length q = size) as Lq by (apply Hl; left; reflexivity).
    assert (length (vadd ROps acc q) = size) as L2 by (rewrite vadd_length; lia).
    destruct (IH (fun q' Hq' => Hl q' (or_intror Hq')) _ L2) as [A B]. split; [exact A|].
    intros i. rewrite B, vcoord_vadd by lia. unfold lsum. cbn. lra.
Qed.

Lemma mean_coord size nb : (forall q, In q nb -> length q = size) ->
  length (mean ROps size nb) = size /\
  forall i, vcoord ROps (mean ROps size nb) i = lsum (fun q => vcoord ROps q i) nb / INR (length nb).
Proof.
  intros Hl. unfold mean. cbn [nzero ROps].
  destruct (fold_vadd size nb Hl (repeat 0 size) (repeat_length _ _)) as [A B]. split.
  - unfold vdivs. rewrite map_length. exact A.
  - intros i. rewrite vcoord_vdivs, B, vcoord_repeat0, scalar_INR. unfold Rdiv. ring.
Qed.

Lemma lsum_lin2 {A} (g0 g1 : A -> R) m0 m1 l :
  lsum (fun q => g0 q * m0 + g1 q * m1) l = lsum g0 l * m0 + lsum g1 l * m1.
Proof. induction l as [|q l IH]; unfold lsum in *; cbn; [ring|rewrite IH; ring]. Qed.

Lemma lsum_lin3 {A} (g0 g1 g2 : A -> R) m0 m1 m2 l :
  lsum (fun q => g0 q * m0 + g1 q * m1 + g2 q * m2) l = lsum g0 l * m0 + lsum g1 l * m1 + lsum g2 l * m2.
Proof. induction l as [|q l IH]; unfold lsum in *; cbn; [ring|rewrite IH; ring]. Qed.

Lemma lsum_const_in {A} (g : A -> R) c l : (forall q, In q l -> g q = c) -> lsum g l = INR (length l) * c.
Proof.
  induction l as [|q l IH]; intros H.
  - unfold lsum. cbn. ring.
  - change (lsum g (q :: l)) with (g q + lsum g l). rewrite (H q) by (left; reflexivity).
    rewrite IH by (intros q' Hq'; apply H; right; exact Hq').
    change (length (q :: l)) with (S (length l)). rewrite S_INR. ring.
Qed.

(* if all neighbours lie in the hyperplane  m . x = c  the variance along m vanishes *)
Lemma planar_quad_zero dim size nb m c :
  dim = 2%nat \/ dim = 3%nat -> (forall q, In q nb -> length q = size) -> length m = dim ->
  (forall q, In q nb -> vdot ROps m (firstn dim q) = c) ->
  quad dim (covariance ROps dim size nb) m = 0.
Proof.
  intros D Hl Lm Hc. rewrite (quad_cov_is_variance dim size nb m D Lm).
  destruct (mean_coord size nb Hl) as [Lmean Mc].
  rewrite lsum_zero; [unfold Rdiv; ring|]. intros q Hq.
  assert (length nb <> 0%nat) as K by (destruct nb; [destruct Hq|discriminate]).
  assert (INR (length nb) <> 0) as K' by (apply not_0_INR; exact K).
  assert (vdot ROps (firstn dim (vsub ROps q (mean ROps size nb))) m = 0) as Z; [|rewrite Z; ring].
  assert (length q = length (mean ROps size nb)) as Lq by (rewrite Lmean; apply Hl; exact Hq).
  destruct D as [->| ->].
  - destruct m as [|m0 [|m1 [|? ?]]]; try discriminate Lm.
    rewrite dotfirst2, !vcoord_vsub, !Mc by exact Lq.
    pose proof (Hc q Hq) as Eq. rewrite vdot_comm, dotfirst2 in Eq.
    assert (lsum (fun q => vcoord ROps q 0) nb * m0 + lsum (fun q => vcoord ROps q 1) nb * m1
            = INR (length nb) * c) as Es.
    { rewrite <- lsum_lin2. apply lsum_const_in. intros q' Hq'.
      pose proof (Hc q' Hq') as E'. rewrite vdot_comm, dotfirst2 in E'. exact E'. }
    set (S0 := lsum (fun q => vcoord ROps q 0) nb) in *. set (S1 := lsum (fun q => vcoord ROps q 1) nb) in *.
    replace ((vcoord ROps q 0 - S0 / INR (length nb)) * m0 + (vcoord ROps q 1 - S1 / INR (length nb)) * m1)
      with ((vcoord ROps q 0 * m0 + vcoord ROps q 1 * m1) - (S0 * m0 + S1 * m1) / INR (length nb))
      by (unfold Rdiv; ring).
    rewrite Eq, Es. field. exact K'.
  - destruct m as [|m0 [|m1 [|m2 [|? ?]]]]; try discriminate Lm.
    rewrite dotfirst3, !vcoord_vsub, !Mc by exact Lq.
    pose proof (Hc q Hq) as Eq. rewrite vdot_comm, dotfirst3 in Eq.
    assert (lsum (fun q => vcoord ROps q 0) nb * m0 + lsum (fun q => vcoord ROps q 1) nb * m1
            + lsum (fun q => vcoord ROps q 2) nb * m2 = INR (length nb) * c) as Es.
    { rewrite <- lsum_lin3. apply lsum_const_in. intros q' Hq'.
      pose proof (Hc q' Hq') as E'. rewrite vdot_comm, dotfirst3 in E'. exact E'. }
    set (S0 := lsum (fun q => vcoord ROps q 0) nb) in *. set (S1 := lsum (fun q => vcoord ROps q 1) nb) in *.
    set (S2 := lsum (fun q => vcoord ROps q 2) nb) in *.
    replace ((vcoord ROps q 0 - S0 / INR (length nb)) * m0 + (vcoord ROps q 1 - S1 / INR (length nb)) * m1
             + (vcoord ROps q 2 - S2 / INR (length nb)) * m2)
      with ((vcoord ROps q 0 * m0 + vcoord ROps q 1 * m1 + vcoord ROps q 2 * m2)
            - (S0 * m0 + S1 * m1 + S2 * m2) / INR (length nb))
      by (unfold Rdiv; ring).
    rewrite Eq, Es. field. exact K'.
Qed.

(* spectral consequence: quad C m = 0 for a unit m, lam_0 >= 0, lam_1 > 0  =>  m = +- v0 and lam_0 = 0 *)
Lemma zero_direction dim C lam cols m :
  dim = 2%nat \/ dim = 3%nat -> eig_contract dim C (lam, cols) ->
  length m = dim -> vdot ROps m m = 1 -> quad dim C m = 0 ->
  0 <= vcoord ROps lam 0 -> 0 < vcoord ROps lam 1 ->
  vcoord ROps lam 0 = 0 /\ (nth 0 cols [] = m \/ nth 0 cols [] = map Ropp m).
Proof.
  intros [->| ->] H Lm Um Qm P0 P1.
  - destruct (contract_dim2 C lam cols H) as (l0 & l1 & a0 & a1 & b0 & b1 & -> & -> & L01 & (R00 & R11 & R01) & _).
    destruct H as (_ & _ & _ & _ & _ & _ & HC). cbn [fst snd] in HC.
    destruct m as [|m0 [|m1 [|? ?]]]; try discriminate Lm.
    rewrite (quad2_expand C l0 l1 a0 a1 b0 b1 _ _ HC) in Qm. cbn in P0, P1, Um. cbn [vcoord nth map].
    set (A := d2 a0 a1 m0 m1) in *. set (B := d2 b0 b1 m0 m1) in *.
    assert (0 <= l0 * (A * A)) as PA by (pose proof (Rle_0_sqr A) as SA; unfold Rsqr in SA; nra).
    destruct (nonneg_sum_zero l1 1 (l0 * (A * A)) B 0 P1 Rlt_0_1 PA ltac:(lra)) as (ZA & ZB & _).
    destruct (align2 a0 a1 b0 b1 R00 R11 R01 m0 m1 ltac:(lra) ZB) as [(EA & -> & ->)|(EA & -> & ->)];
      fold A in EA; rewrite EA in ZA.
    + split; [lra|]. left. reflexivity.
    + split; [lra|]. right. rewrite !Ropp_involutive. reflexivity.
  - destruct (contract_dim3 C lam cols H) as (l0 & l1 & l2 & a0 & a1 & a2 & b0 & b1 & b2 & c0 & c1 & c2 & -> & -> & L01 & L12
        & (R00 & R11 & R22 & R01 & R02 & R12) & _).
    destruct H as (_ & _ & _ & _ & _ & _ & HC). cbn [fst snd] in HC.
    destruct m as [|m0 [|m1 [|m2 [|? ?]]]]; try discriminate Lm.
    rewrite (quad3_expand C l0 l1 l2 a0 a1 a2 b0 b1 b2 c0 c1 c2 _ _ _ HC) in Qm. cbn in P0, P1, Um.
    cbn [vcoord nth map].
    set (A := d3 a0 a1 a2 m0 m1 m2) in *. set (B := d3 b0 b1 b2 m0 m1 m2) in *.
    set (Cc := d3 c0 c1 c2 m0 m1 m2) in *.
    assert (0 <= l0 * (A * A)) as PA by (pose proof (Rle_0_sqr A) as SA; unfold Rsqr in SA; nra).
    assert (0 < l2) as P2 by lra.
    destruct (nonneg_sum_zero l1 l2 (l0 * (A * A)) B Cc P1 P2 PA ltac:(lra)) as (ZA & ZB & ZC).
    destruct (align3 a0 a1 a2 b0 b1 b2 c0 c1 c2 R00 R11 R22 R01 R02 R12 m0 m1 m2 ltac:(lra) ZB ZC)
      as [(EA & -> & -> & ->)|(EA & -> & -> & ->)]; fold A in EA; rewrite EA in ZA.
    + split; [lra|]. left. reflexivity.
    + split; [lra|]. right. rewrite !Ropp_involutive. reflexivity.
Qed.

Lemma map_opp_opp (m : list R) : map Ropp (map Ropp m) = m.
Proof. induction m as [|x m IH]; cbn; [reflexivity|]. rewrite IH, Ropp_involutive. reflexivity. Qed.

(* exactness on planar data *)
Lemma planar_exact : forall eig dim size p nb normal_in m c,
  dim = 2%nat \/ dim = 3%nat ->
  eig_contract dim (covariance ROps dim size nb) (eig (covariance ROps dim size nb)) ->
  (forall q, In q nb -> length q = size) ->
  length m = dim -> vdot ROps m m = 1 ->
  (forall q, In q nb -> vdot ROps m (firstn dim q) = c) ->
  let e := estimate_point ROps eig false dim size p nb normal_in in
  let n := firstn dim (e_normal e) in
  0 < vcoord ROps (e_lambda e) 1 ->
  (n = m \/ n = map Ropp m) /\ e_curvature e = 0.
Proof.
  intros eig dim size p nb normal_in m c D H Hl Lm Um Hc. cbv zeta.
  destruct (normal_cases eig dim size p nb normal_in D H) as (-> & -> & _ & _ & Hn).
  destruct (eig (covariance ROps dim size nb)) as [lam cols]. cbn [fst snd] in *. intros P1.
  pose proof (lam0_nonneg dim size nb lam cols D H) as P0.
  pose proof (planar_quad_zero dim size nb m c D Hl Lm Hc) as Qm.
  destruct (zero_direction dim _ lam cols m D H Lm Um Qm P0 P1) as (Z0 & Hv). split.
  - destruct Hn as [[-> _]|[-> _]]; destruct Hv as [->| ->].
    + left; reflexivity.
    + right; reflexivity.
    + right; reflexivity.
    + left. unfold vneg. cbn [nneg ROps]. apply map_opp_opp.
  - unfold curvature. cbn [ndiv ROps]. rewrite Z0. unfold Rdiv. ring.
Qed.

(* ------------------------------------------------------------------ the original rule is right when the
   caller's extra entry (w) of the normal is 0, and for Cartesian point types *)
Lemma vdot_app : forall a b p,
  vdot ROps (a ++ b) p = vdot ROps a (firstn (length a) p) + vdot ROps b (skipn (length a) p).
Proof.
  induction a as [|x a IH]; intros b p; cbn [app length firstn skipn].
  - rewrite vdot_nil_l. lra.
  - destruct p as [|y p]; [rewrite !vdot_nil_r; lra|]. rewrite !vdot_cons, IH. lra.
Qed.

Lemma nth_skipn_plus {A} (d : A) : forall n l i, nth i (skipn n l) d = nth (n + i) l d.
Proof.
  induction n as [|n IH]; intros l i; [reflexivity|]. destruct l as [|x l]; cbn [skipn plus nth].
  - destruct i; reflexivity.
  - apply IH.
Qed.

Lemma sign_div d s : 0 <= s -> (s = 0 -> d = 0) -> (d / s <= 0 -> d <= 0) /\ (0 < d / s -> 0 <= d).
Proof.
  intros Hs Hz. destruct (Req_dec s 0) as [Z|NZ].
  - rewrite (Hz Z). split; intros; lra.
  - assert (0 < s) as S by lra. pose proof (Rinv_0_lt_compat _ S) as I. unfold Rdiv. split; intros H; nra.
Qed.

Lemma normal_faces_sensor_old_rule_w0 : forall eig dim size p nb normal_in,
  dim = 2%nat \/ dim = 3%nat ->
  eig_contract dim (covariance ROps dim size nb) (eig (covariance ROps dim size nb)) ->
  (length p <= S dim)%nat -> vcoord ROps normal_in dim = 0 ->
  let n := firstn dim (e_normal (estimate_point ROps eig true dim size p nb normal_in)) in
  vdot ROps n (firstn dim p) <= 0.
Proof.
  intros eig dim size p nb normal_in D H Lp W. cbv zeta. unfold estimate_point.
  destruct (eig (covariance ROps dim size nb)) as [lam cols]. cbn [e_normal].
  assert (0 < dim)%nat as D0 by lia.
  destruct (contract_col0 dim _ lam cols D0 H) as [L U].
  set (col0 := nth 0 cols []) in *. unfold write_normal, flip_full. rewrite (firstn_all2 col0) by lia.
  set (rest := skipn dim normal_in).
  (* the test value *)
  assert (vdot ROps (col0 ++ rest) p = vdot ROps col0 (firstn dim p)) as E.
  { rewrite vdot_app, L.
    assert (vdot ROps rest (skipn dim p) = 0) as Z; [|lra].
    assert (length (skipn dim p) <= 1)%nat as Ls by (rewrite skipn_length; lia).
    assert (nth 0 rest 0 = 0) as R0.
    { unfold rest. rewrite nth_skipn_plus, Nat.add_0_r. exact W. }
    destruct rest as [|r0 rest']; [apply vdot_nil_l|].
    destruct (skipn dim p) as [|w [|? ?]]; [apply vdot_nil_r| |cbn in Ls; lia].
    cbn in R0. subst r0. rewrite vdot_cons, vdot_nil_r. ring. }
  assert (vdot ROps p p = 0 -> vdot ROps col0 (firstn dim p) = 0) as Z0.
  { intros Z. apply vdot_self_zero.
    rewrite <- (firstn_skipn dim p) in Z at 1. rewrite vdot_app in Z.
    pose proof (vdot_nonneg (firstn dim p)) as P1.
    assert (0 <= vdot ROps (skipn dim p) (skipn (length (firstn dim p)) p)) as P2.
    { destruct (Nat.le_gt_cases dim (length p)) as [G|G].
      - rewrite firstn_length_le by exact G. apply vdot_nonneg.
      - rewrite skipn_all2 by lia. rewrite vdot_nil_l. lra. }
    assert (firstn (length (firstn dim p)) p = firstn dim p) as F.
    { destruct (Nat.le_gt_cases dim (length p)) as [G|G].
      - rewrite firstn_length_le by exact G. reflexivity.
      - rewrite firstn_length, Nat.min_r by lia. rewrite !firstn_all2 by lia. reflexivity. }
    rewrite F in Z. lra. }
  change (ngtb ROps ?a ?b) with (Rltb b a). cbn [nzero ROps].
  rewrite vdot_vdivs, E. unfold vnorm. cbn [nsqrt ROps].
  destruct (sign_div (vdot ROps col0 (firstn dim p)) (sqrt (vdot ROps p p)) (sqrt_pos _)) as [S1 S2].
  { intros Z. apply Z0. apply sqrt_eq_0; [apply vdot_nonneg|exact Z]. }
  destruct (Rltb 0 _) eqn:T.
  - apply Rltb_true in T. unfold vneg. rewrite map_app. fold (vneg ROps col0).
    rewrite firstn_app_len by (rewrite vneg_length; exact L). rewrite vdot_vneg_l.
    pose proof (S2 T). lra.
  - apply Rltb_false in T. rewrite firstn_app_len by exact L. apply S1. exact T.
Qed.

(* ------------------------------------------------------------------ rotation equivariance (covariance level) *)
Definition delta (i j : nat) : R := if (i =? j)%nat then 1 else 0.

(* Rm^T Rm = I and Rm Rm^T = I, entrywise on the dim x dim block *)
Definition is_rotation (dim : nat) (Rm : list (list R)) : Prop :=
  (forall i j, (i < dim)%nat -> (j < dim)%nat ->
     sumn (fun k => mget ROps Rm k i * mget ROps Rm k j) dim = delta i j) /\
  (forall i j, (i < dim)%nat -> (j < dim)%nat ->
     sumn (fun k => mget ROps Rm i k * mget ROps Rm j k) dim = delta i j).

(* C' = Rm C Rm^T, entrywise *)
Definition conj_by (dim : nat) (Rm C C' : list (list R)) : Prop :=
  forall i j, (i < dim)%nat -> (j < dim)%nat ->
    mget ROps C' i j = sumn (fun k => sumn (fun l => mget ROps Rm i k * mget ROps C k l * mget ROps Rm j l) dim) dim.

(* Rm x and Rm^T x *)
Definition rot_apply (dim : nat) (Rm : list (list R)) (x : list R) : list R :=
  map (fun i => sumn (fun k => mget ROps Rm i k * vcoord ROps x k) dim) (seq 0 dim).
Definition rot_applyT (dim : nat) (Rm : list (list R)) (x : list R) : list R :=
  map (fun k => sumn (fun i => mget ROps Rm i k * vcoord ROps x i) dim) (seq 0 dim).

Lemma quad_rot dim Rm C C' x : dim = 2%nat \/ dim = 3%nat -> conj_by dim Rm C C' -> length x = dim ->
  quad dim C' x = quad dim C (rot_applyT dim Rm x).
Proof.
  intros [->| ->] HC Lx.
  - destruct x as [|x0 [|x1 [|? ?]]]; try discriminate Lx.
    unfold quad, rot_applyT. cbn [sumn map seq]. rewrite !HC by lia. cbn [sumn]. cbn [vcoord nth]. ring.
  - destruct x as [|x0 [|x1 [|x2 [|? ?]]]]; try discriminate Lx.
    unfold quad, rot_applyT. cbn [sumn map seq]. rewrite !HC by lia. cbn [sumn]. cbn [vcoord nth]. ring.
Qed.

Section Rot.
Variable Rm : list (list R).
Local Notation r00 := (mget ROps Rm 0 0). Local Notation r01 := (mget ROps Rm 0 1). Local Notation r02 := (mget ROps Rm 0 2).
Local Notation r10 := (mget ROps Rm 1 0). Local Notation r11 := (mget ROps Rm 1 1). Local Notation r12 := (mget ROps Rm 1 2).
Local Notation r20 := (mget ROps Rm 2 0). Local Notation r21 := (mget ROps Rm 2 1). Local Notation r22 := (mget ROps Rm 2 2).

Lemma rot_applyT3 x0 x1 x2 : rot_applyT 3 Rm [x0; x1; x2] =
  [d3 r00 r10 r20 x0 x1 x2; d3 r01 r11 r21 x0 x1 x2; d3 r02 r12 r22 x0 x1 x2].
Proof. unfold rot_applyT, d3. cbn [map seq sumn vcoord nth]. f_equal; [ring|f_equal; [ring|f_equal; ring]]. Qed.
Lemma rot_apply3 x0 x1 x2 : rot_apply 3 Rm [x0; x1; x2] =
  [d3 r00 r01 r02 x0 x1 x2; d3 r10 r11 r12 x0 x1 x2; d3 r20 r21 r22 x0 x1 x2].
Proof. unfold rot_apply, d3. cbn [map seq sumn vcoord nth]. f_equal; [ring|f_equal; [ring|f_equal; ring]]. Qed.
Lemma rot_applyT2 x0 x1 : rot_applyT 2 Rm [x0; x1] = [d2 r00 r10 x0 x1; d2 r01 r11 x0 x1].
Proof. unfold rot_applyT, d2. cbn [map seq sumn vcoord nth]. f_equal; [ring|f_equal; ring]. Qed.
Lemma rot_apply2 x0 x1 : rot_apply 2 Rm [x0; x1] = [d2 r00 r01 x0 x1; d2 r10 r11 x0 x1].
Proof. unfold rot_apply, d2. cbn [map seq sumn vcoord nth]. f_equal; [ring|f_equal; ring]. Qed.

Lemma rot_facts3 : is_rotation 3 Rm ->
  (r00 * r00 + r10 * r10 + r20 * r20 = 1 /\ r01 * r01 + r11 * r11 + r21 * r21 = 1 /\ r02 * r02 + r12 * r12 + r22 * r22 = 1 /\
   r00 * r01 + r10 * r11 + r20 * r21 = 0 /\ r00 * r02 + r10 * r12 + r20 * r22 = 0 /\ r01 * r02 + r11 * r12 + r21 * r22 = 0) /\
  (r00 * r00 + r01 * r01 + r02 * r02 = 1 /\ r10 * r10 + r11 * r11 + r12 * r12 = 1 /\ r20 * r20 + r21 * r21 + r22 * r22 = 1 /\
   r00 * r10 + r01 * r11 + r02 * r12 = 0 /\ r00 * r20 + r01 * r21 + r02 * r22 = 0 /\ r10 * r20 + r11 * r21 + r12 * r22 = 0).
Proof.
  intros [H1 H2].
  pose proof (H1 0%nat 0%nat ltac:(lia) ltac:(lia)) as A00. pose proof (H1 1%nat 1%nat ltac:(lia) ltac:(lia)) as A11.
  pose proof (H1 2%nat 2%nat ltac:(lia) ltac:(lia)) as A22. pose proof (H1 0%nat 1%nat ltac:(lia) ltac:(lia)) as A01.
  pose proof (H1 0%nat 2%nat ltac:(lia) ltac:(lia)) as A02. pose proof (H1 1%nat 2%nat ltac:(lia) ltac:(lia)) as A12.
  pose proof (H2 0%nat 0%nat ltac:(lia) ltac:(lia)) as B00. pose proof (H2 1%nat 1%nat ltac:(lia) ltac:(lia)) as B11.
  pose proof (H2 2%nat 2%nat ltac:(lia) ltac:(lia)) as B22. pose proof (H2 0%nat 1%nat ltac:(lia) ltac:(lia)) as B01.
  pose proof (H2 0%nat 2%nat ltac:(lia) ltac:(lia)) as B02. pose proof (H2 1%nat 2%nat ltac:(lia) ltac:(lia)) as B12.
  unfold delta in *. cbn [sumn Nat.eqb] in *. repeat split; lra.
Qed.

Lemma rot_facts2 : is_rotation 2 Rm ->
  (r00 * r00 + r10 * r10 = 1 /\ r01 * r01 + r11 * r11 = 1 /\ r00 * r01 + r10 * r11 = 0) /\
  (r00 * r00 + r01 * r01 = 1 /\ r10 * r10 + r11 * r11 = 1 /\ r00 * r10 + r01 * r11 = 0).
Proof.
  intros [H1 H2].
  pose proof (H1 0%nat 0%nat ltac:(lia) ltac:(lia)) as A00. pose proof (H1 1%nat 1%nat ltac:(lia) ltac:(lia)) as A11.
  pose proof (H1 0%nat 1%nat ltac:(lia) ltac:(lia)) as A01.
  pose proof (H2 0%nat 0%nat ltac:(lia) ltac:(lia)) as B00. pose proof (H2 1%nat 1%nat ltac:(lia) ltac:(lia)) as B11.
  pose proof (H2 0%nat 1%nat ltac:(lia) ltac:(lia)) as B01.
  unfold delta in *. cbn [sumn Nat.eqb] in *. repeat split; lra.
Qed.

Lemma rotation_equivariance3 C C' lam cols lam' cols' :
  is_rotation 3 Rm -> conj_by 3 Rm C C' ->
  eig_contract 3 C (lam, cols) -> eig_contract 3 C' (lam', cols') ->
  vcoord ROps lam 0 < vcoord ROps lam 1 ->
  vcoord ROps lam' 0 = vcoord ROps lam 0 /\
  (nth 0 cols' [] = rot_apply 3 Rm (nth 0 cols []) \/
   nth 0 cols' [] = vneg ROps (rot_apply 3 Rm (nth 0 cols []))).
Proof.
  intros HR HC H H' Gap.
  destruct (rot_facts3 HR) as ((A00 & A11 & A22 & A01 & A02 & A12) & (B00 & B11 & B22 & B01 & B02 & B12)).
  destruct (rayleigh 3 C lam cols (or_intror eq_refl) H) as (Q1 & _ & Q3).
  destruct (rayleigh 3 C' lam' cols' (or_intror eq_refl) H') as (Q1' & _ & Q3').
  destruct (contract_dim3 C lam cols H) as (l0 & l1 & l2 & a0 & a1 & a2 & b0 & b1 & b2 & c0 & c1 & c2 & -> & -> & L01 & L12
        & (R00 & R11 & R22 & R01 & R02 & R12) & (K00 & _)).
  destruct (contract_dim3 C' lam' cols' H') as (l0' & l1' & l2' & a0' & a1' & a2' & b0' & b1' & b2' & c0' & c1' & c2' & -> & -> & _ & _
        & _ & (K00' & _)).
  destruct H as (_ & _ & _ & _ & _ & _ & HE). cbn [fst snd] in HE.
  cbn [nth vcoord] in *.
  (* u = Rm^T v0' is a unit vector with  u^T C u = lam0' *)
  pose proof (quad_rot 3 Rm C C' [a0'; a1'; a2'] (or_intror eq_refl) HC eq_refl) as Eu.
  rewrite rot_applyT3 in Eu. rewrite Q1' in Eu.
  set (u0 := d3 r00 r10 r20 a0' a1' a2') in *. set (u1 := d3 r01 r11 r21 a0' a1' a2') in *.
  set (u2 := d3 r02 r12 r22 a0' a1' a2') in *.
  pose proof (parseval3 r00 r10 r20 r01 r11 r21 r02 r12 r22 B00 B11 B22 B01 B02 B12 a0' a1' a2') as Pu.
  fold u0 u1 u2 in Pu.
  assert (u0 * u0 + u1 * u1 + u2 * u2 = 1) as Uu by lra.
  pose proof (Q3 [u0; u1; u2] eq_refl ltac:(cbn; lra)) as Lo.
  (* w = Rm v0 is a unit vector with  w^T C' w = lam0 *)
  pose proof (quad_rot 3 Rm C C' (rot_apply 3 Rm [a0; a1; a2]) (or_intror eq_refl) HC ltac:(rewrite rot_apply3; reflexivity)) as Ew.
  rewrite rot_apply3 in Ew. rewrite rot_applyT3 in Ew.
  set (w0 := d3 r00 r01 r02 a0 a1 a2) in *. set (w1 := d3 r10 r11 r12 a0 a1 a2) in *.
  set (w2 := d3 r20 r21 r22 a0 a1 a2) in *.
  destruct (resolve3 r00 r01 r02 r10 r11 r12 r20 r21 r22 A00 A11 A22 A01 A02 A12 a0 a1 a2) as (Z0 & Z1 & Z2).
  fold w0 w1 w2 in Z0, Z1, Z2.
  replace (d3 r00 r10 r20 w0 w1 w2) with a0 in Ew by (unfold d3; lra).
  replace (d3 r01 r11 r21 w0 w1 w2) with a1 in Ew by (unfold d3; lra).
  replace (d3 r02 r12 r22 w0 w1 w2) with a2 in Ew by (unfold d3; lra).
  rewrite Q1 in Ew.
  pose proof (parseval3 r00 r01 r02 r10 r11 r12 r20 r21 r22 A00 A11 A22 A01 A02 A12 a0 a1 a2) as Pw.
  fold w0 w1 w2 in Pw.
  pose proof (Q3' [w0; w1; w2] eq_refl ltac:(cbn; lra)) as Hi. rewrite Ew in Hi.
  assert (l0' = l0) as E0 by lra. split; [exact E0|].
  (* u is aligned with v0 *)
  rewrite (quad3_expand C l0 l1 l2 a0 a1 a2 b0 b1 b2 c0 c1 c2 _ _ _ HE) in Eu.
  pose proof (parseval3 a0 a1 a2 b0 b1 b2 c0 c1 c2 R00 R11 R22 R01 R02 R12 u0 u1 u2) as Pe.
  set (A := d3 a0 a1 a2 u0 u1 u2) in *. set (B := d3 b0 b1 b2 u0 u1 u2) in *. set (Cc := d3 c0 c1 c2 u0 u1 u2) in *.
  assert (0 + (l1 - l0) * (B * B) + (l2 - l0) * (Cc * Cc) = 0) as Zs.
  { replace (A * A) with (1 - B * B - Cc * Cc) in Eu by lra. lra. }
  destruct (nonneg_sum_zero (l1 - l0) (l2 - l0) 0 B Cc ltac:(lra) ltac:(lra) ltac:(lra) Zs) as (_ & ZB & ZC).
  destruct (resolve3 r00 r10 r20 r01 r11 r21 r02 r12 r22 B00 B11 B22 B01 B02 B12 a0' a1' a2') as (V0 & V1 & V2).
  fold u0 u1 u2 in V0, V1, V2.
  rewrite rot_apply3.
  destruct (align3 a0 a1 a2 b0 b1 b2 c0 c1 c2 R00 R11 R22 R01 R02 R12 u0 u1 u2 Uu ZB ZC)
    as [(_ & Y0 & Y1 & Y2)|(_ & Y0 & Y1 & Y2)]; rewrite Y0, Y1, Y2 in V0, V1, V2; [left|right].
  - unfold d3. f_equal; [lra|f_equal; [lra|f_equal; lra]].
  - unfold vneg. cbn [map nneg ROps]. unfold d3. f_equal; [lra|f_equal; [lra|f_equal; lra]].
Qed.

Lemma rotation_equivariance2 C C' lam cols lam' cols' :
  is_rotation 2 Rm -> conj_by 2 Rm C C' ->
  eig_contract 2 C (lam, cols) -> eig_contract 2 C' (lam', cols') ->
  vcoord ROps lam 0 < vcoord ROps lam 1 ->
  vcoord ROps lam' 0 = vcoord ROps lam 0 /\
  (nth 0 cols' [] = rot_apply 2 Rm (nth 0 cols []) \/
   nth 0 cols' [] = vneg ROps (rot_apply 2 Rm (nth 0 cols []))).
Proof.
  intros HR HC H H' Gap.
  destruct (rot_facts2 HR) as ((A00 & A11 & A01) & (B00 & B11 & B01)).
  destruct (rayleigh 2 C lam cols (or_introl eq_refl) H) as (Q1 & _ & Q3).
  destruct (rayleigh 2 C' lam' cols' (or_introl eq_refl) H') as (Q1' & _ & Q3').
  destruct (contract_dim2 C lam cols H) as (l0 & l1 & a0 & a1 & b0 & b1 & -> & -> & L01 & (R00 & R11 & R01) & (K00 & _)).
  destruct (contract_dim2 C' lam' cols' H') as (l0' & l1' & a0' & a1' & b0' & b1' & -> & -> & _ & _ & (K00' & _)).
  destruct H as (_ & _ & _ & _ & _ & _ & HE). cbn [fst snd] in HE.
  cbn [nth vcoord] in *.
  pose proof (quad_rot 2 Rm C C' [a0'; a1'] (or_introl eq_refl) HC eq_refl) as Eu.
  rewrite rot_applyT2 in Eu. rewrite Q1' in Eu.
  set (u0 := d2 r00 r10 a0' a1') in *. set (u1 := d2 r01 r11 a0' a1') in *.
  pose proof (parseval2 r00 r10 r01 r11 B00 B11 B01 a0' a1') as Pu. fold u0 u1 in Pu.
  assert (u0 * u0 + u1 * u1 = 1) as Uu by lra.
  pose proof (Q3 [u0; u1] eq_refl ltac:(cbn; lra)) as Lo.
  pose proof (quad_rot 2 Rm C C' (rot_apply 2 Rm [a0; a1]) (or_introl eq_refl) HC ltac:(rewrite rot_apply2; reflexivity)) as Ew.
  rewrite rot_apply2 in Ew. rewrite rot_applyT2 in Ew.
  set (w0 := d2 r00 r01 a0 a1) in *. set (w1 := d2 r10 r11 a0 a1) in *.
  destruct (resolve2 r00 r01 r10 r11 A00 A11 A01 a0 a1) as (Z0 & Z1). fold w0 w1 in Z0, Z1.
  replace (d2 r00 r10 w0 w1) with a0 in Ew by (unfold d2; lra).
  replace (d2 r01 r11 w0 w1) with a1 in Ew by (unfold d2; lra).
  rewrite Q1 in Ew.
  pose proof (parseval2 r00 r01 r10 r11 A00 A11 A01 a0 a1) as Pw. fold w0 w1 in Pw.
  pose proof (Q3' [w0; w1] eq_refl ltac:(cbn; lra)) as Hi. rewrite Ew in Hi.
  assert (l0' = l0) as E0 by lra. split; [exact E0|].
  rewrite (quad2_expand C l0 l1 a0 a1 b0 b1 _ _ HE) in Eu.
  pose proof (parseval2 a0 a1 b0 b1 R00 R11 R01 u0 u1) as Pe.
  set (A := d2 a0 a1 u0 u1) in *. set (B := d2 b0 b1 u0 u1) in *.
  assert (0 + (l1 - l0) * (B * B) + 1 * (0 * 0) = 0) as Zs.
  { replace (A * A) with (1 - B * B) in Eu by lra. lra. }
  destruct (nonneg_sum_zero (l1 - l0) 1 0 B 0 ltac:(lra) ltac:(lra) ltac:(lra) Zs) as (_ & ZB & _).
  destruct (resolve2 r00 r10 r01 r11 B00 B11 B01 a0' a1') as (V0 & V1). fold u0 u1 in V0, V1.
  rewrite rot_apply2.
  destruct (align2 a0 a1 b0 b1 R00 R11 R01 u0 u1 Uu ZB) as [(_ & Y0 & Y1)|(_ & Y0 & Y1)];
    rewrite Y0, Y1 in V0, V1; [left|right].
  - unfold d2. f_equal; [lra|f_equal; lra].
  - unfold vneg. cbn [map nneg ROps]. unfold d2. f_equal; [lra|f_equal; lra].
Qed.
End Rot.

Lemma rotation_equivariance_partial : forall dim Rm C C' lam cols lam' cols',
  dim = 2%nat \/ dim = 3%nat ->
  is_rotation dim Rm -> conj_by dim Rm C C' ->
  eig_contract dim C (lam, cols) -> eig_contract dim C' (lam', cols') ->
  vcoord ROps lam 0 < vcoord ROps lam 1 ->
  vcoord ROps lam' 0 = vcoord ROps lam 0 /\
  (nth 0 cols' [] = rot_apply dim Rm (nth 0 cols []) \/
   nth 0 cols' [] = vneg ROps (rot_apply dim Rm (nth 0 cols []))).
Proof.
  intros dim Rm C C' lam cols lam' cols' [->| ->].
  - apply rotation_equivariance2.
  - apply rotation_equivariance3.
Qed.

(* ------------------------------------------------------------------ rotating the cloud *)
(* rotate the Cartesian part (first dim entries), keep the rest (w) *)
Definition rot_point (dim : nat) (Rm : list (list R)) (q : list R) : list R :=
  rot_apply dim Rm q ++ skipn dim q.

Lemma rot_apply_length dim Rm x : length (rot_apply dim Rm x) = dim.
Proof. unfold rot_apply. rewrite map_length, seq_length. reflexivity. Qed.

Lemma rot_point_length dim Rm q : (dim <= length q)%nat -> length (rot_point dim Rm q) = length q.
Proof. intros H. unfold rot_point. rewrite app_length, rot_apply_length, skipn_length. lia. Qed.

Lemma rot_point_firstn dim Rm q : firstn dim (rot_point dim Rm q) = rot_apply dim Rm q.
Proof. apply firstn_app_len. apply rot_apply_length. Qed.

Lemma vcoord_rot_point dim Rm q i : (i < dim)%nat ->
  vcoord ROps (rot_point dim Rm q) i = sumn (fun k => mget ROps Rm i k * vcoord ROps q k) dim.
Proof.
  intros Hi. unfold vcoord at 1. unfold rot_point. rewrite app_nth1 by (rewrite rot_apply_length; exact Hi).
  unfold rot_apply. rewrite nth_map_seq by exact Hi. reflexivity.
Qed.

Lemma lsum_ext_in {A} (f g : A -> R) l : (forall q, In q l -> f q = g q) -> lsum f l = lsum g l.
Proof.
  induction l as [|c l IH]; intros H; [reflexivity|].
  change (f c + lsum f l = g c + lsum g l). rewrite (H c) by (left; reflexivity).
  rewrite IH; [reflexivity|]. intros q Hq. apply H. right. exact Hq.
Qed.

Lemma lin_sum dim {A} (a : nat -> R) (g : nat -> A -> R) l : dim = 2%nat \/ dim = 3%nat ->
  lsum (fun q => sumn (fun k => a k * g k q) dim) l = sumn (fun k => a k * lsum (g k) l) dim.
Proof.
  intros [->| ->]; cbn [sumn]; induction l as [|c l IH]; unfold lsum in *; cbn [map fold_right];
    try ring; rewrite IH; ring.
Qed.

Lemma bilin_sum dim {A} (d : nat -> A -> R) (pa sb : nat -> R) l : dim = 2%nat \/ dim = 3%nat ->
  lsum (fun q => sumn (fun k => pa k * d k q) dim * sumn (fun k => sb k * d k q) dim) l
  = sumn (fun k => sumn (fun k' => pa k * lsum (fun q => d k q * d k' q) l * sb k') dim) dim.
Proof.
  intros [->| ->]; cbn [sumn]; induction l as [|c l IH]; unfold lsum in *; cbn [map fold_right];
    try ring; rewrite IH; ring.
Qed.

(* a centred rotated neighbour is the rotated centred neighbour (Cartesian coordinates) *)
Lemma centred_rot dim size Rm nb q i :
  dim = 2%nat \/ dim = 3%nat -> (dim <= size)%nat -> (forall q, In q nb -> length q = size) ->
  In q nb -> (i < dim)%nat ->
  vcoord ROps (vsub ROps (rot_point dim Rm q) (mean ROps size (map (rot_point dim Rm) nb))) i
  = sumn (fun k => mget ROps Rm i k * vcoord ROps (vsub ROps q (mean ROps size nb)) k) dim.
Proof.
  intros D Ds Hl Hq Hi.
  assert (forall q', In q' (map (rot_point dim Rm) nb) -> length q' = size) as Hl'.
  { intros q' Hq'. apply in_map_iff in Hq'. destruct Hq' as (q0 & <- & H0).
    rewrite rot_point_length; rewrite (Hl q0 H0); lia. }
  destruct (mean_coord size nb Hl) as [Lm Mc]. destruct (mean_coord size _ Hl') as [Lm' Mc'].
  rewrite vcoord_vsub by (rewrite Lm', rot_point_length; rewrite (Hl q Hq); lia).
  rewrite Mc', map_length, lsum_map, vcoord_rot_point by exact Hi.
  rewrite (lsum_ext_in _ (fun q0 => sumn (fun k => mget ROps Rm i k * vcoord ROps q0 k) dim))
    by (intros q0 _; apply vcoord_rot_point; exact Hi).
  rewrite (lin_sum dim (fun k => mget ROps Rm i k) (fun k q0 => vcoord ROps q0 k) nb D).
  assert (forall k, vcoord ROps (vsub ROps q (mean ROps size nb)) k
                    = vcoord ROps q k - lsum (fun q0 => vcoord ROps q0 k) nb / INR (length nb)) as Ek.
  { intros k. rewrite vcoord_vsub by (rewrite Lm; apply Hl; exact Hq). rewrite Mc. reflexivity. }
  destruct D as [->| ->]; cbn [sumn]; rewrite !Ek; unfold Rdiv; ring.
Qed.

(* (a) the covariance of the rotated cloud is Rm C Rm^T — for any matrix Rm *)
Lemma covariance_rotated dim size Rm nb :
  dim = 2%nat \/ dim = 3%nat -> (dim <= size)%nat -> (forall q, In q nb -> length q = size) ->
  conj_by dim Rm (covariance ROps dim size nb) (covariance ROps dim size (map (rot_point dim Rm) nb)).
Proof.
  intros D Ds Hl i j Hi Hj.
  rewrite mget_covariance, cov_entry_lsum, scalar_INR, map_length by assumption.
  rewrite lsum_map, lsum_map.
  set (m := mean ROps size nb). set (m' := mean ROps size (map (rot_point dim Rm) nb)).
  rewrite (lsum_ext_in _ (fun q => sumn (fun k => mget ROps Rm i k * vcoord ROps (vsub ROps q m) k) dim
                                   * sumn (fun k => mget ROps Rm j k * vcoord ROps (vsub ROps q m) k) dim)).
  2:{ intros q Hq. unfold m, m'. rewrite !(centred_rot dim size Rm nb q) by assumption. reflexivity. }
  rewrite (bilin_sum dim (fun k q => vcoord ROps (vsub ROps q m) k) (fun k => mget ROps Rm i k)
                     (fun k => mget ROps Rm j k) nb D).
  destruct D as [->| ->]; cbn [sumn]; rewrite !mget_covariance by lia; rewrite !cov_entry_lsum, !scalar_INR;
    rewrite !lsum_map; fold m; unfold Rdiv; ring.
Qed.

(* rotations preserve the dot product *)
Lemma polar3 a0 a1 a2 b0 b1 b2 c0 c1 c2 x0 x1 x2 y0 y1 y2 :
  a0 * a0 + b0 * b0 + c0 * c0 = 1 -> a1 * a1 + b1 * b1 + c1 * c1 = 1 -> a2 * a2 + b2 * b2 + c2 * c2 = 1 ->
  a0 * a1 + b0 * b1 + c0 * c1 = 0 -> a0 * a2 + b0 * b2 + c0 * c2 = 0 -> a1 * a2 + b1 * b2 + c1 * c2 = 0 ->
  d3 a0 a1 a2 x0 x1 x2 * d3 a0 a1 a2 y0 y1 y2 + d3 b0 b1 b2 x0 x1 x2 * d3 b0 b1 b2 y0 y1 y2
  + d3 c0 c1 c2 x0 x1 x2 * d3 c0 c1 c2 y0 y1 y2 = x0 * y0 + x1 * y1 + x2 * y2.
Proof.
  intros R00 R11 R22 R01 R02 R12.
  transitivity (x0 * y0 * (a0 * a0 + b0 * b0 + c0 * c0) + x1 * y1 * (a1 * a1 + b1 * b1 + c1 * c1)
                + x2 * y2 * (a2 * a2 + b2 * b2 + c2 * c2) + (x0 * y1 + x1 * y0) * (a0 * a1 + b0 * b1 + c0 * c1)
                + (x0 * y2 + x2 * y0) * (a0 * a2 + b0 * b2 + c0 * c2) + (x1 * y2 + x2 * y1) * (a1 * a2 + b1 * b2 + c1 * c2)).
  - unfold d3. ring.
  - rewrite R00, R11, R22, R01, R02, R12. ring.
Qed.

Lemma polar2 a0 a1 b0 b1 x0 x1 y0 y1 :
  a0 * a0 + b0 * b0 = 1 -> a1 * a1 + b1 * b1 = 1 -> a0 * a1 + b0 * b1 = 0 ->
  d2 a0 a1 x0 x1 * d2 a0 a1 y0 y1 + d2 b0 b1 x0 x1 * d2 b0 b1 y0 y1 = x0 * y0 + x1 * y1.
Proof.
  intros R00 R11 R01.
  transitivity (x0 * y0 * (a0 * a0 + b0 * b0) + x1 * y1 * (a1 * a1 + b1 * b1)
                + (x0 * y1 + x1 * y0) * (a0 * a1 + b0 * b1)).
  - unfold d2. ring.
  - rewrite R00, R11, R01. ring.
Qed.

Lemma rot_apply_coords3 Rm p :
  rot_apply 3 Rm p = rot_apply 3 Rm [vcoord ROps p 0; vcoord ROps p 1; vcoord ROps p 2].
Proof. reflexivity. Qed.
Lemma rot_apply_coords2 Rm p : rot_apply 2 Rm p = rot_apply 2 Rm [vcoord ROps p 0; vcoord ROps p 1].
Proof. reflexivity. Qed.

Lemma rot_dot dim Rm x p : dim = 2%nat \/ dim = 3%nat -> is_rotation dim Rm -> length x = dim ->
  vdot ROps (rot_apply dim Rm x) (rot_apply dim Rm p) = vdot ROps x (firstn dim p).
Proof.
  intros [->| ->] HR Lx.
  - destruct (rot_facts2 Rm HR) as ((A00 & A11 & A01) & _).
    destruct x as [|x0 [|x1 [|? ?]]]; try discriminate Lx.
    rewrite (rot_apply_coords2 Rm p), !rot_apply2. rewrite (vdot_comm _ (firstn 2 p)), dotfirst2.
    rewrite !vdot_cons, vdot_nil_l.
    pose proof (polar2 _ _ _ _ x0 x1 (vcoord ROps p 0) (vcoord ROps p 1) A00 A11 A01). lra.
  - destruct (rot_facts3 Rm HR) as ((A00 & A11 & A22 & A01 & A02 & A12) & _).
    destruct x as [|x0 [|x1 [|x2 [|? ?]]]]; try discriminate Lx.
    rewrite (rot_apply_coords3 Rm p), !rot_apply3. rewrite (vdot_comm _ (firstn 3 p)), dotfirst3.
    rewrite !vdot_cons, vdot_nil_l.
    pose proof (polar3 _ _ _ _ _ _ _ _ _ x0 x1 x2 (vcoord ROps p 0) (vcoord ROps p 1) (vcoord ROps p 2)
                       A00 A11 A22 A01 A02 A12). lra.
Qed.

Lemma rot_apply_vneg dim Rm x : dim = 2%nat \/ dim = 3%nat -> length x = dim ->
  rot_apply dim Rm (vneg ROps x) = vneg ROps (rot_apply dim Rm x).
Proof.
  intros [->| ->] Lx.
  - destruct x as [|x0 [|x1 [|? ?]]]; try discriminate Lx. unfold vneg. cbn [map nneg ROps].
    rewrite !rot_apply2. cbn [map]. unfold d2. f_equal; [ring|f_equal; ring].
  - destruct x as [|x0 [|x1 [|x2 [|? ?]]]]; try discriminate Lx. unfold vneg. cbn [map nneg ROps].
    rewrite !rot_apply3. cbn [map]. unfold d3. f_equal; [ring|f_equal; [ring|f_equal; ring]].
Qed.

Lemma vneg_vneg x : vneg ROps (vneg ROps x) = x.
Proof. unfold vneg. cbn [nneg ROps]. apply map_opp_opp. Qed.

(* the eigenvalue sum is the trace, and the trace is invariant under conjugation by a rotation *)
Lemma trace_contract dim C lam cols : dim = 2%nat \/ dim = 3%nat -> eig_contract dim C (lam, cols) ->
  vsum ROps lam = sumn (fun i => mget ROps C i i) dim.
Proof.
  intros [->| ->] H.
  - destruct (contract_dim2 C lam cols H) as (l0 & l1 & a0 & a1 & b0 & b1 & -> & -> & _ & _ & (K00 & K11 & _)).
    destruct H as (_ & _ & _ & _ & _ & _ & HC). cbn [fst snd] in HC.
    cbn [sumn]. rewrite !HC by lia. unfold vsum, vc. cbn.
    transitivity (l0 * (a0 * a0 + a1 * a1) + l1 * (b0 * b0 + b1 * b1)); [rewrite K00, K11; ring|ring].
  - destruct (contract_dim3 C lam cols H) as (l0 & l1 & l2 & a0 & a1 & a2 & b0 & b1 & b2 & c0 & c1 & c2 & -> & -> & _ & _
        & _ & (K00 & K11 & K22 & _)).
    destruct H as (_ & _ & _ & _ & _ & _ & HC). cbn [fst snd] in HC.
    cbn [sumn]. rewrite !HC by lia. unfold vsum, vc. cbn.
    transitivity (l0 * (a0 * a0 + a1 * a1 + a2 * a2) + l1 * (b0 * b0 + b1 * b1 + b2 * b2)
                  + l2 * (c0 * c0 + c1 * c1 + c2 * c2)); [rewrite K00, K11, K22; ring|ring].
Qed.

Lemma trace_conj dim Rm C C' : dim = 2%nat \/ dim = 3%nat -> is_rotation dim Rm -> conj_by dim Rm C C' ->
  sumn (fun i => mget ROps C' i i) dim = sumn (fun i => mget ROps C i i) dim.
Proof.
  intros [->| ->] HR HC.
  - destruct (rot_facts2 Rm HR) as ((A00 & A11 & A01) & _).
    cbn [sumn]. rewrite !HC by lia. cbn [sumn].
    set (k00 := mget ROps C 0 0). set (k01 := mget ROps C 0 1). set (k10 := mget ROps C 1 0). set (k11 := mget ROps C 1 1).
    transitivity (k00 * (mget ROps Rm 0 0 * mget ROps Rm 0 0 + mget ROps Rm 1 0 * mget ROps Rm 1 0)
                  + k11 * (mget ROps Rm 0 1 * mget ROps Rm 0 1 + mget ROps Rm 1 1 * mget ROps Rm 1 1)
                  + (k01 + k10) * (mget ROps Rm 0 0 * mget ROps Rm 0 1 + mget ROps Rm 1 0 * mget ROps Rm 1 1));
      [ring|rewrite A00, A11, A01; ring].
  - destruct (rot_facts3 Rm HR) as ((A00 & A11 & A22 & A01 & A02 & A12) & _).
    cbn [sumn]. rewrite !HC by lia. cbn [sumn].
    set (k00 := mget ROps C 0 0). set (k01 := mget ROps C 0 1). set (k02 := mget ROps C 0 2).
    set (k10 := mget ROps C 1 0). set (k11 := mget ROps C 1 1). set (k12 := mget ROps C 1 2).
    set (k20 := mget ROps C 2 0). set (k21 := mget ROps C 2 1). set (k22 := mget ROps C 2 2).
    transitivity (k00 * (mget ROps Rm 0 0 * mget ROps Rm 0 0 + mget ROps Rm 1 0 * mget ROps Rm 1 0 + mget ROps Rm 2 0 * mget ROps Rm 2 0)
                  + k11 * (mget ROps Rm 0 1 * mget ROps Rm 0 1 + mget ROps Rm 1 1 * mget ROps Rm 1 1 + mget ROps Rm 2 1 * mget ROps Rm 2 1)
                  + k22 * (mget ROps Rm 0 2 * mget ROps Rm 0 2 + mget ROps Rm 1 2 * mget ROps Rm 1 2 + mget ROps Rm 2 2 * mget ROps Rm 2 2)
                  + (k01 + k10) * (mget ROps Rm 0 0 * mget ROps Rm 0 1 + mget ROps Rm 1 0 * mget ROps Rm 1 1 + mget ROps Rm 2 0 * mget ROps Rm 2 1)
                  + (k02 + k20) * (mget ROps Rm 0 0 * mget ROps Rm 0 2 + mget ROps Rm 1 0 * mget ROps Rm 1 2 + mget ROps Rm 2 0 * mget ROps Rm 2 2)
                  + (k12 + k21) * (mget ROps Rm 0 1 * mget ROps Rm 0 2 + mget ROps Rm 1 1 * mget ROps Rm 1 2 + mget ROps Rm 2 1 * mget ROps Rm 2 2));
      [ring|rewrite A00, A11, A22, A01, A02, A12; ring].
Qed.

(* the full property: rotating the neighbours and the point about the sensor rotates the normal *)
Lemma rotation_equivariance : forall eig dim size p nb normal_in normal_in' Rm,
  dim = 2%nat \/ dim = 3%nat -> is_rotation dim Rm ->
  (dim <= size)%nat -> (forall q, In q nb -> length q = size) ->
  let nb' := map (rot_point dim Rm) nb in
  let p' := rot_point dim Rm p in
  eig_contract dim (covariance ROps dim size nb) (eig (covariance ROps dim size nb)) ->
  eig_contract dim (covariance ROps dim size nb') (eig (covariance ROps dim size nb')) ->
  let e := estimate_point ROps eig false dim size p nb normal_in in
  let e' := estimate_point ROps eig false dim size p' nb' normal_in' in
  vcoord ROps (e_lambda e) 0 < vcoord ROps (e_lambda e) 1 ->
  vdot ROps (firstn dim (e_normal e)) (firstn dim p) <> 0 ->
  firstn dim (e_normal e') = rot_apply dim Rm (firstn dim (e_normal e)) /\
  vcoord ROps (e_lambda e') 0 = vcoord ROps (e_lambda e) 0 /\
  e_curvature e' = e_curvature e.
Proof.
  intros eig dim size p nb normal_in normal_in' Rm D HR Ds Hl. cbv zeta. intros H H'.
  pose proof (normal_faces_sensor eig dim size p nb normal_in D H) as F.
  pose proof (normal_faces_sensor eig dim size (rot_point dim Rm p) _ normal_in' D H') as F'.
  cbv zeta in F, F'. rewrite rot_point_firstn in F'.
  destruct (normal_cases eig dim size p nb normal_in D H) as (-> & -> & L & _ & Hn).
  destruct (normal_cases eig dim size (rot_point dim Rm p) _ normal_in' D H') as (-> & -> & L' & _ & Hn').
  pose proof (covariance_rotated dim size Rm nb D Ds Hl) as HC.
  set (C := covariance ROps dim size nb) in *.
  set (C' := covariance ROps dim size (map (rot_point dim Rm) nb)) in *.
  destruct (eig C) as [lam cols]. destruct (eig C') as [lam' cols']. cbn [fst snd] in *.
  intros Gap NZ.
  destruct (rotation_equivariance_partial dim Rm C C' lam cols lam' cols' D HR HC H H' Gap) as (E0 & Hv).
  split; [|split; [exact E0|]].
  2:{ unfold curvature. cbn [ndiv ROps]. rewrite E0.
      rewrite (trace_contract dim C lam cols D H), (trace_contract dim C' lam' cols' D H').
      rewrite (trace_conj dim Rm C C' D HR HC). reflexivity. }
  set (n := firstn dim (e_normal (estimate_point ROps eig false dim size p nb normal_in))) in *.
  set (n' := firstn dim (e_normal (estimate_point ROps eig false dim size (rot_point dim Rm p)
                                                  (map (rot_point dim Rm) nb) normal_in'))) in *.
  assert (length n = dim) as Ln.
  { destruct Hn as [[-> _]|[-> _]]; [exact L|rewrite vneg_length; exact L]. }
  assert (n' = rot_apply dim Rm n \/ n' = vneg ROps (rot_apply dim Rm n)) as Hc.
  { destruct Hn as [[-> _]|[-> _]]; destruct Hn' as [[-> _]|[-> _]]; destruct Hv as [->| ->];
      rewrite ?(rot_apply_vneg dim Rm _ D L), ?vneg_vneg; auto. }
  destruct Hc as [->|Eq]; [reflexivity|exfalso].
  rewrite Eq, vdot_vneg_l, (rot_dot dim Rm n p D HR Ln) in F'. lra.
Qed.
