(* SrcTieLs.v — base of the syntactic source tie of LeastSquares<RealType> (gen/SrcLs.v, translate/tr_C07_ls.py): the reading [abs] of the
   generated record of data members as the state of LsModel.v, the shapes the class keeps ([src_dims]), the products with known
   shapes, and the tie of computeEstimateCovariance (used by C12 on its own, so that a member function of the class that can no
   longer be translated breaks the C07 tie only).  The rest of the tie is SrcTieC07.v. *)
From Coq Require Import List Arith Bool Lia ZArith.
From Romea Require Import Num LinAlgBModel LinAlgBProofs LsModel SrcEigenDyn SrcEigenDynFacts.
From Romea.gen Require Import SrcLs.
Import ListNotations.

Section TieBase.
Context {T : Type} (N : NumOps T).
Implicit Types (s : src_ls (T:=T)).

(* the generated record read as the model's state *)
Definition abs (s : src_ls (T:=T)) : ls_state (T:=T) :=
  mk_ls (dataSize_ s) (estimateSize_ s) (dm_rows (Ac_ s)) (Bc_ s) (dm_cols (J_ s)) (dm_rows (J_ s)) (Y_ s) (W_ s)
        (dm_rows (inverseJtJ_ s)).

Definition src_dims (s : src_ls (T:=T)) : Prop :=
  let k := estimateSize_ s in
  dm_nrows (Ac_ s) = k /\ dm_cols (Ac_ s) = k /\ dm_cols (inverseJtJ_ s) = k /\ dm_shape k k (JtJ_ s) /\ length (JtY_ s) = k.

(* ---------------- products with known shapes are the model's products ---------------- *)
Lemma dm_mul_eq A B n q m : dm_nrows A = n -> dm_cols A = q -> dm_cols B = m ->
  dm_mul N A B = mkdm m (mmul N n q m (dm_rows A) (dm_rows B)).
Proof. intros <- <- <-. reflexivity. Qed.
Lemma dm_mulv_eq A (v : list T) n q : dm_nrows A = n -> dm_cols A = q -> dm_mulv N A v = mvmul N n q (dm_rows A) v.
Proof. intros <- <-. reflexivity. Qed.
Lemma dv_add_eq (u v : list T) n : length u = n -> dv_add N u v = vadd N n u v.
Proof. intros <-. reflexivity. Qed.
Lemma dm_transpose_eq A n m : dm_nrows A = n -> dm_cols A = m -> dm_transpose N A = mkdm n (mtrans N n m (dm_rows A)).
Proof. intros <- <-. reflexivity. Qed.

(* ---------------- computeEstimateCovariance:  Ac_ * inverseJtJ_ * Ac_^T * dataVariance ---------------- *)
Lemma tie_covariance var s : src_dims s ->
  src_computeEstimateCovariance N var s = (s, mkdm (estimateSize_ s) (ls_covariance N (abs s) var)).
Proof.
  intros (H1 & H2 & H3 & _ & _). unfold src_computeEstimateCovariance, ls_covariance. f_equal. cbn [abs ls_k ls_A ls_inv].
  rewrite (dm_mul_eq _ _ _ _ _ H1 H2 H3). rewrite (dm_transpose_eq _ _ _ H1 H2).
  rewrite (dm_mul_eq _ _ (estimateSize_ s) (estimateSize_ s) (estimateSize_ s)); [|unfold dm_nrows; cbn; apply length_mtab|reflexivity|reflexivity].
  unfold dm_scale, dm_nrows; cbn [dm_rows dm_cols]. unfold mmul at 1. rewrite length_mtab. reflexivity.
Qed.

End TieBase.
