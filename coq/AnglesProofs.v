(* AnglesProofs.v — lemmas about AnglesModel at the real-number instance (C10). *)
From Coq Require Import Reals ZArith Lra Lia Psatz Nsatz.
From Flocq Require Import Core.Raux.
From Romea Require Import Num NumR AnglesModel.
Local Open Scope R_scope.

Tactic Notation "rcbn" := cbn [nadd nsub nmul ndiv nneg nabs nsqrt nsin ncos natan nasin nacos natan2 nfmod
                  nzero n_one npi nltb nleb neqb ROps ntwo nhalf nsq
                  m00 m01 m02 m10 m11 m12 m20 m21 m22 v0 v1 v2 qw qx qy qz a00 a01 a10 a11].
Tactic Notation "rcbn" "in" hyp(H) := cbn [nadd nsub nmul ndiv nneg nabs nsqrt nsin ncos natan nasin nacos natan2 nfmod
                  nzero n_one npi nltb nleb neqb ROps ntwo nhalf nsq
                  m00 m01 m02 m10 m11 m12 m20 m21 m22 v0 v1 v2 qw qx qy qz a00 a01 a10 a11] in H.

(* the Z-Y-X rotation the property talks about *)
Definition RX (x : R) : mat3 R := Rx_of ROps (cos x) (sin x).
Definition RY (y : R) : mat3 R := Ry_of ROps (cos y) (sin y).
Definition RZ (z : R) : mat3 R := Rz_of ROps (cos z) (sin z).
Definition rot_zyx (x y z : R) : mat3 R := mmul3 ROps (mmul3 ROps (RZ z) (RY y)) (RX x).

Definition proper_rotation (m : mat3 R) : Prop :=
  mmul3 ROps (mtrans3 m) m = mid3 ROps /\ det3 ROps m = 1.

Lemma sc1 a : sin a * sin a + cos a * cos a = 1.
Proof. pose proof (sin2_cos2 a) as H. unfold Rsqr in H. exact H. Qed.

Lemma mat3_ext (a b : mat3 R) :
  m00 a = m00 b -> m01 a = m01 b -> m02 a = m02 b ->
  m10 a = m10 b -> m11 a = m11 b -> m12 a = m12 b ->
  m20 a = m20 b -> m21 a = m21 b -> m22 a = m22 b -> a = b.
Proof. destruct a, b; cbn; intros; subst; reflexivity. Qed.

Lemma rot_zyx_entries x y z :
  rot_zyx x y z = mkM3
    (cos z * cos y) (cos z * sin y * sin x - sin z * cos x) (cos z * sin y * cos x + sin z * sin x)
    (sin z * cos y) (sin z * sin y * sin x + cos z * cos x) (sin z * sin y * cos x - cos z * sin x)
    (- sin y) (cos y * sin x) (cos y * cos x).
Proof. unfold rot_zyx, RX, RY, RZ, mmul3, Rx_of, Ry_of, Rz_of. rcbn. f_equal; ring. Qed.

(* --- Rz*Ry*Rx is a proper rotation --- *)
Lemma rzyx_proper x y z : proper_rotation (rot_zyx x y z).
Proof.
  rewrite rot_zyx_entries. unfold proper_rotation, mmul3, mtrans3, mid3, det3. rcbn.
  pose proof (sc1 x) as Hx. pose proof (sc1 y) as Hy. pose proof (sc1 z) as Hz.
  generalize dependent (sin x). generalize dependent (cos x).
  generalize dependent (sin y). generalize dependent (cos y).
  generalize dependent (sin z). generalize dependent (cos z).
  intros cz sz Hz cy sy Hy cx sx Hx.
  split; [f_equal|]; nsatz.
Qed.

(* --- SmartRotation3D::R is that matrix, by construction --- *)
Lemma smart_R_is_rzyx x y z : sR (smart_init ROps x y z) = rot_zyx x y z.
Proof. reflexivity. Qed.

(* --- the quaternion builder --- *)
Lemma half_double a : a = 2 * (nmul ROps (nhalf ROps) a).
Proof. rcbn. field. Qed.

Lemma euler_quat_unit x y z : qnorm2 ROps (eulerAnglesToQuaternion ROps (mkV3 x y z)) = 1.
Proof.
  unfold qnorm2, eulerAnglesToQuaternion, qmul, q_axis_x, q_axis_y, q_axis_z.
  cbn [v0 v1 v2 qw qx qy qz].
  set (hx := nmul ROps (nhalf ROps) x). set (hy := nmul ROps (nhalf ROps) y). set (hz := nmul ROps (nhalf ROps) z).
  rcbn.
  pose proof (sc1 hx) as Hx. pose proof (sc1 hy) as Hy. pose proof (sc1 hz) as Hz.
  generalize dependent (sin hx). generalize dependent (cos hx).
  generalize dependent (sin hy). generalize dependent (cos hy).
  generalize dependent (sin hz). generalize dependent (cos hz).
  intros cz sz Hz cy sy Hy cx sx Hx. nsatz.
Qed.

Lemma quat_builder_eq_matrix_builder x y z :
  eulerAnglesToRotation3D ROps (mkV3 x y z) = rot_zyx x y z.
Proof.
  rewrite rot_zyx_entries.
  unfold eulerAnglesToRotation3D, quat_to_mat, eulerAnglesToQuaternion, qmul, q_axis_x, q_axis_y, q_axis_z.
  cbn [v0 v1 v2 qw qx qy qz].
  set (hx := nmul ROps (nhalf ROps) x). set (hy := nmul ROps (nhalf ROps) y). set (hz := nmul ROps (nhalf ROps) z).
  assert (Ex : x = 2 * hx) by apply half_double.
  assert (Ey : y = 2 * hy) by apply half_double.
  assert (Ez : z = 2 * hz) by apply half_double.
  clearbody hx hy hz. subst x y z.
  rewrite !cos_2a, !sin_2a. rcbn.
  pose proof (sc1 hx) as Hx. pose proof (sc1 hy) as Hy. pose proof (sc1 hz) as Hz.
  generalize dependent (sin hx). generalize dependent (cos hx).
  generalize dependent (sin hy). generalize dependent (cos hy).
  generalize dependent (sin hz). generalize dependent (cos hz).
  intros cz sz Hz cy sy Hy cx sx Hx.
  f_equal; nsatz.
Qed.
