(* EnuProofs.v — lemmas about EnuModel.v (C02). *)
From Coq Require Import Reals ZArith List Bool Lra Lia Nsatz.
From Romea Require Import Num NumR GeodesyModel GeodesyProofs EnuModel.
From Romea.gen Require Import RepoConstants.
Import ListNotations.
Local Open Scope R_scope.

(* ------------------------------------------------------------------ 3x3 algebra over R (proof side only) *)
Definition mat3_transpose (m : mat3 (T:=R)) : mat3 (T:=R) :=
  mkM3 (m00 m) (m10 m) (m20 m) (m01 m) (m11 m) (m21 m) (m02 m) (m12 m) (m22 m).

Definition mat3_mul (p q : mat3 (T:=R)) : mat3 (T:=R) :=
  mkM3 (m00 p * m00 q + m01 p * m10 q + m02 p * m20 q) (m00 p * m01 q + m01 p * m11 q + m02 p * m21 q)
       (m00 p * m02 q + m01 p * m12 q + m02 p * m22 q)
       (m10 p * m00 q + m11 p * m10 q + m12 p * m20 q) (m10 p * m01 q + m11 p * m11 q + m12 p * m21 q)
       (m10 p * m02 q + m11 p * m12 q + m12 p * m22 q)
       (m20 p * m00 q + m21 p * m10 q + m22 p * m20 q) (m20 p * m01 q + m21 p * m11 q + m22 p * m21 q)
       (m20 p * m02 q + m21 p * m12 q + m22 p * m22 q).

Definition mat3_det (m : mat3 (T:=R)) : R :=
  m00 m * (m11 m * m22 m - m12 m * m21 m) - m01 m * (m10 m * m22 m - m12 m * m20 m)
  + m02 m * (m10 m * m21 m - m11 m * m20 m).

Definition col (m : mat3 (T:=R)) (j : nat) : vec3 (T:=R) :=
  match j with
  | O => mkV3 (m00 m) (m10 m) (m20 m)
  | S O => mkV3 (m01 m) (m11 m) (m21 m)
  | _ => mkV3 (m02 m) (m12 m) (m22 m)
  end.

Definition dist2 (p q : vec3 (T:=R)) : R :=
  (vx p - vx q) * (vx p - vx q) + (vy p - vy q) * (vy p - vy q) + (vz p - vz q) * (vz p - vz q).

Lemma mat3_eq (p q : mat3 (T:=R)) :
  m00 p = m00 q -> m01 p = m01 q -> m02 p = m02 q -> m10 p = m10 q -> m11 p = m11 q -> m12 p = m12 q ->
  m20 p = m20 q -> m21 p = m21 q -> m22 p = m22 q -> p = q.
Proof. destruct p, q; cbn; intros; subst; reflexivity. Qed.

Lemma vec3_eq (p q : vec3 (T:=R)) : vx p = vx q -> vy p = vy q -> vz p = vz q -> p = q.
Proof. destruct p, q; cbn; intros; subst; reflexivity. Qed.

(* ------------------------------------------------------------------ the frame is a proper rotation *)
Section Frame.
Variables lat lon : R.
Let sl := sin lat. Let cl := cos lat. Let so := sin lon. Let co := cos lon.

Lemma trig_lat : sl * sl + cl * cl = 1.
Proof. unfold sl, cl. pose proof (sin2_cos2 lat) as H. unfold Rsqr in H. exact H. Qed.
Lemma trig_lon : so * so + co * co = 1.
Proof. unfold so, co. pose proof (sin2_cos2 lon) as H. unfold Rsqr in H. exact H. Qed.

Lemma frame_rotation_entries :
  frame_rotation ROps lat lon = mkM3 (- so) (- sl * co) (cl * co) co (- sl * so) (cl * so) 0 cl sl.
Proof. reflexivity. Qed.

Lemma frame_orthonormal :
  mat3_mul (mat3_transpose (frame_rotation ROps lat lon)) (frame_rotation ROps lat lon) = mat3_id ROps.
Proof.
  rewrite frame_rotation_entries. pose proof trig_lat as Hl. pose proof trig_lon as Ho.
  apply mat3_eq; cbn; nsatz.
Qed.

Lemma frame_orthonormal_rows :
  mat3_mul (frame_rotation ROps lat lon) (mat3_transpose (frame_rotation ROps lat lon)) = mat3_id ROps.
Proof.
  rewrite frame_rotation_entries. pose proof trig_lat as Hl. pose proof trig_lon as Ho.
  apply mat3_eq; cbn; nsatz.
Qed.

Lemma frame_det : mat3_det (frame_rotation ROps lat lon) = 1.
Proof.
  rewrite frame_rotation_entries. pose proof trig_lat as Hl. pose proof trig_lon as Ho.
  unfold mat3_det; cbn; nsatz.
Qed.

(* Eigen's cofactor inverse of the frame matrix is its transpose *)
Lemma frame_inverse_is_transpose :
  mat3_inverse ROps (frame_rotation ROps lat lon) = mat3_transpose (frame_rotation ROps lat lon).
Proof.
  rewrite frame_rotation_entries. pose proof trig_lat as Hl. pose proof trig_lon as Ho.
  unfold mat3_inverse, cof. cbn.
  assert (D : (- sl * so * sl - cl * so * cl) * - so + ((cl * (cl * co) - sl * (- sl * co)) * co + (- sl * co * (cl * so) - cl * co * (- sl * so)) * 0) = 1) by nsatz.
  rewrite D. unfold Rdiv. rewrite Rinv_1, !Rmult_1_r.
  apply mat3_eq; cbn; nsatz.
Qed.

(* columns: up = ellipsoid normal of C01 *)
Lemma frame_up_is_normal : col (frame_rotation ROps lat lon) 2 = normal lat lon.
Proof. reflexivity. Qed.

End Frame.

(* ------------------------------------------------------------------ conversions of an anchored converter *)
Section Anchored.
Variable g : geodetic (T:=R).
Variable s0 : enu_state (T:=R).
Local Notation s := (set_anchor ROps s0 g).
Local Notation lat := (g_lat g). Local Notation lon := (g_lon g).

Lemma anchored_ecef_to_enu p :
  ecef_to_enu ROps s p =
  let d := mkV3 (vx p - vx (s_trans s)) (vy p - vy (s_trans s)) (vz p - vz (s_trans s)) in
  mat3_mulv ROps (mat3_transpose (frame_rotation ROps lat lon)) d.
Proof.
  unfold ecef_to_enu. cbn [s_rot set_anchor].
  rewrite frame_inverse_is_transpose. apply vec3_eq; cbn; ring.
Qed.

(* toENU(anchor) = 0 *)
Lemma anchor_maps_to_origin :
  ecef_to_enu ROps s (toECEF ROps (grs80 ROps) g) = mkV3 0 0 0.
Proof. unfold ecef_to_enu. apply vec3_eq; cbn; ring. Qed.

(* both compositions are the identity *)
Lemma enu_of_ecef_of_enu e : ecef_to_enu ROps s (enu_to_ecef ROps s e) = e.
Proof.
  rewrite anchored_ecef_to_enu. unfold enu_to_ecef. cbn [s_rot s_trans set_anchor].
  rewrite frame_rotation_entries.
  pose proof (trig_lat (g_lat g)) as Hl. pose proof (trig_lon (g_lon g)) as Ho.
  destruct e as [e0 e1 e2]. apply vec3_eq; cbn; nsatz.
Qed.

Lemma ecef_of_enu_of_ecef p : enu_to_ecef ROps s (ecef_to_enu ROps s p) = p.
Proof.
  rewrite anchored_ecef_to_enu. unfold enu_to_ecef. cbn [s_rot s_trans set_anchor].
  rewrite frame_rotation_entries.
  pose proof (trig_lat (g_lat g)) as Hl. pose proof (trig_lon (g_lon g)) as Ho.
  destruct p as [p0 p1 p2]. apply vec3_eq; cbn; nsatz.
Qed.

(* isometry *)
Lemma ecef_to_enu_isometry p q : dist2 (ecef_to_enu ROps s p) (ecef_to_enu ROps s q) = dist2 p q.
Proof.
  rewrite !anchored_ecef_to_enu. rewrite frame_rotation_entries.
  pose proof (trig_lat (g_lat g)) as Hl. pose proof (trig_lon (g_lon g)) as Ho.
  destruct p as [p0 p1 p2], q as [q0 q1 q2]. unfold dist2. cbn. nsatz.
Qed.

Lemma enu_to_ecef_isometry e f : dist2 (enu_to_ecef ROps s e) (enu_to_ecef ROps s f) = dist2 e f.
Proof.
  unfold enu_to_ecef. cbn [s_rot s_trans set_anchor]. rewrite frame_rotation_entries.
  pose proof (trig_lat (g_lat g)) as Hl. pose proof (trig_lon (g_lon g)) as Ho.
  destruct e as [e0 e1 e2], f as [f0 f1 f2]. unfold dist2. cbn. nsatz.
Qed.

(* a point h above the anchor maps to (0,0,h) *)
Lemma point_above_anchor h :
  ecef_to_enu ROps s (toECEF ROps (grs80 ROps) (mkGeo (g_lat g) (g_lon g) (g_alt g + h))) = mkV3 0 0 h.
Proof.
  rewrite anchored_ecef_to_enu. cbn [s_trans set_anchor].
  destruct g as [la lo al]. cbn [g_lat g_lon g_alt] in *.
  rewrite !toECEF_foot_plus_normal. rewrite frame_rotation_entries.
  pose proof (trig_lat la) as Hl. pose proof (trig_lon lo) as Ho.
  set (F := foot (grs80 ROps) la lo). unfold normal.
  apply vec3_eq; cbn; nsatz.
Qed.

End Anchored.

(* ------------------------------------------------------------------ histories (any numeric instance) *)
Section History.
Context {T : Type} (N : NumOps T).

Lemma set_anchor_forgets s g : set_anchor N s g = set_anchor N (enu_init N) g.
Proof. reflexivity. Qed.

Lemma reset_is_init s : reset N s = enu_init N.
Proof. reflexivity. Qed.

Lemma state_of_anchored a : s_anchored (state_of N a) = match a with None => false | Some _ => true end.
Proof. destruct a; reflexivity. Qed.

Lemma step_state fuel a o :
  fst (step N fuel (state_of N a) o) = state_of N (abs_step N a o).
Proof.
  destruct o; destruct a as [g0|]; cbn; try reflexivity.
Qed.

Lemma run_gen_fst_snd rst fuel s o ops :
  run_gen N rst fuel s (o :: ops) =
  (fst (run_gen N rst fuel (fst (step_gen N rst fuel s o)) ops),
   snd (step_gen N rst fuel s o) :: snd (run_gen N rst fuel (fst (step_gen N rst fuel s o)) ops)).
Proof.
  cbn [run_gen]. destruct (step_gen N rst fuel s o) as [s1 x]. cbn [fst snd].
  destruct (run_gen N rst fuel s1 ops) as [s2 xs]. reflexivity.
Qed.

Lemma run_state fuel ops : forall a,
  fst (run N fuel (state_of N a) ops) = state_of N (abs_run N a ops).
Proof.
  induction ops as [|o ops IH]; intros a; [reflexivity|].
  unfold run. rewrite run_gen_fst_snd. cbn [fst]. fold (step N fuel (state_of N a) o).
  rewrite step_state. fold (run N fuel (state_of N (abs_step N a o)) ops). rewrite IH. reflexivity.
Qed.

Lemma run_app rst fuel ops1 ops2 s :
  run_gen N rst fuel s (ops1 ++ ops2) =
  (fst (run_gen N rst fuel (fst (run_gen N rst fuel s ops1)) ops2),
   snd (run_gen N rst fuel s ops1) ++ snd (run_gen N rst fuel (fst (run_gen N rst fuel s ops1)) ops2)).
Proof.
  revert s. induction ops1 as [|o ops1 IH]; intros s.
  - cbn [app run_gen fst snd]. destruct (run_gen N rst fuel s ops2); reflexivity.
  - rewrite <- app_comm_cons. rewrite !run_gen_fst_snd. cbn [fst snd]. rewrite IH. cbn [fst snd]. reflexivity.
Qed.

Lemma abs_run_app a ops1 ops2 : abs_run N (abs_run N a ops1) ops2 = abs_run N a (ops1 ++ ops2).
Proof. unfold abs_run. rewrite fold_left_app. reflexivity. Qed.

(* anchored iff the abstract anchor is present *)
Lemma anchored_iff fuel ops :
  s_anchored (fst (run N fuel (enu_init N) ops)) = true <-> abs_run N None ops <> None.
Proof.
  change (enu_init N) with (state_of N None). rewrite run_state, state_of_anchored.
  destruct (abs_run N None ops); split; intros H; try discriminate; try reflexivity; congruence.
Qed.

(* after any history, reset gives the state of a freshly constructed converter, and what follows behaves
   exactly as on a fresh converter *)
Lemma reset_after_any_history fuel ops rest :
  run N fuel (fst (run N fuel (enu_init N) (ops ++ [OpReset]))) rest = run N fuel (enu_init N) rest.
Proof.
  f_equal. change (enu_init N) with (state_of N None) at 1. rewrite run_state.
  rewrite <- abs_run_app. reflexivity.
Qed.

(* after any history, setAnchor g gives the state determined by g alone *)
Lemma set_anchor_after_any_history fuel ops g :
  fst (run N fuel (enu_init N) (ops ++ [OpSetAnchor g])) = set_anchor N (enu_init N) g.
Proof.
  change (enu_init N) with (state_of N None) at 1. rewrite run_state.
  rewrite <- abs_run_app. reflexivity.
Qed.

(* first geodetic conversion on an un-anchored converter anchors there *)
Lemma first_conversion_anchors fuel ops g : abs_run N None ops = None ->
  fst (run N fuel (enu_init N) (ops ++ [OpToEnuGeo g])) = set_anchor N (enu_init N) g.
Proof.
  intros H. change (enu_init N) with (state_of N None) at 1. rewrite run_state.
  rewrite <- abs_run_app, H. reflexivity.
Qed.

End History.

(* over the reals the first conversion returns the origin *)
Lemma first_conversion_returns_origin fuel ops g : abs_run ROps None ops = None ->
  snd (run ROps fuel (enu_init ROps) (ops ++ [OpToEnuGeo g])) =
  snd (run ROps fuel (enu_init ROps) ops) ++ [OutVec (mkV3 0 0 0)].
Proof.
  intros H. unfold run. rewrite run_app. cbn [snd]. f_equal.
  fold (run ROps fuel (enu_init ROps) ops).
  change (enu_init ROps) with (state_of ROps None). rewrite run_state, H.
  cbn [state_of run_gen step_gen to_enu_geo enu_init s_anchored snd]. f_equal. f_equal.
  apply anchor_maps_to_origin.
Qed.

(* ------------------------------------------------------------------ the code before the repair of reset() *)
Lemma grs80_a_value : el_a (grs80 ROps) = 6378137.
Proof. unfold grs80, grs80_a_m, grs80_a_e. cbn [make_ellipsoid el_a]. eval_dec. lra. Qed.

Lemma toECEF_equator_x h : vx (toECEF ROps (grs80 ROps) (mkGeo 0 0 h)) = 6378137 + h.
Proof.
  unfold toECEF, primeVertical. cbn [g_lat g_lon g_alt vx]. rewrite grs80_a_value.
  cbn [nadd nmul ndiv nsub nsqrt nsin ncos n_one ROps]. rewrite sin_0, cos_0, !Rmult_0_r, Rminus_0_r, sqrt_1. field.
Qed.

Lemma reset_old_keeps_altitude fuel :
  let w_lat := 0 in let w_lon := 0 in
  snd (run_old ROps fuel (enu_init ROps)
         [OpSetAnchor (mkGeo 0 0 1000); OpReset; OpToEnuWgs w_lat w_lon; OpGetTransform]) <>
  [OutNone; OutNone] ++ snd (run_old ROps fuel (enu_init ROps) [OpToEnuWgs w_lat w_lon; OpGetTransform]).
Proof.
  cbv zeta. intros E.
  apply (f_equal (fun l => match List.nth 3 l OutNone with OutTransform _ t => vx t | _ => 0 end)) in E.
  revert E. unfold run_old.
  cbn [run_gen step_gen to_enu_geo set_anchor reset_old enu_init s_anchored s_anchor g_alt snd app List.nth
       s_rot s_trans g_lat g_lon].
  change (nzero ROps) with 0. rewrite !toECEF_equator_x. lra.
Qed.
