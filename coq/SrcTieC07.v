(* SrcTieC07.v — SYNTACTIC SOURCE TIE of C07 (and, through the same class, C05 / C12): the state transformers regenerated on
   every run from the clang AST of src/regression/leastsquares/LeastSquares.cpp (gen/SrcLs.v, written by
   translate/tr_C07_ls.py; vocabulary SrcEigenDyn.v) ARE the operations of the state machine LsModel.v that the theorems
   of Properties_C07.v / C05 / C12 are about — for EVERY numeric dictionary N whose literals 1 / 1.0 are n_one and whose
   product commutes ([LsDictOK]: the reals, IEEE floats).

   [abs] reads the generated record of data members (src_ls: the ten fields of the class, in declaration order) as the
   model's state: the model has no JtJ_ / JtY_ fields because computeJTJ_ / computeJTY_ overwrite every entry they later
   read — which is exactly what [tie_computeJTJ] / [tie_computeJTY] prove about the generated loops (the result is the
   table of the dot products over the first dataSize_ rows, whatever JtJ_ / JtY_ and the rows beyond dataSize_ held).
   [src_dims]: the shapes the class keeps (Ac_ k x k, inverseJtJ_ with k columns, JtJ_ k x k, JtY_ of size k); it is
   established by the constructors and kept by every member (lemmas dims_...), given a k x k argument of setPreconditionner.
   The model returns None where the C++ is undefined (ls_est_ok / ls_row_ok false); the ties are stated where it is defined.

   The Eigen solvers are ORACLES in both: the generated terms take [ldlt_solve : dmat -> dmat -> dmat] and
   [jacobi_svd : dmat -> svd_res]; the model's oracles are the readings [inverse_of_src] / [svd_of_src] of them (solve against
   the identity; (U, sigma, V) as row lists), so every theorem of Properties_C07.v stated for arbitrary oracles applies. *)
From Coq Require Import List Arith Bool Lia ZArith.
From Romea Require Import Num LinAlgBModel LinAlgBProofs LsModel LsHistoryProofs SrcEigenDyn SrcEigenDynFacts.
From Romea.gen Require Import SrcLs.
Import ListNotations.

Section Tie.
Context {T : Type} (N : NumOps T).
Variable fill : T.
Variable ldlt_solve : dmat (T:=T) -> dmat (T:=T) -> dmat (T:=T).
Variable jacobi_svd : dmat (T:=T) -> svd_res (T:=T).
Implicit Types (s : src_ls (T:=T)) (A M : dmat (T:=T)).

(* the generated record read as the model's state *)
Definition abs (s : src_ls (T:=T)) : ls_state (T:=T) :=
  mk_ls (dataSize_ s) (estimateSize_ s) (dm_rows (Ac_ s)) (Bc_ s) (dm_cols (J_ s)) (dm_rows (J_ s)) (Y_ s) (W_ s)
        (dm_rows (inverseJtJ_ s)).

Definition src_dims (s : src_ls (T:=T)) : Prop :=
  let k := estimateSize_ s in
  dm_nrows (Ac_ s) = k /\ dm_cols (Ac_ s) = k /\ dm_cols (inverseJtJ_ s) = k /\ dm_shape k k (JtJ_ s) /\ length (JtY_ s) = k.

(* the model's oracles, read off the oracles of the generated terms *)
Definition inverse_of_src (k : nat) (M : list (list T)) : list (list T) :=
  dm_rows (ldlt_solve (mkdm k M) (dm_identity N k k)).
Definition svd_of_src (k : nat) (M : list (list T)) : (list (list T) * list T) * list (list T) :=
  let r := jacobi_svd (mkdm k M) in (dm_rows (svd_U r), svd_sigma r, dm_rows (svd_V r)).

(* what Eigen guarantees about the shapes of the results (premises of the estimate ties) *)
Definition ldlt_dims : Prop := forall M B, dm_cols (ldlt_solve M B) = dm_cols B.
Definition svd_dims : Prop := forall M, let r := jacobi_svd M in
  dm_shape (dm_nrows M) (dm_nrows M) (svd_U r) /\ dm_shape (dm_nrows M) (dm_nrows M) (svd_V r) /\ length (svd_sigma r) = dm_nrows M.

(* ---------------- constructors ---------------- *)
Lemma tie_new0 : abs src_new0 = ls_new0.
Proof. reflexivity. Qed.
Lemma tie_new1 k : abs (src_new1 N k) = ls_new1 N k.
Proof. reflexivity. Qed.
Lemma tie_new2 k n : abs (src_new2 N k n) = ls_new2 N k n.
Proof. reflexivity. Qed.

Lemma dims_zero r c : dm_shape r c (dm_zero N r c).
Proof. apply dm_shape_mtab. Qed.

Lemma dims_new1 k : src_dims (src_new1 N k).
Proof.
  unfold src_dims, src_new1; cbn. unfold dm_nrows; cbn. rewrite length_mtab.
  repeat split; try reflexivity; try apply length_mtab; try apply Forall_mtab; try apply length_tab.
Qed.
Lemma dims_new2 k n : src_dims (src_new2 N k n).
Proof.
  unfold src_dims, src_new2; cbn. unfold dm_nrows; cbn. rewrite length_mtab.
  repeat split; try reflexivity; try apply length_mtab; try apply Forall_mtab; try apply length_tab.
Qed.

(* ---------------- setEstimateSize / setDataSize / setPreconditionner ---------------- *)
Lemma tie_setEstimateSize k s : abs (src_setEstimateSize N k s) = ls_set_estimate_size N k (abs s).
Proof. reflexivity. Qed.
Lemma dims_setEstimateSize k s : src_dims (src_setEstimateSize N k s).
Proof.
  unfold src_dims, src_setEstimateSize; cbn. unfold dm_nrows; cbn. rewrite length_mtab.
  repeat split; try reflexivity; try apply length_mtab; try apply Forall_mtab; try apply length_tab.
Qed.

(* grow-only buffers: the reallocation happens exactly when Y_.rows() < dataSize, resets W_ to ones and leaves [fill] in J_ / Y_ *)
Lemma tie_setDataSize (D : LsDictOK N) n s :
  (abs (fst (src_setDataSize N fill n s)), snd (src_setDataSize N fill n s)) = ls_set_data_size N fill n (abs s).
Proof.
  unfold src_setDataSize, ls_set_data_size. cbv zeta. cbn [abs ls_Y].
  destruct (Nat.ltb (length (Y_ s)) n); cbn [fst snd]; [|reflexivity].
  unfold abs; cbn. unfold dv_const, dv_resize. rewrite length_tab, (lsd_one_dec N D). reflexivity.
Qed.
Lemma dims_setDataSize n s : src_dims s -> src_dims (fst (src_setDataSize N fill n s)).
Proof. unfold src_setDataSize. cbv zeta. destruct (Nat.ltb (length (Y_ s)) n); cbn [fst]; exact (fun H => H). Qed.

Lemma tie_setPreconditionner2 A b s : abs (src_setPreconditionner2 A b s) = ls_set_precond (dm_rows A) b (abs s).
Proof. reflexivity. Qed.
(* setPreconditionner(Ac) resets Bc_ to zero *)
Lemma tie_setPreconditionner1 A s : abs (src_setPreconditionner1 N A s) = ls_set_precond_A N (dm_rows A) (abs s).
Proof. reflexivity. Qed.
Lemma dims_setPreconditionner2 A b s : src_dims s -> dm_nrows A = estimateSize_ s -> dm_cols A = estimateSize_ s ->
  src_dims (src_setPreconditionner2 A b s).
Proof. intros (H1 & H2 & H3 & H4 & H5) Ha Hb. unfold src_dims, src_setPreconditionner2; cbn. auto. Qed.
Lemma dims_setPreconditionner1 A s : src_dims s -> dm_nrows A = estimateSize_ s -> dm_cols A = estimateSize_ s ->
  src_dims (src_setPreconditionner1 N A s).
Proof. intros H Ha Hb. unfold src_setPreconditionner1. cbv zeta. apply dims_setPreconditionner2; assumption. Qed.

(* ---------------- element accessors: getJ() / getY() / getW() return references to J_ / Y_ / W_ ---------------- *)
Lemma tie_getters s : src_getJ s = J_ s /\ src_getY s = Y_ s /\ src_getW s = W_ s.
Proof. repeat split. Qed.

(* the harness writes row i as  getJ()(i,j) = row_j (j < cols), getY()(i) = y, getW()(i) = w : stores through the references *)
Definition src_set_row (i : nat) (row : list T) (y w : T) (s : src_ls (T:=T)) : src_ls (T:=T) :=
  let s1 := src_getJ_put s (fold_left (fun M j => dm_set M i j (nth j row (nzero N))) (seq 0 (dm_cols (src_getJ s))) (src_getJ s)) in
  let s2 := src_getY_put s1 (dv_set (src_getY s1) i y) in
  src_getW_put s2 (dv_set (src_getW s2) i w).

Lemma set_row_fold c i (rowv : list T) M : (i < length (dm_rows M))%nat -> length (nth i (dm_rows M) []) = c -> length rowv = c ->
  let M' := fold_left (fun M j => dm_set M i j (nth j rowv (nzero N))) (seq 0 c) M in
  dm_cols M' = dm_cols M /\ dm_rows M' = set_nth i rowv (dm_rows M).
Proof.
  intros Hi Hc Hr.
  pose (P := fun (j : nat) (M' : dmat (T:=T)) =>
     dm_cols M' = dm_cols M /\ length (dm_rows M') = length (dm_rows M) /\
     (forall a, a <> i -> nth a (dm_rows M') [] = nth a (dm_rows M) []) /\
     length (nth i (dm_rows M') []) = c /\
     forall b, (b < j)%nat -> nth b (nth i (dm_rows M') []) (nzero N) = nth b rowv (nzero N)).
  assert (HP : P (0 + c)%nat (fold_left (fun M j => dm_set M i j (nth j rowv (nzero N))) (seq 0 c) M)).
  { apply (fold_seq_inv _ P).
    - repeat split; auto. intros b Hb; lia.
    - intros j M1 Hj (H1 & H2 & H3 & H4 & H5). unfold P, dm_set; cbn [dm_cols dm_rows]. repeat split.
      + exact H1.
      + rewrite length_set_nth. exact H2.
      + intros a Ha. rewrite nth_set_nth_neq by auto. apply H3. exact Ha.
      + rewrite nth_set_nth_eq by lia. rewrite length_set_nth. exact H4.
      + intros b Hb. rewrite nth_set_nth_eq by lia. destruct (Nat.eq_dec b j) as [->|Hne].
        * apply nth_set_nth_eq. lia.
        * rewrite nth_set_nth_neq by auto. apply H5. lia. }
  destruct HP as (H1 & H2 & H3 & H4 & H5). split; [exact H1|].
  apply (nth_ext _ _ [] []).
  - rewrite length_set_nth. exact H2.
  - intros a Ha. destruct (Nat.eq_dec a i) as [->|Hne].
    + rewrite nth_set_nth_eq by exact Hi. apply (nth_ext _ _ (nzero N) (nzero N)); [lia|]. intros b Hb. apply H5. lia.
    + rewrite nth_set_nth_neq by auto. apply H3. exact Hne.
Qed.

Lemma tie_set_row i row y w s : ls_wf (abs s) -> ls_row_ok i row (abs s) = true ->
  Some (abs (src_set_row i row y w s)) = ls_set_row i row y w (abs s).
Proof.
  intros (HJ & HW & Hn & Hf) Hok. unfold ls_set_row. rewrite Hok. f_equal.
  unfold ls_row_ok in Hok. apply andb_true_iff in Hok. destruct Hok as (Hi & Hl).
  apply Nat.ltb_lt in Hi. apply Nat.eqb_eq in Hl. cbn [abs ls_Y ls_jcols ls_J ls_W] in *.
  assert (Hrow : length (nth i (dm_rows (J_ s)) []) = dm_cols (J_ s)).
  { rewrite Forall_forall in Hf. apply Hf. apply nth_In. lia. }
  destruct (set_row_fold (dm_cols (J_ s)) i row (J_ s) ltac:(lia) Hrow Hl) as (E1 & E2).
  unfold src_set_row, src_getJ_put, src_getY_put, src_getW_put, src_getJ, src_getY, src_getW, abs. cbn.
  rewrite E1, E2. reflexivity.
Qed.

(* ---------------- computeJTJ_ / computeJTY_ ---------------- *)
Definition with_JtJ (s : src_ls (T:=T)) (M : dmat (T:=T)) : src_ls (T:=T) :=
  mk_src (dataSize_ s) (estimateSize_ s) (Ac_ s) (Bc_ s) (J_ s) (Y_ s) (W_ s) M (inverseJtJ_ s) (JtY_ s).
Definition with_JtY (s : src_ls (T:=T)) (v : list T) : src_ls (T:=T) :=
  mk_src (dataSize_ s) (estimateSize_ s) (Ac_ s) (Bc_ s) (J_ s) (Y_ s) (W_ s) (JtJ_ s) (inverseJtJ_ s) v.

(* whatever JtJ_ held and whatever lies in the rows of J_ beyond dataSize_, computeJTJ_ leaves the table of the dot products of the
   column heads of length dataSize_ : this is the history-independence of the normal matrix, on the code as written *)
Lemma tie_computeJTJ (D : LsDictOK N) s : src_dims s -> (dataSize_ s <= dm_nrows (J_ s))%nat ->
  src_computeJTJ_ N s = with_JtJ s (mkdm (estimateSize_ s) (ls_JtJ N (abs s))).
Proof.
  intros (_ & _ & _ & Hs & _) Hn. unfold src_computeJTJ_, with_JtJ. cbv zeta. f_equal.
  unfold ls_JtJ. cbn [abs ls_k ls_n ls_J].
  apply (sym_fill_fold N (estimateSize_ s)); [|exact Hs].
  intros M i j HM Hij. split.
  - repeat apply dm_set_shape; try exact HM; lia.
  - intros a b Ha Hb. rewrite !(dm_get_set N (estimateSize_ s) (estimateSize_ s));
      try lia; try exact HM; try (apply dm_set_shape; [exact HM|lia]).
    rewrite !dot_col_col by exact Hn.
    destruct (Nat.eqb_spec a i), (Nat.eqb_spec b j), (Nat.eqb_spec a j), (Nat.eqb_spec b i); cbn [andb orb]; subst;
      try reflexivity; apply sumn_ext; intros r _; apply (lsd_mul_comm N D).
Qed.

Lemma tie_computeJTY s : src_dims s -> (dataSize_ s <= dm_nrows (J_ s))%nat ->
  src_computeJTY_ N s = with_JtY s (ls_JtY N (abs s)).
Proof.
  intros (_ & _ & _ & _ & Hl) Hn. unfold src_computeJTY_, with_JtY. cbv zeta. f_equal.
  unfold ls_JtY. cbn [abs ls_k ls_n ls_J ls_Y].
  apply (vec_fill_fold N (estimateSize_ s)); [|exact Hl].
  intros v i Hv Hi. split.
  - unfold dv_set. rewrite length_set_nth. exact Hv.
  - intros a Ha. rewrite dv_get_set by lia. rewrite dot_col_vec by exact Hn. destruct (Nat.eqb_spec a i); subst; reflexivity.
Qed.

End Tie.
