(* SrcTieC07.v — SYNTACTIC SOURCE TIE of C07 (and, through the same class, C05 / C12): the state transformers regenerated on
   every run from the clang AST of src/regression/leastsquares/LeastSquares.cpp (gen/SrcLs.v, written by
   translate/tr_C07_ls.py; vocabulary SrcEigenDyn.v) ARE the operations of the state machine LsModel.v that the theorems
   of Properties_C07.v / C05 / C12 are about — for EVERY numeric dictionary N whose literals 1 / 1.0 are n_one and whose
   product commutes ([LsDictOK]: the reals, IEEE floats).

   (Base definitions [abs], [src_dims] and the covariance tie are in SrcTieLs.v.)
   [abs] reads the generated record of data members (src_ls: the ten fields of the class, in declaration order) as the
   model's state: the model has no JtJ_ / JtY_ fields because computeJTJ_ / computeJTY_ overwrite every entry they later
   read — which is exactly what [tie_computeJTJ] / [tie_computeJTY] prove about the generated loops (the result is the
   table of the dot products over the first dataSize_ rows, whatever JtJ_ / JtY_ and the rows beyond dataSize_ held).
   [src_dims]: the shapes the class keeps (Ac_ k x k, inverseJtJ_ with k columns, JtJ_ k x k, JtY_ of size k); it is
   established by the constructors and kept by every member (lemmas dims_...), given a k x k argument of setPreconditionner.
   The model returns None where the C++ is undefined (ls_est_ok / ls_row_ok false); the ties are stated where it is defined.

   The Eigen solvers are ORACLES in both: the generated terms take [ldlt_solve : dmat -> dmat -> dmat] and
   [jacobi_svd : dmat -> svd_res]; the model's oracles are the readings [inverse_of_src] / [svd_of_src] of them (solve against
   the identity; (U, sigma, V) as row lists), so every theorem of Properties_C07.v stated for arbitrary oracles applies. *)
From Coq Require Import List Arith Bool Lia ZArith.
From Romea Require Import Num LinAlgBModel LinAlgBProofs LsModel LsHistoryProofs SrcEigenDyn SrcEigenDynFacts SrcTieLs.
From Romea.gen Require Import SrcLs.
Import ListNotations.

Section Tie.
Context {T : Type} (N : NumOps T).
Variable fill : T.
Variable ldlt_solve : dmat (T:=T) -> dmat (T:=T) -> dmat (T:=T).
Variable jacobi_svd : dmat (T:=T) -> svd_res (T:=T).
Implicit Types (s : src_ls (T:=T)) (M : dmat (T:=T)).

(* the model's oracles, read off the oracles of the generated terms *)
Definition inverse_of_src (k : nat) (M : list (list T)) : list (list T) :=
  dm_rows (ldlt_solve (mkdm k M) (dm_identity N k k)).
Definition svd_of_src (k : nat) (M : list (list T)) : (list (list T) * list T) * list (list T) :=
  let r := jacobi_svd (mkdm k M) in (dm_rows (svd_U r), svd_sigma r, dm_rows (svd_V r)).

(* what Eigen guarantees about the shapes of the results (premises of the estimate ties) *)
Definition ldlt_dims : Prop := forall M B, dm_cols (ldlt_solve M B) = dm_cols B.
Definition svd_dims : Prop := forall M, let r := jacobi_svd M in
  dm_shape (dm_nrows M) (dm_nrows M) (svd_U r) /\ dm_shape (dm_nrows M) (dm_nrows M) (svd_V r) /\ length (svd_sigma r) = dm_nrows M.

(* ---------------- constructors ---------------- *)
Lemma tie_new0 : abs (src_new0 (T:=T)) = ls_new0 (T:=T).
Proof. reflexivity. Qed.
Lemma tie_new1 k : abs (src_new1 N k) = ls_new1 N k.
Proof. reflexivity. Qed.
Lemma tie_new2 k n : abs (src_new2 N k n) = ls_new2 N k n.
Proof. reflexivity. Qed.

Lemma dims_zero r c : dm_shape r c (dm_zero N r c).
Proof. apply dm_shape_mtab. Qed.

Lemma dims_new1 k : src_dims (src_new1 N k).
Proof.
  unfold src_dims, src_new1; cbn. unfold dm_nrows; cbn. rewrite length_mtab.
  repeat split; try reflexivity; try apply length_mtab; try apply Forall_mtab; try apply length_tab.
Qed.
Lemma dims_new2 k n : src_dims (src_new2 N k n).
Proof.
  unfold src_dims, src_new2; cbn. unfold dm_nrows; cbn. rewrite length_mtab.
  repeat split; try reflexivity; try apply length_mtab; try apply Forall_mtab; try apply length_tab.
Qed.

(* ---------------- setEstimateSize / setDataSize / setPreconditionner ---------------- *)
Lemma tie_setEstimateSize k s : abs (src_setEstimateSize N k s) = ls_set_estimate_size N k (abs s).
Proof. reflexivity. Qed.
Lemma dims_setEstimateSize k s : src_dims (src_setEstimateSize N k s).
Proof.
  unfold src_dims, src_setEstimateSize; cbn. unfold dm_nrows; cbn. rewrite length_mtab.
  repeat split; try reflexivity; try apply length_mtab; try apply Forall_mtab; try apply length_tab.
Qed.

(* grow-only buffers: the reallocation happens exactly when Y_.rows() < dataSize, resets W_ to ones and leaves [fill] in J_ / Y_ *)
Lemma tie_setDataSize (D : LsDictOK N) n s :
  (abs (fst (src_setDataSize N fill n s)), snd (src_setDataSize N fill n s)) = ls_set_data_size N fill n (abs s).
Proof.
  unfold src_setDataSize, ls_set_data_size. cbv zeta. cbn [abs ls_Y].
  destruct (Nat.ltb (length (Y_ s)) n); cbn [fst snd]; [|reflexivity].
  unfold abs; cbn. unfold dv_const, dv_resize. rewrite length_tab, (lsd_one_dec N D). reflexivity.
Qed.
Lemma dims_setDataSize n s : src_dims s -> src_dims (fst (src_setDataSize N fill n s)).
Proof. unfold src_setDataSize. cbv zeta. destruct (Nat.ltb (length (Y_ s)) n); cbn [fst]; exact (fun H => H). Qed.

Lemma tie_setPreconditionner2 A b s : abs (src_setPreconditionner2 A b s) = ls_set_precond (dm_rows A) b (abs s).
Proof. reflexivity. Qed.
(* setPreconditionner(Ac) resets Bc_ to zero *)
Lemma tie_setPreconditionner1 A s : abs (src_setPreconditionner1 N A s) = ls_set_precond_A N (dm_rows A) (abs s).
Proof. reflexivity. Qed.
Lemma dims_setPreconditionner2 A b s : src_dims s -> dm_nrows A = estimateSize_ s -> dm_cols A = estimateSize_ s ->
  src_dims (src_setPreconditionner2 A b s).
Proof. intros (H1 & H2 & H3 & H4 & H5) Ha Hb. unfold src_dims, src_setPreconditionner2; cbn. auto. Qed.
Lemma dims_setPreconditionner1 A s : src_dims s -> dm_nrows A = estimateSize_ s -> dm_cols A = estimateSize_ s ->
  src_dims (src_setPreconditionner1 N A s).
Proof. intros H Ha Hb. unfold src_setPreconditionner1. cbv zeta. apply dims_setPreconditionner2; assumption. Qed.

(* ---------------- element accessors: getJ() / getY() / getW() return references to J_ / Y_ / W_ ---------------- *)
Lemma tie_getters s : src_getJ s = J_ s /\ src_getY s = Y_ s /\ src_getW s = W_ s.
Proof. repeat split. Qed.

(* the harness writes row i as  getJ()(i,j) = row_j (j < cols), getY()(i) = y, getW()(i) = w : stores through the references *)
Definition src_set_row (i : nat) (row : list T) (y w : T) (s : src_ls (T:=T)) : src_ls (T:=T) :=
  let s1 := src_getJ_put s (fold_left (fun M j => dm_set M i j (nth j row (nzero N))) (seq 0 (dm_cols (src_getJ s))) (src_getJ s)) in
  let s2 := src_getY_put s1 (dv_set (src_getY s1) i y) in
  src_getW_put s2 (dv_set (src_getW s2) i w).

Lemma set_row_fold c i (rowv : list T) M : (i < length (dm_rows M))%nat -> length (nth i (dm_rows M) []) = c -> length rowv = c ->
  let M' := fold_left (fun M j => dm_set M i j (nth j rowv (nzero N))) (seq 0 c) M in
  dm_cols M' = dm_cols M /\ dm_rows M' = set_nth i rowv (dm_rows M).
Proof.
  intros Hi Hc Hr.
  pose (P := fun (j : nat) (M' : dmat (T:=T)) =>
     dm_cols M' = dm_cols M /\ length (dm_rows M') = length (dm_rows M) /\
     (forall a, a <> i -> nth a (dm_rows M') [] = nth a (dm_rows M) []) /\
     length (nth i (dm_rows M') []) = c /\
     forall b, (b < j)%nat -> nth b (nth i (dm_rows M') []) (nzero N) = nth b rowv (nzero N)).
  assert (HP : P (0 + c)%nat (fold_left (fun M j => dm_set M i j (nth j rowv (nzero N))) (seq 0 c) M)).
  { apply (fold_seq_inv _ P).
    - repeat split; auto. intros b Hb; lia.
    - intros j M1 Hj (H1 & H2 & H3 & H4 & H5). unfold P, dm_set; cbn [dm_cols dm_rows]. repeat split.
      + exact H1.
      + rewrite length_set_nth. exact H2.
      + intros a Ha. rewrite nth_set_nth_neq by auto. apply H3. exact Ha.
      + rewrite nth_set_nth_eq by lia. rewrite length_set_nth. exact H4.
      + intros b Hb. rewrite nth_set_nth_eq by lia. destruct (Nat.eq_dec b j) as [->|Hne].
        * apply nth_set_nth_eq. lia.
        * rewrite nth_set_nth_neq by auto. apply H5. lia. }
  destruct HP as (H1 & H2 & H3 & H4 & H5). split; [exact H1|].
  apply (nth_ext _ _ [] []).
  - rewrite length_set_nth. exact H2.
  - intros a Ha. destruct (Nat.eq_dec a i) as [->|Hne].
    + rewrite nth_set_nth_eq by exact Hi. apply (nth_ext _ _ (nzero N) (nzero N)); [lia|]. intros b Hb. apply H5. lia.
    + rewrite nth_set_nth_neq by auto. apply H3. exact Hne.
Qed.

Lemma tie_set_row i row y w s : ls_wf (abs s) -> ls_row_ok i row (abs s) = true ->
  Some (abs (src_set_row i row y w s)) = ls_set_row i row y w (abs s).
Proof.
  intros (HJ & HW & Hn & Hf) Hok. unfold ls_set_row. rewrite Hok. f_equal.
  unfold ls_row_ok in Hok. apply andb_true_iff in Hok. destruct Hok as (Hi & Hl).
  apply Nat.ltb_lt in Hi. apply Nat.eqb_eq in Hl. cbn [abs ls_Y ls_jcols ls_J ls_W] in *.
  assert (Hrow : length (nth i (dm_rows (J_ s)) []) = dm_cols (J_ s)).
  { rewrite Forall_forall in Hf. apply Hf. apply nth_In. lia. }
  destruct (set_row_fold (dm_cols (J_ s)) i row (J_ s) ltac:(lia) Hrow Hl) as (E1 & E2).
  unfold src_set_row, src_getJ_put, src_getY_put, src_getW_put, src_getJ, src_getY, src_getW, abs. cbn.
  rewrite E1, E2. reflexivity.
Qed.

(* ---------------- computeJTJ_ / computeJTY_ ---------------- *)
Definition with_JtJ (s : src_ls (T:=T)) (M : dmat (T:=T)) : src_ls (T:=T) :=
  mk_src (dataSize_ s) (estimateSize_ s) (Ac_ s) (Bc_ s) (J_ s) (Y_ s) (W_ s) M (inverseJtJ_ s) (JtY_ s).
Definition with_JtY (s : src_ls (T:=T)) (v : list T) : src_ls (T:=T) :=
  mk_src (dataSize_ s) (estimateSize_ s) (Ac_ s) (Bc_ s) (J_ s) (Y_ s) (W_ s) (JtJ_ s) (inverseJtJ_ s) v.

(* whatever JtJ_ held and whatever lies in the rows of J_ beyond dataSize_, computeJTJ_ leaves the table of the dot products of the
   column heads of length dataSize_ : this is the history-independence of the normal matrix, on the code as written *)
Lemma tie_computeJTJ (D : LsDictOK N) s : src_dims s -> (dataSize_ s <= dm_nrows (J_ s))%nat ->
  src_computeJTJ_ N s = with_JtJ s (mkdm (estimateSize_ s) (ls_JtJ N (abs s))).
Proof.
  intros (_ & _ & _ & Hs & _) Hn. unfold src_computeJTJ_, with_JtJ. cbv zeta. f_equal.
  unfold ls_JtJ. cbn [abs ls_k ls_n ls_J].
  apply (sym_fill_fold N (estimateSize_ s)); [|exact Hs].
  intros M i j HM Hij. split.
  - repeat apply dm_set_shape; try exact HM; lia.
  - intros a b Ha Hb. rewrite !(dm_get_set N (estimateSize_ s) (estimateSize_ s));
      try lia; try exact HM; try (apply dm_set_shape; [exact HM|lia]).
    rewrite !dot_col_col by exact Hn.
    destruct (Nat.eqb_spec a i), (Nat.eqb_spec b j), (Nat.eqb_spec a j), (Nat.eqb_spec b i); cbn [andb orb]; subst;
      try reflexivity; apply sumn_ext; intros r _; apply (lsd_mul_comm N D).
Qed.

Lemma tie_computeJTY s : src_dims s -> (dataSize_ s <= dm_nrows (J_ s))%nat ->
  src_computeJTY_ N s = with_JtY s (ls_JtY N (abs s)).
Proof.
  intros (_ & _ & _ & _ & Hl) Hn. unfold src_computeJTY_, with_JtY. cbv zeta. f_equal.
  unfold ls_JtY. cbn [abs ls_k ls_n ls_J ls_Y].
  apply (vec_fill_fold N (estimateSize_ s)); [|exact Hl].
  intros v i Hv Hi. split.
  - unfold dv_set. rewrite length_set_nth. exact Hv.
  - intros a Ha. rewrite dv_get_set by lia. rewrite dot_col_vec by exact Hn. destruct (Nat.eqb_spec a i); subst; reflexivity.
Qed.

(* Ac_ * inverseJtJ_ * JtY_ + Bc_ *)
Lemma apply_eq s (inv : dmat (T:=T)) (v : list T) : dm_nrows (Ac_ s) = estimateSize_ s -> dm_cols (Ac_ s) = estimateSize_ s ->
  dm_cols inv = estimateSize_ s ->
  dv_add N (dm_mulv N (dm_mul N (Ac_ s) inv) v) (Bc_ s) =
  vadd N (estimateSize_ s) (mvmul N (estimateSize_ s) (estimateSize_ s)
           (mmul N (estimateSize_ s) (estimateSize_ s) (estimateSize_ s) (dm_rows (Ac_ s)) (dm_rows inv)) v) (Bc_ s).
Proof.
  intros H1 H2 H3. rewrite (dm_mul_eq N _ _ _ _ _ H1 H2 H3).
  rewrite (dm_mulv_eq N _ _ (estimateSize_ s) (estimateSize_ s)); [|unfold dm_nrows; cbn; apply length_mtab|reflexivity].
  apply dv_add_eq. unfold mvmul. apply length_tab.
Qed.

Lemma apply_eq_mk s (rows : list (list T)) (v : list T) : dm_nrows (Ac_ s) = estimateSize_ s -> dm_cols (Ac_ s) = estimateSize_ s ->
  dv_add N (dm_mulv N (dm_mul N (Ac_ s) (mkdm (estimateSize_ s) rows)) v) (Bc_ s) =
  vadd N (estimateSize_ s) (mvmul N (estimateSize_ s) (estimateSize_ s)
           (mmul N (estimateSize_ s) (estimateSize_ s) (estimateSize_ s) (dm_rows (Ac_ s)) rows) v) (Bc_ s).
Proof. intros H1 H2. apply (apply_eq s (mkdm (estimateSize_ s) rows) v H1 H2 eq_refl). Qed.

Lemma dims_with_JtJ s (f : nat -> nat -> T) : src_dims s -> src_dims (with_JtJ s (mkdm (estimateSize_ s) (mtab (estimateSize_ s) (estimateSize_ s) f))).
Proof. intros (H1 & H2 & H3 & H4 & H5). unfold src_dims, with_JtJ; cbn. repeat split; auto; try apply length_mtab; apply Forall_mtab. Qed.

(* the state after computeJTJ_(); computeJTY_() *)
Definition normal_state s : src_ls (T:=T) := with_JtY (with_JtJ s (mkdm (estimateSize_ s) (ls_JtJ N (abs s)))) (ls_JtY N (abs s)).

Lemma tie_normal (D : LsDictOK N) s : src_dims s -> (dataSize_ s <= dm_nrows (J_ s))%nat ->
  src_computeJTY_ N (src_computeJTJ_ N s) = normal_state s.
Proof.
  intros Hd Hn. rewrite (tie_computeJTJ D s Hd Hn). rewrite tie_computeJTY; [reflexivity| |exact Hn].
  apply dims_with_JtJ. exact Hd.
Qed.

Lemma tie_normal' (D : LsDictOK N) s : src_dims s -> (dataSize_ s <= dm_nrows (J_ s))%nat ->
  src_computeJTJ_ N (src_computeJTY_ N s) = normal_state s.
Proof.
  intros Hd Hn. rewrite (tie_computeJTY s Hd Hn). rewrite (tie_computeJTJ D); [reflexivity| |exact Hn].
  destruct Hd as (H1 & H2 & H3 & H4 & H5). unfold src_dims, with_JtY; cbn. repeat split; auto; try apply H4.
  unfold ls_JtY. apply length_tab.
Qed.

Lemma est_ok_rows s : ls_wf (abs s) -> (dataSize_ s <= dm_nrows (J_ s))%nat.
Proof. intros (HJ & _ & Hn & _). cbn [abs ls_J ls_Y ls_n] in *. unfold dm_nrows. lia. Qed.

(* ---------------- estimateUsingCholeskyDecomposition ---------------- *)
Lemma tie_chol (D : LsDictOK N) s : ldlt_dims -> src_dims s -> ls_wf (abs s) -> ls_est_ok (abs s) = true ->
  Some (abs (fst (src_estimateUsingCholeskyDecomposition N ldlt_solve s)), snd (src_estimateUsingCholeskyDecomposition N ldlt_solve s))
  = ls_estimate_chol N inverse_of_src (abs s).
Proof.
  intros Hl Hd Hwf Hok. unfold ls_estimate_chol. rewrite Hok.
  unfold src_estimateUsingCholeskyDecomposition. cbv zeta. first [rewrite (tie_normal D s Hd (est_ok_rows s Hwf)) | rewrite (tie_normal' D s Hd (est_ok_rows s Hwf))].
  destruct Hd as (H1 & H2 & H3 & H4 & H5). cbn [fst snd normal_state with_JtY with_JtJ dataSize_ estimateSize_ Ac_ Bc_ J_ Y_ W_ JtJ_ inverseJtJ_ JtY_].
  assert (Hc : dm_cols (ldlt_solve (mkdm (estimateSize_ s) (ls_JtJ N (abs s))) (dm_identity N (estimateSize_ s) (estimateSize_ s))) = estimateSize_ s)
    by (rewrite Hl; reflexivity).
  rewrite (apply_eq s _ _ H1 H2 Hc). reflexivity.
Qed.

Lemma dims_chol (D : LsDictOK N) s : ldlt_dims -> src_dims s -> ls_wf (abs s) ->
  src_dims (fst (src_estimateUsingCholeskyDecomposition N ldlt_solve s)).
Proof.
  intros Hl Hd Hwf. unfold src_estimateUsingCholeskyDecomposition. cbv zeta. first [rewrite (tie_normal D s Hd (est_ok_rows s Hwf)) | rewrite (tie_normal' D s Hd (est_ok_rows s Hwf))].
  destruct Hd as (H1 & H2 & H3 & H4 & H5). unfold src_dims, normal_state, with_JtY, with_JtJ, ls_JtJ, ls_JtY; cbn.
  repeat split; auto; try apply length_mtab; try apply Forall_mtab; try apply length_tab. apply Hl.
Qed.

(* ---------------- estimateUsingSVD (relative singular-value threshold) ---------------- *)
Lemma svd_loop_eq k (thr : T) (sigma : list T) : length sigma = k ->
  fold_left (fun M n => if nltb N thr (dm_get N M n n) then dm_set M n n (ndiv N (n_one N) (dm_get N M n n)) else M)
            (seq 0 k) (dm_of_diag N sigma)
  = mkdm k (mtab k k (fdiag N (svd_inv_diag N thr sigma))).
Proof.
  intros Hs.
  assert (H0 : dm_shape k k (dm_of_diag N sigma)). { unfold dm_of_diag. rewrite Hs. apply dm_shape_mtab. }
  rewrite (diag_map_fold N k _ (fun x => if nltb N thr x then ndiv N (n_one N) x else x) _); [|clear H0|exact H0].
  - f_equal. apply mtab_ext. intros a b Ha Hb. unfold dm_get, dm_of_diag; cbn [dm_rows]. rewrite Hs.
    rewrite !mget_mtab by assumption. unfold fdiag, svd_inv_diag. rewrite Nat.eqb_refl. destruct (Nat.eqb a b); reflexivity.
  - intros M n HM Hn. destruct (nltb N thr (dm_get N M n n)) eqn:E.
    + split; [apply dm_set_shape; [exact HM|lia]|]. intros a b Ha Hb.
      rewrite (dm_get_set N k k) by (try exact HM; lia). reflexivity.
    + split; [exact HM|]. intros a b Ha Hb.
      destruct (Nat.eqb_spec a n), (Nat.eqb_spec b n); cbn [andb]; subst; reflexivity.
Qed.

Lemma tie_svd (D : LsDictOK N) s : svd_dims -> src_dims s -> ls_wf (abs s) -> ls_est_ok (abs s) = true ->
  Some (abs (fst (src_estimateUsingSVD N jacobi_svd s)), snd (src_estimateUsingSVD N jacobi_svd s))
  = ls_estimate_svd N svd_of_src (abs s).
Proof.
  intros Hsv Hd Hwf Hok. unfold ls_estimate_svd. rewrite Hok.
  unfold src_estimateUsingSVD. cbv zeta. first [rewrite (tie_normal D s Hd (est_ok_rows s Hwf)) | rewrite (tie_normal' D s Hd (est_ok_rows s Hwf))].
  destruct Hd as (H1 & H2 & H3 & H4 & H5).
  cbn [fst snd normal_state with_JtY with_JtJ dataSize_ estimateSize_ Ac_ Bc_ J_ Y_ W_ JtJ_ inverseJtJ_ JtY_].
  unfold svd_of_src. cbn [abs ls_k fst snd].
  set (k := estimateSize_ s) in *.
  set (r := jacobi_svd (mkdm k (ls_JtJ N (abs s)))).
  assert (Hk : dm_nrows (mkdm k (ls_JtJ N (abs s))) = k). { unfold dm_nrows, ls_JtJ; cbn. apply length_mtab. }
  destruct (Hsv (mkdm k (ls_JtJ N (abs s)))) as (HU & HV & Hsg). fold r in HU, HV, Hsg. rewrite Hk in HU, HV, Hsg.
  destruct HU as (HU1 & HU2 & _). destruct HV as (HV1 & HV2 & _).
  (* the loop over the diagonal *)
  rewrite ?(lsd_one N D), ?(lsd_one_dec N D).      (* the literal 1 / 1.0 of the source is the model's n_one *)
  assert (Hloop : forall thr, fold_left (fun M n => if nltb N thr (dm_get N M n n) then dm_set M n n (ndiv N (n_one N) (dm_get N M n n)) else M)
            (seq 0 k) (dm_of_diag N (svd_sigma r)) = mkdm k (mtab k k (fdiag N (svd_inv_diag N thr (svd_sigma r))))).
  { intros thr. apply svd_loop_eq. exact Hsg. }
  rewrite Hloop.
  (* the pseudo-inverse *)
  assert (Hpinv : forall thr, dm_mul N (dm_mul N (svd_V r) (mkdm k (mtab k k (fdiag N (svd_inv_diag N thr (svd_sigma r)))))) (dm_transpose N (svd_U r))
                  = mkdm k (svd_pinv N k thr (dm_rows (svd_U r), svd_sigma r, dm_rows (svd_V r)))).
  { intros thr. unfold svd_pinv.
    rewrite (dm_mul_eq N (svd_V r) (mkdm k (mtab k k (fdiag N (svd_inv_diag N thr (svd_sigma r))))) k k k HV2 HV1 eq_refl).
    rewrite (dm_transpose_eq N (svd_U r) k k HU2 HU1).
    rewrite (dm_mul_eq N _ _ k k k); [reflexivity|unfold dm_nrows; cbn; apply length_mtab|reflexivity|reflexivity]. }
  rewrite Hpinv. cbn [dm_rows dm_cols].
  rewrite (apply_eq_mk s _ _ H1 H2). fold k.
  (* the threshold: epsilon * sigma_0 when estimateSize_ > 0; with estimateSize_ = 0 there is no singular value to compare *)
  destruct (Nat.ltb_spec 0 k) as [Hpos|Hz].
  - reflexivity.
  - assert (k = 0)%nat by lia. unfold ls_with_inv, ls_apply, abs; cbn. fold k. rewrite H. reflexivity.
Qed.

Lemma dims_svd (D : LsDictOK N) s : svd_dims -> src_dims s -> ls_wf (abs s) -> src_dims (fst (src_estimateUsingSVD N jacobi_svd s)).
Proof.
  intros Hsv Hd Hwf. unfold src_estimateUsingSVD. cbv zeta. first [rewrite (tie_normal D s Hd (est_ok_rows s Hwf)) | rewrite (tie_normal' D s Hd (est_ok_rows s Hwf))].
  destruct Hd as (H1 & H2 & H3 & H4 & H5). unfold src_dims, normal_state, with_JtY, with_JtJ; cbn.
  repeat split; auto; try (unfold ls_JtJ; apply length_mtab); try (unfold ls_JtJ; apply Forall_mtab); try (unfold ls_JtY; apply length_tab).
  destruct (Hsv (mkdm (estimateSize_ s) (ls_JtJ N (abs s)))) as ((_ & HU & _) & _ & _).
  etransitivity; [exact HU|]. unfold dm_nrows, ls_JtJ; cbn [dm_rows]. apply length_mtab.
Qed.

(* ---------------- weightJAndY_ / weightedEstimate ---------------- *)
(* Y_.head(n).array() *= W_.head(n).array() *)
Lemma weight_Y_eq (Y W : list T) n : (n <= length Y)%nat ->
  dv_set_head n Y (dv_cwise_mul N (dv_head n Y) (dv_head n W)) =
  map (fun iy : nat * T => let (i, y) := iy in if Nat.ltb i n then nmul N y (vget N W i) else y) (combine (seq 0 (length Y)) Y).
Proof.
  intros Hn. unfold dv_set_head, dv_cwise_mul, dv_head.
  assert (Hf : length (firstn n Y) = n) by (apply firstn_length_le; exact Hn). rewrite Hf.
  apply (nth_ext _ _ (nzero N) (nzero N)).
  - rewrite app_length, firstn_length_le by (rewrite length_tab; lia). rewrite skipn_length, map_length, combine_length, seq_length. lia.
  - intros a Ha. rewrite app_length, firstn_length_le in Ha by (rewrite length_tab; lia). rewrite skipn_length in Ha.
    rewrite (nth_map_indexed _ Y a (nzero N) (nzero N)) by lia.
    destruct (Nat.ltb_spec a n) as [Hlt|Hge].
    + rewrite app_nth1 by (rewrite firstn_length_le by (rewrite length_tab; lia); exact Hlt).
      rewrite nth_firstn_lt by exact Hlt. rewrite nth_tab by exact Hlt. unfold vget. rewrite !nth_firstn_lt by exact Hlt. reflexivity.
    + rewrite app_nth2 by (rewrite firstn_length_le by (rewrite length_tab; lia); exact Hge).
      rewrite firstn_length_le by (rewrite length_tab; lia). rewrite nth_skipn_add. f_equal. lia.
Qed.

Lemma dm_set_col_shape r c M i (u : list T) : dm_shape r c M -> dm_shape r c (dm_set_col N M i u).
Proof.
  intros (Hc & Hr & Hf). repeat split; cbn.
  - exact Hc.
  - rewrite map_length, combine_length, seq_length. lia.
  - apply Forall_forall. intros x Hx. apply in_map_iff in Hx. destruct Hx as ((a, row) & <- & Hin). cbn [fst snd].
    rewrite length_set_nth. rewrite Forall_forall in Hf. apply Hf. apply in_combine_r in Hin. exact Hin.
Qed.

Lemma dm_get_set_col r c M i (u : list T) a b : dm_shape r c M -> (i < c)%nat -> (a < r)%nat ->
  dm_get N (dm_set_col N M i u) a b = if Nat.eqb b i then vget N u a else dm_get N M a b.
Proof.
  intros (Hc & Hr & Hf) Hi Ha. unfold dm_get, dm_set_col, mget. cbn [dm_rows].
  rewrite (nth_map_indexed _ (dm_rows M) a [] []) by lia. cbn [fst snd].
  assert (Hl : length (nth a (dm_rows M) []) = c). { rewrite Forall_forall in Hf. apply Hf. apply nth_In. lia. }
  destruct (Nat.eqb_spec b i) as [->|Hne].
  - apply nth_set_nth_eq. lia.
  - apply nth_set_nth_neq. auto.
Qed.

(* one pass of the loop: column i, rows below n, multiplied by W *)
Lemma weight_col_get r c M (W : list T) n i a b : dm_shape r c M -> (i < c)%nat -> (a < r)%nat -> (n <= r)%nat ->
  dm_get N (dm_set_col N M i (dv_set_head n (dm_col N M i) (dv_cwise_mul N (dv_head n (dm_col N M i)) (dv_head n W)))) a b =
  if andb (Nat.eqb b i) (Nat.ltb a n) then nmul N (dm_get N M a i) (vget N W a) else dm_get N M a b.
Proof.
  intros HM Hi Ha Hn. rewrite (dm_get_set_col r c) by assumption.
  destruct (Nat.eqb_spec b i) as [->|Hne]; cbn [andb]; [|reflexivity].
  destruct HM as (Hc & Hr & Hf).
  assert (Hlen : length (dm_col N M i) = r) by (unfold dm_col; rewrite map_length; exact Hr).
  rewrite (weight_Y_eq (dm_col N M i) W n) by lia. unfold vget at 1.
  rewrite (nth_map_indexed _ (dm_col N M i) a (nzero N) (nzero N)) by lia.
  assert (Hg : nth a (dm_col N M i) (nzero N) = dm_get N M a i).
  { unfold dm_col, dm_get, mget. rewrite <- (map_nth (fun row => nth i row (nzero N)) (dm_rows M) [] a).
    replace (nth i [] (nzero N)) with (nzero N) by (destruct i; reflexivity). reflexivity. }
  rewrite Hg. reflexivity.
Qed.

Lemma weight_J_fold r c M0 (W : list T) n : dm_shape r c M0 -> (n <= r)%nat ->
  fold_left (fun M i => dm_set_col N M i (dv_set_head n (dm_col N M i) (dv_cwise_mul N (dv_head n (dm_col N M i)) (dv_head n W))))
            (seq 0 c) M0
  = mkdm c (mtab r c (fun a b => if Nat.ltb a n then nmul N (dm_get N M0 a b) (vget N W a) else dm_get N M0 a b)).
Proof.
  intros H0 Hn.
  pose (P := fun (i : nat) (M : dmat (T:=T)) => dm_shape r c M /\
               forall a b, (a < r)%nat -> (b < c)%nat ->
                 dm_get N M a b = if andb (Nat.ltb b i) (Nat.ltb a n) then nmul N (dm_get N M0 a b) (vget N W a) else dm_get N M0 a b).
  assert (HP : P (0 + c)%nat (fold_left (fun M i => dm_set_col N M i (dv_set_head n (dm_col N M i)
                  (dv_cwise_mul N (dv_head n (dm_col N M i)) (dv_head n W)))) (seq 0 c) M0)).
  { apply (fold_seq_inv _ P).
    - split; [exact H0|]. intros a b _ _. reflexivity.
    - intros i M Hi (Hs & Hg). split; [apply dm_set_col_shape; exact Hs|]. intros a b Ha Hb.
      rewrite (weight_col_get r c) by (try assumption; lia). rewrite !Hg by lia.
      destruct (Nat.eqb_spec b i), (Nat.ltb_spec a n), (Nat.ltb_spec b i), (Nat.ltb_spec b (S i)), (Nat.ltb_spec i i);
        cbn [andb]; subst; try reflexivity; try lia. }
  destruct HP as (Hs & Hg). apply (dm_shape_ext N r c); [exact Hs|]. intros a b Ha Hb. rewrite Hg by assumption.
  destruct (Nat.ltb_spec b (0 + c)); [|lia]. reflexivity.
Qed.

Lemma tie_weight s : ls_wf (abs s) -> ls_est_ok (abs s) = true -> abs (src_weightJAndY_ N s) = ls_weight N (abs s).
Proof.
  intros (HJ & HW & Hn & Hf) Hok. unfold ls_est_ok in Hok. apply andb_true_iff in Hok. destruct Hok as (Hk & _).
  apply Nat.eqb_eq in Hk. cbn [abs ls_J ls_Y ls_W ls_n ls_jcols ls_k] in *.
  unfold src_weightJAndY_, ls_weight, abs. cbv zeta. cbn [dataSize_ estimateSize_ Ac_ Bc_ J_ Y_ W_ JtJ_ inverseJtJ_ JtY_ ls_n ls_k ls_A ls_b ls_jcols ls_J ls_Y ls_W ls_inv].
  rewrite <- Hk.
  rewrite (weight_J_fold (length (dm_rows (J_ s))) (dm_cols (J_ s)) (J_ s) (W_ s) (dataSize_ s)); [|repeat split; assumption|lia].
  rewrite (weight_Y_eq (Y_ s) (W_ s) (dataSize_ s) Hn). cbn [dm_cols dm_rows].
  f_equal.
  (* the model scales whole rows, the code column after column: same table *)
  set (r := length (dm_rows (J_ s))). set (c := dm_cols (J_ s)) in *.
  assert (Hs2 : dm_shape r c (mkdm c (map (fun ir : nat * list T => let (i, r0) := ir in
                   if Nat.ltb i (dataSize_ s) then map (fun x => nmul N x (vget N (W_ s) i)) r0 else r0)
                   (combine (seq 0 r) (dm_rows (J_ s)))))).
  { repeat split; cbn [dm_cols dm_rows].
    - rewrite map_length, combine_length, seq_length. unfold r. lia.
    - apply Forall_forall. intros x Hx. apply in_map_iff in Hx. destruct Hx as ((a, row) & <- & Hin).
      apply in_combine_r in Hin. rewrite Forall_forall in Hf. specialize (Hf row Hin).
      destruct (Nat.ltb a (dataSize_ s)); [rewrite map_length|]; exact Hf. }
  pose proof (dm_shape_ext N r c _ (fun a b => if Nat.ltb a (dataSize_ s) then nmul N (dm_get N (J_ s) a b) (vget N (W_ s) a) else dm_get N (J_ s) a b) Hs2) as E.
  cbn [dm_rows] in E. symmetry. apply (f_equal dm_rows) in E; [exact E|].
  intros a b Ha Hb. unfold dm_get, mget. cbn [dm_rows]. unfold r in Ha.
  rewrite (nth_map_indexed _ (dm_rows (J_ s)) a [] []) by exact Ha.
  destruct (Nat.ltb a (dataSize_ s)); [|reflexivity].
  assert (Hl : length (nth a (dm_rows (J_ s)) []) = c). { rewrite Forall_forall in Hf. apply Hf. apply nth_In. exact Ha. }
  rewrite (nth_indep _ (nzero N) (nmul N (nzero N) (vget N (W_ s) a))) by (rewrite map_length; lia).
  rewrite (map_nth (fun x => nmul N x (vget N (W_ s) a))). reflexivity.
Qed.

Lemma dims_weight s : src_dims s -> src_dims (src_weightJAndY_ N s).
Proof. exact (fun H => H). Qed.

Lemma tie_weighted (D : LsDictOK N) s : ldlt_dims -> src_dims s -> ls_wf (abs s) -> ls_est_ok (abs s) = true ->
  Some (abs (fst (src_weightedEstimate N ldlt_solve s)), snd (src_weightedEstimate N ldlt_solve s))
  = ls_weighted_estimate N inverse_of_src (abs s).
Proof.
  intros Hl Hd Hwf Hok. unfold ls_weighted_estimate. rewrite Hok. rewrite <- (tie_weight s Hwf Hok).
  unfold src_weightedEstimate. cbv zeta. cbn [fst snd].
  apply (tie_chol D (src_weightJAndY_ N s) Hl (dims_weight s Hd)).
  - rewrite (tie_weight s Hwf Hok). apply wf_weight. exact Hwf.
  - rewrite (tie_weight s Hwf Hok). rewrite est_ok_weight by exact Hwf. exact Hok.
Qed.

Lemma dims_weighted (D : LsDictOK N) s : ldlt_dims -> src_dims s -> ls_wf (abs s) -> ls_est_ok (abs s) = true ->
  src_dims (fst (src_weightedEstimate N ldlt_solve s)).
Proof.
  intros Hl Hd Hwf Hok. unfold src_weightedEstimate. cbv zeta. cbn [fst].
  apply (dims_chol D _ Hl (dims_weight s Hd)). rewrite (tie_weight s Hwf Hok). apply wf_weight. exact Hwf.
Qed.

(* ---------------- the whole state machine: every op sequence ---------------- *)
(* one op of the model's op language, executed by the GENERATED transformers (the repaired SVD path) *)
Definition src_step s (o : ls_op (T:=T)) : src_ls (T:=T) * ls_out (T:=T) :=
  match o with
  | OpSetEstimateSize k => (src_setEstimateSize N k s, OutNone)
  | OpSetDataSize n => (fst (src_setDataSize N fill n s), OutFlag (snd (src_setDataSize N fill n s)))
  | OpSetRow i row y w => (src_set_row i row y w s, OutNone)
  | OpSetPrecond A b => (src_setPreconditionner2 (mkdm (estimateSize_ s) A) b s, OutNone)
  | OpSetPrecondA A => (src_setPreconditionner1 N (mkdm (estimateSize_ s) A) s, OutNone)
  | OpEstimateChol => (fst (src_estimateUsingCholeskyDecomposition N ldlt_solve s), OutVec (snd (src_estimateUsingCholeskyDecomposition N ldlt_solve s)))
  | OpEstimateSVD => (fst (src_estimateUsingSVD N jacobi_svd s), OutVec (snd (src_estimateUsingSVD N jacobi_svd s)))
  | OpWeightedEstimate => (fst (src_weightedEstimate N ldlt_solve s), OutVec (snd (src_weightedEstimate N ldlt_solve s)))
  | OpCovariance var => (fst (src_computeEstimateCovariance N var s), OutMat (dm_rows (snd (src_computeEstimateCovariance N var s))))
  end.

Fixpoint src_run (ops : list (ls_op (T:=T))) s : src_ls (T:=T) * list (ls_out (T:=T)) :=
  match ops with
  | [] => (s, [])
  | o :: r => let s' := fst (src_step s o) in (fst (src_run r s'), snd (src_step s o) :: snd (src_run r s'))
  end.

(* the caller passes a preconditioner matrix with estimateSize_ rows (Eigen asserts the shapes; anything else is undefined) *)
Definition op_dims s (o : ls_op (T:=T)) : Prop :=
  match o with OpSetPrecond A _ | OpSetPrecondA A => length A = estimateSize_ s | _ => True end.
Fixpoint run_dims (ops : list (ls_op (T:=T))) s : Prop :=
  match ops with [] => True | o :: r => op_dims s o /\ run_dims r (fst (src_step s o)) end.

Lemma sim_step (D : LsDictOK N) s o t out : ldlt_dims -> svd_dims -> src_dims s -> ls_wf (abs s) -> op_dims s o ->
  ls_step N inverse_of_src svd_of_src fill true (abs s) o = Some (t, out) ->
  abs (fst (src_step s o)) = t /\ snd (src_step s o) = out /\ src_dims (fst (src_step s o)).
Proof.
  intros Hl Hsv Hd Hwf Ho Hs. destruct o; cbn [ls_step src_step fst snd op_dims] in *.
  - inversion Hs; subst. split; [reflexivity|split; [reflexivity|]]. apply dims_setEstimateSize.
  - pose proof (tie_setDataSize D n s) as E. destruct (ls_set_data_size N fill n (abs s)) as [s' f]. inversion Hs; subst.
    inversion E; subst. split; [reflexivity|split; [reflexivity|]]. apply dims_setDataSize. exact Hd.
  - destruct (ls_set_row i row y w (abs s)) as [s'|] eqn:E; [|discriminate]. inversion Hs; subst.
    assert (Hok : ls_row_ok i row (abs s) = true). { unfold ls_set_row in E. destruct (ls_row_ok i row (abs s)); [reflexivity|discriminate]. }
    pose proof (tie_set_row i row y w s Hwf Hok) as E2. rewrite E in E2. inversion E2; subst. split; [reflexivity|split; [reflexivity|]]. exact Hd.
  - inversion Hs; subst. split; [reflexivity|split; [reflexivity|]]. apply dims_setPreconditionner2; [exact Hd|exact Ho|reflexivity].
  - inversion Hs; subst. split; [reflexivity|split; [reflexivity|]]. apply dims_setPreconditionner1; [exact Hd|exact Ho|reflexivity].
  - destruct (ls_estimate_chol N inverse_of_src (abs s)) as [[s' x]|] eqn:E; [|discriminate]. inversion Hs; subst.
    assert (Hok : ls_est_ok (abs s) = true). { unfold ls_estimate_chol in E. destruct (ls_est_ok (abs s)); [reflexivity|discriminate]. }
    pose proof (tie_chol D s Hl Hd Hwf Hok) as E2. rewrite E in E2. inversion E2; subst. split; [reflexivity|split; [reflexivity|]]. apply (dims_chol D); assumption.
  - destruct (ls_estimate_svd N svd_of_src (abs s)) as [[s' x]|] eqn:E; [|discriminate]. inversion Hs; subst.
    assert (Hok : ls_est_ok (abs s) = true). { unfold ls_estimate_svd in E. destruct (ls_est_ok (abs s)); [reflexivity|discriminate]. }
    pose proof (tie_svd D s Hsv Hd Hwf Hok) as E2. rewrite E in E2. inversion E2; subst. split; [reflexivity|split; [reflexivity|]]. apply (dims_svd D); assumption.
  - destruct (ls_weighted_estimate N inverse_of_src (abs s)) as [[s' x]|] eqn:E; [|discriminate]. inversion Hs; subst.
    assert (Hok : ls_est_ok (abs s) = true). { unfold ls_weighted_estimate in E. destruct (ls_est_ok (abs s)); [reflexivity|discriminate]. }
    pose proof (tie_weighted D s Hl Hd Hwf Hok) as E2. rewrite E in E2. inversion E2; subst. split; [reflexivity|split; [reflexivity|]]. apply (dims_weighted D); assumption.
  - inversion Hs; subst. rewrite (tie_covariance N var s Hd). split; [reflexivity|split; [reflexivity|]]. exact Hd.
Qed.

(* SIMULATION: wherever the model's run is defined, the run of the generated transformers produces the same outputs and a state
   whose reading is the model's state *)
Theorem sim_run (D : LsDictOK N) : ldlt_dims -> svd_dims -> forall ops s t outs, src_dims s -> ls_wf (abs s) -> run_dims ops s ->
  ls_run N inverse_of_src svd_of_src fill true ops (abs s) = Some (t, outs) ->
  abs (fst (src_run ops s)) = t /\ snd (src_run ops s) = outs /\ src_dims (fst (src_run ops s)).
Proof.
  intros Hl Hsv. induction ops as [|o r IH]; intros s t outs Hd Hwf Hrd Hr.
  - cbn in *. inversion Hr; subst. split; [reflexivity|split; [reflexivity|exact Hd]].
  - cbn [ls_run] in Hr. destruct (ls_step N inverse_of_src svd_of_src fill true (abs s) o) as [[s1 o1]|] eqn:E; [|discriminate].
    destruct (ls_run N inverse_of_src svd_of_src fill true r s1) as [[s2 o2]|] eqn:E2; [|discriminate]. inversion Hr; subst.
    destruct Hrd as (Ho & Hrd).
    destruct (sim_step D s o s1 o1 Hl Hsv Hd Hwf Ho E) as (A1 & A2 & A3).
    assert (Hwf1 : ls_wf s1) by (eapply step_wf; eauto).
    rewrite <- A1 in E2, Hwf1. destruct (IH _ _ _ A3 Hwf1 Hrd E2) as (B1 & B2 & B3).
    cbn [src_run fst snd]. rewrite A2, B2. split; [exact B1|split; [reflexivity|exact B3]].
Qed.

(* ---------------- history independence, on the generated transformers ---------------- *)
Lemma run_dims_app ops1 : forall ops2 s, run_dims ops1 s -> run_dims ops2 (fst (src_run ops1 s)) -> run_dims (ops1 ++ ops2) s.
Proof.
  induction ops1 as [|o r IH]; intros ops2 s H1 H2; [exact H2|].
  destruct H1 as (Ho & Hr). split; [exact Ho|]. apply IH; [exact Hr|exact H2].
Qed.

Lemma src_run_app ops1 : forall ops2 s, fst (src_run (ops1 ++ ops2) s) = fst (src_run ops2 (fst (src_run ops1 s))).
Proof. induction ops1 as [|o r IH]; intros ops2 s; [reflexivity|]. cbn [app src_run fst]. apply IH. Qed.

Definition is_load_op (o : ls_op (T:=T)) : bool := match o with OpSetDataSize _ | OpSetRow _ _ _ _ => true | _ => false end.

Lemma load_run_dims ops : forall s, forallb is_load_op ops = true ->
  run_dims ops s /\ estimateSize_ (fst (src_run ops s)) = estimateSize_ s.
Proof.
  induction ops as [|o r IH]; intros s H; [split; [exact I|reflexivity]|].
  cbn in H. apply andb_true_iff in H. destruct H as (Ho & Hr).
  destruct (IH (fst (src_step s o)) Hr) as (I1 & I2). cbn [run_dims src_run fst]. rewrite I2.
  destruct o; try discriminate; cbn [op_dims src_step fst].
  - split; [split; [exact I|exact I1]|]. unfold src_setDataSize. cbv zeta. destruct (Nat.ltb (length (Y_ s)) n); reflexivity.
  - split; [split; [exact I|exact I1]|]. reflexivity.
Qed.

Lemma load_ops_are_loads n rows ys ws : forallb is_load_op (load_ops N n rows ys ws) = true.
Proof. unfold load_ops, row_ops. cbn [forallb is_load_op andb]. apply forallb_forall. intros o Ho. apply in_map_iff in Ho. destruct Ho as (i & <- & _). reflexivity. Qed.

Lemma problem_run_dims n rows ys ws A (b : list T) s : length A = estimateSize_ s ->
  run_dims (load_ops N n rows ys ws ++ [OpSetPrecond A b]) s.
Proof.
  intros HA. destruct (load_run_dims (load_ops N n rows ys ws) s (load_ops_are_loads n rows ys ws)) as (H1 & H2).
  apply run_dims_app; [exact H1|]. cbn [run_dims op_dims]. rewrite H2. split; [exact HA|exact I].
Qed.

(* an estimate op on a state where the model defines it: the generated transformer returns the model's vector *)
Lemma est_out_src (D : LsDictOK N) s est : ldlt_dims -> svd_dims -> src_dims s -> ls_wf (abs s) -> ls_est_ok (abs s) = true ->
  (est = OpEstimateChol \/ est = OpEstimateSVD \/ est = OpWeightedEstimate) ->
  exists x, snd (src_step s est) = OutVec x /\ est_out N inverse_of_src svd_of_src true est (abs s) = Some x.
Proof.
  intros Hl Hsv Hd Hwf Hok [->|[->| ->]]; cbn [src_step snd est_out]; eexists; (split; [reflexivity|]).
  - rewrite <- (tie_chol D s Hl Hd Hwf Hok). reflexivity.
  - rewrite <- (tie_svd D s Hsv Hd Hwf Hok). reflexivity.
  - rewrite <- (tie_weighted D s Hl Hd Hwf Hok). reflexivity.
Qed.

Lemma problem_defined k n rows ys ws A (b : list T) u t o : ready k u -> (1 <= n)%nat ->
  (forall i, (i < n)%nat -> length (nth i rows []) = k) ->
  ls_run N inverse_of_src svd_of_src fill true (load_ops N n rows ys ws ++ [OpSetPrecond A b]) u = Some (t, o) ->
  ls_wf t /\ ls_est_ok t = true.
Proof.
  intros R Hn Hrows Hrun.
  destruct (run_load N inverse_of_src svd_of_src fill true k n rows ys ws u R Hn Hrows) as (u1 & p1 & Hrun1 & W1 & _ & _ & _ & _ & Ok1 & _).
  rewrite run_app, Hrun1 in Hrun. cbn [ls_run ls_step] in Hrun. inversion Hrun; subst. split; [exact W1|exact Ok1].
Qed.

(* THE HEADLINE ON THE CODE AS WRITTEN: run ANY history [hist] (estimate size kept, defined in the model, preconditioner arguments
   with estimateSize_ rows) with the generated transformers on one object, then load a problem and call any of the three estimate
   functions: the returned vector is the one a freshly constructed object returns *)
Theorem src_history_independent (D : LsDictOK N) : ldlt_dims -> svd_dims ->
  forall k hist (ms : ls_state (T:=T)) outs n rows ys ws A (b : list T) est,
  forallb keeps_estimate_size hist = true ->
  ls_run N inverse_of_src svd_of_src fill true hist (ls_new1 N k) = Some (ms, outs) ->
  run_dims hist (src_new1 N k) -> length A = k ->
  (1 <= n)%nat -> (forall i, (i < n)%nat -> length (nth i rows []) = k) ->
  (est = OpEstimateChol \/ est = OpEstimateSVD \/ est = OpWeightedEstimate) ->
  let prob := load_ops N n rows ys ws ++ [OpSetPrecond A b] in
  exists x,
    snd (src_step (fst (src_run prob (fst (src_run hist (src_new1 N k))))) est) = OutVec x /\
    snd (src_step (fst (src_run prob (src_new1 N k))) est) = OutVec x.
Proof.
  intros Hl Hsv k hist ms outs n rows ys ws A b est Hkeep Hrun Hrd HA Hn Hrows Hest prob.
  destruct (sim_run D Hl Hsv hist (src_new1 N k) ms outs (dims_new1 k) (wf_new1 N k) Hrd Hrun) as (A1 & _ & A3).
  set (sh := fst (src_run hist (src_new1 N k))) in *.
  assert (Rs : ready k ms) by (eapply run_ready; [apply ready_new1|exact Hkeep|exact Hrun]).
  assert (Wh : ls_wf (abs sh)) by (rewrite A1; exact (proj1 Rs)).
  assert (Kh : estimateSize_ sh = k). { change (ls_k (abs sh) = k). rewrite A1. exact (proj1 (proj2 Rs)). }
  destruct (history_independent N inverse_of_src svd_of_src fill true k hist ms outs n rows ys ws A b est Hkeep Hrun Hn Hrows)
    as (t1 & o1 & t2 & o2 & R1 & R2 & E).
  rewrite <- A1 in R1.
  destruct (sim_run D Hl Hsv prob sh t1 o1 A3 Wh (problem_run_dims n rows ys ws A b sh ltac:(congruence)) R1) as (B1 & _ & B3).
  change (ls_new1 N k) with (abs (src_new1 N k)) in R2.
  destruct (sim_run D Hl Hsv prob (src_new1 N k) t2 o2 (dims_new1 k) (wf_new1 N k)
              (problem_run_dims n rows ys ws A b (src_new1 N k) HA) R2) as (C1 & _ & C3).
  rewrite A1 in R1.
  destruct (problem_defined k n rows ys ws A b ms t1 o1 Rs Hn Hrows R1) as (W1 & Ok1).
  destruct (problem_defined k n rows ys ws A b _ t2 o2 (ready_new1 N k) Hn Hrows R2) as (W2 & Ok2).
  rewrite <- B1 in W1, Ok1, E. rewrite <- C1 in W2, Ok2, E.
  destruct (est_out_src D _ est Hl Hsv B3 W1 Ok1 Hest) as (x1 & X1 & Y1).
  destruct (est_out_src D _ est Hl Hsv C3 W2 Ok2 Hest) as (x2 & X2 & Y2).
  rewrite Y1, Y2 in E. inversion E; subst. exists x2. split; assumption.
Qed.

End Tie.
