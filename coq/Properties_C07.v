(* Properties_C07.v — C07: the linear least-squares solver returns the minimiser of the current problem only.
   Only statements, each closed by [exact <lemma>] and followed by Print Assumptions.
   Model: LsModel.v (state machine of LeastSquares<T>); Eigen's LDLT solve and JacobiSVD are the function arguments
   [inverse_of] / [svd_of]; their contracts ([inv_contract], [svd_contract], LsProofs.v) are explicit premises.
   Notation: Jf s / Yf s / Af s / bf s are the J_, Y_, Ac_, Bc_ of state s viewed as functions; for a vector z
   [cost n k J Y z] = sum_{r<n} ((J z)_r - Y_r)^2 and [grad n k J Y z i] = (J^T (J z - Y))_i over the first n rows. *)
From Coq Require Import Reals List Arith Lia Lra Bool.
From Romea Require Import Num NumR LinAlgBModel LinAlgBProofs LsModel LsProofs LsHistoryProofs.
Import ListNotations.
Local Open Scope R_scope.

(* Cholesky path: x = Ac z + Bc where z satisfies the normal equations J^T(J z - Y) = 0 of the first dataSize rows,
   Pythagoras |Jy-Y|^2 = |Jz-Y|^2 + |J(y-z)|^2 for every y, hence z is a global minimiser and the only one. *)
Theorem C07_ls_cholesky_normal_equations_minimiser_unique :
  forall (inverse_of : nat -> list (list R) -> list (list R)) (s st : ls_state (T:=R)) (x : list R),
  inv_contract (ls_k s) (ls_JtJ ROps s) (inverse_of (ls_k s) (ls_JtJ ROps s)) ->
  ls_estimate_chol ROps inverse_of s = Some (st, x) ->
  let n := ls_n s in let k := ls_k s in
  let z := ls_z s (inverse_of k (ls_JtJ ROps s)) in
  (forall i, (i < k)%nat -> vget ROps x i = Rsum k (fun l => Af s i l * z l) + bf s i) /\
  (forall i, (i < k)%nat -> grad n k (Jf s) (Yf s) z i = 0) /\
  (forall y, cost n k (Jf s) (Yf s) y =
             cost n k (Jf s) (Yf s) z + Rsum n (fun r => Jx k (Jf s) (fun c => y c - z c) r * Jx k (Jf s) (fun c => y c - z c) r)) /\
  (forall y, cost n k (Jf s) (Yf s) z <= cost n k (Jf s) (Yf s) y) /\
  (forall y, cost n k (Jf s) (Yf s) y = cost n k (Jf s) (Yf s) z -> forall i, (i < k)%nat -> y i = z i).
Proof. exact ls_chol_correct. Qed.
Print Assumptions C07_ls_cholesky_normal_equations_minimiser_unique.

(* SVD path of the repaired code (threshold epsilon * sigma_0): same conclusions under the SVD contract whenever every
   singular value is above the threshold, i.e. cond(J^T J) < 1/epsilon — which the property's envelope guarantees in double. *)
Theorem C07_ls_svd_normal_equations_minimiser_unique :
  forall (svd_of : nat -> list (list R) -> (list (list R) * list R) * list (list R)) (s st : ls_state (T:=R)) (x : list R),
  svd_contract (ls_k s) (ls_JtJ ROps s) (svd_of (ls_k s) (ls_JtJ ROps s)) -> svd_all_above svd_of s ->
  ls_estimate_svd ROps svd_of s = Some (st, x) ->
  let n := ls_n s in let k := ls_k s in
  let z := ls_z s (svd_pinv ROps k (svd_thr svd_of s) (svd_of k (ls_JtJ ROps s))) in
  (forall i, (i < k)%nat -> vget ROps x i = Rsum k (fun l => Af s i l * z l) + bf s i) /\
  (forall i, (i < k)%nat -> grad n k (Jf s) (Yf s) z i = 0) /\
  (forall y, cost n k (Jf s) (Yf s) z <= cost n k (Jf s) (Yf s) y) /\
  (forall y, cost n k (Jf s) (Yf s) y = cost n k (Jf s) (Yf s) z -> forall i, (i < k)%nat -> y i = z i).
Proof. exact ls_svd_correct. Qed.
Print Assumptions C07_ls_svd_normal_equations_minimiser_unique.

(* the Cholesky and SVD paths agree *)
Theorem C07_ls_chol_eq_svd :
  forall inverse_of svd_of (s st1 : ls_state (T:=R)) (x1 : list R) (st2 : ls_state (T:=R)) (x2 : list R),
  inv_contract (ls_k s) (ls_JtJ ROps s) (inverse_of (ls_k s) (ls_JtJ ROps s)) ->
  svd_contract (ls_k s) (ls_JtJ ROps s) (svd_of (ls_k s) (ls_JtJ ROps s)) -> svd_all_above svd_of s ->
  ls_estimate_chol ROps inverse_of s = Some (st1, x1) ->
  ls_estimate_svd ROps svd_of s = Some (st2, x2) ->
  forall i, (i < ls_k s)%nat -> vget ROps x1 i = vget ROps x2 i.
Proof. exact ls_chol_eq_svd. Qed.
Print Assumptions C07_ls_chol_eq_svd.

(* the shape invariant holds after EVERY op sequence (any numeric type) *)
Theorem C07_ls_invariant_every_history :
  forall (T : Type) (N : NumOps T) inverse_of svd_of (fill : T) (svd_fixed : bool) ops s s' outs,
  ls_wf s -> ls_run N inverse_of svd_of fill svd_fixed ops s = Some (s', outs) -> ls_wf s'.
Proof. exact (fun T N inv svd fill fx => run_wf N inv svd fill fx). Qed.
Print Assumptions C07_ls_invariant_every_history.

(* history independence: after ANY op sequence [hist] on one solver object (estimate size unchanged), loading a problem
   (setDataSize n, rows 0..n-1 of J/Y/W, preconditioner A b) and estimating by any of the three paths gives exactly what a
   fresh solver gives.  Holds for every numeric dictionary, so also bit for bit for the float instances of the model. *)
Theorem C07_ls_history_independent :
  forall (T : Type) (N : NumOps T) inverse_of svd_of (fill : T) (svd_fixed : bool)
         k hist s outs n rows ys ws A b est,
  forallb keeps_estimate_size hist = true ->
  ls_run N inverse_of svd_of fill svd_fixed hist (ls_new1 N k) = Some (s, outs) ->
  (1 <= n)%nat -> (forall i, (i < n)%nat -> length (nth i rows []) = k) ->
  exists t1 o1 t2 o2,
    ls_run N inverse_of svd_of fill svd_fixed (load_ops N n rows ys ws ++ [OpSetPrecond A b]) s = Some (t1, o1) /\
    ls_run N inverse_of svd_of fill svd_fixed (load_ops N n rows ys ws ++ [OpSetPrecond A b]) (ls_new1 N k) = Some (t2, o2) /\
    est_out N inverse_of svd_of svd_fixed est t1 = est_out N inverse_of svd_of svd_fixed est t2.
Proof. exact (fun T N inv svd fill fx => history_independent N inv svd fill fx). Qed.
Print Assumptions C07_ls_history_independent.

(* the estimates are functions of the problem only (sizes, A, b, first dataSize rows of J/Y/W): leftovers of larger problems
   beyond dataSize cannot matter *)
Theorem C07_ls_estimate_reads_only_current_rows :
  forall (T : Type) (N : NumOps T) inverse_of svd_of (s1 s2 : ls_state (T:=T)),
  ls_wf s1 -> ls_wf s2 -> same_problem N s1 s2 -> ls_est_ok s1 = ls_est_ok s2 ->
  out_of (ls_estimate_chol N inverse_of s1) = out_of (ls_estimate_chol N inverse_of s2) /\
  out_of (ls_estimate_svd N svd_of s1) = out_of (ls_estimate_svd N svd_of s2) /\
  out_of (ls_weighted_estimate N inverse_of s1) = out_of (ls_weighted_estimate N inverse_of s2).
Proof.
  exact (fun T N inv svd s1 s2 W1 W2 SP OK =>
           conj (same_chol N inv s1 s2 SP OK)
                (conj (proj1 (same_svd N svd s1 s2 SP OK)) (same_weighted N inv s1 s2 W1 W2 SP OK))).
Qed.
Print Assumptions C07_ls_estimate_reads_only_current_rows.

(* weighted variant: weightedEstimate = Cholesky estimate of the row-scaled problem (w_r J_r, w_r Y_r), hence by the first
   theorem the minimiser of sum (w_r r_r)^2.  What is proved here is the reduction; the row-scaling identity
   J'_r = w_r J_r is checked by the correspondence run only. *)
Theorem C07_ls_weighted_minimiser_partial :
  forall (inverse_of : nat -> list (list R) -> list (list R)) (s : ls_state (T:=R)),
  ls_est_ok s = true ->
  ls_weighted_estimate ROps inverse_of s = ls_estimate_chol ROps inverse_of (ls_weight ROps s).
Proof. intros inverse_of s H. unfold ls_weighted_estimate. now rewrite H. Qed.
Print Assumptions C07_ls_weighted_minimiser_partial.

(* the ORIGINAL SVD path (absolute test sigma > epsilon) is refuted: J = [eps], Y = [eps] is full rank with condition number
   1 and exact solution x = 1, the SVD below meets the contract, yet the returned x = eps^4 violates the normal equations.
   (The repaired tree uses the relative threshold; this theorem documents the defect that was fixed.) *)
Theorem C07_ls_svd_tiny_scale_refuted :
  ls_est_ok wit_state = true /\
  svd_contract 1 (ls_JtJ ROps wit_state) (wit_svd 1 (ls_JtJ ROps wit_state)) /\
  exists st x, ls_estimate_svd_abs ROps wit_svd wit_state = Some (st, x) /\
               vget ROps x 0 = (wit_a * wit_a) * (wit_a * wit_a) /\
               grad 1 1 (Jf wit_state) (Yf wit_state) (vget ROps x) 0 <> 0.
Proof. exact (conj eq_refl (conj wit_svd_contract wit_refuted)). Qed.
Print Assumptions C07_ls_svd_tiny_scale_refuted.

(* ---- non-vacuity ---- *)
(* the contracts are satisfiable: the 1x1 problem J = [1], Y = [2] with the obvious inverse *)
Example C07_contract_satisfiable :
  let s := mk_ls 1 1 [[1]] [0] 1 [[1]] [2] [1] [[0]] in
  inv_contract 1 (ls_JtJ ROps s) [[1]] /\ ls_est_ok s = true.
Proof.
  cbn. split; [|reflexivity]. intros i j Hi Hj. assert (i = 0%nat) by lia. assert (j = 0%nat) by lia. subst.
  cbn. unfold delta. cbn. lra.
Qed.
(* a history exists: grow to 3 rows, then load a 1-row problem *)
Example C07_history_exists :
  exists s outs, ls_run ROps (fun _ m => m) (fun _ m => (m, [], m)) 0 true [OpSetDataSize 3] (ls_new1 ROps 1) = Some (s, outs).
Proof. eexists. eexists. reflexivity. Qed.
