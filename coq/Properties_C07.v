(* Properties_C07.v — C07: the linear least-squares solver returns the minimiser of the current problem only.
   Only statements, each closed by [exact <lemma>] and followed by Print Assumptions.
   Model: LsModel.v (state machine of LeastSquares<T>); Eigen's LDLT solve and JacobiSVD are the function arguments
   [inverse_of] / [svd_of]; their contracts ([inv_contract], [svd_contract], LsProofs.v) are explicit premises.
   Notation: Jf s / Yf s / Wf s / Af s / bf s are the J_, Y_, W_, Ac_, Bc_ of state s viewed as functions; for a vector z
   [cost n k J Y z] = sum_{r<n} ((J z)_r - Y_r)^2 and [grad n k J Y z i] = (J^T (J z - Y))_i over the first n rows. *)
From Coq Require Import Reals List Arith Lia Lra Bool.
From Romea Require Import Num NumR LinAlgBModel LinAlgBProofs LsModel LsProofs LsHistoryProofs LsWeighted LsEndToEnd SrcEigenDyn SrcEigenDynFacts SrcTieLs SrcTieC07.
From Romea.gen Require Import SrcLs.
Import ListNotations.
Local Open Scope R_scope.

(* Cholesky path: x = Ac z + Bc where z satisfies the normal equations J^T(J z - Y) = 0 of the first dataSize rows,
   Pythagoras |Jy-Y|^2 = |Jz-Y|^2 + |J(y-z)|^2 for every y, hence z is a global minimiser and the only one. *)
Theorem C07_ls_cholesky_normal_equations_minimiser_unique :
  forall (inverse_of : nat -> list (list R) -> list (list R)) (s st : ls_state (T:=R)) (x : list R),
  inv_contract (ls_k s) (ls_JtJ ROps s) (inverse_of (ls_k s) (ls_JtJ ROps s)) ->
  ls_estimate_chol ROps inverse_of s = Some (st, x) ->
  let n := ls_n s in let k := ls_k s in
  let z := ls_z s (inverse_of k (ls_JtJ ROps s)) in
  (forall i, (i < k)%nat -> vget ROps x i = Rsum k (fun l => Af s i l * z l) + bf s i) /\
  (forall i, (i < k)%nat -> grad n k (Jf s) (Yf s) z i = 0) /\
  (forall y, cost n k (Jf s) (Yf s) y =
             cost n k (Jf s) (Yf s) z + Rsum n (fun r => Jx k (Jf s) (fun c => y c - z c) r * Jx k (Jf s) (fun c => y c - z c) r)) /\
  (forall y, cost n k (Jf s) (Yf s) z <= cost n k (Jf s) (Yf s) y) /\
  (forall y, cost n k (Jf s) (Yf s) y = cost n k (Jf s) (Yf s) z -> forall i, (i < k)%nat -> y i = z i).
Proof. exact ls_chol_correct. Qed.
Print Assumptions C07_ls_cholesky_normal_equations_minimiser_unique.

(* SVD path of the repaired code (threshold epsilon * sigma_0): same conclusions under the SVD contract whenever every
   singular value is above the threshold, i.e. cond(J^T J) < 1/epsilon — which the property's envelope guarantees in double. *)
Theorem C07_ls_svd_normal_equations_minimiser_unique :
  forall (svd_of : nat -> list (list R) -> (list (list R) * list R) * list (list R)) (s st : ls_state (T:=R)) (x : list R),
  svd_contract (ls_k s) (ls_JtJ ROps s) (svd_of (ls_k s) (ls_JtJ ROps s)) -> svd_all_above svd_of s ->
  ls_estimate_svd ROps svd_of s = Some (st, x) ->
  let n := ls_n s in let k := ls_k s in
  let z := ls_z s (svd_pinv ROps k (svd_thr svd_of s) (svd_of k (ls_JtJ ROps s))) in
  (forall i, (i < k)%nat -> vget ROps x i = Rsum k (fun l => Af s i l * z l) + bf s i) /\
  (forall i, (i < k)%nat -> grad n k (Jf s) (Yf s) z i = 0) /\
  (forall y, cost n k (Jf s) (Yf s) z <= cost n k (Jf s) (Yf s) y) /\
  (forall y, cost n k (Jf s) (Yf s) y = cost n k (Jf s) (Yf s) z -> forall i, (i < k)%nat -> y i = z i).
Proof. exact ls_svd_correct. Qed.
Print Assumptions C07_ls_svd_normal_equations_minimiser_unique.

(* the premise [svd_all_above] of the two SVD theorems is one inequality on the extreme singular values: epsilon * sigma_max < sigma_min,
   i.e. cond(J^T J) = cond(J)^2 < 1/epsilon (the singular values are non-increasing by the contract) *)
Theorem C07_ls_svd_all_above_from_condition_number :
  forall svd_of (s : ls_state (T:=R)),
  svd_contract (ls_k s) (ls_JtJ ROps s) (svd_of (ls_k s) (ls_JtJ ROps s)) ->
  (let sg := snd (fst (svd_of (ls_k s) (ls_JtJ ROps s))) in
   nepsilon ROps * vget ROps sg 0 < vget ROps sg (ls_k s - 1)) ->
  svd_all_above svd_of s.
Proof. exact svd_all_above_of_cond. Qed.
Print Assumptions C07_ls_svd_all_above_from_condition_number.

(* the Cholesky and SVD paths agree *)
Theorem C07_ls_chol_eq_svd :
  forall inverse_of svd_of (s st1 : ls_state (T:=R)) (x1 : list R) (st2 : ls_state (T:=R)) (x2 : list R),
  inv_contract (ls_k s) (ls_JtJ ROps s) (inverse_of (ls_k s) (ls_JtJ ROps s)) ->
  svd_contract (ls_k s) (ls_JtJ ROps s) (svd_of (ls_k s) (ls_JtJ ROps s)) -> svd_all_above svd_of s ->
  ls_estimate_chol ROps inverse_of s = Some (st1, x1) ->
  ls_estimate_svd ROps svd_of s = Some (st2, x2) ->
  forall i, (i < ls_k s)%nat -> vget ROps x1 i = vget ROps x2 i.
Proof. exact ls_chol_eq_svd. Qed.
Print Assumptions C07_ls_chol_eq_svd.

(* the shape invariant holds after EVERY op sequence (any numeric type) *)
Theorem C07_ls_invariant_every_history :
  forall (T : Type) (N : NumOps T) inverse_of svd_of (fill : T) (svd_fixed : bool) ops s s' outs,
  ls_wf s -> ls_run N inverse_of svd_of fill svd_fixed ops s = Some (s', outs) -> ls_wf s'.
Proof. exact (fun T N inv svd fill fx => run_wf N inv svd fill fx). Qed.
Print Assumptions C07_ls_invariant_every_history.

(* history independence: after ANY op sequence [hist] on one solver object (estimate size unchanged), loading a problem
   (setDataSize n, rows 0..n-1 of J/Y/W, preconditioner A b) and estimating by any of the three paths gives exactly what a
   fresh solver gives.  Holds for every numeric dictionary, so also bit for bit for the float instances of the model. *)
Theorem C07_ls_history_independent :
  forall (T : Type) (N : NumOps T) inverse_of svd_of (fill : T) (svd_fixed : bool)
         k hist s outs n rows ys ws A b est,
  forallb keeps_estimate_size hist = true ->
  ls_run N inverse_of svd_of fill svd_fixed hist (ls_new1 N k) = Some (s, outs) ->
  (1 <= n)%nat -> (forall i, (i < n)%nat -> length (nth i rows []) = k) ->
  exists t1 o1 t2 o2,
    ls_run N inverse_of svd_of fill svd_fixed (load_ops N n rows ys ws ++ [OpSetPrecond A b]) s = Some (t1, o1) /\
    ls_run N inverse_of svd_of fill svd_fixed (load_ops N n rows ys ws ++ [OpSetPrecond A b]) (ls_new1 N k) = Some (t2, o2) /\
    est_out N inverse_of svd_of svd_fixed est t1 = est_out N inverse_of svd_of svd_fixed est t2.
Proof. exact (fun T N inv svd fill fx => history_independent N inv svd fill fx). Qed.
Print Assumptions C07_ls_history_independent.

(* the estimates are functions of the problem only (sizes, A, b, first dataSize rows of J/Y/W): leftovers of larger problems
   beyond dataSize cannot matter *)
Theorem C07_ls_estimate_reads_only_current_rows :
  forall (T : Type) (N : NumOps T) inverse_of svd_of (s1 s2 : ls_state (T:=T)),
  ls_wf s1 -> ls_wf s2 -> same_problem N s1 s2 -> ls_est_ok s1 = ls_est_ok s2 ->
  out_of (ls_estimate_chol N inverse_of s1) = out_of (ls_estimate_chol N inverse_of s2) /\
  out_of (ls_estimate_svd N svd_of s1) = out_of (ls_estimate_svd N svd_of s2) /\
  out_of (ls_weighted_estimate N inverse_of s1) = out_of (ls_weighted_estimate N inverse_of s2).
Proof.
  exact (fun T N inv svd s1 s2 W1 W2 SP OK =>
           conj (same_chol N inv s1 s2 SP OK)
                (conj (proj1 (same_svd N svd s1 s2 SP OK)) (same_weighted N inv s1 s2 W1 W2 SP OK))).
Qed.
Print Assumptions C07_ls_estimate_reads_only_current_rows.

(* ---- weighted variant (LsWeighted.v).  C++: weightJAndY_() multiplies Y_(r) and row r of J_ by W_(r), r < dataSize_, IN PLACE,
   then estimateUsingCholeskyDecomposition().  Notation: Wf s = W_ as a function;
   [wcost n k J Y w x] = sum_{r<n} (w_r ((J x)_r - Y_r))^2,  [wgrad n k J Y w x a] = (J^T W^2 (J x - Y))_a = sum_r w_r^2 J_ra ((J x)_r - Y_r),
   [wnM n J w i j] = (J^T W^2 J)_ij. ---- *)

(* row-scaling identity of the model's weightJAndY_, for EVERY state: current rows r < dataSize of J_ (all columns) and of Y_
   are multiplied by W_(r); the rows beyond dataSize, W_, the sizes and the preconditioner are untouched *)
Theorem C07_ls_weight_row_scaling :
  forall s : ls_state (T:=R),
  (forall r a, (r < ls_n s)%nat -> Jf (ls_weight ROps s) r a = Jf s r a * Wf s r) /\
  (forall r, (r < ls_n s)%nat -> Yf (ls_weight ROps s) r = Yf s r * Wf s r) /\
  (forall r a, (ls_n s <= r)%nat -> Jf (ls_weight ROps s) r a = Jf s r a) /\
  (forall r, (ls_n s <= r)%nat -> Yf (ls_weight ROps s) r = Yf s r) /\
  (forall r, Wf (ls_weight ROps s) r = Wf s r) /\
  ls_n (ls_weight ROps s) = ls_n s /\ ls_k (ls_weight ROps s) = ls_k s /\
  ls_A (ls_weight ROps s) = ls_A s /\ ls_b (ls_weight ROps s) = ls_b s.
Proof. exact ls_weight_row_scaling. Qed.
Print Assumptions C07_ls_weight_row_scaling.

(* weightedEstimate is the Cholesky estimate of that scaled state (the reduction that used to be the _partial theorem) *)
Theorem C07_ls_weighted_is_cholesky_of_scaled_rows :
  forall (inverse_of : nat -> list (list R) -> list (list R)) (s : ls_state (T:=R)),
  ls_est_ok s = true ->
  ls_weighted_estimate ROps inverse_of s = ls_estimate_chol ROps inverse_of (ls_weight ROps s).
Proof. exact weighted_is_chol_of_scaled. Qed.
Print Assumptions C07_ls_weighted_is_cholesky_of_scaled_rows.

(* the matrix handed to the LDLT oracle by weightedEstimate is J^T W^2 J of the rows as the caller wrote them *)
Theorem C07_ls_weighted_normal_matrix :
  forall (s : ls_state (T:=R)) i j, (i < ls_k s)%nat -> (j < ls_k s)%nat ->
  mget ROps (ls_JtJ ROps (ls_weight ROps s)) i j = wnM (ls_n s) (Jf s) (Wf s) i j.
Proof. exact weighted_JtJ_get. Qed.
Print Assumptions C07_ls_weighted_normal_matrix.

(* weighted variant, full statement: under the inverse contract for that matrix, weightedEstimate returns A z + b where z satisfies
   the weighted normal equations J^T W^2 (J z - Y) = 0 and is the global, unique minimiser of sum_r (w_r r_r)^2 — all expressed on
   the J, Y, W the caller wrote (state s BEFORE the call).  Last two conjuncts: the object is left with the scaled rows. *)
Theorem C07_ls_weighted_minimiser :
  forall (inverse_of : nat -> list (list R) -> list (list R)) (s st : ls_state (T:=R)) (x : list R),
  let sw := ls_weight ROps s in
  inv_contract (ls_k s) (ls_JtJ ROps sw) (inverse_of (ls_k s) (ls_JtJ ROps sw)) ->
  ls_weighted_estimate ROps inverse_of s = Some (st, x) ->
  let n := ls_n s in let k := ls_k s in
  let z := ls_z sw (inverse_of k (ls_JtJ ROps sw)) in
  (forall i, (i < k)%nat -> vget ROps x i = Rsum k (fun l => Af s i l * z l) + bf s i) /\
  (forall a, (a < k)%nat -> wgrad n k (Jf s) (Yf s) (Wf s) z a = 0) /\
  (forall y, wcost n k (Jf s) (Yf s) (Wf s) z <= wcost n k (Jf s) (Yf s) (Wf s) y) /\
  (forall y, wcost n k (Jf s) (Yf s) (Wf s) y = wcost n k (Jf s) (Yf s) (Wf s) z -> forall i, (i < k)%nat -> y i = z i) /\
  (forall r a, (r < n)%nat -> Jf st r a = Jf s r a * Wf s r) /\
  (forall r, (r < n)%nat -> Yf st r = Yf s r * Wf s r).
Proof. exact ls_weighted_correct. Qed.
Print Assumptions C07_ls_weighted_minimiser.

(* consequence of the in-place scaling (characterisation of what the code does, not a clause of the property): a second
   weightedEstimate on the same object WITHOUT rewriting the rows minimises sum_r (w_r^2 r_r)^2 of the rows originally written *)
Theorem C07_ls_weighted_twice_squares_the_weights :
  forall (inverse_of : nat -> list (list R) -> list (list R)) (s st : ls_state (T:=R)) (x : list R) (st2 : ls_state (T:=R)) (x2 : list R),
  ls_weighted_estimate ROps inverse_of s = Some (st, x) ->
  inv_contract (ls_k s) (ls_JtJ ROps (ls_weight ROps st)) (inverse_of (ls_k s) (ls_JtJ ROps (ls_weight ROps st))) ->
  ls_weighted_estimate ROps inverse_of st = Some (st2, x2) ->
  let n := ls_n s in let k := ls_k s in
  let w2 := fun r => Wf s r * Wf s r in
  let z := ls_z (ls_weight ROps st) (inverse_of k (ls_JtJ ROps (ls_weight ROps st))) in
  (forall i, (i < k)%nat -> vget ROps x2 i = Rsum k (fun l => Af s i l * z l) + bf s i) /\
  (forall y, wcost n k (Jf s) (Yf s) w2 z <= wcost n k (Jf s) (Yf s) w2 y).
Proof. exact ls_weighted_twice. Qed.
Print Assumptions C07_ls_weighted_twice_squares_the_weights.

(* the estimates do not depend on which right inverse the LDLT oracle returns (Cholesky and weighted paths) *)
Theorem C07_ls_estimate_independent_of_inverse_oracle :
  forall (inverse_of inverse_of' : nat -> list (list R) -> list (list R)) (s st1 : ls_state (T:=R)) (x1 : list R) (st2 : ls_state (T:=R)) (x2 : list R),
  (inv_contract (ls_k s) (ls_JtJ ROps s) (inverse_of (ls_k s) (ls_JtJ ROps s)) ->
   inv_contract (ls_k s) (ls_JtJ ROps s) (inverse_of' (ls_k s) (ls_JtJ ROps s)) ->
   ls_estimate_chol ROps inverse_of s = Some (st1, x1) -> ls_estimate_chol ROps inverse_of' s = Some (st2, x2) ->
   forall i, (i < ls_k s)%nat -> vget ROps x1 i = vget ROps x2 i) /\
  (let sw := ls_weight ROps s in
   inv_contract (ls_k s) (ls_JtJ ROps sw) (inverse_of (ls_k s) (ls_JtJ ROps sw)) ->
   inv_contract (ls_k s) (ls_JtJ ROps sw) (inverse_of' (ls_k s) (ls_JtJ ROps sw)) ->
   ls_weighted_estimate ROps inverse_of s = Some (st1, x1) -> ls_weighted_estimate ROps inverse_of' s = Some (st2, x2) ->
   forall i, (i < ls_k s)%nat -> vget ROps x1 i = vget ROps x2 i).
Proof.
  exact (fun inv inv' s st1 x1 st2 x2 =>
           conj (ls_chol_oracle_independent inv inv' s st1 x1 st2 x2) (ls_weighted_oracle_independent inv inv' s st1 x1 st2 x2)).
Qed.
Print Assumptions C07_ls_estimate_independent_of_inverse_oracle.

(* non-zero weights keep the column rank: W J z = 0 on the current rows iff J z = 0 on the current rows *)
Theorem C07_ls_weighting_preserves_rank :
  forall (s : ls_state (T:=R)) (z : nat -> R),
  (forall r, (r < ls_n s)%nat -> Wf s r <> 0) ->
  ((forall r, (r < ls_n s)%nat -> Jx (ls_k s) (Jf (ls_weight ROps s)) z r = 0) <->
   (forall r, (r < ls_n s)%nat -> Jx (ls_k s) (Jf s) z r = 0)).
Proof.
  exact (fun s z => kernel_scaled (ls_n s) (ls_k s) (Jf s) (Wf s) (Jf (ls_weight ROps s)) (fun r a H => weight_J_in s r a H) z).
Qed.
Print Assumptions C07_ls_weighting_preserves_rank.

(* THE PROPERTY ON THE CALLER'S DATA, through the state machine: after ANY history on one solver object (estimate size k kept),
   loading a problem — setDataSize n, rows 0..n-1 of J / Y / W from the lists rows / ys / ws, setPreconditionner(A, b) — and calling
   any of the three estimate functions returns A z + b where z satisfies the (weighted) normal equations and is the unique global
   minimiser of the cost of THAT problem, written on rows / ys / ws themselves (J = mget rows, Y = vget ys, W = vget ws), not on the
   buffers of the object: leftover rows of larger problems, earlier in-place weightings and earlier estimates do not enter.
   The oracles are called on J^T J resp. J^T W^2 J of the caller's rows (conjuncts 2 and 3), which makes the contracts premises about
   the caller's matrix. *)
Theorem C07_ls_problem_after_any_history_returns_its_minimiser :
  forall inverse_of svd_of (fill : R) (svd_fixed : bool) k hist (s : ls_state (T:=R)) outs n rows ys ws A b,
  forallb keeps_estimate_size hist = true ->
  ls_run ROps inverse_of svd_of fill svd_fixed hist (ls_new1 ROps k) = Some (s, outs) ->
  (1 <= n)%nat -> (forall i, (i < n)%nat -> length (nth i rows []) = k) ->
  let J := mget ROps rows in let Y := vget ROps ys in let W := vget ROps ws in
  exists t o, ls_run ROps inverse_of svd_of fill svd_fixed (load_ops ROps n rows ys ws ++ [OpSetPrecond A b]) s = Some (t, o) /\
    (forall i j, (i < k)%nat -> (j < k)%nat -> mget ROps (ls_JtJ ROps t) i j = nM n J i j) /\
    (forall i j, (i < k)%nat -> (j < k)%nat -> mget ROps (ls_JtJ ROps (ls_weight ROps t)) i j = wnM n J W i j) /\
    (inv_contract k (ls_JtJ ROps t) (inverse_of k (ls_JtJ ROps t)) ->
     exists st x z, ls_estimate_chol ROps inverse_of t = Some (st, x) /\
       (forall i, (i < k)%nat -> vget ROps x i = Rsum k (fun l => mget ROps A i l * z l) + vget ROps b i) /\
       (forall a, (a < k)%nat -> grad n k J Y z a = 0) /\
       (forall y, cost n k J Y z <= cost n k J Y y) /\
       (forall y, cost n k J Y y = cost n k J Y z -> forall i, (i < k)%nat -> y i = z i)) /\
    (svd_contract k (ls_JtJ ROps t) (svd_of k (ls_JtJ ROps t)) -> svd_all_above svd_of t ->
     exists st x z, ls_estimate_svd ROps svd_of t = Some (st, x) /\
       (forall i, (i < k)%nat -> vget ROps x i = Rsum k (fun l => mget ROps A i l * z l) + vget ROps b i) /\
       (forall a, (a < k)%nat -> grad n k J Y z a = 0) /\
       (forall y, cost n k J Y z <= cost n k J Y y) /\
       (forall y, cost n k J Y y = cost n k J Y z -> forall i, (i < k)%nat -> y i = z i)) /\
    (inv_contract k (ls_JtJ ROps (ls_weight ROps t)) (inverse_of k (ls_JtJ ROps (ls_weight ROps t))) ->
     exists st x z, ls_weighted_estimate ROps inverse_of t = Some (st, x) /\
       (forall i, (i < k)%nat -> vget ROps x i = Rsum k (fun l => mget ROps A i l * z l) + vget ROps b i) /\
       (forall a, (a < k)%nat -> wgrad n k J Y W z a = 0) /\
       (forall y, wcost n k J Y W z <= wcost n k J Y W y) /\
       (forall y, wcost n k J Y W y = wcost n k J Y W z -> forall i, (i < k)%nat -> y i = z i)).
Proof. exact ls_problem_after_any_history. Qed.
Print Assumptions C07_ls_problem_after_any_history_returns_its_minimiser.

(* the ORIGINAL SVD path (absolute test sigma > epsilon) is refuted: J = [eps], Y = [eps] is full rank with condition number
   1 and exact solution x = 1, the SVD below meets the contract, yet the returned x = eps^4 violates the normal equations.
   (The repaired tree uses the relative threshold; this theorem documents the defect that was fixed.) *)
Theorem C07_ls_svd_tiny_scale_refuted :
  ls_est_ok wit_state = true /\
  svd_contract 1 (ls_JtJ ROps wit_state) (wit_svd 1 (ls_JtJ ROps wit_state)) /\
  exists st x, ls_estimate_svd_abs ROps wit_svd wit_state = Some (st, x) /\
               vget ROps x 0 = (wit_a * wit_a) * (wit_a * wit_a) /\
               grad 1 1 (Jf wit_state) (Yf wit_state) (vget ROps x) 0 <> 0.
Proof. exact (conj eq_refl (conj wit_svd_contract wit_refuted)). Qed.
Print Assumptions C07_ls_svd_tiny_scale_refuted.

(* ---- non-vacuity ---- *)
(* the contracts are satisfiable: the 1x1 problem J = [1], Y = [2] with the obvious inverse *)
Example C07_contract_satisfiable :
  let s := mk_ls 1 1 [[1]] [0] 1 [[1]] [2] [1] [[0]] in
  inv_contract 1 (ls_JtJ ROps s) [[1]] /\ ls_est_ok s = true.
Proof.
  cbn. split; [|reflexivity]. intros i j Hi Hj. assert (i = 0%nat) by lia. assert (j = 0%nat) by lia. subst.
  cbn. unfold delta. cbn. lra.
Qed.
(* a history exists: grow to 3 rows, then load a 1-row problem *)
Example C07_history_exists :
  exists s outs, ls_run ROps (fun _ m => m) (fun _ m => (m, [], m)) 0 true [OpSetDataSize 3] (ls_new1 ROps 1) = Some (s, outs).
Proof. eexists. eexists. reflexivity. Qed.
(* the weighted theorem is not vacuous: 2 rows, 1 unknown, J = (1,1), Y = (1,2), W = (2,3), the obvious 1x1 inverse.  The contract holds
   and the estimate is 22/13 = (4*1 + 9*2)/(4 + 9): weights enter SQUARED in the normal equations, i.e. the cost is sum (w_r r_r)^2
   (sum w_r r_r^2 would give 8/5, the unweighted problem 3/2).  A second call without rewriting the rows gives 178/97 (weights^4).
   The real class returns 0x1.b13b13b13b13cp+0 and 0x1.d5c5f02a3a0fdp+0 on this input (harness/C07.cpp, ops XW XW). *)
Example C07_weighted_contract_satisfiable :
  inv_contract (ls_k wwit_state) (ls_JtJ ROps (ls_weight ROps wwit_state))
               (wwit_inv (ls_k wwit_state) (ls_JtJ ROps (ls_weight ROps wwit_state))) /\
  (exists st x, ls_weighted_estimate ROps wwit_inv wwit_state = Some (st, x) /\ vget ROps x 0 = 22 / 13) /\
  (exists st x st2 x2, ls_weighted_estimate ROps wwit_inv wwit_state = Some (st, x) /\
                       ls_weighted_estimate ROps wwit_inv st = Some (st2, x2) /\ vget ROps x2 0 = 178 / 97).
Proof. exact (conj wwit_contract (conj wwit_value wwit_twice_value)). Qed.
(* the end-to-end theorem is not vacuous: history "grow to 3 rows", then the 1-row problem J = [1], Y = [2], W = [1] with the obvious
   1x1 inverse oracle: the run exists and both inverse contracts hold on the state it reaches *)
Example C07_end_to_end_premises_satisfiable :
  let inv := fun (_ : nat) (m : list (list R)) => [[/ mget ROps m 0 0]] in
  let svd := fun (_ : nat) (m : list (list R)) => (m, @nil R, m) in
  exists s outs, ls_run ROps inv svd 0 true [OpSetDataSize 3] (ls_new1 ROps 1) = Some (s, outs) /\
  exists t o, ls_run ROps inv svd 0 true (load_ops ROps 1 [[1]] [2] [1] ++ [OpSetPrecond [[1]] [0]]) s = Some (t, o) /\
    inv_contract 1 (ls_JtJ ROps t) (inv 1%nat (ls_JtJ ROps t)) /\
    inv_contract 1 (ls_JtJ ROps (ls_weight ROps t)) (inv 1%nat (ls_JtJ ROps (ls_weight ROps t))).
Proof.
  intros inv svd. eexists. eexists. split; [reflexivity|]. eexists. eexists. split; [reflexivity|].
  split; intros i j Hi Hj; assert (i = 0%nat) by lia; assert (j = 0%nat) by lia; subst; cbn; unfold delta; cbn; field.
Qed.

(* ================================================================================================================
   SYNTACTIC SOURCE TIE (SrcTieC07.v).  gen/SrcLs.v is regenerated on every run by translate/tr_C07_ls.py from the clang AST of
   src/regression/leastsquares/LeastSquares.cpp: the record [src_ls] of the ten data members and one Gallina transformer per member
   function of LeastSquares<RealType> (vocabulary of dynamic-size Eigen operations: SrcEigenDyn.v).  [abs] reads that record as the
   model's state (the model has no JtJ_ / JtY_: the first theorem is why it needs none); [src_dims] = the shapes the class keeps;
   [LsDictOK N] = the dictionary reads the literals 1 / 1.0 as n_one and its product commutes (reals, IEEE floats);
   the Eigen solvers are the oracle arguments ldlt_solve / jacobi_svd of the generated terms, the model's oracles are their readings
   inverse_of_src / svd_of_src; [ldlt_dims] / [svd_dims] = Eigen returns results of the right shape.
   Every statement holds for EVERY numeric dictionary satisfying LsDictOK.
   ================================================================================================================ *)

(* computeJTJ_ / computeJTY_ as written (the two nested counted loops with col(i).head(dataSize_).dot(..)) leave in JtJ_ / JtY_ the
   tables of the dot products over the FIRST dataSize_ ROWS, whatever JtJ_ / JtY_ held before and whatever the rows of J_ / Y_ beyond
   dataSize_ hold (leftovers of a larger problem): the normal equations are those of the current problem only *)
Theorem C07_source_tie_ls_normal_equations_of_current_rows :
  forall (T : Type) (N : NumOps T), LsDictOK N -> forall s : src_ls (T:=T),
  src_dims s -> (dataSize_ s <= dm_nrows (J_ s))%nat ->
  src_computeJTJ_ N s = with_JtJ s (mkdm (estimateSize_ s) (ls_JtJ N (abs s))) /\
  src_computeJTY_ N s = with_JtY s (ls_JtY N (abs s)).
Proof. exact (fun T N D s Hd Hn => conj (tie_computeJTJ N D s Hd Hn) (tie_computeJTY N s Hd Hn)). Qed.
Print Assumptions C07_source_tie_ls_normal_equations_of_current_rows.

(* constructors, setEstimateSize, setDataSize (GROW-ONLY buffers: reallocation exactly when Y_.rows() < dataSize, then W_ = ones),
   both setPreconditionner overloads (the one-argument overload resets Bc_ to zero), and the row store through getJ() / getY() / getW() *)
Theorem C07_source_tie_ls_constructors_and_setters :
  forall (T : Type) (N : NumOps T) (fill : T), LsDictOK N ->
  abs (src_new0 (T:=T)) = ls_new0 /\
  (forall k, abs (src_new1 N k) = ls_new1 N k /\ src_dims (src_new1 N k)) /\
  (forall k n, abs (src_new2 N k n) = ls_new2 N k n /\ src_dims (src_new2 N k n)) /\
  (forall k (s : src_ls (T:=T)), abs (src_setEstimateSize N k s) = ls_set_estimate_size N k (abs s)) /\
  (forall n (s : src_ls (T:=T)), (abs (fst (src_setDataSize N fill n s)), snd (src_setDataSize N fill n s)) = ls_set_data_size N fill n (abs s)) /\
  (forall A b (s : src_ls (T:=T)), abs (src_setPreconditionner2 A b s) = ls_set_precond (dm_rows A) b (abs s)) /\
  (forall A (s : src_ls (T:=T)), abs (src_setPreconditionner1 N A s) = ls_set_precond_A N (dm_rows A) (abs s)) /\
  (forall i row y w (s : src_ls (T:=T)), ls_wf (abs s) -> ls_row_ok i row (abs s) = true ->
     Some (abs (src_set_row N i row y w s)) = ls_set_row i row y w (abs s)).
Proof.
  exact (fun T N fill D =>
    conj (tie_new0 (T:=T)) (conj (fun k => conj (tie_new1 N k) (dims_new1 N k)) (conj (fun k n => conj (tie_new2 N k n) (dims_new2 N k n))
    (conj (tie_setEstimateSize N) (conj (tie_setDataSize N fill D) (conj (tie_setPreconditionner2 (T:=T))
    (conj (tie_setPreconditionner1 N) (tie_set_row N)))))))).
Qed.
Print Assumptions C07_source_tie_ls_constructors_and_setters.

(* the three estimate paths as written — estimateUsingCholeskyDecomposition (Ac_ * inverseJtJ_ * JtY_ + Bc_ with the LDLT solve against
   Identity), estimateUsingSVD (singular values above epsilon * sigma_0 inverted, the others left, V * D * U^T), weightedEstimate (in-place
   weighting of the first dataSize_ rows, then the Cholesky path) — and weightJAndY_ are the model's, state and returned vector *)
Theorem C07_source_tie_ls_estimate_paths :
  forall (T : Type) (N : NumOps T) ldlt_solve jacobi_svd, LsDictOK N -> ldlt_dims ldlt_solve -> svd_dims jacobi_svd ->
  forall s : src_ls (T:=T), src_dims s -> ls_wf (abs s) -> ls_est_ok (abs s) = true ->
  Some (abs (fst (src_estimateUsingCholeskyDecomposition N ldlt_solve s)), snd (src_estimateUsingCholeskyDecomposition N ldlt_solve s))
    = ls_estimate_chol N (inverse_of_src N ldlt_solve) (abs s) /\
  Some (abs (fst (src_estimateUsingSVD N jacobi_svd s)), snd (src_estimateUsingSVD N jacobi_svd s))
    = ls_estimate_svd N (svd_of_src jacobi_svd) (abs s) /\
  abs (src_weightJAndY_ N s) = ls_weight N (abs s) /\
  Some (abs (fst (src_weightedEstimate N ldlt_solve s)), snd (src_weightedEstimate N ldlt_solve s))
    = ls_weighted_estimate N (inverse_of_src N ldlt_solve) (abs s).
Proof.
  exact (fun T N ld sv D Hl Hs s Hd Hw Hok =>
    conj (tie_chol N ld D s Hl Hd Hw Hok) (conj (tie_svd N sv D s Hs Hd Hw Hok)
    (conj (tie_weight N s Hw Hok) (tie_weighted N ld D s Hl Hd Hw Hok)))).
Qed.
Print Assumptions C07_source_tie_ls_estimate_paths.

(* SIMULATION of every op sequence: wherever the model's run is defined (no undefined behaviour), running the GENERATED transformers
   gives the same outputs and a state that reads as the model's — so C07_ls_invariant_every_history, C07_ls_history_independent and
   the end-to-end minimiser theorems above speak about the member functions as written.
   [run_dims]: every preconditioner matrix passed has estimateSize_ rows (it is read as estimateSize_ x estimateSize_) *)
Theorem C07_source_tie_ls_state_machine_every_history :
  forall (T : Type) (N : NumOps T) (fill : T) ldlt_solve jacobi_svd, LsDictOK N -> ldlt_dims ldlt_solve -> svd_dims jacobi_svd ->
  forall ops (s : src_ls (T:=T)) t outs, src_dims s -> ls_wf (abs s) -> run_dims N fill ldlt_solve jacobi_svd ops s ->
  ls_run N (inverse_of_src N ldlt_solve) (svd_of_src jacobi_svd) fill true ops (abs s) = Some (t, outs) ->
  abs (fst (src_run N fill ldlt_solve jacobi_svd ops s)) = t /\ snd (src_run N fill ldlt_solve jacobi_svd ops s) = outs /\
  src_dims (fst (src_run N fill ldlt_solve jacobi_svd ops s)).
Proof. exact (fun T N fill ld sv => sim_run N fill ld sv). Qed.
Print Assumptions C07_source_tie_ls_state_machine_every_history.

(* HISTORY INDEPENDENCE ON THE CODE AS WRITTEN: after ANY history on one object (estimate size kept; defined), loading a problem and
   calling any of the three estimate member functions returns exactly the vector a freshly constructed LeastSquares(k) returns *)
Theorem C07_source_tie_ls_history_independence :
  forall (T : Type) (N : NumOps T) (fill : T) ldlt_solve jacobi_svd, LsDictOK N -> ldlt_dims ldlt_solve -> svd_dims jacobi_svd ->
  forall k hist (ms : ls_state (T:=T)) outs n rows ys ws A b est,
  forallb keeps_estimate_size hist = true ->
  ls_run N (inverse_of_src N ldlt_solve) (svd_of_src jacobi_svd) fill true hist (ls_new1 N k) = Some (ms, outs) ->
  run_dims N fill ldlt_solve jacobi_svd hist (src_new1 N k) -> length A = k ->
  (1 <= n)%nat -> (forall i, (i < n)%nat -> length (nth i rows []) = k) ->
  est = OpEstimateChol \/ est = OpEstimateSVD \/ est = OpWeightedEstimate ->
  let prob := load_ops N n rows ys ws ++ [OpSetPrecond A b] in
  exists x,
    snd (src_step N fill ldlt_solve jacobi_svd
           (fst (src_run N fill ldlt_solve jacobi_svd prob (fst (src_run N fill ldlt_solve jacobi_svd hist (src_new1 N k))))) est) = OutVec x /\
    snd (src_step N fill ldlt_solve jacobi_svd (fst (src_run N fill ldlt_solve jacobi_svd prob (src_new1 N k))) est) = OutVec x.
Proof. exact (fun T N fill ld sv => src_history_independent N fill ld sv). Qed.
Print Assumptions C07_source_tie_ls_history_independence.

(* END TO END on the generated Cholesky member function, over the reals: under the LDLT contract the vector it returns is Ac z + Bc with z
   the solution of the normal equations of the first dataSize_ rows, the global and unique minimiser *)
Theorem C07_source_tie_ls_cholesky_returns_the_minimiser :
  forall ldlt_solve (s : src_ls (T:=R)), ldlt_dims ldlt_solve -> src_dims s -> ls_wf (abs s) -> ls_est_ok (abs s) = true ->
  let a := abs s in let n := ls_n a in let k := ls_k a in
  let inv := inverse_of_src ROps ldlt_solve k (ls_JtJ ROps a) in
  inv_contract k (ls_JtJ ROps a) inv ->
  let x := snd (src_estimateUsingCholeskyDecomposition ROps ldlt_solve s) in
  let z := ls_z a inv in
  (forall i, (i < k)%nat -> vget ROps x i = Rsum k (fun l => Af a i l * z l) + bf a i) /\
  (forall i, (i < k)%nat -> grad n k (Jf a) (Yf a) z i = 0) /\
  (forall y, cost n k (Jf a) (Yf a) z <= cost n k (Jf a) (Yf a) y) /\
  (forall y, cost n k (Jf a) (Yf a) y = cost n k (Jf a) (Yf a) z -> forall i, (i < k)%nat -> y i = z i).
Proof.
  intros ld s Hl Hd Hw Hok a n k inv Hc x z.
  destruct (ls_chol_correct (inverse_of_src ROps ld) a _ x Hc (eq_sym (tie_chol ROps ld LsDictOK_R s Hl Hd Hw Hok))) as (H1 & H2 & _ & H4 & H5).
  exact (conj H1 (conj H2 (conj H4 H5))).
Qed.
Print Assumptions C07_source_tie_ls_cholesky_returns_the_minimiser.

(* non-vacuity of the tie premises: the real dictionary is LsDictOK; oracles of the right shapes exist; a defined history with its
   run_dims exists (grow to 3 rows, set a 1 x 1 preconditioner), and the generated transformers really compute on it *)
Example C07_source_tie_premises_satisfiable :
  let ld := fun (M B : dmat (T:=R)) => B in
  let sv := fun (M : dmat (T:=R)) => let I := mkdm (dm_nrows M) (mtab (dm_nrows M) (dm_nrows M) (fid ROps)) in
                                     (I, tab (dm_nrows M) (fun _ => 1), I) in
  LsDictOK ROps /\ ldlt_dims ld /\ svd_dims sv /\
  src_dims (src_new1 ROps 1) /\ ls_wf (abs (src_new1 ROps 1)) /\
  run_dims ROps 0 ld sv [OpSetDataSize 3; OpSetPrecond [[2]] [0]] (src_new1 ROps 1) /\
  exists t outs, ls_run ROps (inverse_of_src ROps ld) (svd_of_src sv) 0 true [OpSetDataSize 3; OpSetPrecond [[2]] [0]] (ls_new1 ROps 1) = Some (t, outs).
Proof.
  intros ld sv. split; [exact LsDictOK_R|]. split; [intros M B; reflexivity|]. split.
  { intros M. cbn. split; [apply dm_shape_mtab|]. split; [apply dm_shape_mtab|]. apply length_tab. }
  split; [apply dims_new1|]. split; [apply wf_new1|]. split; [cbn; auto|]. eexists. eexists. reflexivity.
Qed.
