(* Properties_C07.v — placeholder, replaced below *)
From Coq Require Import Reals.
From Romea Require Import Num NumR LinAlgBModel LsModel.
Theorem C07_placeholder : True.
Proof. exact I. Qed.
