(* ZeroDispProofs.v — C06, the clause "with zero displacement it returns the identity".
   Part A (estimator): when every correspondence pairs a target point with an identical source point, every right-hand
   side Y_r = n_r . (t_r - s_r) of the point-to-plane problem is 0, J^T Y = 0, and every estimator path of the
   LeastSquares model returns Ac * inv * 0 + Bc = Bc — for ANY matrix [inv] the LDLT / SVD oracle hands back (no oracle
   contract is needed for that; under the right-inverse contract 0 is moreover the only solution of the normal equations).
   The estimator configures Bc = 0 (setPreconditionner(Ac)), so the parameter vector is 0 and the scattered matrix is
   exactly the identity (2D and 3D; Cartesian and homogeneous points are the values d / d+1 of [ps]).
   Part B (ICP loop): if the transformation of every successful iteration is the identity, the loop breaks at the first
   iteration whose step-difference test is evaluated (the first one RANSAC succeeds in) and returns the identity. *)
From Coq Require Import Reals ZArith List Arith Lia Lra Bool Psatz.
From Romea Require Import Num NumR LinAlgBModel LinAlgBProofs LsModel LsProofs LsHistoryProofs P2pModel P2pProofs
                          RansacModel IcpModel IcpProofs.
Import ListNotations.
Local Open Scope R_scope.

Local Notation vg := (vget ROps).
Local Notation triple := ((list R * list R) * list R)%type.

(* ================================================================================================ Part A *)
(* every pair (source, target) of the list is a pair of identical points *)
Definition zero_disp (triples : list triple) : Prop :=
  Forall (fun tr : triple => snd (fst tr) = fst (fst tr)) triples.

Lemma p2p_y_same ps (s n : list R) : p2p_y ROps ps s s n = 0.
Proof. unfold p2p_y. apply Rsum_zero. intros c _. rsimpl. ring. Qed.

Lemma Yp_zero ps triples r : zero_disp triples -> Yp ps triples r = 0.
Proof.
  intros Hz. unfold Yp, tr_ys.
  destruct (Nat.lt_ge_cases r (length triples)) as [Hr|Hr].
  - set (f := fun tr : triple => p2p_y ROps ps (fst (fst tr)) (snd (fst tr)) (snd tr)).
    set (dtr := ((@nil R, @nil R), @nil R) : triple).
    rewrite (nth_indep _ 0 (f dtr)) by (now rewrite map_length).
    rewrite (map_nth f). unfold f.
    unfold zero_disp in Hz. rewrite Forall_forall in Hz.
    rewrite (Hz (nth r triples dtr)) by (apply nth_In; exact Hr).
    apply p2p_y_same.
  - apply nth_overflow. now rewrite map_length.
Qed.

(* Ac * inv * J^T Y + Bc with a vanishing right-hand side: Bc, whatever [inv] is *)
Lemma ls_apply_zero_rhs (s : ls_state (T:=R)) inv i :
  (forall r, (r < ls_n s)%nat -> Yf s r = 0) -> (i < ls_k s)%nat ->
  vg (ls_apply ROps s inv) i = bf s i.
Proof.
  intros HY Hi. rewrite ls_apply_get by exact Hi.
  assert (Hnv : forall m, nv (ls_n s) (Jf s) (Yf s) m = 0).
  { intros m. unfold nv. apply Rsum_zero. intros r Hr. rewrite HY by exact Hr. ring. }
  rewrite (Rsum_zero (ls_k s)); [ring|].
  intros l _. rewrite (Rsum_zero (ls_k s)); [ring|]. intros m _. rewrite Hnv. ring.
Qed.

(* the un-preconditioned solution inv * J^T Y is 0 as well *)
Lemma ls_z_zero_rhs (s : ls_state (T:=R)) inv i :
  (forall r, (r < ls_n s)%nat -> Yf s r = 0) -> ls_z s inv i = 0.
Proof.
  intros HY. unfold ls_z, x0. apply Rsum_zero. intros l _.
  replace (nv (ls_n s) (Jf s) (Yf s) l) with 0; [ring|].
  symmetry. unfold nv. apply Rsum_zero. intros r Hr. rewrite HY by exact Hr. ring.
Qed.

(* under the right-inverse contract (LDLT path; SVD path through svd_pinv_is_inverse) the normal equations
   J^T J z = J^T Y = 0 have no other solution than 0 *)
Lemma normal_equations_zero_rhs_unique (s : ls_state (T:=R)) inv (z : nat -> R) :
  inv_contract (ls_k s) (ls_JtJ ROps s) inv ->
  (forall r, (r < ls_n s)%nat -> Yf s r = 0) ->
  (forall i, (i < ls_k s)%nat -> grad (ls_n s) (ls_k s) (Jf s) (Yf s) z i = 0) ->
  forall i, (i < ls_k s)%nat -> z i = 0.
Proof.
  intros Hc HY Hg i Hi.
  pose proof (inv_contract_nM s _ Hc) as Hinv.
  rewrite (normal_solution_unique (ls_n s) (ls_k s) (Jf s) (Yf s) (mget ROps inv) Hinv z); [|intros a Ha|exact Hi].
  - exact (ls_z_zero_rhs s inv i HY).
  - specialize (Hg a Ha). rewrite grad_normal in Hg. lra.
Qed.

(* the scatter of the zero parameter vector is the identity matrix *)
Lemma p2p_scatter_zero d (x : list R) : (d = 2 \/ d = 3)%nat ->
  (forall i, (i < p2p_k d)%nat -> vg x i = 0) -> p2p_scatter ROps d x = midentity ROps (S d).
Proof.
  intros [->| ->] Hx; unfold p2p_scatter, midentity; apply mtab_ext; intros i j Hi Hj; cbn [p2p_k] in Hx.
  - assert (E0 := Hx 0%nat ltac:(lia)). assert (E1 := Hx 1%nat ltac:(lia)). assert (E2 := Hx 2%nat ltac:(lia)).
    destruct i as [|[|[|i]]]; [| | |lia]; (destruct j as [|[|[|j]]]; [| | |lia]);
      rewrite ?E0, ?E1, ?E2; rsimpl; unfold fid; cbn [Nat.eqb]; rsimpl; lra.
  - assert (E0 := Hx 0%nat ltac:(lia)). assert (E1 := Hx 1%nat ltac:(lia)). assert (E2 := Hx 2%nat ltac:(lia)).
    assert (E3 := Hx 3%nat ltac:(lia)). assert (E4 := Hx 4%nat ltac:(lia)). assert (E5 := Hx 5%nat ltac:(lia)).
    destruct i as [|[|[|[|i]]]]; [| | | |lia]; (destruct j as [|[|[|[|j]]]]; [| | | |lia]);
      rewrite ?E0, ?E1, ?E2, ?E3, ?E4, ?E5; rsimpl; unfold fid; cbn [Nat.eqb]; rsimpl; lra.
Qed.

(* the estimator object as the code configures it: LeastSquares of estimate size 3 | 6, ready for such problems, offset
   Bc = 0 (the constructor and setPreconditionner(Ac) both leave Bc = 0; Ac is arbitrary) *)
Definition p2p_configured (d : nat) (st : ls_state (T:=R)) : Prop :=
  ready (p2p_k d) st /\ forall i, (i < p2p_k d)%nat -> vg (ls_b st) i = 0.

Lemma vg_vzero k i : vg (vzero ROps k) i = 0.
Proof.
  unfold vzero. destruct (Nat.lt_ge_cases i k) as [H|H]; [now rewrite vget_tab|].
  unfold vget. apply nth_overflow. now rewrite length_tab.
Qed.

Lemma p2p_configured_new d : (d = 2 \/ d = 3)%nat -> p2p_configured d (p2p_new ROps d).
Proof.
  intros Hd. split.
  - destruct Hd as [->| ->]; (split; [repeat split; cbn; auto|]); cbn; auto.
  - intros i _. unfold p2p_new. cbn [ls_set_estimate_size ls_b]. apply vg_vzero.
Qed.

Lemma p2p_configured_set_preconditioner d scale st :
  p2p_configured d st -> p2p_configured d (p2p_set_preconditioner ROps d scale st).
Proof.
  intros [(Hwf & Hk & Hj) Hb]. split.
  - unfold p2p_set_preconditioner, ls_set_precond_A, ls_set_precond. split; [|split]; cbn [ls_k ls_jcols ls_Y]; auto.
  - intros i _. unfold p2p_set_preconditioner, ls_set_precond_A, ls_set_precond. cbn [ls_b]. apply vg_vzero.
Qed.

Section Estimator.
Variable inverse_of : nat -> list (list R) -> list (list R).
Variable svd_of : nat -> list (list R) -> (list (list R) * list R) * list (list R).
Variable fill : R.

Local Notation load := (p2p_load ROps inverse_of svd_of fill).
Local Notation estim := (p2p_estimate ROps inverse_of svd_of fill).

(* loading from a configured state always succeeds *)
Lemma p2p_load_some svd_fixed d ps triples st :
  (d = 2 \/ d = 3)%nat -> ready (p2p_k d) st -> (1 <= length triples)%nat ->
  exists st1, load svd_fixed d ps triples st = Some st1.
Proof.
  intros Hd Hr Hn. unfold p2p_load.
  set (ws := ls_W (fst (ls_set_data_size ROps fill (length triples) st))).
  fold (tr_rows d triples). fold (tr_ys ps triples).
  destruct (run_load ROps inverse_of svd_of fill svd_fixed (p2p_k d) (length triples) (tr_rows d triples) (tr_ys ps triples) ws st Hr Hn)
    as (s' & outs & Hrun & _).
  { intros i Hi. now apply tr_rows_length. }
  rewrite Hrun. eauto.
Qed.

Lemma loaded_rhs_zero svd_fixed d ps triples st st1 :
  (d = 2 \/ d = 3)%nat -> ready (p2p_k d) st -> (1 <= length triples)%nat -> zero_disp triples ->
  load svd_fixed d ps triples st = Some st1 ->
  ls_est_ok st1 = true /\ ls_k st1 = p2p_k d /\ ls_b st1 = ls_b st /\ ls_A st1 = ls_A st /\ ls_wf st1 /\
  (forall r, (r < ls_n st1)%nat -> Yf st1 r = 0).
Proof.
  intros Hd Hr Hn Hz Hl.
  destruct (p2p_load_spec inverse_of svd_of fill svd_fixed d ps triples st st1 Hd Hr Hn Hl)
    as (Hwf & En & Ek & EA & Eb & Eok & _ & HY).
  repeat (split; [assumption|]). intros r Hlt. rewrite En in Hlt. rewrite HY by exact Hlt. now apply Yp_zero.
Qed.

(* all three estimator paths of the solver on the loaded zero-displacement problem return Bc (= 0 when configured) *)
Lemma zero_disp_all_paths svd_fixed d ps triples st st1 :
  (d = 2 \/ d = 3)%nat -> p2p_configured d st -> (1 <= length triples)%nat -> zero_disp triples ->
  load svd_fixed d ps triples st = Some st1 ->
  (exists st2 x, ls_estimate_chol ROps inverse_of st1 = Some (st2, x) /\ forall i, (i < p2p_k d)%nat -> vg x i = 0) /\
  (exists st2 x, ls_estimate_svd ROps svd_of st1 = Some (st2, x) /\ forall i, (i < p2p_k d)%nat -> vg x i = 0) /\
  (exists st2 x, ls_estimate_svd_abs ROps svd_of st1 = Some (st2, x) /\ forall i, (i < p2p_k d)%nat -> vg x i = 0) /\
  (forall inv i, ls_z st1 inv i = 0) /\
  (forall inv z, inv_contract (ls_k st1) (ls_JtJ ROps st1) inv ->
     (forall i, (i < p2p_k d)%nat -> grad (ls_n st1) (p2p_k d) (Jf st1) (Yf st1) z i = 0) ->
     forall i, (i < p2p_k d)%nat -> z i = 0).
Proof.
  intros Hd [Hr Hb] Hn Hz Hl.
  destruct (loaded_rhs_zero svd_fixed d ps triples st st1 Hd Hr Hn Hz Hl) as (Hok & Ek & Eb & _ & _ & HY).
  assert (Hx : forall inv i, (i < p2p_k d)%nat -> vg (ls_apply ROps st1 inv) i = 0).
  { intros inv i Hi. rewrite ls_apply_zero_rhs; [|exact HY|now rewrite Ek]. unfold bf. rewrite Eb. now apply Hb. }
  split; [|split; [|split; [|split]]].
  - unfold ls_estimate_chol. rewrite Hok. eexists _, _. split; [reflexivity|]. intros i Hi. now apply Hx.
  - unfold ls_estimate_svd. rewrite Hok. eexists _, _. split; [reflexivity|]. intros i Hi. now apply Hx.
  - unfold ls_estimate_svd_abs. rewrite Hok. eexists _, _. split; [reflexivity|]. intros i Hi. now apply Hx.
  - intros inv i. now apply ls_z_zero_rhs.
  - intros inv z Hc Hg i Hi. rewrite <- Ek in Hi.
    apply (normal_equations_zero_rhs_unique st1 inv z Hc HY); [|exact Hi].
    intros a Ha. rewrite Ek in *. now apply Hg.
Qed.

(* estimate_ : the code's path (estimateUsingSVD, repaired or original threshold) returns the identity, and it does return *)
Theorem zero_disp_estimate_identity svd_fixed d ps triples st :
  (d = 2 \/ d = 3)%nat -> p2p_configured d st -> (1 <= length triples)%nat -> zero_disp triples ->
  exists st2, estim svd_fixed d ps triples st = Some (st2, midentity ROps (S d)) /\ p2p_configured d st2.
Proof.
  intros Hd Hc Hn Hz. destruct Hc as [Hr Hb].
  destruct (p2p_load_some svd_fixed d ps triples st Hd Hr Hn) as [st1 Hl].
  destruct (loaded_rhs_zero svd_fixed d ps triples st st1 Hd Hr Hn Hz Hl) as (Hok & Ek & Eb & EA & Hwf & HY).
  destruct (zero_disp_all_paths svd_fixed d ps triples st st1 Hd (conj Hr Hb) Hn Hz Hl)
    as (_ & (s2 & x2 & E2 & Hx2) & (s3 & x3 & E3 & Hx3) & _).
  assert (Hcfg : forall inv, p2p_configured d (ls_with_inv st1 inv)).
  { intros inv. split.
    - split; [apply wf_with_inv; exact Hwf|]. cbn [ls_with_inv ls_k ls_jcols ls_Y]. split; [exact Ek|].
      left. unfold ls_est_ok in Hok. apply andb_true_iff in Hok. destruct Hok as [Hok _]. apply Nat.eqb_eq in Hok. congruence.
    - intros i Hi. cbn [ls_with_inv ls_b]. rewrite Eb. now apply Hb. }
  unfold p2p_estimate. rewrite Hl. destruct svd_fixed.
  - rewrite E2. exists s2. rewrite (p2p_scatter_zero d x2 Hd Hx2). split; [reflexivity|].
    unfold ls_estimate_svd in E2. rewrite Hok in E2. inversion E2. apply Hcfg.
  - rewrite E3. exists s3. rewrite (p2p_scatter_zero d x3 Hd Hx3). split; [reflexivity|].
    unfold ls_estimate_svd_abs in E3. rewrite Hok in E3. inversion E3. apply Hcfg.
Qed.

(* find(source, target, normals, correspondences): any subset / order / multiplicity of correspondences whose target
   point equals its source point; normals are arbitrary *)
Definition corr_zero_disp (src tgt : list (list R)) (corr : list (nat * nat)) : Prop :=
  Forall (fun c : nat * nat => nth (snd c) tgt [] = nth (fst c) src []) corr.

Lemma triples_of_corr_zero src tgt nrm corr tr :
  corr_zero_disp src tgt corr -> triples_of_corr src tgt nrm corr = Some tr ->
  zero_disp tr /\ length tr = length corr.
Proof.
  intros Hz. unfold triples_of_corr. destruct (forallb _ corr); [|discriminate]. intros H. inversion H; subst tr. clear H. split.
  - unfold zero_disp. rewrite Forall_map. eapply Forall_impl; [|exact Hz]. intros c Hc. cbn [fst snd]. exact Hc.
  - apply map_length.
Qed.

Theorem zero_disp_find_corr_identity svd_fixed d ps src tgt nrm corr st tr :
  (d = 2 \/ d = 3)%nat -> p2p_configured d st -> (1 <= length corr)%nat -> corr_zero_disp src tgt corr ->
  triples_of_corr src tgt nrm corr = Some tr ->      (* every index inside its set: defined behaviour *)
  exists st2, p2p_find_corr ROps inverse_of svd_of fill svd_fixed d ps src tgt nrm corr st = Some (st2, midentity ROps (S d)) /\
              p2p_configured d st2.
Proof.
  intros Hd Hc Hn Hz Ht. unfold p2p_find_corr. rewrite Ht.
  destruct (triples_of_corr_zero src tgt nrm corr tr Hz Ht) as [Hz' Hl].
  apply zero_disp_estimate_identity; try assumption. lia.
Qed.

(* find(source, target, normals) with target = source *)
Theorem zero_disp_find_aligned_identity svd_fixed d ps pts nrm st :
  (d = 2 \/ d = 3)%nat -> p2p_configured d st -> (1 <= length pts)%nat -> (length pts <= length nrm)%nat ->
  exists st2, p2p_find_aligned ROps inverse_of svd_of fill svd_fixed d ps pts pts nrm st = Some (st2, midentity ROps (S d)) /\
              p2p_configured d st2.
Proof.
  intros Hd Hc Hn Hm. unfold p2p_find_aligned, triples_aligned.
  rewrite Nat.eqb_refl. cbn [andb]. replace (Nat.leb (length pts) (length nrm)) with true by (symmetry; apply Nat.leb_le; exact Hm).
  apply zero_disp_estimate_identity; try assumption.
  - rewrite combine_length, combine_length, firstn_length. lia.
  - unfold zero_disp. apply Forall_forall. intros [[s t] n] Hin. cbn [fst snd].
    apply in_combine_l in Hin. revert Hin. clear. induction pts as [|p r IH]; cbn [combine]; [intros []|].
    intros [E|H]; [now inversion E | now apply IH].
Qed.

End Estimator.

(* the preconditioned overloads hand PreconditionedPointSet::get() (every coordinate times the scale) of both sets to
   the same code: identical points stay identical *)
Lemma corr_zero_disp_precondition c src tgt corr :
  Forall (fun p : nat * nat => (fst p < length src)%nat /\ (snd p < length tgt)%nat) corr ->
  corr_zero_disp src tgt corr -> corr_zero_disp (p2p_precondition ROps c src) (p2p_precondition ROps c tgt) corr.
Proof.
  intros Hb Hz. unfold corr_zero_disp in *. rewrite Forall_forall in *. intros p Hp.
  destruct (Hb p Hp) as [H1 H2]. specialize (Hz p Hp). unfold p2p_precondition.
  set (f := fun q : list R => map (fun x : R => nmul ROps x c) q).
  rewrite (nth_indep (map f tgt) [] (f [])) by (now rewrite map_length).
  rewrite (nth_indep (map f src) [] (f [])) by (now rewrite map_length).
  rewrite !(map_nth f). now rewrite Hz.
Qed.

(* the row-major entries of the identity matrix are the ICP model's [identity_entries] *)
Lemma concat_midentity n : concat (midentity ROps n) = identity_entries ROps n.
Proof.
  unfold identity_entries, midentity, mtab, tab, fid. rewrite flat_map_concat_map. reflexivity.
Qed.

(* ================================================================================================ Part B *)
Lemma mat_absdiff_same (m : list R) : mat_absdiff ROps m m = 0.
Proof.
  unfold mat_absdiff.
  assert (H : forall (l : list R) acc, fold_left (nadd ROps) (map (fun p : R * R => nabs ROps (nsub ROps (fst p) (snd p))) (combine l l)) acc = acc).
  { induction l as [|a l IH]; intros acc; cbn [combine map fold_left]; [reflexivity|].
    rewrite IH. rsimpl. cbn [fst snd]. rewrite Rminus_diag_eq by reflexivity. rewrite Rabs_R0. lra. }
  apply H.
Qed.

(* iterations in which RANSAC fails are skipped without touching the state; the first successful one breaks *)
Lemma icp_loop_identity eps id fuel : forall n st os r,
  0 < eps -> is_prev st = id ->
  (forall o, In o os -> io_ok o = true -> io_M o = id) ->
  icp_loop ROps eps fuel n st os = Some r ->
  (ir_found r = true ->
     exists pre o post, os = pre ++ o :: post /\ (length pre < fuel)%nat /\ ir_n r = (n + Z.of_nat (length pre))%Z /\
       Forall (fun o' => io_ok o' = false) pre /\ io_ok o = true /\ io_M o = id /\ is_prev (ir_state r) = id) /\
  (ir_found r = false ->
     ir_n r = (n + Z.of_nat fuel)%Z /\ ir_state r = st /\
     forall o, In o (firstn fuel os) -> io_ok o = false).
Proof.
  induction fuel as [|f IH]; intros n st os r He Hp Hid H; cbn [icp_loop] in H.
  - inversion H; subst; clear H. cbn [ir_found ir_n ir_state]. split; [discriminate|]. intros _.
    split; [lia|]. split; [reflexivity|]. cbn [firstn]. intros o [].
  - destruct os as [|o rest]; [discriminate|]. destruct (io_ok o) eqn:Hok.
    + assert (EM : io_M o = id) by (apply Hid; [left; reflexivity | exact Hok]).
      unfold icp_step in H. rewrite EM, Hp, mat_absdiff_same in H. cbn [nltb ROps] in H.
      replace (Rltb 0 eps) with true in H by (symmetry; apply Rltb_true; exact He).
      inversion H; subst; clear H. cbn [ir_found ir_n ir_state]. split; [|discriminate]. intros _.
      exists [], o, rest. cbn [length app]. split; [reflexivity|]. split; [lia|]. split; [lia|].
      split; [constructor|]. split; [exact Hok|]. split; [exact EM|].
      destruct (Rltb (io_rmse o) (is_best_rmse st)); cbn [is_prev]; reflexivity.
    + destruct (IH (n + 1)%Z st rest r He Hp (fun o' Hin => Hid o' (or_intror Hin)) H) as [Ht Hf]. split.
      * intros Hfound. destruct (Ht Hfound) as (pre & o' & post & E & Hl & Hn & Hpre & Hok' & EM & Hprev).
        exists (o :: pre), o', post. cbn [length app]. split; [now rewrite E|]. split; [lia|]. split; [lia|].
        split; [constructor; assumption|]. auto.
      * intros Hnf. destruct (Hf Hnf) as (Hn & Hst & Hall). split; [lia|]. split; [exact Hst|].
        cbn [firstn]. intros o' [<-|Hin]; [exact Hok | now apply Hall].
Qed.

Theorem zero_disp_icp_identity eps maxit id os r :
  0 < eps -> (0 <= maxit)%Z ->
  (forall o, In o os -> io_ok o = true -> io_M o = id) ->
  icp_run ROps eps maxit id os = Some r ->
  (* success iff RANSAC succeeds in one of the iterations the loop may run *)
  (ir_found r = true <-> exists o, In o (firstn (Z.to_nat maxit) os) /\ io_ok o = true) /\
  (* then: the loop stops AT the first such iteration (no earlier one evaluated the step-difference test), the
     transformation getTransformation() hands out is that iteration's, and it is the identity *)
  (ir_found r = true ->
     exists pre o post, os = pre ++ o :: post /\ ir_n r = Z.of_nat (length pre) /\ (ir_n r < maxit)%Z /\
       Forall (fun o' => io_ok o' = false) pre /\ io_ok o = true /\
       icp_returned_iteration r = Some (ir_n r) /\ nth_error os (Z.to_nat (ir_n r)) = Some o /\ io_M o = id) /\
  (* in particular when RANSAC succeeds in the very first iteration: success at iteration 0 *)
  (forall o rest, os = o :: rest -> io_ok o = true -> (1 <= maxit)%Z -> ir_found r = true /\ ir_n r = 0%Z).
Proof.
  intros He Hm Hid H. unfold icp_run in H.
  destruct (icp_loop_identity eps id _ 0%Z (icp_init ROps id) os r He eq_refl Hid H) as [Ht Hf].
  assert (Hsucc : ir_found r = true ->
     exists pre o post, os = pre ++ o :: post /\ ir_n r = Z.of_nat (length pre) /\ (ir_n r < maxit)%Z /\
       Forall (fun o' => io_ok o' = false) pre /\ io_ok o = true /\
       icp_returned_iteration r = Some (ir_n r) /\ nth_error os (Z.to_nat (ir_n r)) = Some o /\ io_M o = id).
  { intros Hfound. destruct (Ht Hfound) as (pre & o & post & E & Hl & Hn & Hpre & Hok & EM & _).
    exists pre, o, post. split; [exact E|]. split; [lia|]. split; [lia|]. split; [exact Hpre|]. split; [exact Hok|].
    split; [unfold icp_returned_iteration; now rewrite Hfound|]. split; [|exact EM].
    replace (Z.to_nat (ir_n r)) with (length pre) by lia. rewrite E.
    rewrite nth_error_app2, Nat.sub_diag by lia. reflexivity. }
  split; [split|split; [exact Hsucc|]].
  - intros Hfound. destruct (Ht Hfound) as (pre & o & post & E & Hl & _ & _ & Hok & _).
    exists o. split; [|exact Hok]. rewrite E.
    rewrite firstn_app. apply in_or_app. right.
    replace (Z.to_nat maxit - length pre)%nat with (S (Z.to_nat maxit - length pre - 1)) by lia. left. reflexivity.
  - intros (o & Hin & Hok). destruct (ir_found r) eqn:F; [reflexivity|exfalso].
    destruct (Hf eq_refl) as (_ & _ & Hall). rewrite (Hall o Hin) in Hok. discriminate.
  - intros o rest E Hok H1.
    assert (F : ir_found r = true).
    { destruct (ir_found r) eqn:F; [reflexivity|exfalso]. destruct (Hf eq_refl) as (_ & _ & Hall).
      rewrite (Hall o) in Hok; [discriminate|]. rewrite E.
      replace (Z.to_nat maxit) with (S (Z.to_nat maxit - 1)) by lia. left. reflexivity. }
    split; [exact F|]. destruct (Hsucc F) as (pre & o' & post & E' & Hn & _ & Hpre & _).
    destruct pre as [|o1 pre]; [cbn in Hn; exact Hn|exfalso].
    rewrite E in E'. cbn [app] in E'. inversion E'; subst o1. inversion Hpre; subst. congruence.
Qed.
