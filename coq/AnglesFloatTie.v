(* AnglesFloatTie.v — the angle normalisers regenerated from the clang AST of the current source (gen/SrcFunsC10.v,
   translate/srcfuns.py), instantiated at the binary64 dictionary B64Ops, are the functions b02_64 / bpi_64 the
   floating-point theorems of AnglesFloat.v are about (the literals 2 and 0 convert exactly; 2 * M_PI is exact). *)
From Coq Require Import Reals ZArith Lra Lia.
From Flocq Require Import Core.
From Romea Require Import Num NumR AnglesModel AnglesRoundtrip GridMapFloat AnglesFloat.
From Romea.gen Require Import SrcFunsC10.
Local Open Scope R_scope.

Lemma src_2pi_b64 : nmul B64Ops (nofZ B64Ops 2) (npi B64Ops) = M_2PI64.
Proof.
  rewrite <- m_2pi_b64. unfold m_2pi, ntwo, B64Ops. cbn [nmul nadd nofZ n_one npi FlOps]. unfold fl_mul, fl_add.
  replace (1 + 1) with (IZR 2) by (simpl; lra). reflexivity.
Qed.

Lemma src_zero_b64 : nofZ B64Ops 0 = 0.
Proof. unfold B64Ops. cbn [nofZ FlOps]. apply rnd64_id. apply (fmt_int 53 (-1074) 0); simpl; lia. Qed.

Lemma tie_between0And2Pi_b64 v : src_between0And2Pi B64Ops v = b02_64 v.
Proof. unfold src_between0And2Pi. cbv zeta. rewrite src_2pi_b64, src_zero_b64, b02_64_unf. reflexivity. Qed.

Lemma tie_betweenMinusPiAndPi_b64 v : src_betweenMinusPiAndPi B64Ops v = bpi_64 v.
Proof. unfold src_betweenMinusPiAndPi. cbv zeta. rewrite src_2pi_b64, bpi_64_unf. reflexivity. Qed.
