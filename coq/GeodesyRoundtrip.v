(* GeodesyRoundtrip.v — accuracy and termination of toWGS84 on the image of toECEF near the Earth (C01).
   Uses the contraction lemmas of GeodesyContraction.v. *)
From Coq Require Import Reals ZArith List Bool Lra Lia Psatz.
From Coquelicot Require Import Coquelicot.
From Interval Require Import Tactic.
From Romea Require Import Num NumR GeodesyModel GeodesyProofs GeodesyContraction.
From Romea.gen Require Import RepoConstants.
Local Open Scope R_scope.

(* ------------------------------------------------------------------ sin and cos are 1-Lipschitz *)
Lemma cos_lip x y : Rabs (cos x - cos y) <= Rabs (x - y).
Proof.
  destruct (MVT_gen cos y x (fun z => - sin z)) as [c [_ E]].
  - intros z _. auto_derive; [exact I|ring].
  - intros z _. apply continuity_pt_filterlim. apply (ex_derive_continuous cos).
    exists (- sin z). auto_derive; [exact I|ring].
  - rewrite E, Rabs_mult, Rabs_Ropp.
    assert (Rabs (sin c) <= 1) by (apply Rabs_le; pose proof (SIN_bound c); lra).
    pose proof (Rabs_pos (x - y)). nra.
Qed.

Lemma sin_lip x y : Rabs (sin x - sin y) <= Rabs (x - y).
Proof.
  destruct (MVT_gen sin y x (fun z => cos z)) as [c [_ E]].
  - intros z _. auto_derive; [exact I|ring].
  - intros z _. apply continuity_pt_filterlim. apply (ex_derive_continuous sin).
    exists (cos z). auto_derive; [exact I|ring].
  - rewrite E, Rabs_mult.
    assert (Rabs (cos c) <= 1) by (apply Rabs_le; pose proof (COS_bound c); lra).
    pose proof (Rabs_pos (x - y)). nra.
Qed.

Lemma ecef_eps_lower : / 100000000000 <= ecef_eps ROps.
Proof. unfold ecef_eps, ecef_epsilon_m, ecef_epsilon_e. eval_dec. lra. Qed.

(* PI * 0.0104^6 <= 1e-11 *)
Lemma pi_q6_bound : PI * (104 / 10000) ^ 6 <= / 100000000000.
Proof.
  pose proof PI_4 as P4. pose proof PI_RGT_0 as P0.
  assert (X6 : 0 <= (104 / 10000) ^ 6 <= / 400000000000) by (cbn [pow]; lra).
  set (x := (104 / 10000) ^ 6) in *. clearbody x.
  apply Rle_trans with (4 * x); [apply Rmult_le_compat_r; lra|lra].
Qed.

Section OnEllipsoid.
Variable el : ellipsoid (T:=R).
Hypothesis Ha : 0 < el_a el.
Hypothesis He2 : 0 <= el_e2 el < 1.
Local Notation a := (el_a el).
Local Notation e2 := (el_e2 el).

(* ---- away from the axis (rho > a e2) the denominator of the body is positive at every latitude ---- *)
Lemma lat_den_pos_global rho x : a * e2 < rho -> 0 < lat_den el rho x.
Proof.
  intros Hr. unfold lat_den.
  pose proof (w_pos e2 x He2) as Wp. fold (Wf el x) in Wp. pose proof (cos_le_Wf el He2 x) as Cw.
  apply Rabs_le_between in Cw.
  assert (Pr : 0 < rho) by nra.
  assert (Q : a * e2 * cos x / (rho * Wf el x) < 1); [|lra].
  apply (Rmult_lt_reg_r (rho * Wf el x)); [nra|].
  unfold Rdiv. rewrite Rmult_assoc, Rinv_l by nra.
  assert (a * e2 * cos x <= a * e2 * Wf el x) by (apply Rmult_le_compat_l; nra). nra.
Qed.

Lemma lat_body_contraction_global Z rho x y : a * e2 < rho ->
  Rabs (lat_body ROps el Z rho y - lat_body ROps el Z rho x) <= lat_q el Z rho * Rabs (y - x).
Proof.
  intros Hr. assert (Pr : 0 < rho) by nra.
  apply (lat_body_lipschitz el Ha He2 Z rho Pr).
  - pose proof (rnorm_ge_rho Z rho Pr). lra.
  - intros z _. pose proof (lat_den_pos_global rho z Hr). lra.
Qed.

(* ---- toWGS84 on an arbitrary Cartesian point ---- *)
Lemma sqrt3_rnorm X Y Z : sqrt (X * X + Y * Y + Z * Z) = rnorm Z (hnorm ROps X Y).
Proof.
  unfold rnorm, hnorm. cbn [nsqrt nadd nmul ROps]. rewrite sqrt_sqrt by nra. reflexivity.
Qed.

Lemma first_guess_in_J X Y Z : 0 < hnorm ROps X Y -> a * e2 < rnorm Z (hnorm ROps X Y) ->
  lat_J Z (hnorm ROps X Y) (lat_first_guess ROps el X Y Z).
Proof.
  intros Hr Hf. unfold lat_first_guess. cbn [natan ndiv nmul nsub nsqrt nadd n_one ROps].
  rewrite sqrt3_rnorm. set (rho := hnorm ROps X Y) in *. set (r := rnorm Z rho) in *.
  assert (Pr : 0 < r) by nra.
  assert (Q0 : 0 <= a * e2 / r). { apply Rmult_le_pos; [nra|]. left. apply Rinv_0_lt_compat. exact Pr. }
  assert (Q1 : a * e2 / r < 1).
  { apply (Rmult_lt_reg_r r); [exact Pr|]. unfold Rdiv. rewrite Rmult_assoc, Rinv_l by lra. lra. }
  replace (Z / (rho * (1 - a * e2 / r))) with (Z / rho / (1 - a * e2 / r)) by (field; repeat split; lra).
  apply lat_J_of_quot; [exact Hr|lra].
Qed.

(* latitude returned by toWGS84 vs. a fixed point of the body in the invariant interval *)
Lemma toWGS84_latitude_accuracy fuel (p : vec3 (T:=R)) gg fx :
  let Z := vz p in let rho := hnorm ROps (vx p) (vy p) in
  0 < rho -> e2 * a < rnorm Z rho ->
  (e2 * a) * (e2 * a) < rho * rho + (1 - e2) * (Z * Z) ->
  lat_q el Z rho < 1 ->
  lat_J Z rho fx -> lat_body ROps el Z rho fx = fx ->
  toWGS84 ROps fuel el p = Some gg ->
  Rabs (g_lat gg - fx) <= lat_q el Z rho * ecef_eps ROps / (1 - lat_q el Z rho).
Proof.
  intros Z rho Hr Hf HJ Hq Hfx Hfix. unfold toWGS84. fold Z rho.
  destruct (lat_loop _ _ _ _ _ _ _) as [r|] eqn:E; [|discriminate].
  intros H; inversion H; subst gg; cbn [g_lat].
  eapply (lat_loop_exit_accuracy el Ha He2 Z rho Hr Hf HJ Hq); [| |exact Hfx|exact Hfix|exact E].
  - apply first_guess_in_J; [exact Hr|fold rho; lra].
  - apply ecef_initial_delta_gt_eps.
Qed.

Lemma toWGS84_terminates n fuel (p : vec3 (T:=R)) :
  let Z := vz p in let rho := hnorm ROps (vx p) (vy p) in
  0 < rho -> e2 * a < rnorm Z rho ->
  (e2 * a) * (e2 * a) < rho * rho + (1 - e2) * (Z * Z) ->
  PI * lat_q el Z rho ^ n <= ecef_eps ROps -> (S n <= fuel)%nat ->
  exists gg, toWGS84 ROps fuel el p = Some gg.
Proof.
  intros Z rho Hr Hf HJ Hn Hfu. unfold toWGS84. fold Z rho.
  destruct (lat_loop_terminates el Ha He2 Z rho Hr Hf HJ n fuel
              (lat_first_guess ROps el (vx p) (vy p) Z)
              (nofDec ROps ecef_initial_delta_m ecef_initial_delta_e)) as [r Er].
  - apply first_guess_in_J; [exact Hr|fold rho; lra].
  - exact Hn.
  - exact Hfu.
  - rewrite Er. eexists; reflexivity.
Qed.

(* ------------------------------------------------------------------ the image of toECEF near the Earth *)
Section NearEarth.
Variables lat lon h : R.
Hypothesis He2s : e2 <= / 100.
Hypothesis Hlat : - PI / 2 < lat < PI / 2.
Hypothesis Hh : - a / 100 <= h.

Local Notation N0 := (primeVertical ROps el lat).
Local Notation Pp := (N0 + h).
Local Notation mm := (N0 * (1 - e2) + h).
Local Notation rhoP := (Pp * cos lat).
Local Notation ZP := (mm * sin lat).

Lemma ne_m_lower : 98 / 100 * a <= mm.
Proof.
  pose proof (primeVertical_ge_a el Ha He2 lat) as G.
  assert (S1 : a * (1 - e2) <= N0 * (1 - e2)) by (apply Rmult_le_compat_r; lra).
  assert (S2 : a * (99 / 100) <= a * (1 - e2)) by (apply Rmult_le_compat_l; lra).
  lra.
Qed.

Lemma ne_P_ge_m : mm <= Pp.
Proof. pose proof (primeVertical_pos el Ha He2 lat). nra. Qed.

Lemma ne_rho_pos : 0 < rhoP.
Proof. pose proof ne_m_lower. pose proof ne_P_ge_m. pose proof (cos_pos_lat lat Hlat). nra. Qed.

Lemma ne_rnorm_lower : mm <= rnorm ZP rhoP.
Proof.
  pose proof ne_m_lower as M. pose proof ne_P_ge_m as PM.
  unfold rnorm. rewrite <- (sqrt_square mm) at 1 by lra. apply sqrt_le_1_alt.
  pose proof (cos_sq_eq lat) as C.
  replace (rhoP * rhoP + ZP * ZP) with (Pp * Pp * (cos lat * cos lat) + mm * mm * (sin lat * sin lat)) by ring.
  rewrite C. assert (0 <= sin lat * sin lat) by nra. pose proof (sin_sq_le_1 lat).
  assert (mm * mm <= Pp * Pp) by nra. nra.
Qed.

Lemma ne_far : e2 * a < rnorm ZP rhoP.
Proof. pose proof ne_rnorm_lower. pose proof ne_m_lower. nra. Qed.

Lemma ne_HJ : (e2 * a) * (e2 * a) < rhoP * rhoP + (1 - e2) * (ZP * ZP).
Proof.
  pose proof ne_rnorm_lower as R. pose proof ne_m_lower as M.
  pose proof (rnorm_sq ZP rhoP) as S.
  assert (L : 98 / 100 * a <= rnorm ZP rhoP) by lra.
  set (r := rnorm ZP rhoP) in *. clearbody r.
  assert (Z0 : 0 <= ZP * ZP) by (apply (Rle_0_sqr ZP)).
  assert (W0 : 0 <= rhoP * rhoP) by (apply (Rle_0_sqr rhoP)).
  set (zz := ZP * ZP) in *. set (ww := rhoP * rhoP) in *. clearbody zz ww.
  assert (G : (e2 * a) * (e2 * a) < (1 - e2) * (r * r)).
  2:{ rewrite S in G. assert (0 <= e2 * ww) by (apply Rmult_le_pos; lra). lra. }
  assert (E1 : e2 * a <= a / 100) by nra.
  assert (E0 : 0 <= e2 * a) by nra.
  assert (S1 : (e2 * a) * (e2 * a) <= (a / 100) * (a / 100)) by nra.
  assert (S2 : (98 / 100 * a) * (98 / 100 * a) <= r * r) by nra.
  assert (S3 : 99 / 100 * (r * r) <= (1 - e2) * (r * r)) by nra.
  nra.
Qed.

Lemma sqrt_1me2_lower : 994 / 1000 <= sqrt (1 - e2).
Proof.
  assert (P : 0 < sqrt (1 - e2)) by (apply sqrt_lt_R0; lra).
  assert (S : sqrt (1 - e2) * sqrt (1 - e2) = 1 - e2) by (apply sqrt_sqrt; lra).
  nra.
Qed.

(* explicit contraction factor on the domain: 1.04 e2 <= 0.0104 *)
Lemma ne_q_bound : lat_q el ZP rhoP <= 26 / 25 * e2.
Proof.
  pose proof ne_rnorm_lower as R. pose proof ne_m_lower as M. pose proof sqrt_1me2_lower as K.
  unfold lat_q. set (r := rnorm ZP rhoP) in *. set (k := sqrt (1 - e2)) in *. clearbody r k.
  assert (D1 : 97 / 100 * a <= r - e2 * a) by nra.
  assert (D2 : 25 / 26 * a <= k * (r - e2 * a)) by nra.
  assert (Dp : 0 < k * (r - e2 * a)) by nra.
  apply (Rmult_le_reg_r (k * (r - e2 * a))); [exact Dp|].
  unfold Rdiv. rewrite Rmult_assoc, Rinv_l by lra. nra.
Qed.

Lemma ne_q_lt_1 : lat_q el ZP rhoP < 1.
Proof. pose proof ne_q_bound. lra. Qed.

Lemma ne_fixed : lat_body ROps el ZP rhoP lat = lat.
Proof. apply (lat_body_fixed_point el Ha He2 lat h Hlat). nra. Qed.

Lemma ne_den_fixed : 0 < lat_den el rhoP lat.
Proof.
  unfold lat_den, Wf. pose proof (w_pos e2 lat He2) as Wp. pose proof (cos_pos_lat lat Hlat) as Cp.
  pose proof ne_m_lower as M. pose proof ne_P_ge_m as PM.
  replace (1 - a * e2 * cos lat / (rhoP * sqrt (1 - e2 * sin lat * sin lat))) with (mm / Pp).
  - apply Rmult_lt_0_compat; [lra|]. apply Rinv_0_lt_compat. lra.
  - set (w := sqrt (1 - e2 * sin lat * sin lat)) in *.
    assert (Aw : a = N0 * w) by (rewrite (primeVertical_eq el lat); fold w; field; lra).
    rewrite Aw at 1. set (Nn := N0) in *. clearbody Nn. field. repeat split; lra.
Qed.

Lemma ne_fixed_in_J : lat_J ZP rhoP lat.
Proof.
  pose proof (lat_J_body_pos el Ha He2 ZP rhoP ne_rho_pos lat Hlat ne_den_fixed) as H.
  rewrite ne_fixed in H. exact H.
Qed.

(* the point and its cylindrical coordinates *)
Lemma ne_point :
  let p := toECEF ROps el (mkGeo lat lon h) in vz p = ZP /\ hnorm ROps (vx p) (vy p) = rhoP.
Proof.
  intros p. split; [reflexivity|]. apply (hnorm_toECEF el Ha He2 lat lon h Hlat). nra.
Qed.

(* ---- latitude accuracy, unconditional on the domain ---- *)
Lemma ne_err_bound :
  lat_q el ZP rhoP * ecef_eps ROps / (1 - lat_q el ZP rhoP) <= 11 / 100 * / 1000000000000.
Proof.
  pose proof ne_q_bound as Q. pose proof (lat_q_nonneg el Ha He2 ZP rhoP ne_far) as Q0.
  pose proof ecef_eps_bounds as [E0 E1].
  set (q := lat_q el ZP rhoP) in *. clearbody q. set (eps := ecef_eps ROps) in *. clearbody eps.
  assert (Q1 : q <= 104 / 10000) by lra.
  apply (Rmult_le_reg_r (1 - q)); [lra|].
  unfold Rdiv. rewrite Rmult_assoc, Rinv_l by lra. nra.
Qed.

Lemma ne_latitude_accuracy fuel gg :
  toWGS84 ROps fuel el (toECEF ROps el (mkGeo lat lon h)) = Some gg ->
  Rabs (g_lat gg - lat) <= lat_q el ZP rhoP * ecef_eps ROps / (1 - lat_q el ZP rhoP).
Proof.
  intros H. destruct ne_point as [Ez Er].
  pose proof (toWGS84_latitude_accuracy fuel (toECEF ROps el (mkGeo lat lon h)) gg lat) as T.
  cbv zeta in T. rewrite Er, Ez in T.
  exact (T ne_rho_pos ne_far ne_HJ ne_q_lt_1 ne_fixed_in_J ne_fixed H).
Qed.

(* ---- termination within 7 passes on the domain ---- *)
Lemma ne_terminates fuel : (7 <= fuel)%nat ->
  exists gg, toWGS84 ROps fuel el (toECEF ROps el (mkGeo lat lon h)) = Some gg.
Proof.
  intros Hf. destruct ne_point as [Ez Er].
  pose proof (toWGS84_terminates 6 fuel (toECEF ROps el (mkGeo lat lon h))) as T.
  cbv zeta in T. rewrite Er, Ez in T.
  apply (T ne_rho_pos ne_far ne_HJ); [|exact Hf].
  pose proof ne_q_bound as Q. pose proof (lat_q_nonneg el Ha He2 ZP rhoP ne_far) as Q0.
  pose proof ecef_eps_lower as E.
  set (q := lat_q el ZP rhoP) in *. clearbody q.
  assert (Q1 : q <= 104 / 10000) by lra.
  apply Rle_trans with (PI * (104 / 10000) ^ 6); [|apply Rle_trans with (/ 100000000000); [exact pi_q6_bound|exact E]].
  apply Rmult_le_compat_l; [pose proof PI_RGT_0; lra|]. apply pow_incr. lra.
Qed.

(* the exit error in terms of the explicit factor 1.04 e2 *)
Lemma ne_err_bound_q :
  lat_q el ZP rhoP * ecef_eps ROps / (1 - lat_q el ZP rhoP)
  <= (26 / 25 * e2) * ecef_eps ROps / (1 - 26 / 25 * e2).
Proof.
  pose proof ne_q_bound as Q. pose proof (lat_q_nonneg el Ha He2 ZP rhoP ne_far) as Q0.
  pose proof ecef_eps_bounds as [E0 _].
  set (q := lat_q el ZP rhoP) in *. clearbody q. set (eps := ecef_eps ROps) in *. clearbody eps.
  set (q' := 26 / 25 * e2) in *. assert (Q1 : q' <= 104 / 10000) by (unfold q'; lra). clearbody q'.
  apply (Rmult_le_reg_r ((1 - q) * (1 - q'))); [nra|].
  replace (q * eps / (1 - q) * ((1 - q) * (1 - q'))) with (q * eps * (1 - q')) by (field; lra).
  replace (q' * eps / (1 - q') * ((1 - q) * (1 - q'))) with (q' * eps * (1 - q)) by (field; lra).
  assert (q * eps <= q' * eps) by nra. nra.
Qed.

(* the contraction statement on the image of toECEF, with the explicit factor *)
Lemma ne_contraction :
  let p := toECEF ROps el (mkGeo lat lon h) in
  let Z := vz p in let norm := hnorm ROps (vx p) (vy p) in
  let g := lat_body ROps el Z norm in
  let q := 26 / 25 * e2 in
  q <= 13 / 1250 /\
  lat_J Z norm lat /\ g lat = lat /\
  lat_J Z norm (lat_first_guess ROps el (vx p) (vy p) Z) /\
  (forall x, lat_J Z norm x -> lat_J Z norm (g x)) /\
  (forall x, lat_J Z norm x -> 0 < lat_den el norm x <= 1) /\
  (forall x y, lat_J Z norm x -> lat_J Z norm y -> Rabs (g y - g x) <= q * Rabs (y - x)).
Proof.
  intros p Z norm g q. destruct ne_point as [Ez Er]. fold p in Ez, Er. unfold g, norm, Z. rewrite Er, Ez.
  split; [unfold q; lra|]. split; [exact ne_fixed_in_J|]. split; [exact ne_fixed|].
  split. { rewrite <- Er. apply first_guess_in_J; rewrite Er; [exact ne_rho_pos|pose proof ne_far; lra]. }
  split. { intros x. apply (lat_J_body el Ha He2 ZP rhoP ne_rho_pos ne_HJ). }
  split. { intros x. apply (lat_J_den el Ha He2 ZP rhoP ne_rho_pos ne_HJ). }
  intros x y Hx Hy.
  apply Rle_trans with (lat_q el ZP rhoP * Rabs (y - x)).
  - apply (lat_body_contraction_J el Ha He2 ZP rhoP ne_rho_pos ne_far ne_HJ); assumption.
  - apply Rmult_le_compat_r; [apply Rabs_pos|exact ne_q_bound].
Qed.

(* away from the poles (cos lat >= 1/97, |lat| <= 89.4 deg) the bound is global in the iterate *)
Lemma ne_contraction_global : / 97 <= cos lat ->
  let p := toECEF ROps el (mkGeo lat lon h) in
  let Z := vz p in let norm := hnorm ROps (vx p) (vy p) in
  let g := lat_body ROps el Z norm in
  a * e2 < norm /\
  (forall x, 0 < lat_den el norm x) /\
  forall x y, Rabs (g y - g x) <= 26 / 25 * e2 * Rabs (y - x).
Proof.
  intros Hc p Z norm g. destruct ne_point as [Ez Er]. fold p in Ez, Er. unfold g, norm, Z. rewrite Er, Ez.
  pose proof ne_m_lower as M. pose proof ne_P_ge_m as PM.
  assert (Hr : a * e2 < rhoP).
  { assert (S1 : 98 / 100 * a * / 97 <= Pp * cos lat) by (apply Rmult_le_compat; nra).
    assert (S2 : a * e2 <= a * / 100) by (apply Rmult_le_compat_l; lra). lra. }
  split; [exact Hr|]. split; [intros x; apply (lat_den_pos_global rhoP x Hr)|].
  intros x y. apply Rle_trans with (lat_q el ZP rhoP * Rabs (y - x)).
  - apply lat_body_contraction_global. exact Hr.
  - apply Rmult_le_compat_r; [apply Rabs_pos|exact ne_q_bound].
Qed.

(* ---- height: sensitivity of norm/cos(lat) - N(lat) to the latitude error ---- *)
Hypothesis Ha7 : a <= 7000000.
Hypothesis Hh5 : h <= 100000.
Hypothesis Hcos : / 600 <= cos lat.

Lemma ne_P_upper : Pp <= 7150000.
Proof.
  pose proof sqrt_1me2_lower as K. pose proof (Wf_ge el He2 lat) as Wk.
  pose proof (w_pos e2 lat He2) as Wp. fold (Wf el lat) in Wp.
  assert (N0 <= 7050000); [|lra].
  rewrite (primeVertical_eq el lat). fold (Wf el lat).
  apply (Rmult_le_reg_r (Wf el lat)); [exact Wp|].
  unfold Rdiv. rewrite Rmult_assoc, Rinv_l by lra. nra.
Qed.

Lemma ne_height_sensitivity x d :
  Rabs (x - lat) <= d -> d <= 11 / 100 * / 1000000000000 ->
  Rabs (altitude_of ROps el rhoP x - h) <= / 1000.
Proof.
  intros Hx Hd.
  rewrite <- (height_recovered el He2 lat h Hlat) at 2.
  unfold altitude_of. cbn [ndiv nsub nmul ncos nsin nsqrt n_one ROps].
  replace (1 - e2 * (sin x * sin x)) with (1 - e2 * sin x * sin x) by ring.
  replace (1 - e2 * (sin lat * sin lat)) with (1 - e2 * sin lat * sin lat) by ring.
  fold (Wf el x) (Wf el lat).
  pose proof sqrt_1me2_lower as K.
  pose proof (Wf_ge el He2 x) as Wk. pose proof (Wf_ge el He2 lat) as Wk0.
  pose proof (w_sq e2 x He2) as Ws. pose proof (w_sq e2 lat He2) as Ws0. fold (Wf el x) in Ws. fold (Wf el lat) in Ws0.
  pose proof (cos_lip x lat) as Lc. pose proof (sin_lip x lat) as Ls.
  pose proof (Rabs_pos (x - lat)) as D0.
  pose proof ne_P_upper as PU. pose proof ne_m_lower as M. pose proof ne_P_ge_m as PM.
  pose proof (SIN_bound x) as Sx. pose proof (SIN_bound lat) as S0.
  set (w := Wf el x) in *. set (w0 := Wf el lat) in *.
  set (c := cos x) in *. set (c0 := cos lat) in *. set (s := sin x) in *. set (s0 := sin lat) in *.
  assert (Lc' : Rabs (c - c0) <= d) by lra. assert (Ls' : Rabs (s - s0) <= d) by lra.
  apply Rabs_le_between' in Lc'. apply Rabs_le_between' in Ls'.
  assert (Cl : / 601 <= c) by lra.
  assert (Cp : 0 < c) by lra. assert (Cp0 : 0 < c0) by lra.
  clearbody w w0 c c0 s s0.
  (* first term *)
  assert (T1 : Rabs (Pp * c0 / c - Pp * c0 / c0) <= 5 / 10000).
  { replace (Pp * c0 / c - Pp * c0 / c0) with (Pp * ((c0 - c) * / c)) by (field; split; lra).
    assert (Ic : / c <= 601). { rewrite <- (Rinv_inv 601). apply Rinv_le_contravar; lra. }
    assert (Ip : 0 < / c) by (apply Rinv_0_lt_compat; exact Cp).
    rewrite Rabs_mult, Rabs_mult, (Rabs_pos_eq Pp), (Rabs_pos_eq (/ c)) by lra.
    assert (A1 : Rabs (c0 - c) <= d) by (apply Rabs_le; lra).
    pose proof (Rabs_pos (c0 - c)) as A0.
    apply Rle_trans with (7150000 * (d * 601)); [|lra].
    apply Rmult_le_compat; [lra| |lra|].
    - apply Rmult_le_pos; lra.
    - apply Rmult_le_compat; lra. }
  (* second term *)
  assert (T2 : Rabs (a / w - a / w0) <= 1 / 10000).
  { assert (Wd : Rabs (w0 - w) <= 2 / 100 * d).
    { assert (E : (w0 - w) * (w0 + w) = e2 * ((s - s0) * (s + s0))) by nra.
      assert (Sw : 1 <= w0 + w) by lra.
      assert (B : Rabs ((w0 - w) * (w0 + w)) <= / 100 * (d * 2)).
      { rewrite E, Rabs_mult, Rabs_mult, (Rabs_pos_eq e2) by lra.
        apply Rmult_le_compat; [lra| |lra|].
        - apply Rmult_le_pos; apply Rabs_pos.
        - apply Rmult_le_compat; try apply Rabs_pos; apply Rabs_le; lra. }
      rewrite Rabs_mult, (Rabs_pos_eq (w0 + w)) in B by lra.
      pose proof (Rabs_pos (w0 - w)). nra. }
    replace (a / w - a / w0) with (a * ((w0 - w) * / (w * w0))) by (field; split; lra).
    assert (Pw : 98 / 100 <= w * w0) by nra.
    assert (Iw : / (w * w0) <= 100 / 98). { rewrite <- (Rinv_inv (100 / 98)). apply Rinv_le_contravar; lra. }
    assert (Ip : 0 < / (w * w0)) by (apply Rinv_0_lt_compat; lra).
    rewrite Rabs_mult, Rabs_mult, (Rabs_pos_eq a), (Rabs_pos_eq (/ (w * w0))) by lra.
    pose proof (Rabs_pos (w0 - w)) as A0.
    apply Rle_trans with (7000000 * (2 / 100 * d * (100 / 98))); [|lra].
    apply Rmult_le_compat; [lra| |lra|].
    - apply Rmult_le_pos; lra.
    - apply Rmult_le_compat; lra. }
  replace (Pp * c0 / c - a / w - (Pp * c0 / c0 - a / w0)) with ((Pp * c0 / c - Pp * c0 / c0) - (a / w - a / w0)) by ring.
  apply Rabs_le_between in T1. apply Rabs_le_between in T2. apply Rabs_le. lra.
Qed.

Lemma ne_roundtrip_accuracy fuel gg : - PI < lon <= PI ->
  toWGS84 ROps fuel el (toECEF ROps el (mkGeo lat lon h)) = Some gg ->
  g_lon gg = lon /\ Rabs (g_lat gg - lat) <= 11 / 100 * / 1000000000000 /\ Rabs (g_alt gg - h) <= / 1000.
Proof.
  intros Hlon H.
  pose proof (ne_latitude_accuracy fuel gg H) as L. pose proof ne_err_bound as B.
  assert (Hh' : - a * (1 - e2) < h) by nra.
  destruct (toWGS84_of_toECEF el Ha He2 fuel lat lon h gg Hlat Hlon Hh' H) as [Elon _].
  split; [exact Elon|]. split; [lra|].
  revert H. unfold toWGS84. destruct ne_point as [_ Er]. rewrite Er.
  destruct (lat_loop _ _ _ _ _ _ _) as [r|] eqn:E; [|discriminate].
  intros H; inversion H; subst gg; cbn [g_lat g_alt] in *.
  apply (ne_height_sensitivity r (lat_q el ZP rhoP * ecef_eps ROps / (1 - lat_q el ZP rhoP))); [exact L|exact B].
Qed.

End NearEarth.
End OnEllipsoid.

(* ------------------------------------------------------------------ statements in the form used by Properties_C01.v *)
Lemma roundtrip_latitude_accuracy (el : ellipsoid (T:=R)) fuel lat lon h gg :
  0 < el_a el -> 0 <= el_e2 el <= / 100 -> - PI / 2 < lat < PI / 2 -> - el_a el / 100 <= h ->
  toWGS84 ROps fuel el (toECEF ROps el (mkGeo lat lon h)) = Some gg ->
  let q := 26 / 25 * el_e2 el in
  Rabs (g_lat gg - lat) <= q * ecef_eps ROps / (1 - q) /\
  q * ecef_eps ROps / (1 - q) <= 11 / 100 * / 1000000000000.
Proof.
  intros Ha [E0 E1] Hl Hh H q. assert (He2 : 0 <= el_e2 el < 1) by lra.
  pose proof (ne_latitude_accuracy el Ha He2 lat lon h E1 Hl Hh fuel gg H) as L.
  pose proof (ne_err_bound_q el Ha He2 lat h E1 Hh) as B.
  split; [fold q in B; lra|].
  pose proof ecef_eps_bounds as [P0 P1]. set (eps := ecef_eps ROps) in *. clearbody eps.
  assert (Q0 : 0 <= q) by (unfold q; lra). assert (Q1 : q <= 104 / 10000) by (unfold q; lra). clearbody q.
  apply (Rmult_le_reg_r (1 - q)); [lra|].
  unfold Rdiv. rewrite Rmult_assoc, Rinv_l by lra. nra.
Qed.

Lemma roundtrip_geodetic_accuracy (el : ellipsoid (T:=R)) fuel lat lon h gg :
  0 < el_a el <= 7000000 -> 0 <= el_e2 el <= / 100 ->
  - PI / 2 < lat < PI / 2 -> / 600 <= cos lat -> - PI < lon <= PI -> - el_a el / 100 <= h <= 100000 ->
  toWGS84 ROps fuel el (toECEF ROps el (mkGeo lat lon h)) = Some gg ->
  g_lon gg = lon /\ Rabs (g_lat gg - lat) <= / 1000000000 /\ Rabs (g_alt gg - h) <= / 1000.
Proof.
  intros [Ha Ha7] [E0 E1] Hl Hc Hlon [Hh Hh5] H. assert (He2 : 0 <= el_e2 el < 1) by lra.
  destruct (ne_roundtrip_accuracy el Ha He2 lat lon h E1 Hl Hh Ha7 Hh5 Hc fuel gg Hlon H) as [A [B C]].
  split; [exact A|]. split; [lra|exact C].
Qed.

Lemma roundtrip_terminates (el : ellipsoid (T:=R)) fuel lat lon h :
  0 < el_a el -> 0 <= el_e2 el <= / 100 -> - PI / 2 < lat < PI / 2 -> - el_a el / 100 <= h ->
  (7 <= fuel)%nat ->
  exists gg, toWGS84 ROps fuel el (toECEF ROps el (mkGeo lat lon h)) = Some gg.
Proof.
  intros Ha [E0 E1] Hl Hh Hf. assert (He2 : 0 <= el_e2 el < 1) by lra.
  exact (ne_terminates el Ha He2 lat lon h E1 Hl Hh fuel Hf).
Qed.

(* both together: with at least 7 passes allowed the conversion returns, within 1e-9 rad and 1 mm *)
Lemma roundtrip_geodetic_total (el : ellipsoid (T:=R)) fuel lat lon h :
  0 < el_a el <= 7000000 -> 0 <= el_e2 el <= / 100 ->
  - PI / 2 < lat < PI / 2 -> / 600 <= cos lat -> - PI < lon <= PI -> - el_a el / 100 <= h <= 100000 ->
  (7 <= fuel)%nat ->
  exists gg, toWGS84 ROps fuel el (toECEF ROps el (mkGeo lat lon h)) = Some gg /\
    g_lon gg = lon /\ Rabs (g_lat gg - lat) <= / 1000000000 /\ Rabs (g_alt gg - h) <= / 1000.
Proof.
  intros Ha E Hl Hc Hlon Hh Hf.
  destruct (roundtrip_terminates el fuel lat lon h (proj1 Ha) E Hl (proj1 Hh) Hf) as [gg Hg].
  exists gg. split; [exact Hg|]. exact (roundtrip_geodetic_accuracy el fuel lat lon h gg Ha E Hl Hc Hlon Hh Hg).
Qed.

Lemma latitude_contraction (el : ellipsoid (T:=R)) lat lon h :
  0 < el_a el -> 0 <= el_e2 el <= / 100 -> - PI / 2 < lat < PI / 2 -> - el_a el / 100 <= h ->
  let p := toECEF ROps el (mkGeo lat lon h) in
  let Z := vz p in let norm := hnorm ROps (vx p) (vy p) in
  let g := lat_body ROps el Z norm in
  let q := 26 / 25 * el_e2 el in
  q <= 13 / 1250 /\
  lat_J Z norm lat /\ g lat = lat /\
  lat_J Z norm (lat_first_guess ROps el (vx p) (vy p) Z) /\
  (forall x, lat_J Z norm x -> lat_J Z norm (g x)) /\
  (forall x, lat_J Z norm x -> 0 < lat_den el norm x <= 1) /\
  (forall x y, lat_J Z norm x -> lat_J Z norm y -> Rabs (g y - g x) <= q * Rabs (y - x)).
Proof.
  intros Ha [E0 E1] Hl Hh. assert (He2 : 0 <= el_e2 el < 1) by lra.
  exact (ne_contraction el Ha He2 lat lon h E1 Hl Hh).
Qed.

Lemma latitude_contraction_global (el : ellipsoid (T:=R)) lat lon h :
  0 < el_a el -> 0 <= el_e2 el <= / 100 -> - PI / 2 < lat < PI / 2 -> / 97 <= cos lat -> - el_a el / 100 <= h ->
  let p := toECEF ROps el (mkGeo lat lon h) in
  let Z := vz p in let norm := hnorm ROps (vx p) (vy p) in
  let g := lat_body ROps el Z norm in
  el_a el * el_e2 el < norm /\
  (forall x, 0 < lat_den el norm x) /\
  forall x y, Rabs (g y - g x) <= 26 / 25 * el_e2 el * Rabs (y - x).
Proof.
  intros Ha [E0 E1] Hl Hc Hh. assert (He2 : 0 <= el_e2 el < 1) by lra.
  exact (ne_contraction_global el Ha He2 lat lon h E1 Hl Hh Hc).
Qed.

(* the derivative bound for an arbitrary Cartesian point farther than a e2 from the centre *)
Lemma latitude_body_derivative_bound (el : ellipsoid (T:=R)) Z norm x :
  0 < el_a el -> 0 <= el_e2 el < 1 -> 0 < norm -> el_e2 el * el_a el < sqrt (norm * norm + Z * Z) ->
  Rabs (lat_body_deriv el Z norm x)
  <= el_e2 el * el_a el / (sqrt (1 - el_e2 el) * (sqrt (norm * norm + Z * Z) - el_e2 el * el_a el)).
Proof. intros Ha He2 Hn Hf. exact (lat_body_deriv_bound el Ha He2 Z norm Hn Hf x). Qed.

(* ---- non-vacuity: GRS80 at 89.9 deg, height -11 km ---- *)
Lemma grs80_in_domain :
  let el := grs80 ROps in
  0 < el_a el <= 7000000 /\ 0 <= el_e2 el <= / 100 /\
  - PI / 2 < 899 / 1800 * PI < PI / 2 /\ / 600 <= cos (899 / 1800 * PI) /\
  - el_a el / 100 <= -11000 <= 100000.
Proof.
  assert (G : grs80 ROps = make_ellipsoid ROps 6378137 (6356752314 * / 1000)).
  { unfold grs80, grs80_a_m, grs80_a_e, grs80_b_m, grs80_b_e. f_equal; eval_dec; lra. }
  cbv zeta. rewrite G. cbn [make_ellipsoid el_a el_e2 nmul nsub ndiv ROps].
  pose proof PI_RGT_0.
  split; [lra|]. split; [split; interval|]. split; [lra|]. split; [interval|lra].
Qed.
