(* Properties_C13.v — C13: grid index mapping puts each in-range point in the in-bounds cell containing it.
   Per axis; r = resolution, [lo, hi] = extent; all statements are about the model instantiated at the reals. *)
From Coq Require Import Reals ZArith Lra.
From Romea Require Import Num NumR GridMapModel GridMapProofs.
Local Open Scope R_scope.

(* every in-range point is at least half a cell away from the values 0 and n where truncation would leave the
   grid: this margin is why rounding cannot push an in-range point out of bounds *)
Theorem C13_half_cell_margin : forall r lo hi p, 0 < r -> lo <= p <= hi ->
  1 / 2 <= (p - gm_origin ROps r lo) / r <= IZR (gm_ncells ROps r lo hi) - 1 / 2.
Proof. intros r lo hi p Hr. exact (half_cell_margin r lo hi Hr p). Qed.
Print Assumptions C13_half_cell_margin.

Theorem C13_index_in_bounds : forall r lo hi p, 0 < r -> lo <= p <= hi ->
  (0 <= gm_index ROps r (gm_origin ROps r lo) p < gm_ncells ROps r lo hi)%Z.
Proof. intros r lo hi p Hr. exact (index_in_bounds r lo hi Hr p). Qed.

Theorem C13_point_within_half_cell : forall r lo hi p, 0 < r -> lo <= p <= hi ->
  let org := gm_origin ROps r lo in
  Rabs (p - gm_centre ROps r org (gm_index ROps r org p)) <= r / 2.
Proof. intros r lo hi p Hr. exact (point_within_half r lo hi Hr p). Qed.

Theorem C13_centre_maps_to_itself : forall r lo k, 0 < r -> (0 <= k)%Z ->
  let org := gm_origin ROps r lo in gm_index ROps r org (gm_centre ROps r org k) = k.
Proof. intros r lo k Hr. exact (centre_fixed r lo Hr k). Qed.

Theorem C13_centres_spaced_by_r : forall r lo k,
  let org := gm_origin ROps r lo in gm_centre ROps r org (k + 1) - gm_centre ROps r org k = r.
Proof. intros r lo k. exact (centres_spaced r lo k). Qed.

Theorem C13_first_last_cover_bounds : forall r lo hi, 0 < r ->
  let org := gm_origin ROps r lo in
  gm_centre ROps r org 0 - r / 2 <= lo /\ hi <= gm_centre ROps r org (gm_ncells ROps r lo hi - 1) + r / 2.
Proof. intros r lo hi Hr. exact (bounds_covered r lo hi Hr). Qed.

Theorem C13_ncells_positive : forall r lo hi, 0 < r -> lo <= hi -> (1 <= gm_ncells ROps r lo hi)%Z.
Proof. exact ncells_positive. Qed.
Print Assumptions C13_ncells_positive.

(* non-vacuity: the grid of the unit tests, extent [-1, 1], resolution 1: 3 cells, centres -1, 0, 1 *)
Example C13_ex : gm_ncells ROps 1 (-1) 1 = 3%Z.
Proof.
  rewrite (n_eq 1 (-1) 1). replace (1 / 1) with (IZR 1) by (simpl; lra). replace (-1 / 1) with (IZR (-1)) by (simpl; lra).
  rewrite Flocq.Core.Raux.Zceil_IZR, Flocq.Core.Raux.Zfloor_IZR. reflexivity.
Qed.
