(* Properties_C13.v — C13: grid index mapping puts each in-range point in the in-bounds cell containing it.
   Per axis; r = resolution, [lo, hi] = extent.  First part: the model instantiated at the reals (exact arithmetic).
   Second part (names ending in _binary64 / _binary32): the SAME model instantiated at the rounded dictionaries
   B64Ops / B32Ops of GridMapFloat.v, i.e. IEEE-754 binary64 / binary32 with round-to-nearest-even after every
   C++ operation. *)
From Coq Require Import Reals ZArith List Lra.
From Flocq Require Import Core.
From Romea Require Import Num NumR GridMapModel GridMapProofs GridMapFloat SrcEigen SrcTieC13.
From Romea.gen Require Import SrcGridMap.
Import ListNotations.
Local Open Scope R_scope.

(* every in-range point is at least half a cell away from the values 0 and n where truncation would leave the
   grid: this margin is why rounding cannot push an in-range point out of bounds *)
Theorem C13_half_cell_margin : forall r lo hi p, 0 < r -> lo <= p <= hi ->
  1 / 2 <= (p - gm_origin ROps r lo) / r <= IZR (gm_ncells ROps r lo hi) - 1 / 2.
Proof. intros r lo hi p Hr. exact (half_cell_margin r lo hi Hr p). Qed.
Print Assumptions C13_half_cell_margin.

Theorem C13_index_in_bounds : forall r lo hi p, 0 < r -> lo <= p <= hi ->
  (0 <= gm_index ROps r (gm_origin ROps r lo) p < gm_ncells ROps r lo hi)%Z.
Proof. intros r lo hi p Hr. exact (index_in_bounds r lo hi Hr p). Qed.

Theorem C13_point_within_half_cell : forall r lo hi p, 0 < r -> lo <= p <= hi ->
  let org := gm_origin ROps r lo in
  Rabs (p - gm_centre ROps r org (gm_index ROps r org p)) <= r / 2.
Proof. intros r lo hi p Hr. exact (point_within_half r lo hi Hr p). Qed.

Theorem C13_centre_maps_to_itself : forall r lo k, 0 < r -> (0 <= k)%Z ->
  let org := gm_origin ROps r lo in gm_index ROps r org (gm_centre ROps r org k) = k.
Proof. intros r lo k Hr. exact (centre_fixed r lo Hr k). Qed.

Theorem C13_centres_spaced_by_r : forall r lo k,
  let org := gm_origin ROps r lo in gm_centre ROps r org (k + 1) - gm_centre ROps r org k = r.
Proof. intros r lo k. exact (centres_spaced r lo k). Qed.

Theorem C13_first_last_cover_bounds : forall r lo hi, 0 < r ->
  let org := gm_origin ROps r lo in
  gm_centre ROps r org 0 - r / 2 <= lo /\ hi <= gm_centre ROps r org (gm_ncells ROps r lo hi - 1) + r / 2.
Proof. intros r lo hi Hr. exact (bounds_covered r lo hi Hr). Qed.

Theorem C13_ncells_positive : forall r lo hi, 0 < r -> lo <= hi -> (1 <= gm_ncells ROps r lo hi)%Z.
Proof. exact ncells_positive. Qed.
Print Assumptions C13_ncells_positive.

(* non-vacuity: the grid of the unit tests, extent [-1, 1], resolution 1: 3 cells, centres -1, 0, 1 *)
Example C13_ex : gm_ncells ROps 1 (-1) 1 = 3%Z.
Proof.
  rewrite (n_eq 1 (-1) 1). replace (1 / 1) with (IZR 1) by (simpl; lra). replace (-1 / 1) with (IZR (-1)) by (simpl; lra).
  rewrite Flocq.Core.Raux.Zceil_IZR, Flocq.Core.Raux.Zfloor_IZR. reflexivity.
Qed.

(* ====================================================================================================
   Floating point.  [FlOps prec emin] (GridMapFloat.v) is a numeric dictionary over R whose +, -, *, / and
   integer->float are the real operation followed by ONE rounding [round radix2 (FLT_exp emin prec) ZnearestE] (Flocq);
   floor, ceil, truncation, negation are exact on floating-point numbers.
       B64Ops = FlOps 53 (-1074), rnd64 its rounding;   B32Ops = FlOps 24 (-149), rnd32 its rounding.
   [gm_origin B64Ops], [gm_ncells B64Ops], [gm_index B64Ops], [gm_centre B64Ops] are therefore
   GridIndexMapping.cpp:38-65,94-98 with Scalar = double (B32Ops: Scalar = float), one rounding per operation in the
   C++ evaluation order (origin_unf, ncells_unf, index_unf0, centre_unf0 show them unfolded).  The dictionaries used
   for EXECUTION (ocaml/numf.ml: native OCaml doubles; binary32 = binary64 result rounded once more, which is
   innocuous for + - * /) compute the same functions on finite numbers as long as nothing overflows; the
   no_overflow theorems prove that nothing does on the domains.  That identification (hardware arithmetic = Flocq's
   rounding; no x87 excess precision, no FMA contraction) is trusted, not proved; FlOps is not extracted.

   binary64 domain [gmf_domain r lo hi]:    2^-900 <= r <= 2^900,  |lo| <= 2^40 r,  |hi| <= 2^40 r
   binary32 domain [gmf_domain32 r lo hi]:  2^-100 <= r <= 2^100,  |lo| <= 2^20 r,  |hi| <= 2^20 r
   (both bounds at most 2^40, resp. 2^20, cells away from zero).  The boxes 2^-20 <= r <= 2^20, |lo|,|hi| <= 2^20
   (resp. 2^-10 <= r <= 2^10, |lo|,|hi| <= 2^10) lie inside and contain the envelope of the property
   (r in [1e-3,10], bounds in [-1e3,1e3]).
   The inputs are arbitrary reals of the domain; in particular every binary64 (binary32) r, lo, hi, p of the domain
   (representability of the inputs is not needed by the proofs, so it is not assumed).
   ==================================================================================================== *)
Theorem C13_domain_binary64 : forall r lo hi, gmf_domain r lo hi <->
  (bpow radix2 (-900) <= r <= bpow radix2 900 /\ Rabs lo <= bpow radix2 40 * r /\ Rabs hi <= bpow radix2 40 * r).
Proof. intros r lo hi. apply iff_refl. Qed.

Theorem C13_domain_box_binary64 : forall r lo hi,
  bpow radix2 (-20) <= r <= bpow radix2 20 -> Rabs lo <= bpow radix2 20 -> Rabs hi <= bpow radix2 20 ->
  gmf_domain r lo hi.
Proof. exact gmf_domain_box. Qed.

(* every intermediate result of the constructor, of computeCellIndexes(p), of centre table entry k and of
   computeCellIndexes(centre k) is below 2^1000 in magnitude before rounding: no overflow *)
Theorem C13_no_overflow_binary64 : forall r lo hi p k, gmf_domain r lo hi -> lo <= p <= hi ->
  (0 <= k < gm_ncells B64Ops r lo hi)%Z ->
  let org := gm_origin B64Ops r lo in
  let F := Zfloor (rnd64 (lo / r)) in let C := Zceil (rnd64 (hi / r)) in
  let m := rnd64 ((IZR k + 1 / 2) * r) in let c := gm_centre B64Ops r org k in
  Forall (fun x => Rabs x <= bpow radix2 1000)
    (lo / r :: hi / r :: IZR F - 1 / 2 :: r * (IZR F - 1 / 2) :: IZR C - IZR F :: IZR (C - F) + 1 ::
     p - org :: rnd64 (p - org) / r ::
     IZR k + 1 / 2 :: (IZR k + 1 / 2) * r :: org + m :: c - org :: rnd64 (c - org) / r :: nil).
Proof. intros r lo hi p k D. exact (no_overflow_b64 r lo hi D p k). Qed.
Print Assumptions C13_no_overflow_binary64.

(* the cell count is computed without any rounding error: ceil(rnd(hi/r)) - floor(rnd(lo/r)) + 1 *)
Theorem C13_ncells_exact_binary64 : forall r lo hi, gmf_domain r lo hi ->
  gm_ncells B64Ops r lo hi = (Zceil (rnd64 (hi / r)) - Zfloor (rnd64 (lo / r)) + 1)%Z.
Proof. exact ncells_b64. Qed.
Print Assumptions C13_ncells_exact_binary64.

Theorem C13_ncells_positive_binary64 : forall r lo hi, gmf_domain r lo hi -> lo <= hi ->
  (1 <= gm_ncells B64Ops r lo hi)%Z.
Proof. exact ncells_positive_b64. Qed.
Print Assumptions C13_ncells_positive_binary64.

(* the floating-point index of every point of the extent is in bounds *)
Theorem C13_index_in_bounds_binary64 : forall r lo hi p, gmf_domain r lo hi -> lo <= p <= hi ->
  (0 <= gm_index B64Ops r (gm_origin B64Ops r lo) p < gm_ncells B64Ops r lo hi)%Z.
Proof. intros r lo hi p D. exact (index_in_bounds_b64 r lo hi D p). Qed.
Print Assumptions C13_index_in_bounds_binary64.

(* why: the rounded quotient that gets truncated keeps a quarter-cell margin (half a cell in exact arithmetic) *)
Theorem C13_quarter_cell_margin_binary64 : forall r lo hi p, gmf_domain r lo hi -> lo <= p <= hi ->
  1 / 4 <= rnd64 (rnd64 (p - gm_origin B64Ops r lo) / r) <= IZR (gm_ncells B64Ops r lo hi) - 1 / 4.
Proof. intros r lo hi p D. exact (quarter_margin_b64 r lo hi D p). Qed.
Print Assumptions C13_quarter_cell_margin_binary64.

(* the point is within half a resolution of the floating-point centre of its cell, up to the rounding slack
   gmf_tol = 2^-49 * max(|lo|,|hi|,r) + 2^-49 * r  (exactly the tolerance the oracle of checks/C13.py allows) *)
Theorem C13_point_near_centre_binary64 : forall r lo hi p, gmf_domain r lo hi -> lo <= p <= hi ->
  let org := gm_origin B64Ops r lo in
  Rabs (p - gm_centre B64Ops r org (gm_index B64Ops r org p))
    <= r / 2 + (bpow radix2 (-49) * Rmax (Rmax (Rabs lo) (Rabs hi)) r + bpow radix2 (-49) * r).
Proof. intros r lo hi p D. exact (point_near_centre_b64 r lo hi D p). Qed.
Print Assumptions C13_point_near_centre_binary64.

(* the same with a slack relative to the cell size *)
Theorem C13_point_near_centre_rel_binary64 : forall r lo hi p, gmf_domain r lo hi -> lo <= p <= hi ->
  let org := gm_origin B64Ops r lo in
  Rabs (p - gm_centre B64Ops r org (gm_index B64Ops r org p)) <= r / 2 + bpow radix2 (-9) * r.
Proof. intros r lo hi p D. exact (point_near_centre_rel_b64 r lo hi D p). Qed.
Print Assumptions C13_point_near_centre_rel_binary64.

(* centre -> index -> centre is the identity in floating point, for every cell of the grid *)
Theorem C13_centre_maps_to_itself_binary64 : forall r lo hi k, gmf_domain r lo hi ->
  (0 <= k < gm_ncells B64Ops r lo hi)%Z ->
  let org := gm_origin B64Ops r lo in gm_index B64Ops r org (gm_centre B64Ops r org k) = k.
Proof. intros r lo hi k D. exact (centre_index_b64 r lo hi D k). Qed.
Print Assumptions C13_centre_maps_to_itself_binary64.

(* consecutive floating-point centres are r apart up to the same slack *)
Theorem C13_centres_spaced_binary64 : forall r lo hi k, gmf_domain r lo hi ->
  (0 <= k)%Z -> (k + 1 < gm_ncells B64Ops r lo hi)%Z ->
  let org := gm_origin B64Ops r lo in
  Rabs (gm_centre B64Ops r org (k + 1) - gm_centre B64Ops r org k - r) <= gmf_tol r lo hi.
Proof. intros r lo hi k D. exact (centres_spaced_b64 r lo hi D k). Qed.
Print Assumptions C13_centres_spaced_binary64.

(* the first and last floating-point cells cover the bounds, without any slack *)
Theorem C13_first_last_cover_bounds_binary64 : forall r lo hi, gmf_domain r lo hi -> lo <= hi ->
  let org := gm_origin B64Ops r lo in
  gm_centre B64Ops r org 0 - r / 2 <= lo /\ hi <= gm_centre B64Ops r org (gm_ncells B64Ops r lo hi - 1) + r / 2.
Proof. exact cover_b64. Qed.
Print Assumptions C13_first_last_cover_bounds_binary64.

(* non-vacuity: r = 1/2, extent [-10, 10], p = 3 are binary64 numbers of the domain; the rounded model gives
   origin -10.25, 41 cells, p in cell 26 whose centre is 3 *)
Example C13_binary64_ex_inputs : b64 (1 / 2) /\ b64 (-10) /\ b64 10 /\ b64 3.
Proof. exact ex_inputs_b64. Qed.
Example C13_binary64_ex_domain : gmf_domain (1 / 2) (-10) 10 /\ -10 <= 3 <= 10.
Proof. split; [exact ex_domain|lra]. Qed.
Example C13_binary64_ex_values :
  gm_origin B64Ops (1 / 2) (-10) = -41 / 4 /\ gm_ncells B64Ops (1 / 2) (-10) 10 = 41%Z /\
  gm_index B64Ops (1 / 2) (gm_origin B64Ops (1 / 2) (-10)) 3 = 26%Z /\
  gm_centre B64Ops (1 / 2) (gm_origin B64Ops (1 / 2) (-10)) 26 = 3.
Proof. exact ex_values_b64. Qed.

(* ---------------------------------------- binary32 (Scalar = float) ---------------------------------------- *)
Theorem C13_domain_binary32 : forall r lo hi, gmf_domain32 r lo hi <->
  (bpow radix2 (-100) <= r <= bpow radix2 100 /\ Rabs lo <= bpow radix2 20 * r /\ Rabs hi <= bpow radix2 20 * r).
Proof. intros r lo hi. apply iff_refl. Qed.

Theorem C13_domain_box_binary32 : forall r lo hi,
  bpow radix2 (-10) <= r <= bpow radix2 10 -> Rabs lo <= bpow radix2 10 -> Rabs hi <= bpow radix2 10 ->
  gmf_domain32 r lo hi.
Proof. exact gmf_domain32_box. Qed.

(* below 2^122; the largest finite binary32 number is just under 2^128 *)
Theorem C13_no_overflow_binary32 : forall r lo hi p k, gmf_domain32 r lo hi -> lo <= p <= hi ->
  (0 <= k < gm_ncells B32Ops r lo hi)%Z ->
  let org := gm_origin B32Ops r lo in
  let F := Zfloor (rnd32 (lo / r)) in let C := Zceil (rnd32 (hi / r)) in
  let m := rnd32 ((IZR k + 1 / 2) * r) in let c := gm_centre B32Ops r org k in
  Forall (fun x => Rabs x <= bpow radix2 122)
    (lo / r :: hi / r :: IZR F - 1 / 2 :: r * (IZR F - 1 / 2) :: IZR C - IZR F :: IZR (C - F) + 1 ::
     p - org :: rnd32 (p - org) / r ::
     IZR k + 1 / 2 :: (IZR k + 1 / 2) * r :: org + m :: c - org :: rnd32 (c - org) / r :: nil).
Proof. intros r lo hi p k D. exact (no_overflow_b32 r lo hi D p k). Qed.
Print Assumptions C13_no_overflow_binary32.

Theorem C13_ncells_exact_binary32 : forall r lo hi, gmf_domain32 r lo hi ->
  gm_ncells B32Ops r lo hi = (Zceil (rnd32 (hi / r)) - Zfloor (rnd32 (lo / r)) + 1)%Z.
Proof. exact ncells_b32. Qed.
Print Assumptions C13_ncells_exact_binary32.

Theorem C13_ncells_positive_binary32 : forall r lo hi, gmf_domain32 r lo hi -> lo <= hi ->
  (1 <= gm_ncells B32Ops r lo hi)%Z.
Proof. exact ncells_positive_b32. Qed.
Print Assumptions C13_ncells_positive_binary32.

Theorem C13_index_in_bounds_binary32 : forall r lo hi p, gmf_domain32 r lo hi -> lo <= p <= hi ->
  (0 <= gm_index B32Ops r (gm_origin B32Ops r lo) p < gm_ncells B32Ops r lo hi)%Z.
Proof. intros r lo hi p D. exact (index_in_bounds_b32 r lo hi D p). Qed.
Print Assumptions C13_index_in_bounds_binary32.

(* in binary32 at 2^20 cells from zero the half-cell margin shrinks to a sixteenth of a cell, but survives *)
Theorem C13_sixteenth_cell_margin_binary32 : forall r lo hi p, gmf_domain32 r lo hi -> lo <= p <= hi ->
  1 / 16 <= rnd32 (rnd32 (p - gm_origin B32Ops r lo) / r) <= IZR (gm_ncells B32Ops r lo hi) - 1 / 16.
Proof. intros r lo hi p D. exact (margin_b32 r lo hi D p). Qed.
Print Assumptions C13_sixteenth_cell_margin_binary32.

(* slack 2^-20 * max(|lo|,|hi|,r) + 2^-20 * r: the oracle's tolerance for float (8 eps with eps = 2^-23) *)
Theorem C13_point_near_centre_binary32 : forall r lo hi p, gmf_domain32 r lo hi -> lo <= p <= hi ->
  let org := gm_origin B32Ops r lo in
  Rabs (p - gm_centre B32Ops r org (gm_index B32Ops r org p))
    <= r / 2 + (bpow radix2 (-20) * Rmax (Rmax (Rabs lo) (Rabs hi)) r + bpow radix2 (-20) * r).
Proof. intros r lo hi p D. exact (point_near_centre_b32 r lo hi D p). Qed.
Print Assumptions C13_point_near_centre_binary32.

Theorem C13_centre_maps_to_itself_binary32 : forall r lo hi k, gmf_domain32 r lo hi ->
  (0 <= k < gm_ncells B32Ops r lo hi)%Z ->
  let org := gm_origin B32Ops r lo in gm_index B32Ops r org (gm_centre B32Ops r org k) = k.
Proof. intros r lo hi k D. exact (centre_index_b32 r lo hi D k). Qed.
Print Assumptions C13_centre_maps_to_itself_binary32.

Theorem C13_centres_spaced_binary32 : forall r lo hi k, gmf_domain32 r lo hi ->
  (0 <= k)%Z -> (k + 1 < gm_ncells B32Ops r lo hi)%Z ->
  let org := gm_origin B32Ops r lo in
  Rabs (gm_centre B32Ops r org (k + 1) - gm_centre B32Ops r org k - r) <= gmf_tol32 r lo hi.
Proof. intros r lo hi k D. exact (centres_spaced_b32 r lo hi D k). Qed.
Print Assumptions C13_centres_spaced_binary32.

Theorem C13_first_last_cover_bounds_binary32 : forall r lo hi, gmf_domain32 r lo hi -> lo <= hi ->
  let org := gm_origin B32Ops r lo in
  gm_centre B32Ops r org 0 - r / 2 <= lo /\ hi <= gm_centre B32Ops r org (gm_ncells B32Ops r lo hi - 1) + r / 2.
Proof. exact cover_b32. Qed.
Print Assumptions C13_first_last_cover_bounds_binary32.

Example C13_binary32_ex_inputs : b32 (1 / 2) /\ b32 (-10) /\ b32 10 /\ b32 3.
Proof. exact ex_inputs_b32. Qed.
Example C13_binary32_ex_domain : gmf_domain32 (1 / 2) (-10) 10 /\ -10 <= 3 <= 10.
Proof. split; [exact ex_domain32|lra]. Qed.
Example C13_binary32_ex_values :
  gm_origin B32Ops (1 / 2) (-10) = -41 / 4 /\ gm_ncells B32Ops (1 / 2) (-10) 10 = 41%Z /\
  gm_index B32Ops (1 / 2) (gm_origin B32Ops (1 / 2) (-10)) 3 = 26%Z /\
  gm_centre B32Ops (1 / 2) (gm_origin B32Ops (1 / 2) (-10)) 26 = 3.
Proof. exact ex_values_b32. Qed.

(* ====================================================================================================
   SYNTACTIC SOURCE TIE.  gen/SrcGridMap.v is regenerated on every run from the clang AST of the instantiations
   GridIndexMapping<float|double, 2|3> of the current src/containers/grid/GridIndexMapping.cpp (translate/tr_C13_gridmap.py:
   symbolic execution; Eigen array expressions are read axis by axis; the float and double instantiations must give the
   same term).  The theorems below say that the generated terms ARE gm_origin / gm_ncells / gm_centre / gm_index /
   gm_sym_lo of GridMapModel.v, for every numeric dictionary N reading the literals 0, 1, 0.5 as the model's constants
   (LitOK N) — which ROps, B64Ops and B32Ops do: the object of the theorems over the reals above and of the Flocq theorems
   is the term generated from the source.  Proofs by computation: same operations in the same order.
   ==================================================================================================== *)
Theorem C13_source_tie_dictionaries : LitOK ROps /\ LitOK B64Ops /\ LitOK B32Ops.
Proof. exact (conj LitOK_R (conj LitOK_B64 LitOK_B32)). Qed.

(* the interval constructor: outputs (cell-centre tables as (size, fun n => centre n) per axis, cellResolution_,
   flooredMinimalPositionAlongAxes_, numberOfCellsAlongAxes_) *)
Theorem C13_source_tie_constructor_2d : forall (T : Type) (N : NumOps T), LitOK N -> forall r lo0 lo1 hi0 hi1,
  src_gm_ctor_2 N r lo0 lo1 hi0 hi1
  = ([(gm_ncells N r lo0 hi0, gm_centre N r (gm_origin N r lo0)); (gm_ncells N r lo1 hi1, gm_centre N r (gm_origin N r lo1))],
     r, [gm_origin N r lo0; gm_origin N r lo1], [gm_ncells N r lo0 hi0; gm_ncells N r lo1 hi1]).
Proof. exact @tie_ctor_2. Qed.

Theorem C13_source_tie_constructor_3d : forall (T : Type) (N : NumOps T), LitOK N -> forall r lo0 lo1 lo2 hi0 hi1 hi2,
  src_gm_ctor_3 N r lo0 lo1 lo2 hi0 hi1 hi2
  = ([(gm_ncells N r lo0 hi0, gm_centre N r (gm_origin N r lo0)); (gm_ncells N r lo1 hi1, gm_centre N r (gm_origin N r lo1));
      (gm_ncells N r lo2 hi2, gm_centre N r (gm_origin N r lo2))],
     r, [gm_origin N r lo0; gm_origin N r lo1; gm_origin N r lo2],
     [gm_ncells N r lo0 hi0; gm_ncells N r lo1 hi1; gm_ncells N r lo2 hi2]).
Proof. exact @tie_ctor_3. Qed.
Print Assumptions C13_source_tie_constructor_3d.

(* the (maximalRange, cellResolution) constructor delegates to the interval constructor on [-maximalRange, maximalRange]^DIM *)
Theorem C13_source_tie_symmetric_constructor : forall (T : Type) (N : NumOps T) R r,
  src_gm_symctor_2 N R r = src_gm_ctor_2 N r (gm_sym_lo N R) (gm_sym_lo N R) R R /\
  src_gm_symctor_3 N R r = src_gm_ctor_3 N r (gm_sym_lo N R) (gm_sym_lo N R) (gm_sym_lo N R) R R R.
Proof. intros T N R r. exact (conj (tie_symctor_2 N R r) (tie_symctor_3 N R r)). Qed.

(* computeCellIndexes *)
Theorem C13_source_tie_index : forall (T : Type) (N : NumOps T) r org0 org1 org2 p0 p1 p2,
  src_gm_index_2 N p0 p1 r org0 org1 = [gm_index N r org0 p0; gm_index N r org1 p1] /\
  src_gm_index_3 N p0 p1 p2 r org0 org1 org2 = [gm_index N r org0 p0; gm_index N r org1 p1; gm_index N r org2 p2].
Proof. intros. exact (conj (tie_index_2 N r org0 org1 p0 p1) (tie_index_3 N r org0 org1 org2 p0 p1 p2)). Qed.

(* computeCellCenterPosition on the tables the constructor built *)
Theorem C13_source_tie_centre_2d : forall (T : Type) (N : NumOps T), LitOK N -> forall r lo0 lo1 hi0 hi1 k0 k1,
  let tabs := tables_of (src_gm_ctor_2 N r lo0 lo1 hi0 hi1) in
  src_gm_centre_2 k0 k1 (snd (nth 0 tabs (0%Z, fun _ => nzero N))) (snd (nth 1 tabs (0%Z, fun _ => nzero N)))
  = [gm_centre N r (gm_origin N r lo0) k0; gm_centre N r (gm_origin N r lo1) k1].
Proof. exact @tie_ctor_centre_2. Qed.

Theorem C13_source_tie_centre_3d : forall (T : Type) (N : NumOps T), LitOK N -> forall r lo0 lo1 lo2 hi0 hi1 hi2 k0 k1 k2,
  let tabs := tables_of (src_gm_ctor_3 N r lo0 lo1 lo2 hi0 hi1 hi2) in
  src_gm_centre_3 k0 k1 k2 (snd (nth 0 tabs (0%Z, fun _ => nzero N))) (snd (nth 1 tabs (0%Z, fun _ => nzero N)))
                  (snd (nth 2 tabs (0%Z, fun _ => nzero N)))
  = [gm_centre N r (gm_origin N r lo0) k0; gm_centre N r (gm_origin N r lo1) k1; gm_centre N r (gm_origin N r lo2) k2].
Proof. exact @tie_ctor_centre_3. Qed.

(* the property itself, stated on the GENERATED terms in floating point: build the grid with the generated constructor, map a
   point of the extent with the generated computeCellIndexes fed with the constructor's outputs; every index is in bounds *)
Theorem C13_source_index_in_bounds_binary64 : forall r lo0 lo1 lo2 hi0 hi1 hi2 p0 p1 p2,
  gmf_domain r lo0 hi0 -> gmf_domain r lo1 hi1 -> gmf_domain r lo2 hi2 ->
  lo0 <= p0 <= hi0 -> lo1 <= p1 <= hi1 -> lo2 <= p2 <= hi2 ->
  let '(tabs, res, orgs, ns) := src_gm_ctor_3 B64Ops r lo0 lo1 lo2 hi0 hi1 hi2 in
  Forall2 (fun i n => (0 <= i < n)%Z) (src_gm_index_3 B64Ops p0 p1 p2 res (nth 0 orgs 0) (nth 1 orgs 0) (nth 2 orgs 0)) ns.
Proof. exact src_index_in_bounds_3_b64. Qed.

Theorem C13_source_index_in_bounds_binary64_2d : forall r lo0 lo1 hi0 hi1 p0 p1,
  gmf_domain r lo0 hi0 -> gmf_domain r lo1 hi1 -> lo0 <= p0 <= hi0 -> lo1 <= p1 <= hi1 ->
  let '(tabs, res, orgs, ns) := src_gm_ctor_2 B64Ops r lo0 lo1 hi0 hi1 in
  Forall2 (fun i n => (0 <= i < n)%Z) (src_gm_index_2 B64Ops p0 p1 res (nth 0 orgs 0) (nth 1 orgs 0)) ns.
Proof. exact src_index_in_bounds_2_b64. Qed.

Theorem C13_source_index_in_bounds_binary32 : forall r lo0 lo1 lo2 hi0 hi1 hi2 p0 p1 p2,
  gmf_domain32 r lo0 hi0 -> gmf_domain32 r lo1 hi1 -> gmf_domain32 r lo2 hi2 ->
  lo0 <= p0 <= hi0 -> lo1 <= p1 <= hi1 -> lo2 <= p2 <= hi2 ->
  let '(tabs, res, orgs, ns) := src_gm_ctor_3 B32Ops r lo0 lo1 lo2 hi0 hi1 hi2 in
  Forall2 (fun i n => (0 <= i < n)%Z) (src_gm_index_3 B32Ops p0 p1 p2 res (nth 0 orgs 0) (nth 1 orgs 0) (nth 2 orgs 0)) ns.
Proof. exact src_index_in_bounds_3_b32. Qed.

Theorem C13_source_index_in_bounds_binary32_2d : forall r lo0 lo1 hi0 hi1 p0 p1,
  gmf_domain32 r lo0 hi0 -> gmf_domain32 r lo1 hi1 -> lo0 <= p0 <= hi0 -> lo1 <= p1 <= hi1 ->
  let '(tabs, res, orgs, ns) := src_gm_ctor_2 B32Ops r lo0 lo1 hi0 hi1 in
  Forall2 (fun i n => (0 <= i < n)%Z) (src_gm_index_2 B32Ops p0 p1 res (nth 0 orgs 0) (nth 1 orgs 0)) ns.
Proof. exact src_index_in_bounds_2_b32. Qed.
Print Assumptions C13_source_index_in_bounds_binary32_2d.
