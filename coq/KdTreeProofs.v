(* KdTreeProofs.v — lemmas about KdTreeModel at the real-number instance ROps (C08). *)
From Coq Require Import Reals ZArith List Bool Arith Lia Lra Permutation Sorting.Sorted Sorting.Mergesort.
From Romea Require Import Num NumR KdTreeModel.
From Romea.gen Require Import RepoConstants.
Import ListNotations.
Local Open Scope R_scope.

Notation item := (R * nat)%type.

(* ------------------------------------------------------------------------------------------------ *)
(** * Part (a): the result set *)

(* worst first *)
Fixpoint desc (l : list item) : Prop :=
  match l with [] => True | x :: r => (forall y, In y r -> fst y <= fst x) /\ desc r end.
(* best first *)
Fixpoint asc (l : list item) : Prop :=
  match l with [] => True | x :: r => (forall y, In y r -> fst x <= fst y) /\ asc r end.

Lemma asc_app_one l x : asc l -> (forall y, In y l -> fst y <= fst x) -> asc (l ++ [x]).
Proof.
  induction l as [|a l IH]; simpl; intros Hl Hx.
  - split; [intros y []|exact I].
  - destruct Hl as [Ha Hl]. split.
    + intros y Hy. apply in_app_or in Hy. destruct Hy as [Hy|[<-|[]]]; [apply Ha, Hy|apply Hx; left; reflexivity].
    + apply IH; [exact Hl|]. intros y Hy. apply Hx. right. exact Hy.
Qed.

Lemma desc_rev_asc l : desc l -> asc (rev l).
Proof.
  induction l as [|a l IH]; simpl; intros H; [exact I|].
  destruct H as [Ha Hl]. apply asc_app_one; [apply IH, Hl|].
  intros y Hy. apply in_rev in Hy. apply Ha, Hy.
Qed.

Lemma asc_StronglySorted l : asc l -> StronglySorted (fun a b : item => fst a <= fst b) l.
Proof.
  induction l as [|a l IH]; simpl; intros H; constructor.
  - apply IH, H.
  - apply Forall_forall. intros y Hy. apply (proj1 H), Hy.
Qed.

(* [out] (worst first) holds the min(k, |L|) smallest entries of the multiset L *)
Definition ksm (k : nat) (L out : list item) : Prop :=
  desc out /\ length out = Nat.min k (length L) /\
  exists rest, Permutation L (out ++ rest) /\ forall x y, In x out -> In y rest -> fst x <= fst y.

Lemma ksm_perm k L L' out : Permutation L L' -> ksm k L out -> ksm k L' out.
Proof.
  intros HP (Hd & Hlen & rest & HPr & Hle). split; [exact Hd|]. split.
  - rewrite <- (Permutation_length HP). exact Hlen.
  - exists rest. split; [|exact Hle]. eapply Permutation_trans; [apply Permutation_sym, HP|exact HPr].
Qed.

Lemma ksm_nil k : ksm k [] [].
Proof.
  split; [exact I|]. split; [simpl; now rewrite Nat.min_0_r|].
  exists []. split; [constructor|intros x y []].
Qed.

Lemma ins_perm d i l : Permutation (ins ROps d i l) ((d, i) :: l).
Proof.
  induction l as [|[d' i'] r IH]; simpl; [apply Permutation_refl|].
  unfold ngtb. simpl. destruct (Rltb d d').
  - eapply Permutation_trans; [apply perm_skip, IH|apply perm_swap].
  - apply Permutation_refl.
Qed.

Lemma ins_length d i l : length (ins ROps d i l) = S (length l).
Proof. exact (Permutation_length (ins_perm d i l)). Qed.

Lemma ins_desc d i l : desc l -> desc (ins ROps d i l).
Proof.
  induction l as [|[d' i'] r IH]; simpl; intros H.
  - split; [intros y []|exact I].
  - destruct H as [Ha Hr]. unfold ngtb. simpl. destruct (Rltb d d') eqn:E.
    + apply Rltb_true in E. simpl. split; [|apply IH, Hr].
      intros y Hy. apply (Permutation_in _ (ins_perm d i r)) in Hy. destruct Hy as [<-|Hy]; [simpl; lra|apply Ha, Hy].
    + apply Rltb_false in E. simpl. split; [|split; [exact Ha|exact Hr]].
      intros y [<-|Hy]; [simpl; lra|]. specialize (Ha y Hy). simpl in Ha. lra.
Qed.

Lemma desc_tl l : desc l -> desc (tl l).
Proof. destruct l; simpl; [trivial|intros [_ H]; exact H]. Qed.

Section ResultSet.
Variable k : nat.
Hypothesis k_pos : (1 <= k)%nat.

Lemma addPoint_cap r d i : rs_cap (addPoint ROps r d i) = rs_cap r.
Proof. reflexivity. Qed.

Lemma addPoint_ksm r L d i :
  rs_cap r = k -> ksm k L (rs_rev r) -> ksm k ((d, i) :: L) (rs_rev (addPoint ROps r d i)).
Proof.
  intros Hcap (Hd & Hlen & rest & HP & Hle).
  unfold addPoint. cbn [rs_rev]. rewrite Hcap.
  set (l := rs_rev r) in *. set (l' := ins ROps d i l).
  assert (Hl' : Permutation l' ((d, i) :: l)) by apply ins_perm.
  assert (Hdl' : desc l') by (apply ins_desc, Hd).
  assert (Hlen' : length l' = S (length l)) by apply ins_length.
  destruct (k <? length l')%nat eqn:E.
  - apply Nat.ltb_lt in E.
    assert (Hk : length l = k) by lia.
    assert (HLk : (k <= length L)%nat) by lia.
    destruct l' as [|h t] eqn:El'; [simpl in Hlen'; lia|]. cbn [tl].
    split; [exact (proj2 Hdl')|]. split; [simpl in Hlen'; simpl; lia|].
    exists (h :: rest). split.
    + eapply Permutation_trans; [apply perm_skip, HP|].
      eapply Permutation_trans; [|apply Permutation_middle].
      change ((d, i) :: l ++ rest) with (((d, i) :: l) ++ rest).
      change (h :: t ++ rest) with ((h :: t) ++ rest).
      apply Permutation_app_tail, Permutation_sym, Hl'.
    + intros x y Hx Hy. destruct Hy as [<-|Hy]; [apply (proj1 Hdl'), Hx|].
      assert (Hx' : In x ((d, i) :: l)) by (apply (Permutation_in _ Hl'); right; exact Hx).
      destruct Hx' as [<-|Hx']; [|apply Hle; assumption].
      assert (Hh : In h ((d, i) :: l)) by (apply (Permutation_in _ Hl'); left; reflexivity).
      destruct Hh as [Hh|Hh].
      * subst h. apply Permutation_cons_inv in Hl'. apply Hle; [|exact Hy].
        apply (Permutation_in _ Hl'), Hx.
      * apply Rle_trans with (fst h); [apply (proj1 Hdl'), Hx|apply Hle; assumption].
  - apply Nat.ltb_ge in E.
    assert (HlL : length l = length L) by lia.
    assert (Hrest : rest = []).
    { apply Permutation_length in HP. rewrite app_length in HP. destruct rest; [reflexivity|simpl in HP; lia]. }
    subst rest. split; [exact Hdl'|]. split; [simpl; lia|].
    exists []. split; [|intros x y _ []].
    rewrite app_nil_r in *. eapply Permutation_trans; [apply perm_skip, HP|apply Permutation_sym, Hl'].
Qed.

(* not offering an entry that is no better than the current worst of a full set changes nothing *)
Lemma skip_ksm r L d i :
  rs_cap r = k -> ksm k L (rs_rev r) -> worstDist ROps r <= d -> d < nmaxval ROps ->
  ksm k ((d, i) :: L) (rs_rev r).
Proof.
  intros Hcap (Hd & Hlen & rest & HP & Hle) Hw Hmax.
  unfold worstDist, rs_full in Hw. rewrite Hcap in Hw.
  destruct (length (rs_rev r) =? k)%nat eqn:E; [|lra].
  apply Nat.eqb_eq in E.
  destruct (rs_rev r) as [|[h ih] t] eqn:El; [simpl in E; lia|].
  split; [exact Hd|]. split; [simpl in *; lia|].
  exists ((d, i) :: rest). split.
  - eapply Permutation_trans; [apply perm_skip, HP|apply Permutation_middle].
  - intros x y Hx [<-|Hy]; [|apply Hle; assumption].
    simpl. destruct Hx as [<-|Hx]; [simpl; exact Hw|].
    apply Rle_trans with h; [apply (proj1 Hd x Hx)|exact Hw].
Qed.

Lemma skip_list_ksm r L X :
  rs_cap r = k -> ksm k L (rs_rev r) ->
  (forall x, In x X -> worstDist ROps r <= fst x /\ fst x < nmaxval ROps) ->
  ksm k (X ++ L) (rs_rev r).
Proof.
  intros Hcap HL. induction X as [|[d i] X IH]; simpl; intros HX; [exact HL|].
  apply skip_ksm; [exact Hcap|apply IH; intros x Hx; apply HX; right; exact Hx| |];
    apply (HX (d, i)); left; reflexivity.
Qed.

(* a full set stays full and its worst distance does not grow *)
Lemma addPoint_full_worst r d i :
  rs_cap r = k -> desc (rs_rev r) -> length (rs_rev r) = k ->
  length (rs_rev (addPoint ROps r d i)) = k /\ worstDist ROps (addPoint ROps r d i) <= worstDist ROps r.
Proof.
  intros Hcap Hd Hlen.
  assert (Hfull : length (rs_rev (addPoint ROps r d i)) = k).
  { unfold addPoint. cbn [rs_rev]. rewrite Hcap, ins_length, Hlen.
    replace (k <? S k)%nat with true by (symmetry; apply Nat.ltb_lt; lia).
    destruct (ins ROps d i (rs_rev r)) eqn:E; [pose proof (ins_length d i (rs_rev r)) as X; rewrite E in X; simpl in X; lia|].
    pose proof (ins_length d i (rs_rev r)) as X. rewrite E in X. simpl in *. lia. }
  split; [exact Hfull|].
  unfold worstDist, rs_full. rewrite addPoint_cap, Hcap, Hfull, Hlen, Nat.eqb_refl.
  unfold addPoint. cbn [rs_rev]. rewrite Hcap, ins_length, Hlen.
  replace (k <? S k)%nat with true by (symmetry; apply Nat.ltb_lt; lia).
  destruct (rs_rev r) as [|[d0 i0] r0] eqn:El; [simpl in Hlen; lia|].
  simpl. unfold ngtb. simpl. destruct (Rltb d d0) eqn:E.
  - apply Rltb_true in E. simpl.
    destruct (ins ROps d i r0) as [|[d1 i1] t] eqn:Ei; [pose proof (ins_length d i r0) as X; rewrite Ei in X; simpl in X; lia|].
    assert (Hin : In (d1, i1) ((d, i) :: r0)).
    { apply (Permutation_in _ (ins_perm d i r0)). rewrite Ei. left. reflexivity. }
    destruct Hin as [Hin|Hin]; [inversion Hin; subst; lra|]. apply (proj1 Hd _ Hin).
  - simpl. lra.
Qed.

End ResultSet.

(* Theorem (a): after any sequence of addPoint on an initialised set of capacity k *)
Definition offer_all (k : nat) (offers : list item) : rset :=
  fold_left (fun r o => addPoint ROps r (fst o) (snd o)) offers (rs_init k).

Lemma offer_all_ksm k offers : (1 <= k)%nat ->
  rs_cap (offer_all k offers) = k /\ ksm k offers (rs_rev (offer_all k offers)).
Proof.
  intros Hk. unfold offer_all.
  assert (G : forall offers r L, rs_cap r = k -> ksm k L (rs_rev r) ->
            let r' := fold_left (fun r o => addPoint ROps r (fst o) (snd o)) offers r in
            rs_cap r' = k /\ ksm k (rev offers ++ L) (rs_rev r')).
  { induction offers0 as [|[d i] os IH]; intros r L Hc HL; simpl; [split; assumption|].
    specialize (IH (addPoint ROps r d i) ((d, i) :: L) Hc (addPoint_ksm k Hk r L d i Hc HL)).
    simpl in IH. destruct IH as [IH1 IH2]. split; [exact IH1|].
    rewrite <- app_assoc. exact IH2. }
  destruct (G offers (rs_init k) [] eq_refl (ksm_nil k)) as [G1 G2]. split; [exact G1|].
  rewrite app_nil_r in G2. eapply ksm_perm; [apply Permutation_sym, Permutation_rev|exact G2].
Qed.

(* the reading of [ksm] on the caller's side (ascending output) *)
Definition k_smallest_ascending (k : nat) (L out : list item) : Prop :=
  StronglySorted (fun a b : item => fst a <= fst b) out /\
  length out = Nat.min k (length L) /\
  exists rest, Permutation L (out ++ rest) /\ forall x y, In x out -> In y rest -> fst x <= fst y.

Lemma ksm_out k L l : ksm k L l -> k_smallest_ascending k L (rev l).
Proof.
  intros (Hd & Hlen & rest & HP & Hle). split; [apply asc_StronglySorted, desc_rev_asc, Hd|].
  split; [rewrite rev_length; exact Hlen|].
  exists rest. split.
  - eapply Permutation_trans; [exact HP|apply Permutation_app_tail, Permutation_rev].
  - intros x y Hx Hy. apply Hle; [apply in_rev, Hx|exact Hy].
Qed.

Lemma resultset_sorted_k_smallest k offers : (1 <= k)%nat ->
  k_smallest_ascending k offers (rs_out (offer_all k offers)).
Proof. intros Hk. apply ksm_out, offer_all_ksm, Hk. Qed.

(* ------------------------------------------------------------------------------------------------ *)
(** * Part (b): lower bounds *)

Fixpoint rsum (l : list R) : R := match l with [] => 0 | x :: r => x + rsum r end.

(* per-dimension lower bounds d of (q - p)^2, all three vectors of the same length *)
Fixpoint lbv (d q p : list R) : Prop :=
  match d, q, p with
  | [], [], [] => True
  | dj :: d', qj :: q', pj :: p' => dj <= (qj - pj) * (qj - pj) /\ lbv d' q' p'
  | _, _, _ => False
  end.

Lemma lbv_length d q p : lbv d q p -> length d = length q /\ length p = length q.
Proof.
  revert q p. induction d as [|dj d IH]; intros [|qj q] [|pj p]; simpl; try tauto.
  intros [_ H]. destruct (IH _ _ H). lia.
Qed.

Lemma sqdist_acc_spec acc a b : sqdist_acc ROps acc a b = acc + sqdist_acc ROps 0 a b.
Proof.
  revert acc b. induction a as [|x a IH]; intros acc [|y b]; simpl; try lra.
  rewrite IH. rewrite (IH (0 + _)). unfold nsq. simpl. lra.
Qed.

Lemma lbv_sum_le d q p : lbv d q p -> rsum d <= sqdist ROps q p.
Proof.
  unfold sqdist. simpl. revert q p. induction d as [|dj d IH]; intros [|qj q] [|pj p]; simpl; try tauto; try lra.
  intros [H1 H2]. rewrite sqdist_acc_spec. specialize (IH _ _ H2). unfold nsq. simpl. lra.
Qed.

Lemma rsum_set_nth i v l : (i < length l)%nat -> rsum (set_nth i v l) = rsum l + v - nth i l 0.
Proof.
  revert i. induction l as [|x l IH]; intros [|i]; simpl; intros H; try lia; try lra.
  rewrite IH by lia. lra.
Qed.

Lemma set_nth_length i (v : R) l : length (set_nth i v l) = length l.
Proof. revert i. induction l as [|x l IH]; intros [|i]; simpl; auto. Qed.

Lemma lbv_set_nth i v d q p :
  lbv d q p -> v <= (nth i q 0 - nth i p 0) * (nth i q 0 - nth i p 0) -> lbv (set_nth i v d) q p.
Proof.
  revert i q p. induction d as [|dj d IH]; intros i [|qj q] [|pj p]; simpl; try tauto;
    try (destruct i; simpl; tauto).
  intros [H1 H2] Hv. destruct i; simpl; [tauto|]. split; [exact H1|]. apply IH; assumption.
Qed.

Fixpoint in_box (p : list R) (bbox : list (R * R)) : Prop :=
  match p, bbox with
  | [], [] => True
  | x :: p', (lo, hi) :: b' => lo <= x <= hi /\ in_box p' b'
  | _, _ => False
  end.

Lemma in_box_length p b : in_box p b -> length p = length b.
Proof.
  revert b. induction p as [|x p IH]; intros [|[lo hi] b]; simpl; try tauto.
  intros [_ H]. rewrite (IH _ H). reflexivity.
Qed.

(* computeInitialDistances: distsq is the sum of the per-dimension entries, each a lower bound for every
   point of the root box *)
Lemma initial_distances_spec q bbox acc :
  length q = length bbox ->
  (exists p0, in_box p0 bbox) ->
  let '(s, ds) := initial_distances ROps q bbox acc in
  s = acc + rsum ds /\ length ds = length q /\ forall p, in_box p bbox -> lbv ds q p.
Proof.
  revert bbox acc. induction q as [|x q IH]; intros [|[lo hi] b] acc Hlen [p0 Hp0]; simpl in Hlen; try lia.
  - simpl. split; [lra|]. split; [reflexivity|]. intros [|? ?]; simpl; tauto.
  - destruct p0 as [|x0 p0]; [simpl in Hp0; tauto|]. simpl in Hp0. destruct Hp0 as [Hx0 Hp0].
    cbn [initial_distances]. unfold ngtb, accum_dist, nsq. simpl.
    specialize (IH b).
    destruct (Rltb x lo) eqn:E1; destruct (Rltb hi x) eqn:E2;
      try apply Rltb_true in E1; try apply Rltb_true in E2; try apply Rltb_false in E1; try apply Rltb_false in E2;
      try lra.
    + match goal with |- context [initial_distances ROps q b ?a] => specialize (IH a ltac:(lia) (ex_intro _ p0 Hp0)) end.
      destruct (initial_distances ROps q b _) as [s ds]. destruct IH as (I1 & I2 & I3).
      split; [simpl; lra|]. split; [simpl; lia|].
      intros [|y p]; simpl; [tauto|]. intros [Hy Hp]. split; [first [apply Rle_0_sqr|nra]|apply I3, Hp].
    + match goal with |- context [initial_distances ROps q b ?a] => specialize (IH a ltac:(lia) (ex_intro _ p0 Hp0)) end.
      destruct (initial_distances ROps q b _) as [s ds]. destruct IH as (I1 & I2 & I3).
      split; [simpl; lra|]. split; [simpl; lia|].
      intros [|y p]; simpl; [tauto|]. intros [Hy Hp]. split; [first [apply Rle_0_sqr|nra]|apply I3, Hp].
    + match goal with |- context [initial_distances ROps q b ?a] => specialize (IH a ltac:(lia) (ex_intro _ p0 Hp0)) end.
      destruct (initial_distances ROps q b _) as [s ds]. destruct IH as (I1 & I2 & I3).
      split; [simpl; lra|]. split; [simpl; lia|].
      intros [|y p]; simpl; [tauto|]. intros [Hy Hp]. split; [first [apply Rle_0_sqr|nra]|apply I3, Hp].
Qed.

(* ------------------------------------------------------------------------------------------------ *)
(** * Part (c): the search *)

Lemma worst_lt_full k r : (1 <= k)%nat -> rs_cap r = k -> worstDist ROps r < nmaxval ROps -> length (rs_rev r) = k.
Proof.
  intros Hk Hcap H. unfold worstDist, rs_full in H. rewrite Hcap in H.
  destruct (length (rs_rev r) =? k)%nat eqn:E; [apply Nat.eqb_eq, E|lra].
Qed.

Section SearchProofs.
Variable vind : list nat.
Variable pts : list (list R).
Variable q : list R.
Variable k : nat.
Hypothesis k_pos : (1 <= k)%nat.

(* the point stored at position [pos] of vind, and the (distance, index) pair the leaf loop offers *)
Definition P (pos : nat) : list R := point pts (vindex vind pos).
Definition item_at (pos : nat) : item := (sqdist ROps q (P pos), vindex vind pos).
Definition items (positions : list nat) : list item := map item_at positions.

Lemma leaf_loop_post : forall cnt i r L worst,
  rs_cap r = k -> ksm k L (rs_rev r) ->
  (worst < nmaxval ROps -> length (rs_rev r) = k /\ worstDist ROps r <= worst) ->
  (forall pos, In pos (seq i cnt) -> sqdist ROps q (P pos) < nmaxval ROps) ->
  let r' := leaf_loop ROps vind pts q worst cnt i r in
  rs_cap r' = k /\ ksm k (items (seq i cnt) ++ L) (rs_rev r').
Proof.
  induction cnt as [|cnt IH]; intros i r L worst Hcap HL Hw Hmax; simpl.
  - split; assumption.
  - assert (Hd : sqdist ROps q (P i) < nmaxval ROps) by (apply Hmax; left; reflexivity).
    fold (P i). destruct (Rltb (sqdist ROps q (P i)) worst) eqn:E.
    + apply Rltb_true in E.
      set (r2 := addPoint ROps r (sqdist ROps q (P i)) (vindex vind i)).
      assert (H2 : ksm k (item_at i :: L) (rs_rev r2)) by (apply addPoint_ksm; assumption).
      destruct (IH (S i) r2 (item_at i :: L) worst) as [I1 I2].
      * exact Hcap.
      * exact H2.
      * intros Hlt. destruct (Hw Hlt) as [Hf Hwd].
        destruct (addPoint_full_worst k k_pos r (sqdist ROps q (P i)) (vindex vind i) Hcap (proj1 HL) Hf) as [A1 A2].
        split; [exact A1|]. fold r2 in A2. lra.
      * intros pos Hpos. apply Hmax. right. exact Hpos.
      * split; [exact I1|]. eapply ksm_perm; [|exact I2].
        apply Permutation_sym. apply Permutation_middle.
    + apply Rltb_false in E.
      assert (Hlt : worst < nmaxval ROps) by lra. destruct (Hw Hlt) as [Hf Hwd].
      assert (H2 : ksm k (item_at i :: L) (rs_rev r)) by (apply skip_ksm; try assumption; lra).
      destruct (IH (S i) r (item_at i :: L) worst Hcap H2 Hw) as [I1 I2].
      * intros pos Hpos. apply Hmax. right. exact Hpos.
      * split; [exact I1|]. eapply ksm_perm; [|exact I2].
        apply Permutation_sym. apply Permutation_middle.
Qed.

(* the node invariant of the built tree *)
Fixpoint splits_ok (dim : nat) (nd : node) : Prop :=
  match nd with
  | Leaf _ _ => True
  | Split f lo hi c1 c2 =>
      (f < dim)%nat /\ lo <= hi /\
      (forall pos, In pos (node_positions c1) -> coord ROps (P pos) f <= lo) /\
      (forall pos, In pos (node_positions c2) -> hi <= coord ROps (P pos) f) /\
      splits_ok dim c1 /\ splits_ok dim c2
  end.

(* what holds at every call searchLevel(node, mindistsq, dists): mindistsq is the sum of dists, and each
   dists[j] is a lower bound of (q_j - p_j)^2 for every point p under the node *)
Definition Inv (nd : node (T:=R)) (m : R) (d : list R) : Prop :=
  m = rsum d /\ length d = length q /\ forall pos, In pos (node_positions nd) -> lbv d q (P pos).

Lemma Inv_lower_bound nd m d : Inv nd m d ->
  forall pos, In pos (node_positions nd) -> m <= sqdist ROps q (P pos).
Proof. intros (-> & _ & H) pos Hpos. apply lbv_sum_le, H, Hpos. Qed.

Lemma Inv_child1 f lo hi c1 c2 m d : Inv (Split f lo hi c1 c2) m d -> Inv c1 m d.
Proof. intros (A & B & C). repeat split; try assumption. intros pos Hp. apply C. simpl. apply in_or_app. left; exact Hp. Qed.
Lemma Inv_child2 f lo hi c1 c2 m d : Inv (Split f lo hi c1 c2) m d -> Inv c2 m d.
Proof. intros (A & B & C). repeat split; try assumption. intros pos Hp. apply C. simpl. apply in_or_app. right; exact Hp. Qed.

Lemma Inv_far_child2 dim f lo hi c1 c2 m d :
  length q = dim -> splits_ok dim (Split f lo hi c1 c2) -> Inv (Split f lo hi c1 c2) m d ->
  (nth f q 0 - lo) + (nth f q 0 - hi) < 0 ->
  Inv c2 (m + (nth f q 0 - hi) * (nth f q 0 - hi) - nth f d 0) (set_nth f ((nth f q 0 - hi) * (nth f q 0 - hi)) d).
Proof.
  intros Hq (Hf & Hlh & H1 & H2 & _ & _) (Hm & Hlen & Hlb) Hside.
  split; [|split].
  - rewrite rsum_set_nth by lia. lra.
  - rewrite set_nth_length. exact Hlen.
  - intros pos Hpos. apply lbv_set_nth; [apply Hlb; simpl; apply in_or_app; right; exact Hpos|].
    specialize (H2 pos Hpos). unfold coord in H2. simpl in H2.
    set (a := nth f q 0) in *. set (b := nth f (P pos) 0) in *.
    assert (0 <= (b - hi) * (b + hi - 2 * a)) by (apply Rmult_le_pos; lra). nra.
Qed.

Lemma Inv_far_child1 dim f lo hi c1 c2 m d :
  length q = dim -> splits_ok dim (Split f lo hi c1 c2) -> Inv (Split f lo hi c1 c2) m d ->
  0 <= (nth f q 0 - lo) + (nth f q 0 - hi) ->
  Inv c1 (m + (nth f q 0 - lo) * (nth f q 0 - lo) - nth f d 0) (set_nth f ((nth f q 0 - lo) * (nth f q 0 - lo)) d).
Proof.
  intros Hq (Hf & Hlh & H1 & H2 & _ & _) (Hm & Hlen & Hlb) Hside.
  split; [|split].
  - rewrite rsum_set_nth by lia. lra.
  - rewrite set_nth_length. exact Hlen.
  - intros pos Hpos. apply lbv_set_nth; [apply Hlb; simpl; apply in_or_app; left; exact Hpos|].
    specialize (H1 pos Hpos). unfold coord in H1. simpl in H1.
    set (a := nth f q 0) in *. set (b := nth f (P pos) 0) in *.
    assert (0 <= (lo - b) * (2 * a - lo - b)) by (apply Rmult_le_pos; lra). nra.
Qed.

Lemma items_app a b : items (a ++ b) = items a ++ items b.
Proof. apply map_app. Qed.

Lemma searchLevel_post dim eps : length q = dim -> eps = 1 -> forall nd m d r L,
  splits_ok dim nd -> Inv nd m d ->
  (forall pos, In pos (node_positions nd) -> sqdist ROps q (P pos) < nmaxval ROps) ->
  rs_cap r = k -> ksm k L (rs_rev r) ->
  let r' := searchLevel ROps vind pts q eps nd m d r in
  rs_cap r' = k /\ ksm k (items (node_positions nd) ++ L) (rs_rev r').
Proof.
  intros Hq Heps. induction nd as [l rgt|f lo hi c1 IH1 c2 IH2]; intros m d r L Hok HInv Hmax Hcap HL.
  - cbn [searchLevel node_positions]. apply leaf_loop_post; try assumption.
    intros Hlt. split; [apply worst_lt_full; assumption|lra].
  - cbn [searchLevel]. unfold accum_dist, nsq, coord. cbn [nsub nadd nzero nltb nmul ROps].
    assert (Hok' := Hok). destruct Hok' as (Hf & Hlh & H1 & H2 & Hok1 & Hok2).
    assert (Hmax1 : forall pos, In pos (node_positions c1) -> sqdist ROps q (P pos) < nmaxval ROps)
      by (intros pos Hp; apply Hmax; simpl; apply in_or_app; left; exact Hp).
    assert (Hmax2 : forall pos, In pos (node_positions c2) -> sqdist ROps q (P pos) < nmaxval ROps)
      by (intros pos Hp; apply Hmax; simpl; apply in_or_app; right; exact Hp).
    destruct (Rltb (nth f q 0 - lo + (nth f q 0 - hi)) 0) eqn:E.
    + apply Rltb_true in E.
      destruct (IH1 m d r L Hok1 (Inv_child1 _ _ _ _ _ _ _ HInv) Hmax1 Hcap HL) as [C1 K1].
      set (r1 := searchLevel ROps vind pts q eps c1 m d r) in *.
      pose proof (Inv_far_child2 dim f lo hi c1 c2 m d Hq Hok HInv E) as HI2.
      unfold far_step, coord. cbn [nsub nadd nzero nleb nmul ROps]. subst eps.
      cbn [node_positions]. rewrite items_app.
      destruct (Rleb _ (worstDist ROps r1)) eqn:E2.
      * destruct (IH2 _ _ r1 _ Hok2 HI2 Hmax2 C1 K1) as [C2 K2].
        split; [exact C2|]. eapply ksm_perm; [|exact K2].
        rewrite <- app_assoc. apply Permutation_app_swap_app.
      * apply Rleb_false in E2. split; [exact C1|].
        eapply ksm_perm; [|apply (skip_list_ksm k k_pos r1 (items (node_positions c1) ++ L) (items (node_positions c2)) C1 K1)].
        { rewrite <- app_assoc. apply Permutation_app_swap_app. }
        intros x Hx. unfold items in Hx. apply in_map_iff in Hx. destruct Hx as (pos & <- & Hpos).
        simpl. split; [|apply Hmax2, Hpos].
        pose proof (Inv_lower_bound _ _ _ HI2 pos Hpos). lra.
    + apply Rltb_false in E.
      destruct (IH2 m d r L Hok2 (Inv_child2 _ _ _ _ _ _ _ HInv) Hmax2 Hcap HL) as [C1 K1].
      set (r1 := searchLevel ROps vind pts q eps c2 m d r) in *.
      pose proof (Inv_far_child1 dim f lo hi c1 c2 m d Hq Hok HInv E) as HI1.
      unfold far_step, coord. cbn [nsub nadd nzero nleb nmul ROps]. subst eps.
      cbn [node_positions]. rewrite items_app.
      destruct (Rleb _ (worstDist ROps r1)) eqn:E2.
      * destruct (IH1 _ _ r1 _ Hok1 HI1 Hmax1 C1 K1) as [C2 K2].
        split; [exact C2|]. rewrite <- app_assoc. exact K2.
      * apply Rleb_false in E2. split; [exact C1|]. rewrite <- app_assoc.
        apply (skip_list_ksm k k_pos r1 (items (node_positions c2) ++ L) (items (node_positions c1)) C1 K1).
        intros x Hx. unfold items in Hx. apply in_map_iff in Hx. destruct Hx as (pos & <- & Hpos).
        simpl. split; [|apply Hmax1, Hpos].
        pose proof (Inv_lower_bound _ _ _ HI1 pos Hpos). lra.
Qed.

(* Theorem (b) in the form "at every call": the calls searchLevel can make below a call that meets Inv *)
Inductive called : node (T:=R) -> R -> list R -> node (T:=R) -> R -> list R -> Prop :=
  | called_here nd m d : called nd m d nd m d
  | called_near_1 nd0 m0 d0 f lo hi c1 c2 m d :
      called nd0 m0 d0 (Split f lo hi c1 c2) m d -> (nth f q 0 - lo) + (nth f q 0 - hi) < 0 ->
      called nd0 m0 d0 c1 m d
  | called_far_2 nd0 m0 d0 f lo hi c1 c2 m d :
      called nd0 m0 d0 (Split f lo hi c1 c2) m d -> (nth f q 0 - lo) + (nth f q 0 - hi) < 0 ->
      called nd0 m0 d0 c2 (m + (nth f q 0 - hi) * (nth f q 0 - hi) - nth f d 0)
             (set_nth f ((nth f q 0 - hi) * (nth f q 0 - hi)) d)
  | called_near_2 nd0 m0 d0 f lo hi c1 c2 m d :
      called nd0 m0 d0 (Split f lo hi c1 c2) m d -> 0 <= (nth f q 0 - lo) + (nth f q 0 - hi) ->
      called nd0 m0 d0 c2 m d
  | called_far_1 nd0 m0 d0 f lo hi c1 c2 m d :
      called nd0 m0 d0 (Split f lo hi c1 c2) m d -> 0 <= (nth f q 0 - lo) + (nth f q 0 - hi) ->
      called nd0 m0 d0 c1 (m + (nth f q 0 - lo) * (nth f q 0 - lo) - nth f d 0)
             (set_nth f ((nth f q 0 - lo) * (nth f q 0 - lo)) d).

Lemma called_Inv dim nd0 m0 d0 nd m d :
  length q = dim -> called nd0 m0 d0 nd m d -> splits_ok dim nd0 -> Inv nd0 m0 d0 ->
  splits_ok dim nd /\ Inv nd m d.
Proof.
  intros Hq H. induction H; intros Hok HI.
  - split; assumption.
  - destruct (IHcalled Hok HI) as [A B]. split; [apply A|eapply Inv_child1, B].
  - destruct (IHcalled Hok HI) as [A B]. split; [apply A|eapply Inv_far_child2; eassumption].
  - destruct (IHcalled Hok HI) as [A B]. split; [apply A|eapply Inv_child2, B].
  - destruct (IHcalled Hok HI) as [A B]. split; [apply A|eapply Inv_far_child1; eassumption].
Qed.

End SearchProofs.

(* ------------------------------------------------------------------------------------------------ *)
(** * The invariant of the built tree, its boolean checker, and the top-level theorems *)

Record tree_ok (dim : nat) (t : kdtree (T:=R)) : Prop := {
  ok_nonempty : (1 <= length (kd_pts t))%nat;
  ok_leaves : node_positions (kd_root t) = seq 0 (length (kd_pts t));     (* leaves partition the positions *)
  ok_vind : Permutation (kd_vind t) (seq 0 (length (kd_pts t)));           (* vind is a permutation *)
  ok_bbox_len : length (kd_bbox t) = dim;
  ok_in_box : forall p, In p (kd_pts t) -> in_box p (kd_bbox t);           (* root box contains all points *)
  ok_splits : splits_ok (kd_vind t) (kd_pts t) dim (kd_root t)             (* left <= divlow <= divhigh <= right *)
}.

Lemma list_nat_eqb_eq a b : list_nat_eqb a b = true -> a = b.
Proof.
  revert b. induction a as [|x a IH]; intros [|y b]; simpl; try discriminate; [reflexivity|].
  intros H. apply andb_prop in H. destruct H as [H1 H2]. apply Nat.eqb_eq in H1. subst. f_equal. apply IH, H2.
Qed.

Lemma in_box_b_sound p b : in_box_b ROps p b = true -> in_box p b.
Proof.
  revert b. induction p as [|x p IH]; intros [|[lo hi] b]; simpl; try discriminate; [trivial|].
  intros H. apply andb_prop in H. destruct H as [H H3]. apply andb_prop in H. destruct H as [H1 H2].
  apply Rleb_true in H1. apply Rleb_true in H2. split; [lra|apply IH, H3].
Qed.

Lemma splits_ok_b_sound vind pts dim nd : splits_ok_b ROps vind pts dim nd = true -> splits_ok vind pts dim nd.
Proof.
  induction nd as [l r|f lo hi c1 IH1 c2 IH2]; simpl; [trivial|].
  intros H. repeat (apply andb_prop in H; let H' := fresh "H" in destruct H as [H H']).
  apply Nat.ltb_lt in H. apply Rleb_true in H4.
  rewrite forallb_forall in H3, H2.
  repeat split; try assumption.
  - intros pos Hp. specialize (H3 pos Hp). apply Rleb_true in H3. exact H3.
  - intros pos Hp. specialize (H2 pos Hp). apply Rleb_true in H2. exact H2.
  - apply IH1, H1.
  - apply IH2, H0.
Qed.

Lemma tree_ok_b_sound dim t : tree_ok_b ROps dim t = true -> tree_ok dim t.
Proof.
  unfold tree_ok_b. intros H.
  repeat (apply andb_prop in H; let H' := fresh "H" in destruct H as [H H']).
  constructor.
  - apply Nat.leb_le, H.
  - apply list_nat_eqb_eq, H4.
  - apply list_nat_eqb_eq in H3. rewrite <- H3. apply NatSort.Permuted_sort.
  - apply Nat.eqb_eq, H2.
  - intros p Hp. rewrite forallb_forall in H1. apply in_box_b_sound, H1, Hp.
  - apply splits_ok_b_sound, H0.
Qed.

Lemma map_nth_seq (l : list nat) : map (fun i => nth i l 0%nat) (seq 0 (length l)) = l.
Proof.
  induction l as [|x l IH]; simpl; [reflexivity|]. f_equal.
  rewrite <- seq_shift, map_map. exact IH.
Qed.

(* all (squared distance, index) pairs of the data set *)
Definition all_pairs (t : kdtree (T:=R)) (q : list R) : list item :=
  map (fun j => (sqdist ROps q (point (kd_pts t) j), j)) (seq 0 (length (kd_pts t))).

Lemma eps_error_one : eps_error ROps = 1.
Proof. unfold eps_error, nanoflann_search_eps. simpl. lra. Qed.

Lemma NoDup_app_left {A} (a b : list A) : NoDup (a ++ b) -> NoDup a.
Proof.
  induction a as [|x a IH]; simpl; intros H; [constructor|]. inversion H as [|? ? H1 H2]; subst.
  constructor; [intro Hin; apply H1, in_or_app; left; exact Hin|apply IH, H2].
Qed.

Lemma findNeighbors_unfold (t : kdtree (T:=R)) q k : (1 <= length (kd_pts t))%nat ->
  findNeighbors ROps t q k =
  let '(distsq, dists) := initial_distances ROps q (kd_bbox t) 0 in
  searchLevel ROps (kd_vind t) (kd_pts t) q (eps_error ROps) (kd_root t) distsq dists (rs_init k).
Proof. unfold findNeighbors. destruct (kd_pts t); simpl; [lia|reflexivity]. Qed.

Section TopLevel.
Variable dim : nat.
Variable t : kdtree (T:=R).
Variable q : list R.
Hypothesis Hok : tree_ok dim t.
Hypothesis Hq : length q = dim.

Let n := length (kd_pts t).

Lemma vindex_lt pos : (pos < n)%nat -> (vindex (kd_vind t) pos < n)%nat.
Proof.
  intros Hpos. pose proof (ok_vind _ _ Hok) as HP. fold n in HP.
  assert (Hl : length (kd_vind t) = n) by (rewrite (Permutation_length HP); apply seq_length).
  assert (Hin : In (vindex (kd_vind t) pos) (kd_vind t)) by (apply nth_In; lia).
  apply (Permutation_in _ HP) in Hin. apply in_seq in Hin. lia.
Qed.

Lemma root_positions pos : In pos (node_positions (kd_root t)) -> (pos < n)%nat.
Proof. rewrite (ok_leaves _ _ Hok). intros H. apply in_seq in H. fold n in H. lia. Qed.

Lemma P_in_pts pos : (pos < n)%nat -> In (P (kd_vind t) (kd_pts t) pos) (kd_pts t).
Proof. intros H. unfold P, point. apply nth_In. apply vindex_lt, H. Qed.

Lemma root_call :
  let '(distsq, dists) := initial_distances ROps q (kd_bbox t) 0 in
  Inv (kd_vind t) (kd_pts t) q (kd_root t) distsq dists.
Proof.
  pose proof (ok_nonempty _ _ Hok) as Hne.
  assert (Hp0 : exists p0, in_box p0 (kd_bbox t)).
  { destruct (kd_pts t) as [|p0 ps] eqn:E; [simpl in Hne; lia|]. exists p0. apply (ok_in_box _ _ Hok). rewrite E. left. reflexivity. }
  pose proof (initial_distances_spec q (kd_bbox t) 0 ltac:(rewrite (ok_bbox_len _ _ Hok); exact Hq) Hp0) as H.
  destruct (initial_distances ROps q (kd_bbox t) 0) as [s ds]. destruct H as (H1 & H2 & H3).
  split; [lra|]. split; [exact H2|].
  intros pos Hpos. apply H3. apply (ok_in_box _ _ Hok). apply P_in_pts, root_positions, Hpos.
Qed.

Lemma items_root :
  Permutation (items (kd_vind t) (kd_pts t) q (node_positions (kd_root t))) (all_pairs t q).
Proof.
  rewrite (ok_leaves _ _ Hok). unfold items, item_at, P, all_pairs. fold n.
  pose proof (ok_vind _ _ Hok) as HP. fold n in HP.
  assert (Hl : length (kd_vind t) = n) by (rewrite (Permutation_length HP); apply seq_length).
  rewrite <- (map_map (vindex (kd_vind t)) (fun j => (sqdist ROps q (point (kd_pts t) j), j))).
  apply Permutation_map. unfold vindex. rewrite <- Hl, map_nth_seq, Hl. exact HP.
Qed.

(* Theorem (b) at the top level: at every call searchLevel can make during findNeighbors, mindistsq is a
   lower bound of the squared distance to every point stored under the node *)
Lemma search_lower_bound_invariant :
  let '(distsq, dists) := initial_distances ROps q (kd_bbox t) 0 in
  forall nd m d, called q (kd_root t) distsq dists nd m d ->
    m = rsum d /\
    forall pos, In pos (node_positions nd) ->
      m <= sqdist ROps q (point (kd_pts t) (vindex (kd_vind t) pos)).
Proof.
  pose proof root_call as HI. destruct (initial_distances ROps q (kd_bbox t) 0) as [s ds].
  intros nd m d Hc.
  destruct (called_Inv (kd_vind t) (kd_pts t) q 1%nat (le_n 1) dim _ _ _ _ _ _ Hq Hc (ok_splits _ _ Hok) HI) as [_ HInv].
  split; [apply HInv|]. intros pos Hpos. apply (Inv_lower_bound _ _ _ _ _ _ HInv pos Hpos).
Qed.

(* no overflow: every squared distance is below numeric_limits::max() *)
Hypothesis Hmax : forall j, (j < length (kd_pts t))%nat -> sqdist ROps q (point (kd_pts t) j) < nmaxval ROps.

Lemma findNeighbors_post k : (1 <= k)%nat ->
  ksm k (all_pairs t q) (rs_rev (findNeighbors ROps t q k)).
Proof.
  intros Hk. rewrite findNeighbors_unfold by exact (ok_nonempty _ _ Hok).
  pose proof root_call as HI. destruct (initial_distances ROps q (kd_bbox t) 0) as [s ds].
  destruct (searchLevel_post (kd_vind t) (kd_pts t) q k Hk dim (eps_error ROps) Hq eps_error_one
              (kd_root t) s ds (rs_init k) [] (ok_splits _ _ Hok) HI) as [_ K].
  - intros pos Hpos. apply Hmax. apply vindex_lt, root_positions, Hpos.
  - reflexivity.
  - apply ksm_nil.
  - rewrite app_nil_r in K. eapply ksm_perm; [apply items_root|exact K].
Qed.

(* Theorem (c) *)
Lemma knn_correct k : (1 <= k)%nat -> k_smallest_ascending k (all_pairs t q) (knn ROps t q k).
Proof. intros Hk. unfold knn, rs_out. apply ksm_out, findNeighbors_post, Hk. Qed.

(* each reported pair is (squared distance of the indexed point, a valid index) *)
Lemma knn_pairs_genuine k : (1 <= k)%nat ->
  Forall (fun di : item => (snd di < n)%nat /\ fst di = sqdist ROps q (point (kd_pts t) (snd di))) (knn ROps t q k).
Proof.
  intros Hk. destruct (knn_correct k Hk) as (_ & _ & rest & HP & _).
  apply Forall_forall. intros x Hx.
  assert (Hin : In x (all_pairs t q)) by (apply (Permutation_in _ (Permutation_sym HP)), in_or_app; left; exact Hx).
  unfold all_pairs in Hin. apply in_map_iff in Hin. destruct Hin as (j & <- & Hj). apply in_seq in Hj.
  simpl. split; [fold n in Hj; lia|reflexivity].
Qed.

Lemma knn_indices_distinct k : (1 <= k)%nat -> NoDup (map snd (knn ROps t q k)).
Proof.
  intros Hk. destruct (knn_correct k Hk) as (_ & _ & rest & HP & _).
  assert (HN : NoDup (map snd (all_pairs t q))).
  { unfold all_pairs. rewrite map_map. simpl. rewrite map_id. apply seq_NoDup. }
  apply (Permutation_NoDup (Permutation_map snd HP)) in HN. rewrite map_app in HN.
  apply NoDup_app_left in HN. exact HN.
Qed.

(* k = 1 : the nearest-neighbour query *)
Lemma nn_correct :
  exists d i, nn ROps t q = Some (d, i) /\ (i < n)%nat /\ d = sqdist ROps q (point (kd_pts t) i) /\
              forall j, (j < n)%nat -> d <= sqdist ROps q (point (kd_pts t) j).
Proof.
  pose proof (knn_correct 1 (le_n 1)) as (Hs & Hlen & rest & HP & Hle).
  pose proof (knn_pairs_genuine 1 (le_n 1)) as Hg.
  pose proof (ok_nonempty _ _ Hok) as Hne.
  unfold nn. assert (Hl : length (all_pairs t q) = n) by (unfold all_pairs; rewrite map_length, seq_length; reflexivity).
  rewrite Hl in Hlen. fold n in Hne.
  destruct (knn ROps t q 1) as [|[d i] tl0] eqn:E; [cbn [length] in Hlen; lia|].
  destruct tl0; [|cbn [length] in Hlen; lia].
  exists d, i. split; [reflexivity|].
  inversion Hg as [|? ? [G1 G2] _]; subst. simpl in G1, G2. split; [exact G1|]. split; [exact G2|].
  intros j Hj.
  assert (Hin : In (sqdist ROps q (point (kd_pts t) j), j) (all_pairs t q)).
  { unfold all_pairs. apply in_map_iff. exists j. split; [reflexivity|]. apply in_seq. fold n. lia. }
  apply (Permutation_in _ HP) in Hin. simpl in Hin. destruct Hin as [Hin|Hin].
  - inversion Hin. lra.
  - apply (Hle (d, i) _ (or_introl eq_refl) Hin).
Qed.

End TopLevel.

(* numeric_limits::max() is large: used by the non-vacuity examples *)
Lemma maxval_big : 8 <= nmaxval ROps.
Proof.
  cbn [nmaxval ROps]. unfold powerRZ.
  assert (H1 : 8 <= 2 ^ Pos.to_nat 1023).
  { replace (Pos.to_nat 1023) with (3 + 1020)%nat by reflexivity. rewrite pow_add.
    assert (A : 1 <= 2 ^ 1020) by (apply pow_R1_Rle; lra).
    assert (B : 2 ^ 3 = 8) by (simpl; lra). rewrite B. lra. }
  assert (H2 : / 2 ^ Pos.to_nat 52 <= 1).
  { assert (A : 1 <= 2 ^ Pos.to_nat 52) by (apply pow_R1_Rle; lra).
    rewrite <- Rinv_1. apply Rinv_le_contravar; lra. }
  set (a := / 2 ^ Pos.to_nat 52) in *. set (b := 2 ^ Pos.to_nat 1023) in *.
  assert (0 <= (1 - a) * b) by (apply Rmult_le_pos; lra). lra.
Qed.
