(* LsWeighted.v — the weighted path of the LeastSquares model (LsModel.v), real-number instance.
   C++: weightedEstimate() = weightJAndY_(); estimateUsingCholeskyDecomposition().
   weightJAndY_ multiplies, IN PLACE, entry r of Y_ and row r of J_ (r < dataSize_) by W_(r): the weights enter
   the residual linearly (not as square roots, not squared), so the cost that is minimised is
       sum_{r<n} (w_r * ((J x)_r - Y_r))^2          (normal equations  J^T W^2 (J x - Y) = 0).
   1. [weight_J] / [weight_Y] : the row-scaling identity of the model's [ls_weight], for EVERY state (no shape
      hypothesis is needed: outside the buffers both sides are the default 0).
   2. [ls_weighted_correct] : under the inverse contract for the weighted normal matrix, the value returned by
      [ls_weighted_estimate] is A z + b where z solves the weighted normal equations and is the unique global
      minimiser of the weighted cost; the state left behind holds the scaled rows (in-place effect).
   3. [ls_weighted_twice] : characterisation of that in-place effect: a second weightedEstimate on the same object
      (rows not rewritten) minimises sum (w_r^2 r_r)^2. *)
From Coq Require Import Reals List Arith Lia Lra Bool Psatz.
From Romea Require Import Num NumR LinAlgBModel LinAlgBProofs LsModel LsProofs LsHistoryProofs.
Import ListNotations.
Local Open Scope R_scope.

(* ---------------- weighted cost and gradient, function view ---------------- *)
Section WeightedR.
Variables (n k : nat) (J : nat -> nat -> R) (Y w : nat -> R).

(* sum_r (w_r * r_r)^2 with r = J x - Y *)
Definition wcost (x : nat -> R) : R :=
  Rsum n (fun r => (w r * (Jx k J x r - Y r)) * (w r * (Jx k J x r - Y r))).
(* (J^T W^2 (J x - Y))_a *)
Definition wgrad (x : nat -> R) (a : nat) : R :=
  Rsum n (fun r => (w r * w r) * J r a * (Jx k J x r - Y r)).
(* (J^T W^2 J)_{ij} *)
Definition wnM (i j : nat) : R := Rsum n (fun r => (w r * w r) * (J r i * J r j)).

Variables (J' : nat -> nat -> R) (Y' : nat -> R).
Hypothesis HJ : forall r a, (r < n)%nat -> J' r a = J r a * w r.
Hypothesis HY : forall r, (r < n)%nat -> Y' r = Y r * w r.

Lemma Jx_scaled x r : (r < n)%nat -> Jx k J' x r = w r * Jx k J x r.
Proof.
  intros Hr. unfold Jx. rewrite <- Rsum_scal_l. apply Rsum_ext. intros c _. rewrite HJ by exact Hr. ring.
Qed.

Lemma cost_scaled x : cost n k J' Y' x = wcost x.
Proof.
  unfold cost, wcost. apply Rsum_ext. intros r Hr. rewrite Jx_scaled, HY by exact Hr. ring.
Qed.

Lemma grad_scaled x a : grad n k J' Y' x a = wgrad x a.
Proof.
  unfold grad, wgrad. apply Rsum_ext. intros r Hr. rewrite Jx_scaled, HY, HJ by exact Hr. ring.
Qed.

Lemma nM_scaled i j : nM n J' i j = wnM i j.
Proof. unfold nM, wnM. apply Rsum_ext. intros r Hr. rewrite !HJ by exact Hr. ring. Qed.

(* with non-zero weights the scaled matrix has the same kernel, i.e. full column rank is preserved *)
Lemma kernel_scaled z : (forall r, (r < n)%nat -> w r <> 0) ->
  ((forall r, (r < n)%nat -> Jx k J' z r = 0) <-> (forall r, (r < n)%nat -> Jx k J z r = 0)).
Proof.
  intros Hw. split; intros H r Hr.
  - specialize (H r Hr). rewrite Jx_scaled in H by exact Hr. specialize (Hw r Hr).
    apply Rmult_integral in H. tauto.
  - rewrite Jx_scaled, H by exact Hr. ring.
Qed.

End WeightedR.

(* ---------------- 1. the row-scaling identity of [ls_weight] ---------------- *)
Lemma nth_map_R0 (g : R -> R) l a : g 0 = 0 -> nth a (map g l) 0 = g (nth a l 0).
Proof. intros H. rewrite <- H at 1. apply map_nth. Qed.

Lemma nth_nil_R a : nth a (@nil R) 0 = 0.
Proof. destruct a; reflexivity. Qed.

(* the scalar fields are untouched *)
Lemma weight_fields (s : ls_state (T:=R)) :
  ls_n (ls_weight ROps s) = ls_n s /\ ls_k (ls_weight ROps s) = ls_k s /\ ls_A (ls_weight ROps s) = ls_A s /\
  ls_b (ls_weight ROps s) = ls_b s /\ ls_jcols (ls_weight ROps s) = ls_jcols s /\ ls_W (ls_weight ROps s) = ls_W s /\
  ls_inv (ls_weight ROps s) = ls_inv s.
Proof. repeat split. Qed.

(* row r < dataSize of J_ is multiplied by W_(r), every column; rows r >= dataSize are untouched *)
Lemma weight_J (s : ls_state (T:=R)) r a :
  Jf (ls_weight ROps s) r a = if Nat.ltb r (ls_n s) then Jf s r a * Wf s r else Jf s r a.
Proof.
  unfold Jf, Wf, mget, ls_weight. cbn [ls_J ls_n ls_W]. rsimpl.
  destruct (Nat.lt_ge_cases r (length (ls_J s))) as [Hr|Hr].
  - rewrite (nth_map_indexed _ (ls_J s) r [] []) by exact Hr.
    destruct (Nat.ltb r (ls_n s)); [|reflexivity].
    apply (nth_map_R0 (fun x => x * vget ROps (ls_W s) r)). ring.
  - rewrite (nth_overflow (map _ _)) by (rewrite map_length, combine_length, seq_length, Nat.min_id; exact Hr).
    rewrite (nth_overflow (ls_J s)) by exact Hr. rewrite nth_nil_R.
    destruct (Nat.ltb r (ls_n s)); lra.
Qed.

Lemma weight_Y (s : ls_state (T:=R)) r :
  Yf (ls_weight ROps s) r = if Nat.ltb r (ls_n s) then Yf s r * Wf s r else Yf s r.
Proof.
  unfold Yf, Wf, vget, ls_weight. cbn [ls_Y ls_n ls_W]. rsimpl.
  destruct (Nat.lt_ge_cases r (length (ls_Y s))) as [Hr|Hr].
  - rewrite (nth_map_indexed _ (ls_Y s) r 0 0) by exact Hr. reflexivity.
  - rewrite (nth_overflow (map _ _)) by (rewrite map_length, combine_length, seq_length, Nat.min_id; exact Hr).
    rewrite (nth_overflow (ls_Y s)) by exact Hr.
    destruct (Nat.ltb r (ls_n s)); lra.
Qed.

Lemma weight_J_in (s : ls_state (T:=R)) r a : (r < ls_n s)%nat -> Jf (ls_weight ROps s) r a = Jf s r a * Wf s r.
Proof. intros H. rewrite weight_J. apply Nat.ltb_lt in H. now rewrite H. Qed.
Lemma weight_Y_in (s : ls_state (T:=R)) r : (r < ls_n s)%nat -> Yf (ls_weight ROps s) r = Yf s r * Wf s r.
Proof. intros H. rewrite weight_Y. apply Nat.ltb_lt in H. now rewrite H. Qed.
Lemma weight_J_out (s : ls_state (T:=R)) r a : (ls_n s <= r)%nat -> Jf (ls_weight ROps s) r a = Jf s r a.
Proof. intros H. rewrite weight_J. apply Nat.ltb_ge in H. now rewrite H. Qed.
Lemma weight_Y_out (s : ls_state (T:=R)) r : (ls_n s <= r)%nat -> Yf (ls_weight ROps s) r = Yf s r.
Proof. intros H. rewrite weight_Y. apply Nat.ltb_ge in H. now rewrite H. Qed.
Lemma weight_W (s : ls_state (T:=R)) r : Wf (ls_weight ROps s) r = Wf s r.
Proof. reflexivity. Qed.

Theorem ls_weight_row_scaling (s : ls_state (T:=R)) :
  (forall r a, (r < ls_n s)%nat -> Jf (ls_weight ROps s) r a = Jf s r a * Wf s r) /\
  (forall r, (r < ls_n s)%nat -> Yf (ls_weight ROps s) r = Yf s r * Wf s r) /\
  (forall r a, (ls_n s <= r)%nat -> Jf (ls_weight ROps s) r a = Jf s r a) /\
  (forall r, (ls_n s <= r)%nat -> Yf (ls_weight ROps s) r = Yf s r) /\
  (forall r, Wf (ls_weight ROps s) r = Wf s r) /\
  ls_n (ls_weight ROps s) = ls_n s /\ ls_k (ls_weight ROps s) = ls_k s /\
  ls_A (ls_weight ROps s) = ls_A s /\ ls_b (ls_weight ROps s) = ls_b s.
Proof.
  split; [exact (weight_J_in s)|]. split; [exact (weight_Y_in s)|]. split; [exact (weight_J_out s)|].
  split; [exact (weight_Y_out s)|]. split; [exact (weight_W s)|]. repeat split.
Qed.

(* the normal matrix that weightedEstimate hands to the LDLT solver is J^T W^2 J *)
Lemma weighted_JtJ_get (s : ls_state (T:=R)) i j : (i < ls_k s)%nat -> (j < ls_k s)%nat ->
  mget ROps (ls_JtJ ROps (ls_weight ROps s)) i j = wnM (ls_n s) (Jf s) (Wf s) i j.
Proof.
  intros Hi Hj. rewrite ls_JtJ_get by assumption. cbn [ls_n ls_weight].
  apply nM_scaled. intros r a Hr. now apply weight_J_in.
Qed.

(* ---------------- 2. the weighted estimate ---------------- *)
Section WeightedEstimate.
Variable inverse_of : nat -> list (list R) -> list (list R).

Lemma weighted_result s st x : ls_weighted_estimate ROps inverse_of s = Some (st, x) ->
  ls_est_ok s = true /\ ls_estimate_chol ROps inverse_of (ls_weight ROps s) = Some (st, x).
Proof. unfold ls_weighted_estimate. destruct (ls_est_ok s); [auto|discriminate]. Qed.

(* weightedEstimate = Cholesky estimate of the state whose first dataSize rows were scaled in place *)
Lemma weighted_is_chol_of_scaled s : ls_est_ok s = true ->
  ls_weighted_estimate ROps inverse_of s = ls_estimate_chol ROps inverse_of (ls_weight ROps s).
Proof. intros H. unfold ls_weighted_estimate. now rewrite H. Qed.

Theorem ls_weighted_correct s st x :
  let sw := ls_weight ROps s in
  inv_contract (ls_k s) (ls_JtJ ROps sw) (inverse_of (ls_k s) (ls_JtJ ROps sw)) ->
  ls_weighted_estimate ROps inverse_of s = Some (st, x) ->
  let n := ls_n s in let k := ls_k s in
  let z := ls_z sw (inverse_of k (ls_JtJ ROps sw)) in
  (forall i, (i < k)%nat -> vget ROps x i = Rsum k (fun l => Af s i l * z l) + bf s i) /\
  (forall a, (a < k)%nat -> wgrad n k (Jf s) (Yf s) (Wf s) z a = 0) /\
  (forall y, wcost n k (Jf s) (Yf s) (Wf s) z <= wcost n k (Jf s) (Yf s) (Wf s) y) /\
  (forall y, wcost n k (Jf s) (Yf s) (Wf s) y = wcost n k (Jf s) (Yf s) (Wf s) z -> forall i, (i < k)%nat -> y i = z i) /\
  (forall r a, (r < n)%nat -> Jf st r a = Jf s r a * Wf s r) /\
  (forall r, (r < n)%nat -> Yf st r = Yf s r * Wf s r).
Proof.
  intros sw Hc He n k z. apply weighted_result in He. destruct He as (Hok & He).
  pose proof (ls_chol_correct inverse_of sw st x Hc He) as (H1 & H2 & _ & H4 & H5).
  apply chol_result in He. destruct He as (_ & _ & Hst).
  assert (HJ : forall r a, (r < n)%nat -> Jf sw r a = Jf s r a * Wf s r) by (intros; now apply weight_J_in).
  assert (HY : forall r, (r < n)%nat -> Yf sw r = Yf s r * Wf s r) by (intros; now apply weight_Y_in).
  change (ls_n sw) with n in *. change (ls_k sw) with k in *.
  fold z in H1, H2, H4, H5.
  split; [|split; [|split; [|split; [|split]]]].
  - exact H1.
  - intros a Ha. rewrite <- (grad_scaled n k (Jf s) (Yf s) (Wf s) (Jf sw) (Yf sw) HJ HY). now apply H2.
  - intros y. rewrite <- !(cost_scaled n k (Jf s) (Yf s) (Wf s) (Jf sw) (Yf sw) HJ HY). apply H4.
  - intros y. rewrite <- !(cost_scaled n k (Jf s) (Yf s) (Wf s) (Jf sw) (Yf sw) HJ HY). apply H5.
  - intros r a Hr. rewrite Hst. now apply HJ.
  - intros r Hr. rewrite Hst. now apply HY.
Qed.

(* the in-place effect: a second weightedEstimate on the same object without rewriting the rows works on the
   already scaled rows, i.e. it minimises sum (w_r^2 r_r)^2 of the ORIGINAL rows *)
Theorem ls_weighted_twice s st x st2 x2 :
  ls_weighted_estimate ROps inverse_of s = Some (st, x) ->
  inv_contract (ls_k s) (ls_JtJ ROps (ls_weight ROps st)) (inverse_of (ls_k s) (ls_JtJ ROps (ls_weight ROps st))) ->
  ls_weighted_estimate ROps inverse_of st = Some (st2, x2) ->
  let n := ls_n s in let k := ls_k s in
  let w2 := fun r => Wf s r * Wf s r in
  let z := ls_z (ls_weight ROps st) (inverse_of k (ls_JtJ ROps (ls_weight ROps st))) in
  (forall i, (i < k)%nat -> vget ROps x2 i = Rsum k (fun l => Af s i l * z l) + bf s i) /\
  (forall y, wcost n k (Jf s) (Yf s) w2 z <= wcost n k (Jf s) (Yf s) w2 y).
Proof.
  intros He1 Hc He2 n k w2 z.
  pose proof (weighted_result _ _ _ He1) as (_ & Hch). apply chol_result in Hch. destruct Hch as (_ & _ & Hst).
  subst n k.
  assert (Ek : ls_k st = ls_k s) by (rewrite Hst; reflexivity).
  assert (En : ls_n st = ls_n s) by (rewrite Hst; reflexivity).
  assert (EA : Af st = Af s) by (rewrite Hst; reflexivity).
  assert (Eb : bf st = bf s) by (rewrite Hst; reflexivity).
  assert (EW : Wf st = Wf s) by (rewrite Hst; reflexivity).
  assert (HJ : forall r a, (r < ls_n s)%nat -> Jf st r a = Jf s r a * Wf s r).
  { intros r a Hr. rewrite Hst. change (Jf (ls_weight ROps s) r a = Jf s r a * Wf s r). now apply weight_J_in. }
  assert (HY : forall r, (r < ls_n s)%nat -> Yf st r = Yf s r * Wf s r).
  { intros r Hr. rewrite Hst. change (Yf (ls_weight ROps s) r = Yf s r * Wf s r). now apply weight_Y_in. }
  rewrite <- Ek in Hc.
  pose proof (ls_weighted_correct st st2 x2 Hc He2) as (H1 & _ & H3 & _).
  rewrite ?Ek, ?En, ?EA, ?Eb, ?EW in H1. rewrite ?Ek, ?En, ?EA, ?Eb, ?EW in H3.
  split; [exact H1|].
  assert (Hcost : forall y, wcost (ls_n s) (ls_k s) (Jf st) (Yf st) (Wf s) y = wcost (ls_n s) (ls_k s) (Jf s) (Yf s) w2 y).
  { intros y. unfold wcost. apply Rsum_ext. intros r Hr.
    rewrite (Jx_scaled (ls_n s) (ls_k s) (Jf s) (Wf s) (Jf st) HJ y r Hr), HY by exact Hr. unfold w2. ring. }
  intros y. rewrite <- !Hcost. apply H3.
Qed.

(* the value does not depend on WHICH right inverse the LDLT oracle returns: two oracles meeting the contract give
   the same estimate (both are the solution of the same normal equations) — Cholesky path, hence weighted path *)
Theorem ls_chol_oracle_independent (inverse_of' : nat -> list (list R) -> list (list R)) s st1 x1 st2 x2 :
  inv_contract (ls_k s) (ls_JtJ ROps s) (inverse_of (ls_k s) (ls_JtJ ROps s)) ->
  inv_contract (ls_k s) (ls_JtJ ROps s) (inverse_of' (ls_k s) (ls_JtJ ROps s)) ->
  ls_estimate_chol ROps inverse_of s = Some (st1, x1) ->
  ls_estimate_chol ROps inverse_of' s = Some (st2, x2) ->
  forall i, (i < ls_k s)%nat -> vget ROps x1 i = vget ROps x2 i.
Proof.
  intros H1 H2 E1 E2 i Hi.
  apply chol_result in E1. destruct E1 as (_ & -> & _).
  apply chol_result in E2. destruct E2 as (_ & -> & _).
  rewrite !ls_apply_get by exact Hi. f_equal. apply Rsum_ext. intros l Hl. f_equal.
  pose proof (inv_contract_nM s _ H1) as G1.
  pose proof (inv_contract_nM s _ H2) as G2.
  change (x0 (ls_n s) (ls_k s) (Jf s) (Yf s) (mget ROps (inverse_of (ls_k s) (ls_JtJ ROps s))) l =
          x0 (ls_n s) (ls_k s) (Jf s) (Yf s) (mget ROps (inverse_of' (ls_k s) (ls_JtJ ROps s))) l).
  symmetry. apply (normal_solution_unique (ls_n s) (ls_k s) (Jf s) (Yf s) _ G1); [|exact Hl].
  intros a Ha. now apply normal_system.
Qed.

Theorem ls_weighted_oracle_independent (inverse_of' : nat -> list (list R) -> list (list R)) s st1 x1 st2 x2 :
  let sw := ls_weight ROps s in
  inv_contract (ls_k s) (ls_JtJ ROps sw) (inverse_of (ls_k s) (ls_JtJ ROps sw)) ->
  inv_contract (ls_k s) (ls_JtJ ROps sw) (inverse_of' (ls_k s) (ls_JtJ ROps sw)) ->
  ls_weighted_estimate ROps inverse_of s = Some (st1, x1) ->
  ls_weighted_estimate ROps inverse_of' s = Some (st2, x2) ->
  forall i, (i < ls_k s)%nat -> vget ROps x1 i = vget ROps x2 i.
Proof.
  intros sw H1 H2 E1 E2.
  unfold ls_weighted_estimate in E1, E2. destruct (ls_est_ok s); [|discriminate].
  exact (ls_chol_oracle_independent inverse_of' sw st1 x1 st2 x2 H1 H2 E1 E2).
Qed.

End WeightedEstimate.

(* ---------------- the SVD path's premise [svd_all_above] in terms of the condition number ----------------
   singular values are non-increasing (contract), so "every singular value is above epsilon * sigma_0" is the single
   inequality epsilon * sigma_max < sigma_min, i.e. cond(J^T J) = cond(J)^2 < 1/epsilon *)
Lemma svd_all_above_of_cond svd_of (s : ls_state (T:=R)) :
  svd_contract (ls_k s) (ls_JtJ ROps s) (svd_of (ls_k s) (ls_JtJ ROps s)) ->
  (let sg := snd (fst (svd_of (ls_k s) (ls_JtJ ROps s))) in
   nepsilon ROps * vget ROps sg 0 < vget ROps sg (ls_k s - 1)) ->
  svd_all_above svd_of s.
Proof.
  intros Hc Hlt a Ha. unfold svd_thr. cbv zeta in Hlt.
  destruct (svd_of (ls_k s) (ls_JtJ ROps s)) as [[U sg] V]. cbn [fst snd] in *.
  destruct Hc as (_ & _ & _ & _ & _ & _ & Hmono).
  assert (vget ROps sg (ls_k s - 1) <= vget ROps sg a) by (apply Hmono; lia). lra.
Qed.

(* ---------------- non-vacuity witness: 2 rows, 1 unknown, weights (2, 3) ----------------
   J = (1, 1)^T, Y = (1, 2)^T, W = (2, 3):  J^T W^2 J = 13, J^T W^2 Y = 4 + 18 = 22, x = 22/13
   (the W-not-squared reading sum w_r r_r^2 would give 8/5, the unweighted one 3/2). *)
Definition wwit_state : ls_state (T:=R) := mk_ls 2 1 [[1]] [0] 1 [[1]; [1]] [1; 2] [2; 3] [[0]].
Definition wwit_inv (k : nat) (M : list (list R)) : list (list R) := [[/ mget ROps M 0 0]].

Lemma wwit_contract :
  inv_contract (ls_k wwit_state) (ls_JtJ ROps (ls_weight ROps wwit_state))
               (wwit_inv (ls_k wwit_state) (ls_JtJ ROps (ls_weight ROps wwit_state))).
Proof.
  intros i j Hi Hj. cbn in Hi, Hj. assert (i = 0%nat) by lia. assert (j = 0%nat) by lia. subst.
  cbn. unfold delta. cbn. field.
Qed.

(* second weightedEstimate on the same object, rows not rewritten: rows are now (2,3), (2,6), scaled again to
   (4,9), (4,18): x = (16 + 162) / (16 + 81) = 178/97 *)
Lemma wwit_twice_value :
  exists st x st2 x2, ls_weighted_estimate ROps wwit_inv wwit_state = Some (st, x) /\
                      ls_weighted_estimate ROps wwit_inv st = Some (st2, x2) /\ vget ROps x2 0 = 178 / 97.
Proof.
  eexists. eexists. eexists. eexists. split; [reflexivity|]. split; [reflexivity|]. cbn. field.
Qed.

Lemma wwit_value :
  exists st x, ls_weighted_estimate ROps wwit_inv wwit_state = Some (st, x) /\ vget ROps x 0 = 22 / 13.
Proof.
  eexists. eexists. split; [reflexivity|]. cbn. field.
Qed.
