(* AnglesModel.v — executable model (definitions only) of
     include/romea_core_common/math/EulerAngles.hpp
     src/transform/SmartRotation3D.cpp
     include/romea_core_common/coordinates/{PolarCoordinates,SphericalCoordinates}.hpp
   and of the Eigen formulas these call (AngleAxis -> Quaternion, quaternion product,
   Quaternion::normalized, Quaternion::toRotationMatrix, fixed-size 3x3 products).
   Used by C10 (consistency of the parametrisations) and C12 (derivative matrices).
   Everything is polymorphic in the numeric dictionary. *)
From Coq Require Import ZArith List.
From Romea Require Import Num.

Record mat3 (T : Type) : Type := mkM3 {
  m00 : T; m01 : T; m02 : T; m10 : T; m11 : T; m12 : T; m20 : T; m21 : T; m22 : T }.
Record vec3 (T : Type) : Type := mkV3 { v0 : T; v1 : T; v2 : T }.
Record quat (T : Type) : Type := mkQ { qw : T; qx : T; qy : T; qz : T }.
Record mat2 (T : Type) : Type := mkM2 { a00 : T; a01 : T; a10 : T; a11 : T }.
Arguments mkM3 {T}. Arguments m00 {T}. Arguments m01 {T}. Arguments m02 {T}.
Arguments m10 {T}. Arguments m11 {T}. Arguments m12 {T}.
Arguments m20 {T}. Arguments m21 {T}. Arguments m22 {T}.
Arguments mkV3 {T}. Arguments v0 {T}. Arguments v1 {T}. Arguments v2 {T}.
Arguments mkQ {T}. Arguments qw {T}. Arguments qx {T}. Arguments qy {T}. Arguments qz {T}.
Arguments mkM2 {T}. Arguments a00 {T}. Arguments a01 {T}. Arguments a10 {T}. Arguments a11 {T}.

(* ------------------------------------------------------------------------------------------ *)
Section Generic.
Context {T : Type} (N : NumOps T).
Local Notation "x + y" := (nadd N x y) (at level 50, left associativity).
Local Notation "x - y" := (nsub N x y) (at level 50, left associativity).
Local Notation "x * y" := (nmul N x y) (at level 40, left associativity).
Local Notation "x / y" := (ndiv N x y) (at level 40, left associativity).
Local Notation "- x" := (nneg N x) (at level 35, right associativity).
Local Notation ZZ := (nzero N).
Local Notation II := (n_one N).

(* --- small fixed-size linear algebra, evaluation order as Eigen's coefficient-based product --- *)
Definition mid3 : mat3 T := mkM3 II ZZ ZZ  ZZ II ZZ  ZZ ZZ II.
Definition mzero3 : mat3 T := mkM3 ZZ ZZ ZZ  ZZ ZZ ZZ  ZZ ZZ ZZ.

Definition mmul3 (a b : mat3 T) : mat3 T := mkM3
  (m00 a * m00 b + m01 a * m10 b + m02 a * m20 b)
  (m00 a * m01 b + m01 a * m11 b + m02 a * m21 b)
  (m00 a * m02 b + m01 a * m12 b + m02 a * m22 b)
  (m10 a * m00 b + m11 a * m10 b + m12 a * m20 b)
  (m10 a * m01 b + m11 a * m11 b + m12 a * m21 b)
  (m10 a * m02 b + m11 a * m12 b + m12 a * m22 b)
  (m20 a * m00 b + m21 a * m10 b + m22 a * m20 b)
  (m20 a * m01 b + m21 a * m11 b + m22 a * m21 b)
  (m20 a * m02 b + m21 a * m12 b + m22 a * m22 b).

Definition madd3 (a b : mat3 T) : mat3 T := mkM3
  (m00 a + m00 b) (m01 a + m01 b) (m02 a + m02 b)
  (m10 a + m10 b) (m11 a + m11 b) (m12 a + m12 b)
  (m20 a + m20 b) (m21 a + m21 b) (m22 a + m22 b).

Definition mtrans3 (a : mat3 T) : mat3 T := mkM3
  (m00 a) (m10 a) (m20 a)  (m01 a) (m11 a) (m21 a)  (m02 a) (m12 a) (m22 a).

Definition mvmul3 (a : mat3 T) (v : vec3 T) : vec3 T := mkV3
  (m00 a * v0 v + m01 a * v1 v + m02 a * v2 v)
  (m10 a * v0 v + m11 a * v1 v + m12 a * v2 v)
  (m20 a * v0 v + m21 a * v1 v + m22 a * v2 v).

Definition vadd3 (a b : vec3 T) : vec3 T := mkV3 (v0 a + v0 b) (v1 a + v1 b) (v2 a + v2 b).

Definition det3 (a : mat3 T) : T :=
  m00 a * (m11 a * m22 a - m12 a * m21 a)
  - m01 a * (m10 a * m22 a - m12 a * m20 a)
  + m02 a * (m10 a * m21 a - m11 a * m20 a).

Definition mcols3 (c0 c1 c2 : vec3 T) : mat3 T := mkM3
  (v0 c0) (v0 c1) (v0 c2)  (v1 c0) (v1 c1) (v1 c2)  (v2 c0) (v2 c1) (v2 c2).
Definition mcol3 (a : mat3 T) (j : nat) : vec3 T :=
  match j with
  | 0%nat => mkV3 (m00 a) (m10 a) (m20 a)
  | 1%nat => mkV3 (m01 a) (m11 a) (m21 a)
  | _ => mkV3 (m02 a) (m12 a) (m22 a)
  end.
Definition mget3 (a : mat3 T) (i j : nat) : T :=
  match i, j with
  | 0%nat, 0%nat => m00 a | 0%nat, 1%nat => m01 a | 0%nat, _ => m02 a
  | 1%nat, 0%nat => m10 a | 1%nat, 1%nat => m11 a | 1%nat, _ => m12 a
  | _, 0%nat => m20 a | _, 1%nat => m21 a | _, _ => m22 a
  end.
Definition vget3 (v : vec3 T) (i : nat) : T :=
  match i with 0%nat => v0 v | 1%nat => v1 v | _ => v2 v end.

(* --- elementary rotations as SmartRotation3D::init fills them (identity, four entries overwritten) --- *)
Definition Rx_of (c s : T) : mat3 T := mkM3 II ZZ ZZ  ZZ c (- s)  ZZ s c.
Definition Ry_of (c s : T) : mat3 T := mkM3 c ZZ s  ZZ II ZZ  (- s) ZZ c.
Definition Rz_of (c s : T) : mat3 T := mkM3 c (- s) ZZ  s c ZZ  ZZ ZZ II.
(* the "derivative" members: they START AS IDENTITY too (constructor), and only the same four entries
   are overwritten: one diagonal 1 stays behind.  Faithful to the code. *)
Definition dRx_of (c s : T) : mat3 T := mkM3 II ZZ ZZ  ZZ (- s) (- c)  ZZ c (- s).
Definition dRy_of (c s : T) : mat3 T := mkM3 (- s) ZZ c  ZZ II ZZ  (- c) ZZ (- s).
Definition dRz_of (c s : T) : mat3 T := mkM3 (- s) (- c) ZZ  c (- s) ZZ  ZZ ZZ II.

Record smart : Type := mkSmart { sR : mat3 T; sdX : mat3 T; sdY : mat3 T; sdZ : mat3 T }.

(* SmartRotation3D::init(angleAroundXAxis, angleAroundYAxis, angleAroundZAxis) *)
Definition smart_init (x y z : T) : smart :=
  let cx := ncos N x in let sx := nsin N x in
  let cy := ncos N y in let sy := nsin N y in
  let cz := ncos N z in let sz := nsin N z in
  let Rx := Rx_of cx sx in let Ry := Ry_of cy sy in let Rz := Rz_of cz sz in
  mkSmart (mmul3 (mmul3 Rz Ry) Rx)
          (mmul3 (mmul3 Rz Ry) (dRx_of cx sx))
          (mmul3 (mmul3 Rz (dRy_of cy sy)) Rx)
          (mmul3 (mmul3 (dRz_of cz sz) Ry) Rx).

(* SmartRotation3D::dRTdAngles(T): columns dRdAngleX*T, dRdAngleY*T, dRdAngleZ*T *)
Definition smart_dRTdAngles (s : smart) (t : vec3 T) : mat3 T :=
  mcols3 (mvmul3 (sdX s) t) (mvmul3 (sdY s) t) (mvmul3 (sdZ s) t).

(* --- quaternions (Eigen) --- *)
(* Quaternion(AngleAxis(a, Unit?)): ha = 0.5*a; w = cos ha; vec = sin ha * axis *)
Definition q_axis_x (a : T) : quat T := let h := nhalf N * a in mkQ (ncos N h) (nsin N h) ZZ ZZ.
Definition q_axis_y (a : T) : quat T := let h := nhalf N * a in mkQ (ncos N h) ZZ (nsin N h) ZZ.
Definition q_axis_z (a : T) : quat T := let h := nhalf N * a in mkQ (ncos N h) ZZ ZZ (nsin N h).

Definition qmul (a b : quat T) : quat T := mkQ
  (qw a * qw b - qx a * qx b - qy a * qy b - qz a * qz b)
  (qw a * qx b + qx a * qw b + qy a * qz b - qz a * qy b)
  (qw a * qy b + qy a * qw b + qz a * qx b - qx a * qz b)
  (qw a * qz b + qz a * qw b + qx a * qy b - qy a * qx b).

(* eulerAnglesToQuaternion: AngleAxis(e2,Z) * AngleAxis(e1,Y) * AngleAxis(e0,X) *)
Definition eulerAnglesToQuaternion (e : vec3 T) : quat T :=
  qmul (qmul (q_axis_z (v2 e)) (q_axis_y (v1 e))) (q_axis_x (v0 e)).

(* QuaternionBase::toRotationMatrix *)
Definition quat_to_mat (q : quat T) : mat3 T :=
  let two := ntwo N in
  let tx := two * qx q in let ty := two * qy q in let tz := two * qz q in
  let twx := tx * qw q in let twy := ty * qw q in let twz := tz * qw q in
  let txx := tx * qx q in let txy := ty * qx q in let txz := tz * qx q in
  let tyy := ty * qy q in let tyz := tz * qy q in let tzz := tz * qz q in
  mkM3 (II - (tyy + tzz)) (txy - twz) (txz + twy)
       (txy + twz) (II - (txx + tzz)) (tyz - twx)
       (txz - twy) (tyz + twx) (II - (txx + tyy)).

Definition qnorm2 (q : quat T) : T := qx q * qx q + qy q * qy q + qz q * qz q + qw q * qw q.

(* MatrixBase::normalized(): z = squaredNorm; z > 0 ? coeffs / sqrt(z) : coeffs *)
Definition qnormalized (q : quat T) : quat T :=
  let z := qnorm2 q in
  if nltb N ZZ z then
    let n := nsqrt N z in mkQ (qw q / n) (qx q / n) (qy q / n) (qz q / n)
  else q.

(* eulerAnglesToRotation3D = Matrix3(eulerAnglesToQuaternion(angles)) *)
Definition eulerAnglesToRotation3D (e : vec3 T) : mat3 T := quat_to_mat (eulerAnglesToQuaternion e).

(* eulerAngleToRotation2D *)
Definition eulerAngleToRotation2D (a : T) : mat2 T :=
  mkM2 (ncos N a) (- nsin N a) (nsin N a) (ncos N a).

(* --- polar / spherical --- *)
(* toPolar(CartesianCoordinates2): range = norm, azimut = atan2(y, x) *)
Definition toPolar (x y : T) : T * T := (nsqrt N (x * x + y * y), natan2 N y x).
(* toCartesian(PolarCoordinates): (range*cos(azimut), range*sin(azimut)) *)
Definition polarToCartesian (r az : T) : T * T := (r * ncos N az, r * nsin N az).

(* toSpherical(CartesianCoordinates3): range = norm; azimut = atan2(y,x); elevation = acos(z / range)
   (a polar angle measured from +z).  range = 0 gives 0/0: None. *)
Definition toSpherical (x y z : T) : option (T * T * T) :=
  let r := nsqrt N (x * x + y * y + z * z) in
  if nltb N ZZ r then
    let q := z / r in
    if nleb N (nabs N q) II then Some (r, natan2 N y x, nacos N q) else None
  else None.
Definition sphericalToCartesian (r az el : T) : vec3 T :=
  mkV3 (r * ncos N az * nsin N el) (r * nsin N az * nsin N el) (r * ncos N el).

End Generic.

(* ------------------------------------------------------------------------------------------ *)
(* Functions that go through the angle normalisers.  The normalisers compute in `double` whatever the
   scalar type is (`double value = std::fmod(val, M_2PI)`), then convert back to Scalar on return:
   D/ND is the double dictionary, [up]/[down] the conversions (identity for Scalar = double and over R). *)
Section Normalised.
Context {T D : Type} (N : NumOps T) (ND : NumOps D) (up : T -> D) (down : D -> T).

Definition m_2pi : D := nmul ND (ntwo ND) (npi ND).       (* M_2PI = 2 * M_PI *)

Definition between0And2Pi (v : T) : T :=
  let value := nfmod ND (up v) m_2pi in
  down (if nltb ND value (nzero ND) then nadd ND value m_2pi else value).

Definition betweenMinusPiAndPi (v : T) : T :=
  let value := nfmod ND (up v) m_2pi in
  down (if nltb ND value (nneg ND (npi ND)) then nadd ND value m_2pi
        else if nltb ND (npi ND) value then nsub ND value m_2pi
        else value).

(* rotation2DToEulerAngle *)
Definition rotation2DToEulerAngle (r : mat2 T) : T :=
  between0And2Pi (natan2 N (nsub N (a10 r) (a01 r)) (nadd N (a00 r) (a11 r))).

(* rotation3DToEulerAngles; asin of a value outside [-1,1] is NaN in C++: None *)
Definition rotation3DToEulerAngles (r : mat3 T) : option (vec3 T) :=
  if nleb N (nabs N (m20 r)) (n_one N) then
    Some (mkV3 (between0And2Pi (natan2 N (m21 r) (m22 r)))
               (between0And2Pi (nneg N (nasin N (m20 r))))
               (between0And2Pi (natan2 N (m10 r) (m00 r))))
  else None.

(* quaternionToEulerAngles = rotation3DToEulerAngles(q.normalized().toRotationMatrix()) *)
Definition quaternionToEulerAngles (q : quat T) : option (vec3 T) :=
  rotation3DToEulerAngles (quat_to_mat N (qnormalized N q)).

End Normalised.
