(* SrcTieC11.v — the covariance reductions and 3D -> 2D conversions behind C11, regenerated from the clang AST of the current
   sources by the symbolic Eigen evaluator (translate/eigensym.py, translate/tr_C11_eigensym.py -> gen/SrcEigenC11.v), equal
   the models of PoseCovModel.v the C11 theorems are about (real instance):
     src_toSe2Covariance / src_toSe3Covariance    Matrix.hpp templates at double: Zero(), block<2,2> copy, five element writes
     src_toPose2D / src_toPosition3D / src_toTwist2D   the value-returning conversions with the default constructors of the
                                                  2D types and the two-argument overloads inlined.
   The generated terms only select entries, so every lemma is closed by computation on each index pair. *)
From Coq Require Import Reals ZArith Lia List String.
From Romea Require Import Num NumR AnglesModel PoseCovModel.
From Romea.gen Require Import SrcEigenC11.
Import ListNotations.
Local Open Scope R_scope.

Ltac idx3 i H := destruct i as [|[|[|i]]]; [| | |exfalso; lia].
Ltac idx6 i H := destruct i as [|[|[|[|[|[|i]]]]]]; [| | | | | |exfalso; lia].

Lemma tie_toSe2Covariance (c : mat R) i j : (i < 3)%nat -> (j < 3)%nat ->
  mget3 (src_toSe2Covariance ROps c) i j = toSe2Covariance c i j.
Proof. intros Hi Hj. idx3 i Hi; idx3 j Hj; reflexivity. Qed.

Lemma tie_toSe3Covariance (m : mat3 R) i j : (i < 6)%nat -> (j < 6)%nat ->
  src_toSe3Covariance ROps m i j = toSe3Covariance ROps (mget3 m) i j.
Proof. intros Hi Hj. idx6 i Hi; idx6 j Hj; reflexivity. Qed.

Lemma tie_toPose2D (p : pose3 (T:=R)) :
  src_toPose2D_inputs = ["arg0.covariance"; "arg0.orientation"; "arg0.position"]%string /\
  src_toPose2D_outputs = ["position"; "yaw"; "covariance"]%string /\
  let q := toPose2D p in
  src_toPose2D_position ROps (p3_cov p) (p3_ori p) (p3_pos p) = (p2_x q, p2_y q) /\
  src_toPose2D_yaw ROps (p3_cov p) (p3_ori p) (p3_pos p) = p2_yaw q /\
  forall i j, (i < 3)%nat -> (j < 3)%nat -> mget3 (src_toPose2D_covariance ROps (p3_cov p) (p3_ori p) (p3_pos p)) i j = p2_cov q i j.
Proof.
  split; [reflexivity|split; [reflexivity|]]. cbv zeta. split; [reflexivity|split; [reflexivity|]].
  intros i j Hi Hj. idx3 i Hi; idx3 j Hj; reflexivity.
Qed.

Lemma tie_toPosition3D (p : pose3 (T:=R)) :
  src_toPosition3D_inputs = ["arg0.covariance"; "arg0.position"]%string /\
  src_toPosition3D_outputs = ["position"; "covariance"]%string /\
  let q := toPosition3D p in
  (v0 (src_toPosition3D_position ROps (p3_cov p) (p3_pos p)) = v0 (q3_pos q) /\
   v1 (src_toPosition3D_position ROps (p3_cov p) (p3_pos p)) = v1 (q3_pos q) /\
   v2 (src_toPosition3D_position ROps (p3_cov p) (p3_pos p)) = v2 (q3_pos q)) /\
  forall i j, (i < 3)%nat -> (j < 3)%nat -> mget3 (src_toPosition3D_covariance ROps (p3_cov p) (p3_pos p)) i j = q3_cov q i j.
Proof.
  split; [reflexivity|split; [reflexivity|]]. cbv zeta. split; [repeat split|].
  intros i j Hi Hj. idx3 i Hi; idx3 j Hj; reflexivity.
Qed.

Lemma tie_toTwist2D (w : twist3 (T:=R)) :
  src_toTwist2D_inputs = ["arg0.angularSpeeds"; "arg0.covariance"; "arg0.linearSpeeds"]%string /\
  src_toTwist2D_outputs = ["linearSpeeds"; "angularSpeed"; "covariance"]%string /\
  let q := toTwist2D w in
  src_toTwist2D_linearSpeeds ROps (t3_ang w) (t3_cov w) (t3_lin w) = (t2_vx q, t2_vy q) /\
  src_toTwist2D_angularSpeed ROps (t3_ang w) (t3_cov w) (t3_lin w) = t2_w q /\
  forall i j, (i < 3)%nat -> (j < 3)%nat -> mget3 (src_toTwist2D_covariance ROps (t3_ang w) (t3_cov w) (t3_lin w)) i j = t2_cov q i j.
Proof.
  split; [reflexivity|split; [reflexivity|]]. cbv zeta. split; [reflexivity|split; [reflexivity|]].
  intros i j Hi Hj. idx3 i Hi; idx3 j Hj; reflexivity.
Qed.

Lemma source_tie_reductions (c : mat R) (m : mat3 R) :
  (forall i j, (i < 3)%nat -> (j < 3)%nat -> mget3 (src_toSe2Covariance ROps c) i j = toSe2Covariance c i j) /\
  (forall i j, (i < 6)%nat -> (j < 6)%nat -> src_toSe3Covariance ROps m i j = toSe3Covariance ROps (mget3 m) i j).
Proof. split; intros i j; [apply tie_toSe2Covariance|apply tie_toSe3Covariance]. Qed.

(* toPoseAndTwist2D(PoseAndTwist3D): the six returned members are those of toPose2D on .pose and of toTwist2D on .twist
   (hence, by the two lemmas above, the model's toPoseAndTwist2D) *)
Lemma tie_toPoseAndTwist2D (p : pose3 (T:=R)) (w : twist3 (T:=R)) :
  src_toPoseAndTwist2D_inputs = ["arg0.pose.covariance"; "arg0.pose.orientation"; "arg0.pose.position";
                                 "arg0.twist.angularSpeeds"; "arg0.twist.covariance"; "arg0.twist.linearSpeeds"]%string /\
  src_toPoseAndTwist2D_outputs = ["pose_position"; "pose_yaw"; "pose_covariance";
                                  "twist_linearSpeeds"; "twist_angularSpeed"; "twist_covariance"]%string /\
  src_toPoseAndTwist2D ROps (p3_cov p) (p3_ori p) (p3_pos p) (t3_ang w) (t3_cov w) (t3_lin w) =
  (src_toPose2D_position ROps (p3_cov p) (p3_ori p) (p3_pos p), src_toPose2D_yaw ROps (p3_cov p) (p3_ori p) (p3_pos p),
   src_toPose2D_covariance ROps (p3_cov p) (p3_ori p) (p3_pos p),
   src_toTwist2D_linearSpeeds ROps (t3_ang w) (t3_cov w) (t3_lin w), src_toTwist2D_angularSpeed ROps (t3_ang w) (t3_cov w) (t3_lin w),
   src_toTwist2D_covariance ROps (t3_ang w) (t3_cov w) (t3_lin w)) /\
  let q := toPoseAndTwist2D (p, w) in
  src_toPoseAndTwist2D_pose_position ROps (p3_cov p) (p3_ori p) (p3_pos p) (t3_ang w) (t3_cov w) (t3_lin w) = (p2_x (fst q), p2_y (fst q)) /\
  src_toPoseAndTwist2D_pose_yaw ROps (p3_cov p) (p3_ori p) (p3_pos p) (t3_ang w) (t3_cov w) (t3_lin w) = p2_yaw (fst q) /\
  src_toPoseAndTwist2D_twist_linearSpeeds ROps (p3_cov p) (p3_ori p) (p3_pos p) (t3_ang w) (t3_cov w) (t3_lin w) = (t2_vx (snd q), t2_vy (snd q)) /\
  src_toPoseAndTwist2D_twist_angularSpeed ROps (p3_cov p) (p3_ori p) (p3_pos p) (t3_ang w) (t3_cov w) (t3_lin w) = t2_w (snd q) /\
  forall i j, (i < 3)%nat -> (j < 3)%nat ->
    mget3 (src_toPoseAndTwist2D_pose_covariance ROps (p3_cov p) (p3_ori p) (p3_pos p) (t3_ang w) (t3_cov w) (t3_lin w)) i j = p2_cov (fst q) i j /\
    mget3 (src_toPoseAndTwist2D_twist_covariance ROps (p3_cov p) (p3_ori p) (p3_pos p) (t3_ang w) (t3_cov w) (t3_lin w)) i j = t2_cov (snd q) i j.
Proof.
  split; [reflexivity|split; [reflexivity|split; [reflexivity|]]]. cbv zeta.
  split; [reflexivity|split; [reflexivity|split; [reflexivity|split; [reflexivity|]]]].
  intros i j Hi Hj. idx3 i Hi; idx3 j Hj; split; reflexivity.
Qed.
