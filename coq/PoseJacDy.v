(* PoseJacDy.v — C12: derivative of the entries of l * Rz*Ry*Rx with respect to pitch (split out of PoseJacDeriv.v so that the
   three auto_derive sweeps compile in parallel). *)
From Coq Require Import Reals ZArith Lra Lia Psatz.
From Coquelicot Require Import Coquelicot.
From Romea Require Import Num NumR AnglesModel AnglesProofs AnglesRoundtrip PoseCovModel PoseCovProofs DerivProofs PoseJacProofs PoseJacMrot.
Local Open Scope R_scope.

Lemma dM_y l x y z i j :
  is_derive (fun t => mget3 (Mrot l x t z) i j) y (mget3 (mmul3 ROps l (dRdY_true x y z)) i j).
Proof. destruct l as [l0 l1 l2 l3 l4 l5 l6 l7 l8]. unfold Mrot. entry_cases i j; unfold_rot; auto_derive; trivial; ring. Qed.
