(* LinAlgBProofs.v — lemmas about the small linear algebra of LinAlgBModel.v.
   Part 1: structural facts valid for every numeric dictionary (tab / nth / sumn extensionality).
   Part 2: the real-number instance: finite sums, products of matrices given as functions, determinants of
   2x2 / 3x3 products, abstract least squares (normal equations, Pythagoras, uniqueness). *)
From Coq Require Import Reals List Arith Lia Lra Bool Psatz.
From Romea Require Import Num NumR LinAlgBModel.
Import ListNotations.

(* ------------------------------------------------------------------------------------------------ part 1 *)
Section Structural.
Context {T : Type} (N : NumOps T).

Lemma length_tab {A} n (f : nat -> A) : length (tab n f) = n.
Proof. unfold tab. now rewrite map_length, seq_length. Qed.

Lemma nth_tab {A} n (f : nat -> A) i d : (i < n)%nat -> nth i (tab n f) d = f i.
Proof.
  intros H. unfold tab.
  rewrite (nth_indep _ d (f O)) by (rewrite map_length, seq_length; exact H).
  rewrite map_nth. rewrite seq_nth by exact H. reflexivity.
Qed.

Lemma tab_ext {A} n (f g : nat -> A) : (forall i, (i < n)%nat -> f i = g i) -> tab n f = tab n g.
Proof.
  intros H. unfold tab. apply map_ext_in. intros a Ha. apply in_seq in Ha. apply H. lia.
Qed.

Lemma vget_tab n f i : (i < n)%nat -> vget N (tab n f) i = f i.
Proof. intros H. unfold vget. now apply nth_tab. Qed.

Lemma mget_mtab n m f i j : (i < n)%nat -> (j < m)%nat -> mget N (mtab n m f) i j = f i j.
Proof.
  intros Hi Hj. unfold mget, mtab. rewrite nth_tab by exact Hi. now apply nth_tab.
Qed.

Lemma length_mtab n m (f : nat -> nat -> T) : length (mtab n m f) = n.
Proof. apply length_tab. Qed.

Lemma mtab_ext n m (f g : nat -> nat -> T) :
  (forall i j, (i < n)%nat -> (j < m)%nat -> f i j = g i j) -> mtab n m f = mtab n m g.
Proof. intros H. unfold mtab. apply tab_ext. intros i Hi. apply tab_ext. intros j Hj. now apply H. Qed.

Lemma sumn_ext n f g : (forall i, (i < n)%nat -> f i = g i) -> sumn N n f = sumn N n g.
Proof.
  induction n as [|n IH]; intros H; [reflexivity|]. cbn [sumn].
  rewrite IH by (intros; apply H; lia). rewrite H by lia. reflexivity.
Qed.

End Structural.

(* ------------------------------------------------------------------------------------------------ part 2 *)
Local Open Scope R_scope.

Notation Rsum := (sumn ROps).
Ltac rsimpl := cbn [nadd nsub nmul ndiv nneg nzero n_one nabs nsqrt nltb nleb neqb nepsilon nofZ ROps] in *.

Lemma Rsum_S n f : Rsum (S n) f = Rsum n f + f n.
Proof. reflexivity. Qed.
Lemma Rsum_O f : Rsum O f = 0.
Proof. reflexivity. Qed.

Lemma Rsum_ext n f g : (forall i, (i < n)%nat -> f i = g i) -> Rsum n f = Rsum n g.
Proof. apply sumn_ext. Qed.

Lemma Rsum_0 n : Rsum n (fun _ => 0) = 0.
Proof. induction n; [reflexivity|]. rewrite Rsum_S, IHn. lra. Qed.

Lemma Rsum_zero n f : (forall i, (i < n)%nat -> f i = 0) -> Rsum n f = 0.
Proof. intros H. rewrite (Rsum_ext n f (fun _ => 0)) by exact H. apply Rsum_0. Qed.

Lemma Rsum_plus n f g : Rsum n (fun i => f i + g i) = Rsum n f + Rsum n g.
Proof. induction n; [rewrite !Rsum_O; lra|]. rewrite !Rsum_S, IHn. lra. Qed.

Lemma Rsum_minus n f g : Rsum n (fun i => f i - g i) = Rsum n f - Rsum n g.
Proof. induction n; [rewrite !Rsum_O; lra|]. rewrite !Rsum_S, IHn. lra. Qed.

Lemma Rsum_scal_l c n f : Rsum n (fun i => c * f i) = c * Rsum n f.
Proof. induction n; [rewrite !Rsum_O; lra|]. rewrite !Rsum_S, IHn. lra. Qed.

Lemma Rsum_scal_r c n f : Rsum n (fun i => f i * c) = Rsum n f * c.
Proof. induction n; [rewrite !Rsum_O; lra|]. rewrite !Rsum_S, IHn. lra. Qed.

Lemma Rsum_opp n f : Rsum n (fun i => - f i) = - Rsum n f.
Proof. induction n; [rewrite !Rsum_O; lra|]. rewrite !Rsum_S, IHn. lra. Qed.

Lemma Rsum_swap n m (f : nat -> nat -> R) :
  Rsum n (fun i => Rsum m (fun j => f i j)) = Rsum m (fun j => Rsum n (fun i => f i j)).
Proof.
  induction n.
  - rewrite Rsum_O. symmetry. apply Rsum_zero. intros; apply Rsum_O.
  - rewrite Rsum_S, IHn. rewrite <- Rsum_plus. apply Rsum_ext. intros j _. now rewrite Rsum_S.
Qed.

Definition delta (i j : nat) : R := if Nat.eqb i j then 1 else 0.

Lemma fid_delta i j : fid ROps i j = delta i j.
Proof. reflexivity. Qed.

Lemma delta_sym i j : delta i j = delta j i.
Proof. unfold delta. now rewrite Nat.eqb_sym. Qed.

Lemma delta_same i : delta i i = 1.
Proof. unfold delta. now rewrite Nat.eqb_refl. Qed.

Lemma delta_diff i j : i <> j -> delta i j = 0.
Proof. intros H. unfold delta. apply Nat.eqb_neq in H. now rewrite H. Qed.

Lemma Rsum_delta_l n j f : (j < n)%nat -> Rsum n (fun i => delta i j * f i) = f j.
Proof.
  induction n; intros H; [lia|]. rewrite Rsum_S.
  destruct (Nat.eq_dec j n) as [->|Hne].
  - rewrite delta_same. rewrite Rsum_zero; [lra|]. intros i Hi. rewrite delta_diff by lia. lra.
  - rewrite IHn by lia. rewrite (delta_diff n j) by lia. lra.
Qed.

Lemma Rsum_delta_r n j f : (j < n)%nat -> Rsum n (fun i => f i * delta i j) = f j.
Proof.
  intros H. rewrite <- (Rsum_delta_l n j f H). apply Rsum_ext. intros; lra.
Qed.

Lemma Rsum_delta_l' n j f : (j < n)%nat -> Rsum n (fun i => delta j i * f i) = f j.
Proof.
  intros H. rewrite <- (Rsum_delta_l n j f H). apply Rsum_ext. intros. now rewrite delta_sym.
Qed.

Lemma Rsum_delta_r' n j f : (j < n)%nat -> Rsum n (fun i => f i * delta j i) = f j.
Proof.
  intros H. rewrite <- (Rsum_delta_l n j f H). apply Rsum_ext. intros. rewrite delta_sym. lra.
Qed.

Lemma Rsum_nonneg n f : (forall i, (i < n)%nat -> 0 <= f i) -> 0 <= Rsum n f.
Proof.
  induction n; intros H; [rewrite Rsum_O; lra|]. rewrite Rsum_S.
  assert (0 <= Rsum n f) by (apply IHn; intros; apply H; lia). assert (0 <= f n) by (apply H; lia). lra.
Qed.

Lemma Rsum_le n f g : (forall i, (i < n)%nat -> f i <= g i) -> Rsum n f <= Rsum n g.
Proof.
  intros H. assert (0 <= Rsum n (fun i => g i - f i)).
  { apply Rsum_nonneg. intros i Hi. specialize (H i Hi). lra. }
  rewrite Rsum_minus in H0. lra.
Qed.

Lemma Rsum_nonneg_zero n f : (forall i, (i < n)%nat -> 0 <= f i) -> Rsum n f = 0 ->
  forall i, (i < n)%nat -> f i = 0.
Proof.
  induction n; intros Hp Hs i Hi; [lia|]. rewrite Rsum_S in Hs.
  assert (0 <= Rsum n f) by (apply Rsum_nonneg; intros; apply Hp; lia).
  assert (0 <= f n) by (apply Hp; lia).
  destruct (Nat.eq_dec i n) as [->|Hne]; [lra|].
  apply IHn; [intros; apply Hp; lia|lra|lia].
Qed.

Lemma Rsum_sq_zero n f : Rsum n (fun i => f i * f i) = 0 -> forall i, (i < n)%nat -> f i = 0.
Proof.
  intros H i Hi.
  assert (f i * f i = 0).
  { apply (Rsum_nonneg_zero n (fun i => f i * f i)); [intros; nra|exact H|exact Hi]. }
  nra.
Qed.

(* ---- abstract least squares over R: J is n x k, Y has n entries, inv is a right inverse of J^T J ---- *)
Section LeastSquaresR.
Variables (n k : nat) (J : nat -> nat -> R) (Y : nat -> R).

Definition nM (i j : nat) : R := Rsum n (fun r => J r i * J r j).
Definition nv (i : nat) : R := Rsum n (fun r => J r i * Y r).
Definition Jx (x : nat -> R) (r : nat) : R := Rsum k (fun c => J r c * x c).
Definition cost (x : nat -> R) : R := Rsum n (fun r => (Jx x r - Y r) * (Jx x r - Y r)).
Definition grad (x : nat -> R) (i : nat) : R := Rsum n (fun r => J r i * (Jx x r - Y r)).   (* (J^T (J x - Y))_i *)

Lemma nM_sym i j : nM i j = nM j i.
Proof. unfold nM. apply Rsum_ext. intros; lra. Qed.

Lemma grad_normal x i : grad x i = Rsum k (fun c => nM i c * x c) - nv i.
Proof.
  unfold grad, nM, nv, Jx.
  rewrite (Rsum_ext n _ (fun r => J r i * Rsum k (fun c => J r c * x c) - J r i * Y r)) by (intros; lra).
  rewrite Rsum_minus. f_equal.
  rewrite (Rsum_ext k (fun c => Rsum n (fun r => J r i * J r c) * x c)
                      (fun c => Rsum n (fun r => J r i * J r c * x c)))
    by (intros; now rewrite Rsum_scal_r).
  rewrite Rsum_swap. apply Rsum_ext. intros r _.
  rewrite <- Rsum_scal_l. apply Rsum_ext. intros; lra.
Qed.

Variable inv : nat -> nat -> R.
Hypothesis Hinv : forall i j, (i < k)%nat -> (j < k)%nat -> Rsum k (fun l => nM i l * inv l j) = delta i j.

Definition x0 (i : nat) : R := Rsum k (fun l => inv i l * nv l).

Lemma normal_system i : (i < k)%nat -> Rsum k (fun j => nM i j * x0 j) = nv i.
Proof.
  intros Hi. unfold x0.
  rewrite (Rsum_ext k _ (fun j => Rsum k (fun l => nM i j * inv j l * nv l)))
    by (intros; rewrite <- Rsum_scal_l; apply Rsum_ext; intros; lra).
  rewrite Rsum_swap.
  rewrite (Rsum_ext k _ (fun l => delta i l * nv l)).
  - now apply Rsum_delta_l'.
  - intros l Hl. rewrite Rsum_scal_r. now rewrite Hinv.
Qed.

(* the normal equations: J^T (J x0 - Y) = 0 *)
Lemma normal_equations i : (i < k)%nat -> grad x0 i = 0.
Proof. intros Hi. rewrite grad_normal, normal_system by exact Hi. lra. Qed.

(* Pythagoras: |Jx - Y|^2 = |J x0 - Y|^2 + |J (x - x0)|^2 *)
Lemma pythagoras x :
  cost x = cost x0 + Rsum n (fun r => Jx (fun c => x c - x0 c) r * Jx (fun c => x c - x0 c) r).
Proof.
  unfold cost.
  assert (Hlin : forall r, Jx x r - Y r = (Jx x0 r - Y r) + Jx (fun c => x c - x0 c) r).
  { intros r. unfold Jx. rewrite (Rsum_ext k (fun c => J r c * (x c - x0 c)) (fun c => J r c * x c - J r c * x0 c))
      by (intros; lra). rewrite Rsum_minus. lra. }
  rewrite (Rsum_ext n _ (fun r => (Jx x0 r - Y r) * (Jx x0 r - Y r)
                                  + Jx (fun c => x c - x0 c) r * Jx (fun c => x c - x0 c) r
                                  + 2 * ((Jx x0 r - Y r) * Jx (fun c => x c - x0 c) r)))
    by (intros r _; rewrite Hlin; ring).
  rewrite !Rsum_plus. rewrite Rsum_scal_l.
  assert (Hcross : Rsum n (fun r => (Jx x0 r - Y r) * Jx (fun c => x c - x0 c) r) = 0).
  { unfold Jx at 2.
    rewrite (Rsum_ext n _ (fun r => Rsum k (fun c => (x c - x0 c) * (J r c * (Jx x0 r - Y r)))))
      by (intros; rewrite <- Rsum_scal_l; apply Rsum_ext; intros; lra).
    rewrite Rsum_swap. apply Rsum_zero. intros c Hc. rewrite Rsum_scal_l.
    fold (grad x0 c). rewrite normal_equations by exact Hc. lra. }
  rewrite Hcross. lra.
Qed.

Lemma minimiser x : cost x0 <= cost x.
Proof.
  rewrite (pythagoras x).
  assert (0 <= Rsum n (fun r => Jx (fun c => x c - x0 c) r * Jx (fun c => x c - x0 c) r))
    by (apply Rsum_nonneg; intros; nra).
  lra.
Qed.

(* J^T J z = 0 -> z = 0 on the first k components (uses symmetry of J^T J and the right inverse) *)
Lemma normal_matrix_injective z : (forall i, (i < k)%nat -> Rsum k (fun j => nM i j * z j) = 0) ->
  forall j, (j < k)%nat -> z j = 0.
Proof.
  intros H j Hj.
  rewrite <- (Rsum_delta_r' k j z Hj).
  rewrite (Rsum_ext k _ (fun i => Rsum k (fun l => z i * (nM i l * inv l j))))
    by (intros i Hi; rewrite Rsum_scal_l, Hinv by assumption; rewrite delta_sym; reflexivity).
  rewrite Rsum_swap. apply Rsum_zero. intros l Hl.
  rewrite (Rsum_ext k _ (fun i => (nM l i * z i) * inv l j)) by (intros i Hi; rewrite (nM_sym l i); lra).
  rewrite Rsum_scal_r, H by exact Hl. lra.
Qed.

Lemma Jz_zero_Mz_zero z : (forall r, (r < n)%nat -> Jx z r = 0) -> forall i, (i < k)%nat -> Rsum k (fun j => nM i j * z j) = 0.
Proof.
  intros H i Hi. unfold nM.
  rewrite (Rsum_ext k _ (fun j => Rsum n (fun r => J r i * (J r j * z j))))
    by (intros; rewrite <- Rsum_scal_r; apply Rsum_ext; intros; lra).
  rewrite Rsum_swap. apply Rsum_zero. intros r Hr. rewrite Rsum_scal_l.
  fold (Jx z r). rewrite H by exact Hr. lra.
Qed.

(* J has full column rank *)
Lemma full_rank z : (forall r, (r < n)%nat -> Jx z r = 0) -> forall j, (j < k)%nat -> z j = 0.
Proof. intros H. apply normal_matrix_injective. now apply Jz_zero_Mz_zero. Qed.

Lemma unique_minimiser x : cost x = cost x0 -> forall i, (i < k)%nat -> x i = x0 i.
Proof.
  intros Hc i Hi. rewrite (pythagoras x) in Hc.
  assert (Hz : Rsum n (fun r => Jx (fun c => x c - x0 c) r * Jx (fun c => x c - x0 c) r) = 0) by lra.
  pose proof (Rsum_sq_zero n _ Hz) as Hr.
  pose proof (full_rank (fun c => x c - x0 c) Hr i Hi) as E. cbv beta in E. lra.
Qed.

(* every solution of the normal equations is x0 *)
Lemma normal_solution_unique x : (forall i, (i < k)%nat -> Rsum k (fun j => nM i j * x j) = nv i) ->
  forall i, (i < k)%nat -> x i = x0 i.
Proof.
  intros H i Hi.
  assert (E : (fun c => x c - x0 c) i = 0).
  { apply (normal_matrix_injective (fun c => x c - x0 c)); [|exact Hi]. intros a Ha.
    rewrite (Rsum_ext k _ (fun j => nM a j * x j - nM a j * x0 j)) by (intros; lra).
    rewrite Rsum_minus, H, normal_system by exact Ha. lra. }
  cbv beta in E. lra.
Qed.

End LeastSquaresR.

(* ---- products of matrices given as functions ---- *)
Lemma fmmul_R q A B i j : fmmul ROps q A B i j = Rsum q (fun l => A i l * B l j).
Proof. reflexivity. Qed.

Lemma fmmul_assoc p q (A B C : nat -> nat -> R) i j :
  Rsum p (fun l => Rsum q (fun m => A i m * B m l) * C l j) = Rsum q (fun m => A i m * Rsum p (fun l => B m l * C l j)).
Proof.
  rewrite (Rsum_ext p _ (fun l => Rsum q (fun m => A i m * B m l * C l j))) by (intros; now rewrite Rsum_scal_r).
  rewrite Rsum_swap. apply Rsum_ext. intros m _. rewrite <- Rsum_scal_l. apply Rsum_ext. intros; lra.
Qed.

(* determinant of a product, dimensions 2 and 3 (explicit sums) *)
Lemma fdet2_mul (A B : nat -> nat -> R) :
  fdet2 ROps (fun i j => Rsum 2 (fun l => A i l * B l j)) = fdet2 ROps A * fdet2 ROps B.
Proof. unfold fdet2. cbn [sumn]. rsimpl. ring. Qed.

Lemma fdet3_mul (A B : nat -> nat -> R) :
  fdet3 ROps (fun i j => Rsum 3 (fun l => A i l * B l j)) = fdet3 ROps A * fdet3 ROps B.
Proof. unfold fdet3. cbn [sumn]. rsimpl. ring. Qed.

Lemma fdet2_tr (A : nat -> nat -> R) : fdet2 ROps (fun i j => A j i) = fdet2 ROps A.
Proof. unfold fdet2. rsimpl. ring. Qed.
Lemma fdet3_tr (A : nat -> nat -> R) : fdet3 ROps (fun i j => A j i) = fdet3 ROps A.
Proof. unfold fdet3. rsimpl. ring. Qed.

Lemma fdet2_ext (A B : nat -> nat -> R) : (forall i j, (i < 2)%nat -> (j < 2)%nat -> A i j = B i j) -> fdet2 ROps A = fdet2 ROps B.
Proof. intros H. unfold fdet2. rewrite !H by lia. reflexivity. Qed.
Lemma fdet3_ext (A B : nat -> nat -> R) : (forall i j, (i < 3)%nat -> (j < 3)%nat -> A i j = B i j) -> fdet3 ROps A = fdet3 ROps B.
Proof. intros H. unfold fdet3. rewrite !H by lia. reflexivity. Qed.
