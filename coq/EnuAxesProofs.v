(* EnuAxesProofs.v — the first two columns of the ENU frame are the normalised derivatives of toECEF with
   respect to longitude (east) and latitude (north).  Coquelicot derivatives. *)
From Coq Require Import Reals Lra Nsatz.
From Coquelicot Require Import Coquelicot.
From Romea Require Import Num NumR GeodesyModel GeodesyProofs EnuModel EnuProofs.
Local Open Scope R_scope.

Definition is_derive3 (f : R -> vec3 (T:=R)) (x : R) (d : vec3 (T:=R)) : Prop :=
  is_derive (fun t => vx (f t)) x (vx d) /\
  is_derive (fun t => vy (f t)) x (vy d) /\
  is_derive (fun t => vz (f t)) x (vz d).

Section Axes.
Variable el : ellipsoid (T:=R).
Hypothesis Ha : 0 < el_a el.
Hypothesis He2 : 0 <= el_e2 el < 1.
Local Notation a := (el_a el).
Local Notation e2 := (el_e2 el).

Lemma east_derivative lat lon h :
  let r := (primeVertical ROps el lat + h) * cos lat in
  is_derive3 (fun l => toECEF ROps el (mkGeo lat l h)) lon
             (mkV3 (r * - sin lon) (r * cos lon) (r * 0)).
Proof.
  intros r. unfold r. rewrite primeVertical_eq. pose proof (w2_pos e2 lat He2) as W2.
  unfold is_derive3. cbn. split; [|split].
  - auto_derive; [exact I|ring].
  - auto_derive; [exact I|ring].
  - auto_derive; [exact I|ring].
Qed.

(* meridional radius of curvature M = a (1-e2) / W^3 *)
Definition meridional (lat : R) : R :=
  a * (1 - e2) / (sqrt (1 - e2 * sin lat * sin lat) * sqrt (1 - e2 * sin lat * sin lat) * sqrt (1 - e2 * sin lat * sin lat)).

Lemma meridional_ge lat : a * (1 - e2) <= meridional lat.
Proof.
  unfold meridional. pose proof (w_pos e2 lat He2) as Wp. pose proof (w_le_1 e2 lat He2) as Wl.
  set (w := sqrt (1 - e2 * sin lat * sin lat)) in *.
  assert (W3 : 0 < w * w * w) by (apply Rmult_lt_0_compat; [apply Rmult_lt_0_compat|]; lra).
  assert (W3l : w * w * w <= 1).
  { assert (w * w <= 1) by nra. nra. }
  assert (E : a * (1 - e2) / (w * w * w) - a * (1 - e2) = a * (1 - e2) * (1 - w * w * w) * / (w * w * w)) by (field; lra).
  assert (P : 0 <= a * (1 - e2) * (1 - w * w * w) * / (w * w * w)).
  { apply Rmult_le_pos; [|left; apply Rinv_0_lt_compat; exact W3].
    apply Rmult_le_pos; [|lra]. apply Rmult_le_pos; lra. }
  lra.
Qed.

Lemma north_derivative lat lon h :
  let m := meridional lat + h in
  is_derive3 (fun p => toECEF ROps el (mkGeo p lon h)) lat
             (mkV3 (m * (- sin lat * cos lon)) (m * (- sin lat * sin lon)) (m * cos lat)).
Proof.
  intros m. unfold m, meridional.
  pose proof (w2_pos e2 lat He2) as W2. pose proof (w_pos e2 lat He2) as Wp. pose proof (w_sq e2 lat He2) as Ws.
  pose proof (cos_sq_eq lat) as Cl.
  unfold is_derive3. cbn.
  assert (W2' : 0 < 1 + - (e2 * sin lat * sin lat)) by lra.
  assert (Wn' : sqrt (1 + - (e2 * sin lat * sin lat)) <> 0).
  { replace (1 + - (e2 * sin lat * sin lat)) with (1 - e2 * sin lat * sin lat) by ring. lra. }
  split; [|split].
  - auto_derive; [repeat split; assumption|].
    replace (1 + - (e2 * sin lat * sin lat)) with (1 - e2 * sin lat * sin lat) by ring.
    set (w := sqrt (1 - e2 * sin lat * sin lat)) in *.
    set (s := sin lat) in *. set (c := cos lat) in *. set (co := cos lon).
    clearbody w s c co. clear W2' Wn'. field_simplify_eq; [|lra].
    assert (E1 : c ^ 2 = 1 - s * s) by (rewrite <- Cl; ring).
    assert (E2 : w ^ 2 = 1 - e2 * s * s) by (rewrite <- Ws; ring).
    try rewrite E1; try rewrite E2; ring.
  - auto_derive; [repeat split; assumption|].
    replace (1 + - (e2 * sin lat * sin lat)) with (1 - e2 * sin lat * sin lat) by ring.
    set (w := sqrt (1 - e2 * sin lat * sin lat)) in *.
    set (s := sin lat) in *. set (c := cos lat) in *. set (so := sin lon).
    clearbody w s c so. clear W2' Wn'. field_simplify_eq; [|lra].
    assert (E1 : c ^ 2 = 1 - s * s) by (rewrite <- Cl; ring).
    assert (E2 : w ^ 2 = 1 - e2 * s * s) by (rewrite <- Ws; ring).
    try rewrite E1; try rewrite E2; ring.
  - auto_derive; [repeat split; assumption|].
    replace (1 + - (e2 * sin lat * sin lat)) with (1 - e2 * sin lat * sin lat) by ring.
    set (w := sqrt (1 - e2 * sin lat * sin lat)) in *.
    set (s := sin lat) in *. set (c := cos lat) in *.
    clearbody w s c. clear W2' Wn'. field_simplify_eq; [|lra].
    assert (E1 : c ^ 2 = 1 - s * s) by (rewrite <- Cl; ring).
    assert (E2 : w ^ 2 = 1 - e2 * s * s) by (rewrite <- Ws; ring).
    try rewrite E1; try rewrite E2; ring.
Qed.

Lemma frame_axes_section lat lon h :
  - PI / 2 < lat < PI / 2 -> - a * (1 - e2) < h ->
  let Rm := frame_rotation ROps lat lon in
  col Rm 2 = normal lat lon /\
  (exists r, 0 < r /\
     is_derive3 (fun l => toECEF ROps el (mkGeo lat l h)) lon
                (mkV3 (r * vx (col Rm 0)) (r * vy (col Rm 0)) (r * vz (col Rm 0)))) /\
  (exists m, 0 < m /\
     is_derive3 (fun p => toECEF ROps el (mkGeo p lon h)) lat
                (mkV3 (m * vx (col Rm 1)) (m * vy (col Rm 1)) (m * vz (col Rm 1)))).
Proof.
  intros Hl Hh Rm. split; [reflexivity|]. split.
  - exists ((primeVertical ROps el lat + h) * cos lat). split.
    + apply horizontal_radius_pos; try assumption. nra.
    + exact (east_derivative lat lon h).
  - exists (meridional lat + h). split.
    + pose proof (meridional_ge lat). lra.
    + exact (north_derivative lat lon h).
Qed.

End Axes.

Lemma frame_axes : forall (el : ellipsoid (T:=R)) lat lon h,
  0 < el_a el -> 0 <= el_e2 el < 1 -> - PI / 2 < lat < PI / 2 -> - el_a el * (1 - el_e2 el) < h ->
  let Rm := frame_rotation ROps lat lon in
  col Rm 2 = normal lat lon /\
  (exists r, 0 < r /\
     is_derive3 (fun l => toECEF ROps el (mkGeo lat l h)) lon
                (mkV3 (r * vx (col Rm 0)) (r * vy (col Rm 0)) (r * vz (col Rm 0)))) /\
  (exists m, 0 < m /\
     is_derive3 (fun p => toECEF ROps el (mkGeo p lon h)) lat
                (mkV3 (m * vx (col Rm 1)) (m * vy (col Rm 1)) (m * vz (col Rm 1)))).
Proof. intros el lat lon h Ha He2 Hl Hh. exact (frame_axes_section el Ha He2 lat lon h Hl Hh). Qed.
