(* SrcTieC04.v — SYNTACTIC SOURCE TIE for C04.  The terms regenerated on every run by translate/tr_C04_kabsch.py from the
   clang AST of the instantiated members of FindRigidTransformationBySVD<P> (coq/gen/SrcKabsch.v; P = Vector2d, Vector3d,
   HomogeneousCoordinates2d, HomogeneousCoordinates3d) equal the functions of KabschModel.v the C04 theorems are about.
   The lemmas are POLYMORPHIC in the numeric dictionary N: they hold for every dictionary satisfying the two literal laws
   KabschLits (SrcMat.v: the source's `0` is nzero, `x * (-1)` is -x) — in particular for ROps (the reals), below.
   The SVD is an oracle on both sides: the generated functions take `jacobi_svd`, instantiated here with the model's
   [svd_of d]; nothing is assumed about it. *)
From Coq Require Import Reals List Arith ZArith Bool Lia Lra.
From Romea Require Import Num NumR LinAlgBModel KabschModel SrcMat SrcFold.
From Romea.gen Require Import SrcKabsch.
Import ListNotations.

Section Generic.
Context {T : Type} (N : NumOps T) (L : KabschLits N).
Variable svd_of : nat -> list (list T) -> (list (list T) * list T) * list (list T).

(* the pairs the correspondence overload works on (the model's [pairs_of_corr] without its range guard) *)
Definition corr_pairs (src tgt : list (list T)) (corr : list (nat * nat)) : list (list T * list T) :=
  map (fun c : nat * nat => (nth (fst c) src [], nth (snd c) tgt [])) corr.

Lemma pairs_of_corr_Some src tgt corr prs : pairs_of_corr src tgt corr = Some prs -> prs = corr_pairs src tgt corr.
Proof. unfold pairs_of_corr. destruct (forallb _ corr); [|discriminate]. now intros [= <-]. Qed.

(* the model after its SVD call, as a function of the oracle's answer *)
Definition rot_from (d : nat) (r : svd_result T) : list (list T) :=
  let '(U, _, V) := r in
  let R0 := mmul N d d d V (mtrans N d d U) in
  if nltb N (fdet N d (mget N R0)) (nzero N) then mmul N d d d (negate_last_col N d V) (mtrans N d d U) else R0.

Lemma estimate_pairs_flat d ps pairs sm tm cov r :
  mean_of N ps (map fst pairs) = sm -> mean_of N ps (map snd pairs) = tm -> cross_cov N d pairs sm tm = cov ->
  svd_of d cov = r ->
  estimate_pairs N svd_of true d ps pairs = assemble N d ps (rot_from d r) sm tm.
Proof. intros <- <- <- <-. reflexivity. Qed.

(* ---------- tactics ---------- *)
(* [loop_over l d]: the first index loop of the goal reads [l] only at the loop index (default element [d]): a fold over [l] *)
Ltac loop_over l d :=
  erewrite (fold_seq_nth_gen l d);
  [| let st := fresh "st" in let n := fresh "n" in intros st n; generalize (nth n l d); intros; reflexivity ].
(* [loop_over2 la lb H]: it reads the aligned lists [la], [lb] (H : length la = length lb) at the loop index: a fold over [combine la lb] *)
Ltac loop_over2 la lb H :=
  erewrite (fold_seq_nth2_gen la lb [] []);
  [| let st := fresh "st" in let n := fresh "n" in intros st n; generalize (nth n la []) (nth n lb []); intros; reflexivity
   | exact H ].
(* the state of the first fold of the goal is a tuple of independently accumulated components: split it, component by component *)
Ltac split_state :=
  first [ erewrite fold_split16 | erewrite fold_split9 | erewrite fold_split8 | erewrite fold_split6 | erewrite fold_split4
        | erewrite fold_split3 | erewrite fold_split2 ];
  [| intros; cbv beta iota; reflexivity ]; cbv beta iota.
(* the model's means / cross covariance as explicit lists of folds over the same list (the evars of estimate_pairs_flat) *)
Ltac model_means H :=
  unfold mean_of, corr_pairs, sum_list, nat_to_T, tab; cbn [map seq fst snd];
  rewrite ?(map_fst_combine _ _ H), ?(map_snd_combine _ _ H), ?map_map, ?map_length, ?fold_left_map_gen; cbn [fst snd];
  reflexivity.
Ltac model_cov :=
  unfold cross_cov, mtab, tab, corr_pairs, sum_list; cbn [map seq fst snd];
  rewrite ?fold_left_map_gen; cbn [fst snd]; reflexivity.
(* after the loops: the oracle's answer is abstracted on both sides, the rest is computed for the two values of the reflection test *)
Ltac tie_tail H :=
  erewrite estimate_pairs_flat; [| model_means H | model_means H | model_cov | reflexivity ];
  match goal with
  | |- (let l := svd_of ?d ?cg in _) = assemble _ _ _ (rot_from _ (svd_of _ ?cm)) _ _ =>
      change cm with cg; generalize (svd_of d cg)
  end;
  let U := fresh "U" in let sg := fresh "sg" in let V := fresh "V" in
  intros [[U sg] V]; cbv zeta; rewrite ?(kl_zero N L), ?(kl_negone N L); cbv;
  match goal with |- context [if ?c then _ else _] => destruct c end; reflexivity.
(* (a loop written as a range-for is already a fold over the list: the [try]) *)
Ltac tie_estimate_corr def corr :=
  cbv delta [def]; cbv beta; try loop_over corr (O, O); split_state; try loop_over corr (O, O); split_state; tie_tail (eq_refl 0%nat).
Ltac tie_estimate_aligned def src tgt H :=
  cbv delta [def]; cbv beta; split_state; split_state; loop_over2 src tgt H; split_state; tie_tail H.

(* ---------- estimate_(sourcePoints, targetPoints, correspondences) ---------- *)
Lemma tie_estimate_corr_v2 src tgt corr :
  src_estimate_corr_v2 N (svd_of 2) src tgt corr = estimate_pairs N svd_of true 2 2 (corr_pairs src tgt corr).
Proof using L. tie_estimate_corr (@src_estimate_corr_v2) corr. Qed.
Lemma tie_estimate_corr_v3 src tgt corr :
  src_estimate_corr_v3 N (svd_of 3) src tgt corr = estimate_pairs N svd_of true 3 3 (corr_pairs src tgt corr).
Proof using L. tie_estimate_corr (@src_estimate_corr_v3) corr. Qed.
Lemma tie_estimate_corr_h2 src tgt corr :
  src_estimate_corr_h2 N (svd_of 2) src tgt corr = estimate_pairs N svd_of true 2 3 (corr_pairs src tgt corr).
Proof using L. tie_estimate_corr (@src_estimate_corr_h2) corr. Qed.
Lemma tie_estimate_corr_h3 src tgt corr :
  src_estimate_corr_h3 N (svd_of 3) src tgt corr = estimate_pairs N svd_of true 3 4 (corr_pairs src tgt corr).
Proof using L. tie_estimate_corr (@src_estimate_corr_h3) corr. Qed.

(* ---------- estimate_(sourcePoints, targetPoints) ---------- *)
Lemma tie_estimate_aligned_v2 src tgt : length src = length tgt ->
  src_estimate_aligned_v2 N (svd_of 2) src tgt = estimate_pairs N svd_of true 2 2 (combine src tgt).
Proof using L. intros H. tie_estimate_aligned (@src_estimate_aligned_v2) src tgt H. Qed.
Lemma tie_estimate_aligned_v3 src tgt : length src = length tgt ->
  src_estimate_aligned_v3 N (svd_of 3) src tgt = estimate_pairs N svd_of true 3 3 (combine src tgt).
Proof using L. intros H. tie_estimate_aligned (@src_estimate_aligned_v3) src tgt H. Qed.
Lemma tie_estimate_aligned_h2 src tgt : length src = length tgt ->
  src_estimate_aligned_h2 N (svd_of 2) src tgt = estimate_pairs N svd_of true 2 3 (combine src tgt).
Proof using L. intros H. tie_estimate_aligned (@src_estimate_aligned_h2) src tgt H. Qed.
Lemma tie_estimate_aligned_h3 src tgt : length src = length tgt ->
  src_estimate_aligned_h3 N (svd_of 3) src tgt = estimate_pairs N svd_of true 3 4 (combine src tgt).
Proof using L. intros H. tie_estimate_aligned (@src_estimate_aligned_h3) src tgt H. Qed.

(* ---------- the model's guarded functions, when they are defined ---------- *)
Lemma estimate_corr_Some d ps src tgt corr H :
  estimate_corr N svd_of true d ps src tgt corr = Some H -> H = estimate_pairs N svd_of true d ps (corr_pairs src tgt corr).
Proof.
  unfold estimate_corr. destruct (pairs_of_corr src tgt corr) as [prs|] eqn:E; [|discriminate].
  intros [= <-]. now rewrite (pairs_of_corr_Some _ _ _ _ E).
Qed.
Lemma estimate_aligned_Some d ps src tgt H :
  estimate_aligned N svd_of true d ps src tgt = Some H ->
  length src = length tgt /\ H = estimate_pairs N svd_of true d ps (combine src tgt).
Proof.
  unfold estimate_aligned. destruct (Nat.eqb_spec (length src) (length tgt)) as [E|E]; [|discriminate].
  intros [= <-]. now split.
Qed.
Lemma find_corr_pre_Some d ps ssrc stgt src tgt corr H :
  find_corr_pre N svd_of true d ps ssrc stgt src tgt corr = Some H ->
  H = unscale_translation N d (estimate_pairs N svd_of true d ps
        (corr_pairs (precondition N ssrc src) (precondition N stgt tgt) corr)) (precond_matrix00 N stgt).
Proof.
  unfold find_corr_pre. destruct (estimate_corr _ _ _ _ _ _ _ _) as [H0|] eqn:E; [|discriminate].
  intros [= <-]. now rewrite (estimate_corr_Some _ _ _ _ _ _ E).
Qed.
Lemma find_aligned_pre_Some d ps ssrc stgt src tgt H :
  find_aligned_pre N svd_of true d ps ssrc stgt src tgt = Some H ->
  length src = length tgt /\
  H = unscale_translation N d (estimate_pairs N svd_of true d ps
        (combine (precondition N ssrc src) (precondition N stgt tgt))) (precond_matrix00 N stgt).
Proof.
  unfold find_aligned_pre. destruct (estimate_aligned _ _ _ _ _ _ _) as [H0|] eqn:E; [|discriminate].
  intros [= <-]. destruct (estimate_aligned_Some _ _ _ _ _ E) as [Hl ->]. split; [|reflexivity].
  unfold precondition in Hl. now rewrite !map_length in Hl.
Qed.

(* ---------- find(PointSet, PointSet[, correspondences]): the estimate itself ---------- *)
Ltac tie_find def lem := cbv delta [def]; cbv beta zeta; apply lem.
Lemma tie_find_corr_v2 src tgt corr :
  src_find_corr_v2 N (svd_of 2) src tgt corr = estimate_pairs N svd_of true 2 2 (corr_pairs src tgt corr).
Proof using L. tie_find (@src_find_corr_v2) tie_estimate_corr_v2. Qed.
Lemma tie_find_corr_v3 src tgt corr :
  src_find_corr_v3 N (svd_of 3) src tgt corr = estimate_pairs N svd_of true 3 3 (corr_pairs src tgt corr).
Proof using L. tie_find (@src_find_corr_v3) tie_estimate_corr_v3. Qed.
Lemma tie_find_corr_h2 src tgt corr :
  src_find_corr_h2 N (svd_of 2) src tgt corr = estimate_pairs N svd_of true 2 3 (corr_pairs src tgt corr).
Proof using L. tie_find (@src_find_corr_h2) tie_estimate_corr_h2. Qed.
Lemma tie_find_corr_h3 src tgt corr :
  src_find_corr_h3 N (svd_of 3) src tgt corr = estimate_pairs N svd_of true 3 4 (corr_pairs src tgt corr).
Proof using L. tie_find (@src_find_corr_h3) tie_estimate_corr_h3. Qed.
Lemma tie_find_aligned_v2 src tgt : length src = length tgt ->
  src_find_aligned_v2 N (svd_of 2) src tgt = estimate_pairs N svd_of true 2 2 (combine src tgt).
Proof using L. tie_find (@src_find_aligned_v2) tie_estimate_aligned_v2. Qed.
Lemma tie_find_aligned_v3 src tgt : length src = length tgt ->
  src_find_aligned_v3 N (svd_of 3) src tgt = estimate_pairs N svd_of true 3 3 (combine src tgt).
Proof using L. tie_find (@src_find_aligned_v3) tie_estimate_aligned_v3. Qed.
Lemma tie_find_aligned_h2 src tgt : length src = length tgt ->
  src_find_aligned_h2 N (svd_of 2) src tgt = estimate_pairs N svd_of true 2 3 (combine src tgt).
Proof using L. tie_find (@src_find_aligned_h2) tie_estimate_aligned_h2. Qed.
Lemma tie_find_aligned_h3 src tgt : length src = length tgt ->
  src_find_aligned_h3 N (svd_of 3) src tgt = estimate_pairs N svd_of true 3 4 (combine src tgt).
Proof using L. tie_find (@src_find_aligned_h3) tie_estimate_aligned_h3. Qed.

(* ---------- find(PreconditionedPointSet, PreconditionedPointSet[, correspondences]) ----------
   arguments of the generated functions: the data members points_, preconditioningMatrix_ of the two sets (the getters get(),
   getPreconditioningMatrix() are translated from their bodies): the estimate on the stored points, then the first d entries
   of the last column divided by entry (0,0) of the TARGET set's preconditioning matrix *)
Ltac tie_find_pre def lem :=
  cbv delta [def]; cbv beta zeta; rewrite lem;
  match goal with |- context [estimate_pairs ?a ?b ?c ?d ?e ?f] => generalize (estimate_pairs a b c d e f) end;
  intros; reflexivity.
Lemma tie_find_pre_corr_v2 sp sm tp tm corr :
  src_find_pre_corr_v2 N (svd_of 2) sp sm tp tm corr
  = unscale_translation N 2 (estimate_pairs N svd_of true 2 2 (corr_pairs sp tp corr)) (mcomp N tm 0 0).
Proof using L. tie_find_pre (@src_find_pre_corr_v2) tie_estimate_corr_v2. Qed.
Lemma tie_find_pre_corr_v3 sp sm tp tm corr :
  src_find_pre_corr_v3 N (svd_of 3) sp sm tp tm corr
  = unscale_translation N 3 (estimate_pairs N svd_of true 3 3 (corr_pairs sp tp corr)) (mcomp N tm 0 0).
Proof using L. tie_find_pre (@src_find_pre_corr_v3) tie_estimate_corr_v3. Qed.
Lemma tie_find_pre_corr_h2 sp sm tp tm corr :
  src_find_pre_corr_h2 N (svd_of 2) sp sm tp tm corr
  = unscale_translation N 2 (estimate_pairs N svd_of true 2 3 (corr_pairs sp tp corr)) (mcomp N tm 0 0).
Proof using L. tie_find_pre (@src_find_pre_corr_h2) tie_estimate_corr_h2. Qed.
Lemma tie_find_pre_corr_h3 sp sm tp tm corr :
  src_find_pre_corr_h3 N (svd_of 3) sp sm tp tm corr
  = unscale_translation N 3 (estimate_pairs N svd_of true 3 4 (corr_pairs sp tp corr)) (mcomp N tm 0 0).
Proof using L. tie_find_pre (@src_find_pre_corr_h3) tie_estimate_corr_h3. Qed.
Lemma tie_find_pre_aligned_v2 sp sm tp tm : length sp = length tp ->
  src_find_pre_aligned_v2 N (svd_of 2) sp sm tp tm
  = unscale_translation N 2 (estimate_pairs N svd_of true 2 2 (combine sp tp)) (mcomp N tm 0 0).
Proof using L. intros H. tie_find_pre (@src_find_pre_aligned_v2) (tie_estimate_aligned_v2 sp tp H). Qed.
Lemma tie_find_pre_aligned_v3 sp sm tp tm : length sp = length tp ->
  src_find_pre_aligned_v3 N (svd_of 3) sp sm tp tm
  = unscale_translation N 3 (estimate_pairs N svd_of true 3 3 (combine sp tp)) (mcomp N tm 0 0).
Proof using L. intros H. tie_find_pre (@src_find_pre_aligned_v3) (tie_estimate_aligned_v3 sp tp H). Qed.
Lemma tie_find_pre_aligned_h2 sp sm tp tm : length sp = length tp ->
  src_find_pre_aligned_h2 N (svd_of 2) sp sm tp tm
  = unscale_translation N 2 (estimate_pairs N svd_of true 2 3 (combine sp tp)) (mcomp N tm 0 0).
Proof using L. intros H. tie_find_pre (@src_find_pre_aligned_h2) (tie_estimate_aligned_h2 sp tp H). Qed.
Lemma tie_find_pre_aligned_h3 sp sm tp tm : length sp = length tp ->
  src_find_pre_aligned_h3 N (svd_of 3) sp sm tp tm
  = unscale_translation N 3 (estimate_pairs N svd_of true 3 4 (combine sp tp)) (mcomp N tm 0 0).
Proof using L. intros H. tie_find_pre (@src_find_pre_aligned_h3) (tie_estimate_aligned_h3 sp tp H). Qed.

End Generic.
