(* SrcTieC06.v — the scalar / control code of C06 regenerated from the clang AST of the current sources
   (coq/gen/SrcRansac.v, written on every run by translate/tr_C06_ransac.py) equals the models the C06 theorems are
   about (RansacModel.v, IcpModel.v).

   RansacIterations: an object is the tuple of its members; the model keeps the third member (a double that only ever
   holds an integer) as that integer, so the two are related by [iters_rep]: third component = nofZ N (it_n s).
   - constructor, get: for EVERY numeric dictionary, by conversion (so also for the executed binary64 instance);
   - update: for every dictionary the generated term is, by conversion, the model's pre-truncation ratio pushed through
     ntruncZ, nofZ and std::min on doubles; it is the model's Z.min for every dictionary whose integer -> scalar
     conversion preserves the order ([int_order_embedding]; the reals do, and binary64 does below 2^53).
   Ransac::estimateModel: the generated program over an abstract model object (virtual calls = arguments) equals
     RansacModel.estimate on (return value, final object), for every dictionary with [int_order_embedding].
   FindRigidTransformationByICP::find: the block run after a successful estimateModel() equals IcpModel.icp_step for
     every dictionary; the loop header / return statement give icp_loop's counter and result. *)
From Coq Require Import Reals ZArith List Bool Lia Lra.
From Romea Require Import Num NumR RansacModel IcpModel EstimateProofs.
From Romea.gen Require Import RepoConstants SrcRansac.
Import ListNotations.
Local Open Scope Z_scope.

Definition iters_rep {T} (N : NumOps T) (s : iters T) : T * T * T := (it_logopp s, it_oneovern s, nofZ N (it_n s)).

Definition int_order_embedding {T} (N : NumOps T) : Prop :=
  forall a b : Z, nltb N (nofZ N a) (nofZ N b) = (a <? b).

Lemma int_order_embedding_R : int_order_embedding ROps.
Proof.
  intros a b. cbn [nltb nofZ ROps]. destruct (Z.ltb_spec a b) as [H|H].
  - apply Rltb_true. now apply IZR_lt.
  - apply Rltb_false. now apply IZR_le.
Qed.

(* ------------------------------------------------------------------------------------------------ RansacIterations *)
Section Iterations.
  Context {T : Type} (N : NumOps T).

  Lemma tie_iters_init npoints p maxit :
    src_iters_init N npoints p maxit = iters_rep N (iters_init N npoints p maxit).
  Proof. reflexivity. Qed.

  Lemma tie_iters_get s : src_iters_get N (iters_rep N s) = nofZ N (iters_get s).
  Proof. reflexivity. Qed.

  (* the source's update, for every dictionary: same clamps (std::max with EPSILON, std::min with 1 - EPSILON), same
     quotient, truncated, converted back and combined with std::min on doubles *)
  Lemma tie_iters_update_raw s k sdraw :
    src_iters_update N (iters_rep N s) k sdraw =
    (it_logopp s, it_oneovern s, nmin2 N (nofZ N (it_n s)) (nofZ N (ntruncZ N (iters_ratio N s k sdraw)))).
  Proof. reflexivity. Qed.

  Hypothesis Hemb : int_order_embedding N.

  Lemma nmin2_nofZ a b : nmin2 N (nofZ N a) (nofZ N b) = nofZ N (Z.min a b).
  Proof.
    unfold nmin2. rewrite Hemb. destruct (Z.ltb_spec b a); [rewrite Z.min_r by lia | rewrite Z.min_l by lia]; reflexivity.
  Qed.

  Lemma tie_iters_update s k sdraw :
    src_iters_update N (iters_rep N s) k sdraw = iters_rep N (iters_update N s k sdraw).
  Proof. rewrite tie_iters_update_raw, nmin2_nofZ. reflexivity. Qed.

  (* the loop test  iteration < ransacIterations.get()  (size_t against double) *)
  Lemma tie_iters_loop_test iter s : nltb N (nofZ N iter) (src_iters_get N (iters_rep N s)) = (iter <? it_n s).
  Proof. rewrite tie_iters_get. apply Hemb. Qed.
End Iterations.

(* ------------------------------------------------------------------------------------------------ Ransac::estimateModel *)
(* what the two loops return, compared: (object, iteration, bestNumberOfInliers) — the generated loop also carries the
   RansacIterations object, the model's record also carries ghost fields (events, chosen iteration) *)
Definition loop_agree {S T : Type} (a : option (S * Z * Z * (T * T * T))) (b : option (loop_result S)) : Prop :=
  match a, b with
  | None, None => True
  | Some (s', it', b', _), Some r => s' = lr_state r /\ it' = lr_iters r /\ b' = lr_best r
  | _, _ => False
  end.

Section Estimate.
  Context {T : Type} (N : NumOps T) (Hemb : int_order_embedding N) {S : Type}.
  Variable draw : T -> S -> S * bool.            (* ransacModel_->draw(modelErrorDeviation_)          *)
  Variable countInliers : T -> S -> S * Z.       (* ransacModel_->countInliers(modelErrorDeviation_)  *)
  Variable refine : S -> S.                      (* ransacModel_->refine()                            *)
  Variables getNumberOfPoints getNumberOfPointsToDrawModel getMinimalNumberOfInliers : S -> Z.   (* const getters *)

  Theorem tie_estimateModel (p sigma : T) (s : S) :
    src_estimateModel N draw countInliers refine getNumberOfPoints getNumberOfPointsToDrawModel getMinimalNumberOfInliers
                      (Z.to_nat ransac_maxit) p sigma s =
    match estimate N (draw sigma) (countInliers sigma) refine (getNumberOfPointsToDrawModel s)
                   (getNumberOfPoints s) (getMinimalNumberOfInliers s) p ransac_maxit s with
    | None => None
    | Some r => Some (er_ok r, er_state r)
    end.
  Proof.
    unfold src_estimateModel, estimate. cbv beta zeta.
    destruct (getNumberOfPoints s <? getMinimalNumberOfInliers s); [reflexivity|].
    rewrite tie_iters_init.
    match goal with |- match ?F _ s 0 0 _ with _ => _ end = _ =>
      assert (HL : forall fu s0 iter best chosen its,
                 loop_agree (F fu s0 iter best (iters_rep N its))
                            (est_loop N (draw sigma) (countInliers sigma) (getNumberOfPointsToDrawModel s) fu iter best chosen its s0)) end.
    { induction fu as [|f IH]; intros s0 iter best chosen its; rewrite est_loop_unfold; cbv beta iota fix zeta;
        rewrite (tie_iters_loop_test N Hemb); destruct (iter <? it_n its); try (cbn; tauto).
      destruct (draw sigma s0) as [s1 ok]. destruct ok.
      - destruct (countInliers sigma s1) as [s2 c]. cbv beta zeta.
        destruct (f32round best <? f32round c).
        + rewrite (tie_iters_update N Hemb).
          specialize (IH s2 (iter + 1) (f32round c) (Some iter) (iters_update N its (f32round c) (getNumberOfPointsToDrawModel s))).
          unfold loop_agree in *.
          destruct (est_loop N (draw sigma) (countInliers sigma) (getNumberOfPointsToDrawModel s) f (iter + 1) (f32round c) (Some iter)
                             (iters_update N its (f32round c) (getNumberOfPointsToDrawModel s)) s2) as [r|];
            match goal with |- match ?X with _ => _ end => destruct X as [[[[? ?] ?] ?]|] end; cbn [lr_state lr_iters lr_best]; exact IH.
        + specialize (IH s2 (iter + 1) best chosen its). unfold loop_agree in *.
          destruct (est_loop N (draw sigma) (countInliers sigma) (getNumberOfPointsToDrawModel s) f (iter + 1) best chosen its s2) as [r|];
            match goal with |- match ?X with _ => _ end => destruct X as [[[[? ?] ?] ?]|] end; cbn [lr_state lr_iters lr_best]; exact IH.
      - specialize (IH s1 (iter + 1) best chosen its). unfold loop_agree in *.
        destruct (est_loop N (draw sigma) (countInliers sigma) (getNumberOfPointsToDrawModel s) f (iter + 1) best chosen its s1) as [r|];
          match goal with |- match ?X with _ => _ end => destruct X as [[[[? ?] ?] ?]|] end; cbn [lr_state lr_iters lr_best]; exact IH. }
    specialize (HL (Z.to_nat ransac_maxit) s 0 0 None (iters_init N (getNumberOfPoints s) p ransac_maxit)).
    unfold loop_agree in HL. unfold ransac_maxit, ransac_max_iterations in *.
    match goal with |- _ = match match ?E with _ => _ end with _ => _ end => destruct E as [r|] end;
      match goal with |- match ?X with _ => _ end = _ => destruct X as [[[[s' it'] b'] its']|] end; try tauto.
    destruct HL as (-> & _ & ->).
    (* the final test, whichever way the source writes it:  best <= s -> false  |  best > s -> refine, true *)
    destruct (Z.leb_spec (lr_best r) (getNumberOfPointsToDrawModel s));
      repeat match goal with
             | |- context [Z.ltb ?a ?b] => destruct (Z.ltb_spec a b)
             | |- context [Z.leb ?a ?b] => destruct (Z.leb_spec a b)
             end; try lia; reflexivity.
  Qed.
End Estimate.

(* ------------------------------------------------------------------------------------------------ ICP: exit logic *)
Section Icp.
  Context {T : Type} (N : NumOps T).

  (* The block run when ransac_.estimateModel() succeeded, against icp_step.  The model records WHICH iteration's matrix
     bestRigidTransformation holds (is_best) instead of the matrix; both are updated under the same test. *)
  Theorem tie_icp_block (eps : T) (n : Z) (st : icp_state T) (o : icp_outcome T) (bestM : list T) :
    src_icp_block N (io_rmse o) (io_M o) eps (is_best_rmse st) bestM (is_prev st) =
    (let st' := fst (icp_step N eps n st o) in
     (is_best_rmse st', (if nltb N (io_rmse o) (is_best_rmse st) then io_M o else bestM), is_prev st'),
     snd (icp_step N eps n st o)) /\
    is_best (fst (icp_step N eps n st o)) = (if nltb N (io_rmse o) (is_best_rmse st) then Some n else is_best st).
  Proof.
    unfold src_icp_block, icp_step. cbv beta zeta.
    destruct (nltb N (io_rmse o) (is_best_rmse st)); destruct (nltb N (mat_absdiff N (io_M o) (is_prev st)) eps);
      cbn [fst snd is_best is_best_rmse is_prev]; split; reflexivity.
  Qed.
End Icp.

(* the loop header  for (; n < maximalNumberOfIterations_; ++n)  and  return n != maximalNumberOfIterations_ *)
Lemma tie_icp_header maxit n :
  src_icp_continue maxit n = (n <? maxit) /\ src_icp_next n = n + 1 /\ src_icp_return maxit n = negb (n =? maxit).
Proof. repeat split. Qed.

(* The for loop assembled from the generated pieces (hand-written glue: one pass = skip when RANSAC failed, else the
   generated block; leave on break; the source's own continuation test, increment and return expression) computes
   IcpModel.icp_loop: same loop counter, same "found" flag, same rmse / previous-matrix state, and the matrix kept in
   bestRigidTransformation is the matrix of the iteration the model records in is_best. *)
Section IcpLoop.
  Context {T : Type} (N : NumOps T).

  Fixpoint src_icp_loop (eps : T) (maxit : Z) (fuel : nat) (n : Z) (rmse : T) (bestM prev : list T) (os : list (icp_outcome T))
    : option (bool * Z * (T * list T * list T)) :=
    if src_icp_continue maxit n then
      match fuel with
      | O => None
      | Datatypes.S f =>
        match os with
        | [] => None
        | o :: r =>
          if io_ok o then
            let '((rmse', bestM', prev'), brk) := src_icp_block N (io_rmse o) (io_M o) eps rmse bestM prev in
            if brk then Some (src_icp_return maxit n, n, (rmse', bestM', prev'))
            else src_icp_loop eps maxit f (src_icp_next n) rmse' bestM' prev' r
          else src_icp_loop eps maxit f (src_icp_next n) rmse bestM prev r
        end
      end
    else Some (src_icp_return maxit n, n, (rmse, bestM, prev)).

  (* matrix of the iteration the model's is_best names (the initial matrix when None) *)
  Definition best_matrix (init : list T) (all : list (icp_outcome T)) (b : option Z) : list T :=
    match b with None => init | Some k => match nth_error all (Z.to_nat k) with Some o => io_M o | None => init end end.

  Lemma tie_icp_loop eps maxit init all : forall fuel done os st bestM,
    all = done ++ os -> 0 <= maxit -> Z.of_nat (length done) + Z.of_nat fuel = maxit ->
    bestM = best_matrix init all (is_best st) ->
    match icp_loop N eps fuel (Z.of_nat (length done)) st os with
    | None => src_icp_loop eps maxit (S fuel) (Z.of_nat (length done)) (is_best_rmse st) bestM (is_prev st) os = None
    | Some r =>
      src_icp_loop eps maxit (S fuel) (Z.of_nat (length done)) (is_best_rmse st) bestM (is_prev st) os =
      Some (ir_found r, ir_n r, (is_best_rmse (ir_state r), best_matrix init all (is_best (ir_state r)), is_prev (ir_state r)))
    end.
  Proof.
    induction fuel as [|f IH]; intros done os st bestM Hall Hm Hl Hb.
    - cbn [icp_loop src_icp_loop]. destruct (tie_icp_header maxit (Z.of_nat (length done))) as (-> & _ & ->).
      replace (Z.of_nat (length done) <? maxit) with false by (symmetry; apply Z.ltb_ge; lia).
      replace (Z.of_nat (length done) =? maxit) with true by (symmetry; apply Z.eqb_eq; lia).
      cbn [ir_found ir_n ir_state negb]. now rewrite Hb.
    - cbn [icp_loop]. change (src_icp_loop eps maxit (S (S f))) with
        (fun n rmse bestM prev os => if src_icp_continue maxit n then
           match os with [] => None | o :: r =>
             if io_ok o then
               let '((rmse', bestM', prev'), brk) := src_icp_block N (io_rmse o) (io_M o) eps rmse bestM prev in
               if brk then Some (src_icp_return maxit n, n, (rmse', bestM', prev'))
               else src_icp_loop eps maxit (S f) (src_icp_next n) rmse' bestM' prev' r
             else src_icp_loop eps maxit (S f) (src_icp_next n) rmse bestM prev r end
         else Some (src_icp_return maxit n, n, (rmse, bestM, prev))). cbv beta.
      destruct (tie_icp_header maxit (Z.of_nat (length done))) as (-> & -> & ->).
      replace (Z.of_nat (length done) <? maxit) with true by (symmetry; apply Z.ltb_lt; lia).
      destruct os as [|o rest]; [reflexivity|].
      assert (Hlen : Z.of_nat (length done) + 1 = Z.of_nat (length (done ++ [o]))) by (rewrite app_length; cbn [length]; lia).
      assert (Hall' : all = (done ++ [o]) ++ rest) by (rewrite <- app_assoc; exact Hall).
      destruct (io_ok o) eqn:Hok.
      + destruct (tie_icp_block N eps (Z.of_nat (length done)) st o bestM) as [E Eb]. rewrite E. clear E.
        destruct (icp_step N eps (Z.of_nat (length done)) st o) as [st' brk]. cbn [fst snd] in *. cbv beta iota zeta.
        assert (HM : (if nltb N (io_rmse o) (is_best_rmse st) then io_M o else bestM) = best_matrix init all (is_best st')).
        { rewrite Eb. destruct (nltb N (io_rmse o) (is_best_rmse st)); [|exact Hb].
          unfold best_matrix. rewrite Nat2Z.id, Hall, nth_error_app2, Nat.sub_diag by lia. reflexivity. }
        destruct brk.
        * cbn [ir_found ir_n ir_state]. replace (Z.of_nat (length done) =? maxit) with false by (symmetry; apply Z.eqb_neq; lia).
          cbn [negb]. now rewrite HM.
        * rewrite Hlen. apply IH; [exact Hall' | exact Hm | rewrite <- Hlen; lia | exact HM].
      + rewrite Hlen. apply IH; [exact Hall' | exact Hm | rewrite <- Hlen; lia | exact Hb].
  Qed.

  (* find(): the assembled source loop from n = 0 with the initial values of the three locals *)
  Theorem tie_icp_run eps maxit identity os : 0 <= maxit ->
    match icp_run N eps maxit identity os with
    | None => src_icp_loop eps maxit (S (Z.to_nat maxit)) 0 (nmaxval N) identity identity os = None
    | Some r =>
      src_icp_loop eps maxit (S (Z.to_nat maxit)) 0 (nmaxval N) identity identity os =
      Some (ir_found r, ir_n r, (is_best_rmse (ir_state r), best_matrix identity os (is_best (ir_state r)), is_prev (ir_state r)))
    end.
  Proof.
    intros Hm. unfold icp_run.
    exact (tie_icp_loop eps maxit identity os (Z.to_nat maxit) [] os (icp_init N identity) identity eq_refl Hm
             ltac:(cbn [length]; lia) eq_refl).
  Qed.
End IcpLoop.
