(* Properties_C20.v — C20: bounding volumes, intervals and point-set extents enclose exactly what they should.
   Only statements, each closed by [exact <lemma>] and followed by Print Assumptions.
   [v.[i]] is [nth i v 0]; vectors are lists of reals, point sets are lists of vectors. *)
From Coq Require Import Reals ZArith List Bool Lra Lia.
From Romea Require Import Num NumR BoxModel BoxProofs.
Import ListNotations.
Local Open Scope R_scope.

(* --- an axis-aligned box built from an interval reproduces that interval (any dimension) --- *)
Theorem C20_aabb_interval_roundtrip : forall lo hi : list R, length lo = length hi ->
  aabb_to_interval ROps (aabb_of_interval ROps {| i_lower := lo; i_upper := hi |}) = {| i_lower := lo; i_upper := hi |}.
Proof. exact aabb_interval_roundtrip. Qed.
Print Assumptions C20_aabb_interval_roundtrip.

Theorem C20_aabb_to_interval : forall (c h : list R) i, length c = length h -> (i < length c)%nat ->
  (i_lower (aabb_to_interval ROps {| a_center := c; a_half := h |})).[i] = c.[i] - h.[i] /\
  (i_upper (aabb_to_interval ROps {| a_center := c; a_half := h |})).[i] = c.[i] + h.[i].
Proof. exact aabb_to_interval_nth. Qed.

(* --- containment: exactly when every coordinate lies within centre +- half-extent (closed) --- *)
Theorem C20_aabb_inside_iff : forall c h p : list R, length c = length h -> length p = length c ->
  (aabb_inside ROps {| a_center := c; a_half := h |} p = true <->
   forall i, (i < length c)%nat -> c.[i] - h.[i] <= p.[i] <= c.[i] + h.[i]).
Proof. exact aabb_inside_iff. Qed.
Print Assumptions C20_aabb_inside_iff.

(* --- interval union is the componentwise hull; membership is closed --- *)
Theorem C20_include_is_hull : forall (lo1 hi1 lo2 hi2 : list R) i,
  length lo1 = length lo2 -> length hi1 = length hi2 -> (i < length lo1)%nat -> (i < length hi1)%nat ->
  let u := interval_include ROps {| i_lower := lo1; i_upper := hi1 |} {| i_lower := lo2; i_upper := hi2 |} in
  (i_lower u).[i] = Rmin lo1.[i] lo2.[i] /\ (i_upper u).[i] = Rmax hi1.[i] hi2.[i].
Proof. exact include_is_hull. Qed.
Print Assumptions C20_include_is_hull.

Theorem C20_interval_inside_iff : forall lo hi v : list R, length lo = length v -> length hi = length v ->
  (interval_inside ROps {| i_lower := lo; i_upper := hi |} v = true <->
   forall i, (i < length v)%nat -> lo.[i] <= v.[i] <= hi.[i]).
Proof. exact interval_inside_iff. Qed.

Theorem C20_include_encloses_and_is_minimal : forall lo1 hi1 lo2 hi2 : list R,
  length lo1 = length lo2 -> length hi1 = length hi2 -> length lo1 = length hi1 ->
  let u := interval_include ROps {| i_lower := lo1; i_upper := hi1 |} {| i_lower := lo2; i_upper := hi2 |} in
  (forall v, length v = length lo1 ->
     interval_inside ROps {| i_lower := lo1; i_upper := hi1 |} v = true \/
     interval_inside ROps {| i_lower := lo2; i_upper := hi2 |} v = true -> interval_inside ROps u v = true) /\
  (forall lo hi, length lo = length lo1 -> length hi = length lo1 ->
     (forall i, (i < length lo1)%nat -> lo.[i] <= lo1.[i] /\ lo.[i] <= lo2.[i] /\ hi1.[i] <= hi.[i] /\ hi2.[i] <= hi.[i]) ->
     forall i, (i < length lo1)%nat -> lo.[i] <= (i_lower u).[i] /\ (i_upper u).[i] <= hi.[i]).
Proof. exact include_encloses_minimal. Qed.
Print Assumptions C20_include_encloses_and_is_minimal.

(* --- min / max / mean of a container: true componentwise extrema and centroid, for every non-empty list of
       points of size n with finite coordinates (|x| <= numeric_limits::max()) --- *)
Theorem C20_container_min_max_mean_correct : forall n (pts : list (list R)),
  pts <> [] -> Forall (fun p => length p = n) pts -> bounded pts ->
  forall i, (i < n)%nat ->
    is_min (coords pts i) (cont_min ROps n pts).[i] /\
    is_max (coords pts i) (cont_max ROps n pts).[i] /\
    (cont_mean ROps n pts).[i] = Rsum (coords pts i) / INR (length pts).
Proof. exact container_extents_correct. Qed.
Print Assumptions C20_container_min_max_mean_correct.

(* --- PointSetPreconditioner::compute --- *)
(* the code of the snapshot (running maximum started from numeric_limits::min(), the smallest positive normal):
   false on the all-negative set (-3,-4),(-1,-2): the reported maximum is not a coordinate of any point and the scale
   is not the reciprocal of the largest side (2).  Replayed on the implementation by checks/C20.py. *)
Theorem C20_preconditioner_extents_correct_minpos_refuted :
  exists pts : list (list R), pts <> [] /\ Forall (fun p => length p = 2%nat) pts /\ bounded pts /\
    let pc := precond_compute_minpos ROps 2 2 pts in
    ~ is_max (coords pts 0) (pc_max pc).[0%nat] /\
    (exists L, is_max [ -1 - -3; -2 - -4 ] L /\ 0 < L /\ pc_scale pc <> / L).
Proof. exact precond_minpos_refuted. Qed.
Print Assumptions C20_preconditioner_extents_correct_minpos_refuted.

(* what a running maximum started from an arbitrary value m0 reports: max(m0, true maximum) *)
Theorem C20_preconditioner_max_characterised : forall m0 size cdim (pts : list (list R)) i,
  Forall (fun p => length p = size) pts -> (i < size)%nat ->
  (pc_max (precond_with ROps m0 size cdim pts)).[i] = fold_left Rmax (coords pts i) m0.
Proof. exact precond_max_characterised. Qed.

(* with the running maximum started from lowest() = -max(): extents, centroid, scale = 1 / largest side
   (when that side is > 0) and translation = -centroid * scale, for every non-empty set *)
Theorem C20_preconditioner_extents_correct : forall size cdim (pts : list (list R)),
  pts <> [] -> (0 < size)%nat -> (cdim <= size)%nat -> Forall (fun p => length p = size) pts -> bounded pts ->
  let pc := precond_compute ROps size cdim pts in
  (forall i, (i < size)%nat ->
     is_min (coords pts i) (pc_min pc).[i] /\ is_max (coords pts i) (pc_max pc).[i] /\
     (pc_mean pc).[i] = Rsum (coords pts i) / INR (length pts)) /\
  (exists L, is_max (map (fun i => (pc_max pc).[i] - (pc_min pc).[i]) (seq 0 size)) L /\
             (0 < L -> pc_scale pc = / L)) /\
  (forall j, (j < cdim)%nat -> (pc_translation pc).[j] = - (pc_mean pc).[j] * pc_scale pc).
Proof. exact precond_lowest_correct. Qed.
Print Assumptions C20_preconditioner_extents_correct.

(* --- non-vacuity --- *)
Example C20_ex_inside : aabb_inside ROps {| a_center := [1; 2]; a_half := [1; 0] |} [2; 2] = true.
Proof. apply C20_aabb_inside_iff; auto. intros [|[|i]] Hi; cbn in *; try lia; lra. Qed.
